(* C12, the clauses that were only checked on the implementation's outcomes, proved of the
   model [merge] (Model/Merge.v):

   1. [merge_removes_nothing]   merging R over L removes no node of L, except beneath a node
                                to which R gives a leaf value  (statement as given);
      [merge_removes_nothing_kind]  the same with the exception clause of the checker
                                (Driver/Typed.v): beneath a node whose kind R changes;
   2. [merge_field_set_union]   the field set of the result is the union of both field sets,
                                apart from what lies at or beneath a replaced node.
                                THE THIRD CLAUSE DIFFERS FROM THE GIVEN STATEMENT, which is false:
                                [merge_field_set_union_given_clause_refuted] (a field of a
                                type that allows a scalar and a granular map, e.g. the deduced
                                type: L gives it a scalar, R a map).  The exception clause now
                                also allows a change of kind at a prefix of p (p included);
                                [merge_field_set_union_kind] states it with the checker's clause alone
                                (a change of kind at a prefix of p);
                                [merge_field_set_union_pure] is the given statement verbatim
                                under the side condition [maps_pure];
   3. [merge_order]             the executable ordering law [order_ok] holds of every merge
                                result (statement as given; the plain hypotheses are not used).

   Proofs: Proofs/MergeRestBase.v (the resolver on conforming objects), MergeRest1.v (1),
   MergeRest2a.v (which nodes are members of a field set), MergeRest2.v (2), MergeRest3.v (3). *)
From Coq Require Import List ZArith String Bool Arith Lia.
From SMD Require Import Model.Value Model.Order Model.PathElem Model.PathSet Model.Schema Model.Walk
  Model.Validate Model.FieldSet Model.Merge
  Spec.PathsAsSets Spec.RefValid Spec.Resolve Spec.Agree Spec.Examples
  Proofs.OrderLaws Proofs.PathSetLaws Proofs.SchemaOk Proofs.FieldSetLaws Proofs.ResolveLaws
  Proofs.MergeLaws Proofs.MergeAgree Proofs.RemoveFrame Proofs.MergeKeeps Proofs.MergeThru Proofs.RefDiffBoth.
From SMD Require Import Proofs.FieldSetShape Proofs.FieldSetPaths Proofs.NodeSet Proofs.ReconcileBase
  Proofs.ReconcileLaws Proofs.ExtractBase Proofs.TreeFacts Proofs.MergeBase Proofs.MergeAssoc
  Proofs.CompareLaws Proofs.RefDiffLaws
  Proofs.MergeRestBase Proofs.MergeRest1 Proofs.MergeRest2a Proofs.MergeRest2 Proofs.MergeRest3.
Import ListNotations.
Open Scope bool_scope.

(* a node q of L "changes kind": R has at q a value of another kind (scalar / list / map
   among non-null values; [kclass]-style) *)
Definition kind_differs (a b : value) : bool :=
  match a, b with
  | VNull, _ | _, VNull => false
  | VList _, VList _ | VMap _, VMap _ => false
  | VList _, _ | _, VList _ | VMap _, _ | _, VMap _ => true
  | _, _ => false
  end.

Definition beneath_kind_change (s : schema) (tr : typeref) (l r : value) (p : path) : Prop :=
  exists q tl x tr2 y, is_prefix q p = true /\ q <> p /\
    resolve_path s tr l q = Some (RNode tl x) /\ resolve_path s tr r q = Some (RNode tr2 y) /\
    kind_differs x y = true.

(* a granular map type is the only member of its atom (as [lists_pure] for lists): no field
   allows both a map with separately owned fields and a scalar or atomic list *)
Definition maps_pure (s : schema) (R : typeref -> Prop) : Prop :=
  forall tr sc li t, R tr -> resolve s tr = Some (Atom sc li (Some t)) ->
    rel_is_atomic (map_rel t) = false -> sc = None /\ li = None.

(* ---------- kinds ---------- *)

Ltac kcrush :=
  repeat match goal with
  | H : context [match ?o with Some _ => _ | None => _ end] |- _ => destruct o; simpl in H
  | H : context [if ?b then _ else _] |- _ => destruct b; simpl in H
  | H : context [match ?l with [] => _ | _ :: _ => _ end] |- _ => destruct l; simpl in H
  end; try contradiction; try discriminate; try reflexivity.

Lemma granular_leafy_differs : forall s t x y, plain y = true ->
  granular s t x -> leafy s t y -> kind_differs x y = true.
Proof.
  intros s t x y Hp Hg Hl. unfold granular, leafy, kind_of in *.
  destruct (resolve s t) as [[sc li ma]|]; [|contradiction].
  destruct x as [| | | | |lx|mx]; destruct y as [| | | | |ly|my]; simpl in *;
    try reflexivity; try discriminate; kcrush.
Qed.

Lemma leafy_granular_differs : forall s t x y, plain x = true ->
  leafy s t x -> granular s t y -> kind_differs x y = true.
Proof.
  intros s t x y Hp Hl Hg. unfold granular, leafy, kind_of in *.
  destruct (resolve s t) as [[sc li ma]|]; [|contradiction].
  destruct x as [| | | | |lx|mx]; destruct y as [| | | | |ly|my]; simpl in *;
    try reflexivity; try discriminate; kcrush.
Qed.

(* under [lists_pure] and [maps_pure] a plain leaf and a granular value never share a type *)
Lemma pure_no_leaf_granular : forall s R t dup x y, lists_pure s R -> maps_pure s R -> R t ->
  conforms s t dup x = true -> plain x = true -> leafy s t x -> granular s t y -> False.
Proof.
  intros s R t dup x y Hlp Hmp HR Hc Hp Hl Hg.
  rewrite ValidateLaws.conforms_eq in Hc. unfold granular, leafy, kind_of in *.
  destruct (resolve s t) as [[sc li ma]|] eqn:Er; [|contradiction].
  destruct y as [| | | | |ly|my]; simpl in Hg; try (destruct sc; contradiction); try contradiction.
  - destruct li as [tl|]; [|contradiction].
    destruct (rel_is_atomic (list_rel tl)) eqn:Ea; [contradiction|].
    destruct (Hlp t sc tl ma HR Er Ea) as [-> ->].
    destruct x as [| | | | |lx|mx]; simpl in Hc, Hl, Hp; try discriminate.
    destruct lx; [discriminate|contradiction].
  - destruct ma as [tm|]; [|contradiction].
    destruct (rel_is_atomic (map_rel tm)) eqn:Ea; [contradiction|].
    destruct (Hmp t sc li tm HR Er Ea) as [-> ->].
    destruct x as [| | | | |lx|mx]; simpl in Hc, Hl, Hp; try discriminate.
    destruct mx; [discriminate|contradiction].
Qed.

(* ---------- 1. nothing of L is removed ---------- *)

Theorem merge_removes_nothing : forall s R tr l r out p,
  schema_ok s R -> family_refs s R -> lists_pure s R -> R tr ->
  wf_value l = true -> wf_value r = true ->
  conforms s tr true l = true -> conforms s tr false r = true -> plain r = true ->
  merge s tr l r = Some (Some out) ->
  wf_path p = true -> present s tr l p = true ->
  present s tr out p = true \/
  (exists q, is_prefix q p = true /\ q <> p /\
     exists tq y, resolve_path s tr r q = Some (RNode tq y) /\ leafy s tq y).
Proof. exact MergeRest1.merge_removes_nothing. Qed.

(* above a present path there are only granular single nodes *)
Lemma above_present_granular : forall s tr v p j, present s tr v p = true -> j < List.length p ->
  exists tl x, resolve_path s tr v (firstn j p) = Some (RNode tl x) /\ granular s tl x.
Proof.
  intros s tr v p j Hpres Hj.
  assert (Hne : skipn j p <> []).
  { intros E. pose proof (firstn_skipn j p) as Hs. rewrite E, app_nil_r in Hs.
    apply (f_equal (@List.length pe)) in Hs. rewrite firstn_length in Hs. lia. }
  unfold present in Hpres. rewrite <- (firstn_skipn j p), resolve_path_app in Hpres.
  destruct (resolve_path s tr v (firstn j p)) as [[tl x|tl xs]|] eqn:El;
    [| destruct (skipn j p); [congruence|discriminate] | discriminate].
  exists tl, x. split; [reflexivity|].
  apply (present_granular s tl x (skipn j p) Hne). unfold present.
  destruct (resolve_path s tl x (skipn j p)); [reflexivity|discriminate].
Qed.

(* the exception clause of the checker: p lies beneath a node of L whose kind R changes *)
Theorem merge_removes_nothing_kind : forall s R tr l r out p,
  schema_ok s R -> family_refs s R -> lists_pure s R -> R tr ->
  wf_value l = true -> wf_value r = true ->
  conforms s tr true l = true -> conforms s tr false r = true -> plain r = true ->
  merge s tr l r = Some (Some out) ->
  wf_path p = true -> present s tr l p = true ->
  present s tr out p = true \/ beneath_kind_change s tr l r p.
Proof.
  intros s R tr l r out p Hok Hfam Hpure HR Hwl Hwr Hcl Hcr Hpl Hm Hp Hpres.
  destruct (merge_removes_nothing_j s R tr l r out p Hok Hfam Hpure HR Hwl Hwr Hcl Hcr Hpl Hm Hp Hpres)
    as [H|(j & Hj & tq & y & Hres & Hleaf)]; [left; exact H|].
  right. unfold beneath_kind_change.
  assert (Hqw : wf_path (firstn j p) = true) by (apply wf_path_firstn; exact Hp).
  destruct (above_present_granular s tr l p j Hpres Hj) as (tl & x & El & Hg).
  destruct (node_sub s R Hok Hfam (firstn j p) true tr l tl x HR Hwl Hcl Hqw El) as (Etl & _).
  destruct (node_sub s R Hok Hfam (firstn j p) false tr r tq y HR Hwr Hcr Hqw Hres) as (Etq & _ & _ & _ & Hpy).
  rewrite <- Etl in Etq. subst tq.
  exists (firstn j p), tl, x, tl, y. split; [apply is_prefix_firstn; exact Hp|]. split.
  - intros E2. apply (f_equal (@List.length pe)) in E2. rewrite firstn_length in E2. lia.
  - split; [exact El|]. split; [exact Hres|].
    apply (granular_leafy_differs s tl x y (Hpy Hpl) Hg Hleaf).
Qed.

(* ---------- 2. the field set of the result ---------- *)

Lemma pmem_cong : forall p q L, wf_path p = true -> wf_path q = true ->
  (forall x, In x L -> wf_path x = true) -> patheqb p q = true -> pmem p L = pmem q L.
Proof.
  intros p q L Hp Hq HL Hpq. unfold pmem. induction L as [|x L IH]; [reflexivity|]. simpl.
  rewrite (RemoveAbsent.patheqb_cong_l p q x Hp Hq (HL x (or_introl eq_refl)) Hpq).
  rewrite IH; [reflexivity|]. intros y Hy. apply HL. right. exact Hy.
Qed.

Lemma is_prefix_of_patheqb : forall q p, wf_path p = true -> wf_path q = true ->
  patheqb p q = true -> is_prefix q p = true.
Proof.
  intros q p Hp Hq H.
  rewrite (is_prefix_cong q p q Hq Hp Hq H).
  rewrite <- (app_nil_r q) at 2. apply is_prefix_app. exact Hq.
Qed.

Section UnionGlue.
  Variables (s : schema) (R : typeref -> Prop).
  Hypothesis Hok : schema_ok s R.
  Hypothesis Hfam : family_refs s R.
  Hypothesis Hpure : lists_pure s R.
  Variables (tr : typeref) (l r out : value) (fl fr fo : pset).
  Hypothesis HR : R tr.
  Hypothesis Hwl : wf_value l = true.
  Hypothesis Hwr : wf_value r = true.
  Hypothesis Hcl : conforms s tr false l = true.
  Hypothesis Hcr : conforms s tr false r = true.
  Hypothesis Hpl : plain l = true.
  Hypothesis Hpr : plain r = true.
  Hypothesis Hm : merge s tr l r = Some (Some out).
  Hypothesis Hfl : to_field_set s tr l = Some fl.
  Hypothesis Hfr : to_field_set s tr r = Some fr.
  Hypothesis Hfo : to_field_set s tr out = Some fo.

  Lemma fs_of : forall v fs, to_field_set s tr v = Some fs -> fs = ps_of_paths (fsp s tr v).
  Proof.
    intros v fs H. rewrite to_field_set_eq in H. destruct (fse s tr v); [discriminate|].
    inversion H. reflexivity.
  Qed.

  Lemma Hwo : wf_value out = true.
  Proof. apply (out_ok s R Hok Hfam tr l r out HR Hwl Hwr Hcl Hcr Hm). Qed.

  (* a member: some inserted path equal to p *)
  Lemma has_inv : forall v fs p, wf_value v = true -> to_field_set s tr v = Some fs ->
    wf_path p = true -> p <> [] -> ps_has p fs = true ->
    exists q, In q (fsp s tr v) /\ patheqb p q = true /\ wf_path q = true /\ q <> [].
  Proof.
    intros v fs p Hwv Hfs Hp Hne H. rewrite (fs_of v fs Hfs) in H.
    rewrite (fs_has s R Hok tr v p HR Hwv Hp Hne) in H.
    apply pmem_true in H. destruct H as (q & Hin & Hpq). exists q. repeat split; auto.
    - apply (fsp_wf s R Hok v tr q HR Hwv Hin).
    - intros E. subst q. apply patheqb_length in Hpq. destruct p; [congruence|discriminate].
  Qed.

  Lemma has_of : forall v fs p q, wf_value v = true -> to_field_set s tr v = Some fs ->
    wf_path p = true -> p <> [] -> wf_path q = true -> patheqb p q = true ->
    pmem q (fsp s tr v) = true -> ps_has p fs = true.
  Proof.
    intros v fs p q Hwv Hfs Hp Hne Hq Hpq H. rewrite (fs_of v fs Hfs).
    rewrite (fs_has s R Hok tr v p HR Hwv Hp Hne).
    rewrite (pmem_cong p q (fsp s tr v) Hp Hq); [exact H| |exact Hpq].
    intros x Hx. apply (fsp_wf s R Hok v tr x HR Hwv Hx).
  Qed.

  Lemma union_glue : forall p, wf_path p = true -> p <> [] ->
    (ps_has p fr = true -> ps_has p fo = true) /\
    (ps_has p fo = true -> ps_has p fl = true \/ ps_has p fr = true) /\
    (ps_has p fl = true -> ps_has p fo = true \/
       (exists q, is_prefix q p = true /\ q <> p /\
          exists tq y, resolve_path s tr r q = Some (RNode tq y) /\ leafy s tq y /\ plain y = true /\
            exists x, resolve_path s tr l q = Some (RNode tq x) /\ granular s tq x) \/
       (exists q t x y, patheqb p q = true /\ wf_path q = true /\
          resolve_path s tr l q = Some (RNode t x) /\ leafy s t x /\
          resolve_path s tr r q = Some (RNode t y) /\ granular s t y /\
          plain x = true /\ plain y = true)).
  Proof.
    intros p Hp Hne. pose proof Hwo as Hwo. split; [|split].
    - intros H. destruct (has_inv r fr p Hwr Hfr Hp Hne H) as (q & Hin & Hpq & Hq & Hqne).
      apply (has_of out fo p q Hwo Hfo Hp Hne Hq Hpq).
      apply (union_a s R Hok Hfam tr l r out HR Hwl Hwr Hcl Hcr Hpl Hpr Hm q Hin Hqne).
    - intros H. destruct (has_inv out fo p Hwo Hfo Hp Hne H) as (q & Hin & Hpq & Hq & Hqne).
      destruct (union_b s R Hok Hfam tr l r out HR Hwl Hwr Hcl Hcr Hpl Hpr Hm q Hin Hqne) as [Hb|Hb].
      + left. apply (has_of l fl p q Hwl Hfl Hp Hne Hq Hpq Hb).
      + right. apply (has_of r fr p q Hwr Hfr Hp Hne Hq Hpq Hb).
    - intros H. destruct (has_inv l fl p Hwl Hfl Hp Hne H) as (q & Hin & Hpq & Hq & Hqne).
      destruct (union_c s R Hok Hfam Hpure tr l r out HR Hwl Hwr Hcl Hcr Hpl Hpr Hm q Hin Hqne)
        as [Hc|[(j & Hj & tq & y & Hres & Hleaf)|(t & x & y & H1 & H2 & H3 & H4 & H5 & H6)]].
      + left. apply (has_of out fo p q Hwo Hfo Hp Hne Hq Hpq Hc).
      + right. left. exists (firstn j q). split; [|split].
        * rewrite (is_prefix_cong (firstn j q) p q (wf_path_firstn j q Hq) Hp Hq Hpq).
          apply is_prefix_firstn. exact Hq.
        * intros E. apply (f_equal (@List.length pe)) in E. rewrite firstn_length in E.
          rewrite (patheqb_length p q Hpq) in E. lia.
        * assert (Hqw : wf_path (firstn j q) = true) by (apply wf_path_firstn; exact Hq).
          pose proof (fsp_present s R Hok Hfam l tr q HR Hwl (MergeBase.conforms_dup_mono s l tr Hcl) Hin) as Hpres.
          destruct (above_present_granular s tr l q j Hpres Hj) as (tl & x & El & Hg).
          destruct (node_sub s R Hok Hfam (firstn j q) false tr l tl x HR Hwl Hcl Hqw El) as (Etl & _).
          destruct (node_sub s R Hok Hfam (firstn j q) false tr r tq y HR Hwr Hcr Hqw Hres) as (Etq & _ & _ & _ & Hpy).
          rewrite <- Etl in Etq. subst tq.
          exists tl, y. split; [exact Hres|]. split; [exact Hleaf|]. split; [exact (Hpy Hpr)|].
          exists x. auto.
      + right. right. exists q, t, x, y. auto 10.
  Qed.
End UnionGlue.

Theorem merge_field_set_union : forall s R tr l r out fl fr fo p,
  schema_ok s R -> family_refs s R -> lists_pure s R -> R tr ->
  wf_value l = true -> wf_value r = true ->
  conforms s tr false l = true -> conforms s tr false r = true -> plain l = true -> plain r = true ->
  merge s tr l r = Some (Some out) ->
  to_field_set s tr l = Some fl -> to_field_set s tr r = Some fr -> to_field_set s tr out = Some fo ->
  wf_path p = true -> p <> [] ->
  (ps_has p fr = true -> ps_has p fo = true) /\
  (ps_has p fo = true -> ps_has p fl = true \/ ps_has p fr = true) /\
  (ps_has p fl = true -> ps_has p fo = true \/
     exists q, is_prefix q p = true /\ exists tq y, resolve_path s tr r q = Some (RNode tq y) /\
       (leafy s tq y \/
        exists tl x, resolve_path s tr l q = Some (RNode tl x) /\ kind_differs x y = true)).
Proof.
  intros s R tr l r out fl fr fo p Hok Hfam Hpure HR Hwl Hwr Hcl Hcr Hpl Hpr Hm Hfl Hfr Hfo Hp Hne.
  destruct (union_glue s R Hok Hfam Hpure tr l r out fl fr fo HR Hwl Hwr Hcl Hcr Hpl Hpr Hm Hfl Hfr Hfo p Hp Hne)
    as (Ha & Hb & Hc).
  split; [exact Ha|]. split; [exact Hb|].
  intros H. destruct (Hc H) as [Ho|[(q & Hq1 & _ & tq & y & Hres & Hleaf & Hpy & x0 & Hlx & Hgx)|(q & t & x & y & Hpq & Hq & H1 & H2 & H3 & H4 & H5 & H6)]].
  - left. exact Ho.
  - right. exists q. split; [exact Hq1|]. exists tq, y. auto.
  - right. exists q. split; [apply is_prefix_of_patheqb; auto|]. exists t, y. split; [exact H3|].
    right. exists t, x. split; [exact H1|]. apply (leafy_granular_differs s t x y H5 H2 H4).
Qed.

(* the statement as given, under [maps_pure] *)
Theorem merge_field_set_union_pure : forall s R tr l r out fl fr fo p,
  schema_ok s R -> family_refs s R -> lists_pure s R -> maps_pure s R -> R tr ->
  wf_value l = true -> wf_value r = true ->
  conforms s tr false l = true -> conforms s tr false r = true -> plain l = true -> plain r = true ->
  merge s tr l r = Some (Some out) ->
  to_field_set s tr l = Some fl -> to_field_set s tr r = Some fr -> to_field_set s tr out = Some fo ->
  wf_path p = true -> p <> [] ->
  (ps_has p fr = true -> ps_has p fo = true) /\
  (ps_has p fo = true -> ps_has p fl = true \/ ps_has p fr = true) /\
  (ps_has p fl = true -> ps_has p fo = true \/
     exists q, is_prefix q p = true /\ exists tq y, resolve_path s tr r q = Some (RNode tq y) /\ leafy s tq y).
Proof.
  intros s R tr l r out fl fr fo p Hok Hfam Hpure Hmp HR Hwl Hwr Hcl Hcr Hpl Hpr Hm Hfl Hfr Hfo Hp Hne.
  destruct (union_glue s R Hok Hfam Hpure tr l r out fl fr fo HR Hwl Hwr Hcl Hcr Hpl Hpr Hm Hfl Hfr Hfo p Hp Hne)
    as (Ha & Hb & Hc).
  split; [exact Ha|]. split; [exact Hb|].
  intros H. destruct (Hc H) as [Ho|[(q & Hq1 & _ & tq & y & Hres & Hleaf & Hpy & x0 & Hlx & Hgx)|(q & t & x & y & Hpq & Hq & H1 & H2 & H3 & H4 & H5 & H6)]].
  - left. exact Ho.
  - right. exists q. split; [exact Hq1|]. exists tq, y. auto.
  - exfalso.
    destruct (node_sub s R Hok Hfam q false tr l t x HR Hwl Hcl Hq H1) as (_ & HRt & _ & Hcx & _).
    apply (pure_no_leaf_granular s R t false x y Hpure Hmp HRt Hcx H5 H2 H4).
Qed.

(* with the exception clause of the checker: a change of kind at a prefix of p, p included *)
Theorem merge_field_set_union_kind : forall s R tr l r out fl fr fo p,
  schema_ok s R -> family_refs s R -> lists_pure s R -> R tr ->
  wf_value l = true -> wf_value r = true ->
  conforms s tr false l = true -> conforms s tr false r = true -> plain l = true -> plain r = true ->
  merge s tr l r = Some (Some out) ->
  to_field_set s tr l = Some fl -> to_field_set s tr r = Some fr -> to_field_set s tr out = Some fo ->
  wf_path p = true -> p <> [] ->
  (ps_has p fr = true -> ps_has p fo = true) /\
  (ps_has p fo = true -> ps_has p fl = true \/ ps_has p fr = true) /\
  (ps_has p fl = true -> ps_has p fo = true \/
     exists q tl x tq y, is_prefix q p = true /\
       resolve_path s tr l q = Some (RNode tl x) /\ resolve_path s tr r q = Some (RNode tq y) /\
       kind_differs x y = true).
Proof.
  intros s R tr l r out fl fr fo p Hok Hfam Hpure HR Hwl Hwr Hcl Hcr Hpl Hpr Hm Hfl Hfr Hfo Hp Hne.
  destruct (union_glue s R Hok Hfam Hpure tr l r out fl fr fo HR Hwl Hwr Hcl Hcr Hpl Hpr Hm Hfl Hfr Hfo p Hp Hne)
    as (Ha & Hb & Hc).
  split; [exact Ha|]. split; [exact Hb|].
  intros H. destruct (Hc H) as [Ho|[(q & Hq1 & _ & tq & y & Hres & Hleaf & Hpy & x0 & Hlx & Hgx)|(q & t & x & y & Hpq & Hq & H1 & H2 & H3 & H4 & H5 & H6)]].
  - left. exact Ho.
  - right. exists q, tq, x0, tq, y. repeat split; auto.
    apply (granular_leafy_differs s tq x0 y Hpy Hgx Hleaf).
  - right. exists q, t, x, t, y. split; [apply is_prefix_of_patheqb; auto|]. repeat split; auto.
    apply (leafy_granular_differs s t x y H5 H2 H4).
Qed.

(* the third clause as given is false without [maps_pure]: a declared field of the deduced
   type, a scalar in L, a map in R *)
Definition kc_schema : schema :=
  (ded_schema ++ [("holder", Atom None None (Some (MapT [SField "f" (ded_named "deduced") None] empty_tr RUnset)))])%list.
Definition kc_tr : typeref := ded_named "holder".
Definition kc_R (t : typeref) : Prop := In t [kc_tr; ded_named "deduced"; ded_named "atomic"; empty_tr].
Definition kc_L : value := VMap [("f"%string, VInt 5)].
Definition kc_R_val : value := VMap [("f"%string, VMap [("y"%string, VInt 1)])].

Lemma kc_schema_ok : schema_ok kc_schema kc_R.
Proof.
  constructor.
  - intros t a lt Ht Hr Ha. unfold kc_R in *. split_in Ht;
      vm_compute in Hr; inversion Hr; subst a; simpl in Ha; inversion Ha; subst lt; simpl; auto 10.
  - intros t a m k Ht Hr Ha. unfold kc_R in *. split_in Ht;
      vm_compute in Hr; inversion Hr; subst a; simpl in Ha; inversion Ha; subst m;
      unfold field_type; simpl;
      repeat (match goal with |- context [String.eqb ?x ?y] => destruct (String.eqb x y) end; simpl);
      auto 10.
  - intros t a Ht Hr. unfold kc_R in *. split_in Ht;
      vm_compute in Hr; inversion Hr; subst a; reflexivity.
Qed.

Lemma kc_family : family_refs kc_schema kc_R.
Proof.
  intros t a lt Ht Hr Ha. unfold kc_R in *. split_in Ht;
    vm_compute in Hr; inversion Hr; subst a; simpl in Ha; inversion Ha; subst lt; simpl; auto.
Qed.

Lemma kc_lists_pure : lists_pure kc_schema kc_R.
Proof.
  intros t sc lt ma Ht Hr Hna. unfold kc_R in *. split_in Ht;
    vm_compute in Hr; inversion Hr; subst; simpl in Hna; discriminate.
Qed.

Theorem merge_field_set_union_given_clause_refuted :
  exists s R tr l r out fl fr fo p,
    schema_ok s R /\ family_refs s R /\ lists_pure s R /\ R tr /\
    wf_value l = true /\ wf_value r = true /\
    conforms s tr false l = true /\ conforms s tr false r = true /\ plain l = true /\ plain r = true /\
    merge s tr l r = Some (Some out) /\
    to_field_set s tr l = Some fl /\ to_field_set s tr r = Some fr /\ to_field_set s tr out = Some fo /\
    wf_path p = true /\ p <> [] /\
    ps_has p fl = true /\
    ~ (ps_has p fo = true \/
       exists q, is_prefix q p = true /\ exists tq y, resolve_path s tr r q = Some (RNode tq y) /\ leafy s tq y).
Proof.
  exists kc_schema, kc_R, kc_tr, kc_L, kc_R_val, kc_R_val,
    (ps_of_paths [[PEField "f"]]), (ps_of_paths [[PEField "f"; PEField "y"]]),
    (ps_of_paths [[PEField "f"; PEField "y"]]), [PEField "f"].
  split; [exact kc_schema_ok|]. split; [exact kc_family|]. split; [exact kc_lists_pure|].
  split; [unfold kc_R; simpl; auto|].
  split; [reflexivity|]. split; [reflexivity|].
  split; [vm_compute; reflexivity|]. split; [vm_compute; reflexivity|].
  split; [reflexivity|]. split; [reflexivity|].
  split; [vm_compute; reflexivity|].
  split; [vm_compute; reflexivity|]. split; [vm_compute; reflexivity|]. split; [vm_compute; reflexivity|].
  split; [reflexivity|]. split; [discriminate|].
  split; [vm_compute; reflexivity|].
  intros [H|(q & Hq & tq & y & Hres & Hleaf)].
  - vm_compute in H. discriminate.
  - destruct q as [|e [|e' q']].
    + vm_compute in Hres. inversion Hres; subst tq y. unfold leafy in Hleaf. vm_compute in Hleaf. exact Hleaf.
    + simpl in Hq. rewrite andb_true_r in Hq. destruct e as [k| | |]; try discriminate.
      simpl in Hq. apply String.eqb_eq in Hq. subst k.
      vm_compute in Hres. inversion Hres; subst tq y. unfold leafy in Hleaf. vm_compute in Hleaf. exact Hleaf.
    + simpl in Hq. rewrite andb_false_r in Hq. discriminate.
Qed.

(* ---------- 3. ordering ---------- *)

Theorem merge_order : forall s R tr l r out,
  schema_ok s R -> family_refs s R -> R tr ->
  wf_value l = true -> wf_value r = true ->
  conforms s tr false l = true -> conforms s tr false r = true -> plain l = true -> plain r = true ->
  merge s tr l r = Some (Some out) ->
  order_ok (merge_fuel l out) s tr (Some l) (Some r) (Some out) = true.
Proof. exact MergeRest3.merge_order. Qed.

(* ---------- non-vacuity: a keyed list on both sides, in different orders ---------- *)
Open Scope string_scope.

Definition nv_item (n : string) (v : Z) : value := VMap [("name", VStr n); ("vv", VInt v)].
Definition nv_L : value := VMap [("items", VList [nv_item "a" 1; nv_item "b" 2; nv_item "c" 3; nv_item "d" 4])].
Definition nv_R : value := VMap [("items", VList [nv_item "d" 40; nv_item "x" 9; nv_item "b" 20])].
Definition nv_out : value :=
  VMap [("items", VList [nv_item "a" 1; nv_item "c" 3; nv_item "d" 40; nv_item "x" 9; nv_item "b" 20])].

Lemma ex_maps_pure : maps_pure ex_schema CompareLaws.ex_R.
Proof.
  intros tr sc li t H Hres Hna. ex_cases H; vm_compute in Hres; inversion Hres; subst; auto.
Qed.

Example merge_rest_hypotheses_satisfiable :
  schema_ok ex_schema CompareLaws.ex_R /\ family_refs ex_schema CompareLaws.ex_R /\
  lists_pure ex_schema CompareLaws.ex_R /\ maps_pure ex_schema CompareLaws.ex_R /\ CompareLaws.ex_R ex_rt /\
  wf_value nv_L = true /\ wf_value nv_R = true /\
  conforms ex_schema ex_rt false nv_L = true /\ conforms ex_schema ex_rt false nv_R = true /\
  plain nv_L = true /\ plain nv_R = true /\
  merge ex_schema ex_rt nv_L nv_R = Some (Some nv_out).
Proof.
  split; [exact CompareLaws.ex_schema_ok|]. split; [exact CompareLaws.ex_family_refs|].
  split; [exact RefDiffLaws.ex_lists_pure|]. split; [exact ex_maps_pure|].
  split; [exact CompareLaws.ex_R_root|].
  repeat split; vm_compute; reflexivity.
Qed.

(* the three theorems on this instance *)
Example merge_rest_instance :
  order_ok (merge_fuel nv_L nv_out) ex_schema ex_rt (Some nv_L) (Some nv_R) (Some nv_out) = true /\
  (forall p, wf_path p = true -> present ex_schema ex_rt nv_L p = true ->
     present ex_schema ex_rt nv_out p = true \/
     (exists q, is_prefix q p = true /\ q <> p /\
        exists tq y, resolve_path ex_schema ex_rt nv_R q = Some (RNode tq y) /\ leafy ex_schema tq y)) /\
  (forall fl fr fo p,
     to_field_set ex_schema ex_rt nv_L = Some fl -> to_field_set ex_schema ex_rt nv_R = Some fr ->
     to_field_set ex_schema ex_rt nv_out = Some fo -> wf_path p = true -> p <> [] ->
     (ps_has p fr = true -> ps_has p fo = true) /\
     (ps_has p fo = true -> ps_has p fl = true \/ ps_has p fr = true) /\
     (ps_has p fl = true -> ps_has p fo = true \/
        exists q, is_prefix q p = true /\ exists tq y,
          resolve_path ex_schema ex_rt nv_R q = Some (RNode tq y) /\ leafy ex_schema tq y)).
Proof.
  destruct merge_rest_hypotheses_satisfiable
    as (Hok & Hfam & Hlp & Hmp & HR & Hwl & Hwr & Hcl & Hcr & Hpl & Hpr & Hm).
  split; [|split].
  - apply (merge_order ex_schema CompareLaws.ex_R ex_rt nv_L nv_R nv_out); auto.
  - intros p Hp Hpres.
    apply (merge_removes_nothing ex_schema CompareLaws.ex_R ex_rt nv_L nv_R nv_out p); auto.
  - intros fl fr fo p Hfl Hfr Hfo Hp Hne.
    apply (merge_field_set_union_pure ex_schema CompareLaws.ex_R ex_rt nv_L nv_R nv_out fl fr fo p); auto.
Qed.

(* and what they say there, computed: the members d, b of R follow R's order (d, x, b) with the
   new member x between them; a, c (only in L) keep L's order; c is still there; the field
   set of the result is exactly the union of the two field sets *)
Example merge_rest_instance_computed :
  pes_of_items ex_schema (ListT (ex_named "item") RAssociative ["name"])
    (match nv_out with VMap [(_, VList xs)] => xs | _ => [] end)
  = [PEKey [("name", VStr "a")]; PEKey [("name", VStr "c")]; PEKey [("name", VStr "d")];
     PEKey [("name", VStr "x")]; PEKey [("name", VStr "b")]] /\
  present ex_schema ex_rt nv_out [PEField "items"; PEKey [("name", VStr "c")]; PEField "vv"] = true /\
  match to_field_set ex_schema ex_rt nv_L, to_field_set ex_schema ex_rt nv_R, to_field_set ex_schema ex_rt nv_out with
  | Some fl, Some fr, Some fo => psame (ps_elems fo) (ps_elems fl ++ ps_elems fr) = true
  | _, _, _ => False
  end.
Proof. split; [vm_compute; reflexivity|]. split; vm_compute; reflexivity. Qed.

