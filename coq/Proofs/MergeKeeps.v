(* C02/C12: merging keeps what the left-hand object has outside the right-hand one.
   If the configuration r has no node at the first element e of a path, and the live object
   l and r are of the same kind at the root, then every path e :: rest of l designates in
   [merge l r] exactly what it designates in l (the member/field e of l is copied). *)
From Coq Require Import List ZArith String Bool Arith Lia.
From SMD Require Import Model.Value Model.Order Model.PathElem Model.PathSet Model.Schema
  Model.Walk Model.Merge Spec.PathsAsSets Spec.RefValid Spec.Resolve Spec.Agree
  Proofs.OrderLaws Proofs.KeyLaws Proofs.PathSetLaws Proofs.SchemaOk Proofs.MergeLaws.
From SMD Require Import Proofs.FieldSetBase Proofs.FieldSetPaths Proofs.ResolveLaws
  Proofs.PesLaws Proofs.MergeBase Proofs.MergeLoop Proofs.MergeWalk Proofs.MergeConf
  Proofs.MergeInter Proofs.MergeVeqb Proofs.MergeDescent Proofs.MergeAgree.
Import ListNotations.
Open Scope bool_scope.

(* not a map on one side and a list on the other (possible only for a root type that
   allows both) *)
Definition same_root_kind (s : schema) (tr : typeref) (a b : value) : Prop :=
  match kind_of s tr a, kind_of s tr b with
  | KMap _ _, KList _ _ | KList _ _, KMap _ _ => False
  | _, _ => True
  end.

Section Keeps.
  Variables (s : schema) (R : typeref -> Prop).
  Hypothesis Hok : schema_ok s R.
  Hypothesis Hfam : family_refs s R.

  Theorem merge_keeps_left : forall tr l r out e rest n,
    R tr -> wf_value l = true -> wf_value r = true ->
    conforms s tr true l = true -> conforms s tr false r = true ->
    merge s tr l r = Some (Some out) ->
    match kind_of s tr r with KMap _ _ | KList _ _ => True | _ => False end ->
    same_root_kind s tr l r ->
    wf_path (e :: rest) = true ->
    present s tr r [e] = false ->
    resolve_path s tr l (e :: rest) = Some n ->
    resolve_path s tr out (e :: rest) = Some n.
  Proof.
    intros tr l r out e rest n HR Hwl Hwr Hcl Hcr Hm Hgr Hsk Hp Hnr Hres.
    apply wf_path_cons in Hp. destruct Hp as [He Hp].
    destruct (merge_conforms s R tr l r out Hok Hfam HR Hwl Hwr Hcl Hcr Hm) as [Hco Hwo].
    apply merge_inv in Hm. unfold merge_fuel in Hm.
    set (f := S (vdepth l + vdepth r)) in *.
    assert (Hd' : odepth (Some l) + odepth (Some r) < S f) by (simpl; lia).
    unfold same_root_kind in Hsk.
    destruct (kind_of s tr l) as [|mt lm|t ll|] eqn:Ekl.
    - rewrite resolve_path_leaf in Hres by (rewrite Ekl; exact I). discriminate.
    - (* maps *)
      destruct (kind_of s tr r) as [|mt' rm|t' rl|] eqn:Ekr; try contradiction.
      destruct (kind_map_inv _ _ _ _ _ Ekl) as (a & Hr & Hmt & Hl & Hna & Hlne). subst l.
      destruct (kind_map_inv _ _ _ _ _ Ekr) as (a' & Hr' & Hmt' & Hrr & _ & Hrne). subst r.
      rewrite Hr in Hr'. inversion Hr'; subst a'. rewrite Hmt in Hmt'. inversion Hmt'; subst mt'.
      pose proof (merge_w_rhs f s tr a (Some (VMap lm)) (VMap rm) out Hr Hm) as Hh.
      rewrite (deduce_conf_map a rm mt Hmt) in Hh. cbn [handle] in Hh.
      assert (Hne : dm (Some (VMap lm)) <> [] \/ dm (Some (VMap rm)) <> []) by (left; exact Hlne).
      destruct (map_descent s R Hok Hfam f tr a mt (Some (VMap lm)) (Some (VMap rm)) out HR Hr Hmt Hd'
                  (conj Hcl Hwl) (conj Hcr Hwr) Hna Hne Hh) as (g & Hout & Hkne & Hg).
      change (dm (Some (VMap lm))) with lm in *. change (dm (Some (VMap rm))) with rm in *.
      set (keys := keys_union (map fst lm) (map fst rm)) in *.
      pose proof (kind_of_map s tr a mt _ Hr Hmt Hna (built_nonempty g keys Hkne)) as Hko.
      rewrite <- Hout in Hko.
      destruct e as [k|k|k|k];
        try (rewrite (resolve_path_map_other _ _ _ _ _ _ _ Ekl) in Hres by exact I; discriminate).
      rewrite (resolve_path_map _ _ _ _ _ _ _ Ekl) in Hres.
      destruct (assoc_get k lm) as [c|] eqn:Eg; [|discriminate].
      unfold present in Hnr. rewrite (resolve_path_map _ _ _ _ _ _ _ Ekr) in Hnr.
      destruct (assoc_get k rm) as [rc|] eqn:Egr; [simpl in Hnr; discriminate|].
      assert (Hk : In k keys).
      { apply keys_union_in. left. apply (assoc_get_some_keys _ lm k c Eg). }
      rewrite (resolve_path_map _ _ _ _ _ _ _ Hko).
      rewrite (assoc_get_built g keys k Hk).
      destruct (map_sub s R Hok f tr a mt (Some (VMap lm)) (Some (VMap rm)) k HR Hr Hmt Hd'
                  (conj Hcl Hwl) (conj Hcr Hwr) Hne Hk) as (H1 & H2 & H3 & _ & _).
      change (dm (Some (VMap lm))) with lm in *. change (dm (Some (VMap rm))) with rm in *.
      rewrite Eg in *. rewrite Egr in *. simpl in H2. destruct H3 as [H3c H3w].
      pose proof (Hg k Hk) as Hmk. rewrite Eg, Egr in Hmk.
      rewrite (merge_absent_right s R Hok Hfam f (field_type mt k) c H1 ltac:(lia) H3c H3w) in Hmk.
      inversion Hmk as [Hgk]. rewrite <- Hgk. exact Hres.
    - (* lists *)
      destruct (kind_of s tr r) as [|mt' rm|t' rl|] eqn:Ekr; try contradiction.
      destruct (kind_list_inv _ _ _ _ _ Ekl) as (a & Hr & Hlt & Hl & Hna & Hlne). subst l.
      destruct (kind_list_inv _ _ _ _ _ Ekr) as (a' & Hr' & Hlt' & Hrr & _ & Hrne). subst r.
      rewrite Hr in Hr'. inversion Hr'; subst a'. rewrite Hlt in Hlt'. inversion Hlt'; subst t'.
      pose proof (merge_w_rhs f s tr a (Some (VList ll)) (VList rl) out Hr Hm) as Hh.
      rewrite (deduce_conf_list a rl t Hlt) in Hh. cbn [handle] in Hh.
      assert (Hne : dl (Some (VList ll)) <> [] \/ dl (Some (VList rl)) <> []) by (left; exact Hlne).
      pose proof (list_rel_assoc t (Hfam tr a t HR Hr Hlt) Hna) as Hrel.
      destruct (list_descent s R Hok Hfam f tr a t (Some (VList ll)) (Some (VList rl)) out HR Hr Hlt Hd'
                  (conj Hcl Hwl) (conj Hcr Hwr) Hna Hne Hh) as (gR & tl & Hout & Htlne & Hil & HgR).
      destruct (list_descent_items s R Hok Hfam f tr a t (Some (VList ll)) (Some (VList rl)) gR tl HR Hr Hlt Hd'
                  (conj Hcl Hwl) (conj Hcr Hwr) Hrel Hil HgR) as (Hitems & _).
      change (dl (Some (VList ll))) with ll in *. change (dl (Some (VList rl))) with rl in *.
      destruct (conf_list_assoc s tr a t true ll Hr Hlt Hrel Hcl) as (HpeL & HallL & _).
      destruct (conf_list_assoc s tr a t false rl Hr Hlt Hrel Hcr) as (HpeR & HallR & HdisR).
      specialize (HdisR eq_refl).
      pose proof (elem_ok s R Hok tr a t HR Hr Hlt) as Helem.
      assert (HwfpeL : forall e, In e (pes_of s t ll) -> wf_pe e = true) by (apply pes_of_wf; auto).
      assert (HwfpeR : forall e, In e (pes_of s t rl) -> wf_pe e = true) by (apply pes_of_wf; auto).
      rewrite (rpl_occ s R Hok tr (VList ll) t ll e rest HR Hwl Ekl He), HpeL in Hres.
      destruct (is_keyval e) eqn:Ekv; [|discriminate]. cbn [andb] in Hres.
      unfold present in Hnr.
      rewrite (rpl_occ s R Hok tr (VList rl) t rl e [] HR Hwr Ekr He), HpeR, Ekv in Hnr. cbn [andb] in Hnr.
      rewrite (occ_distinct s t rl e HwfpeR HdisR He) in Hnr.
      destruct (lfind s t e rl) as [x|] eqn:Elf; [discriminate|].
      pose proof (occ_L s t ll rl gR tl HwfpeL HwfpeR Hil Hitems e He Elf) as Hocc.
      assert (Hmne : map snd tl <> []) by (apply map_snd_nonempty; exact Htlne).
      pose proof (kind_of_list s tr a t _ Hr Hlt Hna Hmne) as Hko.
      rewrite <- Hout in Hko.
      subst out.
      destruct (conf_list_assoc s tr a t true (map snd tl) Hr Hlt Hrel Hco) as (HpeO & _ & _).
      rewrite (rpl_occ s R Hok tr (VList (map snd tl)) t (map snd tl) e rest HR Hwo Hko He), HpeO, Ekv.
      cbn [andb]. rewrite Hocc. exact Hres.
    - rewrite resolve_path_leaf in Hres by (rewrite Ekl; exact I). discriminate.
  Qed.

  (* Deep version: where the configuration stops (no node of r at p), the merged object,
     if it has p at all, has there what the live object has: everything l has at or
     beneath p designates the same thing in the result. *)
  Lemma keeps_w : forall f tr lo r out, R tr -> odepth lo + vdepth r < f ->
    oconf s tr true lo -> conforms s tr false r = true -> wf_value r = true -> plain r = true ->
    merge_w f s tr lo (Some r) = (false, Some out) ->
    forall l p q n, lo = Some l -> wf_path (p ++ q) = true ->
      resolve_path s tr r p = None -> present s tr out p = true ->
      resolve_path s tr l (p ++ q) = Some n -> resolve_path s tr out (p ++ q) = Some n.
  Proof.
    induction f as [|f IH]; intros tr lo r out HR Hd Hcl Hcr Hwr Hpl Hm l p q n Hlo Hpq Hnone Hpo Hres; [lia|].
    destruct p as [|e p']; [simpl in Hnone; discriminate|].
    cbn [app] in *. apply wf_path_cons in Hpq. destruct Hpq as [He Hpq].
    assert (Hd' : odepth lo + odepth (Some r) < S f) by (simpl; lia).
    destruct (merge_conf_w s R Hok Hfam (S f) tr lo (Some r) out HR Hd' Hcl (conj Hcr Hwr) Hm)
      as (Hco & Hwo & _).
    pose proof Hcl as Hcl0. rewrite Hlo in Hcl0. destruct Hcl0 as [Hcll Hwll].
    destruct (merge_cases f s tr false lo r out Hcr Hm)
      as [Heq|[(a & mt & Hr & Hmt & Hna & Hne & Hshape & Hmm & Hhm)|(a & t & Hr & Hlt & Hna & Hne & Hshape & Hml & Hhl)]].
    - subst out. unfold present in Hpo. rewrite Hnone in Hpo. discriminate.
    - (* granular map *)
      destruct Hshape as [Hn|[m Hrm]]; [subst r; discriminate|]. subst r.
      assert (Hmne : m <> []) by (intros E; subst m; discriminate).
      destruct (map_descent s R Hok Hfam f tr a mt lo (Some (VMap m)) out HR Hr Hmt Hd' Hcl
                  (conj Hcr Hwr) Hna Hne Hmm) as (g & Hout & Hkne & Hg).
      change (dm (Some (VMap m))) with m in *.
      set (keys := keys_union (map fst (dm lo)) (map fst m)) in *.
      pose proof (kind_of_map s tr a mt m Hr Hmt Hna Hmne) as Hkr.
      pose proof (kind_of_map s tr a mt _ Hr Hmt Hna (built_nonempty g keys Hkne)) as Hko.
      rewrite <- Hout in Hko.
      unfold present in Hpo.
      destruct e as [k|k|k|k];
        try (rewrite (resolve_path_map_other _ _ _ _ _ _ _ Hko) in Hpo by exact I; discriminate).
      rewrite (resolve_path_map _ _ _ _ _ _ _ Hko) in Hpo.
      rewrite (resolve_path_map _ _ _ _ _ _ _ Hko).
      destruct (assoc_get k (map (fun k0 => (k0, g k0)) keys)) as [gk|] eqn:Egk; [|discriminate].
      destruct (assoc_get_built_inv g keys k gk Egk) as [Hk Hgk]. subst gk.
      (* the live object is a map of the same type *)
      destruct (kind_of s tr l) as [|mt' lm|t' ll|] eqn:Ekl;
        try (rewrite resolve_path_leaf in Hres by (rewrite Ekl; exact I); discriminate).
      2:{ rewrite (resolve_path_list_other _ _ _ _ _ _ _ Ekl) in Hres by reflexivity. discriminate. }
      destruct (kind_map_inv _ _ _ _ _ Ekl) as (a' & Hr' & Hmt' & Hl & _ & Hlne). subst l.
      rewrite Hr in Hr'. inversion Hr'; subst a'. rewrite Hmt in Hmt'. inversion Hmt'; subst mt'.
      subst lo. change (dm (Some (VMap lm))) with lm in *.
      rewrite (resolve_path_map _ _ _ _ _ _ _ Ekl) in Hres.
      destruct (assoc_get k lm) as [c|] eqn:Eg; [|discriminate].
      destruct (map_sub s R Hok f tr a mt (Some (VMap lm)) (Some (VMap m)) k HR Hr Hmt Hd' Hcl (conj Hcr Hwr) Hne Hk)
        as (H1 & H2 & H3 & H4 & _).
      change (dm (Some (VMap lm))) with lm in *. change (dm (Some (VMap m))) with m in *.
      pose proof (Hg k Hk) as Hmk.
      rewrite (resolve_path_map _ _ _ _ _ _ _ Hkr) in Hnone.
      rewrite Eg in *.
      destruct (assoc_get k m) as [rc|] eqn:Egr.
      + destruct H4 as [H4c H4w]. simpl in H2.
        apply (IH (field_type mt k) (Some c) rc (g k) H1 H2 H3 H4c H4w
                 (plain_map_in m k rc Hpl (assoc_get_in _ k m rc Egr)) Hmk c p' q n eq_refl Hpq Hnone);
          [|exact Hres].
        unfold present. exact Hpo.
      + destruct H3 as [H3c H3w]. simpl in H2.
        rewrite (merge_absent_right s R Hok Hfam f (field_type mt k) c H1 ltac:(lia) H3c H3w) in Hmk.
        inversion Hmk as [Hgk]. rewrite <- Hgk. exact Hres.
    - (* granular list *)
      destruct Hshape as [Hn|[rl Hrl]]; [subst r; discriminate|]. subst r.
      assert (Hrlne : rl <> []) by (intros E; subst rl; discriminate).
      pose proof (list_rel_assoc t (Hfam tr a t HR Hr Hlt) Hna) as Hrel.
      destruct (list_descent s R Hok Hfam f tr a t lo (Some (VList rl)) out HR Hr Hlt Hd' Hcl
                  (conj Hcr Hwr) Hna Hne Hml) as (gR & tl & Hout & Htlne & Hil & HgR).
      destruct (list_descent_items s R Hok Hfam f tr a t lo (Some (VList rl)) gR tl HR Hr Hlt Hd' Hcl
                  (conj Hcr Hwr) Hrel Hil HgR) as (Hitems & HA).
      change (dl (Some (VList rl))) with rl in *.
      destruct (conf_list_assoc s tr a t false rl Hr Hlt Hrel Hcr) as (HpeR & HallR & HdisR).
      specialize (HdisR eq_refl).
      pose proof (elem_ok s R Hok tr a t HR Hr Hlt) as Helem.
      pose proof (so_list s R Hok tr a t HR Hr Hlt) as HRelem.
      assert (HwfpeR : forall e, In e (pes_of s t rl) -> wf_pe e = true) by (apply pes_of_wf; auto).
      pose proof (kind_of_list s tr a t rl Hr Hlt Hna Hrlne) as Hkr.
      assert (Hmne : map snd tl <> []) by (apply map_snd_nonempty; exact Htlne).
      pose proof (kind_of_list s tr a t _ Hr Hlt Hna Hmne) as Hko.
      subst out.
      destruct (conf_list_assoc s tr a t true (map snd tl) Hr Hlt Hrel Hco) as (HpeO & _ & _).
      unfold present in Hpo.
      rewrite (rpl_occ s R Hok tr (VList (map snd tl)) t (map snd tl) e p' HR Hwo Hko He), HpeO in Hpo.
      destruct (is_keyval e) eqn:Ekv; [|discriminate]. cbn [andb] in Hpo.
      rewrite (rpl_occ s R Hok tr (VList (map snd tl)) t (map snd tl) e (p' ++ q) HR Hwo Hko He), HpeO, Ekv.
      cbn [andb].
      (* the live object is a list of the same type *)
      destruct (kind_of s tr l) as [|mt' lm|t' ll|] eqn:Ekl;
        try (rewrite resolve_path_leaf in Hres by (rewrite Ekl; exact I); discriminate).
      1:{ destruct e as [k|k|k|k]; try discriminate Ekv;
            rewrite (resolve_path_map_other _ _ _ _ _ _ _ Ekl) in Hres by exact I; discriminate. }
      destruct (kind_list_inv _ _ _ _ _ Ekl) as (a' & Hr' & Hlt' & Hl & _ & Hllne). subst l.
      rewrite Hr in Hr'. inversion Hr'; subst a'. rewrite Hlt in Hlt'. inversion Hlt'; subst t'.
      subst lo. change (dl (Some (VList ll))) with ll in *.
      destruct (conf_list_assoc s tr a t true ll Hr Hlt Hrel Hcll) as (HpeL & HallL & _).
      assert (HwfpeL : forall e, In e (pes_of s t ll) -> wf_pe e = true) by (apply pes_of_wf; auto).
      rewrite (rpl_occ s R Hok tr (VList ll) t ll e (p' ++ q) HR Hwll Ekl He), HpeL, Ekv in Hres.
      cbn [andb] in Hres.
      rewrite (rpl_occ s R Hok tr (VList rl) t rl e p' HR Hwr Hkr He), HpeR, Ekv in Hnone.
      cbn [andb] in Hnone.
      rewrite (occ_distinct s t rl e HwfpeR HdisR He) in Hnone.
      destruct (lfind s t e rl) as [rc|] eqn:Elf.
      + pose proof Elf as Elf0.
        apply lfind_some in Elf. destruct Elf as [e' [Hin' Hee']].
        assert (Hine' : In e' (pes_of s t rl)).
        { rewrite <- ipairs_fst. apply in_map_iff. exists (e', rc). auto. }
        pose proof (HwfpeR e' Hine') as He'.
        pose proof (lfind_in s t rl e' rc HwfpeR HdisR Hin') as Hlf'.
        apply ipairs_in in Hin'. destruct Hin' as [Hinx Hpex].
        assert (Hocc : occ s t e (map snd tl) = [gR e']).
        { apply (occ_R s t ll rl gR tl HwfpeL HwfpeR HdisR Hil Hitems e e' He Hine').
          rewrite (peeqb_sym e' e He' He). exact Hee'. }
        rewrite Hocc in Hpo |- *.
        assert (Hp'ne : p' <> []) by (intros E; subst p'; simpl in Hnone; discriminate).
        assert (Hiw : items_wf s t ll) by (apply (items_wf_of s R Hok tr a t ll HR Hr Hlt); exact Hwll).
        destruct (occ s t e ll) as [|x [|y more]] eqn:Eo; [discriminate| |].
        2:{ destruct p'; [congruence|discriminate]. }
        assert (HobsL : obsL s t ll e' = Some x).
        { unfold obsL. rewrite <- (occ_cong s t ll e e' Hiw He He' Hee'), Eo. reflexivity. }
        pose proof (HgR e' Hine') as Hme. rewrite Hlf', HobsL in Hme.
        assert (Hxo : In x (occ s t e ll)) by (rewrite Eo; left; reflexivity).
        apply occ_has_pe in Hxo. destruct Hxo as [Hx _].
        pose proof (vdepth_list_in ll x Hx) as Hdx.
        pose proof (vdepth_list_in rl rc Hinx) as Hdr.
        assert (Hdep : odepth (Some x) + vdepth rc < f) by (simpl in *; lia).
        assert (Hox : oconf s (list_elem t) true (Some x)).
        { split; [rewrite forallb_forall in HallL; apply HallL; exact Hx|apply (wf_list_in ll x Hwll Hx)]. }
        assert (Hcrc : conforms s (list_elem t) false rc = true).
        { rewrite forallb_forall in HallR. apply HallR. exact Hinx. }
        apply (IH (list_elem t) (Some x) rc (gR e') HRelem Hdep Hox Hcrc (wf_list_in rl rc Hwr Hinx)
                 (plain_list_in rl rc Hpl Hinx) Hme x p' q n eq_refl Hpq Hnone); [|exact Hres].
        unfold present. exact Hpo.
      + rewrite (occ_L s t ll rl gR tl HwfpeL HwfpeR Hil Hitems e He Elf). exact Hres.
  Qed.

  Theorem merge_keeps_deep : forall tr l r out p q n,
    R tr -> wf_value l = true -> wf_value r = true ->
    conforms s tr true l = true -> conforms s tr false r = true -> plain r = true ->
    merge s tr l r = Some (Some out) ->
    wf_path (p ++ q) = true ->
    resolve_path s tr r p = None -> present s tr out p = true ->
    resolve_path s tr l (p ++ q) = Some n -> resolve_path s tr out (p ++ q) = Some n.
  Proof.
    intros tr l r out p q n HR Hwl Hwr Hcl Hcr Hpl Hm Hpq Hnone Hpo Hres.
    apply merge_inv in Hm.
    assert (Hd : odepth (Some l) + vdepth r < merge_fuel l r) by (unfold merge_fuel; simpl; lia).
    apply (keeps_w (merge_fuel l r) tr (Some l) r out HR Hd (conj Hcl Hwl) Hcr Hwr Hpl Hm l p q n eq_refl
             Hpq Hnone Hpo Hres).
  Qed.
End Keeps.
