(* Frame lemmas for removal (typed/remove.go): what [remove_items] keeps.
   For a removal set T that is "nice" for the object v
     - well formed ([ps_ok]),
     - [keys_guarded]: T touches a key field of a keyed-list member only if it removes the
       member (or something above it),
     - [items_safe]: T reaches beneath a list member only if that member is a scalar or a
       granular map/list (not an atomic or empty one, which removal would turn into null),
   the result of the removal is described path by path:
     - [rm_resolve_map] / [rm_resolve_list]: one step of [resolve_path] through the result,
     - [remove_keeps]: a path of v no prefix of which is in T still resolves, and to the
       same thing when it designates a leaf and T only mentions paths of v ([sub_present]),
     - [remove_drops]: nothing at or beneath a member of T resolves any more,
     - [remove_conforms]: the result conforms to the schema,
     - [remove_frame]: agreement (AgrP) with a configuration is kept when T avoids the
       configuration's paths. *)
From Coq Require Import List ZArith String Bool Arith Lia.
From SMD Require Import Model.Value Model.Order Model.PathElem Model.PathSet Model.Schema
  Model.Walk Model.FieldSet Model.Remove Spec.PathsAsSets Spec.RefValid Spec.Resolve Spec.Agree
  Proofs.OrderLaws Proofs.KeyLaws Proofs.PathSetLaws Proofs.ValidateLaws Proofs.SchemaOk
  Proofs.FieldSetMirrors Proofs.FieldSetBase Proofs.FieldSetShape Proofs.FieldSetPaths
  Proofs.RemoveBase Proofs.ExtractBase Proofs.ExtractLaws Proofs.RemoveAbsent Proofs.RemoveWf
  Proofs.ResolveLaws Proofs.ReconcileBase.
Import ListNotations.
Open Scope bool_scope.

Local Arguments ps_has : simpl never.
Local Arguments ps_with_prefix : simpl never.
Local Arguments ps_empty : simpl never.

(* ================= paths touched by a set ================= *)

(* some non-empty prefix of p (p included) is a member of T *)
Fixpoint touches (p : path) (T : pset) : bool :=
  match p with
  | [] => false
  | e :: rest => ps_has [e] T || touches rest (ps_with_prefix e T)
  end.

Lemma firstn_nonnil : forall (A : Type) n (l : list A), 1 <= n -> l <> [] -> firstn n l <> [].
Proof. intros A [|n] [|x l] Hn Hl; try lia; try congruence. simpl. discriminate. Qed.

Lemma touches_iff : forall p T, ps_ok T = true -> wf_path p = true ->
  (touches p T = true <->
   exists n, 1 <= n <= List.length p /\ ps_has (firstn n p) T = true).
Proof.
  induction p as [|e rest IH]; intros T HT Hp.
  - simpl. split; [discriminate|]. intros (n & Hn & _). lia.
  - apply wf_path_cons in Hp. destruct Hp as [He Hrest].
    destruct (ps_with_prefix_spec e T HT He) as [HT' Hw].
    cbn [touches]. rewrite orb_true_iff. rewrite (IH _ HT' Hrest). split.
    + intros [H|(n & Hn & H)].
      * exists 1. split; [simpl; lia|exact H].
      * exists (S n). split; [simpl; lia|]. cbn [firstn].
        rewrite <- Hw; [exact H|apply wf_path_firstn; exact Hrest|].
        apply firstn_nonnil; [lia|]. destruct rest; [simpl in Hn; lia|discriminate].
    + intros (n & Hn & H). destruct n as [|[|n]]; [lia|left; exact H|].
      right. exists (S n). simpl in Hn. split; [lia|].
      cbn [firstn] in H. rewrite Hw; [exact H|apply wf_path_firstn; exact Hrest|].
      apply firstn_nonnil; [lia|]. destruct rest; [simpl in Hn; lia|discriminate].
Qed.

Lemma touches_self : forall p T, ps_ok T = true -> wf_path p = true ->
  ps_has p T = true -> touches p T = true.
Proof.
  intros p T HT Hp H. apply touches_iff; auto. exists (List.length p).
  assert (p <> []) by (intros ->; discriminate).
  split; [destruct p; [congruence|simpl; lia]|]. rewrite firstn_all. exact H.
Qed.

Lemma touches_app : forall p q T, ps_ok T = true -> wf_path (p ++ q) = true ->
  touches p T = true -> touches (p ++ q) T = true.
Proof.
  intros p q T HT Hpq H. apply wf_path_app in Hpq. destruct Hpq as [Hp Hq].
  apply (touches_iff p T HT Hp) in H. destruct H as (n & Hn & H).
  apply touches_iff; auto; [apply wf_path_app; auto|].
  exists n. split; [rewrite app_length; lia|].
  rewrite firstn_app. replace (n - List.length p) with 0 by lia. simpl. rewrite app_nil_r. exact H.
Qed.

Lemma touches_false_prefix : forall p q T, ps_ok T = true -> wf_path (p ++ q) = true ->
  touches (p ++ q) T = false -> touches p T = false.
Proof.
  intros p q T HT Hpq H. destruct (touches p T) eqn:E; [|reflexivity].
  rewrite (touches_app p q T HT Hpq E) in H. discriminate.
Qed.

Lemma touches_false_has : forall p T, ps_ok T = true -> wf_path p = true ->
  touches p T = false -> ps_has p T = false.
Proof.
  intros p T HT Hp H. destruct (ps_has p T) eqn:E; [|reflexivity].
  rewrite (touches_self p T HT Hp E) in H. discriminate.
Qed.

(* a path strictly longer than a touched one *)
Lemma touches_snoc : forall p e T, ps_ok T = true -> wf_path (p ++ [e]) = true ->
  touches (p ++ [e]) T = touches p T || ps_has (p ++ [e]) T.
Proof.
  intros p e T HT Hw. pose proof Hw as Hw'. apply wf_path_app in Hw'. destruct Hw' as [Hp He].
  destruct (touches (p ++ [e]) T) eqn:E.
  - apply (touches_iff _ _ HT Hw) in E. destruct E as (n & Hn & H).
    rewrite app_length in Hn. simpl in Hn.
    destruct (Nat.eq_dec n (List.length p + 1)) as [->|Hne].
    + replace (List.length p + 1) with (List.length (p ++ [e])) in H by (rewrite app_length; reflexivity).
      rewrite firstn_all in H. rewrite H. rewrite orb_true_r. reflexivity.
    + assert (Ht : touches p T = true).
      { apply touches_iff; auto. exists n. split; [lia|].
        rewrite firstn_app in H. replace (n - List.length p) with 0 in H by lia.
        simpl in H. rewrite app_nil_r in H. exact H. }
      rewrite Ht. reflexivity.
  - rewrite (touches_false_prefix p [e] T HT Hw E).
    rewrite (touches_false_has _ _ HT Hw E). reflexivity.
Qed.

(* ================= conditions on removal sets ================= *)

(* T touches a key field of a keyed-list member only if it removes the member or
   something above it (weaker than [keys_closed]) *)
Definition keys_guarded (T : pset) : Prop :=
  forall pre fl k rest,
    wf_path (pre ++ PEKey fl :: PEField k :: rest) = true -> In k (map fst fl) ->
    ps_has (pre ++ PEKey fl :: PEField k :: rest) T = true ->
    touches (pre ++ [PEKey fl]) T = true.

Lemma wf_path_key_prefix : forall pre fl k rest,
  wf_path (pre ++ PEKey fl :: PEField k :: rest) = true -> wf_path (pre ++ [PEKey fl]) = true.
Proof.
  intros pre fl k rest H. apply wf_path_app in H. destruct H as [H1 H2].
  apply wf_path_cons in H2. apply wf_path_app. split; [exact H1|].
  apply wf_path_cons. split; [tauto|reflexivity].
Qed.

Lemma keys_closed_guarded : forall T, ps_ok T = true -> keys_closed T -> keys_guarded T.
Proof.
  intros T HT Hkc pre fl k rest Hwf Hin Hhas.
  apply touches_self; auto; [eapply wf_path_key_prefix; eauto|].
  eapply Hkc; eauto.
Qed.

Lemma keys_guarded_wp : forall T e, ps_ok T = true -> wf_pe e = true -> keys_guarded T ->
  ps_has [e] T = false -> keys_guarded (ps_with_prefix e T).
Proof.
  intros T e HT He Hkg Hno pre fl k rest Hwf Hin Hhas.
  destruct (ps_with_prefix_spec e T HT He) as [_ Hw].
  rewrite Hw in Hhas by (auto; destruct pre; discriminate).
  assert (Hwf' : wf_path ((e :: pre) ++ PEKey fl :: PEField k :: rest) = true).
  { simpl. apply wf_path_cons. auto. }
  pose proof (Hkg (e :: pre) fl k rest Hwf' Hin Hhas) as Ht.
  simpl in Ht. rewrite Hno in Ht. exact Ht.
Qed.

Lemma keys_guarded_empty : keys_guarded ps_empty_set.
Proof.
  intros pre fl k rest _ _ H. rewrite (ps_empty_has ps_empty_set) in H by reflexivity. discriminate.
Qed.

(* ================= resolve_path along a concatenation ================= *)

Lemma resolve_path_app : forall s p q tr v,
  resolve_path s tr v (p ++ q) =
  match resolve_path s tr v p with
  | Some (RNode tr' x) => resolve_path s tr' x q
  | Some (RDup tr' xs) => match q with [] => Some (RDup tr' xs) | _ => None end
  | None => None
  end.
Proof.
  intros s p. induction p as [|e rest IH]; intros q tr v; [reflexivity|].
  cbn [app resolve_path].
  destruct (kind_of s tr v) as [|t m|t l|]; try reflexivity.
  - destruct e; try reflexivity. destruct (assoc_get name m); [apply IH|reflexivity].
  - destruct e; try reflexivity.
    + destruct (group_items s t l []) as [g|]; [|reflexivity].
      destruct (lookup_group (PEKey key) g) as [[|x [|y more]]|]; try reflexivity; [apply IH|].
      destruct rest; [reflexivity|]. reflexivity.
    + destruct (group_items s t l []) as [g|]; [|reflexivity].
      destruct (lookup_group (PEValue v0) g) as [[|x [|y more]]|]; try reflexivity; [apply IH|].
      destruct rest; [reflexivity|]. reflexivity.
Qed.

Lemma present_prefix : forall s tr v p q, present s tr v (p ++ q) = true -> present s tr v p = true.
Proof.
  intros s tr v p q H. unfold present in *. rewrite resolve_path_app in H.
  destruct (resolve_path s tr v p); [reflexivity|discriminate].
Qed.

(* ================= kinds ================= *)

Definition granular (s : schema) (tr : typeref) (v : value) : Prop :=
  match kind_of s tr v with KMap _ _ | KList _ _ => True | _ => False end.

Definition leafy (s : schema) (tr : typeref) (v : value) : Prop :=
  match kind_of s tr v with KLeaf | KBad => True | _ => False end.

Lemma leafy_or_granular : forall s tr v, leafy s tr v \/ granular s tr v.
Proof. intros s tr v. unfold leafy, granular. destruct (kind_of s tr v); auto. Qed.

Lemma present_granular : forall s tr v p, p <> [] -> present s tr v p = true -> granular s tr v.
Proof.
  intros s tr v p Hne H. destruct (leafy_or_granular s tr v) as [Hl|Hg]; [|exact Hg].
  rewrite (present_leaf_false s tr v p Hl Hne) in H. discriminate.
Qed.

(* a list member beneath which removal may safely work: a scalar (left untouched) or a
   granular map / list (walked); an atomic or empty member would be replaced by null *)
Definition item_ok (s : schema) (tr' : typeref) (y : value) : Prop :=
  is_scalar y = true \/ granular s tr' y.

(* T only mentions paths of v *)
Definition sub_present (s : schema) (tr : typeref) (v : value) (T : pset) : Prop :=
  forall p, wf_path p = true -> ps_has p T = true -> present s tr v p = true.

(* wherever the removal of T from v reaches beneath a list member, the member is [item_ok] *)
Inductive items_ok (s : schema) : typeref -> value -> pset -> Prop :=
| io_leaf : forall tr v T, leafy s tr v -> items_ok s tr v T
| io_map : forall tr v T t m, kind_of s tr v = KMap t m ->
    (forall k c, assoc_get k m = Some c -> ps_has [PEField k] T = false ->
       items_ok s (field_type t k) c (ps_with_prefix (PEField k) T)) ->
    items_ok s tr v T
| io_list : forall tr v T t l, kind_of s tr v = KList t l ->
    (forall x ex, In x l -> list_item_to_pe s t x = Some ex -> ps_has [ex] T = false ->
       (ps_empty (ps_with_prefix ex T) = false -> item_ok s (list_elem t) x) /\
       items_ok s (list_elem t) x (ps_with_prefix ex T)) ->
    items_ok s tr v T.

Lemma items_ok_map_inv : forall s tr v T t m, items_ok s tr v T -> kind_of s tr v = KMap t m ->
  forall k c, assoc_get k m = Some c -> ps_has [PEField k] T = false ->
    items_ok s (field_type t k) c (ps_with_prefix (PEField k) T).
Proof.
  intros s tr v T t m H Hk. inversion H as [? ? ? Hl|? ? ? t' m' Hk' Hc|? ? ? t' l' Hk' Hc]; subst.
  - unfold leafy in Hl. rewrite Hk in Hl. contradiction.
  - rewrite Hk in Hk'. inversion Hk'; subst. exact Hc.
  - rewrite Hk in Hk'. discriminate.
Qed.

Lemma items_ok_list_inv : forall s tr v T t l, items_ok s tr v T -> kind_of s tr v = KList t l ->
  forall x ex, In x l -> list_item_to_pe s t x = Some ex -> ps_has [ex] T = false ->
    (ps_empty (ps_with_prefix ex T) = false -> item_ok s (list_elem t) x) /\
    items_ok s (list_elem t) x (ps_with_prefix ex T).
Proof.
  intros s tr v T t l H Hk. inversion H as [? ? ? Hl|? ? ? t' m' Hk' Hc|? ? ? t' l' Hk' Hc]; subst.
  - unfold leafy in Hl. rewrite Hk in Hl. contradiction.
  - rewrite Hk in Hk'. discriminate.
  - rewrite Hk in Hk'. inversion Hk'; subst. exact Hc.
Qed.

Lemma ps_has_nil : forall T, ps_has [] T = false.
Proof. intros T. reflexivity. Qed.

Lemma has_nonnil : forall p T, ps_has p T = true -> p <> [].
Proof. intros p T H ->. rewrite ps_has_nil in H. discriminate. Qed.

(* key-field names are shared by equal path elements *)
Record nice (s : schema) (tr : typeref) (v : value) (T : pset) : Prop := mkNice {
  n_ok : ps_ok T = true;
  n_guard : keys_guarded T;
  n_items : items_ok s tr v T
}.

(* ================= one step of resolution through the result of a removal ================= *)

(* no key field of a keyed list reached from R has a default value *)
Definition keys_nodefault (s : schema) (R : typeref -> Prop) : Prop :=
  forall tr a t k d, R tr -> resolve s tr = Some a -> atom_list a = Some t ->
    In k (list_keys t) -> key_default s t k <> Some (Some d).

(* what removal makes of a list member that is not itself removed *)
Definition kept_item (s : schema) (T : pset) (t : listT) (x : value) : value :=
  let e := list_item_pe_or_zero s t x in
  if negb (ps_empty (ps_with_prefix e T))
  then remove_items s false (list_elem t) (ps_with_prefix e T) x
  else x.

Lemma keep_item_kept : forall s T t x,
  keep_item s T t x =
  if ps_has [list_item_pe_or_zero s t x] T then [] else [kept_item s T t x].
Proof.
  intros s T t x. unfold keep_item, kept_item. cbv zeta.
  destruct (ps_has [list_item_pe_or_zero s t x] T); [reflexivity|].
  destruct (negb (ps_empty (ps_with_prefix (list_item_pe_or_zero s t x) T))); reflexivity.
Qed.

Lemma flat_map_if_map : forall (A B : Type) (f : A -> bool) (g : A -> B) l,
  flat_map (fun x => if f x then [g x] else []) l = map g (filter f l).
Proof.
  intros A B f g l. induction l as [|x l IH]; [reflexivity|].
  simpl. destruct (f x); simpl; rewrite IH; reflexivity.
Qed.

Lemma scalar_removed : forall s tr dup T x, conforms s tr dup x = true -> is_scalar x = true ->
  remove_items s false tr T x = x.
Proof.
  intros s tr dup T x Hc Hs. rewrite conforms_eq in Hc.
  destruct (resolve s tr) as [[sc li ma]|] eqn:Er; [|discriminate].
  destruct x; try discriminate;
    (destruct sc; [|discriminate]); rewrite remove_items_eq, Er;
    cbn [deduce_atom is_scalar handle_atom]; reflexivity.
Qed.

Lemma kind_vmap_cases : forall s tr m,
  match kind_of s tr (VMap m) with KList _ _ => False | _ => True end.
Proof.
  intros s tr m. unfold kind_of. destruct (resolve s tr) as [[sc li ma]|]; [|exact I].
  destruct ma as [t|]; [|exact I]. destruct (rel_is_atomic (map_rel t)); [exact I|].
  destruct m; exact I.
Qed.

Section Frame.
  Variables (s : schema) (R : typeref -> Prop).
  Hypothesis Hok : schema_ok s R.
  Hypothesis Hfam : family_refs s R.
  Hypothesis Hnd : keys_nodefault s R.

  (* a member that is kept keeps its path element *)
  Lemma kept_item_pe : forall tr a t dup x ex T, R tr -> resolve s tr = Some a -> atom_list a = Some t ->
    wf_value x = true -> conforms s (list_elem t) dup x = true ->
    ps_ok T = true -> keys_guarded T ->
    list_item_to_pe s t x = Some ex -> ps_has [ex] T = false ->
    (ps_empty (ps_with_prefix ex T) = false -> item_ok s (list_elem t) x) ->
    list_item_to_pe s t (kept_item s T t x) = Some ex.
  Proof.
    intros tr a t dup x ex T Htr Hr Hal Hwf Hc HT Hkg Hex Hno Hio.
    unfold kept_item. rewrite (list_item_pe_or_zero_some s t x ex Hex). cbv zeta.
    destruct (ps_empty (ps_with_prefix ex T)) eqn:Ee; [exact Hex|]. cbn [negb].
    specialize (Hio eq_refl).
    assert (Hwex : wf_pe ex = true) by (eapply list_item_to_pe_wf; eauto).
    destruct (ps_with_prefix_spec ex T HT Hwex) as [HT' Hw].
    set (T' := ps_with_prefix ex T) in *.
    pose proof Hex as Hex0.
    unfold list_item_to_pe in Hex |- *.
    destruct (negb (rel_is_assoc (list_rel t))); [discriminate|].
    destruct (list_keys t) as [|k0 ks] eqn:Ek.
    - (* set member: a scalar *)
      assert (Hs : is_scalar x = true) by (destruct x; simpl in Hex; try discriminate; reflexivity).
      rewrite (scalar_removed s (list_elem t) dup T' x Hc Hs). exact Hex.
    - (* keyed member: a granular map *)
      destruct x as [| | | | |l|m]; try (simpl in Hex; discriminate).
      destruct Hio as [Hs|Hg]; [discriminate|].
      unfold granular in Hg. pose proof (kind_vmap_cases s (list_elem t) m) as Hkc.
      destruct (kind_of s (list_elem t) (VMap m)) as [|t' m'|t' l'|] eqn:Ekind; try contradiction.
      destruct (kind_map_inv _ _ _ _ _ Ekind) as (a' & Hr' & Ham' & Hv & Hna & Hne).
      inversion Hv; subst m'. clear Hv.
      destruct a' as [sc' li' ma']. simpl in Ham'. subst ma'.
      rewrite keyed_item_to_pe_eq in Hex.
      destruct (keyed_go s t m (list_keys t)) as [fl|] eqn:Eg; [|discriminate].
      inversion Hex as [Hexeq]. clear Hex.
      assert (Hnames : forall k, In k (list_keys t) -> In k (map fst (fl_sort fl))).
      { intros k Hk. apply fl_sort_names. rewrite (keyed_go_names _ _ _ _ _ Eg). exact Hk. }
      assert (Hkeys : forall k, In k (list_keys t) ->
                ps_has [PEField k] T' = false /\ ps_empty (ps_with_prefix (PEField k) T') = true).
      { intros k Hk. specialize (Hnames k Hk). split.
        - destruct (ps_has [PEField k] T') eqn:Eh; [|reflexivity]. exfalso.
          unfold T' in Eh. rewrite Hw in Eh by (auto; discriminate). subst ex.
          assert (H : touches ([] ++ [PEKey (fl_sort fl)]) T = true).
          { apply (Hkg [] (fl_sort fl) k []); [|exact Hnames|exact Eh].
            simpl app. apply wf_path_cons. split; [exact Hwex|reflexivity]. }
          simpl in H. rewrite Hno in H. discriminate.
        - destruct (ps_empty (ps_with_prefix (PEField k) T')) eqn:Ee'; [reflexivity|]. exfalso.
          destruct (ps_with_prefix_spec (PEField k) T' HT' eq_refl) as [HT'' Hw'].
          destruct (ps_nonempty_witness _ HT'' Ee') as (p & Hp & Hhas).
          assert (Hpne : p <> []) by (intros ->; discriminate).
          rewrite Hw' in Hhas by auto.
          unfold T' in Hhas.
          rewrite Hw in Hhas by (try (apply wf_path_cons; split; auto); discriminate).
          subst ex.
          assert (H : touches ([] ++ [PEKey (fl_sort fl)]) T = true).
          { apply (Hkg [] (fl_sort fl) k p); [|exact Hnames|exact Hhas].
            simpl app. apply wf_path_cons. split; [exact Hwex|]. apply wf_path_cons. auto. }
          simpl in H. rewrite Hno in H. discriminate. }
      rewrite (remove_items_vmap' s false (list_elem t) T' sc' li' t' m Hr' Hne), Hna.
      (* the first key field is spelled out, so the result is not empty *)
      assert (Hget : forall k, In k (list_keys t) ->
                assoc_get k (rm_map_go s false T' t' m) = assoc_get k m).
      { intros k Hk. destruct (Hkeys k Hk) as [H1 H2].
        rewrite rm_map_go_assoc_get, H1. unfold kept_value. rewrite H2. cbn [negb].
        destruct (assoc_get k m); reflexivity. }
      assert (Hk0 : assoc_get k0 m <> None).
      { rewrite Ek in Eg. simpl in Eg. destruct (assoc_get k0 m) as [v0|]; [discriminate|].
        destruct (key_default s t k0) as [[d|]|] eqn:Ed; try discriminate.
        exfalso. apply (Hnd tr a t k0 d Htr Hr Hal); [rewrite Ek; simpl; auto|exact Ed]. }
      destruct (rm_map_go s false T' t' m) as [|o out] eqn:Eout.
      { exfalso. apply Hk0. rewrite <- Hget by (rewrite Ek; simpl; auto). reflexivity. }
      rewrite keyed_item_to_pe_eq, <- Eout.
      rewrite (keyed_go_ext s t _ m (list_keys t)); [rewrite Eg, Hexeq; reflexivity|].
      rewrite Eout. exact Hget.
  Qed.

  Lemma rm_resolve_map : forall tr t m T k rest,
    kind_of s tr (VMap m) = KMap t m ->
    resolve_path s tr (remove_items s false tr T (VMap m)) (PEField k :: rest) =
    if ps_has [PEField k] T then None
    else match assoc_get k m with
         | None => None
         | Some c => resolve_path s (field_type t k) (kept_value s T t k c) rest
         end.
  Proof.
    intros tr t m T k rest Ek.
    destruct (kind_map_inv _ _ _ _ _ Ek) as (a & Hr & Ham & _ & Hna & Hne).
    destruct a as [sc li ma]. simpl in Ham. subst ma.
    rewrite (remove_items_vmap' s false tr T sc li t m Hr Hne), Hna.
    pose proof (rm_map_go_assoc_get s T t k m) as Hg.
    destruct (rm_map_go s false T t m) as [|o out] eqn:Eo.
    - rewrite resolve_path_leaf by apply kind_null.
      simpl in Hg. destruct (ps_has [PEField k] T); [reflexivity|].
      destruct (assoc_get k m); [discriminate|reflexivity].
    - rewrite <- Eo in *.
      assert (Hk : kind_of s tr (VMap (rm_map_go s false T t m)) = KMap t (rm_map_go s false T t m)).
      { unfold kind_of. rewrite Hr, Hna, Eo. reflexivity. }
      rewrite (resolve_path_map _ _ _ _ _ _ _ Hk), Hg.
      destruct (ps_has [PEField k] T); [reflexivity|].
      destruct (assoc_get k m); reflexivity.
  Qed.

  (* the members of the result of removing T from a list, filtered by path element *)
  Lemma occ_kept : forall t T e l,
    ps_ok T = true -> wf_pe e = true -> forallb (has_pe s t) l = true -> items_wf s t l ->
    (forall x ex, In x l -> list_item_to_pe s t x = Some ex -> ps_has [ex] T = false ->
       list_item_to_pe s t (kept_item s T t x) = Some ex) ->
    occ s t e (flat_map (keep_item s T t) l) =
    if ps_has [e] T then [] else map (kept_item s T t) (occ s t e l).
  Proof.
    intros t T e l HT He. induction l as [|x l IH]; intros Hhp Hiw Hst.
    - simpl. destruct (ps_has [e] T); reflexivity.
    - cbn [forallb] in Hhp. apply andb_true_iff in Hhp. destruct Hhp as [Hx Hhp].
      pose proof (items_wf_cons _ _ _ _ Hiw) as [Hwx Hiw'].
      cbn [flat_map]. unfold occ at 1. rewrite filter_app. fold (occ s t e (keep_item s T t x)).
      fold (occ s t e (flat_map (keep_item s T t) l)).
      rewrite IH; auto; [|intros y ey Hy; apply Hst; right; exact Hy].
      rewrite occ_cons. rewrite keep_item_kept.
      unfold has_pe in Hx. destruct (list_item_to_pe s t x) as [ex|] eqn:Ex; [|discriminate].
      rewrite (list_item_pe_or_zero_some s t x ex Ex).
      assert (Hwex : wf_pe ex = true) by (apply Hwx; reflexivity).
      assert (Hpm : pe_matches s t e x = peeqb ex e) by (unfold pe_matches; rewrite Ex; reflexivity).
      rewrite Hpm.
      destruct (peeqb ex e) eqn:Eeq.
      + assert (Hsame : ps_has [ex] T = ps_has [e] T).
        { apply ps_has_patheqb; auto; try (apply wf_path_cons; split; auto).
          simpl. rewrite Eeq. reflexivity. }
        rewrite Hsame. destruct (ps_has [e] T) eqn:Eh; [reflexivity|].
        unfold occ at 1. cbn [filter]. unfold pe_matches.
        rewrite (Hst x ex (or_introl eq_refl) Ex Hsame).
        rewrite Eeq. reflexivity.
      + destruct (ps_has [ex] T) eqn:Eh; [reflexivity|].
        unfold occ at 1. cbn [filter]. unfold pe_matches.
        rewrite (Hst x ex (or_introl eq_refl) Ex Eh). rewrite Eeq. reflexivity.
  Qed.

  Lemma conf_list_facts : forall tr dup t l, R tr -> conforms s tr dup (VList l) = true ->
    kind_of s tr (VList l) = KList t l ->
    exists sc ma, resolve s tr = Some (Atom sc (Some t) ma) /\ R (list_elem t) /\
      rel_is_atomic (list_rel t) = false /\ l <> [] /\
      forallb (has_pe s t) l = true /\
      forallb (fun x => conforms s (list_elem t) dup x) l = true /\
      (dup || all_distinct (pes_of s t l)) = true.
  Proof.
    intros tr dup t l Htr Hc Ek.
    destruct (kind_list_inv _ _ _ _ _ Ek) as (a & Hr & Hal & _ & Hna & Hne).
    destruct a as [sc li ma]. simpl in Hal. subst li. exists sc, ma.
    assert (Hte : R (list_elem t)) by (eapply (so_list s R Hok); eauto; reflexivity).
    rewrite conforms_eq, Hr in Hc.
    destruct (Hfam tr _ t Htr Hr eq_refl) as [Hrel|Hrel];
      [|rewrite Hrel in Hna; discriminate].
    rewrite Hrel in Hc. apply andb_true_iff in Hc. destruct Hc as [Hc Hd].
    apply andb_true_iff in Hc. destruct Hc as [Hc1 Hc2]. repeat split; auto.
  Qed.

  Lemma kept_items_pe : forall tr dup t l T, R tr -> wf_value (VList l) = true ->
    conforms s tr dup (VList l) = true -> kind_of s tr (VList l) = KList t l ->
    nice s tr (VList l) T ->
    forall x ex, In x l -> list_item_to_pe s t x = Some ex -> ps_has [ex] T = false ->
      list_item_to_pe s t (kept_item s T t x) = Some ex.
  Proof.
    intros tr dup t l T Htr Hwf Hc Ek [HT Hkg Hio] x ex Hx Hex Hno.
    destruct (conf_list_facts tr dup t l Htr Hc Ek) as (sc & ma & Hr & Hte & Hna & Hne & Hhp & Hcs & _).
    destruct (items_ok_list_inv s tr _ T t l Hio Ek x ex Hx Hex Hno) as [Hitem _].
    eapply (kept_item_pe tr _ t dup x ex T Htr Hr eq_refl); eauto.
    - eapply wf_value_list_in; eauto.
    - rewrite forallb_forall in Hcs. exact (Hcs x Hx).
  Qed.

  Lemma kept_list_facts : forall tr dup t l T, R tr -> wf_value (VList l) = true ->
    conforms s tr dup (VList l) = true -> kind_of s tr (VList l) = KList t l ->
    nice s tr (VList l) T ->
    forallb wf_value (flat_map (keep_item s T t) l) = true /\
    forallb (has_pe s t) (flat_map (keep_item s T t) l) = true.
  Proof.
    intros tr dup t l T Htr Hwf Hc Ek Hn.
    destruct (conf_list_facts tr dup t l Htr Hc Ek) as (sc & ma & Hr & Hte & Hna & Hne & Hhp & Hcs & _).
    pose proof (kept_items_pe tr dup t l T Htr Hwf Hc Ek Hn) as Hst.
    split; apply forallb_forall; intros y Hy; apply in_flat_map in Hy; destruct Hy as (x & Hx & Hy);
      rewrite keep_item_kept in Hy;
      (destruct (ps_has [list_item_pe_or_zero s t x] T) eqn:Eh; [contradiction|]);
      destruct Hy as [<-|[]].
    - unfold kept_item. cbv zeta.
      destruct (negb (ps_empty (ps_with_prefix (list_item_pe_or_zero s t x) T)));
        [apply remove_items_wf|]; eapply wf_value_list_in; eauto.
    - rewrite forallb_forall in Hhp. pose proof (Hhp x Hx) as Hpx. unfold has_pe in *.
      destruct (list_item_to_pe s t x) as [ex|] eqn:Ex; [|discriminate].
      rewrite (list_item_pe_or_zero_some s t x ex Ex) in Eh.
      rewrite (Hst x ex Hx Ex Eh). reflexivity.
  Qed.

  Lemma rm_resolve_list : forall tr dup t l T e rest, R tr -> wf_value (VList l) = true ->
    conforms s tr dup (VList l) = true -> kind_of s tr (VList l) = KList t l ->
    nice s tr (VList l) T -> wf_pe e = true -> is_keyval e = true ->
    resolve_path s tr (remove_items s false tr T (VList l)) (e :: rest) =
    if ps_has [e] T then None
    else match occ s t e l with
         | [] => None
         | [x] => resolve_path s (list_elem t) (kept_item s T t x) rest
         | x :: y :: more =>
             match rest with
             | [] => Some (RDup (list_elem t) (map (kept_item s T t) (x :: y :: more)))
             | _ => None
             end
         end.
  Proof.
    intros tr dup t l T e rest Htr Hwf Hc Ek Hn He Ekv.
    destruct (conf_list_facts tr dup t l Htr Hc Ek) as (sc & ma & Hr & Hte & Hna & Hne & Hhp & Hcs & _).
    pose proof (kept_items_pe tr dup t l T Htr Hwf Hc Ek Hn) as Hst.
    destruct (kept_list_facts tr dup t l T Htr Hwf Hc Ek Hn) as [Hwf' Hhp'].
    assert (Hiw : items_wf s t l) by (eapply items_wf_R; eauto).
    pose proof (occ_kept t T e l (n_ok _ _ _ _ Hn) He Hhp Hiw Hst) as Hocc.
    rewrite (remove_items_vlist' s false tr T sc t ma l Hr Hne), Hna, rm_list_go_flat.
    destruct (flat_map (keep_item s T t) l) as [|y0 ys] eqn:Ei.
    - rewrite resolve_path_leaf by apply kind_null.
      destruct (ps_has [e] T); [reflexivity|].
      simpl in Hocc. symmetry in Hocc. apply map_eq_nil in Hocc. rewrite Hocc. reflexivity.
    - rewrite <- Ei in *. set (l' := flat_map (keep_item s T t) l) in *.
      assert (Hk' : kind_of s tr (VList l') = KList t l').
      { unfold kind_of. rewrite Hr, Hna, Ei. reflexivity. }
      rewrite (resolve_path_list_occ s R Hok tr (VList l') t l' e rest Htr Hwf' Hk' He).
      rewrite Hhp', Ekv, Hocc. cbn [andb].
      destruct (ps_has [e] T); [reflexivity|].
      destruct (occ s t e l) as [|x [|y more]]; reflexivity.
  Qed.

  Lemma rm_resolve_list_other : forall tr dup t l T e rest, R tr ->
    conforms s tr dup (VList l) = true -> kind_of s tr (VList l) = KList t l ->
    is_keyval e = false ->
    resolve_path s tr (remove_items s false tr T (VList l)) (e :: rest) = None.
  Proof.
    intros tr dup t l T e rest Htr Hc Ek Ekv.
    destruct (conf_list_facts tr dup t l Htr Hc Ek) as (sc & ma & Hr & Hte & Hna & Hne & _).
    rewrite (remove_items_vlist' s false tr T sc t ma l Hr Hne), Hna.
    destruct (rm_list_go s false T t l) as [|y0 ys] eqn:Ei.
    - apply resolve_path_leaf. apply kind_null.
    - apply (resolve_path_list_other s tr _ t (y0 :: ys)); [|exact Ekv].
      unfold kind_of. rewrite Hr, Hna. reflexivity.
  Qed.

  Lemma rm_resolve_map_other : forall tr t m T e rest,
    kind_of s tr (VMap m) = KMap t m ->
    match e with PEField _ => False | _ => True end ->
    resolve_path s tr (remove_items s false tr T (VMap m)) (e :: rest) = None.
  Proof.
    intros tr t m T e rest Ek He.
    destruct (kind_map_inv _ _ _ _ _ Ek) as (a & Hr & Ham & _ & Hna & Hne).
    destruct a as [sc li ma]. simpl in Ham. subst ma.
    rewrite (remove_items_vmap' s false tr T sc li t m Hr Hne), Hna.
    destruct (rm_map_go s false T t m) as [|o out] eqn:Eo.
    - apply resolve_path_leaf. apply kind_null.
    - apply (resolve_path_map_other s tr _ t (o :: out)); [|exact He].
      unfold kind_of. rewrite Hr, Hna. reflexivity.
  Qed.

  (* ---------- the conditions pass to the children ---------- *)

  Lemma nice_map_child : forall tr m T t k c, nice s tr (VMap m) T ->
    kind_of s tr (VMap m) = KMap t m -> assoc_get k m = Some c -> ps_has [PEField k] T = false ->
    nice s (field_type t k) c (ps_with_prefix (PEField k) T).
  Proof.
    intros tr m T t k c [HT Hkg Hio] Ek Eg Hno.
    destruct (ps_with_prefix_spec (PEField k) T HT eq_refl) as [HT' _].
    split; [exact HT'|apply keys_guarded_wp; auto|].
    eapply items_ok_map_inv; eauto.
  Qed.

  Lemma nice_item_child : forall tr l T t x ex, nice s tr (VList l) T ->
    kind_of s tr (VList l) = KList t l -> In x l -> list_item_to_pe s t x = Some ex ->
    wf_pe ex = true -> ps_has [ex] T = false ->
    nice s (list_elem t) x (ps_with_prefix ex T).
  Proof.
    intros tr l T t x ex [HT Hkg Hio] Ek Hx Hex Hwex Hno.
    destruct (ps_with_prefix_spec ex T HT Hwex) as [HT' _].
    split; [exact HT'|apply keys_guarded_wp; auto|].
    eapply items_ok_list_inv; eauto.
  Qed.

  Lemma sub_present_map_child : forall tr v T t m k c, ps_ok T = true ->
    kind_of s tr v = KMap t m -> assoc_get k m = Some c -> sub_present s tr v T ->
    sub_present s (field_type t k) c (ps_with_prefix (PEField k) T).
  Proof.
    intros tr v T t m k c HT Ek Eg Hsp p Hp Hhas.
    destruct (ps_with_prefix_spec (PEField k) T HT eq_refl) as [_ Hw].
    pose proof (has_nonnil _ _ Hhas) as Hne.
    rewrite Hw in Hhas by auto.
    rewrite <- (present_map_step s tr v t m k c p Ek Eg).
    apply Hsp; [apply wf_path_cons; auto|exact Hhas].
  Qed.

  Lemma sub_present_item_child : forall tr v T t l x ex, R tr -> wf_value v = true ->
    ps_ok T = true -> kind_of s tr v = KList t l -> forallb (has_pe s t) l = true ->
    wf_pe ex = true -> is_keyval ex = true -> occ s t ex l = [x] -> sub_present s tr v T ->
    sub_present s (list_elem t) x (ps_with_prefix ex T).
  Proof.
    intros tr v T t l x ex Htr Hwf HT Ek Hhp Hwex Hkv Hocc Hsp p Hp Hhas.
    destruct (ps_with_prefix_spec ex T HT Hwex) as [_ Hw].
    pose proof (has_nonnil _ _ Hhas) as Hne.
    rewrite Hw in Hhas by auto.
    assert (Hpr : present s tr v (ex :: p) = true) by (apply Hsp; [apply wf_path_cons; auto|exact Hhas]).
    unfold present in *.
    rewrite (resolve_path_list_occ s R Hok tr v t l ex p Htr Hwf Ek Hwex), Hhp, Hkv, Hocc in Hpr.
    exact Hpr.
  Qed.

  Lemma sub_present_leaf_empty : forall tr v T, ps_ok T = true -> sub_present s tr v T ->
    leafy s tr v -> ps_empty T = true.
  Proof.
    intros tr v T HT Hsp Hl. destruct (ps_empty T) eqn:Ee; [reflexivity|]. exfalso.
    destruct (ps_nonempty_witness T HT Ee) as (p & Hp & Hhas).
    pose proof (Hsp p Hp Hhas) as Hpr.
    rewrite (present_leaf_false s tr v p Hl (has_nonnil _ _ Hhas)) in Hpr. discriminate.
  Qed.

  Lemma touches_ext : forall p A B, ps_ok A = true -> ps_ok B = true -> wf_path p = true ->
    (forall q, wf_path q = true -> q <> [] -> ps_has q A = ps_has q B) ->
    touches p A = touches p B.
  Proof.
    intros p A B HA HB Hp Hext.
    assert (Hiff : touches p A = true <-> touches p B = true).
    { rewrite (touches_iff p A HA Hp), (touches_iff p B HB Hp).
      split; intros (n & Hn & H); exists n; (split; [exact Hn|]);
        [rewrite <- Hext|rewrite Hext]; auto;
        try (apply wf_path_firstn; exact Hp);
        apply firstn_nonnil; try lia; destruct p; simpl in Hn; try lia; discriminate. }
    destruct (touches p A), (touches p B); try reflexivity;
      [destruct Hiff as [H _]; specialize (H eq_refl); discriminate
      |destruct Hiff as [_ H]; specialize (H eq_refl); discriminate].
  Qed.

  Lemma with_prefix_cong : forall T e e', ps_ok T = true -> wf_pe e = true -> wf_pe e' = true ->
    peeqb e e' = true ->
    forall q, wf_path q = true -> q <> [] ->
      ps_has q (ps_with_prefix e T) = ps_has q (ps_with_prefix e' T).
  Proof.
    intros T e e' HT He He' Heq q Hq Hne.
    destruct (ps_with_prefix_spec e T HT He) as [_ Hw].
    destruct (ps_with_prefix_spec e' T HT He') as [_ Hw'].
    rewrite Hw, Hw' by auto.
    apply ps_has_patheqb; auto; try (apply wf_path_cons; auto).
    simpl. rewrite Heq. apply patheqb_refl. exact Hq.
  Qed.

  (* ---------- what removal keeps ---------- *)

  (* a scalar or null: removal never changes it, whatever the set *)
  Definition rnode_simple (n : rnode) : Prop :=
    match n with RNode _ x => is_scalar x = true \/ x = VNull | RDup _ _ => False end.

  Definition keeps_at (p : path) : Prop :=
    forall v tr dup T n, R tr -> wf_value v = true -> conforms s tr dup v = true ->
      nice s tr v T -> wf_path p = true -> p <> [] ->
      resolve_path s tr v p = Some n -> touches p T = false ->
      exists n', resolve_path s tr (remove_items s false tr T v) p = Some n' /\
        (sub_present s tr v T \/ rnode_simple n -> rnode_is_leaf s n = true -> n' = n).

  Lemma keeps_child : forall rest ft dup c T' n, (rest <> [] -> keeps_at rest) ->
    R ft -> wf_value c = true -> conforms s ft dup c = true -> nice s ft c T' ->
    wf_path rest = true -> resolve_path s ft c rest = Some n -> touches rest T' = false ->
    exists n',
      resolve_path s ft (if negb (ps_empty T') then remove_items s false ft T' c else c) rest = Some n' /\
      (sub_present s ft c T' \/ rnode_simple n -> rnode_is_leaf s n = true -> n' = n).
  Proof.
    intros rest ft dup c T' n IH Hft Hwf Hc Hn Hrest Hres Hto.
    destruct (ps_empty T') eqn:Ee; cbn [negb].
    - exists n. split; [exact Hres|reflexivity].
    - destruct rest as [|r0 rest'].
      + simpl in Hres. inversion Hres; subst n. simpl.
        exists (RNode ft (remove_items s false ft T' c)). split; [reflexivity|].
        intros [Hsp|[Hs|Hs]] Hleaf.
        * exfalso.
          assert (Hl : leafy s ft c).
          { unfold leafy. simpl in Hleaf. destruct (kind_of s ft c); try discriminate; exact I. }
          rewrite (sub_present_leaf_empty ft c T' (n_ok _ _ _ _ Hn) Hsp Hl) in Ee. discriminate.
        * rewrite (scalar_removed s ft dup T' c Hc Hs). reflexivity.
        * subst c. rewrite remove_items_null. reflexivity.
      + apply (IH ltac:(discriminate) c ft dup T' n); auto. discriminate.
  Qed.

  Theorem remove_keeps : forall p, keeps_at p.
  Proof.
    induction p as [|e rest IH]; intros v tr dup T n Htr Hwf Hc Hn Hp Hne Hres Hto; [congruence|].
    apply wf_path_cons in Hp. destruct Hp as [He Hrest].
    cbn [touches] in Hto. apply orb_false_iff in Hto. destruct Hto as [Hno Hto].
    pose proof (n_ok _ _ _ _ Hn) as HT.
    destruct (kind_of s tr v) as [|t m|t l|] eqn:Ek.
    - rewrite resolve_path_leaf in Hres by (rewrite Ek; exact I). discriminate.
    - destruct (kind_map_inv _ _ _ _ _ Ek) as (a & Hr & Ham & Hv & Hna & Hmne). subst v.
      destruct e as [k|fl|ev|i];
        try (rewrite (resolve_path_map_other _ _ _ _ _ _ _ Ek) in Hres by exact I; discriminate).
      rewrite (resolve_path_map _ _ _ _ _ _ _ Ek) in Hres.
      destruct (assoc_get k m) as [c|] eqn:Eg; [|discriminate].
      rewrite (rm_resolve_map tr t m T k rest Ek), Hno, Eg. unfold kept_value.
      pose proof (assoc_get_In m k c Eg) as Hin.
      assert (Hcc : conforms s (field_type t k) dup c = true).
      { pose proof Hc as Hc'. rewrite conforms_eq, Hr in Hc'.
        destruct a as [sc li ma]. simpl in Ham. subst ma. eapply cmap_each_in; eauto. }
      destruct (keeps_child rest (field_type t k) dup c (ps_with_prefix (PEField k) T) n
                  (fun _ => IH)) as (n' & Hn' & Hleaf); auto.
      + eapply (so_map s R Hok); eauto.
      + eapply wf_value_map_in; eauto.
      + eapply nice_map_child; eauto.
      + exists n'. split; [exact Hn'|]. intros [Hsp|Hs]; apply Hleaf; [left|right; exact Hs].
        eapply sub_present_map_child; eauto.
    - destruct (kind_list_inv _ _ _ _ _ Ek) as (a & Hr0 & Hal & Hv & _ & _). subst v.
      destruct (conf_list_facts tr dup t l Htr Hc Ek) as (sc & ma & Hr & Hte & Hna & Hlne & Hhp & Hcs & _).
      destruct (is_keyval e) eqn:Ekv;
        [|rewrite (resolve_path_list_other _ _ _ _ _ _ _ Ek Ekv) in Hres; discriminate].
      rewrite (resolve_path_list_occ s R Hok tr _ t l e rest Htr Hwf Ek He), Hhp, Ekv in Hres.
      cbn [andb] in Hres.
      rewrite (rm_resolve_list tr dup t l T e rest Htr Hwf Hc Ek Hn He Ekv), Hno.
      assert (Hiw : items_wf s t l) by (eapply items_wf_R; eauto).
      destruct (occ s t e l) as [|x [|y more]] eqn:Eo; [discriminate| |].
      + assert (Hxo : In x (occ s t e l)) by (rewrite Eo; left; reflexivity).
        apply occ_In in Hxo. destruct Hxo as [Hx Hm]. unfold pe_matches in Hm.
        destruct (list_item_to_pe s t x) as [ex|] eqn:Ex; [|discriminate].
        assert (Hwex : wf_pe ex = true) by (apply (Hiw x ex Hx Ex)).
        assert (Hnoex : ps_has [ex] T = false).
        { rewrite <- Hno. apply ps_has_patheqb; auto; try (apply wf_path_cons; auto).
          simpl. rewrite Hm. reflexivity. }
        destruct (ps_with_prefix_spec ex T HT Hwex) as [HTx _].
        destruct (ps_with_prefix_spec e T HT He) as [HTe _].
        assert (Htox : touches rest (ps_with_prefix ex T) = false).
        { rewrite <- Hto. apply touches_ext; auto. apply with_prefix_cong; auto. }
        unfold kept_item. rewrite (list_item_pe_or_zero_some s t x ex Ex). cbv zeta.
        destruct (keeps_child rest (list_elem t) dup x (ps_with_prefix ex T) n
                    (fun _ => IH)) as (n' & Hn' & Hleaf); auto.
        * eapply wf_value_list_in; eauto.
        * rewrite forallb_forall in Hcs. exact (Hcs x Hx).
        * eapply nice_item_child; eauto.
        * exists n'. split; [exact Hn'|]. intros [Hsp|Hs]; apply Hleaf; [left|right; exact Hs].
          apply (sub_present_item_child tr (VList l) T t l x ex); auto.
          -- rewrite (peeqb_keyval ex e Hm). exact Ekv.
          -- rewrite <- Eo. apply occ_cong; auto.
      + destruct rest as [|r0 rest']; [|discriminate]. inversion Hres; subst n.
        eexists. split; [reflexivity|]. intros [Hsp|[]] _. f_equal.
        rewrite <- Eo. rewrite <- (map_id (occ s t e l)) at 2. apply map_ext_in.
        intros z Hz. apply occ_In in Hz. destruct Hz as [Hz Hm]. unfold pe_matches in Hm.
        destruct (list_item_to_pe s t z) as [ez|] eqn:Ez; [|discriminate].
        assert (Hwez : wf_pe ez = true) by (apply (Hiw z ez Hz Ez)).
        unfold kept_item. rewrite (list_item_pe_or_zero_some s t z ez Ez). cbv zeta.
        destruct (ps_empty (ps_with_prefix ez T)) eqn:Ee; [reflexivity|]. exfalso.
        destruct (ps_with_prefix_spec ez T HT Hwez) as [HTz Hwz].
        destruct (ps_nonempty_witness _ HTz Ee) as (q & Hq & Hhas).
        pose proof (has_nonnil _ _ Hhas) as Hqne.
        rewrite Hwz in Hhas by auto.
        assert (Hpr : present s tr (VList l) (ez :: q) = true).
        { apply Hsp; [apply wf_path_cons; auto|exact Hhas]. }
        unfold present in Hpr.
        rewrite (resolve_path_list_occ s R Hok tr _ t l ez q Htr Hwf Ek Hwez), Hhp in Hpr.
        rewrite (peeqb_keyval ez e Hm), Ekv in Hpr. cbn [andb] in Hpr.
        rewrite (occ_cong s t l ez e Hiw Hwez He Hm), Eo in Hpr.
        destruct q; [congruence|discriminate].
    - rewrite resolve_path_leaf in Hres by (rewrite Ek; exact I). discriminate.
  Qed.

  (* ---------- what removal drops ---------- *)

  Lemma touches_nonempty : forall p T, ps_ok T = true -> wf_path p = true ->
    touches p T = true -> ps_empty T = false.
  Proof.
    intros p T HT Hp H. apply (touches_iff p T HT Hp) in H. destruct H as (n & _ & H).
    eapply ps_has_nonempty; eauto.
  Qed.

  Lemma remove_leafy : forall tr dup v T, conforms s tr dup v = true -> leafy s tr v ->
    leafy s tr (remove_items s false tr T v).
  Proof.
    intros tr dup v T Hc Hl.
    destruct v as [| | | | |l|m];
      try (rewrite (scalar_removed s tr dup T _ Hc eq_refl); exact Hl).
    - rewrite remove_items_null. exact Hl.
    - pose proof Hc as Hc'. rewrite conforms_eq in Hc'.
      destruct (resolve s tr) as [[sc li ma]|] eqn:Er; [|discriminate].
      destruct li as [t|]; [|discriminate].
      destruct l as [|x l].
      + rewrite remove_items_eq, Er, handle_vlist. apply kind_null.
      + rewrite (remove_items_vlist' s false tr T sc t ma (x :: l) Er) by discriminate.
        unfold leafy, kind_of in Hl. rewrite Er in Hl.
        destruct (rel_is_atomic (list_rel t)); [apply kind_null|contradiction].
    - pose proof Hc as Hc'. rewrite conforms_eq in Hc'.
      destruct (resolve s tr) as [[sc li ma]|] eqn:Er; [|discriminate].
      destruct ma as [t|]; [|discriminate].
      destruct m as [|kv m].
      + rewrite remove_items_eq, Er, handle_vmap. apply kind_null.
      + rewrite (remove_items_vmap' s false tr T sc li t (kv :: m) Er) by discriminate.
        unfold leafy, kind_of in Hl. rewrite Er in Hl.
        destruct (rel_is_atomic (map_rel t)); [apply kind_null|contradiction].
  Qed.

  Theorem remove_drops : forall p v tr dup T, R tr -> wf_value v = true ->
    conforms s tr dup v = true -> nice s tr v T -> wf_path p = true ->
    touches p T = true -> present s tr (remove_items s false tr T v) p = false.
  Proof.
    induction p as [|e rest IH]; intros v tr dup T Htr Hwf Hc Hn Hp Hto; [discriminate|].
    apply wf_path_cons in Hp. destruct Hp as [He Hrest].
    pose proof (n_ok _ _ _ _ Hn) as HT.
    cbn [touches] in Hto.
    destruct (kind_of s tr v) as [|t m|t l|] eqn:Ek.
    - apply present_leaf_false; [|discriminate].
      apply (remove_leafy tr dup v T Hc). unfold leafy. rewrite Ek. exact I.
    - destruct (kind_map_inv _ _ _ _ _ Ek) as (a & Hr & Ham & Hv & Hna & Hmne). subst v.
      unfold present.
      destruct e as [k|fl|ev|i];
        try (rewrite (rm_resolve_map_other tr t m T _ rest Ek) by exact I; reflexivity).
      rewrite (rm_resolve_map tr t m T k rest Ek).
      destruct (ps_has [PEField k] T) eqn:Eh; [reflexivity|]. cbn [orb] in Hto.
      destruct (assoc_get k m) as [c|] eqn:Eg; [|reflexivity].
      destruct (ps_with_prefix_spec (PEField k) T HT eq_refl) as [HT' _].
      unfold kept_value. rewrite (touches_nonempty rest _ HT' Hrest Hto). cbn [negb].
      pose proof (assoc_get_In m k c Eg) as Hin.
      apply (IH c (field_type t k) dup (ps_with_prefix (PEField k) T)); auto.
      + eapply (so_map s R Hok); eauto.
      + eapply wf_value_map_in; eauto.
      + pose proof Hc as Hc'. rewrite conforms_eq, Hr in Hc'.
        destruct a as [sc li ma]. simpl in Ham. subst ma. eapply cmap_each_in; eauto.
      + eapply nice_map_child; eauto.
    - destruct (kind_list_inv _ _ _ _ _ Ek) as (a & Hr0 & Hal & Hv & _ & _). subst v.
      destruct (conf_list_facts tr dup t l Htr Hc Ek) as (sc & ma & Hr & Hte & Hna & Hlne & Hhp & Hcs & _).
      unfold present.
      destruct (is_keyval e) eqn:Ekv;
        [|rewrite (rm_resolve_list_other tr dup t l T e rest Htr Hc Ek Ekv); reflexivity].
      rewrite (rm_resolve_list tr dup t l T e rest Htr Hwf Hc Ek Hn He Ekv).
      destruct (ps_has [e] T) eqn:Eh; [reflexivity|]. cbn [orb] in Hto.
      assert (Hiw : items_wf s t l) by (eapply items_wf_R; eauto).
      destruct (occ s t e l) as [|x [|y more]] eqn:Eo; [reflexivity| |].
      + assert (Hxo : In x (occ s t e l)) by (rewrite Eo; left; reflexivity).
        apply occ_In in Hxo. destruct Hxo as [Hx Hm]. unfold pe_matches in Hm.
        destruct (list_item_to_pe s t x) as [ex|] eqn:Ex; [|discriminate].
        assert (Hwex : wf_pe ex = true) by (apply (Hiw x ex Hx Ex)).
        assert (Hnoex : ps_has [ex] T = false).
        { rewrite <- Eh. apply ps_has_patheqb; auto; try (apply wf_path_cons; auto).
          simpl. rewrite Hm. reflexivity. }
        destruct (ps_with_prefix_spec ex T HT Hwex) as [HTx _].
        destruct (ps_with_prefix_spec e T HT He) as [HTe _].
        assert (Htox : touches rest (ps_with_prefix ex T) = true).
        { rewrite <- Hto. apply touches_ext; auto. apply with_prefix_cong; auto. }
        unfold kept_item. rewrite (list_item_pe_or_zero_some s t x ex Ex). cbv zeta.
        rewrite (touches_nonempty rest _ HTx Hrest Htox). cbn [negb].
        apply (IH x (list_elem t) dup (ps_with_prefix ex T)); auto.
        * eapply wf_value_list_in; eauto.
        * rewrite forallb_forall in Hcs. exact (Hcs x Hx).
        * eapply nice_item_child; eauto.
      + destruct rest; [discriminate|reflexivity].
    - apply present_leaf_false; [|discriminate].
      apply (remove_leafy tr dup v T Hc). unfold leafy. rewrite Ek. exact I.
  Qed.

  (* ---------- the result conforms ---------- *)

  Lemma cmap_each_rm : forall dup t T m,
    (forall k c, In (k, c) m -> ps_has [PEField k] T = false ->
       conforms s (field_type t k) dup c = true ->
       conforms s (field_type t k) dup (kept_value s T t k c) = true) ->
    cmap_each s dup t m = true -> cmap_each s dup t (rm_map_go s false T t m) = true.
  Proof.
    intros dup t T m. induction m as [|[k c] m IH]; intros Hkept Hc; [reflexivity|].
    rewrite rm_map_go_cons. unfold rm_map_step. cbn [fst snd].
    cbn [cmap_each] in Hc. apply andb_true_iff in Hc. destruct Hc as [Hkc Hc].
    assert (IH' : cmap_each s dup t (rm_map_go s false T t m) = true).
    { apply IH; [|exact Hc]. intros k' c' Hin. apply Hkept. right. exact Hin. }
    destruct (ps_has [PEField k] T) eqn:Eh; [exact IH'|].
    pose proof (Hkept k c (or_introl eq_refl) Eh) as Hk. unfold kept_value in Hk.
    destruct (has_field t k) eqn:Ehf.
    - specialize (Hk Hkc).
      destruct (negb (ps_empty (ps_with_prefix (PEField k) T))); cbn [cmap_each];
        rewrite Ehf, IH', andb_true_r; [exact Hk|exact Hkc].
    - apply andb_true_iff in Hkc. destruct Hkc as [Hne Hkc].
      rewrite (field_type_nofield t k Ehf) in Hk. specialize (Hk Hkc).
      destruct (negb (ps_empty (ps_with_prefix (PEField k) T))); cbn [cmap_each];
        rewrite Ehf, IH', Hne, andb_true_r; cbn [andb];
        [rewrite (field_type_nofield t k Ehf); exact Hk|exact Hkc].
  Qed.

  Theorem remove_conforms : forall v tr T, R tr -> wf_value v = true ->
    conforms s tr true v = true -> nice s tr v T ->
    conforms s tr true (remove_items s false tr T v) = true.
  Proof.
    intros v. induction v as [|b|z|q0|str|l IHl|m IHm] using value_ind';
      intros tr T Htr Hwf Hc Hn;
      try (rewrite (scalar_removed s tr true T _ Hc eq_refl); exact Hc).
    - rewrite remove_items_null. exact Hc.
    - (* list *)
      pose proof Hc as Hc'. rewrite conforms_eq in Hc'.
      destruct (resolve s tr) as [[sc li ma]|] eqn:Er; [|discriminate].
      destruct li as [t|]; [|discriminate].
      assert (Hnull : conforms s tr true VNull = true)
        by (rewrite conforms_eq, Er; destruct sc; reflexivity).
      destruct l as [|x0 l0]; [rewrite remove_items_eq, Er, handle_vlist; exact Hnull|].
      set (l := x0 :: l0) in *.
      rewrite (remove_items_vlist' s false tr T sc t ma l Er) by discriminate.
      destruct (rel_is_atomic (list_rel t)) eqn:Ena; [exact Hnull|].
      assert (Ek : kind_of s tr (VList l) = KList t l).
      { unfold kind_of. rewrite Er, Ena. reflexivity. }
      destruct (conf_list_facts tr true t l Htr Hc Ek) as (sc' & ma' & Hr & Hte & _ & _ & Hhp & Hcs & _).
      destruct (kept_list_facts tr true t l T Htr Hwf Hc Ek Hn) as [Hwf' Hhp'].
      rewrite rm_list_go_flat.
      destruct (flat_map (keep_item s T t) l) as [|y0 ys] eqn:Ei; [exact Hnull|].
      rewrite <- Ei in *.
      rewrite conforms_eq, Er.
      destruct (Hfam tr _ t Htr Er eq_refl) as [Hrel|Hrel]; [|rewrite Hrel in Ena; discriminate].
      rewrite Hrel, Hhp'. cbn [andb orb]. rewrite andb_true_r.
      apply forallb_forall. intros y Hy. apply in_flat_map in Hy. destruct Hy as (x & Hx & Hy).
      rewrite keep_item_kept in Hy.
      destruct (ps_has [list_item_pe_or_zero s t x] T) eqn:Eh; [contradiction|].
      destruct Hy as [<-|[]].
      assert (Hcx : conforms s (list_elem t) true x = true).
      { rewrite forallb_forall in Hcs. exact (Hcs x Hx). }
      unfold kept_item. cbv zeta.
      destruct (negb (ps_empty (ps_with_prefix (list_item_pe_or_zero s t x) T))); [|exact Hcx].
      rewrite forallb_forall in Hhp. pose proof (Hhp x Hx) as Hpx. unfold has_pe in Hpx.
      destruct (list_item_to_pe s t x) as [ex|] eqn:Ex; [|discriminate].
      rewrite (list_item_pe_or_zero_some s t x ex Ex) in *.
      rewrite Forall_forall in IHl. apply (IHl x Hx); auto.
      + apply (wf_value_list_in l x Hwf Hx).
      + apply (nice_item_child tr l T t x ex Hn Ek Hx Ex); [|exact Eh].
        apply (list_item_to_pe_wf s R tr _ t x ex Hok Htr Er eq_refl); [|exact Ex].
        apply (wf_value_list_in l x Hwf Hx).
    - (* map *)
      pose proof Hc as Hc'. rewrite conforms_eq in Hc'.
      destruct (resolve s tr) as [[sc li ma]|] eqn:Er; [|discriminate].
      destruct ma as [t|]; [|discriminate].
      assert (Hnull : conforms s tr true VNull = true)
        by (rewrite conforms_eq, Er; destruct sc, li; reflexivity).
      destruct m as [|kv0 m0]; [rewrite remove_items_eq, Er, handle_vmap; exact Hnull|].
      set (m := kv0 :: m0) in *.
      rewrite (remove_items_vmap' s false tr T sc li t m Er) by discriminate.
      destruct (rel_is_atomic (map_rel t)) eqn:Ena; [exact Hnull|].
      assert (Ek : kind_of s tr (VMap m) = KMap t m).
      { unfold kind_of. rewrite Er, Ena. reflexivity. }
      destruct (rm_map_go s false T t m) as [|o out] eqn:Eo; [exact Hnull|].
      rewrite <- Eo. rewrite conforms_eq, Er.
      apply cmap_each_rm; [|exact Hc'].
      intros k c Hin Eh Hck. unfold kept_value.
      destruct (negb (ps_empty (ps_with_prefix (PEField k) T))) eqn:Ene; [|exact Hck].
      rewrite Forall_forall in IHm. apply (IHm (k, c) Hin); auto.
      + apply (so_map s R Hok tr _ t k Htr Er eq_refl).
      + apply (wf_value_map_in m k c Hwf Hin).
      + apply (nice_map_child tr m T t k c Hn Ek); [|exact Eh].
        apply assoc_get_in_sorted; [|exact Hin]. apply andb_true_iff in Hwf. apply Hwf.
  Qed.

  (* ---------- a set of paths of the object is safe for its members ---------- *)

  Theorem sub_present_items_ok : forall v tr dup T, R tr -> wf_value v = true ->
    conforms s tr dup v = true -> ps_ok T = true -> sub_present s tr v T -> items_ok s tr v T.
  Proof.
    intros v. induction v as [|b|z|q0|str|l IHl|m IHm] using value_ind';
      intros tr dup T Htr Hwf Hc HT Hsp;
      try (apply io_leaf; unfold leafy, kind_of; destruct (resolve s tr) as [[sc li ma]|];
           [|exact I]; try destruct sc; exact I).
    - (* list *)
      destruct (kind_of s tr (VList l)) as [|t m|t l'|] eqn:Ek;
        try (apply io_leaf; unfold leafy; rewrite Ek; exact I).
      { destruct (kind_map_inv _ _ _ _ _ Ek) as (_ & _ & _ & Hv & _). discriminate. }
      destruct (kind_list_inv _ _ _ _ _ Ek) as (a0 & _ & _ & Hv & _). inversion Hv; subst l'. clear Hv.
      destruct (conf_list_facts tr dup t l Htr Hc Ek) as (sc & ma & Hr & Hte & Hna & Hlne & Hhp & Hcs & _).
      assert (Hiw : items_wf s t l) by (eapply items_wf_R; eauto).
      apply (io_list s tr _ T t l Ek). intros x ex Hx Hex Hno.
      assert (Hwex : wf_pe ex = true) by (apply (Hiw x ex Hx Hex)).
      assert (Hkv : is_keyval ex = true) by (eapply lipe_keyval; eauto).
      destruct (ps_with_prefix_spec ex T HT Hwex) as [HT' Hw].
      assert (Hxo : In x (occ s t ex l)).
      { apply In_occ; [exact Hx|]. unfold pe_matches. rewrite Hex. apply peeqb_refl. exact Hwex. }
      assert (Hone : ps_empty (ps_with_prefix ex T) = false -> occ s t ex l = [x]).
      { intros Ee. destruct (ps_nonempty_witness _ HT' Ee) as (q & Hq & Hhas).
        pose proof (has_nonnil _ _ Hhas) as Hqne. rewrite Hw in Hhas by auto.
        assert (Hpr : present s tr (VList l) (ex :: q) = true)
          by (apply Hsp; [apply wf_path_cons; auto|exact Hhas]).
        unfold present in Hpr.
        rewrite (resolve_path_list_occ s R Hok tr _ t l ex q Htr Hwf Ek Hwex), Hhp, Hkv in Hpr.
        cbn [andb] in Hpr.
        destruct (occ s t ex l) as [|x1 [|y more]]; [contradiction| |destruct q; [congruence|discriminate]].
        destruct Hxo as [->|[]]. reflexivity. }
      assert (Hspx : sub_present s (list_elem t) x (ps_with_prefix ex T)).
      { destruct (ps_empty (ps_with_prefix ex T)) eqn:Ee.
        - intros q _ Hhas. rewrite (ps_empty_has _ q Ee) in Hhas. discriminate.
        - apply (sub_present_item_child tr (VList l) T t l x ex); auto. }
      split.
      + intros Ee. right. destruct (ps_nonempty_witness _ HT' Ee) as (q & Hq & Hhas).
        apply (present_granular s (list_elem t) x q (has_nonnil _ _ Hhas)).
        apply Hspx; auto.
      + rewrite Forall_forall in IHl. apply (IHl x Hx (list_elem t) dup); auto.
        * apply (wf_value_list_in l x Hwf Hx).
        * rewrite forallb_forall in Hcs. exact (Hcs x Hx).
    - (* map *)
      destruct (kind_of s tr (VMap m)) as [|t m'|t l'|] eqn:Ek;
        try (apply io_leaf; unfold leafy; rewrite Ek; exact I).
      2:{ destruct (kind_list_inv _ _ _ _ _ Ek) as (_ & _ & _ & Hv & _). discriminate. }
      destruct (kind_map_inv _ _ _ _ _ Ek) as (a & Hr & Ham & Hv & Hna & Hmne).
      inversion Hv; subst m'. clear Hv.
      apply (io_map s tr _ T t m Ek). intros k c Eg Hno.
      pose proof (assoc_get_In m k c Eg) as Hin.
      destruct (ps_with_prefix_spec (PEField k) T HT eq_refl) as [HT' _].
      rewrite Forall_forall in IHm. apply (IHm (k, c) Hin (field_type t k) dup); auto.
      + eapply (so_map s R Hok); eauto.
      + apply (wf_value_map_in m k c Hwf Hin).
      + pose proof Hc as Hc'. rewrite conforms_eq, Hr in Hc'.
        destruct a as [sc li ma]. simpl in Ham. subst ma. eapply cmap_each_in; eauto.
      + eapply sub_present_map_child; eauto.
  Qed.

  Corollary sub_present_nice : forall v tr dup T, R tr -> wf_value v = true ->
    conforms s tr dup v = true -> ps_ok T = true -> keys_guarded T -> sub_present s tr v T ->
    nice s tr v T.
  Proof.
    intros v tr dup T Htr Hwf Hc HT Hkg Hsp. split; auto.
    eapply sub_present_items_ok; eauto.
  Qed.

  (* ---------- agreement is kept ---------- *)

  Lemma resolve_type_eq : forall p a b tr ta x tb y,
    resolve_path s tr a p = Some (RNode ta x) -> resolve_path s tr b p = Some (RNode tb y) ->
    ta = tb.
  Proof.
    induction p as [|e rest IH]; intros a b tr ta x tb y Ha Hb.
    - simpl in Ha, Hb. congruence.
    - destruct (kind_of s tr a) as [|t1 m1|t1 l1|] eqn:Eka;
        try (rewrite resolve_path_leaf in Ha by (rewrite Eka; exact I); discriminate);
        (destruct (kind_of s tr b) as [|t2 m2|t2 l2|] eqn:Ekb;
         try (rewrite resolve_path_leaf in Hb by (rewrite Ekb; exact I); discriminate)).
      + destruct (kind_map_inv _ _ _ _ _ Eka) as (a1 & Hr1 & Ham1 & _).
        destruct (kind_map_inv _ _ _ _ _ Ekb) as (a2 & Hr2 & Ham2 & _).
        assert (t1 = t2) by congruence. subst t2.
        destruct e as [k|fl|ev|i];
          try (rewrite (resolve_path_map_other _ _ _ _ _ _ _ Eka) in Ha by exact I; discriminate).
        rewrite (resolve_path_map _ _ _ _ _ _ _ Eka) in Ha.
        rewrite (resolve_path_map _ _ _ _ _ _ _ Ekb) in Hb.
        destruct (assoc_get k m1) as [c1|]; [|discriminate].
        destruct (assoc_get k m2) as [c2|]; [|discriminate].
        eapply IH; eauto.
      + destruct e as [k|fl|ev|i];
          try (rewrite (resolve_path_map_other _ _ _ _ _ _ _ Eka) in Ha by exact I; discriminate).
        rewrite (resolve_path_list_other _ _ _ _ _ _ _ Ekb) in Hb by reflexivity. discriminate.
      + destruct e as [k|fl|ev|i];
          try (rewrite (resolve_path_map_other _ _ _ _ _ _ _ Ekb) in Hb by exact I; discriminate).
        rewrite (resolve_path_list_other _ _ _ _ _ _ _ Eka) in Ha by reflexivity. discriminate.
      + destruct (kind_list_inv _ _ _ _ _ Eka) as (a1 & Hr1 & Hal1 & _).
        destruct (kind_list_inv _ _ _ _ _ Ekb) as (a2 & Hr2 & Hal2 & _).
        assert (t1 = t2) by congruence. subst t2.
        destruct (is_keyval e) eqn:Ekv;
          [|rewrite (resolve_path_list_other _ _ _ _ _ _ _ Eka Ekv) in Ha; discriminate].
        rewrite (resolve_path_list _ _ _ _ _ _ _ Eka Ekv) in Ha.
        rewrite (resolve_path_list _ _ _ _ _ _ _ Ekb Ekv) in Hb.
        destruct (group_items s t1 l1 []) as [g1|]; [|discriminate].
        destruct (group_items s t1 l2 []) as [g2|]; [|discriminate].
        destruct (lookup_group e g1) as [[|x1 [|y1 more1]]|]; try discriminate;
          [|destruct rest; discriminate].
        destruct (lookup_group e g2) as [[|x2 [|y2 more2]]|]; try discriminate;
          [|destruct rest; discriminate].
        eapply IH; eauto.
  Qed.

  Lemma leafy_veqb : forall tr x y, veqb x y = true -> leafy s tr x -> leafy s tr y.
  Proof.
    intros tr x y Hv Hl. unfold leafy, kind_of in *.
    destruct (resolve s tr) as [[sc li ma]|]; [|exact I].
    destruct y as [| | | | |l2|m2]; try (destruct sc; exact I); try exact I.
    - destruct x as [| | | | |l1|m1]; try (simpl in Hv; discriminate).
      destruct li as [t|]; [|exact I].
      destruct (rel_is_atomic (list_rel t)); [exact I|].
      rewrite veqb_list in Hv. destruct l1; [destruct l2; [exact I|discriminate]|contradiction].
    - destruct x as [| | | | |l1|m1]; try (simpl in Hv; discriminate).
      destruct ma as [t|]; [|exact I].
      destruct (rel_is_atomic (map_rel t)); [exact I|].
      rewrite veqb_map in Hv. apply andb_true_iff in Hv. destruct Hv as [Hlen _].
      destruct m1; [destruct m2; [exact I|discriminate]|contradiction].
  Qed.

  Lemma rnode_eqb_leaf : forall p a b tr c o,
    resolve_path s tr a p = Some c -> resolve_path s tr b p = Some o ->
    rnode_eqb c o = true -> rnode_is_leaf s c = true -> rnode_is_leaf s o = true.
  Proof.
    intros p a b tr c o Ha Hb Heq Hleaf.
    destruct c as [tc x|tc xs], o as [to y|to ys]; try discriminate; [|reflexivity].
    pose proof (resolve_type_eq p a b tr tc x to y Ha Hb) as ->.
    simpl in *. pose proof (leafy_veqb to x y Heq) as H. unfold leafy in H.
    destruct (kind_of s to x); try discriminate; specialize (H I);
      destruct (kind_of s to y); try contradiction; reflexivity.
  Qed.

  Theorem remove_frame : forall tr dup cfg v T, R tr -> wf_value v = true ->
    conforms s tr dup v = true -> nice s tr v T -> sub_present s tr v T ->
    AgrP s tr cfg v -> rnode_is_leaf s (RNode tr cfg) = false ->
    (forall p c, wf_path p = true -> p <> [] -> resolve_path s tr cfg p = Some c ->
       touches p T = false) ->
    AgrP s tr cfg (remove_items s false tr T v).
  Proof.
    intros tr dup cfg v T Htr Hwf Hc Hn Hsp Hagr Hroot Havoid p c Hp Hres.
    destruct p as [|e rest].
    - simpl in Hres. inversion Hres; subst c. eexists. split; [reflexivity|].
      intros Hleaf. rewrite Hroot in Hleaf. discriminate.
    - destruct (Hagr (e :: rest) c Hp Hres) as (o & Ho & Heq).
      assert (Hne : e :: rest <> []) by discriminate.
      destruct (remove_keeps (e :: rest) v tr dup T o Htr Hwf Hc Hn Hp Hne Ho
                  (Havoid (e :: rest) c Hp Hne Hres)) as (n' & Hn' & Hsame).
      exists n'. split; [exact Hn'|]. intros Hleaf.
      rewrite (Hsame (or_introl Hsp) (rnode_eqb_leaf _ _ _ _ _ _ Hres Ho (Heq Hleaf) Hleaf)).
      apply Heq. exact Hleaf.
  Qed.
End Frame.
