(* Leaf calculus for the commutation of applies (Proofs/Commute.v).
   An object that conforms is determined, up to the order of the members of sets and keyed
   lists, by its leaves.  [mstep l r o]: the object o is "l with r merged into it", stated on
   leaves only (the right-hand side wins, every leaf comes from an operand, what r leaves open
   is kept), a notion stable under value equality [veqb].  Two such steps with configurations
   none of whose leaves is at, above or beneath a leaf of the other commute on leaves. *)
From Coq Require Import List ZArith String Bool Arith Lia.
From SMD Require Import Model.Value Model.Order Model.PathElem Model.PathSet Model.Schema Model.Walk
  Model.Validate Model.FieldSet Model.Remove Model.Merge
  Spec.PathsAsSets Spec.RefValid Spec.Resolve Spec.Agree
  Proofs.OrderLaws Proofs.SchemaOk Proofs.FieldSetBase Proofs.FieldSetPaths Proofs.ResolveLaws
  Proofs.RemoveFrame Proofs.TreeFacts Proofs.NodeSet Proofs.KeyFields Proofs.VeqbResolve Proofs.MergeRestBase
  Proofs.RefDiffBoth Proofs.MergeLaws Proofs.MergeAgree Proofs.MergeThru Proofs.RemoveAbsent Proofs.SameLeaves.
From SMD Require Proofs.Partition Proofs.RefDiffVeqb Proofs.ReconcileBase Proofs.Reapply.
Import ListNotations.
Open Scope bool_scope.
Open Scope list_scope.

Definition nwf (n : rnode) : Prop :=
  match n with RNode _ x => wf_value x = true | RDup _ xs => forall x, In x xs -> wf_value x = true end.

Section Leaves.
  Variables (s : schema) (R : typeref -> Prop).
  Hypothesis Hok : schema_ok s R.
  Hypothesis Hfam : family_refs s R.
  Hypothesis Hpure : lists_pure s R.

  Notation rs := (resolve_path s).

  Definition good (tr : typeref) (v : value) : Prop :=
    wf_value v = true /\ conforms s tr true v = true.

  Definition nodup (tr : typeref) (v : value) : Prop :=
    forall p t xs, wf_path p = true -> rs tr v p <> Some (RDup t xs).

  Lemma good_nwf : forall tr v p n, R tr -> good tr v -> wf_path p = true -> rs tr v p = Some n -> nwf n.
  Proof.
    intros tr v p n Htr [Hw _] Hp Hr. exact (resolve_node_wf s R Hok p v tr n Htr Hw Hp Hr).
  Qed.

  (* leafness passes along equality of nodes at the same path *)
  Lemma leaf_transfer : forall tr a b p n n', R tr -> good tr a -> good tr b -> wf_path p = true ->
    rs tr a p = Some n -> rs tr b p = Some n' -> rnode_eqb n n' = true ->
    rnode_is_leaf s n = true -> rnode_is_leaf s n' = true.
  Proof.
    intros tr a b p n n' Htr [Wa Ca] [Wb Cb] Hp Ha Hb He Hl.
    destruct n as [t x|t xs]; destruct n' as [t' y|t' ys]; cbn [rnode_eqb] in He; try discriminate; [|reflexivity].
    pose proof (node_type_det s R Hok Hfam p true true tr a b t x t' y Htr Wa Wb Ca Cb Hp Ha Hb) as Et. subst t'.
    destruct (node_sub s R Hok Hfam p true tr a t x Htr Wa Ca Hp Ha) as (_ & _ & _ & Cx & _).
    cbn [rnode_is_leaf] in *.
    pose proof (conforms_kind_not_bad s t true x Cx) as Nx.
    destruct (kind_of s t x) eqn:Kx; try discriminate; [|contradiction Nx; reflexivity].
    rewrite (RefDiffVeqb.kind_leaf_veqb s t x y He Kx). reflexivity.
  Qed.

  (* ---------- has_leaf ---------- *)
  Lemma hl_intro : forall tr v p n, R tr -> good tr v -> wf_path p = true ->
    rs tr v p = Some n -> rnode_is_leaf s n = true -> has_leaf s tr v p n = true.
  Proof.
    intros tr v p n Htr [Wv Cv] Hp Hr Hl. unfold has_leaf. rewrite Hr, Hl.
    rewrite (resolve_path_eqb_refl s R Hok p v tr n Htr Wv Hp Hr). reflexivity.
  Qed.

  Lemma hl_inv : forall tr v p n, has_leaf s tr v p n = true ->
    exists m, rs tr v p = Some m /\ rnode_is_leaf s m = true /\ rnode_eqb m n = true.
  Proof.
    intros tr v p n H. unfold has_leaf in H. destruct (rs tr v p) as [m|]; [|discriminate].
    apply andb_true_iff in H. destruct H as [H1 H2]. exists m. auto.
  Qed.

  Lemma hl_eqb : forall tr v p n n', R tr -> good tr v -> wf_path p = true -> nwf n -> nwf n' ->
    has_leaf s tr v p n = true -> rnode_eqb n n' = true -> has_leaf s tr v p n' = true.
  Proof.
    intros tr v p n n' Htr Gv Hp Wn Wn' H He.
    destruct (hl_inv tr v p n H) as (m & Hm & Lm & Em).
    unfold has_leaf. rewrite Hm, Lm. cbn [andb].
    apply (rnode_eqb_trans m n n'); auto. apply (good_nwf tr v p m Htr Gv Hp Hm).
  Qed.

  (* a leaf has nothing beneath it *)
  Lemma leaf_stop : forall tr v p q n m, rs tr v p = Some n -> rnode_is_leaf s n = true ->
    rs tr v (p ++ q) = Some m -> q = [].
  Proof.
    intros tr v p q n m Hn Hl Hm. rewrite resolve_path_app, Hn in Hm.
    destruct q as [|e q]; [reflexivity|]. exfalso.
    destruct n as [t x|t xs]; [|discriminate].
    cbn [rnode_is_leaf] in Hl. rewrite resolve_path_leaf in Hm; [discriminate|].
    destruct (kind_of s t x); try discriminate; exact I.
  Qed.

  Lemma firstn_skipn_path : forall j (p : path), p = firstn j p ++ skipn j p.
  Proof. intros j p. symmetry. apply firstn_skipn. Qed.

  Lemma skipn_nonnil : forall j (p : path), j < List.length p -> skipn j p <> [].
  Proof.
    induction j as [|j IH]; intros [|e p] H; simpl in *; try lia; [discriminate|]. apply IH. lia.
  Qed.

  (* ---------- leaf inclusion ---------- *)
  Definition lin (tr : typeref) (a b : value) : Prop := leaves_in s tr a b.

  Lemma lin_veqb : forall tr a b, R tr -> good tr a -> good tr b -> veqb a b = true -> lin tr a b.
  Proof.
    intros tr a b Htr Ga Gb Hv p n Hp Hr Hl.
    destruct Ga as [Wa Ca]. destruct Gb as [Wb Cb].
    destruct (veqb_resolve s R Hok Hfam p a b tr n Htr Wa Wb Ca Cb Hv Hp Hr) as (n' & Hr' & He).
    pose proof (leaf_transfer tr a b p n n' Htr (conj Wa Ca) (conj Wb Cb) Hp Hr Hr' He Hl) as Hl'.
    unfold has_leaf. rewrite Hr', Hl'. cbn [andb].
    apply Partition.rnode_eqb_sym; [| |exact He].
    - apply (good_nwf tr a p n Htr (conj Wa Ca) Hp Hr).
    - apply (good_nwf tr b p n' Htr (conj Wb Cb) Hp Hr').
  Qed.

  Lemma lin_hl : forall tr a b p n, R tr -> good tr a -> good tr b -> wf_path p = true -> nwf n ->
    lin tr a b -> has_leaf s tr a p n = true -> has_leaf s tr b p n = true.
  Proof.
    intros tr a b p n Htr Ga Gb Hp Wn Hab H.
    destruct (hl_inv tr a p n H) as (m & Hm & Lm & Em).
    pose proof (Hab p m Hp Hm Lm) as Hb.
    apply (hl_eqb tr b p m n Htr Gb Hp (good_nwf tr a p m Htr Ga Hp Hm) Wn Hb Em).
  Qed.

  (* ---------- one merging step, on leaves ---------- *)
  Definition open_along (tr : typeref) (r : value) (p : path) : Prop :=
    (forall j, j < List.length p -> interior_or_absent s tr r (firstn j p)) /\ rs tr r p = None.

  Record mstep (tr : typeref) (l r o : value) : Prop := mkMstep {
    ms_good : good tr o;
    ms_rw : forall p n, wf_path p = true -> rs tr r p = Some n -> rnode_is_leaf s n = true ->
              has_leaf s tr o p n = true;
    ms_fo : forall p n, wf_path p = true -> rs tr o p = Some n -> rnode_is_leaf s n = true ->
              has_leaf s tr r p n = true \/ has_leaf s tr l p n = true;
    ms_kp : forall p n, wf_path p = true -> open_along tr r p -> rs tr l p = Some n ->
              rnode_is_leaf s n = true -> has_leaf s tr o p n = true }.

  (* a configuration *)
  Definition cfg_ok (tr : typeref) (r : value) : Prop :=
    wf_value r = true /\ conforms s tr false r = true /\ plain r = true.

  Lemma cfg_good : forall tr r, cfg_ok tr r -> good tr r.
  Proof. intros tr r (W & C & _). split; [exact W|apply MergeBase.conforms_dup_mono; exact C]. Qed.

  Lemma mstep_merge : forall tr l r M, R tr -> good tr l -> cfg_ok tr r ->
    merge s tr l r = Some (Some M) -> mstep tr l r M.
  Proof.
    intros tr l r M Htr [Wl Cl] (Wr & Cr & Pr) Em.
    destruct (Reapply.merge_facts s R Hok Hfam tr l r M Htr Wl Wr Cl Cr Pr Em) as (WM & CM & Hagr & Hlf).
    assert (GM : good tr M) by (split; assumption).
    assert (Gr : good tr r) by (apply cfg_good; repeat split; assumption).
    constructor.
    - exact GM.
    - intros p n Hp Hr Hl. destruct (Hagr p n Hp Hr) as (o & Ho & He). specialize (He Hl).
      pose proof (leaf_transfer tr r M p n o Htr Gr GM Hp Hr Ho He Hl) as Lo.
      unfold has_leaf. rewrite Ho, Lo. cbn [andb].
      apply Partition.rnode_eqb_sym; [| |exact He].
      + apply (good_nwf tr r p n Htr Gr Hp Hr).
      + apply (good_nwf tr M p o Htr GM Hp Ho).
    - intros p n Hp Hr Hl. exact (Hlf p n Hp Hr Hl).
    - intros p n Hp [Hopen Hnone] Hr Hl.
      pose proof (merge_keeps_thru s R Hok Hfam Hpure tr l r M p n Htr Wl Wr Cl Cr Pr Em Hp Hopen Hnone Hr) as HM.
      apply (hl_intro tr M p n Htr GM Hp HM Hl).
  Qed.

  (* the notion is stable under leaf equivalence of the result *)
  Lemma mstep_lin : forall tr l r M o, R tr -> good tr l -> cfg_ok tr r -> good tr o ->
    lin tr M o -> lin tr o M -> mstep tr l r M -> mstep tr l r o.
  Proof.
    intros tr l r M o Htr Gl Cr Go HMo HoM HM.
    pose proof (ms_good tr l r M HM) as GM. pose proof (cfg_good tr r Cr) as Gr.
    constructor.
    - exact Go.
    - intros p n Hp Hr Hl.
      apply (lin_hl tr M o p n Htr GM Go Hp (good_nwf tr r p n Htr Gr Hp Hr) HMo).
      apply (ms_rw tr l r M HM p n Hp Hr Hl).
    - intros p n Hp Hr Hl.
      pose proof (HoM p n Hp Hr Hl) as H1.
      destruct (hl_inv tr M p n H1) as (m & Hm & Lm & Em).
      pose proof (good_nwf tr M p m Htr GM Hp Hm) as Wm.
      pose proof (good_nwf tr o p n Htr Go Hp Hr) as Wn.
      destruct (ms_fo tr l r M HM p m Hp Hm Lm) as [H|H]; [left|right].
      + apply (hl_eqb tr r p m n Htr Gr Hp Wm Wn H Em).
      + apply (hl_eqb tr l p m n Htr Gl Hp Wm Wn H Em).
    - intros p n Hp Hopen Hr Hl.
      apply (lin_hl tr M o p n Htr GM Go Hp (good_nwf tr l p n Htr Gl Hp Hr) HMo).
      apply (ms_kp tr l r M HM p n Hp Hopen Hr Hl).
  Qed.

  Lemma mstep_veqb : forall tr l r M o, R tr -> good tr l -> cfg_ok tr r -> good tr o ->
    veqb o M = true -> mstep tr l r M -> mstep tr l r o.
  Proof.
    intros tr l r M o Htr Gl Cr Go Hv HM.
    pose proof (ms_good tr l r M HM) as GM.
    apply (mstep_lin tr l r M o Htr Gl Cr Go); [| |exact HM].
    - apply lin_veqb; auto. rewrite veqb_sym; [exact Hv|apply GM|apply Go].
    - apply lin_veqb; auto.
  Qed.

  (* ---------- a leaf of the result: it is the configuration's, or the configuration is open there ---------- *)
  Lemma cfg_nodup : forall tr r, R tr -> cfg_ok tr r -> nodup tr r.
  Proof. intros tr r Htr (W & C & _) p t xs Hp. apply (no_rdup s R Hok Hfam p tr r t xs Htr W C Hp). Qed.

  Lemma node_leaf_beneath : forall tr v p n, R tr -> good tr v -> wf_path p = true -> rs tr v p = Some n ->
    exists q m, wf_path q = true /\ rs tr v (p ++ q) = Some m /\ rnode_is_leaf s m = true.
  Proof.
    intros tr v p n Htr [Wv Cv] Hp Hr. destruct n as [t x|t xs].
    - destruct (node_sub s R Hok Hfam p true tr v t x Htr Wv Cv Hp Hr) as (_ & Rt & Wx & Cx & _).
      destruct (leaf_beneath s R Hok Hfam (S (vdepth x)) t true x (Nat.lt_succ_diag_r _) Rt Wx Cx) as (q & m & Hq & Hm & Lm).
      exists q, m. split; [exact Hq|]. split; [|exact Lm]. rewrite resolve_path_app, Hr. exact Hm.
    - exists [], (RDup t xs). split; [reflexivity|]. rewrite app_nil_r. split; [exact Hr|reflexivity].
  Qed.

  Lemma dich : forall tr l r o p k, R tr -> cfg_ok tr r -> mstep tr l r o -> wf_path p = true ->
    rs tr o p = Some k -> rnode_is_leaf s k = true ->
    has_leaf s tr r p k = true \/ open_along tr r p.
  Proof.
    intros tr l r o p k Htr Cr HM Hp Hk Lk.
    pose proof (cfg_good tr r Cr) as Gr. pose proof (ms_good tr l r o HM) as Go.
    destruct (rs tr r p) as [c|] eqn:Ec.
    - left.
      destruct (node_leaf_beneath tr r p c Htr Gr Hp Ec) as (q & m & Hq & Hm & Lm).
      assert (Hpq : wf_path (p ++ q) = true) by (apply ReconcileBase.wf_path_app; split; assumption).
      pose proof (ms_rw tr l r o HM (p ++ q) m Hpq Hm Lm) as H1.
      destruct (hl_inv tr o (p ++ q) m H1) as (m' & Hm' & _ & _).
      pose proof (leaf_stop tr o p q k m' Hk Lk Hm') as Eq. subst q. rewrite app_nil_r in *.
      rewrite Ec in Hm. inversion Hm; subst m.
      destruct (hl_inv tr o p c H1) as (k' & Hk' & _ & Ek'). rewrite Hk in Hk'. inversion Hk'; subst k'.
      unfold has_leaf. rewrite Ec, Lm. cbn [andb].
      apply Partition.rnode_eqb_sym; [| |exact Ek'].
      + apply (good_nwf tr o p k Htr Go Hp Hk).
      + apply (good_nwf tr r p c Htr Gr Hp Ec).
    - right. split; [|exact Ec].
      intros j Hj. unfold interior_or_absent.
      destruct (rs tr r (firstn j p)) as [[t y|t ys]|] eqn:Ej; [| |exact I].
      + destruct (leafy_or_granular s t y) as [Ly|Gy]; [|exact Gy]. exfalso.
        assert (Hpj : wf_path (firstn j p) = true) by (apply ReconcileBase.wf_path_firstn; exact Hp).
        assert (Ll : rnode_is_leaf s (RNode t y) = true).
        { cbn [rnode_is_leaf]. unfold leafy in Ly. destruct (kind_of s t y); try contradiction; reflexivity. }
        pose proof (ms_rw tr l r o HM (firstn j p) _ Hpj Ej Ll) as H1.
        destruct (hl_inv tr o (firstn j p) _ H1) as (m' & Hm' & Lm' & _).
        rewrite (firstn_skipn_path j p) in Hk.
        pose proof (leaf_stop tr o (firstn j p) (skipn j p) m' k Hm' Lm' Hk) as E.
        exact (skipn_nonnil j p Hj E).
      + exfalso. apply (cfg_nodup tr r Htr Cr (firstn j p) t ys); [|exact Ej].
        apply ReconcileBase.wf_path_firstn; exact Hp.
  Qed.

  (* ---------- configurations that do not meet ---------- *)
  (* no leaf of r is at or above p, nor beneath p *)
  Definition uncovered (tr : typeref) (r : value) (p : path) : Prop :=
    (forall j n, j <= List.length p -> rs tr r (firstn j p) = Some n -> rnode_is_leaf s n = true -> False) /\
    (forall q n, wf_path q = true -> rs tr r (p ++ q) = Some n -> rnode_is_leaf s n = true -> False).

  Lemma open_of_uncovered : forall tr r p, R tr -> cfg_ok tr r -> wf_path p = true ->
    uncovered tr r p -> open_along tr r p.
  Proof.
    intros tr r p Htr Cr Hp [U1 U2]. pose proof (cfg_good tr r Cr) as Gr. split.
    - intros j Hj. unfold interior_or_absent.
      destruct (rs tr r (firstn j p)) as [[t y|t ys]|] eqn:Ej; [| |exact I].
      + destruct (leafy_or_granular s t y) as [Ly|Gy]; [|exact Gy]. exfalso.
        apply (U1 j (RNode t y)); [lia|exact Ej|].
        cbn [rnode_is_leaf]. unfold leafy in Ly. destruct (kind_of s t y); try contradiction; reflexivity.
      + exfalso. apply (cfg_nodup tr r Htr Cr (firstn j p) t ys); [|exact Ej].
        apply ReconcileBase.wf_path_firstn; exact Hp.
    - destruct (rs tr r p) as [c|] eqn:Ec; [|reflexivity]. exfalso.
      destruct (node_leaf_beneath tr r p c Htr Gr Hp Ec) as (q & m & Hq & Hm & Lm).
      exact (U2 q m Hq Hm Lm).
  Qed.

  (* every leaf of rB is uncovered by rA *)
  Definition sep (tr : typeref) (rA rB : value) : Prop :=
    forall q m, wf_path q = true -> rs tr rB q = Some m -> rnode_is_leaf s m = true -> uncovered tr rA q.

  (* ---------- the two orders have the same leaves ---------- *)
  Lemma commute_lin : forall tr l rA rB oA oAB oB oBA, R tr -> good tr l ->
    cfg_ok tr rA -> cfg_ok tr rB -> sep tr rA rB ->
    mstep tr l rA oA -> mstep tr oA rB oAB -> mstep tr l rB oB -> mstep tr oB rA oBA ->
    lin tr oAB oBA.
  Proof.
    intros tr l rA rB oA oAB oB oBA Htr Gl CA CB Hsep HA HAB HB HBA p n Hp Hn Ln.
    pose proof (cfg_good tr rA CA) as GrA. pose proof (cfg_good tr rB CB) as GrB.
    pose proof (ms_good _ _ _ _ HA) as GA. pose proof (ms_good _ _ _ _ HAB) as GAB.
    pose proof (ms_good _ _ _ _ HB) as GB. pose proof (ms_good _ _ _ _ HBA) as GBA.
    pose proof (good_nwf tr oAB p n Htr GAB Hp Hn) as Wn.
    assert (C1 : forall k, nwf k -> has_leaf s tr rB p k = true -> has_leaf s tr oBA p k = true).
    { intros k Wk H. destruct (hl_inv tr rB p k H) as (m & Hm & Lm & Em).
      pose proof (good_nwf tr rB p m Htr GrB Hp Hm) as Wm.
      pose proof (ms_rw _ _ _ _ HB p m Hp Hm Lm) as H1.
      destruct (hl_inv tr oB p m H1) as (m1 & Hm1 & Lm1 & Em1).
      pose proof (good_nwf tr oB p m1 Htr GB Hp Hm1) as Wm1.
      pose proof (open_of_uncovered tr rA p Htr CA Hp (Hsep p m Hp Hm Lm)) as Hopen.
      pose proof (ms_kp _ _ _ _ HBA p m1 Hp Hopen Hm1 Lm1) as H2.
      apply (hl_eqb tr oBA p m k Htr GBA Hp Wm Wk); [|exact Em].
      apply (hl_eqb tr oBA p m1 m Htr GBA Hp Wm1 Wm H2 Em1). }
    assert (C2 : forall k, nwf k -> has_leaf s tr rA p k = true -> has_leaf s tr oBA p k = true).
    { intros k Wk H. destruct (hl_inv tr rA p k H) as (m & Hm & Lm & Em).
      pose proof (good_nwf tr rA p m Htr GrA Hp Hm) as Wm.
      pose proof (ms_rw _ _ _ _ HBA p m Hp Hm Lm) as H1.
      apply (hl_eqb tr oBA p m k Htr GBA Hp Wm Wk H1 Em). }
    destruct (ms_fo _ _ _ _ HAB p n Hp Hn Ln) as [H|H]; [apply C1; assumption|].
    destruct (hl_inv tr oA p n H) as (m & Hm & Lm & Em).
    pose proof (good_nwf tr oA p m Htr GA Hp Hm) as Wm.
    destruct (ms_fo _ _ _ _ HA p m Hp Hm Lm) as [H2|H2].
    { apply (hl_eqb tr oBA p m n Htr GBA Hp Wm Wn); [|exact Em]. apply C2; assumption. }
    destruct (hl_inv tr l p m H2) as (m' & Hm' & Lm' & Em').
    pose proof (good_nwf tr l p m' Htr Gl Hp Hm') as Wm'.
    destruct (dich tr oA rB oAB p n Htr CB HAB Hp Hn Ln) as [D1|OB]; [apply C1; assumption|].
    destruct (dich tr l rA oA p m Htr CA HA Hp Hm Lm) as [D2|OA].
    { apply (hl_eqb tr oBA p m n Htr GBA Hp Wm Wn); [|exact Em]. apply C2; assumption. }
    pose proof (ms_kp _ _ _ _ HB p m' Hp OB Hm' Lm') as H3.
    destruct (hl_inv tr oB p m' H3) as (m1 & Hm1 & Lm1 & Em1).
    pose proof (good_nwf tr oB p m1 Htr GB Hp Hm1) as Wm1.
    pose proof (ms_kp _ _ _ _ HBA p m1 Hp OA Hm1 Lm1) as H4.
    apply (hl_eqb tr oBA p m n Htr GBA Hp Wm Wn); [|exact Em].
    apply (hl_eqb tr oBA p m' m Htr GBA Hp Wm' Wm); [|exact Em'].
    apply (hl_eqb tr oBA p m1 m' Htr GBA Hp Wm1 Wm' H4 Em1).
  Qed.

  (* ---------- no group of duplicates in the result ---------- *)
  Lemma mstep_nodup : forall tr l r o, R tr -> nodup tr l -> cfg_ok tr r -> mstep tr l r o -> nodup tr o.
  Proof.
    intros tr l r o Htr Nl Cr HM p t xs Hp Hr.
    destruct (ms_fo _ _ _ _ HM p (RDup t xs) Hp Hr eq_refl) as [H|H];
      destruct (hl_inv _ _ _ _ H) as (m & Hm & _ & Em);
      destruct m as [t' x|t' ys]; cbn [rnode_eqb] in Em; try discriminate.
    - exact (cfg_nodup tr r Htr Cr p t' ys Hp Hm).
    - exact (Nl p t' ys Hp Hm).
  Qed.

  (* ---------- same leaves, no duplicates: equal up to member order ---------- *)
  (* Proofs/SameLeaves.v asks one of the objects to conform without duplicates ANYWHERE, atomic
     values included; here: no path designates a group of duplicates *)
  Lemma nodup_single : forall tr v t l x, R tr -> good tr v -> nodup tr v ->
    kind_of s tr v = KList t l -> In x l -> occ s t (pe_of s t x) l = [x].
  Proof.
    intros tr v t l x Htr [Wv Cv] Nv Ek Hin.
    destruct (list_ok s R Hok Hfam tr true t v l Htr Wv Cv Ek) as (_ & _ & Hhp & Hiw & _ & _).
    destruct (pe_of_facts s t l x Hhp Hiw Hin) as (_ & We & Hkv & _ & Ho).
    destruct (occ s t (pe_of s t x) l) as [|y1 [|y2 more]] eqn:Eo.
    - destruct Ho.
    - destruct Ho as [Ho|[]]. subst y1. reflexivity.
    - exfalso.
      assert (Hr : rs tr v [pe_of s t x] = Some (RDup (list_elem t) (y1 :: y2 :: more))).
      { rewrite (resolve_path_list_occ s R Hok tr v t l (pe_of s t x) [] Htr Wv Ek We), Hhp, Hkv, Eo. reflexivity. }
      assert (Hp : wf_path [pe_of s t x] = true) by (apply wf_path_cons; split; [exact We|reflexivity]).
      apply (Nv [pe_of s t x] _ _ Hp Hr).
  Qed.

  Lemma nodup_transfer : forall tr t a b la lb, R tr -> good tr a -> nodup tr a -> good tr b ->
    kind_of s tr a = KList t la -> kind_of s tr b = KList t lb -> lin tr b a ->
    forall y, In y lb -> occ s t (pe_of s t y) lb = [y].
  Proof.
    intros tr t a b la lb Htr [Wa Ca] Na [Wb Cb] Eka Ekb H y Hin.
    destruct (list_ok s R Hok Hfam tr true t b lb Htr Wb Cb Ekb) as (_ & _ & Hhpb & Hiwb & _ & _).
    destruct (pe_of_facts s t lb y Hhpb Hiwb Hin) as (_ & We & Hkv & _ & Ho).
    destruct (occ s t (pe_of s t y) lb) as [|y1 [|y2 more]] eqn:Eo.
    - destruct Ho.
    - destruct Ho as [Ho|[]]. subst y1. reflexivity.
    - exfalso.
      assert (Hr : rs tr b [pe_of s t y] = Some (RDup (list_elem t) (y1 :: y2 :: more))).
      { rewrite (resolve_path_list_occ s R Hok tr b t lb (pe_of s t y) [] Htr Wb Ekb We), Hhpb, Hkv, Eo. reflexivity. }
      assert (Hp : wf_path [pe_of s t y] = true) by (apply wf_path_cons; split; [exact We|reflexivity]).
      specialize (H [pe_of s t y] _ Hp Hr eq_refl). unfold has_leaf in H.
      destruct (rs tr a [pe_of s t y]) as [[tr' z|tr' zs]|] eqn:Er; [| |discriminate].
      + cbn [rnode_eqb] in H. rewrite andb_false_r in H. discriminate.
      + exact (Na [pe_of s t y] tr' zs Hp Er).
  Qed.

  Lemma same_leaves_nodup : forall f v tr o, vdepth v < f -> R tr ->
    good tr v -> nodup tr v -> good tr o -> lin tr v o -> lin tr o v ->
    veqb (canon s tr o) (canon s tr v) = true.
  Proof.
    induction f as [|f IH]; intros v tr o Hd Htr Gv Nv Go H1 H2; [lia|].
    pose proof Gv as [Wv Cv]. pose proof Go as [Wo Co].
    pose proof (kinds_agree s R Hok Hfam tr true true v o Htr Wv Cv Wo Co H1 H2) as Hk.
    destruct (kind_of s tr v) as [|t m|t l|] eqn:Ekv.
    - (* leaf *)
      assert (Lv : leafy s tr v) by (unfold leafy; rewrite Ekv; exact I).
      destruct (root_leaf s tr v o H1 Lv) as [Lo He].
      rewrite (canon_leafy s tr v Lv), (canon_leafy s tr o Lo). exact He.
    - (* map *)
      destruct (kind_of s tr o) as [|t' m'|t' l'|] eqn:Eko; try contradiction.
      destruct (kind_map_inv _ _ _ _ _ Ekv) as (av & Hrv & Hamv & Hvv & _ & _).
      destruct (kind_map_inv _ _ _ _ _ Eko) as (ao & Hro & Hamo & Hvo & _ & _).
      assert (t' = t) by congruence. subst t'.
      rewrite (canon_map s tr v t m Ekv), (canon_map s tr o t m' Eko).
      assert (Sm : sorted_keys m = true).
      { subst v. cbn [wf_value] in Wv. apply andb_true_iff in Wv. tauto. }
      assert (Sm' : sorted_keys m' = true).
      { subst o. cbn [wf_value] in Wo. apply andb_true_iff in Wo. tauto. }
      apply (veqb_cmap (fun k c => canon s (field_type t k) c) (fun k c => canon s (field_type t k) c));
        try assumption.
      + intros k c Hin. eapply (map_key_transfer s R Hok Hfam tr true t v o m m'); eauto.
      + intros k c Hin. eapply (map_key_transfer s R Hok Hfam tr true t o v m' m); eauto.
      + intros k c c' Gc Gc'.
        destruct (map_child_ok s R Hok tr true t v m k c Htr Wv Cv Ekv (assoc_get_In _ _ _ Gc)) as (Rc & Wc & Cc & _ & Dc).
        destruct (map_child_ok s R Hok tr true t o m' k c' Htr Wo Co Eko (assoc_get_In _ _ _ Gc')) as (_ & Wc' & Cc' & _ & _).
        apply IH; try assumption; [lia|split; assumption| |split; assumption| |].
        * intros p t0 xs Hp Hr.
          apply (Nv (PEField k :: p) t0 xs); [apply wf_path_cons; split; [reflexivity|exact Hp]|].
          rewrite (resolve_path_map _ _ _ _ _ k p Ekv), Gc. exact Hr.
        * eapply (map_child_leaves s tr t v o); eauto.
        * eapply (map_child_leaves s tr t o v); eauto.
    - (* list *)
      destruct (kind_of s tr o) as [|t' m'|t' l'|] eqn:Eko; try contradiction.
      destruct (kind_list_inv _ _ _ _ _ Ekv) as (av & Hrv & Halv & _ & _ & _).
      destruct (kind_list_inv _ _ _ _ _ Eko) as (ao & Hro & Halo & _ & _ & _).
      assert (t' = t) by congruence. subst t'.
      destruct (list_ok s R Hok Hfam tr true t v l Htr Wv Cv Ekv) as (_ & Rte & Hhp & Hiw & Hm & _).
      destruct (list_ok s R Hok Hfam tr true t o l' Htr Wo Co Eko) as (_ & _ & Hhp' & Hiw' & Hm' & _).
      assert (S1 : forall x, In x l -> occ s t (pe_of s t x) l = [x]).
      { intros x Hin. apply (nodup_single tr v t l x Htr Gv Nv Ekv Hin). }
      assert (S2 : forall y, In y l' -> occ s t (pe_of s t y) l' = [y]).
      { apply (nodup_transfer tr t v o l l' Htr Gv Nv Go Ekv Eko H2). }
      rewrite (canon_list s tr v t l Ekv Hhp S1), (canon_list s tr o t l' Eko Hhp' S2).
      rewrite veqb_list. apply Forall2_all2b.
      apply (psort_match (fun a b => veqb a b = true)).
      + apply kdistinct_keyed; assumption.
      + apply kdistinct_keyed; assumption.
      + intros a Ha. apply in_map_iff in Ha. destruct Ha as (x' & <- & Hx'). cbn [fst snd].
        destruct (member_transfer s R Hok Hfam tr t true true o v l' l Htr Wo Co Wv Cv Eko Ekv H2 S1 x' Hx' (S2 x' Hx'))
          as (x & Hx & Hpe & Hox).
        exists (pe_of s t x, canon s (list_elem t) x). cbn [fst snd].
        destruct (pe_of_facts s t l' x' Hhp' Hiw' Hx') as (_ & We' & Hkv' & _ & _).
        destruct (pe_of_facts s t l x Hhp Hiw Hx) as (_ & We & _ & _ & _).
        split; [apply in_map_iff; exists x; auto|].
        split; [apply (pecmp_eq_iff _ _ We' We); rewrite (peeqb_sym _ _ We' We); exact Hpe|].
        destruct (Hm x Hx) as (Wx & Cx & Dx). destruct (Hm' x' Hx') as (Wx' & Cx' & _).
        apply IH; try assumption; [lia|split; assumption| |split; assumption| |].
        * intros p t0 xs Hp Hr.
          apply (Nv (pe_of s t x' :: p) t0 xs); [apply wf_path_cons; split; assumption|].
          rewrite (resolve_list_single s R Hok tr v t l (pe_of s t x') x p Htr Wv Ekv Hhp We' Hkv' Hox). exact Hr.
        * eapply (list_child_leaves s R Hok tr t v o l l' (pe_of s t x')); eauto.
        * eapply (list_child_leaves s R Hok tr t o v l' l (pe_of s t x')); eauto.
      + intros b Hb. apply in_map_iff in Hb. destruct Hb as (x & <- & Hx). cbn [fst].
        destruct (member_transfer s R Hok Hfam tr t true true v o l l' Htr Wv Cv Wo Co Ekv Eko H1 S2 x Hx (S1 x Hx))
          as (x' & Hx' & Hpe & _).
        exists (pe_of s t x', canon s (list_elem t) x'). cbn [fst].
        destruct (pe_of_facts s t l' x' Hhp' Hiw' Hx') as (_ & We' & _ & _ & _).
        destruct (pe_of_facts s t l x Hhp Hiw Hx) as (_ & We & _ & _ & _).
        split; [apply in_map_iff; exists x'; auto|].
        apply (pecmp_eq_iff _ _ We' We). exact Hpe.
    - (* bad *)
      exfalso. exact (conforms_kind_not_bad s tr true v Cv Ekv).
  Qed.

  Theorem same_leaves_nodup_veq_assoc : forall tr v o, R tr ->
    good tr v -> nodup tr v -> good tr o -> lin tr v o -> lin tr o v ->
    veq_assoc s tr o v = true.
  Proof.
    intros tr v o Htr Gv Nv Go H1 H2. unfold veq_assoc.
    apply (same_leaves_nodup (S (vdepth v)) v tr o); auto.
  Qed.
End Leaves.
