(* C03 and C02 (removal half), general theorems, in the setting and with the side conditions
   of Proofs/ApplyEffect.v (apply_takes_effect): one API version, identity converter, no
   ignore configuration.

   C03  [apply_removes_abandoned]: a path of the applier's previous record that the new
        configuration no longer mentions and that no other manager owns is ABSENT from the
        result -- provided that, if the live object has it, the live object has beneath it a
        leaf that a field set can see (anything but an empty list).  Without the proviso the
        statement is FALSE [apply_removes_abandoned_needs_visible]: an empty list of a granular
        list type is a node of the object but contributes no path to ToFieldSet, so the
        add-back pass (merged set minus pruned set minus owned set) puts it back and the
        dangling-items stage never sees it.
        [apply_removes_abandoned_merged]: the same with the proviso stated on the merged object.
   C02  [apply_removes_only_own]: a node of the live object that is absent from the result
        and not at or beneath a node of the configuration lies at or beneath a member of
        en(last) -- provided the live object and the configuration are of the same kind at
        the root.  Without the proviso the statement is FALSE
        [apply_removes_only_own_needs_root_kind]: for a root type that is a list-or-map union
        a map configuration replaces a list live object (the root is not a "node").
        [apply_removes_only_own_merged]: the same starting from a node of the MERGED object,
        without proviso (and without the hypothesis on the configuration's nodes).

   The proofs describe the final object as  remove merged T2  with
   T2 = (nodes(merged) \ nodes(pruned1)) n en(last)  (Proofs/PruneShape.v). *)
From Coq Require Import List ZArith String Bool Arith Lia.
From SMD Require Import Model.Value Model.Order Model.PathElem Model.PathSet Model.Schema Model.Walk
  Model.Validate Model.FieldSet Model.Remove Model.Merge Model.Compare Model.Matcher Model.Reconcile
  Model.Updater
  Spec.PathsAsSets Spec.RefValid Spec.Resolve Spec.Agree Spec.Examples
  Proofs.OrderLaws Proofs.PathSetLaws Proofs.SchemaOk Proofs.FieldSetBase Proofs.FieldSetPaths
  Proofs.FieldSetWf Proofs.FieldSetLaws Proofs.RemoveAbsent Proofs.RemoveWf Proofs.ResolveLaws
  Proofs.UpdaterLaws Proofs.UpdaterLaws2 Proofs.MergeLaws Proofs.MergeAgree
  Proofs.RemoveFrame Proofs.EnLaws Proofs.NodeSet Proofs.KeyFields Proofs.VeqbResolve
  Proofs.SetCheckers Proofs.ApplyEffect
  Proofs.RemoveMono Proofs.TreeFacts Proofs.MergeKeeps Proofs.PruneShape Proofs.ApplyPruneBase.
Import ListNotations.
Open Scope bool_scope.
Open Scope list_scope.

Local Arguments ps_has : simpl never.
Local Arguments ps_with_prefix : simpl never.
Local Arguments ps_empty : simpl never.

(* the union of the records of the managers other than [mgr] (the definition of
   Proofs/ApplyPrune_statements.v; Proofs/ApplyPruneBase.v calls it [others_set]) *)
Definition others_union (mgr : string) (mf : managed) : pset :=
  fold_left ps_union
    (map (fun mr : string * mrec => mr_set (snd mr))
         (filter (fun mr : string * mrec => negb (String.eqb (fst mr) mgr)) mf))
    ps_empty_set.

Lemma others_union_same : forall mgr mf, others_union mgr mf = others_set mgr mf.
Proof. reflexivity. Qed.

(* presence is invariant under deep equality *)
Lemma veqb_present : forall s R, schema_ok s R -> family_refs s R ->
  forall tr a b q, R tr -> wf_value a = true -> wf_value b = true ->
  conforms s tr true a = true -> conforms s tr true b = true -> veqb a b = true ->
  wf_path q = true -> present s tr a q = present s tr b q.
Proof.
  intros s R Hok Hfam tr a b q Htr Hwa Hwb Hca Hcb Hv Hq. unfold present.
  destruct (resolve_path s tr a q) as [n|] eqn:Ea.
  - destruct (veqb_resolve s R Hok Hfam q a b tr n Htr Hwa Hwb Hca Hcb Hv Hq Ea) as (n' & -> & _).
    reflexivity.
  - destruct (resolve_path s tr b q) as [n|] eqn:Eb; [|reflexivity].
    rewrite (veqb_sym a b Hwa Hwb) in Hv.
    destruct (veqb_resolve s R Hok Hfam q b a tr n Htr Hwb Hwa Hcb Hca Hv Hq Eb) as (n' & Hn' & _).
    rewrite Hn' in Ea. discriminate.
Qed.

Section Run.
  Variables (c : config) (R : typeref -> Prop) (ver : string) (lx cx : value) (mf : managed)
            (mgr : string) (force : bool) (o : option tv) (mf' : managed).
  Let s := schema_of c ver.
  Let tr := tr_of c ver.
  Hypothesis Hni : no_ignore c.
  Hypothesis Hcid : conv_id c.
  Hypothesis Hok : schema_ok s R.
  Hypothesis Hfam : family_refs s R.
  Hypothesis Htr : R tr.
  Hypothesis Hkp : keys_plain s R.
  Hypothesis Hsv : single_version ver mf.
  Hypothesis Hmf : mf_ok mf.
  Hypothesis Hcur : records_current c ver mf.
  Hypothesis Hmine : forall r, mf_get mgr mf = Some r -> applier_record_ok s tr (mr_set r).
  Hypothesis Hothers : forall m r, m <> mgr -> mf_get m mf = Some r ->
    owns_live_keys s tr lx (mr_set r).
  Hypothesis Hwl : wf_value lx = true.
  Hypothesis Hwc : wf_value cx = true.
  Hypothesis Hcl : conforms s tr true lx = true.
  Hypothesis Hcc : conforms s tr false cx = true.
  Hypothesis Hpl : plain cx = true.
  Hypothesis Hroot : granular s tr cx.
  Hypothesis Happly : apply_op c (ver, lx) (ver, cx) ver mf mgr force = UOk (o, mf').

  Let result : value := match o with Some t => snd t | None => lx end.
  Let Hnd : keys_nodefault s R := proj1 Hkp.
  Let Hks : keys_scalar s R := proj2 Hkp.

  (* apply_op unfolded: the merged object and the prune stage *)
  Lemma run_setup : exists M set0 n0 pruned n1,
    merge s tr lx cx = Some (Some M) /\ to_field_set s tr cx = Some set0 /\
    wf_value M = true /\ conforms s tr true M = true /\
    LeafP s tr (Some lx) (Some cx) M /\
    prune c n0 (ver, M) (mf_set mgr {| mr_set := set0; mr_ver := ver; mr_applied := true |} mf) mgr
          (mf_get mgr mf) = UOk (pruned, n1) /\
    ((o = None /\ veqb lx (snd pruned) = true) \/ o = Some pruned).
  Proof.
    destruct (apply_shape c ver lx cx mf mgr force o mf' Hni Hcid Hsv Hmf Hcur Happly)
      as (M & set0 & n0 & pruned & n1 & Em & Eset0 & Eprune & Ho).
    fold s tr in Em, Eset0.
    exists M, set0, n0, pruned, n1.
    destruct (merge_conforms s R tr lx cx M Hok Hfam Htr Hwl Hwc Hcl Hcc Em) as [HcM HwM].
    pose proof (merge_inv s tr lx cx M Em) as Hmw.
    assert (Hlf : LeafP s tr (Some lx) (Some cx) M).
    { apply (leaves_w s R Hok Hfam (merge_fuel lx cx) tr (Some lx) (Some cx) M); auto.
      - unfold merge_fuel. simpl. lia.
      - split; assumption.
      - split; assumption.
      - left. discriminate. }
    repeat split; auto.
  Qed.

  (* the result has the nodes of the pruned object *)
  Lemma result_present : forall pruned, wf_value (snd pruned) = true ->
    conforms s tr true (snd pruned) = true ->
    ((o = None /\ veqb lx (snd pruned) = true) \/ o = Some pruned) ->
    forall q, wf_path q = true -> present s tr result q = present s tr (snd pruned) q.
  Proof.
    intros pruned HwP HcP [[Ho Hv]|Ho] q Hq; unfold result; rewrite Ho; [|reflexivity].
    apply (veqb_present s R Hok Hfam tr lx (snd pruned) q Htr Hwl HwP Hcl HcP Hv Hq).
  Qed.

  (* ================= C03 ================= *)

  Section Abandoned.
    Variables (last : mrec) (p : path).
    Hypothesis Hlast : mf_get mgr mf = Some last.
    Hypothesis Hp : wf_path p = true.
    Hypothesis Hpne : p <> [].
    Hypothesis Hplast : ps_has p (mr_set last) = true.
    Hypothesis Hnone : forall q, In q (map fst (nodes s tr cx)) -> is_prefix p q = false.
    Hypothesis Hnotothers : ps_has p (ps_en s tr (others_union mgr mf)) = false.

    (* p is not in the closure of the union of the records the add-back pass sees *)
    Lemma abandoned_not_owned : forall set0, to_field_set s tr cx = Some set0 ->
      ps_has p (ps_en s tr (union_all (mf_set mgr {| mr_set := set0; mr_ver := ver; mr_applied := true |} mf)
                                      ps_empty_set)) = false.
    Proof.
      intros set0 Eset0.
      assert (Hset0ok : ps_ok set0 = true) by (apply (to_field_set_ok s R tr cx set0 Hok Htr Hwc Eset0)).
      destruct (managers_sets s tr ver lx mf mgr set0 Hsv Hmf Hset0ok Hothers)
        as (HU & _ & _ & _ & _ & Hcases).
      set (U := union_all _ ps_empty_set) in *.
      pose proof (MergeBase.conforms_dup_mono s cx tr Hcc) as Hcc'.
      destruct (others_set_spec mgr mf Hmf) as [HokO HhasO].
      assert (Hcfg_none : forall r, wf_path r = true -> ps_has (p ++ r) set0 = true -> False).
      { intros r Hr Hin.
        assert (Hpr : wf_path (p ++ r) = true) by (apply ReconcileBase.wf_path_app; auto).
        pose proof (field_set_paths_resolve s R tr cx set0 _ Hok Htr Hfam Hwc Hcc' Eset0 Hpr Hin) as Hprc.
        unfold present in Hprc.
        rewrite (no_node_beneath s R tr Hok Htr cx Hwc p Hp Hpne Hnone r Hr) in Hprc. discriminate. }
      destruct (ps_has p (ps_en s tr U)) eqn:E; [exfalso|reflexivity].
      apply (en_has_iff s p tr U HU Hp Hpne) in E.
      destruct E as [HpU|(pre & n & Hpeq & Hnamed & r & Hrne & Hr & HrU)].
      - destruct (Hcases p Hp HpU) as [H0|(m & r & Hm & Hin & Hhas)].
        + apply (Hcfg_none [] eq_refl). rewrite app_nil_r. exact H0.
        + pose proof (HhasO p m r Hp Hin Hm Hhas) as HpO.
          change (others_set mgr mf) with (others_union mgr mf) in HpO, HokO.
          rewrite (en_has_mono s tr _ p HokO Hp HpO) in Hnotothers. discriminate.
      - assert (Hpr : wf_path (p ++ r) = true) by (apply ReconcileBase.wf_path_app; auto).
        destruct (Hcases (p ++ r) Hpr HrU) as [H0|(m & r0 & Hm & Hin & Hhas)].
        + apply (Hcfg_none r Hr H0).
        + pose proof (HhasO (p ++ r) m r0 Hpr Hin Hm Hhas) as HpO.
          change (others_set mgr mf) with (others_union mgr mf) in HpO, HokO.
          assert (Hen : ps_has p (ps_en s tr (others_union mgr mf)) = true).
          { apply (en_has_iff s p tr _ HokO Hp Hpne). right.
            exists pre, n. split; [exact Hpeq|]. split; [exact Hnamed|].
            exists r. auto. }
          rewrite Hen in Hnotothers. discriminate.
    Qed.

    (* the proviso stated on the merged object: if the merged object has p, its field set
       (closed under EnsureNamedFieldsAreMembers) has it *)
    Theorem removes_abandoned_merged :
      (forall M, merge s tr lx cx = Some (Some M) -> present s tr M p = true ->
                 ps_has p (node_set s tr M) = true) ->
      present s tr result p = false.
    Proof.
      intros Hvis.
      destruct run_setup as (M & set0 & n0 & pruned & n1 & Em & Eset0 & HwM & HcM & Hlf & Eprune & Ho).
      specialize (Hvis M Em).
      assert (Hset0ok : ps_ok set0 = true) by (apply (to_field_set_ok s R tr cx set0 Hok Htr Hwc Eset0)).
      pose proof (abandoned_not_owned set0 Eset0) as HnotU.
      destruct (managers_sets s tr ver lx mf mgr set0 Hsv Hmf Hset0ok Hothers)
        as (HU & HUcfg & HUown & Hmav & Htarget & _).
      set (mfp := mf_set mgr {| mr_set := set0; mr_ver := ver; mr_applied := true |} mf) in *.
      set (U := union_all mfp ps_empty_set) in *.
      rewrite Hlast in Eprune.
      assert (Hlv : mr_ver last = ver).
      { apply String.eqb_eq. apply (single_version_get ver mf mgr last Hsv Hlast). }
      pose proof (mf_ok_get mf mgr last Hmf Hlast) as Hlok.
      pose proof (Hmine last Hlast) as Hlrec.
      pose proof (ps_has_nonempty _ _ Hplast) as Hlne.
      (* the invariant: p is absent *)
      set (Q := fun P : value => present s tr P p = false).
      assert (Hstep : forall T, nice s tr M T -> ps_has p T = true \/ present s tr M p = false ->
                present s tr (remove s tr M T) p = false).
      { intros T HnT [Hin|Habs].
        - apply (remove_drops s R Hok Hfam Hnd p M tr true T Htr HwM HcM HnT Hp).
          apply (touches_self p T (n_ok _ _ _ _ HnT) Hp Hin).
        - destruct (present s tr (remove s tr M T) p) eqn:E; [|reflexivity].
          rewrite (remove_mono s R Hok Hfam Hnd p M tr true T Htr HwM HcM HnT Hp Hpne E) in Habs.
          discriminate. }
      assert (Habsent_ns : forall T, nice s tr M T -> present s tr (remove s tr M T) p = false ->
                ps_has p (node_set s tr (remove s tr M T)) = false).
      { intros T HnT Habs.
        destruct (removed_obj s R tr Hok Hfam Htr Hnd M HwM HcM T HnT) as [HwP HcP].
        destruct (ps_has p (node_set s tr (remove s tr M T))) eqn:E; [|reflexivity].
        rewrite (node_set_present s R Hok Hfam tr _ p Htr HwP HcP Hp E) in Habs. discriminate. }
      assert (HQ : forall T0, nice s tr M T0 -> Q (remove s tr M T0) ->
                Q (remove s tr M (pass_T s tr M U T0))).
      { intros T0 Hn0 HQ0. unfold Q in *.
        destruct (pass_set s R tr Hok Hfam Htr Hnd Hks lx cx M Hwc Hcc Hpl HwM HcM Hlf set0 U Eset0 HU
                    HUcfg HUown T0 Hn0) as (HokT & HhasT & HnT).
        apply (Hstep _ HnT).
        destruct (present s tr M p) eqn:EpM; [left|right; reflexivity].
        rewrite (HhasT p Hp), (Hvis eq_refl), (Habsent_ns T0 Hn0 HQ0), HnotU. reflexivity. }
      pose proof (first_set_nice s R tr Hok Hfam Htr Hnd M HwM HcM (mr_set last) Hlok Hlrec) as Hn0.
      assert (HQ0 : Q (remove s tr M (ps_en s tr (mr_set last)))).
      { unfold Q. apply (Hstep _ Hn0). left. apply (en_has_mono s tr _ p Hlok Hp Hplast). }
      destruct (prune_shape s R tr Hok Hfam Htr Hnd Hks lx cx M Hwc Hcc Hpl HwM HcM Hlf set0 U Eset0 HU
                  HUcfg HUown Q HQ c ver Hcid eq_refl eq_refl n0 mfp mgr last pruned n1
                  Hmav Htarget Hlv Hlok Hlrec Hlne HQ0 Eprune) as (T1 & Hn1 & HQ1 & Hpruned).
      destruct (dangling_set s R tr Hok Hfam Htr Hnd Hks M HwM HcM T1 (mr_set last) Hn1 Hlok (proj1 Hlrec))
        as (HokT2 & HhasT2 & HnT2).
      destruct (removed_obj s R tr Hok Hfam Htr Hnd M HwM HcM _ HnT2) as [HwP2 HcP2].
      subst pruned. cbn [snd] in *.
      rewrite (result_present (ver, _) HwP2 HcP2 Ho p Hp). cbn [snd].
      apply (Hstep _ HnT2).
      destruct (present s tr M p) eqn:EpM; [left|right; reflexivity].
      rewrite (HhasT2 p Hp), (Hvis eq_refl), (Habsent_ns T1 Hn1 HQ1).
      rewrite (en_has_mono s tr _ p Hlok Hp Hplast). reflexivity.
    Qed.

    (* the proviso stated on the live object: if the live object has p, it has at or beneath
       p a leaf other than an empty list *)
    Theorem removes_abandoned :
      (present s tr lx p = true ->
       exists r tr' x, wf_path r = true /\ resolve_path s tr lx (p ++ r) = Some (RNode tr' x) /\
                       leafy s tr' x /\ x <> VList []) ->
      present s tr result p = false.
    Proof.
      intros Hvis. apply removes_abandoned_merged. intros M Em HpM.
      destruct (merge_conforms s R tr lx cx M Hok Hfam Htr Hwl Hwc Hcl Hcc Em) as [HcM HwM].
      assert (Hlf : LeafP s tr (Some lx) (Some cx) M).
      { apply (leaves_w s R Hok Hfam (merge_fuel lx cx) tr (Some lx) (Some cx) M); auto.
        - unfold merge_fuel. simpl. lia.
        - split; assumption.
        - split; assumption.
        - left. discriminate.
        - apply merge_inv. exact Em. }
      (* the merged object has a leaf at or beneath p; it comes from the live object *)
      assert (Hleaf : exists r0 n0, wf_path r0 = true /\ resolve_path s tr M (p ++ r0) = Some n0 /\
                        rnode_is_leaf s n0 = true).
      { unfold present in HpM. destruct (resolve_path s tr M p) as [[tq xq|tq xs]|] eqn:EM; [| |discriminate].
        - destruct (resolve_sub s R Hok Hfam p M tr true tq xq Htr HwM HcM Hp EM) as (Htq & Hwq & Hcq).
          destruct (leaf_beneath s R Hok Hfam (S (vdepth xq)) tq true xq (Nat.lt_succ_diag_r _) Htq Hwq Hcq)
            as (r0 & n0 & Hr0 & Hres0 & Hl0).
          exists r0, n0. split; [exact Hr0|]. split; [|exact Hl0].
          rewrite resolve_path_app, EM. exact Hres0.
        - exists [], (RDup tq xs). split; [reflexivity|]. split; [rewrite app_nil_r; exact EM|reflexivity]. }
      destruct Hleaf as (r0 & n0 & Hr0 & Hres0 & Hl0).
      assert (Hpr0 : wf_path (p ++ r0) = true) by (apply ReconcileBase.wf_path_app; auto).
      assert (Hplive : present s tr lx p = true).
      { destruct (Hlf _ _ Hpr0 Hres0 Hl0) as [Hfrom|Hfrom]; simpl in Hfrom; unfold has_leaf in Hfrom.
        - rewrite (no_node_beneath s R tr Hok Htr cx Hwc p Hp Hpne Hnone r0 Hr0) in Hfrom. discriminate.
        - apply (present_prefix s tr lx p r0). unfold present.
          destruct (resolve_path s tr lx (p ++ r0)); [reflexivity|discriminate]. }
      destruct (Hvis Hplive) as (r & tr' & x & Hr & Hres & Hlx & Hxne).
      assert (Hpr : wf_path (p ++ r) = true) by (apply ReconcileBase.wf_path_app; auto).
      assert (Hnp : resolve_path s tr cx p = None).
      { pose proof (no_node_beneath s R tr Hok Htr cx Hwc p Hp Hpne Hnone [] eq_refl) as H.
        rewrite app_nil_r in H. exact H. }
      pose proof (merge_keeps_deep s R Hok Hfam tr lx cx M p r (RNode tr' x) Htr Hwl Hwc Hcl Hcc Hpl Em
                    Hpr Hnp HpM Hres) as HresM.
      apply (node_set_has s R Hok Hfam p r tr M tr' x Htr HwM HcM Hpr Hpne HresM Hlx Hxne).
    Qed.
  End Abandoned.

  (* ================= C02, removal half ================= *)

  Section OnlyOwn.
    Variable p : path.
    Hypothesis Hp : wf_path p = true.
    Hypothesis Hpne : p <> [].
    Hypothesis Habsent : present s tr result p = false.

    (* starting from a node of the merged object *)
    Theorem removes_only_own_merged :
      (forall M, merge s tr lx cx = Some (Some M) -> present s tr M p = true) ->
      exists last q, mf_get mgr mf = Some last /\ is_prefix q p = true /\
                     ps_has q (ps_en s tr (mr_set last)) = true.
    Proof.
      intros HpM.
      destruct run_setup as (M & set0 & n0 & pruned & n1 & Em & Eset0 & HwM & HcM & Hlf & Eprune & Ho).
      specialize (HpM M Em).
      assert (Hid : pruned = (ver, M) -> False).
      { intros ->. rewrite (result_present (ver, M) HwM HcM Ho p Hp) in Habsent. cbn [snd] in Habsent.
        rewrite HpM in Habsent. discriminate. }
      destruct (mf_get mgr mf) as [last|] eqn:Hlast.
      2:{ exfalso. apply Hid. unfold prune in Eprune. inversion Eprune. reflexivity. }
      destruct (ps_empty (mr_set last)) eqn:Hlne.
      1:{ exfalso. apply Hid. unfold prune in Eprune. rewrite Hlne in Eprune. inversion Eprune. reflexivity. }
      assert (Hset0ok : ps_ok set0 = true) by (apply (to_field_set_ok s R tr cx set0 Hok Htr Hwc Eset0)).
      destruct (managers_sets s tr ver lx mf mgr set0 Hsv Hmf Hset0ok Hothers)
        as (HU & HUcfg & HUown & Hmav & Htarget & _).
      set (mfp := mf_set mgr {| mr_set := set0; mr_ver := ver; mr_applied := true |} mf) in *.
      set (U := union_all mfp ps_empty_set) in *.
      assert (Hlv : mr_ver last = ver).
      { apply String.eqb_eq. apply (single_version_get ver mf mgr last Hsv Hlast). }
      pose proof (mf_ok_get mf mgr last Hmf Hlast) as Hlok.
      pose proof (Hmine last eq_refl) as Hlrec.
      destruct (prune_shape s R tr Hok Hfam Htr Hnd Hks lx cx M Hwc Hcc Hpl HwM HcM Hlf set0 U Eset0 HU
                  HUcfg HUown (fun _ => True) (fun _ _ _ => I) c ver Hcid eq_refl eq_refl n0 mfp mgr last
                  pruned n1 Hmav Htarget Hlv Hlok Hlrec Hlne I Eprune) as (T1 & Hn1 & _ & Hpruned).
      destruct (dangling_set s R tr Hok Hfam Htr Hnd Hks M HwM HcM T1 (mr_set last) Hn1 Hlok (proj1 Hlrec))
        as (HokT2 & HhasT2 & HnT2).
      destruct (removed_obj s R tr Hok Hfam Htr Hnd M HwM HcM _ HnT2) as [HwP2 HcP2].
      subst pruned. cbn [snd] in *.
      rewrite (result_present (ver, _) HwP2 HcP2 Ho p Hp) in Habsent. cbn [snd] in Habsent.
      set (T2 := dangling_T s tr M T1 (mr_set last)) in *.
      destruct (touches p T2) eqn:Et.
      - apply (touches_iff p T2 HokT2 Hp) in Et. destruct Et as (n & Hn & Hmem).
        assert (Hq : wf_path (firstn n p) = true) by (apply ReconcileBase.wf_path_firstn; exact Hp).
        exists last, (firstn n p). split; [reflexivity|]. split; [apply is_prefix_firstn; exact Hp|].
        rewrite (HhasT2 _ Hq) in Hmem. apply andb_true_iff in Hmem. apply Hmem.
      - exfalso. unfold present in HpM.
        destruct (resolve_path s tr M p) as [nd|] eqn:EM; [|discriminate].
        destruct (remove_keeps s R Hok Hfam Hnd p M tr true T2 nd Htr HwM HcM HnT2 Hp Hpne EM Et)
          as (n' & Hn' & _).
        unfold present, remove in Habsent. rewrite Hn' in Habsent. discriminate.
    Qed.

    (* starting from a node of the live object that is not at or beneath a node of the
       configuration, the live object and the configuration being of the same kind at the
       root *)
    Theorem removes_only_own :
      same_root_kind s tr lx cx ->
      present s tr lx p = true ->
      (forall q, In q (map fst (nodes s tr cx)) -> is_prefix q p = false) ->
      exists last q, mf_get mgr mf = Some last /\ is_prefix q p = true /\
                     ps_has q (ps_en s tr (mr_set last)) = true.
    Proof.
      intros Hsk Hplive Hnone. apply removes_only_own_merged. intros M Em.
      destruct p as [|e rest]; [congruence|].
      pose proof (no_node_above s R tr Hok Htr cx Hwc (e :: rest) Hp Hnone 1 (le_n 1) Hpne) as Hn1.
      cbn [firstn] in Hn1.
      unfold present in Hplive. destruct (resolve_path s tr lx (e :: rest)) as [nd|] eqn:El; [|discriminate].
      assert (Hne : present s tr cx [e] = false) by (unfold present; rewrite Hn1; reflexivity).
      unfold present.
      rewrite (merge_keeps_left s R Hok Hfam tr lx cx M e rest nd Htr Hwl Hwc Hcl Hcc Em Hroot Hsk Hp Hne El).
      reflexivity.
    Qed.
  End OnlyOwn.
End Run.

(* ================= the theorems, in the form of Proofs/ApplyPrune_statements.v ================= *)

(* C03: a field that the applier applied before (it is in its previous record), that its
   new configuration no longer mentions (neither the path nor anything beneath it) and
   that no other manager owns (it is not in the EnsureNamedFieldsAreMembers closure of the
   other records) is absent from the result.
   ADDED to the statement of Proofs/ApplyPrune_statements.v: the last hypothesis before the
   conclusion -- if the live object has p, it has at or beneath p a leaf other than an empty
   list.  NECESSARY: see [apply_removes_abandoned_needs_visible] below.  It is NOT an
   invariant of the states of a history: an Update that writes an empty list for a field of
   granular list type records the field for the updating manager (the comparison reports it
   as added) although ToFieldSet never yields it. *)
Theorem apply_removes_abandoned : forall c R ver live cfg mf mgr force o mf' last fscfg p,
  no_ignore c -> conv_id c ->
  schema_ok (schema_of c ver) R -> family_refs (schema_of c ver) R -> R (tr_of c ver) ->
  keys_plain (schema_of c ver) R ->
  fst live = ver -> fst cfg = ver -> single_version ver mf -> mf_ok mf ->
  records_current c ver mf ->
  (forall r, mf_get mgr mf = Some r ->
     applier_record_ok (schema_of c ver) (tr_of c ver) (mr_set r)) ->
  (forall m r, m <> mgr -> mf_get m mf = Some r ->
     owns_live_keys (schema_of c ver) (tr_of c ver) (snd live) (mr_set r)) ->
  wf_value (snd live) = true -> wf_value (snd cfg) = true ->
  conforms (schema_of c ver) (tr_of c ver) true (snd live) = true ->
  conforms (schema_of c ver) (tr_of c ver) false (snd cfg) = true ->
  plain (snd cfg) = true ->
  granular (schema_of c ver) (tr_of c ver) (snd cfg) ->
  apply_op c live cfg ver mf mgr force = UOk (o, mf') ->
  mf_get mgr mf = Some last ->
  to_field_set (schema_of c ver) (tr_of c ver) (snd cfg) = Some fscfg ->
  wf_path p = true -> p <> [] ->
  ps_has p (mr_set last) = true ->
  (forall q, In q (map fst (nodes (schema_of c ver) (tr_of c ver) (snd cfg))) -> is_prefix p q = false) ->
  ps_has p (ps_en (schema_of c ver) (tr_of c ver) (others_union mgr mf)) = false ->
  (present (schema_of c ver) (tr_of c ver) (snd live) p = true ->
   exists r tr' x, wf_path r = true /\
     resolve_path (schema_of c ver) (tr_of c ver) (snd live) (p ++ r) = Some (RNode tr' x) /\
     leafy (schema_of c ver) tr' x /\ x <> VList []) ->
  present (schema_of c ver) (tr_of c ver)
          (match o with Some t => snd t | None => snd live end) p = false.
Proof.
  intros c R ver [lv lx] [cv cx] mf mgr force o mf' last fscfg p Hni Hcid Hok Hfam Htr Hkp
    Hlv Hcv Hsv Hmf Hcur Hmine Hothers Hwl Hwc Hcl Hcc Hpl Hroot Happly Hlast _ Hp Hpne Hplast
    Hnone Hnoto Hvis.
  cbn [fst snd] in *. subst lv cv.
  apply (removes_abandoned c R ver lx cx mf mgr force o mf' Hni Hcid Hok Hfam Htr Hkp Hsv Hmf Hcur
           Hmine Hothers Hwl Hwc Hcl Hcc Hpl Happly last p Hlast Hp Hpne Hplast Hnone Hnoto Hvis).
Qed.

(* the same with the proviso stated on the merged object *)
Theorem apply_removes_abandoned_merged : forall c R ver live cfg mf mgr force o mf' last p,
  no_ignore c -> conv_id c ->
  schema_ok (schema_of c ver) R -> family_refs (schema_of c ver) R -> R (tr_of c ver) ->
  keys_plain (schema_of c ver) R ->
  fst live = ver -> fst cfg = ver -> single_version ver mf -> mf_ok mf ->
  records_current c ver mf ->
  (forall r, mf_get mgr mf = Some r ->
     applier_record_ok (schema_of c ver) (tr_of c ver) (mr_set r)) ->
  (forall m r, m <> mgr -> mf_get m mf = Some r ->
     owns_live_keys (schema_of c ver) (tr_of c ver) (snd live) (mr_set r)) ->
  wf_value (snd live) = true -> wf_value (snd cfg) = true ->
  conforms (schema_of c ver) (tr_of c ver) true (snd live) = true ->
  conforms (schema_of c ver) (tr_of c ver) false (snd cfg) = true ->
  plain (snd cfg) = true ->
  apply_op c live cfg ver mf mgr force = UOk (o, mf') ->
  mf_get mgr mf = Some last ->
  wf_path p = true -> p <> [] ->
  ps_has p (mr_set last) = true ->
  (forall q, In q (map fst (nodes (schema_of c ver) (tr_of c ver) (snd cfg))) -> is_prefix p q = false) ->
  ps_has p (ps_en (schema_of c ver) (tr_of c ver) (others_union mgr mf)) = false ->
  (forall M, merge (schema_of c ver) (tr_of c ver) (snd live) (snd cfg) = Some (Some M) ->
     present (schema_of c ver) (tr_of c ver) M p = true ->
     ps_has p (node_set (schema_of c ver) (tr_of c ver) M) = true) ->
  present (schema_of c ver) (tr_of c ver)
          (match o with Some t => snd t | None => snd live end) p = false.
Proof.
  intros c R ver [lv lx] [cv cx] mf mgr force o mf' last p Hni Hcid Hok Hfam Htr Hkp
    Hlv Hcv Hsv Hmf Hcur Hmine Hothers Hwl Hwc Hcl Hcc Hpl Happly Hlast Hp Hpne Hplast
    Hnone Hnoto Hvis.
  cbn [fst snd] in *. subst lv cv.
  apply (removes_abandoned_merged c R ver lx cx mf mgr force o mf' Hni Hcid Hok Hfam Htr Hkp Hsv Hmf Hcur
           Hmine Hothers Hwl Hwc Hcl Hcc Hpl Happly last p Hlast Hp Hpne Hplast Hnone Hnoto Hvis).
Qed.

(* C02 (removal half): whatever is present in the live object and absent from the result
   lies at or beneath a path of the applier's previous record (closed under
   EnsureNamedFieldsAreMembers) -- an apply removes nothing else.  (Nodes that disappear
   because the configuration gives a field a value of another kind are excluded by the
   hypothesis that the node is not at or beneath a node of the configuration.)
   ADDED to the statement of Proofs/ApplyPrune_statements.v: [same_root_kind] -- the live
   object and the configuration are not a map on one side and a list on the other at the
   root (the root is not a node, so a change of kind AT the root is not excluded by the
   hypothesis on the nodes of the configuration).  NECESSARY: see
   [apply_removes_only_own_needs_root_kind] below.  It holds whenever the root type does not
   allow both a list and a map [same_root_kind_single]. *)
Theorem apply_removes_only_own : forall c R ver live cfg mf mgr force o mf' p,
  no_ignore c -> conv_id c ->
  schema_ok (schema_of c ver) R -> family_refs (schema_of c ver) R -> R (tr_of c ver) ->
  keys_plain (schema_of c ver) R ->
  fst live = ver -> fst cfg = ver -> single_version ver mf -> mf_ok mf ->
  records_current c ver mf ->
  (forall r, mf_get mgr mf = Some r ->
     applier_record_ok (schema_of c ver) (tr_of c ver) (mr_set r)) ->
  (forall m r, m <> mgr -> mf_get m mf = Some r ->
     owns_live_keys (schema_of c ver) (tr_of c ver) (snd live) (mr_set r)) ->
  wf_value (snd live) = true -> wf_value (snd cfg) = true ->
  conforms (schema_of c ver) (tr_of c ver) true (snd live) = true ->
  conforms (schema_of c ver) (tr_of c ver) false (snd cfg) = true ->
  plain (snd cfg) = true ->
  granular (schema_of c ver) (tr_of c ver) (snd cfg) ->
  apply_op c live cfg ver mf mgr force = UOk (o, mf') ->
  wf_path p = true -> p <> [] ->
  present (schema_of c ver) (tr_of c ver) (snd live) p = true ->
  present (schema_of c ver) (tr_of c ver)
          (match o with Some t => snd t | None => snd live end) p = false ->
  (forall q, In q (map fst (nodes (schema_of c ver) (tr_of c ver) (snd cfg))) ->
             is_prefix q p = false) ->
  same_root_kind (schema_of c ver) (tr_of c ver) (snd live) (snd cfg) ->
  exists last q, mf_get mgr mf = Some last /\ is_prefix q p = true /\
                 ps_has q (ps_en (schema_of c ver) (tr_of c ver) (mr_set last)) = true.
Proof.
  intros c R ver [lv lx] [cv cx] mf mgr force o mf' p Hni Hcid Hok Hfam Htr Hkp
    Hlv Hcv Hsv Hmf Hcur Hmine Hothers Hwl Hwc Hcl Hcc Hpl Hroot Happly Hp Hpne Hplive Habs Hnone Hsk.
  cbn [fst snd] in *. subst lv cv.
  apply (removes_only_own c R ver lx cx mf mgr force o mf' Hni Hcid Hok Hfam Htr Hkp Hsv Hmf Hcur
           Hmine Hothers Hwl Hwc Hcl Hcc Hpl Hroot Happly p Hp Hpne Habs Hsk Hplive Hnone).
Qed.

(* the same starting from a node of the merged object: no proviso, and no hypothesis on the
   nodes of the configuration *)
Theorem apply_removes_only_own_merged : forall c R ver live cfg mf mgr force o mf' p,
  no_ignore c -> conv_id c ->
  schema_ok (schema_of c ver) R -> family_refs (schema_of c ver) R -> R (tr_of c ver) ->
  keys_plain (schema_of c ver) R ->
  fst live = ver -> fst cfg = ver -> single_version ver mf -> mf_ok mf ->
  records_current c ver mf ->
  (forall r, mf_get mgr mf = Some r ->
     applier_record_ok (schema_of c ver) (tr_of c ver) (mr_set r)) ->
  (forall m r, m <> mgr -> mf_get m mf = Some r ->
     owns_live_keys (schema_of c ver) (tr_of c ver) (snd live) (mr_set r)) ->
  wf_value (snd live) = true -> wf_value (snd cfg) = true ->
  conforms (schema_of c ver) (tr_of c ver) true (snd live) = true ->
  conforms (schema_of c ver) (tr_of c ver) false (snd cfg) = true ->
  plain (snd cfg) = true ->
  apply_op c live cfg ver mf mgr force = UOk (o, mf') ->
  wf_path p = true -> p <> [] ->
  (forall M, merge (schema_of c ver) (tr_of c ver) (snd live) (snd cfg) = Some (Some M) ->
     present (schema_of c ver) (tr_of c ver) M p = true) ->
  present (schema_of c ver) (tr_of c ver)
          (match o with Some t => snd t | None => snd live end) p = false ->
  exists last q, mf_get mgr mf = Some last /\ is_prefix q p = true /\
                 ps_has q (ps_en (schema_of c ver) (tr_of c ver) (mr_set last)) = true.
Proof.
  intros c R ver [lv lx] [cv cx] mf mgr force o mf' p Hni Hcid Hok Hfam Htr Hkp
    Hlv Hcv Hsv Hmf Hcur Hmine Hothers Hwl Hwc Hcl Hcc Hpl Happly Hp Hpne HpM Habs.
  cbn [fst snd] in *. subst lv cv.
  apply (removes_only_own_merged c R ver lx cx mf mgr force o mf' Hni Hcid Hok Hfam Htr Hkp Hsv Hmf Hcur
           Hmine Hothers Hwl Hwc Hcl Hcc Hpl Happly p Hp Hpne Habs HpM).
Qed.

(* [same_root_kind] holds when the root type does not allow both a list and a map *)
Lemma same_root_kind_single : forall s tr a b,
  (forall at_, resolve s tr = Some at_ -> atom_list at_ = None \/ atom_map at_ = None) ->
  same_root_kind s tr a b.
Proof.
  intros s tr a b H. unfold same_root_kind.
  destruct (kind_of s tr a) as [|t m|t l|] eqn:Ea; destruct (kind_of s tr b) as [|t' m'|t' l'|] eqn:Eb;
    try exact I.
  - destruct (kind_map_inv _ _ _ _ _ Ea) as (x & Hr & Hm & _).
    destruct (kind_list_inv _ _ _ _ _ Eb) as (y & Hr' & Hl & _).
    rewrite Hr in Hr'. inversion Hr'; subst y. destruct (H x Hr) as [E|E]; congruence.
  - destruct (kind_list_inv _ _ _ _ _ Ea) as (x & Hr & Hl & _).
    destruct (kind_map_inv _ _ _ _ _ Eb) as (y & Hr' & Hm & _).
    rewrite Hr in Hr'. inversion Hr'; subst y. destruct (H x Hr) as [E|E]; congruence.
Qed.

(* ================= the theorems are not vacuous ================= *)

(* A state of a history over the example schema: manager "a" applied earlier a configuration
   with aa, the list member x and mm.k; manager "b" owns the member y and also mm.k.  Now "a"
   applies {aa: 2}: it abandons the member x (nobody else owns it: REMOVED, by
   apply_removes_abandoned) and mm.k (owned by "b" as well: kept -- the theorem does not apply,
   its last-but-one hypothesis fails).  By apply_removes_only_own what disappeared lies beneath
   a path of a's previous record. *)
Section Example.
  Open Scope string_scope.
  Let F := PEField.
  Let kx := PEKey [("name", VStr "x")].
  Let ky := PEKey [("name", VStr "y")].

  Definition ape_live : value :=
    VMap [("aa", VInt 1);
          ("items", VList [VMap [("name", VStr "x"); ("vv", VInt 1)];
                           VMap [("name", VStr "y"); ("vv", VInt 2)]]);
          ("mm", VMap [("k", VInt 5)])].
  Definition ape_set_a : pset :=
    ps_of_paths [[F "aa"]; [F "items"; kx]; [F "items"; kx; F "name"]; [F "items"; kx; F "vv"]; [F "mm"; F "k"]].
  Definition ape_set_b : pset :=
    ps_of_paths [[F "items"; ky]; [F "items"; ky; F "name"]; [F "items"; ky; F "vv"]; [F "mm"; F "k"]].
  Definition ape_mf : managed :=
    [("a", mkRec ape_set_a "v1" true); ("b", mkRec ape_set_b "v1" false)].
  Definition ape_cfg : value := VMap [("aa", VInt 2)].
  Definition ape_result : value :=
    VMap [("aa", VInt 2);
          ("items", VList [VMap [("name", VStr "y"); ("vv", VInt 2)]]);
          ("mm", VMap [("k", VInt 5)])].
  Definition ape_mf' : managed :=
    [("a", mkRec (ps_of_paths [[F "aa"]]) "v1" true); ("b", mkRec ape_set_b "v1" false)].

  Lemma ape_apply :
    apply_op ex_config ("v1", ape_live) ("v1", ape_cfg) "v1" ape_mf "a" false
      = UOk (Some ("v1", ape_result), ape_mf').
  Proof. vm_compute. reflexivity. Qed.

  Lemma ape_conv : conv_id ex_config.
  Proof. intros n from to v. reflexivity. Qed.

  Lemma ape_current : records_current ex_config "v1" ape_mf.
  Proof.
    intros m r s' Hget. apply assoc_get_in in Hget. simpl in Hget.
    destruct Hget as [H|[H|[]]]; inversion H; subst m r; vm_compute; discriminate.
  Qed.

  Lemma ape_mine : forall r, mf_get "a" ape_mf = Some r ->
    applier_record_ok (schema_of ex_config "v1") (tr_of ex_config "v1") (mr_set r).
  Proof.
    intros r Hget. vm_compute in Hget. inversion Hget; subst r. cbn [mr_set]. split.
    - apply keys_closed_b_sound; vm_compute; reflexivity.
    - apply (no_atomic_free ex_schema FieldSetLaws.ex_R FieldSetLaws.ex_schema_ok).
      + unfold FieldSetLaws.ex_R. simpl. tauto.
      + exact ex_no_atomic.
      + exact FieldSetLaws.ex_R_root.
  Qed.

  Lemma ape_others : forall m r, m <> "a" -> mf_get m ape_mf = Some r ->
    owns_live_keys (schema_of ex_config "v1") (tr_of ex_config "v1") ape_live (mr_set r).
  Proof.
    intros m r Hm Hget. apply assoc_get_in in Hget. simpl in Hget.
    destruct Hget as [H|[H|[]]]; inversion H; subst m r; [congruence|]. cbn [mr_set].
    unfold owns_live_keys. intros pre fl k.
    apply (owns_live_keys_b_sound ex_schema FieldSetLaws.ex_R FieldSetLaws.ex_schema_ok
             ex_rt ape_live ape_set_b FieldSetLaws.ex_R_root); vm_compute; reflexivity.
  Qed.

  Example apply_removes_abandoned_example :
    (* by the theorem: the abandoned member x, which nobody else owns, is gone *)
    present ex_schema ex_rt ape_live [F "items"; kx] = true /\
    present ex_schema ex_rt ape_result [F "items"; kx] = false /\
    (* the abandoned mm.k, which "b" owns as well, is still there: it is in the closure of
       the other managers' records, the theorem does not apply *)
    ps_has [F "mm"; F "k"] (mr_set (mkRec ape_set_a "v1" true)) = true /\
    ps_has [F "mm"; F "k"] (ps_en ex_schema ex_rt (others_union "a" ape_mf)) = true /\
    present ex_schema ex_rt ape_result [F "mm"; F "k"] = true.
  Proof.
    split; [vm_compute; reflexivity|]. split; [|repeat split; vm_compute; reflexivity].
    refine (apply_removes_abandoned ex_config FieldSetLaws.ex_R "v1" ("v1", ape_live) ("v1", ape_cfg) ape_mf "a"
              false (Some ("v1", ape_result)) ape_mf' (mkRec ape_set_a "v1" true)
              (ps_of_paths [[F "aa"]]) [F "items"; kx]
              ex_config_no_ignore ape_conv FieldSetLaws.ex_schema_ok FieldSetLaws.ex_family
              FieldSetLaws.ex_R_root ex_keys_plain eq_refl eq_refl _ _ ape_current ape_mine ape_others
              _ _ _ _ _ _ ape_apply _ _ _ _ _ _ _ _).
    - vm_compute. reflexivity.
    - split; vm_compute; reflexivity.
    - vm_compute. reflexivity.
    - vm_compute. reflexivity.
    - vm_compute. reflexivity.
    - vm_compute. reflexivity.
    - vm_compute. reflexivity.
    - vm_compute. exact I.
    - vm_compute. reflexivity.
    - vm_compute. reflexivity.
    - vm_compute. reflexivity.
    - discriminate.
    - vm_compute. reflexivity.
    - intros q Hq. vm_compute in Hq. destruct Hq as [<-|[]]. vm_compute. reflexivity.
    - vm_compute. reflexivity.
    - intros _. exists [F "name"], ex_str, (VStr "x"). split; [reflexivity|].
      split; [vm_compute; reflexivity|]. split; [vm_compute; exact I|discriminate].
  Qed.

  Example apply_removes_only_own_example :
    (* the field vv of the member x: present before, absent after, not beneath a node of the
       configuration -- by the theorem it lies beneath a path of a's previous record *)
    present ex_schema ex_rt ape_live [F "items"; kx; F "vv"] = true /\
    present ex_schema ex_rt ape_result [F "items"; kx; F "vv"] = false /\
    exists last q, mf_get "a" ape_mf = Some last /\ is_prefix q [F "items"; kx; F "vv"] = true /\
                   ps_has q (ps_en ex_schema ex_rt (mr_set last)) = true.
  Proof.
    split; [vm_compute; reflexivity|]. split; [vm_compute; reflexivity|].
    refine (apply_removes_only_own ex_config FieldSetLaws.ex_R "v1" ("v1", ape_live) ("v1", ape_cfg) ape_mf "a"
              false (Some ("v1", ape_result)) ape_mf' [F "items"; kx; F "vv"]
              ex_config_no_ignore ape_conv FieldSetLaws.ex_schema_ok FieldSetLaws.ex_family
              FieldSetLaws.ex_R_root ex_keys_plain eq_refl eq_refl _ _ ape_current ape_mine ape_others
              _ _ _ _ _ _ ape_apply _ _ _ _ _ _).
    - vm_compute. reflexivity.
    - split; vm_compute; reflexivity.
    - vm_compute. reflexivity.
    - vm_compute. reflexivity.
    - vm_compute. reflexivity.
    - vm_compute. reflexivity.
    - vm_compute. reflexivity.
    - vm_compute. exact I.
    - vm_compute. reflexivity.
    - discriminate.
    - vm_compute. reflexivity.
    - vm_compute. reflexivity.
    - intros q Hq. vm_compute in Hq. destruct Hq as [<-|[]]. vm_compute. reflexivity.
    - vm_compute. exact I.
  Qed.
End Example.

(* ================= the added hypotheses are necessary ================= *)

(* The statement of C03 as given in Proofs/ApplyPrune_statements.v (without the proviso on
   the live object) *)
Definition apply_removes_abandoned_original : Prop :=
  forall c R ver live cfg mf mgr force o mf' last fscfg p,
  no_ignore c -> conv_id c ->
  schema_ok (schema_of c ver) R -> family_refs (schema_of c ver) R -> R (tr_of c ver) ->
  keys_plain (schema_of c ver) R ->
  fst live = ver -> fst cfg = ver -> single_version ver mf -> mf_ok mf ->
  records_current c ver mf ->
  (forall r, mf_get mgr mf = Some r ->
     applier_record_ok (schema_of c ver) (tr_of c ver) (mr_set r)) ->
  (forall m r, m <> mgr -> mf_get m mf = Some r ->
     owns_live_keys (schema_of c ver) (tr_of c ver) (snd live) (mr_set r)) ->
  wf_value (snd live) = true -> wf_value (snd cfg) = true ->
  conforms (schema_of c ver) (tr_of c ver) true (snd live) = true ->
  conforms (schema_of c ver) (tr_of c ver) false (snd cfg) = true ->
  plain (snd cfg) = true ->
  granular (schema_of c ver) (tr_of c ver) (snd cfg) ->
  apply_op c live cfg ver mf mgr force = UOk (o, mf') ->
  mf_get mgr mf = Some last ->
  to_field_set (schema_of c ver) (tr_of c ver) (snd cfg) = Some fscfg ->
  wf_path p = true -> p <> [] ->
  ps_has p (mr_set last) = true ->
  (forall q, In q (map fst (nodes (schema_of c ver) (tr_of c ver) (snd cfg))) -> is_prefix p q = false) ->
  ps_has p (ps_en (schema_of c ver) (tr_of c ver) (others_union mgr mf)) = false ->
  present (schema_of c ver) (tr_of c ver)
          (match o with Some t => snd t | None => snd live end) p = false.

Section VisibleCounterexample.
  Open Scope string_scope.
  (* the live object has an empty list at the field items (of granular list type); "a" owns
     the path items and nothing else; nobody else owns anything *)
  Definition nv_live : value := VMap [("items", VList [])].
  Definition nv_cfg : value := VMap [("aa", VInt 1)].
  Definition nv_mf : managed := [("a", mkRec (ps_of_paths [[PEField "items"]]) "v1" true)].
  Definition nv_result : value := VMap [("aa", VInt 1); ("items", VList [])].
  Definition nv_mf' : managed := [("a", mkRec (ps_of_paths [[PEField "aa"]]) "v1" true)].

  (* the state is reached by a history: "a" UPDATES {aa: 3} to {aa: 3, items: []} -- the
     comparison reports items as added and the updater records it for "a" -- ... *)
  Example nv_reachable :
    update_op ex_config ("v1", VMap [("aa", VInt 3)]) ("v1", VMap [("aa", VInt 3); ("items", VList [])])
              "v1" [] "a"
      = UOk (("v1", VMap [("aa", VInt 3); ("items", VList [])]),
             [("a", mkRec (ps_of_paths [[PEField "items"]]) "v1" false)]) /\
    (* ... although the field set of the object does not contain it *)
    to_field_set ex_schema ex_rt (VMap [("aa", VInt 3); ("items", VList [])])
      = Some (ps_of_paths [[PEField "aa"]]).
  Proof. split; vm_compute; reflexivity. Qed.

  (* "a" applies {aa: 1}: it abandons items, which nobody else owns -- and the empty list
     stays *)
  Example nv_apply :
    apply_op ex_config ("v1", nv_live) ("v1", nv_cfg) "v1" nv_mf "a" false
      = UOk (Some ("v1", nv_result), nv_mf') /\
    present ex_schema ex_rt nv_result [PEField "items"] = true.
  Proof. split; vm_compute; reflexivity. Qed.

  Theorem apply_removes_abandoned_needs_visible : ~ apply_removes_abandoned_original.
  Proof.
    intros H.
    pose proof (H ex_config FieldSetLaws.ex_R "v1" ("v1", nv_live) ("v1", nv_cfg) nv_mf "a" false
                  (Some ("v1", nv_result)) nv_mf' (mkRec (ps_of_paths [[PEField "items"]]) "v1" true)
                  (ps_of_paths [[PEField "aa"]]) [PEField "items"]
                  ex_config_no_ignore ape_conv FieldSetLaws.ex_schema_ok FieldSetLaws.ex_family
                  FieldSetLaws.ex_R_root ex_keys_plain eq_refl eq_refl) as Hc.
    assert (Hfalse : present ex_schema ex_rt nv_result [PEField "items"] = false).
    { refine (Hc _ _ _ _ _ _ _ _ _ _ _ _ _ _ _ _ _ _ _).
      - vm_compute. reflexivity.
      - split; vm_compute; reflexivity.
      - intros m r s' Hget. apply assoc_get_in in Hget. simpl in Hget.
        destruct Hget as [Hg|[]]; inversion Hg; subst m r; vm_compute; discriminate.
      - intros r Hget. vm_compute in Hget. inversion Hget; subst r. cbn [mr_set]. split.
        + apply keys_closed_b_sound; vm_compute; reflexivity.
        + apply (no_atomic_free ex_schema FieldSetLaws.ex_R FieldSetLaws.ex_schema_ok).
          * unfold FieldSetLaws.ex_R. simpl. tauto.
          * exact ex_no_atomic.
          * exact FieldSetLaws.ex_R_root.
      - intros m r Hm Hget. apply assoc_get_in in Hget. simpl in Hget.
        destruct Hget as [Hg|[]]; inversion Hg; subst m r. congruence.
      - vm_compute. reflexivity.
      - vm_compute. reflexivity.
      - vm_compute. reflexivity.
      - vm_compute. reflexivity.
      - vm_compute. reflexivity.
      - vm_compute. exact I.
      - vm_compute. reflexivity.
      - vm_compute. reflexivity.
      - vm_compute. reflexivity.
      - vm_compute. reflexivity.
      - discriminate.
      - vm_compute. reflexivity.
      - intros q Hq. vm_compute in Hq. destruct Hq as [<-|[]]. vm_compute. reflexivity.
      - vm_compute. reflexivity. }
    vm_compute in Hfalse. discriminate.
  Qed.
End VisibleCounterexample.

(* The statement of C02 (removal half) as given in Proofs/ApplyPrune_statements.v (without
   the hypothesis on the kinds at the root) *)
Definition apply_removes_only_own_original : Prop :=
  forall c R ver live cfg mf mgr force o mf' p,
  no_ignore c -> conv_id c ->
  schema_ok (schema_of c ver) R -> family_refs (schema_of c ver) R -> R (tr_of c ver) ->
  keys_plain (schema_of c ver) R ->
  fst live = ver -> fst cfg = ver -> single_version ver mf -> mf_ok mf ->
  records_current c ver mf ->
  (forall r, mf_get mgr mf = Some r ->
     applier_record_ok (schema_of c ver) (tr_of c ver) (mr_set r)) ->
  (forall m r, m <> mgr -> mf_get m mf = Some r ->
     owns_live_keys (schema_of c ver) (tr_of c ver) (snd live) (mr_set r)) ->
  wf_value (snd live) = true -> wf_value (snd cfg) = true ->
  conforms (schema_of c ver) (tr_of c ver) true (snd live) = true ->
  conforms (schema_of c ver) (tr_of c ver) false (snd cfg) = true ->
  plain (snd cfg) = true ->
  granular (schema_of c ver) (tr_of c ver) (snd cfg) ->
  apply_op c live cfg ver mf mgr force = UOk (o, mf') ->
  wf_path p = true -> p <> [] ->
  present (schema_of c ver) (tr_of c ver) (snd live) p = true ->
  present (schema_of c ver) (tr_of c ver)
          (match o with Some t => snd t | None => snd live end) p = false ->
  (forall q, In q (map fst (nodes (schema_of c ver) (tr_of c ver) (snd cfg))) ->
             is_prefix q p = false) ->
  exists last q, mf_get mgr mf = Some last /\ is_prefix q p = true /\
                 ps_has q (ps_en (schema_of c ver) (tr_of c ver) (mr_set last)) = true.

Section RootKindCounterexample.
  Open Scope string_scope.
  (* a root type that allows a set of strings as well as a map of strings *)
  Definition rk_root : typeref :=
    TR None (Atom None (Some (ListT ex_str RAssociative [])) (Some (MapT [] ex_str RUnset))) None.
  Definition rk_config : config :=
    mkConfig (fun _ => ([], rk_root)) (fun _ _ _ v => COk v) None None false (fun l => l).
  Definition rk_live : value := VList [VStr "a"].
  Definition rk_cfg : value := VMap [("k", VStr "x")].
  Definition rk_R (t : typeref) : Prop := In t [rk_root; ex_str].

  (* nobody owns anything; "a" applies a map: the list is replaced *)
  Example rk_apply :
    apply_op rk_config ("v1", rk_live) ("v1", rk_cfg) "v1" [] "a" false
      = UOk (Some ("v1", rk_cfg), [("a", mkRec (ps_of_paths [[PEField "k"]]) "v1" true)]) /\
    present [] rk_root rk_live [PEValue (VStr "a")] = true /\
    present [] rk_root rk_cfg [PEValue (VStr "a")] = false.
  Proof. repeat split; vm_compute; reflexivity. Qed.

  Theorem apply_removes_only_own_needs_root_kind : ~ apply_removes_only_own_original.
  Proof.
    intros H.
    pose proof (H rk_config rk_R "v1" ("v1", rk_live) ("v1", rk_cfg) [] "a" false
                  (Some ("v1", rk_cfg)) [("a", mkRec (ps_of_paths [[PEField "k"]]) "v1" true)]
                  [PEValue (VStr "a")]) as Hc.
    assert (Hfalse : exists last q, mf_get "a" [] = Some last /\ is_prefix q [PEValue (VStr "a")] = true /\
              ps_has q (ps_en [] rk_root (mr_set last)) = true).
    { refine (Hc _ _ _ _ _ _ _ _ _ _ _ _ _ _ _ _ _ _ _ _ _ _ _ _ _).
      - split; reflexivity.
      - intros n from to v. reflexivity.
      - apply ReconcileLaws.schema_ok_finite. intros t Ht.
        destruct Ht as [<-|[<-|[]]].
        + vm_compute. split; [reflexivity|]. split.
          * intros li Hli. inversion Hli; subst li. right. left. reflexivity.
          * intros m Hm. inversion Hm; subst m. split; [right; left; reflexivity|intros f []].
        + vm_compute. split; [reflexivity|]. split; intros x Hx; discriminate Hx.
      - intros t a l Ht Hr Hl. destruct Ht as [<-|[<-|[]]]; vm_compute in Hr; inversion Hr; subst a.
        + simpl in Hl. inversion Hl; subst l. left. reflexivity.
        + discriminate Hl.
      - left. reflexivity.
      - split.
        + intros t a l k d Ht Hr Hl Hk. destruct Ht as [<-|[<-|[]]]; vm_compute in Hr; inversion Hr; subst a;
            simpl in Hl; try discriminate. inversion Hl; subst l. destruct Hk.
        + intros t a l k ea mt Ht Hr Hl Hk. destruct Ht as [<-|[<-|[]]]; vm_compute in Hr; inversion Hr; subst a;
            simpl in Hl; try discriminate. inversion Hl; subst l. destruct Hk.
      - reflexivity.
      - reflexivity.
      - reflexivity.
      - split; reflexivity.
      - intros m r s' Hget. discriminate Hget.
      - intros r Hget. discriminate Hget.
      - intros m r _ Hget. discriminate Hget.
      - vm_compute. reflexivity.
      - vm_compute. reflexivity.
      - vm_compute. reflexivity.
      - vm_compute. reflexivity.
      - vm_compute. reflexivity.
      - vm_compute. exact I.
      - vm_compute. reflexivity.
      - vm_compute. reflexivity.
      - discriminate.
      - vm_compute. reflexivity.
      - vm_compute. reflexivity.
      - intros q Hq. vm_compute in Hq. destruct Hq as [<-|[]]. vm_compute. reflexivity. }
    destruct Hfalse as (last & q & Hget & _). discriminate Hget.
  Qed.
End RootKindCounterexample.

