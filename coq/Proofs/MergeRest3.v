(* C12, ordering: in every set / associative list of a merge result the members of R keep
   R's relative order and the members only in L keep L's relative order ([order_ok],
   Spec/Agree.v), recursively in nested lists. *)
From Coq Require Import List ZArith String Bool Arith Lia.
From SMD Require Import Model.Value Model.Order Model.PathElem Model.PathSet Model.Schema
  Model.Walk Model.Merge Spec.PathsAsSets Spec.RefValid Spec.Resolve Spec.Agree
  Proofs.OrderLaws Proofs.KeyLaws Proofs.PathSetLaws Proofs.ValidateLaws Proofs.SchemaOk Proofs.MergeLaws.
From SMD Require Import Proofs.FieldSetBase Proofs.FieldSetPaths Proofs.ResolveLaws
  Proofs.PesLaws Proofs.MergeBase Proofs.MergeLoop Proofs.MergeWalk Proofs.MergeConf
  Proofs.MergeInter Proofs.MergeVeqb Proofs.MergeDescent Proofs.MergeAgree Proofs.RemoveFrame.
Import ListNotations.
Open Scope bool_scope.

(* ---------- small list facts ---------- *)

Lemma find_filter : forall (A : Type) (f : A -> bool) l,
  find f l = match filter f l with [] => None | x :: _ => Some x end.
Proof.
  intros A f l. induction l as [|x l IH]; [reflexivity|]. simpl. destruct (f x); [reflexivity|exact IH].
Qed.

Lemma filter_all : forall (A : Type) (p : A -> bool) l,
  (forall x, In x l -> p x = true) -> filter p l = l.
Proof.
  intros A p l. induction l as [|x l IH]; intros H; [reflexivity|]. simpl.
  rewrite (H x (or_introl eq_refl)). f_equal. apply IH. intros y Hy. apply H. right. exact Hy.
Qed.

Lemma pes_eqb_map2 : forall (A : Type) (f g : A -> pe) l,
  (forall x, In x l -> peeqb (f x) (g x) = true) -> pes_eqb (map f l) (map g l) = true.
Proof.
  intros A f g l. induction l as [|x l IH]; intros H; [reflexivity|]. simpl.
  rewrite (H x (or_introl eq_refl)). apply IH. intros y Hy. apply H. right. exact Hy.
Qed.

Lemma dedup_distinct : forall l, (forall e, In e l -> wf_pe e = true) ->
  all_distinct l = true -> dedup_pes l = l.
Proof.
  induction l as [|x l IH]; intros Hwf Hd; [reflexivity|].
  simpl in Hd. apply andb_true_iff in Hd. destruct Hd as [Hd0 Hd]. apply negb_true_iff in Hd0.
  simpl. rewrite IH by (auto; intros e He; apply Hwf; right; exact He). f_equal.
  apply filter_all. intros y Hy. rewrite (MergeBase.existsb_false_in _ _ _ y Hd0 Hy). reflexivity.
Qed.

Lemma pe_in_cong : forall e e' l, wf_pe e = true -> wf_pe e' = true ->
  (forall x, In x l -> wf_pe x = true) -> peeqb e e' = true -> pe_in e l = pe_in e' l.
Proof.
  intros e e' l He He' Hwf Hee. unfold pe_in. induction l as [|x l IH]; [reflexivity|].
  simpl. rewrite (peeqb_cong_l x e e' (Hwf x (or_introl eq_refl)) He He' Hee).
  rewrite IH; [reflexivity|]. intros y Hy. apply Hwf. right. exact Hy.
Qed.

Lemma pe_in_self : forall e l, wf_pe e = true -> In e l -> pe_in e l = true.
Proof.
  intros e l He Hin. unfold pe_in. apply existsb_exists. exists e. split; [exact Hin|].
  apply peeqb_refl. exact He.
Qed.

Lemma dm_match : forall o : option value, match o with Some (VMap m) => m | _ => [] end = dm o.
Proof. intros [[| | | | |l|m]|]; reflexivity. Qed.

Lemma dl_match : forall o : option value, match o with Some (VList x) => x | _ => [] end = dl o.
Proof. intros [[| | | | |l|m]|]; reflexivity. Qed.

Lemma pes_of_items_eq : forall s t l, pes_of_items s t l = MergeBase.pes_of s t l.
Proof.
  intros s t l. induction l as [|x l IH]; [reflexivity|]. simpl. unfold MergeBase.pes_of in *. simpl.
  destruct (list_item_to_pe s t x); simpl; rewrite IH; reflexivity.
Qed.

Lemma find_item_occ : forall s t e l,
  find_item s t e l = match occ s t e l with [] => None | x :: _ => Some x end.
Proof. intros s t e l. exact (find_filter _ (pe_matches s t e) l). Qed.

(* one unfolding of [order_ok] *)
Lemma order_ok_map : forall n s tr l r o t om, kind_of s tr o = KMap t om ->
  order_ok (S n) s tr l r (Some o) =
  forallb (fun kv : string * value =>
             order_ok n s (field_type t (fst kv)) (assoc_get (fst kv) (dm l)) (assoc_get (fst kv) (dm r))
               (Some (snd kv))) om.
Proof.
  intros n s tr l r o t om H. cbn [order_ok]. rewrite H, dm_match, dm_match. reflexivity.
Qed.

Lemma order_ok_list : forall n s tr l r o t ol, kind_of s tr o = KList t ol ->
  order_ok (S n) s tr l r (Some o) =
  (let rp := MergeBase.pes_of s t (dl r) in
   let lp := MergeBase.pes_of s t (dl l) in
   let op := MergeBase.pes_of s t ol in
   pes_eqb (filter (fun e => pe_in e rp) op) (dedup_pes rp)
   && pes_eqb (filter (fun e => negb (pe_in e rp)) op) (filter (fun e => negb (pe_in e rp)) lp)
   && forallb (fun x => match list_item_to_pe s t x with
                        | Some e => order_ok n s (list_elem t) (find_item s t e (dl l)) (find_item s t e (dl r)) (Some x)
                        | None => true
                        end) ol).
Proof.
  intros n s tr l r o t ol H. cbn [order_ok]. rewrite H, dl_match, dl_match, !pes_of_items_eq. reflexivity.
Qed.

Lemma order_ok_leaf : forall n s tr l r o, leafy s tr o -> order_ok n s tr l r (Some o) = true.
Proof.
  intros [|n] s tr l r o H; [reflexivity|]. cbn [order_ok]. unfold RemoveFrame.leafy in H.
  destruct (kind_of s tr o); try contradiction; reflexivity.
Qed.

(* ---------- the list case ---------- *)
Section ListCase.
  Variables (s : schema) (t : listT).
  Variables (ll rl : list value) (gR : pe -> value) (tl : list (pe * value)).
  Hypothesis HiwL : items_wf s t ll.
  Hypothesis HiwR : items_wf s t rl.
  Hypothesis HdisL : all_distinct (MergeBase.pes_of s t ll) = true.
  Hypothesis HdisR : all_distinct (MergeBase.pes_of s t rl) = true.
  Hypothesis Hil : interleave (map (fun e => (e, gR e)) (MergeBase.pes_of s t rl))
                              (filter (notR_of s t rl) (ipairs s t ll)) tl.
  Hypothesis Hitems : Forall (MergeDescent.item_ok s t) tl.

  Local Notation rp := (MergeBase.pes_of s t rl).
  Local Notation lp := (MergeBase.pes_of s t ll).

  Lemma wfL : forall e, In e lp -> wf_pe e = true.
  Proof. intros e He. destruct (pes_of_in s t ll e He) as [c [Hc Hpe]]. apply (HiwL c e Hc Hpe). Qed.
  Lemma wfR : forall e, In e rp -> wf_pe e = true.
  Proof. intros e He. destruct (pes_of_in s t rl e He) as [c [Hc Hpe]]. apply (HiwR c e Hc Hpe). Qed.

  Definition ap (it : pe * value) : pe :=
    match list_item_to_pe s t (snd it) with Some e => e | None => fst it end.

  Lemma ap_ok : forall it, In it tl ->
    wf_pe (fst it) = true /\ wf_pe (ap it) = true /\ peeqb (ap it) (fst it) = true /\
    list_item_to_pe s t (snd it) = Some (ap it).
  Proof.
    intros it Hin. rewrite Forall_forall in Hitems. destruct (Hitems it Hin) as (Hw & ey & Hpe & Hwy & Heq).
    unfold ap. rewrite Hpe. auto.
  Qed.

  Lemma pes_of_out : MergeBase.pes_of s t (map snd tl) = map ap tl.
  Proof.
    assert (H : forall l, (forall it, In it l -> list_item_to_pe s t (snd it) = Some (ap it)) ->
                          MergeBase.pes_of s t (map snd l) = map ap l).
    { induction l as [|it l IH]; intros Hl; [reflexivity|]. unfold MergeBase.pes_of in *. simpl.
      rewrite (Hl it (or_introl eq_refl)). simpl. f_equal. apply IH. intros y Hy. apply Hl. right. exact Hy. }
    apply H. intros it Hin. apply (ap_ok it Hin).
  Qed.

  Definition inR (it : pe * value) : bool := pe_in (fst it) rp.

  Lemma notR_inR : forall ec, In ec (ipairs s t ll) -> notR_of s t rl ec = negb (inR ec).
  Proof.
    intros [e c] Hin. unfold notR_of, inR, pe_in. simpl.
    destruct (lfind s t e rl) as [v|] eqn:El.
    - rewrite (lfind_exists_rev s t e rl) by congruence. reflexivity.
    - destruct (existsb (peeqb e) (MergeBase.pes_of s t rl)) eqn:Ex; [|reflexivity].
      exfalso. apply (lfind_exists s t e rl Ex El).
  Qed.

  Lemma inR_A : forall it, In it (map (fun e => (e, gR e)) rp) -> inR it = true.
  Proof.
    intros it Hin. apply in_map_iff in Hin. destruct Hin as (e & <- & He). unfold inR. simpl.
    apply pe_in_self; [apply wfR|]; exact He.
  Qed.

  Lemma inR_B : forall it, In it (filter (notR_of s t rl) (ipairs s t ll)) -> inR it = false.
  Proof.
    intros it Hin. apply filter_In in Hin. destruct Hin as [Hin Hn].
    rewrite (notR_inR it Hin) in Hn. apply negb_true_iff in Hn. exact Hn.
  Qed.

  Lemma tl_inR : filter inR tl = map (fun e => (e, gR e)) rp.
  Proof.
    pose proof (interleave_filter _ inR _ _ _ Hil) as Hf.
    rewrite (filter_all _ inR _ inR_A) in Hf.
    rewrite (filter_none _ inR _ inR_B) in Hf.
    apply interleave_nil_r in Hf. exact Hf.
  Qed.

  Lemma tl_notR : filter (fun it => negb (inR it)) tl = filter (notR_of s t rl) (ipairs s t ll).
  Proof.
    pose proof (interleave_filter _ (fun it => negb (inR it)) _ _ _ Hil) as Hf.
    rewrite (filter_none _ (fun it => negb (inR it)) (map (fun e => (e, gR e)) rp)) in Hf
      by (intros it Hin; rewrite (inR_A it Hin); reflexivity).
    rewrite (filter_all _ (fun it => negb (inR it)) (filter (notR_of s t rl) (ipairs s t ll))) in Hf
      by (intros it Hin; rewrite (inR_B it Hin); reflexivity).
    apply interleave_nil_l in Hf. exact Hf.
  Qed.

  Lemma pe_in_ap : forall it, In it tl -> pe_in (ap it) rp = inR it.
  Proof.
    intros it Hin. destruct (ap_ok it Hin) as (Hw & Hwa & Heq & _). unfold inR.
    apply pe_in_cong; auto. exact wfR.
  Qed.

  Lemma order_first : pes_eqb (filter (fun e => pe_in e rp) (map ap tl)) (dedup_pes rp) = true.
  Proof.
    rewrite (dedup_distinct rp wfR HdisR).
    rewrite filter_map_comm.
    rewrite (filter_ext_in (fun x => pe_in (ap x) rp) inR tl pe_in_ap).
    assert (Hsub : forall it, In it (filter inR tl) -> peeqb (ap it) (fst it) = true).
    { intros it Hin. apply filter_In in Hin. destruct Hin as [Hin _]. apply (ap_ok it Hin). }
    pose proof (pes_eqb_map2 _ ap fst (filter inR tl) Hsub) as H.
    rewrite tl_inR in H at 2. rewrite map_map in H. simpl in H. rewrite map_id in H. exact H.
  Qed.

  Lemma order_second :
    pes_eqb (filter (fun e => negb (pe_in e rp)) (map ap tl)) (filter (fun e => negb (pe_in e rp)) lp) = true.
  Proof.
    rewrite filter_map_comm.
    rewrite (filter_ext_in (fun x => negb (pe_in (ap x) rp)) (fun it => negb (inR it)) tl)
      by (intros it Hin; rewrite (pe_in_ap it Hin); reflexivity).
    rewrite <- (ipairs_fst s t ll). rewrite filter_map_comm.
    rewrite <- (filter_ext_in (notR_of s t rl) (fun x => negb (pe_in (fst x) rp)) (ipairs s t ll) notR_inR).
    assert (Hsub : forall it, In it (filter (fun it => negb (inR it)) tl) -> peeqb (ap it) (fst it) = true).
    { intros it Hin. apply filter_In in Hin. destruct Hin as [Hin _]. apply (ap_ok it Hin). }
    pose proof (pes_eqb_map2 _ ap fst _ Hsub) as H.
    rewrite tl_notR in H at 2. exact H.
  Qed.

  (* the counterparts of a member *)
  Lemma find_item_cong : forall l e e', items_wf s t l -> wf_pe e = true -> wf_pe e' = true ->
    peeqb e e' = true -> find_item s t e l = find_item s t e' l.
  Proof.
    intros l e e' Hiw He He' Hee. rewrite !find_item_occ. rewrite (occ_cong s t l e e' Hiw He He' Hee). reflexivity.
  Qed.

  Lemma find_item_lfind : forall l e, items_wf s t l -> all_distinct (MergeBase.pes_of s t l) = true ->
    wf_pe e = true -> find_item s t e l = lfind s t e l.
  Proof.
    intros l e Hiw Hd He. rewrite find_item_occ.
    assert (Hwf : forall e0, In e0 (MergeBase.pes_of s t l) -> wf_pe e0 = true).
    { intros e0 He0. destruct (pes_of_in s t l e0 He0) as [c [Hc Hpe]]. apply (Hiw c e0 Hc Hpe). }
    rewrite (occ_distinct s t l e Hwf Hd He). destruct (lfind s t e l); reflexivity.
  Qed.

  Lemma obsL_lfind : forall e, wf_pe e = true -> obsL s t ll e = lfind s t e ll.
  Proof.
    intros e He. unfold obsL. rewrite (occ_distinct s t ll e wfL HdisL He).
    destruct (lfind s t e ll); reflexivity.
  Qed.

  Variable n : nat.
  Hypothesis HrecA : forall e0, In e0 rp ->
    order_ok n s (list_elem t) (obsL s t ll e0) (lfind s t e0 rl) (Some (gR e0)) = true.
  Hypothesis HrecB : forall e0 c, In (e0, c) (ipairs s t ll) ->
    order_ok n s (list_elem t) (Some c) None (Some c) = true.

  Lemma order_third :
    forallb (fun x => match list_item_to_pe s t x with
                      | Some e => order_ok n s (list_elem t) (find_item s t e ll) (find_item s t e rl) (Some x)
                      | None => true
                      end) (map snd tl) = true.
  Proof.
    apply forallb_forall. intros x Hx. apply in_map_iff in Hx. destruct Hx as (it & <- & Hin).
    destruct (ap_ok it Hin) as (Hw & Hwa & Heq & Hpe). rewrite Hpe.
    rewrite (find_item_cong ll (ap it) (fst it) HiwL Hwa Hw Heq).
    rewrite (find_item_cong rl (ap it) (fst it) HiwR Hwa Hw Heq).
    rewrite (find_item_lfind ll (fst it) HiwL HdisL Hw), (find_item_lfind rl (fst it) HiwR HdisR Hw).
    apply (interleave_in _ _ _ _ it Hil) in Hin. destruct Hin as [Hin|Hin].
    - apply in_map_iff in Hin. destruct Hin as (e0 & <- & He0). simpl.
      rewrite <- (obsL_lfind e0 (wfR e0 He0)). apply HrecA. exact He0.
    - apply filter_In in Hin. destruct Hin as [Hin Hn]. destruct it as [e0 c]. simpl in *.
      unfold notR_of in Hn. simpl in Hn. destruct (lfind s t e0 rl); [discriminate|].
      rewrite (lfind_in s t ll e0 c wfL HdisL Hin). apply (HrecB e0 c Hin).
  Qed.

  Lemma order_list_case :
    (let rp := MergeBase.pes_of s t rl in
     let lp := MergeBase.pes_of s t ll in
     let op := MergeBase.pes_of s t (map snd tl) in
     pes_eqb (filter (fun e => pe_in e rp) op) (dedup_pes rp)
     && pes_eqb (filter (fun e => negb (pe_in e rp)) op) (filter (fun e => negb (pe_in e rp)) lp)
     && forallb (fun x => match list_item_to_pe s t x with
                          | Some e => order_ok n s (list_elem t) (find_item s t e ll) (find_item s t e rl) (Some x)
                          | None => true
                          end) (map snd tl)) = true.
  Proof.
    cbv zeta. rewrite pes_of_out.
    rewrite order_first, order_second, order_third. reflexivity.
  Qed.
End ListCase.

(* ---------- the walk ---------- *)
Section Order.
  Variables (s : schema) (R : typeref -> Prop).
  Hypothesis Hok : schema_ok s R.
  Hypothesis Hfam : family_refs s R.

  (* an object merged with nothing: every member is "only in L" *)
  Lemma order_left_only : forall n tr l, R tr -> wf_value l = true -> conforms s tr false l = true ->
    order_ok n s tr (Some l) None (Some l) = true.
  Proof.
    induction n as [|n IH]; intros tr l HR Hwl Hcl; [reflexivity|].
    destruct (kind_of s tr l) as [|mt m|t ll|] eqn:Ek.
    - apply order_ok_leaf. unfold RemoveFrame.leafy. rewrite Ek. exact I.
    - rewrite (order_ok_map n s tr (Some l) None l mt m Ek).
      destruct (kind_map_inv _ _ _ _ _ Ek) as (a & Hr & Hmt & Hl & Hna & Hmne). subst l.
      apply forallb_forall. intros [k x] Hin. cbn [fst snd dm deref_map].
      assert (Hget : assoc_get k m = Some x).
      { apply assoc_get_in_sorted; auto. apply (wf_map_sorted m Hwl). }
      rewrite Hget. simpl assoc_get.
      apply IH.
      + apply (so_map s R Hok tr a mt k HR Hr Hmt).
      + apply (wf_map_in m k x Hwl Hin).
      + pose proof (oconf_dm s tr false a mt (Some (VMap m)) k Hr Hmt (conj Hcl Hwl)) as Ho.
        change (dm (Some (VMap m))) with m in Ho. rewrite Hget in Ho. apply Ho.
    - rewrite (order_ok_list n s tr (Some l) None l t ll Ek).
      destruct (kind_list_inv _ _ _ _ _ Ek) as (a & Hr & Hlt & Hl & Hna & Hlne). subst l.
      pose proof (list_rel_assoc t (Hfam tr a t HR Hr Hlt) Hna) as Hrel.
      destruct (conf_list_assoc s tr a t false ll Hr Hlt Hrel Hcl) as (HpeL & HallL & HdisL).
      specialize (HdisL eq_refl).
      pose proof (so_list s R Hok tr a t HR Hr Hlt) as HRelem.
      assert (Hwll : forallb wf_value ll = true) by exact Hwl.
      assert (HiwL : items_wf s t ll) by (apply (items_wf_of s R Hok tr a t ll HR Hr Hlt); exact Hwll).
      change (dl (Some (VList ll))) with ll. change (dl None) with (@nil value).
      assert (HiwR : items_wf s t []) by (intros x e []).
      assert (Hil : interleave (map (fun e => (e, VNull)) (MergeBase.pes_of s t []))
                               (filter (notR_of s t []) (ipairs s t ll)) (ipairs s t ll)).
      { simpl map. rewrite filter_all by (intros ec _; reflexivity). apply interleave_right. }
      assert (Hitems : Forall (MergeDescent.item_ok s t) (ipairs s t ll)).
      { apply Forall_forall. intros [e0 y] Hx.
        pose proof (ipairs_in s t _ e0 y Hx) as [Hiny Hpey].
        assert (Hw0 : wf_pe e0 = true) by (apply (HiwL y e0 Hiny Hpey)).
        split; [exact Hw0|]. exists e0. simpl. split; [exact Hpey|]. split; [exact Hw0|].
        apply peeqb_refl. exact Hw0. }
      pose proof (order_list_case s t ll [] (fun _ => VNull) (ipairs s t ll) HiwL HiwR HdisL eq_refl Hil Hitems n) as H.
      rewrite (ipairs_snd s t ll HpeL) in H. apply H.
      + intros e0 [].
      + intros e0 c Hin. pose proof (ipairs_in s t _ e0 c Hin) as [Hinc _].
        apply IH; [exact HRelem| |].
        * rewrite forallb_forall in Hwll. apply Hwll. exact Hinc.
        * rewrite forallb_forall in HallL. apply HallL. exact Hinc.
    - apply order_ok_leaf. unfold RemoveFrame.leafy. rewrite Ek. exact I.
  Qed.

  (* the three ways the walker treats a present right-hand side, with the kind of R in the
     first *)
  Lemma merge_cases_leafy : forall f tr dup lo r out,
    conforms s tr dup r = true ->
    merge_w (S f) s tr lo (Some r) = (false, Some out) ->
    (out = r /\ RemoveFrame.leafy s tr r) \/
    (exists a mt, resolve s tr = Some a /\ atom_map a = Some mt /\
       rel_is_atomic (map_rel mt) = false /\ (dm lo <> [] \/ dm (Some r) <> []) /\
       merge_map f s mt lo (Some r) = (false, Some out)) \/
    (exists a t, resolve s tr = Some a /\ atom_list a = Some t /\
       rel_is_atomic (list_rel t) = false /\ (dl lo <> [] \/ dl (Some r) <> []) /\
       merge_list f s t lo (Some r) = (false, Some out)).
  Proof.
    intros f tr dup lo r out Hc H.
    destruct (conforms_resolve s tr dup r Hc) as [a [Hr Hne]].
    pose proof (merge_w_rhs f s tr a lo r out Hr H) as Hh.
    pose proof (rhs_handler s tr a dup r Hr Hc) as Hk.
    destruct (handle_atom (deduce_atom a (Some r))) as [mt|t|t|] eqn:Eh; unfold handle in Hh.
    - destruct Hk as [Hm Hshape]. destruct a as [sc li ma]. simpl in Hm. subst ma.
      destruct (rel_is_atomic (map_rel mt)) eqn:Ea.
      + left. unfold merge_map in Hh. rewrite Ea in Hh. simpl in Hh. assert (Eo : out = r) by (inversion Hh; reflexivity). split; [exact Eo|]. clear Eo.
        unfold RemoveFrame.leafy, kind_of. rewrite Hr.
        destruct Hshape as [->|[m ->]]; [exact I|]. rewrite Ea. exact I.
      + destruct (is_empty_l (deref_map lo) && is_empty_l (deref_map (Some r))) eqn:Ee.
        * left. unfold merge_map in Hh. rewrite Ea, Ee in Hh. simpl in Hh. assert (Eo : out = r) by (inversion Hh; reflexivity). split; [exact Eo|]. clear Eo.
          unfold RemoveFrame.leafy, kind_of. rewrite Hr.
          destruct Hshape as [->|[m ->]]; [exact I|]. rewrite Ea.
          apply andb_true_iff in Ee. destruct Ee as [_ Ee]. simpl in Ee.
          destruct m; [exact I|discriminate].
        * right. left. exists (Atom sc li (Some mt)), mt. repeat split; auto. apply dm_nonempty. exact Ee.
    - left. rewrite Hk, andb_false_r in Hh. assert (Eo : out = r) by (inversion Hh; reflexivity). split; [exact Eo|]. clear Eo.
      unfold RemoveFrame.leafy, kind_of. rewrite Hr. destruct a as [sc li ma].
      destruct r as [| | | | |l0|m0]; try (destruct sc; exact I);
        destruct t; simpl in Hk; discriminate.
    - destruct Hk as [Hl Hshape]. destruct a as [sc li ma]. simpl in Hl. subst li.
      destruct (rel_is_atomic (list_rel t)) eqn:Ea.
      + left. unfold merge_list in Hh. rewrite Ea in Hh. simpl in Hh. assert (Eo : out = r) by (inversion Hh; reflexivity). split; [exact Eo|]. clear Eo.
        unfold RemoveFrame.leafy, kind_of. rewrite Hr.
        destruct Hshape as [->|[l0 ->]]; [exact I|]. rewrite Ea. exact I.
      + destruct (is_empty_l (deref_list lo) && is_empty_l (deref_list (Some r))) eqn:Ee.
        * left. unfold merge_list in Hh. rewrite Ea, Ee in Hh. simpl in Hh. assert (Eo : out = r) by (inversion Hh; reflexivity). split; [exact Eo|]. clear Eo.
          unfold RemoveFrame.leafy, kind_of. rewrite Hr.
          destruct Hshape as [->|[l0 ->]]; [exact I|]. rewrite Ea.
          apply andb_true_iff in Ee. destruct Ee as [_ Ee]. simpl in Ee.
          destruct l0; [exact I|discriminate].
        * right. right. exists (Atom sc (Some t) ma), t. repeat split; auto. apply dl_nonempty. exact Ee.
    - contradiction.
  Qed.

  Lemma order_w : forall f tr lo ro out n, R tr -> odepth lo + odepth ro < f ->
    oconf s tr false lo -> oconf s tr false ro -> (lo <> None \/ ro <> None) ->
    merge_w f s tr lo ro = (false, Some out) ->
    order_ok n s tr lo ro (Some out) = true.
  Proof.
    induction f as [|f IH]; intros tr lo ro out n HR Hd Hcl Hcr Hsome Hm; [lia|].
    destruct n as [|n]; [reflexivity|].
    destruct ro as [r|].
    2:{ destruct lo as [l|]; [|destruct Hsome; congruence].
        destruct Hcl as [Hcl Hwl].
        rewrite (merge_absent_right s R Hok Hfam (S f) tr l HR) in Hm; auto;
          [|simpl in Hd; lia|apply conforms_dup_mono; exact Hcl].
        inversion Hm; subst out. apply order_left_only; assumption. }
    destruct Hcr as [Hcr Hwr].
    pose proof (oconf_mono s tr lo Hcl) as Hcl1.
    destruct (merge_cases_leafy f tr false lo r out Hcr Hm)
      as [[Heq Hleaf]|[(a & mt & Hr & Hmt & Hna & Hne & Hmm)|(a & t & Hr & Hlt & Hna & Hne & Hml)]].
    - subst out. apply order_ok_leaf. exact Hleaf.
    - (* granular map *)
      destruct (map_descent s R Hok Hfam f tr a mt lo (Some r) out HR Hr Hmt Hd Hcl1
                  (conj Hcr Hwr) Hna Hne Hmm) as (g & Hout & Hkne & Hg).
      set (keys := keys_union (map fst (dm lo)) (map fst (dm (Some r)))) in *.
      pose proof (kind_of_map s tr a mt _ Hr Hmt Hna (built_nonempty g keys Hkne)) as Hko.
      rewrite <- Hout in Hko.
      rewrite (order_ok_map n s tr lo (Some r) out mt _ Hko).
      apply forallb_forall. intros kv Hin. apply in_map_iff in Hin. destruct Hin as (k & <- & Hk).
      cbn [fst snd].
      destruct (map_sub s R Hok f tr a mt lo (Some r) k HR Hr Hmt Hd Hcl1 (conj Hcr Hwr) Hne Hk)
        as (H1 & H2 & _ & _ & H5).
      apply (IH (field_type mt k) _ _ (g k) n H1 H2).
      + apply (oconf_dm s tr false a mt lo k Hr Hmt Hcl).
      + apply (oconf_dm s tr false a mt (Some r) k Hr Hmt (conj Hcr Hwr)).
      + exact H5.
      + apply Hg. exact Hk.
    - (* granular list *)
      pose proof (list_rel_assoc t (Hfam tr a t HR Hr Hlt) Hna) as Hrel.
      destruct (list_descent s R Hok Hfam f tr a t lo (Some r) out HR Hr Hlt Hd Hcl1
                  (conj Hcr Hwr) Hna Hne Hml) as (gR & tl & Hout & Htlne & Hil & HgR).
      destruct (list_descent_items s R Hok Hfam f tr a t lo (Some r) gR tl HR Hr Hlt Hd Hcl1
                  (conj Hcr Hwr) Hrel Hil HgR) as (Hitems & HA).
      destruct (oconf_dl s tr a t false lo Hr Hlt Hrel Hcl) as (HpeL & HallL & HwL & HdisL).
      destruct (oconf_dl s tr a t false (Some r) Hr Hlt Hrel (conj Hcr Hwr)) as (HpeR & HallR & HwR & HdisR).
      specialize (HdisL eq_refl). specialize (HdisR eq_refl).
      pose proof (so_list s R Hok tr a t HR Hr Hlt) as HRelem.
      assert (HiwL : items_wf s t (dl lo)) by (apply (items_wf_of s R Hok tr a t _ HR Hr Hlt); exact HwL).
      assert (HiwR : items_wf s t (dl (Some r))) by (apply (items_wf_of s R Hok tr a t _ HR Hr Hlt); exact HwR).
      assert (Hmne : map snd tl <> []) by (apply map_snd_nonempty; exact Htlne).
      pose proof (kind_of_list s tr a t _ Hr Hlt Hna Hmne) as Hko.
      rewrite <- Hout in Hko.
      rewrite (order_ok_list n s tr lo (Some r) out t _ Hko).
      apply (order_list_case s t (dl lo) (dl (Some r)) gR tl HiwL HiwR HdisL HdisR Hil Hitems n).
      + intros e0 He0.
        destruct (HA e0 He0) as (c & Hinc & Hpec & Hlf & Hcc & Hwc & _).
        assert (He0w : wf_pe e0 = true) by (apply (HiwR c e0 Hinc Hpec)).
        pose proof (HgR e0 He0) as Hme.
        destruct (obsL_ok s tr a t lo e0 Hr Hlt Hrel Hcl1) as (_ & Ho2 & _).
        pose proof (dl_depth_in (Some r) c Hinc) as Hdc.
        rewrite Hlf in Hme |- *.
        apply (IH (list_elem t) _ _ (gR e0) n HRelem); [cbn [odepth] in Hd, Hdc, Ho2 |- *; lia| |split; assumption|right; congruence|exact Hme].
        rewrite (obsL_lfind s t (dl lo) HiwL HdisL e0 He0w).
        destruct (lfind s t e0 (dl lo)) as [x|] eqn:Elx; [|exact I].
        apply lfind_some in Elx. destruct Elx as (e' & Hin' & _).
        apply ipairs_in in Hin'. destruct Hin' as [Hinx _].
        split.
        * rewrite forallb_forall in HallL. apply HallL. exact Hinx.
        * rewrite forallb_forall in HwL. apply HwL. exact Hinx.
      + intros e0 c Hin. pose proof (ipairs_in s t _ e0 c Hin) as [Hinc _].
        apply order_left_only; [exact HRelem| |].
        * rewrite forallb_forall in HwL. apply HwL. exact Hinc.
        * rewrite forallb_forall in HallL. apply HallL. exact Hinc.
  Qed.
End Order.

Theorem merge_order : forall s R tr l r out,
  schema_ok s R -> family_refs s R -> R tr ->
  wf_value l = true -> wf_value r = true ->
  conforms s tr false l = true -> conforms s tr false r = true -> plain l = true -> plain r = true ->
  merge s tr l r = Some (Some out) ->
  order_ok (merge_fuel l out) s tr (Some l) (Some r) (Some out) = true.
Proof.
  intros s R tr l r out Hok Hfam HR Hwl Hwr Hcl Hcr _ _ Hm.
  apply merge_inv in Hm.
  apply (order_w s R Hok Hfam (merge_fuel l r) tr (Some l) (Some r) out (merge_fuel l out) HR).
  - unfold merge_fuel. simpl. lia.
  - split; assumption.
  - split; assumption.
  - left. discriminate.
  - exact Hm.
Qed.
