(* C07 (extract and apply back): the field set of the extract of a record is the record.
   For a valid duplicate-free object [live] and a well-formed set S (a manager's record) whose
   members are nodes of [live] and which is in step with the key fields [key_sync], IF
     (i)   every leaf of S designates a leaf of [live]                         [leaves_are_leaves]
     (ii)  S holds, with a member, every prefix of it that a field set records because of
           its last element: a list member, or a key of a map that is not a declared field
                                                                                [prefix_closed]
     (iii) a member of S that has another member beneath it is such a path     [interior_class]
   and the extract ExtractItems(leaves of S, WithAppendKeyFields) is a plain valid object,
   then the field set of the extract has exactly the members of S.  [extract_field_set]
   Since the repair of the extracting walker (finding F27: it now descends into a selected
   entry or member with the selection beneath it) (i) follows from the other hypotheses,
   the extract being plain and valid  [plain_extract_leaves_are_leaves]; the theorem without
   (i) is [extract_field_set_plain].
   (ii) and (iii) speak of S and the schema only; the field set of every plain valid
   configuration satisfies them [field_set_closed], and so does every subset of such a
   set as far as (iii) is concerned. *)
From Coq Require Import List ZArith String Bool Arith Lia.
From SMD Require Import Model.Value Model.Order Model.PathElem Model.PathSet Model.Schema Model.Walk
  Model.Validate Model.FieldSet Model.Remove
  Spec.PathsAsSets Spec.RefValid Spec.Resolve Spec.Agree
  Proofs.OrderLaws Proofs.KeyLaws Proofs.PathSetLaws Proofs.ValidateLaws Proofs.SchemaOk
  Proofs.FieldSetMirrors Proofs.FieldSetBase Proofs.FieldSetShape Proofs.FieldSetPaths
  Proofs.FieldSetLaws Proofs.RemoveBase Proofs.ExtractBase Proofs.ExtractLaws Proofs.RemoveAbsent
  Proofs.RemoveWf Proofs.ResolveLaws Proofs.ReconcileBase Proofs.RemoveFrame
  Proofs.NodeSet Proofs.KeyFields Proofs.TreeFacts Proofs.SetCheckers Proofs.EnLaws
  Proofs.PartBase Proofs.PartExtract Proofs.PartSel Proofs.MergeDescent
  Proofs.MergeRest2a Proofs.KeySync
  Proofs.ExtractBackDup Proofs.ExtractBackMerge Proofs.ExtractBackNodes.
From SMD Require Proofs.MergeBase Proofs.MergeRest Proofs.OthersKeep.
Import ListNotations.
Open Scope bool_scope.
Open Scope list_scope.

Local Arguments ps_has : simpl never.
Local Arguments ps_with_prefix : simpl never.
Local Arguments ps_empty : simpl never.

(* ================= paths ================= *)

Lemma is_prefix_trans : forall a b c, wf_path a = true -> wf_path b = true -> wf_path c = true ->
  is_prefix a b = true -> is_prefix b c = true -> is_prefix a c = true.
Proof.
  induction a as [|x a IH]; intros [|y b] [|z c] Ha Hb Hc H1 H2; simpl in *; try discriminate; try reflexivity.
  apply andb_true_iff in H1. destruct H1 as [Hxy H1]. apply andb_true_iff in H2. destruct H2 as [Hyz H2].
  apply wf_path_cons in Ha. apply wf_path_cons in Hb. apply wf_path_cons in Hc.
  rewrite (MergeBase.peeqb_trans x y z) by tauto. apply (IH b c); tauto.
Qed.

Lemma firstn_app_len : forall (A : Type) (l1 l2 : list A), firstn (List.length l1) (l1 ++ l2) = l1.
Proof. intros A l1 l2. induction l1 as [|x l1 IH]; [reflexivity|]. simpl. rewrite IH. reflexivity. Qed.

(* every member of a set extends to a leaf of the set *)
Lemma leaves_extend : forall S q, ps_ok S = true -> wf_path q = true -> ps_has q S = true ->
  exists q2, wf_path q2 = true /\ ps_has (q ++ q2) (ps_leaves S) = true.
Proof.
  intros S q HS Hq Hh.
  pose proof (ps_elems_wf S HS) as Hall. rewrite forallb_forall in Hall.
  set (L := filter (is_prefix q) (ps_elems S)).
  assert (HLne : L <> []).
  { rewrite (ps_has_elems S q HS Hq) in Hh. unfold pmem in Hh. apply existsb_exists in Hh.
    destruct Hh as (q' & Hin & Heq). intros E.
    assert (Hin' : In q' L).
    { apply filter_In. split; [exact Hin|].
      apply (MergeRest.is_prefix_of_patheqb q q' (Hall q' Hin) Hq).
      rewrite (patheqb_sym q' q (Hall q' Hin) Hq). exact Heq. }
    rewrite E in Hin'. destruct Hin'. }
  destruct (max_length_exists L HLne) as (t & Ht & Hmax).
  apply filter_In in Ht. destruct Ht as [Htin Hqt].
  pose proof (Hall t Htin) as Hwt.
  assert (Hleaf : ps_has t (ps_leaves S) = true).
  { destruct (ps_leaves_spec S HS) as [_ Hlv]. rewrite (Hlv t Hwt).
    rewrite (ps_has_elems S t HS Hwt), (pmem_refl_in t _ Hwt Htin). cbn [andb].
    apply negb_true_iff. destruct (existsb (fun u => proper_prefix t u) (ps_elems S)) eqn:E; [|reflexivity].
    exfalso. apply existsb_exists in E. destruct E as (u & Hu & Hpp).
    pose proof (proper_prefix_length t u Hpp) as Hlen.
    unfold proper_prefix in Hpp. apply andb_true_iff in Hpp. destruct Hpp as [Hpre _].
    assert (HuL : In u L).
    { apply filter_In. split; [exact Hu|]. apply (is_prefix_trans q t u Hq Hwt (Hall u Hu) Hqt Hpre). }
    specialize (Hmax u HuL). lia. }
  exists (skipn (List.length q) t). split.
  - rewrite <- (firstn_skipn (List.length q) t) in Hwt. apply wf_path_app in Hwt. apply Hwt.
  - destruct (ps_leaves_spec S HS) as [Hlok _].
    rewrite <- Hleaf. apply (ps_has_patheqb _ _ _ Hlok).
    + apply wf_path_app. split; [exact Hq|].
      rewrite <- (firstn_skipn (List.length q) t) in Hwt. apply wf_path_app in Hwt. apply Hwt.
    + exact Hwt.
    + rewrite <- (firstn_skipn (List.length q) t) at 2.
      apply patheqb_app2; [apply OthersKeep.is_prefix_patheqb_firstn; exact Hqt|].
      apply patheqb_refl.
      rewrite <- (firstn_skipn (List.length q) t) in Hwt. apply wf_path_app in Hwt. apply Hwt.
Qed.

(* ================= the conditions on a record ================= *)

Definition prefix_closed (s : schema) (tr : typeref) (S : pset) : Prop :=
  forall q q2, wf_path (q ++ q2) = true -> q2 <> [] -> ps_has (q ++ q2) S = true ->
    last_keyval q \/ last_unnamed s tr q -> ps_has q S = true.

Definition interior_class (s : schema) (tr : typeref) (S : pset) : Prop :=
  forall q q2, wf_path (q ++ q2) = true -> q2 <> [] -> ps_has q S = true ->
    ps_has (q ++ q2) S = true -> last_keyval q \/ last_unnamed s tr q.

Definition leaves_are_leaves (s : schema) (tr : typeref) (v : value) (S : pset) : Prop :=
  forall t, wf_path t = true -> ps_has t (ps_leaves S) = true ->
    exists tr' x, resolve_path s tr v t = Some (RNode tr' x) /\ leafy s tr' x.

Section SetEq.
  Variables (s : schema) (R : typeref -> Prop).
  Hypothesis Hok : schema_ok s R.
  Hypothesis Hfam : family_refs s R.
  Hypothesis Hnd : keys_nodefault s R.
  Hypothesis Hks : keys_scalar s R.

  (* ---------- nodes of a valid duplicate-free object ---------- *)
  Lemma okx_step : forall tr x e rest n, okx s R tr x -> wf_pe e = true ->
    resolve_path s tr x (e :: rest) = Some n ->
    exists ft c, okx s R ft c /\ forall rest', resolve_path s tr x (e :: rest') = resolve_path s ft c rest'.
  Proof.
    intros tr x e rest n Hx He Hres. pose proof Hx as (Htr & Hw & Hc & Hdf).
    destruct (kind_of s tr x) as [|t m|t l|] eqn:Ek;
      try (rewrite resolve_path_leaf in Hres by (rewrite Ek; exact I); discriminate).
    - destruct (kind_map_inv _ _ _ _ _ Ek) as (a & Hr & Ham & Hv & _ & _). subst x.
      destruct a as [sc li ma]. simpl in Ham. subst ma.
      destruct e as [k|fl|ev|i];
        try (rewrite (resolve_path_map_other _ _ _ _ _ _ _ Ek) in Hres by exact I; discriminate).
      rewrite (resolve_path_map _ _ _ _ _ _ _ Ek) in Hres.
      destruct (assoc_get k m) as [c|] eqn:Eg; [|discriminate].
      pose proof (assoc_get_In m k c Eg) as Hin.
      exists (field_type t k), c. split.
      + split; [apply (so_map s R Hok tr _ t k Htr Hr eq_refl)|].
        split; [apply (wf_value_map_in m k c Hw Hin)|]. split.
        * rewrite conforms_eq, Hr in Hc. eapply cmap_each_in; eauto.
        * apply (dup_free_map s tr (VMap m) t m k c Ek Hdf Hin).
      + intros rest'. rewrite (resolve_path_map _ _ _ _ _ _ _ Ek), Eg. reflexivity.
    - destruct (kind_list_inv _ _ _ _ _ Ek) as (a & Hr & Hal & Hv & _ & _). subst x.
      destruct a as [sc li ma]. simpl in Hal. subst li.
      destruct (conf_list_facts s R Hok Hfam tr true t l Htr Hc Ek)
        as (sc1 & ma1 & _ & HRe & _ & _ & Hpe & Hall & _).
      destruct (dup_free_list s R Hok tr (VList l) t l Htr Hw Ek Hdf) as (_ & Hdis & Hdfl).
      assert (Hiw : items_wf s t l) by (apply (items_wf_R s R Hok t l HRe); exact Hw).
      rewrite (resolve_path_list_occ s R Hok tr _ t l e rest Htr Hw Ek He), Hpe in Hres.
      destruct (is_keyval e) eqn:Ekv; [|discriminate]. cbn [andb] in Hres.
      pose proof (distinct_occ s t l e Hdis Hiw He) as Hlen.
      destruct (occ s t e l) as [|c [|c2 more]] eqn:Eo; [discriminate| |simpl in Hlen; discriminate].
      assert (Hcin : In c (occ s t e l)) by (rewrite Eo; left; reflexivity).
      apply occ_In in Hcin. destruct Hcin as [Hcl _].
      exists (list_elem t), c. split.
      + split; [exact HRe|]. split; [apply (wf_value_list_in l c Hw Hcl)|]. split.
        * rewrite forallb_forall in Hall. apply Hall. exact Hcl.
        * apply Hdfl. exact Hcl.
      + intros rest'. rewrite (resolve_path_list_occ s R Hok tr _ t l e rest' Htr Hw Ek He), Hpe, Ekv, Eo.
        reflexivity.
  Qed.

  (* no group of duplicates *)
  Lemma okx_resolve : forall p tr x n, okx s R tr x -> wf_path p = true ->
    resolve_path s tr x p = Some n -> exists t v, n = RNode t v /\ okx s R t v.
  Proof.
    induction p as [|e rest IH]; intros tr x n Hx Hp Hres.
    - simpl in Hres. inversion Hres. eauto.
    - apply wf_path_cons in Hp. destruct Hp as [He Hrest].
      destruct (okx_step tr x e rest n Hx He Hres) as (ft & c & Hc & Hstep).
      rewrite Hstep in Hres. apply (IH ft c n Hc Hrest Hres).
  Qed.

  (* the nodes of a plain object are plain *)
  Lemma plain_resolve : forall p v tr dup t x, R tr -> wf_value v = true ->
    conforms s tr dup v = true -> plain v = true -> wf_path p = true ->
    resolve_path s tr v p = Some (RNode t x) -> plain x = true.
  Proof.
    induction p as [|e rest IH]; intros v tr dup t x Htr Hw Hc Hpl Hp Hres.
    - simpl in Hres. inversion Hres; subst. exact Hpl.
    - apply wf_path_cons in Hp. destruct Hp as [He Hrest].
      destruct (kind_of s tr v) as [|tm m|tl l|] eqn:Ek;
        try (rewrite resolve_path_leaf in Hres by (rewrite Ek; exact I); discriminate).
      + destruct (kind_map_inv _ _ _ _ _ Ek) as (a & Hr & Ham & Hv & _ & _). subst v.
        destruct a as [sc li ma]. simpl in Ham. subst ma.
        destruct e as [k|fl|ev|i];
          try (rewrite (resolve_path_map_other _ _ _ _ _ _ _ Ek) in Hres by exact I; discriminate).
        rewrite (resolve_path_map _ _ _ _ _ _ _ Ek) in Hres.
        destruct (assoc_get k m) as [c|] eqn:Eg; [|discriminate].
        pose proof (assoc_get_In m k c Eg) as Hin.
        apply (IH c (field_type tm k) dup t x); auto.
        * apply (so_map s R Hok tr _ tm k Htr Hr eq_refl).
        * apply (wf_value_map_in m k c Hw Hin).
        * rewrite conforms_eq, Hr in Hc. eapply cmap_each_in; eauto.
        * apply (plain_map_in m k c Hpl Hin).
      + destruct (kind_list_inv _ _ _ _ _ Ek) as (a & Hr & Hal & Hv & _ & _). subst v.
        destruct (conf_list_facts s R Hok Hfam tr dup tl l Htr Hc Ek)
          as (sc1 & ma1 & _ & HRe & _ & _ & Hpe & Hall & _).
        rewrite (resolve_path_list_occ s R Hok tr _ tl l e rest Htr Hw Ek He), Hpe in Hres.
        destruct (is_keyval e); [|discriminate]. cbn [andb] in Hres.
        destruct (occ s tl e l) as [|c [|c2 more]] eqn:Eo; [discriminate| |destruct rest; discriminate].
        assert (Hcin : In c (occ s tl e l)) by (rewrite Eo; left; reflexivity).
        apply occ_In in Hcin. destruct Hcin as [Hcl _].
        apply (IH c (list_elem tl) dup t x); auto.
        * apply (wf_value_list_in l c Hw Hcl).
        * rewrite forallb_forall in Hall. apply Hall. exact Hcl.
        * apply (plain_list_in l c Hpl Hcl).
  Qed.

  (* ---------- the selection ExtractItems walks with ---------- *)

  (* membership in [with_keys]: a member of S, or a key field of a list member on a path of S *)
  Lemma with_keys_mem : forall fs S q, ps_ok S = true -> wf_path q = true -> q <> [] ->
    ps_has q (with_keys fs S) = true ->
    ps_has q S = true \/
    exists p i fl k, wf_path p = true /\ ps_has p S = true /\ nth_error p i = Some (PEKey fl) /\
      In k (map fst fl) /\ patheqb q (firstn i p ++ [PEKey fl; PEField k]) = true.
  Proof.
    intros fs S q HS Hq Hqne H.
    pose proof (key_extra_wf fs S HS) as Hxw.
    destruct (ps_union_spec S _ HS (ps_of_paths_ok _ Hxw)) as [_ Hu].
    unfold with_keys in H. rewrite (Hu q Hq) in H. apply orb_true_iff in H.
    destruct H as [H|H]; [left; exact H|right].
    rewrite (ps_has_of_paths _ q Hxw Hq Hqne) in H.
    pose proof (ps_elems_wf S HS) as Hall. rewrite forallb_forall in Hall.
    unfold pmem in H. apply existsb_exists in H. destruct H as (kp & Hkp & Heq).
    unfold key_extra in Hkp. apply in_flat_map in Hkp. destruct Hkp as (p & Hp & Hkp).
    destruct (ps_has p fs); [|contradiction].
    apply kfp_spec in Hkp. destruct Hkp as (i & fl & k & Hn & Hk & ->). cbn [app] in Heq.
    exists p, i, fl, k. repeat split; auto.
    rewrite (ps_has_elems S p HS (Hall p Hp)). apply pmem_refl_in; auto.
  Qed.

  Variables (tr : typeref) (live : value) (Sr : pset).
  Hypothesis Hx : okx s R tr live.
  Hypothesis HS : ps_ok Sr = true.
  Hypothesis Hpres : members_present s tr live Sr.
  Hypothesis Hsync : key_sync s tr live Sr.

  Let Htr : R tr := proj1 Hx.
  Let Hwl : wf_value live = true := proj1 (proj2 Hx).
  Let Hcl : conforms s tr true live = true := proj1 (proj2 (proj2 Hx)).

  Let Sl := ps_leaves Sr.
  Let HSl : ps_ok Sl = true := proj1 (ps_leaves_spec Sr HS).

  Lemma leaf_member : forall p, wf_path p = true -> ps_has p Sl = true -> ps_has p Sr = true.
  Proof.
    intros p Hp Hh. pose proof (ps_leaves_spec Sr HS) as [_ Hlv]. unfold Sl in Hh. rewrite (Hlv p Hp) in Hh.
    apply andb_true_iff in Hh. apply Hh.
  Qed.

  (* ---------- (i) follows from the extract being plain (after the F27 repair) ---------- *)

  (* nothing of Sr lies strictly beneath a leaf of Sr *)
  Lemma leaf_no_longer : forall t u, wf_path t = true -> wf_path u = true ->
    ps_has t Sl = true -> ps_has u Sr = true -> is_prefix t u = true ->
    List.length t < List.length u -> False.
  Proof.
    intros t u Ht Hu Hlf Hh Hpre Hlen.
    pose proof (ps_leaves_spec Sr HS) as [_ Hlv]. unfold Sl in Hlf. rewrite (Hlv t Ht) in Hlf.
    apply andb_true_iff in Hlf. destruct Hlf as [_ Hnone]. apply negb_true_iff in Hnone.
    rewrite (ps_has_elems Sr u HS Hu) in Hh. unfold pmem in Hh. apply existsb_exists in Hh.
    destruct Hh as (u0 & Hin & Heq).
    pose proof (ps_elems_wf Sr HS) as Hall. rewrite forallb_forall in Hall.
    assert (Hpp : proper_prefix t u0 = true).
    { rewrite <- (proper_prefix_cong t u u0 Ht Hu (Hall u0 Hin) Heq). unfold proper_prefix.
      rewrite Hpre. cbn [andb]. apply negb_true_iff. apply Nat.eqb_neq. lia. }
    assert (existsb (fun q0 => proper_prefix t q0) (ps_elems Sr) = true).
    { apply existsb_exists. exists u0. auto. }
    congruence.
  Qed.

  (* The selection ExtractItems walks with holds nothing strictly beneath a leaf of Sr that
     designates a granular node of the object: the only candidates are the key fields of a
     list member, and the record holds those with the member [key_sync]. *)
  Lemma with_keys_nothing_beneath : forall fs t ft c q, wf_path t = true -> ps_has t Sl = true ->
    resolve_path s tr live t = Some (RNode ft c) -> granular s ft c ->
    wf_path q = true -> q <> [] -> ps_has (t ++ q) (with_keys fs Sl) = false.
  Proof.
    intros fs t ft c q Ht Hlf Eres Hg Hq Hqne.
    destruct (ps_has (t ++ q) (with_keys fs Sl)) eqn:E; [|reflexivity]. exfalso.
    assert (Hwtq : wf_path (t ++ q) = true) by (apply wf_path_app; auto).
    assert (Htqne : t ++ q <> []) by (destruct t; [simpl; exact Hqne|discriminate]).
    assert (Hlq : List.length t < List.length (t ++ q)).
    { rewrite app_length. destruct q; [congruence|simpl; lia]. }
    destruct (with_keys_mem fs Sl (t ++ q) HSl Hwtq Htqne E)
      as [Hm|(p & i & fl & k & Hp & Hm & Hn & Hk & Heq)].
    - apply (leaf_no_longer t (t ++ q) Ht Hwtq Hlf (leaf_member _ Hwtq Hm)
               (is_prefix_app t q Ht) Hlq).
    - pose proof (leaf_member p Hp Hm) as HpS.
      apply nth_error_split in Hn. destruct Hn as (pre & rest & Ep & Hlen).
      assert (Hfi : firstn i p = pre) by (subst p i; apply firstn_app_len).
      rewrite Hfi in Heq.
      assert (HwP : wf_path (pre ++ [PEKey fl; PEField k]) = true).
      { subst p. apply wf_path_app in Hp. destruct Hp as [H1 H2]. apply wf_path_cons in H2.
        apply wf_path_app. split; [exact H1|]. apply wf_path_cons. split; [tauto|reflexivity]. }
      assert (Hwitem : wf_path (pre ++ [PEKey fl]) = true).
      { apply wf_path_app in HwP. destruct HwP as [H1 H2]. apply wf_path_cons in H2.
        apply wf_path_app. split; [exact H1|]. apply wf_path_cons. split; [tauto|reflexivity]. }
      pose proof (patheqb_length _ _ Heq) as Hlt. rewrite !app_length in Hlt. cbn [List.length] in Hlt.
      assert (Hql : 1 <= List.length q) by (destruct q; [congruence|simpl; lia]).
      set (j := List.length t) in *.
      (* t is, up to Equals, a prefix of p *)
      assert (Hfj : patheqb t (firstn j p) = true).
      { assert (E1 : firstn j (pre ++ [PEKey fl; PEField k]) = firstn j p).
        { subst p.
          replace (pre ++ [PEKey fl; PEField k]) with ((pre ++ [PEKey fl]) ++ [PEField k])
            by (rewrite <- app_assoc; reflexivity).
          replace (pre ++ PEKey fl :: rest) with ((pre ++ [PEKey fl]) ++ rest)
            by (rewrite <- app_assoc; reflexivity).
          rewrite !(firstn_app j (pre ++ [PEKey fl])). rewrite app_length. cbn [List.length].
          replace (j - (List.length pre + 1)) with 0 by lia. cbn [firstn]. reflexivity. }
        rewrite <- E1. rewrite <- (firstn_app_len _ t q) at 1. fold j.
        apply patheqb_firstn. exact Heq. }
      assert (Hwfj : wf_path (firstn j p) = true) by (apply wf_path_firstn; exact Hp).
      assert (Hpre : is_prefix t p = true).
      { apply (is_prefix_trans t (firstn j p) p Ht Hwfj Hp).
        - apply (MergeRest.is_prefix_of_patheqb t (firstn j p) Hwfj Ht).
          apply patheqb_sym_true; auto.
        - apply is_prefix_firstn. exact Hp. }
      destruct (Nat.lt_ge_cases j (List.length p)) as [Hjl|Hjl].
      + apply (leaf_no_longer t p Ht Hp Hlf HpS Hpre Hjl).
      + (* t is the member itself: its key fields are in the record *)
        assert (Hpl : List.length p = List.length pre + 1).
        { pose proof (is_prefix_length t p Hpre) as H0. fold j in H0.
          assert (List.length p = List.length pre + S (List.length rest))
            by (rewrite Ep, app_length; reflexivity). lia. }
        assert (Hrest : rest = []).
        { assert (List.length p = List.length pre + S (List.length rest))
            by (rewrite Ep, app_length; reflexivity).
          destruct rest; [reflexivity|simpl in *; lia]. }
        subst rest.
        rewrite firstn_all2 in Hfj by lia.
        rewrite (resolve_patheqb s R Hok t p Hfj Ht Hp live tr Htr Hwl), Ep in Eres.
        destruct (item_key_explicit s R Hok Hfam Hnd pre fl k live tr true ft c Htr Hwl Hcl Hwitem Eres Hk)
          as (m & val & -> & Eg).
        assert (Ek : exists tm, kind_of s ft (VMap m) = KMap tm m).
        { unfold granular in Hg. destruct (kind_of s ft (VMap m)) as [|tm m'|tl l'|] eqn:Ek; try contradiction.
          - destruct (kind_map_inv _ _ _ _ _ Ek) as (_ & _ & _ & Hv & _). inversion Hv; subst m'.
            exists tm. reflexivity.
          - destruct (kind_list_inv _ _ _ _ _ Ek) as (_ & _ & _ & Hv & _). discriminate. }
        destruct Ek as (tm & Ek).
        assert (Hpr : present s tr live (pre ++ [PEKey fl; PEField k]) = true).
        { unfold present. rewrite app2, resolve_path_app, Eres.
          rewrite (resolve_path_map _ _ _ _ _ _ _ Ek), Eg. reflexivity. }
        pose proof (Hsync pre fl k HwP Hk Hpr) as Hks'. rewrite <- Ep, HpS in Hks'.
        apply (leaf_no_longer t (pre ++ [PEKey fl; PEField k]) Ht HwP Hlf (eq_sym Hks')).
        * rewrite app2, <- Ep.
          apply (is_prefix_trans t p (p ++ [PEField k]) Ht Hp); auto.
          -- apply wf_path_app. split; [exact Hp|reflexivity].
          -- apply is_prefix_app. exact Hp.
        * rewrite app_length. cbn [List.length]. fold j. lia.
  Qed.

  (* every leaf of the record designates a leaf of the object, when the extract is a plain
     valid object: a granular node selected with nothing beneath it is extracted as null *)
  Lemma plain_leaves_are_leaves : forall fs,
    oky s tr (remove_items s true tr (with_keys fs Sl) live) -> leaves_are_leaves s tr live Sr.
  Proof.
    intros fs Hy t Ht Hlf. fold Sl in Hlf.
    pose proof (leaf_member t Ht Hlf) as HtS.
    pose proof (Hpres t Ht HtS) as Hpr. unfold present in Hpr.
    destruct (resolve_path s tr live t) as [n|] eqn:Eres; [|discriminate].
    destruct (okx_resolve t tr live n Hx Ht Eres) as (ft & c & -> & Hxc).
    exists ft, c. split; [reflexivity|].
    destruct (leafy_or_granular s ft c) as [Hl|Hg]; [exact Hl|].
    apply (xt_selected_leafy s R Hok Hfam Hnd Hks t live tr (with_keys fs Sl) ft c Hx
             (with_keys_ok fs Sl HSl) Hy Ht (has_nonnil _ _ HtS)).
    - destruct (ps_union_spec Sl _ HSl (ps_of_paths_ok _ (key_extra_wf fs Sl HSl))) as [_ Hu].
      unfold with_keys. rewrite (Hu t Ht), Hlf. reflexivity.
    - intros q Hq Hqne. apply (with_keys_nothing_beneath fs t ft c q Ht Hlf Eres Hg Hq Hqne).
    - exact Eres.
  Qed.

  Hypothesis Hleaf : leaves_are_leaves s tr live Sr.
  Hypothesis Hclosed : prefix_closed s tr Sr.
  Hypothesis Hcls : interior_class s tr Sr.

  (* what is needed of the selection *)
  Record tsel (T : pset) : Prop := mkTsel {
    ts_ok : ps_ok T = true;
    ts_sub : forall p, wf_path p = true -> ps_has p Sl = true -> ps_has p T = true;
    ts_node : forall t n, wf_path t = true -> ps_has t T = true -> resolve_path s tr live t = Some n ->
      ps_has t Sr = true /\ rnode_is_leaf s n = true;
    ts_pre : forall t j, wf_path t = true -> ps_has t T = true -> 0 < j -> j < List.length t ->
      ps_has (firstn j t) Sr = true \/
      exists q3, wf_path q3 = true /\ q3 <> [] /\ ps_has (firstn j t ++ q3) Sr = true
  }.

  Lemma member_pre : forall t j, wf_path t = true -> ps_has t Sr = true -> j < List.length t ->
    exists q3, wf_path q3 = true /\ q3 <> [] /\ ps_has (firstn j t ++ q3) Sr = true.
  Proof.
    intros t j Ht Hh Hj. exists (skipn j t). split; [|split].
    - rewrite <- (firstn_skipn j t) in Ht. apply wf_path_app in Ht. apply Ht.
    - intros E. pose proof (f_equal (@List.length pe) E) as E'. rewrite skipn_length in E'. simpl in E'. lia.
    - rewrite firstn_skipn. exact Hh.
  Qed.

  Lemma with_keys_tsel : forall fs, tsel (with_keys fs Sl).
  Proof.
    intros fs. split.
    - apply with_keys_ok. exact HSl.
    - intros p Hp Hh.
      destruct (ps_union_spec Sl _ HSl (ps_of_paths_ok _ (key_extra_wf fs Sl HSl))) as [_ Hu].
      unfold with_keys. rewrite (Hu p Hp), Hh. reflexivity.
    - intros t n Ht Hh Hres.
      pose proof (has_nonnil _ _ Hh) as Hne.
      destruct (with_keys_mem fs Sl t HSl Ht Hne Hh) as [Hm|(p & i & fl & k & Hp & Hm & Hn & Hk & Heq)].
      + split; [apply leaf_member; auto|].
        destruct (Hleaf t Ht Hm) as (tr' & x & Hr & Hl). rewrite Hr in Hres. inversion Hres; subst n.
        apply leafy_rnode_leaf. exact Hl.
      + (* a key field: the record holds the member, hence the key field the object gives it *)
        apply nth_error_split in Hn. destruct Hn as (pre & rest & Ep & Hlen).
        assert (Hfi : firstn i p = pre) by (subst p i; apply firstn_app_len).
        rewrite Hfi in Heq.
        assert (HwP : wf_path (pre ++ [PEKey fl; PEField k]) = true).
        { subst p. apply wf_path_app in Hp. destruct Hp as [H1 H2]. apply wf_path_cons in H2.
          apply wf_path_app. split; [exact H1|]. apply wf_path_cons. split; [tauto|reflexivity]. }
        rewrite (resolve_patheqb s R Hok t _ Heq Ht HwP live tr Htr Hwl) in Hres.
        assert (Hpr : present s tr live (pre ++ [PEKey fl; PEField k]) = true)
          by (unfold present; rewrite Hres; reflexivity).
        assert (Hitem : ps_has (pre ++ [PEKey fl]) Sr = true).
        { pose proof (leaf_member p Hp Hm) as HpS. destruct rest as [|r0 rest'].
          - subst p. exact HpS.
          - apply (Hclosed (pre ++ [PEKey fl]) (r0 :: rest')).
            + rewrite <- app_assoc. cbn [app]. subst p. exact Hp.
            + discriminate.
            + rewrite <- app_assoc. cbn [app]. subst p. exact HpS.
            + left. exists pre, (PEKey fl). split; reflexivity. }
        pose proof (Hsync pre fl k HwP Hk Hpr) as Hks'. rewrite Hitem in Hks'.
        split.
        * rewrite (ps_has_patheqb Sr t _ HS Ht HwP Heq). symmetry. exact Hks'.
        * destruct (key_field_nodes s R Hok Hfam Hks pre fl k live tr true Htr Hwl Hcl HwP Hk Hpr)
            as (tp & vp & t0 & l & m & fl0 & tm & val & _ & _ & _ & _ & _ & _ & _ & _ & _ & _ & _ & _ & Hrs & Hkl).
          rewrite Hrs in Hres. inversion Hres; subst n. simpl. rewrite Hkl. reflexivity.
    - intros t j Ht Hh Hj0 Hj.
      pose proof (has_nonnil _ _ Hh) as Hne.
      destruct (with_keys_mem fs Sl t HSl Ht Hne Hh) as [Hm|(p & i & fl & k & Hp & Hm & Hn & Hk & Heq)].
      + right. apply member_pre; auto. apply leaf_member; auto.
      + apply nth_error_split in Hn. destruct Hn as (pre & rest & Ep & Hlen).
        assert (Hfi : firstn i p = pre) by (subst p i; apply firstn_app_len).
        rewrite Hfi in Heq.
        assert (HwP : wf_path (pre ++ [PEKey fl; PEField k]) = true).
        { subst p. apply wf_path_app in Hp. destruct Hp as [H1 H2]. apply wf_path_cons in H2.
          apply wf_path_app. split; [exact H1|]. apply wf_path_cons. split; [tauto|reflexivity]. }
        assert (Hitem : ps_has (pre ++ [PEKey fl]) Sr = true).
        { pose proof (leaf_member p Hp Hm) as HpS. destruct rest as [|r0 rest'].
          - subst p. exact HpS.
          - apply (Hclosed (pre ++ [PEKey fl]) (r0 :: rest')).
            + rewrite <- app_assoc. cbn [app]. subst p. exact Hp.
            + discriminate.
            + rewrite <- app_assoc. cbn [app]. subst p. exact HpS.
            + left. exists pre, (PEKey fl). split; reflexivity. }
        assert (Hwitem : wf_path (pre ++ [PEKey fl]) = true).
        { apply wf_path_app in HwP. destruct HwP as [H1 H2]. apply wf_path_cons in H2.
          apply wf_path_app. split; [exact H1|]. apply wf_path_cons. split; [tauto|reflexivity]. }
        pose proof (patheqb_length _ _ Heq) as Hlt. rewrite app_length in Hlt. cbn [List.length] in Hlt.
        (* the prefix of t of length j is, up to Equals, a prefix of the member's path *)
        assert (Hfj : patheqb (firstn j t) (firstn j (pre ++ [PEKey fl])) = true).
        { assert (E : firstn j (pre ++ [PEKey fl; PEField k]) = firstn j (pre ++ [PEKey fl])).
          { replace (pre ++ [PEKey fl; PEField k]) with ((pre ++ [PEKey fl]) ++ [PEField k])
              by (rewrite <- app_assoc; reflexivity).
            rewrite firstn_app. rewrite app_length. cbn [List.length].
            replace (j - (List.length pre + 1)) with 0 by lia. cbn [firstn]. apply app_nil_r. }
          rewrite <- E. apply patheqb_firstn. exact Heq. }
        assert (Hwfj : wf_path (firstn j t) = true) by (apply wf_path_firstn; exact Ht).
        assert (Hwfj' : wf_path (firstn j (pre ++ [PEKey fl])) = true) by (apply wf_path_firstn; exact Hwitem).
        destruct (Nat.eq_dec j (List.length pre + 1)) as [Ej|Ej].
        * left. rewrite (ps_has_patheqb Sr _ _ HS Hwfj Hwfj' Hfj).
          rewrite firstn_all2 by (rewrite app_length; cbn [List.length]; lia). exact Hitem.
        * right.
          assert (Hjl : j < List.length (pre ++ [PEKey fl])) by (rewrite app_length; cbn [List.length]; lia).
          destruct (member_pre (pre ++ [PEKey fl]) j Hwitem Hitem Hjl) as (q3 & Hq3 & Hq3ne & Hh3).
          exists q3. split; [exact Hq3|]. split; [exact Hq3ne|].
          rewrite <- Hh3. apply (ps_has_patheqb Sr _ _ HS).
          -- apply wf_path_app. auto.
          -- apply wf_path_app. auto.
          -- apply patheqb_app2; [exact Hfj|apply patheqb_refl; exact Hq3].
  Qed.

  (* ---------- the field set of the extraction ---------- *)
  Variable T : pset.
  Hypothesis HT : tsel T.
  Let ext := remove_items s true tr T live.
  Hypothesis Hy : oky s tr ext.

  Lemma tsel_lsel : lsel s tr live T.
  Proof.
    split; [apply (ts_ok T HT)|]. intros p n Hp Hh Hres. apply (ts_node T HT p n Hp Hh Hres).
  Qed.

  Let Hwx : wf_value ext = true := remove_items_wf s true live tr T Hwl.
  Let Hcx : conforms s tr true ext = true := MergeBase.conforms_dup_mono s ext tr (proj2 Hy).

  (* every member of the field set of the extraction is a member of Sr *)
  Lemma ext_fs_sub : forall q, wf_path q = true -> q <> [] -> pmem q (fsp s tr ext) = true ->
    ps_has q Sr = true.
  Proof.
    intros q Hq Hqne Hmem.
    unfold pmem in Hmem. apply existsb_exists in Hmem. destruct Hmem as (q0 & Hin0 & Heq0).
    pose proof (fsp_wf s R Hok ext tr q0 Htr Hwx Hin0) as Hq0.
    destruct (fsp_class s R Hok Hfam (S (vdepth ext)) ext tr q0 ltac:(lia) Htr Hwx Hcx Hin0)
      as (n' & Hres' & Hmc).
    rewrite (ps_has_patheqb Sr q q0 HS Hq Hq0 Heq0).
    assert (Hq0ne : q0 <> []) by (intros E; subst q0; destruct q; [congruence|discriminate]).
    clear q Hq Hqne Heq0.
    destruct (xt_nodes_sound s R Hok Hfam Hnd Hks q0 live tr T n' Hx tsel_lsel Hy Hq0 Hq0ne Hres')
      as (Hext & n & Hres & Hl1 & Hl2).
    apply (ext_iff q0 T (ts_ok T HT) Hq0) in Hext. destruct Hext as (q2 & Hq2 & Hh2).
    destruct q2 as [|e2 q2'].
    - rewrite app_nil_r in Hh2. apply (ts_node T HT q0 n Hq0 Hh2 Hres).
    - assert (Hwt : wf_path (q0 ++ e2 :: q2') = true) by (apply wf_path_app; auto).
      assert (Hj0 : 0 < List.length q0) by (destruct q0; [congruence|simpl; lia]).
      assert (Hj : List.length q0 < List.length (q0 ++ e2 :: q2')) by (rewrite app_length; simpl; lia).
      destruct (ts_pre T HT (q0 ++ e2 :: q2') (List.length q0) Hwt Hh2 Hj0 Hj) as [Hin|(q3 & Hq3 & Hq3ne & Hh3)];
        rewrite firstn_app_len in *; [exact Hin|].
      assert (Hw3 : wf_path (q0 ++ q3) = true) by (apply wf_path_app; auto).
      destruct (okx_resolve q0 tr live n Hx Hq0 Hres) as (t0 & v0 & En & _). subst n.
      assert (Hclass : last_keyval q0 \/ last_unnamed s tr q0).
      { destruct n' as [t' x'|t' xs'].
        - simpl in Hmc. destruct Hmc as [Hlx|Hc']; [|exact Hc']. exfalso.
          (* a leaf of the extraction is a leaf of the object: nothing is present beneath it *)
          pose proof (Hl1 (leafy_rnode_leaf s t' x' Hlx)) as E. inversion E; subst t0 v0.
          pose proof (Hpres (q0 ++ q3) Hw3 Hh3) as Hp3. unfold present in Hp3.
          rewrite resolve_path_app, Hres in Hp3.
          destruct q3 as [|e3 q3']; [congruence|].
          rewrite resolve_path_leaf in Hp3 by exact Hlx. discriminate.
        - exfalso. pose proof (Hl1 eq_refl) as E. discriminate. }
      apply (Hclosed q0 q3 Hw3 Hq3ne Hh3 Hclass).
  Qed.

  (* every member of Sr is a member of the field set of the extraction *)
  Lemma ext_fs_sup : forall q, wf_path q = true -> q <> [] -> ps_has q Sr = true ->
    pmem q (fsp s tr ext) = true.
  Proof.
    intros q Hq Hqne Hh.
    destruct (leaves_extend Sr q HS Hq Hh) as (q2 & Hq2 & Hlf). fold Sl in Hlf.
    assert (Hwt : wf_path (q ++ q2) = true) by (apply wf_path_app; auto).
    destruct (Hleaf (q ++ q2) Hwt Hlf) as (tr' & x & Hres & Hlx).
    assert (Htne : q ++ q2 <> []) by (destruct q; [congruence|discriminate]).
    pose proof (xt_nodes_keep s R Hok Hfam Hnd Hks (q ++ q2) live tr T (RNode tr' x) Hx tsel_lsel Hy
                  Hwt Htne Hres (leafy_rnode_leaf s tr' x Hlx)
                  (ext_self (q ++ q2) T (ts_ok T HT) Hwt (ts_sub T HT _ Hwt Hlf))) as Hres'.
    fold ext in Hres'.
    rewrite resolve_path_app in Hres'.
    destruct (resolve_path s tr ext q) as [[tq xq|tq xs]|] eqn:Eq; [| |discriminate].
    2:{ destruct q2; [inversion Hres'|discriminate]. }
    assert (Hplq : plain xq = true).
    { apply (plain_resolve q ext tr false tq xq Htr Hwx (proj2 Hy) (proj1 Hy) Hq Eq). }
    apply (mem_of_class s R Hok Hfam ext tr q tq xq Htr Hwx Hcx Hq Hqne Eq).
    - simpl. destruct q2 as [|e2 q2'].
      + simpl in Hres'. inversion Hres'; subst tq xq. left. exact Hlx.
      + right. apply (Hcls q (e2 :: q2') Hwt ltac:(discriminate) Hh). apply leaf_member; auto.
    - intros E. subst xq. discriminate.
  Qed.
End SetEq.

(* ================= the theorem ================= *)

Theorem extract_field_set : forall s R tr live Sr set0,
  schema_ok s R -> family_refs s R -> keys_nodefault s R -> keys_scalar s R ->
  R tr -> wf_value live = true -> conforms s tr true live = true -> dup_free s tr live = true ->
  ps_ok Sr = true -> members_present s tr live Sr -> key_sync s tr live Sr ->
  leaves_are_leaves s tr live Sr -> prefix_closed s tr Sr -> interior_class s tr Sr ->
  let ext := extract s tr true live (ps_leaves Sr) in
  plain ext = true -> conforms s tr false ext = true ->
  to_field_set s tr ext = Some set0 ->
  ps_equals set0 Sr = true.
Proof.
  intros s R tr live Sr set0 Hok Hfam Hnd Hks Htr Hwl Hcl Hdf HS Hpres Hsync Hleaf Hclosed Hcls ext Hpl Hcx Hset0.
  assert (Hx : okx s R tr live) by (split; [exact Htr|split; [exact Hwl|split; [exact Hcl|exact Hdf]]]).
  destruct (to_field_set_ok_family s R tr live Hok Htr Hfam Hwl Hcl) as (fs & Hfs & _).
  pose proof (extract_with_keys s tr live (ps_leaves Sr) fs Hfs) as Eext. fold ext in Eext.
  set (T := with_keys fs (ps_leaves Sr)) in *.
  pose proof (with_keys_tsel s R Hok Hfam Hks tr live Sr Hx HS Hsync Hleaf Hclosed fs) as HT.
  fold T in HT.
  assert (Hy : oky s tr (remove_items s true tr T live)) by (rewrite <- Eext; split; assumption).
  assert (Hwx : wf_value ext = true) by (rewrite Eext; apply remove_items_wf; exact Hwl).
  rewrite to_field_set_eq in Hset0. destruct (fse s tr ext); [discriminate|].
  inversion Hset0; subst set0. clear Hset0.
  apply (ps_equals_ext _ Sr (fs_ok s R Hok tr ext Htr Hwx) HS).
  intros p Hp. destruct p as [|e p']; [rewrite !ps_has_nil; reflexivity|].
  rewrite (fs_has s R Hok tr ext (e :: p') Htr Hwx Hp ltac:(discriminate)).
  rewrite Eext.
  destruct (pmem (e :: p') (fsp s tr (remove_items s true tr T live))) eqn:Em.
  - symmetry.
    apply (ext_fs_sub s R Hok Hfam Hnd Hks tr live Sr Hx HS Hpres Hclosed T HT Hy (e :: p') Hp ltac:(discriminate) Em).
  - destruct (ps_has (e :: p') Sr) eqn:Eh; [|reflexivity].
    rewrite (ext_fs_sup s R Hok Hfam Hnd Hks tr live Sr Hx HS Hleaf Hcls T HT Hy (e :: p') Hp ltac:(discriminate) Eh) in Em.
    discriminate.
Qed.

(* (i) is a consequence of the other hypotheses since the F27 repair of the extracting walker:
   a leaf of the record that designates a granular node of the object is extracted as null
   (nothing is selected beneath it), and the extract would not be plain. *)
Theorem plain_extract_leaves_are_leaves : forall s R tr live Sr,
  schema_ok s R -> family_refs s R -> keys_nodefault s R -> keys_scalar s R ->
  R tr -> wf_value live = true -> conforms s tr true live = true -> dup_free s tr live = true ->
  ps_ok Sr = true -> members_present s tr live Sr -> key_sync s tr live Sr ->
  let ext := extract s tr true live (ps_leaves Sr) in
  plain ext = true -> conforms s tr false ext = true ->
  leaves_are_leaves s tr live Sr.
Proof.
  intros s R tr live Sr Hok Hfam Hnd Hks Htr Hwl Hcl Hdf HS Hpres Hsync ext Hpl Hcx.
  assert (Hx : okx s R tr live) by (split; [exact Htr|split; [exact Hwl|split; [exact Hcl|exact Hdf]]]).
  destruct (to_field_set_ok_family s R tr live Hok Htr Hfam Hwl Hcl) as (fs & Hfs & _).
  pose proof (extract_with_keys s tr live (ps_leaves Sr) fs Hfs) as Eext. fold ext in Eext.
  apply (plain_leaves_are_leaves s R Hok Hfam Hnd Hks tr live Sr Hx HS Hpres Hsync fs).
  rewrite <- Eext. split; assumption.
Qed.

(* [extract_field_set] without (i) *)
Theorem extract_field_set_plain : forall s R tr live Sr set0,
  schema_ok s R -> family_refs s R -> keys_nodefault s R -> keys_scalar s R ->
  R tr -> wf_value live = true -> conforms s tr true live = true -> dup_free s tr live = true ->
  ps_ok Sr = true -> members_present s tr live Sr -> key_sync s tr live Sr ->
  prefix_closed s tr Sr -> interior_class s tr Sr ->
  let ext := extract s tr true live (ps_leaves Sr) in
  plain ext = true -> conforms s tr false ext = true ->
  to_field_set s tr ext = Some set0 ->
  ps_equals set0 Sr = true.
Proof.
  intros s R tr live Sr set0 Hok Hfam Hnd Hks Htr Hwl Hcl Hdf HS Hpres Hsync Hclosed Hcls ext Hpl Hcx Hset0.
  apply (extract_field_set s R tr live Sr set0 Hok Hfam Hnd Hks Htr Hwl Hcl Hdf HS Hpres Hsync
           (plain_extract_leaves_are_leaves s R tr live Sr Hok Hfam Hnd Hks Htr Hwl Hcl Hdf HS Hpres Hsync
              Hpl Hcx)
           Hclosed Hcls Hpl Hcx Hset0).
Qed.

(* ================= field sets satisfy the two conditions on sets ================= *)

Lemma patheqb_snoc_inv : forall q pre e, patheqb q (pre ++ [e]) = true ->
  exists pre' e', q = pre' ++ [e'] /\ patheqb pre' pre = true /\ peeqb e' e = true.
Proof.
  intros q pre. revert q. induction pre as [|x pre IH]; intros q e H.
  - destruct q as [|e' [|d q]]; simpl in H; try discriminate.
    + exists [], e'. rewrite andb_true_r in H. auto.
    + rewrite andb_false_r in H. discriminate.
  - destruct q as [|y q]; [discriminate|]. cbn [app] in H. rewrite patheqb_cons in H.
    apply andb_true_iff in H. destruct H as [Hyx H].
    destruct (IH q e H) as (pre' & e' & -> & Hpre & He).
    exists (y :: pre'), e'. split; [reflexivity|]. split; [|exact He].
    rewrite patheqb_cons, Hyx, Hpre. reflexivity.
Qed.

Lemma en_type_patheqb : forall s p p' tr, patheqb p p' = true -> en_type s tr p = en_type s tr p'.
Proof.
  intros s p. induction p as [|e p IH]; intros [|e' p'] tr H; try discriminate; [reflexivity|].
  rewrite patheqb_cons in H. apply andb_true_iff in H. destruct H as [He Hp].
  cbn [en_type]. rewrite (en_child_tr_cong (atom_at s tr) e e' He). apply IH. exact Hp.
Qed.

Section Closed.
  Variables (s : schema) (R : typeref -> Prop).
  Hypothesis Hok : schema_ok s R.
  Hypothesis Hfam : family_refs s R.

  Lemma field_set_closed : forall tr cfg fs, R tr -> wf_value cfg = true ->
    conforms s tr false cfg = true -> plain cfg = true -> to_field_set s tr cfg = Some fs ->
    prefix_closed s tr fs /\ interior_class s tr fs.
  Proof.
    intros tr cfg fs Htr Hw Hc Hpl Hfs.
    pose proof (MergeBase.conforms_dup_mono s cfg tr Hc) as Hc'.
    rewrite to_field_set_eq in Hfs. destruct (fse s tr cfg); [discriminate|]. inversion Hfs; subst fs. clear Hfs.
    assert (Hmem : forall q, wf_path q = true -> q <> [] ->
              ps_has q (ps_of_paths (fsp s tr cfg)) = pmem q (fsp s tr cfg)).
    { intros q Hq Hne. apply (fs_has s R Hok tr cfg q Htr Hw Hq Hne). }
    assert (Hnode : forall q, wf_path q = true -> q <> [] -> pmem q (fsp s tr cfg) = true ->
              exists n, resolve_path s tr cfg q = Some n /\ mclass s tr q n).
    { intros q Hq Hne Hm. unfold pmem in Hm. apply existsb_exists in Hm. destruct Hm as (q0 & Hin & Heq).
      pose proof (fsp_wf s R Hok cfg tr q0 Htr Hw Hin) as Hq0.
      destruct (fsp_class s R Hok Hfam (S (vdepth cfg)) cfg tr q0 ltac:(lia) Htr Hw Hc' Hin) as (n & Hres & Hmc).
      exists n. rewrite (resolve_patheqb s R Hok q q0 Heq Hq Hq0 cfg tr Htr Hw). split; [exact Hres|].
      destruct n as [t x|t xs]; [|exact I]. simpl in Hmc |- *.
      destruct Hmc as [Hl|[(pre & e & E & Hkv)|(pre & k & E & Hnm)]]; [left; exact Hl| |].
      - right. left. subst q0.
        destruct (patheqb_snoc_inv q pre e Heq) as (pre' & e' & -> & _ & He').
        exists pre', e'. split; [reflexivity|]. rewrite (peeqb_keyval e' e He'). exact Hkv.
      - right. right. subst q0.
        destruct (patheqb_snoc_inv q pre (PEField k) Heq) as (pre' & e' & -> & Hpre' & He').
        destruct e'; simpl in He'; try discriminate. apply String.eqb_eq in He'. subst name.
        exists pre', k. split; [reflexivity|].
        rewrite (en_type_patheqb s pre' pre tr Hpre'). exact Hnm. }
    split.
    - intros q q2 Hwq Hq2 Hh Hcl.
      apply wf_path_app in Hwq. destruct Hwq as [Hq Hwq2].
      assert (Hqne : q <> []).
      { destruct Hcl as [(pre & e & -> & _)|(pre & k & -> & _)]; destruct pre; discriminate. }
      assert (Hne : q ++ q2 <> []) by (destruct q; [congruence|discriminate]).
      rewrite Hmem in Hh by (auto; apply wf_path_app; auto).
      destruct (Hnode (q ++ q2) ltac:(apply wf_path_app; auto) Hne Hh) as (n & Hres & _).
      rewrite resolve_path_app in Hres.
      destruct (resolve_path s tr cfg q) as [[tq xq|tq xs]|] eqn:Eq; [| |discriminate].
      2:{ destruct q2; [congruence|discriminate]. }
      rewrite (Hmem q Hq Hqne).
      apply (mem_of_class s R Hok Hfam cfg tr q tq xq Htr Hw Hc' Hq Hqne Eq).
      + simpl. right. exact Hcl.
      + intros E. subst xq. destruct q2 as [|e2 q2']; [congruence|].
        rewrite resolve_path_leaf in Hres; [discriminate|].
        unfold kind_of. destruct (resolve s tq) as [[sc li ma]|]; [|exact I].
        destruct li as [t0|]; [|exact I]. destruct (rel_is_atomic (list_rel t0)); exact I.
    - intros q q2 Hwq Hq2 Hh1 Hh2.
      apply wf_path_app in Hwq. destruct Hwq as [Hq Hwq2].
      assert (Hqne : q <> []) by (apply (has_nonnil _ _ Hh1)).
      assert (Hne : q ++ q2 <> []) by (destruct q; [congruence|discriminate]).
      rewrite Hmem in Hh1, Hh2 by (auto; apply wf_path_app; auto).
      destruct (Hnode q Hq Hqne Hh1) as (n & Hres & Hmc).
      destruct (Hnode (q ++ q2) ltac:(apply wf_path_app; auto) Hne Hh2) as (n2 & Hres2 & _).
      rewrite resolve_path_app, Hres in Hres2.
      destruct n as [t x|t xs].
      + simpl in Hmc. destruct Hmc as [Hl|Hc0]; [|exact Hc0]. exfalso.
        destruct q2 as [|e2 q2']; [congruence|].
        rewrite resolve_path_leaf in Hres2 by exact Hl. discriminate.
      + exfalso. destruct q2; [congruence|discriminate].
  Qed.
End Closed.
