(* Non-vacuity of Proofs/IgnoredHistory.v (never_owned_along_histories): a concrete
   exclusion configuration over Spec/Examples.v's [ex_config] that ignores the field [aa],
   with all four hypotheses on the configuration proved, and a history of four operations
   by two managers, every one of which sets [aa] to a new value.  The final records are
   non-empty and none owns [aa]; under [ex_config] itself (nothing ignored) the same
   history makes m2 the owner of [aa] and the fourth operation fails with a conflict. *)
From Coq Require Import List ZArith String Bool.
From SMD Require Import Model.Value Model.PathElem Model.PathSet Model.Schema Model.Matcher Model.Updater
  Spec.PathsAsSets Spec.Examples Proofs.PathSetLaws Proofs.UpdaterLaws Proofs.UpdaterLaws2
  Proofs.IgnoredHistory.
Import ListNotations.
Open Scope string_scope.

(* ex_config with the exclusion set { aa } for version v1 *)
Definition ig_config : config :=
  mkConfig (cfg_schema ex_config) (cfg_convert ex_config)
    (Some [("v1", ps_of_paths [[PEField "aa"]])]) None
    (cfg_return_input_on_noop ex_config) (cfg_version_order ex_config).

Theorem ig_config_exclusion : exclusion_config ig_config.
Proof. split; [reflexivity|]. vm_compute. reflexivity. Qed.

Theorem ig_config_compare_ok : compare_ok_wf ig_config.
Proof. apply compare_ok_wf_of_schema_ok. exact ex_config_schemas_ok. Qed.

Theorem ig_config_fs_ok : fs_ok_wf ig_config.
Proof. apply fs_ok_wf_of_schema_ok. exact ex_config_schemas_ok. Qed.

Theorem ig_config_conv_wf : conv_wf ig_config.
Proof. intros n from to v v' Hv H. cbn in H. inversion H; subst v'. exact Hv. Qed.

(* aa is ignored at v1, mm.x is not *)
Example ig_aa_ignored :
  ignored_at ig_config "v1" [PEField "aa"] = true /\
  ignored_at ig_config "v1" [PEField "mm"; PEField "x"] = false.
Proof. split; vm_compute; reflexivity. Qed.

(* m1 applies, m2 updates, m2 applies, m1 applies: each operation gives aa a new value *)
Definition ig_ops : list vop :=
  [ VApply "m1" "v1" (VMap [("aa", VInt 1); ("mm", VMap [("x", VInt 1)])]) false;
    VUpdate "m2" "v1" (VMap [("aa", VInt 5); ("mm", VMap [("x", VInt 1); ("y", VInt 2)])]);
    VApply "m2" "v1" (VMap [("aa", VInt 7); ("mm", VMap [("z", VInt 3)])]) false;
    VApply "m1" "v1" (VMap [("aa", VInt 9); ("mm", VMap [("x", VInt 2)])]) false ].

Theorem ig_ops_ok : Forall vop_ok ig_ops.
Proof. repeat constructor. Qed.

Definition ig_final_mf : managed :=
  [("m1", mkRec (ps_of_paths [[PEField "mm"; PEField "x"]]) "v1" true);
   ("m2", mkRec (ps_of_paths [[PEField "mm"; PEField "z"]]) "v1" true)].

(* every operation succeeds and takes effect on aa *)
Example ig_history_computed :
  map (fun n => fst (vrun ig_config "v1" (firstn n ig_ops))) [1; 2; 3; 4] =
  [ ("v1", VMap [("aa", VInt 1); ("mm", VMap [("x", VInt 1)])]);
    ("v1", VMap [("aa", VInt 5); ("mm", VMap [("x", VInt 1); ("y", VInt 2)])]);
    ("v1", VMap [("aa", VInt 7); ("mm", VMap [("x", VInt 1); ("z", VInt 3)])]);
    ("v1", VMap [("aa", VInt 9); ("mm", VMap [("x", VInt 2); ("z", VInt 3)])]) ] /\
  snd (vrun ig_config "v1" ig_ops) = ig_final_mf.
Proof. split; vm_compute; reflexivity. Qed.

(* the instance of the theorem *)
Theorem ig_history_never_owns_ignored :
  wf_value (snd (fst (vrun ig_config "v1" ig_ops))) = true /\
  records_inv (snd (vrun ig_config "v1" ig_ops)) /\
  never_owned ig_config (snd (vrun ig_config "v1" ig_ops)).
Proof.
  exact (never_owned_along_histories ig_config "v1" ig_ops ig_config_exclusion ig_config_compare_ok
           ig_config_fs_ok ig_config_conv_wf ig_ops_ok).
Qed.

(* ... is not degenerate: both managers hold a non-empty record at the end, neither
   contains aa *)
Example ig_history_not_degenerate :
  exists r1 r2,
    mf_get "m1" (snd (vrun ig_config "v1" ig_ops)) = Some r1 /\
    mf_get "m2" (snd (vrun ig_config "v1" ig_ops)) = Some r2 /\
    ps_empty (mr_set r1) = false /\ ps_empty (mr_set r2) = false /\
    ps_has [PEField "mm"; PEField "x"] (mr_set r1) = true /\
    ps_has [PEField "mm"; PEField "z"] (mr_set r2) = true /\
    ps_has [PEField "aa"] (mr_set r1) = false /\
    ps_has [PEField "aa"] (mr_set r2) = false.
Proof.
  exists (mkRec (ps_of_paths [[PEField "mm"; PEField "x"]]) "v1" true),
         (mkRec (ps_of_paths [[PEField "mm"; PEField "z"]]) "v1" true).
  repeat split; vm_compute; reflexivity.
Qed.

(* the contrast: with nothing ignored the same operations make m1, then m2 the owner of aa,
   and the last operation (m1 applies aa = 9 without force) is rejected with a conflict
   on aa, leaving aa = 7 *)
Example ig_contrast_nothing_ignored :
  (exists r, mf_get "m1" (snd (vrun ex_config "v1" (firstn 1 ig_ops))) = Some r /\
             ps_has [PEField "aa"] (mr_set r) = true) /\
  (exists r, mf_get "m2" (snd (vrun ex_config "v1" (firstn 3 ig_ops))) = Some r /\
             ps_has [PEField "aa"] (mr_set r) = true) /\
  apply_op ex_config (fst (vrun ex_config "v1" (firstn 3 ig_ops)))
    ("v1", VMap [("aa", VInt 9); ("mm", VMap [("x", VInt 2)])]) "v1"
    (snd (vrun ex_config "v1" (firstn 3 ig_ops))) "m1" false
  = UErr (EConflict [("m2", [PEField "aa"])]) /\
  fst (vrun ex_config "v1" ig_ops) =
    ("v1", VMap [("aa", VInt 7); ("mm", VMap [("x", VInt 1); ("z", VInt 3)])]).
Proof.
  split; [eexists; split; vm_compute; reflexivity|].
  split; [eexists; split; vm_compute; reflexivity|].
  split; vm_compute; reflexivity.
Qed.

