(* Two valid objects with the same leaf nodes are equal up to the order of the members of
   sets and associative lists (one of them plain and without duplicate members). *)
From Coq Require Import List ZArith String Bool Arith Lia Sorting.Sorted.
From SMD Require Import Model.Value Model.Order Model.PathElem Model.PathSet Model.Schema
  Model.Walk Model.FieldSet Model.Remove Spec.PathsAsSets Spec.RefValid Spec.Resolve Spec.Agree
  Proofs.OrderLaws Proofs.KeyLaws Proofs.PathSetLaws Proofs.ValidateLaws Proofs.SchemaOk
  Proofs.FieldSetMirrors Proofs.FieldSetBase Proofs.FieldSetShape Proofs.FieldSetPaths
  Proofs.RemoveBase Proofs.ExtractBase Proofs.ExtractLaws Proofs.RemoveAbsent Proofs.RemoveWf
  Proofs.ResolveLaws Proofs.ReconcileBase Proofs.CompareTotal Proofs.RemoveFrame
  Proofs.TreeFacts Proofs.NodeSet Proofs.KeyFields.
Import ListNotations.
Open Scope bool_scope.

(* ---------- 1. the canonical form does not depend on the fuel ---------- *)
Lemma vdepth_map_in' : forall (m : list (string * value)) kv, In kv m ->
  vdepth (snd kv) < vdepth (VMap m).
Proof.
  intros m kv H. simpl. apply Nat.lt_succ_r. induction m as [|y m IH]; [destruct H|].
  simpl. destruct H as [H|H]; [subst; apply Nat.le_max_l|].
  etransitivity; [exact (IH H)|apply Nat.le_max_r].
Qed.

Lemma canon_fuel_indep : forall f f' s tr v, vdepth v < f -> vdepth v < f' ->
  canon_fuel f s tr v = canon_fuel f' s tr v.
Proof.
  induction f as [|f IH]; intros f' s tr v Hf Hf'; [lia|].
  destruct f' as [|f']; [lia|].
  cbn [canon_fuel].
  destruct (kind_of s tr v) as [|t m|t l|] eqn:Ek; try reflexivity.
  - destruct (kind_map_inv _ _ _ _ _ Ek) as (a & _ & _ & Hv & _ & _). subst v.
    f_equal. apply map_ext_in. intros kv Hin. f_equal.
    pose proof (vdepth_map_in' m kv Hin). apply IH; lia.
  - destruct (kind_list_inv _ _ _ _ _ Ek) as (a & _ & _ & Hv & _ & _). subst v.
    f_equal. f_equal. f_equal. apply map_ext_in. intros x Hin. f_equal.
    match goal with |- (if ?c then _ else _) = _ => destruct c end; [reflexivity|].
    pose proof (vdepth_list_In l x Hin). apply IH; lia.
Qed.

Lemma canon_fuel_canon : forall f s tr v, vdepth v < f -> canon_fuel f s tr v = canon s tr v.
Proof. intros f s tr v H. unfold canon. apply canon_fuel_indep; lia. Qed.

(* ---------- 2. sorting by path element ---------- *)
Definition psort (l : list (pe * value)) : list (pe * value) := fold_right insert_by_pe [] l.

Definition klt (a b : pe * value) : Prop := pecmp (fst a) (fst b) = Lt.

Lemma insert_in : forall x l y, In y (insert_by_pe x l) <-> y = x \/ In y l.
Proof.
  intros x l y. induction l as [|z l IH]; simpl.
  - intuition.
  - destruct (peless (fst z) (fst x)); simpl; [rewrite IH|]; intuition.
Qed.

Lemma psort_in : forall l y, In y (psort l) <-> In y l.
Proof.
  induction l as [|x l IH]; intros y; simpl; [reflexivity|].
  rewrite insert_in, IH. intuition.
Qed.

Lemma insert_sorted : forall x l, StronglySorted klt l ->
  (forall y, In y l -> pecmp (fst x) (fst y) <> Eq) ->
  StronglySorted klt (insert_by_pe x l).
Proof.
  intros x l Hs. induction Hs as [|z l Hs IH Hz]; intros Hne; simpl.
  - constructor; constructor.
  - destruct (peless (fst z) (fst x)) eqn:El.
    + constructor.
      * apply IH. intros y Hy. apply Hne. right. exact Hy.
      * apply Forall_forall. intros y Hy. apply insert_in in Hy. destruct Hy as [Hy|Hy].
        -- subst y. apply peless_iff. exact El.
        -- rewrite Forall_forall in Hz. exact (Hz y Hy).
    + assert (Hxz : klt x z).
      { unfold klt. pose proof (Hne z (or_introl eq_refl)) as Hn.
        apply peless_false_iff in El.
        destruct (pecmp (fst z) (fst x)) eqn:E.
        - apply pecmp_eq_sym in E. contradiction.
        - congruence.
        - apply pecmp_gt_lt. exact E. }
      constructor; [constructor; assumption|].
      constructor; [exact Hxz|].
      eapply Forall_impl; [|exact Hz]. intros y Hy. unfold klt in *.
      eapply pecmp_trans_lt; eassumption.
Qed.

Inductive kdistinct : list (pe * value) -> Prop :=
| kd_nil : kdistinct []
| kd_cons : forall x l, (forall y, In y l -> pecmp (fst x) (fst y) <> Eq) -> kdistinct l ->
    kdistinct (x :: l).

Lemma psort_sorted : forall l, kdistinct l -> StronglySorted klt (psort l).
Proof.
  induction 1 as [|x l Hx Hd IH]; simpl; [constructor|].
  apply insert_sorted; [exact IH|]. intros y Hy. apply Hx. apply (proj1 (psort_in _ _)). exact Hy.
Qed.

(* two strictly sorted lists over the same keys agree pointwise *)
Lemma sorted_match : forall (Rel : value -> value -> Prop) a b,
  StronglySorted klt a -> StronglySorted klt b ->
  (forall x, In x a -> exists y, In y b /\ pecmp (fst x) (fst y) = Eq /\ Rel (snd x) (snd y)) ->
  (forall y, In y b -> exists x, In x a /\ pecmp (fst x) (fst y) = Eq) ->
  Forall2 (fun x y => Rel (snd x) (snd y)) a b.
Proof.
  intros Rel a b Ha. revert b. induction Ha as [|a1 ta Hta IH Ha1]; intros b Hb H1 H2.
  - destruct b as [|b1 tb]; [constructor|].
    destruct (H2 b1 (or_introl eq_refl)) as (x & [] & _).
  - destruct b as [|b1 tb].
    { destruct (H1 a1 (or_introl eq_refl)) as (y & [] & _). }
    inversion Hb as [|? ? Htb Hb1]; subst.
    rewrite Forall_forall in Ha1, Hb1. unfold klt in Ha1, Hb1.
    assert (Hhd : pecmp (fst a1) (fst b1) = Eq).
    { destruct (H1 a1 (or_introl eq_refl)) as (y & [Hy|Hy] & Hay & _); [subst; exact Hay|].
      destruct (H2 b1 (or_introl eq_refl)) as (x & [Hx|Hx] & Hxb); [subst; exact Hxb|].
      exfalso.
      pose proof (Hb1 y Hy) as L1. pose proof (Ha1 x Hx) as L2.
      (* b1 < y ~ a1, a1 < x ~ b1 *)
      rewrite <- (pecmp_eq_r (fst b1) (fst a1) (fst y) Hay) in L1.
      rewrite (pecmp_eq_r (fst a1) (fst x) (fst b1) Hxb) in L2.
      exact (plt_asym _ _ L1 L2). }
    constructor.
    + destruct (H1 a1 (or_introl eq_refl)) as (y & [Hy|Hy] & Hay & Hr); [subst; exact Hr|].
      exfalso. pose proof (Hb1 y Hy) as L1.
      rewrite <- (pecmp_eq_l (fst a1) (fst b1) (fst y) Hhd) in L1. congruence.
    + apply IH; [exact Htb| |].
      * intros x Hx. destruct (H1 x (or_intror Hx)) as (y & [Hy|Hy] & Hxy & Hr).
        -- subst y. exfalso. pose proof (Ha1 x Hx) as L.
           rewrite (pecmp_eq_r (fst a1) (fst x) (fst b1) Hxy) in L. congruence.
        -- exists y. auto.
      * intros y Hy. destruct (H2 y (or_intror Hy)) as (x & [Hx|Hx] & Hxy).
        -- subst x. exfalso. pose proof (Hb1 y Hy) as L.
           rewrite <- (pecmp_eq_l (fst a1) (fst b1) (fst y) Hhd) in L. congruence.
        -- exists x. auto.
Qed.

(* the sorting lemma: two lists of keyed values with pairwise different keys, the same keys
   up to pecmp/peeqb and related values, are related pointwise once sorted *)
Lemma psort_match : forall (Rel : value -> value -> Prop) a b,
  kdistinct a -> kdistinct b ->
  (forall x, In x a -> exists y, In y b /\ pecmp (fst x) (fst y) = Eq /\ Rel (snd x) (snd y)) ->
  (forall y, In y b -> exists x, In x a /\ pecmp (fst x) (fst y) = Eq) ->
  Forall2 Rel (map snd (psort a)) (map snd (psort b)).
Proof.
  intros Rel a b Da Db H1 H2.
  assert (H : Forall2 (fun x y => Rel (snd x) (snd y)) (psort a) (psort b)).
  { apply sorted_match; try (apply psort_sorted; assumption).
    - intros x Hx. apply (proj1 (psort_in _ _)) in Hx. destruct (H1 x Hx) as (y & Hy & Hk & Hr).
      exists y. split; [apply (proj2 (psort_in _ _)); exact Hy|]. auto.
    - intros y Hy. apply (proj1 (psort_in _ _)) in Hy. destruct (H2 y Hy) as (x & Hx & Hk).
      exists x. split; [apply (proj2 (psort_in _ _)); exact Hx|]. auto. }
  induction H; simpl; constructor; auto.
Qed.

Lemma Forall2_all2b : forall l1 l2, Forall2 (fun a b => veqb a b = true) l1 l2 ->
  all2b veqb l1 l2 = true.
Proof. induction 1; simpl; [reflexivity|]. rewrite H, IHForall2. reflexivity. Qed.

(* ---------- maps: pointwise equality of two maps over the same keys ---------- *)
Lemma assoc_get_map_val : forall (h : string -> value -> value) m k,
  assoc_get k (map (fun kv : string * value => (fst kv, h (fst kv) (snd kv))) m) =
  option_map (h k) (assoc_get k m).
Proof.
  intros h m k. induction m as [|[k' c] m IH]; [reflexivity|].
  cbn [map fst snd assoc_get]. destruct (String.eqb_spec k k') as [E|E]; [subst; reflexivity|exact IH].
Qed.

Lemma meqf_of_keys : forall eqb M2 M1,
  (forall k x, In (k, x) M1 -> exists y, assoc_get k M2 = Some y /\ eqb x y = true) ->
  meqf eqb M2 M1 = true.
Proof.
  intros eqb M2 M1. induction M1 as [|[k x] M1 IH]; intros H; [reflexivity|].
  rewrite meqf_cons. destruct (H k x (or_introl eq_refl)) as (y & Hy & He).
  rewrite Hy, He. cbn [andb]. apply IH. intros k' x' Hin. apply H. right. exact Hin.
Qed.

Lemma veqb_cmap : forall (g g' : string -> value -> value) m m',
  sorted_keys m = true -> sorted_keys m' = true ->
  (forall k c, In (k, c) m -> exists c', assoc_get k m' = Some c') ->
  (forall k c', In (k, c') m' -> exists c, assoc_get k m = Some c) ->
  (forall k c c', assoc_get k m = Some c -> assoc_get k m' = Some c' -> veqb (g' k c') (g k c) = true) ->
  veqb (VMap (map (fun kv => (fst kv, g' (fst kv) (snd kv))) m'))
       (VMap (map (fun kv => (fst kv, g (fst kv) (snd kv))) m)) = true.
Proof.
  intros g g' m m' Sm Sm' K1 K2 Hv.
  assert (L1 : List.length m' <= List.length m).
  { apply (meqf_len (fun _ _ => true) m m' Sm' Sm). apply meqf_of_keys.
    intros k x Hin. destruct (K2 k x Hin) as (c & Hc). exists c. auto. }
  assert (L2 : List.length m <= List.length m').
  { apply (meqf_len (fun _ _ => true) m' m Sm Sm'). apply meqf_of_keys.
    intros k x Hin. destruct (K1 k x Hin) as (c & Hc). exists c. auto. }
  rewrite veqb_map, !map_length. apply andb_true_iff. split; [apply Nat.eqb_eq; lia|].
  apply meqf_of_keys. intros k x Hin. apply in_map_iff in Hin.
  destruct Hin as ([k0 c'] & E & Hin). cbn [fst snd] in E. inversion E; subst k0 x.
  destruct (K2 k c' Hin) as (c & Hc).
  exists (g k c). rewrite assoc_get_map_val, Hc. split; [reflexivity|].
  apply Hv; [exact Hc|]. apply assoc_get_in_sorted; assumption.
Qed.

Section Main.
  Variables (s : schema) (R : typeref -> Prop).
  Hypothesis Hok : schema_ok s R.
  Hypothesis Hfam : family_refs s R.

  (* every leaf of a is a leaf of b, with an equal value *)
  Definition leaves_in (tr : typeref) (a b : value) : Prop :=
    forall p n, wf_path p = true -> resolve_path s tr a p = Some n -> rnode_is_leaf s n = true ->
      has_leaf s tr b p n = true.

  Definition pe_of (t : listT) (x : value) : pe :=
    match list_item_to_pe s t x with Some e => e | None => PEIndex 0 end.

  (* ----- the canonical form, one level unfolded ----- *)
  Lemma canon_leafy : forall tr v, leafy s tr v -> canon s tr v = v.
  Proof.
    intros tr v H. unfold leafy in H. unfold canon. cbn [canon_fuel].
    destruct (kind_of s tr v); try reflexivity; contradiction.
  Qed.

  Lemma canon_map : forall tr v t m, kind_of s tr v = KMap t m ->
    canon s tr v = VMap (map (fun kv => (fst kv, canon s (field_type t (fst kv)) (snd kv))) m).
  Proof.
    intros tr v t m Ek. destruct (kind_map_inv _ _ _ _ _ Ek) as (a & _ & _ & Hv & _ & _). subst v.
    unfold canon at 1. cbn [canon_fuel]. rewrite Ek. f_equal. apply map_ext_in. intros kv Hin.
    f_equal. apply canon_fuel_canon. apply vdepth_map_in'. exact Hin.
  Qed.

  Lemma pe_of_facts : forall t l x, forallb (has_pe s t) l = true -> items_wf s t l -> In x l ->
    list_item_to_pe s t x = Some (pe_of t x) /\ wf_pe (pe_of t x) = true /\
    is_keyval (pe_of t x) = true /\ pe_matches s t (pe_of t x) x = true /\
    In x (occ s t (pe_of t x) l).
  Proof.
    intros t l x Hhp Hiw Hin. rewrite forallb_forall in Hhp. pose proof (Hhp x Hin) as Hx.
    unfold has_pe in Hx. unfold pe_of, pe_matches.
    destruct (list_item_to_pe s t x) as [e|] eqn:Ex; [|discriminate].
    pose proof (Hiw x e Hin Ex) as Hw.
    assert (Hm : peeqb e e = true) by (apply peeqb_refl; exact Hw).
    split; [reflexivity|]. split; [exact Hw|]. split; [eapply lipe_keyval; eauto|].
    split; [exact Hm|]. apply In_occ; [exact Hin|]. unfold pe_matches. rewrite Ex. exact Hm.
  Qed.

  Lemma matches_pe_of : forall t l e y, forallb (has_pe s t) l = true -> In y l ->
    pe_matches s t e y = peeqb (pe_of t y) e.
  Proof.
    intros t l e y Hhp Hin. rewrite forallb_forall in Hhp. pose proof (Hhp y Hin) as Hy.
    unfold has_pe in Hy. unfold pe_matches, pe_of.
    destruct (list_item_to_pe s t y); [reflexivity|discriminate].
  Qed.

  Lemma canon_list : forall tr a t l, kind_of s tr a = KList t l ->
    forallb (has_pe s t) l = true ->
    (forall x, In x l -> occ s t (pe_of t x) l = [x]) ->
    canon s tr a = VList (map snd (psort (map (fun x => (pe_of t x, canon s (list_elem t) x)) l))).
  Proof.
    intros tr a t l Ek Hhp Hocc.
    destruct (kind_list_inv _ _ _ _ _ Ek) as (at0 & _ & _ & Hv & _ & _). subst a.
    unfold canon at 1. cbn [canon_fuel]. rewrite Ek.
    change (VList (map snd (psort (map (fun x => (pe_of t x,
              if Nat.leb 2 (List.length (filter (fun y => peeqb (pe_of t y) (pe_of t x)) l)) then x
              else canon_fuel (vdepth (VList l)) s (list_elem t) x)) l))) =
            VList (map snd (psort (map (fun x => (pe_of t x, canon s (list_elem t) x)) l)))).
    f_equal. f_equal. f_equal. apply map_ext_in. intros x Hin. f_equal.
    rewrite (filter_ext_in (fun y => peeqb (pe_of t y) (pe_of t x)) (pe_matches s t (pe_of t x)) l).
    - change (filter (pe_matches s t (pe_of t x)) l) with (occ s t (pe_of t x) l).
      rewrite (Hocc x Hin). cbn [List.length Nat.leb].
      apply canon_fuel_canon. apply vdepth_list_In. exact Hin.
    - intros y Hy. symmetry. eapply matches_pe_of; eauto.
  Qed.

  (* ----- roots ----- *)
  Lemma root_leaf : forall tr a b, leaves_in tr a b -> leafy s tr a ->
    leafy s tr b /\ veqb b a = true.
  Proof.
    intros tr a b H La.
    assert (Hl : rnode_is_leaf s (RNode tr a) = true).
    { unfold leafy in La. cbn [rnode_is_leaf]. destruct (kind_of s tr a); try reflexivity; contradiction. }
    specialize (H [] (RNode tr a) eq_refl eq_refl Hl).
    unfold has_leaf in H. cbn [resolve_path] in H. apply andb_true_iff in H. destruct H as [H1 H2].
    split; [|exact H2]. unfold leafy. cbn [rnode_is_leaf] in H1.
    destruct (kind_of s tr b); try discriminate; exact I.
  Qed.

  Lemma leaves_present : forall tr a b p n, leaves_in tr a b -> wf_path p = true ->
    resolve_path s tr a p = Some n -> rnode_is_leaf s n = true -> present s tr b p = true.
  Proof.
    intros tr a b p n H Hp Hr Hl. specialize (H p n Hp Hr Hl). unfold has_leaf in H. unfold present.
    destruct (resolve_path s tr b p); [reflexivity|discriminate].
  Qed.

  Lemma first_leaf : forall tr dup v, R tr -> wf_value v = true -> conforms s tr dup v = true ->
    granular s tr v ->
    exists e r n, wf_path (e :: r) = true /\ resolve_path s tr v (e :: r) = Some n /\
                  rnode_is_leaf s n = true.
  Proof.
    intros tr dup v Htr Hwf Hc Hg.
    destruct (leaf_beneath s R Hok Hfam (S (vdepth v)) tr dup v) as (r & n & Hr & Hres & Hl); auto.
    destruct r as [|e r].
    - cbn [resolve_path] in Hres. inversion Hres; subst n. cbn [rnode_is_leaf] in Hl.
      unfold granular in Hg. destruct (kind_of s tr v); try discriminate; contradiction.
    - exists e, r, n. auto.
  Qed.

  Lemma kinds_agree : forall tr dupa dupb a b, R tr ->
    wf_value a = true -> conforms s tr dupa a = true ->
    wf_value b = true -> conforms s tr dupb b = true ->
    leaves_in tr a b -> leaves_in tr b a ->
    match kind_of s tr a, kind_of s tr b with
    | KMap _ _, KMap _ _ => True
    | KList _ _, KList _ _ => True
    | (KLeaf | KBad), (KLeaf | KBad) => True
    | _, _ => False
    end.
  Proof.
    intros tr dupa dupb a b Htr Wa Ca Wb Cb H1 H2.
    assert (LA : leafy s tr a -> leafy s tr b) by (intros L; exact (proj1 (root_leaf tr a b H1 L))).
    assert (LB : leafy s tr b -> leafy s tr a) by (intros L; exact (proj1 (root_leaf tr b a H2 L))).
    assert (FA : granular s tr a -> exists e r, present s tr a (e :: r) = true /\ present s tr b (e :: r) = true).
    { intros G. destruct (first_leaf tr dupa a Htr Wa Ca G) as (e & r & n & Hp & Hr & Hl).
      exists e, r. split; [unfold present; rewrite Hr; reflexivity|].
      eapply leaves_present; eauto. }
    unfold leafy, granular in *.
    destruct (kind_of s tr a) as [|ta ma|ta la|] eqn:Eka;
      destruct (kind_of s tr b) as [|tb mb|tb lb|] eqn:Ekb; try exact I;
      try (exact (LA I)); try (exact (LB I)).
    - destruct (FA I) as (e & r & Pa & Pb). apply present_first in Pa. apply present_first in Pb.
      rewrite Eka in Pa. rewrite Ekb in Pb. destruct Pa as (k & ->). discriminate.
    - destruct (FA I) as (e & r & Pa & Pb). apply present_first in Pa. apply present_first in Pb.
      rewrite Eka in Pa. rewrite Ekb in Pb. destruct Pb as (k & ->). discriminate.
  Qed.

  (* ----- maps ----- *)
  Lemma map_child_ok : forall tr dup t a ma k c, R tr -> wf_value a = true ->
    conforms s tr dup a = true -> kind_of s tr a = KMap t ma -> In (k, c) ma ->
    R (field_type t k) /\ wf_value c = true /\ conforms s (field_type t k) dup c = true /\
    assoc_get k ma = Some c /\ vdepth c < vdepth a.
  Proof.
    intros tr dup t a ma k c Htr Wa Ca Ek Hin.
    destruct (kind_map_inv _ _ _ _ _ Ek) as (at0 & Hr & Ham & Hv & _ & _). subst a.
    split; [eapply (so_map s R Hok); eauto|].
    split; [eapply wf_value_map_in; eauto|].
    split.
    { rewrite conforms_eq, Hr in Ca. destruct at0 as [sc li ma0]. simpl in Ham. subst ma0.
      eapply cmap_each_in; eauto. }
    cbn [wf_value] in Wa. apply andb_true_iff in Wa. destruct Wa as [Ws _].
    split; [apply assoc_get_in_sorted; assumption|].
    exact (vdepth_map_in' ma (k, c) Hin).
  Qed.

  Lemma map_key_transfer : forall tr dup t a b ma mb k ca, R tr -> wf_value a = true ->
    conforms s tr dup a = true ->
    kind_of s tr a = KMap t ma -> kind_of s tr b = KMap t mb ->
    leaves_in tr a b -> In (k, ca) ma -> exists cb, assoc_get k mb = Some cb.
  Proof.
    intros tr dup t a b ma mb k ca Htr Wa Ca Eka Ekb H Hin.
    destruct (map_child_ok tr dup t a ma k ca Htr Wa Ca Eka Hin) as (Rc & Wc & Cc & Gc & _).
    destruct (leaf_beneath s R Hok Hfam (S (vdepth ca)) (field_type t k) dup ca) as (r & n & Hr & Hres & Hl); auto.
    assert (Hp : present s tr b (PEField k :: r) = true).
    { eapply leaves_present; [exact H| | |exact Hl].
      - apply wf_path_cons. split; [reflexivity|exact Hr].
      - rewrite (resolve_path_map _ _ _ _ _ k r Eka), Gc. exact Hres. }
    unfold present in Hp. rewrite (resolve_path_map _ _ _ _ _ k r Ekb) in Hp.
    destruct (assoc_get k mb) as [cb|]; [eauto|discriminate].
  Qed.

  Lemma map_child_leaves : forall tr t a b ma mb k ca cb,
    kind_of s tr a = KMap t ma -> kind_of s tr b = KMap t mb ->
    assoc_get k ma = Some ca -> assoc_get k mb = Some cb ->
    leaves_in tr a b -> leaves_in (field_type t k) ca cb.
  Proof.
    intros tr t a b ma mb k ca cb Eka Ekb Ga Gb H p n Hp Hres Hl.
    specialize (H (PEField k :: p) n).
    rewrite (resolve_path_map _ _ _ _ _ k p Eka), Ga in H. unfold has_leaf in H |- *.
    rewrite (resolve_path_map _ _ _ _ _ k p Ekb), Gb in H.
    assert (Hp' : wf_path (PEField k :: p) = true) by (apply wf_path_cons; split; [reflexivity|exact Hp]).
    apply H; auto.
  Qed.

  (* ----- lists ----- *)
  Lemma list_ok : forall tr dup t a l, R tr -> wf_value a = true -> conforms s tr dup a = true ->
    kind_of s tr a = KList t l ->
    a = VList l /\ R (list_elem t) /\ forallb (has_pe s t) l = true /\ items_wf s t l /\
    (forall x, In x l -> wf_value x = true /\ conforms s (list_elem t) dup x = true /\
                         vdepth x < vdepth a) /\
    (dup || all_distinct (pes_of s t l) = true).
  Proof.
    intros tr dup t a l Htr Wa Ca Ek.
    destruct (kind_list_inv _ _ _ _ _ Ek) as (at0 & _ & _ & Hv & _ & _). subst a.
    destruct (conf_list_facts s R Hok Hfam tr dup t l Htr Ca Ek)
      as (sc & ma & Hr & Hte & Hna & Hlne & Hhp & Hcs & Hd).
    split; [reflexivity|]. split; [exact Hte|]. split; [exact Hhp|].
    split; [eapply items_wf_R; eauto|].
    split; [|exact Hd].
    intros x Hin. split; [eapply wf_value_list_in; eauto|].
    split; [rewrite forallb_forall in Hcs; exact (Hcs x Hin)|].
    apply vdepth_list_In. exact Hin.
  Qed.

  Lemma resolve_list_single : forall tr a t l e x rest, R tr -> wf_value a = true ->
    kind_of s tr a = KList t l -> forallb (has_pe s t) l = true ->
    wf_pe e = true -> is_keyval e = true -> occ s t e l = [x] ->
    resolve_path s tr a (e :: rest) = resolve_path s (list_elem t) x rest.
  Proof.
    intros tr a t l e x rest Htr Wa Ek Hhp We Hkv Ho.
    rewrite (resolve_path_list_occ s R Hok tr a t l e rest Htr Wa Ek We), Hhp, Hkv, Ho. reflexivity.
  Qed.

  Lemma distinct_single : forall t l x, forallb (has_pe s t) l = true -> items_wf s t l ->
    all_distinct (pes_of s t l) = true -> In x l -> occ s t (pe_of t x) l = [x].
  Proof.
    intros t l x Hhp Hiw Hd Hin.
    destruct (pe_of_facts t l x Hhp Hiw Hin) as (_ & We & _ & _ & Ho).
    apply length_lt2_in; [exact Ho|]. apply distinct_occ; assumption.
  Qed.

  (* a member of la, alone in its group, has a counterpart in lb *)
  Lemma member_transfer : forall tr t dupa dupb a b la lb, R tr ->
    wf_value a = true -> conforms s tr dupa a = true ->
    wf_value b = true -> conforms s tr dupb b = true ->
    kind_of s tr a = KList t la -> kind_of s tr b = KList t lb ->
    leaves_in tr a b ->
    (forall y, In y lb -> occ s t (pe_of t y) lb = [y]) ->
    forall x, In x la -> occ s t (pe_of t x) la = [x] ->
    exists x', In x' lb /\ peeqb (pe_of t x') (pe_of t x) = true /\ occ s t (pe_of t x) lb = [x'].
  Proof.
    intros tr t dupa dupb a b la lb Htr Wa Ca Wb Cb Eka Ekb H Hsb x Hin Hox.
    destruct (list_ok tr dupa t a la Htr Wa Ca Eka) as (_ & Rte & Hhpa & Hiwa & Hma & _).
    destruct (list_ok tr dupb t b lb Htr Wb Cb Ekb) as (_ & _ & Hhpb & Hiwb & Hmb & _).
    destruct (pe_of_facts t la x Hhpa Hiwa Hin) as (_ & We & Hkv & _ & _).
    destruct (Hma x Hin) as (Wx & Cx & _).
    destruct (leaf_beneath s R Hok Hfam (S (vdepth x)) (list_elem t) dupa x) as (r & n & Hr & Hres & Hl); auto.
    assert (Hp : present s tr b (pe_of t x :: r) = true).
    { eapply leaves_present; [exact H| | |exact Hl].
      - apply wf_path_cons. split; assumption.
      - rewrite (resolve_list_single tr a t la (pe_of t x) x r); assumption. }
    unfold present in Hp.
    rewrite (resolve_path_list_occ s R Hok tr b t lb (pe_of t x) r Htr Wb Ekb We), Hhpb, Hkv in Hp.
    cbn [andb] in Hp.
    destruct (occ s t (pe_of t x) lb) as [|x' more] eqn:Eo; [discriminate|].
    assert (Hx' : In x' (occ s t (pe_of t x) lb)) by (rewrite Eo; left; reflexivity).
    apply occ_In in Hx'. destruct Hx' as [Hx'in Hm].
    rewrite (matches_pe_of t lb _ x' Hhpb Hx'in) in Hm.
    destruct (pe_of_facts t lb x' Hhpb Hiwb Hx'in) as (_ & We' & _ & _ & _).
    exists x'. split; [exact Hx'in|]. split; [exact Hm|].
    rewrite <- Eo. rewrite <- (occ_cong s t lb (pe_of t x') (pe_of t x) Hiwb We' We Hm).
    apply Hsb. exact Hx'in.
  Qed.

  (* b has no group of duplicates when all its leaves are leaves of the duplicate-free a *)
  Lemma no_dup_transfer : forall tr t dupb a b la lb, R tr ->
    wf_value a = true -> conforms s tr false a = true ->
    wf_value b = true -> conforms s tr dupb b = true ->
    kind_of s tr a = KList t la -> kind_of s tr b = KList t lb ->
    leaves_in tr b a ->
    forall y, In y lb -> occ s t (pe_of t y) lb = [y].
  Proof.
    intros tr t dupb a b la lb Htr Wa Ca Wb Cb Eka Ekb H y Hin.
    destruct (list_ok tr dupb t b lb Htr Wb Cb Ekb) as (_ & _ & Hhpb & Hiwb & _ & _).
    destruct (pe_of_facts t lb y Hhpb Hiwb Hin) as (_ & We & Hkv & _ & Ho).
    destruct (occ s t (pe_of t y) lb) as [|y1 [|y2 more]] eqn:Eo.
    - destruct Ho.
    - destruct Ho as [Ho|[]]. subst y1. reflexivity.
    - exfalso.
      assert (Hr : resolve_path s tr b [pe_of t y] = Some (RDup (list_elem t) (y1 :: y2 :: more))).
      { rewrite (resolve_path_list_occ s R Hok tr b t lb (pe_of t y) [] Htr Wb Ekb We), Hhpb, Hkv, Eo.
        reflexivity. }
      assert (Hp : wf_path [pe_of t y] = true) by (apply wf_path_cons; split; [exact We|reflexivity]).
      specialize (H [pe_of t y] _ Hp Hr eq_refl). unfold has_leaf in H.
      destruct (resolve_path s tr a [pe_of t y]) as [[tr' z|tr' zs]|] eqn:Er; [| |discriminate].
      + cbn [rnode_eqb] in H. rewrite andb_false_r in H. discriminate.
      + exact (conforms_no_dup s R Hok Hfam [pe_of t y] a tr tr' zs Htr Wa Ca Hp Er).
  Qed.

  Lemma list_child_leaves : forall tr t a b la lb e x x', R tr ->
    wf_value a = true -> wf_value b = true ->
    kind_of s tr a = KList t la -> kind_of s tr b = KList t lb ->
    forallb (has_pe s t) la = true -> forallb (has_pe s t) lb = true ->
    wf_pe e = true -> is_keyval e = true ->
    occ s t e la = [x] -> occ s t e lb = [x'] ->
    leaves_in tr a b -> leaves_in (list_elem t) x x'.
  Proof.
    intros tr t a b la lb e x x' Htr Wa Wb Eka Ekb Hhpa Hhpb We Hkv Hoa Hob H p n Hp Hres Hl.
    specialize (H (e :: p) n).
    rewrite (resolve_list_single tr a t la e x p Htr Wa Eka Hhpa We Hkv Hoa) in H.
    unfold has_leaf in H |- *.
    rewrite (resolve_list_single tr b t lb e x' p Htr Wb Ekb Hhpb We Hkv Hob) in H.
    assert (Hp' : wf_path (e :: p) = true) by (apply wf_path_cons; split; assumption).
    apply H; auto.
  Qed.

  Lemma kdistinct_keyed : forall t (h : value -> value) l, forallb (has_pe s t) l = true ->
    items_wf s t l ->
    (forall x, In x l -> occ s t (pe_of t x) l = [x]) ->
    kdistinct (map (fun x => (pe_of t x, h x)) l).
  Proof.
    intros t h l. induction l as [|x l IH]; intros Hhp Hiw Ho; [constructor|].
    pose proof (pe_of_facts t (x :: l) x Hhp Hiw (or_introl eq_refl)) as (_ & Wx & _ & Hmx & _).
    pose proof Hhp as Hhp'. cbn [forallb] in Hhp'. apply andb_true_iff in Hhp'. destruct Hhp' as [_ Hhpl].
    assert (Hiwl : items_wf s t l).
    { intros z e Hz He. apply (Hiw z e (or_intror Hz) He). }
    cbn [map]. constructor.
    - intros y Hy. apply in_map_iff in Hy. destruct Hy as (z & <- & Hz). cbn [fst].
      intros Heq.
      destruct (pe_of_facts t (x :: l) z Hhp Hiw (or_intror Hz)) as (_ & Wz & _ & _ & _).
      apply (pecmp_eq_iff _ _ Wx Wz) in Heq. rewrite (peeqb_sym _ _ Wx Wz) in Heq.
      rewrite <- (matches_pe_of t l (pe_of t x) z Hhpl Hz) in Heq.
      pose proof (Ho x (or_introl eq_refl)) as Hox. unfold occ in Hox. cbn [filter] in Hox.
      rewrite Hmx in Hox. inversion Hox as [Hnil].
      assert (Hzin : In z (filter (pe_matches s t (pe_of t x)) l)) by (apply filter_In; auto).
      rewrite Hnil in Hzin. destruct Hzin.
    - apply IH; [exact Hhpl|exact Hiwl|].
      intros y Hy. pose proof (Ho y (or_intror Hy)) as Hoy. unfold occ in Hoy |- *.
      cbn [filter] in Hoy.
      destruct (pe_of_facts t l y Hhpl Hiwl Hy) as (_ & _ & _ & _ & Hyin). unfold occ in Hyin.
      destruct (pe_matches s t (pe_of t y) x); [|exact Hoy].
      inversion Hoy as [[Hxy Hnil]]. rewrite Hnil in Hyin. destruct Hyin.
  Qed.

  (* ----- the main induction ----- *)
  Lemma same_leaves_fuel : forall f v tr o, vdepth v < f -> R tr ->
    wf_value v = true -> conforms s tr false v = true ->
    wf_value o = true -> conforms s tr true o = true ->
    leaves_in tr v o -> leaves_in tr o v ->
    veqb (canon s tr o) (canon s tr v) = true.
  Proof.
    induction f as [|f IH]; intros v tr o Hd Htr Wv Cv Wo Co H1 H2; [lia|].
    pose proof (kinds_agree tr false true v o Htr Wv Cv Wo Co H1 H2) as Hk.
    destruct (kind_of s tr v) as [|t m|t l|] eqn:Ekv.
    - (* leaf *)
      assert (Lv : leafy s tr v) by (unfold leafy; rewrite Ekv; exact I).
      destruct (root_leaf tr v o H1 Lv) as [Lo He].
      rewrite (canon_leafy tr v Lv), (canon_leafy tr o Lo). exact He.
    - (* map *)
      destruct (kind_of s tr o) as [|t' m'|t' l'|] eqn:Eko; try contradiction.
      destruct (kind_map_inv _ _ _ _ _ Ekv) as (av & Hrv & Hamv & Hvv & _ & _).
      destruct (kind_map_inv _ _ _ _ _ Eko) as (ao & Hro & Hamo & Hvo & _ & _).
      assert (t' = t) by congruence. subst t'.
      rewrite (canon_map tr v t m Ekv), (canon_map tr o t m' Eko).
      assert (Sm : sorted_keys m = true).
      { subst v. cbn [wf_value] in Wv. apply andb_true_iff in Wv. tauto. }
      assert (Sm' : sorted_keys m' = true).
      { subst o. cbn [wf_value] in Wo. apply andb_true_iff in Wo. tauto. }
      apply (veqb_cmap (fun k c => canon s (field_type t k) c) (fun k c => canon s (field_type t k) c));
        try assumption.
      + intros k c Hin. eapply (map_key_transfer tr false t v o m m'); eauto.
      + intros k c Hin. eapply (map_key_transfer tr true t o v m' m); eauto.
      + intros k c c' Gc Gc'.
        destruct (map_child_ok tr false t v m k c Htr Wv Cv Ekv (assoc_get_In _ _ _ Gc)) as (Rc & Wc & Cc & _ & Dc).
        destruct (map_child_ok tr true t o m' k c' Htr Wo Co Eko (assoc_get_In _ _ _ Gc')) as (_ & Wc' & Cc' & _ & _).
        apply IH; try assumption; [lia| |].
        * eapply (map_child_leaves tr t v o); eauto.
        * eapply (map_child_leaves tr t o v); eauto.
    - (* list *)
      destruct (kind_of s tr o) as [|t' m'|t' l'|] eqn:Eko; try contradiction.
      destruct (kind_list_inv _ _ _ _ _ Ekv) as (av & Hrv & Halv & _ & _ & _).
      destruct (kind_list_inv _ _ _ _ _ Eko) as (ao & Hro & Halo & _ & _ & _).
      assert (t' = t) by congruence. subst t'.
      destruct (list_ok tr false t v l Htr Wv Cv Ekv) as (_ & Rte & Hhp & Hiw & Hm & Hdist).
      destruct (list_ok tr true t o l' Htr Wo Co Eko) as (_ & _ & Hhp' & Hiw' & Hm' & _).
      cbn [orb] in Hdist.
      assert (S1 : forall x, In x l -> occ s t (pe_of t x) l = [x]).
      { intros x Hin. apply distinct_single; assumption. }
      assert (S2 : forall y, In y l' -> occ s t (pe_of t y) l' = [y]).
      { eapply (no_dup_transfer tr t true v o l l'); eauto. }
      rewrite (canon_list tr v t l Ekv Hhp S1), (canon_list tr o t l' Eko Hhp' S2).
      rewrite veqb_list. apply Forall2_all2b.
      apply (psort_match (fun a b => veqb a b = true)).
      + apply kdistinct_keyed; assumption.
      + apply kdistinct_keyed; assumption.
      + intros a Ha. apply in_map_iff in Ha. destruct Ha as (x' & <- & Hx'). cbn [fst snd].
        destruct (member_transfer tr t true false o v l' l Htr Wo Co Wv Cv Eko Ekv H2 S1 x' Hx' (S2 x' Hx'))
          as (x & Hx & Hpe & Hox).
        exists (pe_of t x, canon s (list_elem t) x). cbn [fst snd].
        destruct (pe_of_facts t l' x' Hhp' Hiw' Hx') as (_ & We' & Hkv' & _ & _).
        destruct (pe_of_facts t l x Hhp Hiw Hx) as (_ & We & _ & _ & _).
        split; [apply in_map_iff; exists x; auto|].
        split; [apply (pecmp_eq_iff _ _ We' We); rewrite (peeqb_sym _ _ We' We); exact Hpe|].
        destruct (Hm x Hx) as (Wx & Cx & Dx). destruct (Hm' x' Hx') as (Wx' & Cx' & _).
        apply IH; try assumption; [lia| |].
        * eapply (list_child_leaves tr t v o l l' (pe_of t x')); eauto.
        * eapply (list_child_leaves tr t o v l' l (pe_of t x')); eauto.
      + intros b Hb. apply in_map_iff in Hb. destruct Hb as (x & <- & Hx). cbn [fst].
        destruct (member_transfer tr t false true v o l l' Htr Wv Cv Wo Co Ekv Eko H1 S2 x Hx (S1 x Hx))
          as (x' & Hx' & Hpe & _).
        exists (pe_of t x', canon s (list_elem t) x'). cbn [fst].
        destruct (pe_of_facts t l' x' Hhp' Hiw' Hx') as (_ & We' & _ & _ & _).
        destruct (pe_of_facts t l x Hhp Hiw Hx) as (_ & We & _ & _ & _).
        split; [apply in_map_iff; exists x'; auto|].
        apply (pecmp_eq_iff _ _ We' We). exact Hpe.
    - (* bad *)
      exfalso. exact (conforms_kind_not_bad s tr false v Cv Ekv).
  Qed.
End Main.

Theorem same_leaves_veq_assoc : forall s R tr v o,
  schema_ok s R -> family_refs s R -> R tr ->
  wf_value v = true -> conforms s tr false v = true -> plain v = true ->
  wf_value o = true -> conforms s tr true o = true ->
  (forall p n, wf_path p = true -> resolve_path s tr v p = Some n -> rnode_is_leaf s n = true ->
     has_leaf s tr o p n = true) ->
  (forall p n, wf_path p = true -> resolve_path s tr o p = Some n -> rnode_is_leaf s n = true ->
     has_leaf s tr v p n = true) ->
  veq_assoc s tr o v = true.
Proof.
  intros s R tr v o Hok Hfam Htr Wv Cv _ Wo Co H1 H2. unfold veq_assoc.
  apply (same_leaves_fuel s R Hok Hfam (S (vdepth v)) v tr o); auto.
Qed.

