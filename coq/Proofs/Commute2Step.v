(* One forced apply by a manager that abandons LEAVES only, each directly beneath a node of
   its new configuration ("shallow" abandonment): on leaves the step is a [dstep]
   (Proofs/Commute2Leaves.v) -- the configuration merged in, and exactly those abandoned
   leaves deleted that no other manager owns [shallow_dstep].  Helper of Proofs/Commute2.v.
   The prune stage is taken in the form  remove M (dangling_T (pass_T T0) last)
   (Proofs/OthersKeepPass.v, prune_shape_pass). *)
From Coq Require Import List ZArith String Bool Arith Lia.
From SMD Require Import Model.Value Model.Order Model.PathElem Model.PathSet Model.Schema Model.Walk
  Model.Validate Model.FieldSet Model.Remove Model.Merge Model.Compare Model.Matcher Model.Reconcile
  Model.Updater
  Spec.PathsAsSets Spec.RefValid Spec.Resolve Spec.Agree Spec.RefDiff Spec.Examples
  Proofs.OrderLaws Proofs.PathSetLaws Proofs.SchemaOk Proofs.FieldSetBase Proofs.FieldSetPaths
  Proofs.FieldSetWf Proofs.FieldSetLaws Proofs.RemoveAbsent Proofs.RemoveWf Proofs.ResolveLaws
  Proofs.UpdaterLaws Proofs.UpdaterLaws2 Proofs.MergeLaws Proofs.MergeAgree
  Proofs.RemoveFrame Proofs.EnLaws Proofs.NodeSet Proofs.KeyFields Proofs.VeqbResolve
  Proofs.SetCheckers Proofs.ApplyEffect Proofs.RefDiffBoth Proofs.RefDiffLaws Proofs.RefDiffPresent
  Proofs.ApplyInv Proofs.History Proofs.Reapply.
From SMD Require Import Proofs.CompareLaws Proofs.ReconcileTotal Proofs.ConflictsApply Proofs.ApplyPruneBase
  Proofs.RecordsHistory Proofs.TreeFacts Proofs.RemoveMono Proofs.PruneShape Proofs.OthersKeepPass
  Proofs.ApplyPrune Proofs.MergeThru
  Proofs.FieldSetShape Proofs.SameLeaves Proofs.CommuteLeaves Proofs.CommuteMod Proofs.CommuteSame
  Proofs.Commute Proofs.Commute2Leaves.
From SMD Require Proofs.MergeRest Proofs.MergeBase Proofs.ReconcileBase Proofs.MergeRestBase Proofs.OthersKeep.
Import ListNotations.
Open Scope bool_scope.
Open Scope list_scope.

Local Arguments ps_has : simpl never.
Local Arguments ps_with_prefix : simpl never.
Local Arguments ps_empty : simpl never.

(* membership in the union of the other managers' records *)
Lemma others_has_inv : forall mgr mf q, mf_ok mf -> wf_path q = true ->
  ps_has q (others_set mgr mf) = true ->
  exists m r, m <> mgr /\ mf_get m mf = Some r /\ ps_has q (mr_set r) = true.
Proof.
  intros mgr mf q Hmf Hq H. pose proof Hmf as [Hsorted Hall]. rewrite forallb_forall in Hall.
  assert (Hoks : forall S, In S (map (fun mr : string * mrec => mr_set (snd mr))
                    (filter (fun mr : string * mrec => negb (String.eqb (fst mr) mgr)) mf)) -> ps_ok S = true).
  { intros S HS. apply in_map_iff in HS. destruct HS as (mr & <- & Hin).
    apply filter_In in Hin. apply Hall. apply Hin. }
  destruct (fold_union_spec _ ps_empty_set ps_ok_empty Hoks) as [_ H2].
  unfold others_set in H. rewrite (H2 q Hq), ps_has_empty_set in H. cbn [orb] in H.
  apply existsb_exists in H. destruct H as (S & HS & HqS).
  apply in_map_iff in HS. destruct HS as ([m r] & <- & Hin). cbn [snd] in HqS.
  apply filter_In in Hin. destruct Hin as [Hin Hne]. cbn [fst] in Hne.
  apply negb_true_iff in Hne. apply String.eqb_neq in Hne.
  exists m, r. split; [exact Hne|]. split; [|exact HqS].
  apply in_assoc_get; assumption.
Qed.

Lemma others_has_intro : forall mgr mf q m r, mf_ok mf -> wf_path q = true ->
  m <> mgr -> mf_get m mf = Some r -> ps_has q (mr_set r) = true ->
  ps_has q (others_set mgr mf) = true.
Proof.
  intros mgr mf q m r Hmf Hq Hm Hg Hh.
  destruct (others_set_spec mgr mf Hmf) as [_ H]. apply (H q m r Hq); auto.
  apply assoc_get_in. exact Hg.
Qed.

Section Step.
  Variables (c : config) (R : typeref -> Prop) (ver : string).
  Let s := schema_of c ver.
  Let tr := tr_of c ver.

  (* every member of the manager's record is a node of the new configuration, or a leaf of
     the live object all of whose proper ancestors are nodes of the new configuration *)
  Definition shallow (cfg live : value) (mf : managed) (mgr : string) : Prop :=
    forall last p, mf_get mgr mf = Some last -> wf_path p = true -> ps_has p (mr_set last) = true ->
      present s tr cfg p = true \/
      ((exists n, resolve_path s tr live p = Some n /\ rnode_is_leaf s n = true) /\
       forall j, 1 <= j < List.length p -> present s tr cfg (firstn j p) = true).

  (* the leaves the apply deletes: abandoned, and in no other manager's record *)
  Definition Dd (mf : managed) (cfg : value) (mgr : string) (p : path) : Prop :=
    recf mf mgr p = true /\ present s tr cfg p = false /\ ps_has p (others_set mgr mf) = false.

  Lemma leafy_of_leaf : forall t x, rnode_is_leaf s (RNode t x) = true -> leafy s t x.
  Proof. intros t x H. cbn [rnode_is_leaf] in H. unfold leafy. destruct (kind_of s t x); try discriminate; exact I. Qed.

  Lemma firstn_len_app : forall (q r : path), firstn (List.length q) (q ++ r) = q.
  Proof. intros q r. rewrite firstn_app, Nat.sub_diag, firstn_all. cbn [firstn]. apply app_nil_r. Qed.

  Lemma present_firstn : forall v (w : path) i, present s tr v w = true -> present s tr v (firstn i w) = true.
  Proof. intros v w i H. rewrite <- (firstn_skipn i w) in H. apply (RemoveFrame.present_prefix s tr v _ _ H). Qed.

  Lemma shallow_dstep : forall live mf mgr cfg o mf',
    setting_ok c R ver -> state_ok c ver live mf -> op_ok c ver (HApply mgr cfg true) ->
    nodup s tr live -> solid s tr live -> shallow cfg live mf mgr ->
    apply_op c (ver, live) (ver, cfg) ver mf mgr true = UOk (o, mf') ->
    dstep s tr live cfg (Dd mf cfg mgr) (match o with Some t => snd t | None => live end).
  Proof.
    intros live mf mgr cfg o mf' Hset Hst Hop Nl Sl Hsh Happly.
    pose proof (state_ok_conforms c ver live mf _ Hst Hop) as Hcl. fold s tr in Hcl.
    pose proof Hset as (Hni & Hcid & Hok & Hfam & Hpure & Htr & Hkp).
    fold s tr in Hok, Hfam, Hpure, Htr, Hkp.
    pose proof Hkp as [Hnd Hks].
    pose proof Hop as (Hwc & Hcc & Hpl & Hgr). fold s tr in Hcc, Hgr.
    pose proof (so_wf c ver live mf Hst) as Hwl. pose proof (so_mf c ver live mf Hst) as Hmf.
    pose proof (so_single c ver live mf Hst) as Hsv. pose proof (so_current c ver live mf Hst) as Hcur.
    pose proof (so_present c ver live mf Hst) as Hown. fold s tr in Hown.
    assert (Hmine : forall r, mf_get mgr mf = Some r -> applier_record_ok s tr (mr_set r)).
    { intros r Hg. apply (so_records c ver live mf Hst mgr r Hg). }
    assert (Hothers : forall m r, m <> mgr -> mf_get m mf = Some r -> owns_live_keys s tr live (mr_set r)).
    { intros m r _ Hg. apply (so_records c ver live mf Hst m r Hg). }
    assert (Gl : good s tr live) by (split; assumption).
    assert (Cc : cfg_ok s tr cfg) by (repeat split; assumption).
    pose proof (cfg_good s tr cfg Cc) as Gc.
    destruct (apply_full c ver live cfg mf mgr true o mf' Hni Hcid Hsv Hmf Hcur Happly)
      as (M & set0 & n0 & pruned & n1 & cmp & n2 & Em & Eset0 & Epr & Eupd & Ho).
    fold s tr in Em, Eset0.
    destruct (merge_facts s R Hok Hfam tr live cfg M Htr Hwl Hwc Hcl Hcc Hpl Em) as (HwM & HcM & Hagr & Hlf).
    pose proof (mstep_merge s R Hok Hfam Hpure tr live cfg M Htr Gl Cc Em) as HM.
    assert (GM : good s tr M) by (split; assumption).
    pose proof (mstep_nodup s R Hok Hfam tr live cfg M Htr Nl Cc HM) as NM.
    pose proof (solid_mstep s R Hok Hfam tr live cfg M Htr Gl Sl Cc HM) as SM.
    (* what the shallowness says of a deleted path *)
    assert (HDsh : forall z, Dd mf cfg mgr z -> wf_path z = true ->
              exists last, mf_get mgr mf = Some last /\ ps_has z (mr_set last) = true /\
                (exists n, resolve_path s tr live z = Some n /\ rnode_is_leaf s n = true) /\
                forall j, 1 <= j < List.length z -> present s tr cfg (firstn j z) = true).
    { intros z (Hr & Hnp & _) Hz. unfold recf in Hr.
      destruct (mf_get mgr mf) as [last|] eqn:Hlast; [|discriminate].
      exists last. split; [reflexivity|]. split; [exact Hr|].
      destruct (Hsh last z Hlast Hz Hr) as [H|H]; [congruence|exact H]. }
    assert (HP : dstep s tr live cfg (Dd mf cfg mgr) (snd pruned)).
    { destruct (mf_get mgr mf) as [last|] eqn:Hlast.
      2:{ unfold prune in Epr. inversion Epr; subst pruned. cbn [snd].
          apply dstep_of_mstep; [|exact HM].
          intros p (Hr & _). unfold recf in Hr. rewrite Hlast in Hr. discriminate. }
      pose proof (so_nonempty c ver live mf Hst mgr last Hlast) as Hlne.
      assert (Hset0ok : ps_ok set0 = true) by (apply (to_field_set_ok s R tr cfg set0 Hok Htr Hwc Eset0)).
      destruct (managers_sets s tr ver live mf mgr set0 Hsv Hmf Hset0ok Hothers)
        as (HU & HUcfg & HUown & Hmav & Htarget & _).
      set (mfp := mf_set mgr {| mr_set := set0; mr_ver := ver; mr_applied := true |} mf) in *.
      set (U := union_all mfp ps_empty_set) in *.
      assert (Hlv : mr_ver last = ver).
      { apply String.eqb_eq. apply (single_version_get ver mf mgr last Hsv Hlast). }
      pose proof (mf_ok_get mf mgr last Hmf Hlast) as Hlok.
      pose proof (Hmine last eq_refl) as Hlrec.
      destruct (prune_shape_pass s R tr Hok Hfam Htr Hnd Hks live cfg M Hwc Hcc Hpl HwM HcM Hlf set0 U Eset0 HU
                  HUcfg HUown c ver Hcid eq_refl eq_refl n0 mfp mgr last pruned n1
                  Hmav Htarget Hlv Hlok Hlrec Hlne Epr) as (T0 & Hn0 & Hpruned).
      destruct (pass_set s R tr Hok Hfam Htr Hnd Hks live cfg M Hwc Hcc Hpl HwM HcM Hlf set0 U Eset0 HU
                  HUcfg HUown T0 Hn0) as (HokT1 & HhasT1 & Hn1).
      set (T1 := pass_T s tr M U T0) in *.
      destruct (dangling_set s R tr Hok Hfam Htr Hnd Hks M HwM HcM T1 (mr_set last) Hn1 Hlok (proj1 Hlrec))
        as (HokT2 & HhasT2 & HnT2).
      set (T2 := dangling_T s tr M T1 (mr_set last)) in *.
      destruct (removed_obj s R tr Hok Hfam Htr Hnd M HwM HcM T1 Hn1) as [HwP1 HcP1].
      destruct (removed_obj s R tr Hok Hfam Htr Hnd M HwM HcM T2 HnT2) as [HwP2 HcP2].
      assert (Hsp1 : sub_present s tr M T1).
      { intros q Hq Hq1. rewrite (HhasT1 q Hq) in Hq1. apply andb_true_iff in Hq1.
        apply (node_set_present s R Hok Hfam tr M q Htr HwM HcM Hq). apply Hq1. }
      assert (Hsp2 : sub_present s tr M T2).
      { intros q Hq Hq2. rewrite (HhasT2 q Hq) in Hq2. apply andb_true_iff in Hq2. destruct Hq2 as [Hq2 _].
        apply andb_true_iff in Hq2.
        apply (node_set_present s R Hok Hfam tr M q Htr HwM HcM Hq). apply Hq2. }
      (* the records of the other managers are part of U *)
      assert (HoU : forall q, wf_path q = true -> ps_has q (others_set mgr mf) = true -> ps_has q U = true).
      { intros q Hq Hqo. destruct (others_has_inv mgr mf q Hmf Hq Hqo) as (m & r & Hm & Hget & Hqr).
        assert (Hmfp : mf_ok mfp) by (apply mf_set_ok; assumption).
        assert (Hokp : forall mr, In mr mfp -> ps_ok (mr_set (snd mr)) = true).
        { intros mr Hin. destruct Hmfp as [_ Hall]. rewrite forallb_forall in Hall. exact (Hall mr Hin). }
        destruct (union_all_spec mfp ps_empty_set ps_ok_empty Hokp) as [_ HhasU]. fold U in HhasU.
        rewrite (HhasU q Hq), ps_has_empty_set. cbn [orb]. apply existsb_exists.
        exists (m, r). split; [|exact Hqr]. apply assoc_get_in.
        change (mf_get m mfp = Some r). unfold mfp. rewrite (mf_get_set_other m mgr _ mf Hm). exact Hget. }
      (* a node of the configuration is in the closure of U *)
      assert (HcU : forall q, wf_path q = true -> q <> [] -> present s tr cfg q = true ->
                ps_has q (ps_en s tr U) = true).
      { intros q Hq Hqne Hpr. apply present_resolve in Hpr. destruct Hpr as (nq & Hnq).
        apply (cfg_nodes_in_U s R tr Hok Hfam Htr cfg Hwc Hcc Hpl set0 U Eset0 HU HUcfg q nq Hq Hqne Hnq). }
      (* C: a leaf of M all of whose prefixes are in the closure of U survives the pass,
         with its prefixes *)
      assert (HC : forall w t x, wf_path w = true -> w <> [] ->
                resolve_path s tr M w = Some (RNode t x) -> rnode_is_leaf s (RNode t x) = true ->
                (forall j, 1 <= j <= List.length w -> ps_has (firstn j w) (ps_en s tr U) = true) ->
                forall j, 1 <= j <= List.length w ->
                  ps_has (firstn j w) (node_set s tr (remove s tr M T1)) = true).
      { intros w t x Hw Hwne Hres Hleaf HenU j Hj.
        assert (Et : touches w T1 = false).
        { destruct (touches w T1) eqn:E; [exfalso|reflexivity].
          apply (touches_iff w T1 HokT1 Hw) in E. destruct E as (i & Hi & Hmem).
          assert (Hwi : wf_path (firstn i w) = true) by (apply ReconcileBase.wf_path_firstn; exact Hw).
          rewrite (HhasT1 _ Hwi), (HenU i Hi), orb_true_r, andb_false_r in Hmem. discriminate. }
        destruct (remove_keeps s R Hok Hfam Hnd w M tr true T1 (RNode t x) Htr HwM HcM Hn1 Hw Hwne Hres Et)
          as (n' & Hn' & Hsm).
        rewrite (Hsm (or_introl Hsp1) Hleaf) in Hn'.
        apply (node_set_has s R Hok Hfam (firstn j w) (skipn j w) tr _ t x Htr HwP1 HcP1).
        - rewrite firstn_skipn. exact Hw.
        - apply firstn_nonnil; [lia|exact Hwne].
        - rewrite firstn_skipn. exact Hn'.
        - apply leafy_of_leaf. exact Hleaf.
        - intros ->. pose proof (SM w t (VList []) Hw Hwne Hres) as Hh. discriminate Hh. }
      (* K: a leaf of M that is not deleted is kept *)
      assert (HK : forall p n, wf_path p = true -> p <> [] -> resolve_path s tr M p = Some n ->
                rnode_is_leaf s n = true -> ~ Dd mf cfg mgr p ->
                resolve_path s tr (remove s tr M T2) p = Some n).
      { intros p n Hp Hpne Hn Ln HnD.
        destruct n as [t x|t xs]; [|exfalso; exact (NM p t xs Hp Hn)].
        destruct (touches p T2) eqn:Et.
        2:{ destruct (remove_keeps s R Hok Hfam Hnd p M tr true T2 (RNode t x) Htr HwM HcM HnT2 Hp Hpne Hn Et)
              as (n' & Hn' & Hsm).
            rewrite (Hsm (or_introl Hsp2) Ln) in Hn'. exact Hn'. }
        exfalso.
        apply (touches_iff p T2 HokT2 Hp) in Et. destruct Et as (j & Hj & Hmem).
        set (q' := firstn j p) in *.
        assert (Hq' : wf_path q' = true) by (apply ReconcileBase.wf_path_firstn; exact Hp).
        assert (Hq'ne : q' <> []) by (apply firstn_nonnil; [lia|exact Hpne]).
        assert (Hq'len : List.length q' = j) by (apply firstn_length_le; lia).
        rewrite (HhasT2 q' Hq') in Hmem. apply andb_true_iff in Hmem. destruct Hmem as [Hmem HqL].
        apply andb_true_iff in Hmem. destruct Hmem as [HqM HnotP1]. apply negb_true_iff in HnotP1.
        destruct (en_has_prefix s tr (mr_set last) q' Hlok Hq' HqL) as (r & Hr & Hm).
        assert (Hq'r : wf_path (q' ++ r) = true) by (apply ReconcileBase.wf_path_app; auto).
        destruct (present s tr cfg q') eqn:Ecq.
        - (* q' is a node of the configuration: it survives the pass *)
          pose proof Ecq as Ecq'. apply present_resolve in Ecq'. destruct Ecq' as (nq & Hnq).
          destruct (node_leaf_beneath s R Hok Hfam tr cfg q' nq Htr Gc Hq' Hnq) as (u & m & Hu & Hmu & Lm).
          assert (Hw : wf_path (q' ++ u) = true) by (apply ReconcileBase.wf_path_app; split; assumption).
          assert (Hwne : q' ++ u <> []) by (intros E; apply app_eq_nil in E; destruct E; contradiction).
          pose proof (ms_rw _ _ _ _ _ HM (q' ++ u) m Hw Hmu Lm) as H1.
          destruct (hl_inv s tr M (q' ++ u) m H1) as (m' & Hm' & Lm' & _).
          destruct m' as [t' x'|t' xs']; [|exfalso; exact (NM _ t' xs' Hw Hm')].
          assert (Hprw : present s tr cfg (q' ++ u) = true) by (unfold present; rewrite Hmu; reflexivity).
          assert (HenU : forall i, 1 <= i <= List.length (q' ++ u) ->
                    ps_has (firstn i (q' ++ u)) (ps_en s tr U) = true).
          { intros i Hi. apply HcU.
            - apply ReconcileBase.wf_path_firstn; exact Hw.
            - apply firstn_nonnil; [lia|exact Hwne].
            - apply present_firstn. exact Hprw. }
          assert (Hjw : 1 <= List.length q' <= List.length (q' ++ u)) by (rewrite app_length; lia).
          pose proof (HC (q' ++ u) t' x' Hw Hwne Hm' Lm' HenU (List.length q') Hjw) as HinP1.
          rewrite firstn_len_app in HinP1. rewrite HinP1 in HnotP1. discriminate.
        - (* q' is an abandoned leaf *)
          destruct (Hsh last (q' ++ r) Hlast Hq'r Hm) as [Hpc|[(nl & Hnl & Lnl) Hpre]].
          { apply RemoveFrame.present_prefix in Hpc. congruence. }
          destruct r as [|e r'].
          2:{ assert (Hlen : 1 <= List.length q' < List.length (q' ++ e :: r')).
              { rewrite app_length. cbn [List.length]. lia. }
              pose proof (Hpre (List.length q') Hlen) as H. rewrite firstn_len_app in H. congruence. }
          rewrite app_nil_r in *.
          (* the merged object has at q' the leaf of the live object *)
          assert (Hnone : resolve_path s tr cfg q' = None).
          { unfold present in Ecq. destruct (resolve_path s tr cfg q'); [discriminate|reflexivity]. }
          assert (Hpq : p = q' ++ skipn j p) by (unfold q'; symmetry; apply firstn_skipn).
          assert (Hint : forall j0, j0 < List.length q' -> interior_or_absent s tr cfg (firstn j0 q')).
          { intros j0 Hj0. unfold interior_or_absent. destruct j0 as [|j0].
            { cbn [firstn resolve_path]. exact Hgr. }
            assert (Hlen : 1 <= S j0 < List.length q') by lia.
            pose proof (Hpre (S j0) Hlen) as Hprj. unfold present in Hprj.
            destruct (resolve_path s tr cfg (firstn (S j0) q')) as [[ty y|ty ys]|] eqn:Ej; [| |discriminate].
            - destruct (leafy_or_granular s ty y) as [Ly|Gy]; [|exact Gy]. exfalso.
              assert (Hwj : wf_path (firstn (S j0) q') = true) by (apply ReconcileBase.wf_path_firstn; exact Hq').
              assert (Lj : rnode_is_leaf s (RNode ty y) = true).
              { cbn [rnode_is_leaf]. unfold leafy in Ly. destruct (kind_of s ty y); try contradiction; reflexivity. }
              pose proof (ms_rw _ _ _ _ _ HM _ _ Hwj Ej Lj) as H1.
              destruct (hl_inv s tr M _ _ H1) as (mj & Hmj & Lmj & _).
              pose proof Hn as Hn2. rewrite Hpq, <- (firstn_skipn (S j0) q'), <- app_assoc in Hn2.
              pose proof (leaf_stop s tr M _ _ mj _ Hmj Lmj Hn2) as E.
              apply app_eq_nil in E. destruct E as [E _].
              exact (skipn_nonnil (S j0) q' ltac:(lia) E).
            - apply (cfg_nodup s R Hok Hfam tr cfg Htr Cc (firstn (S j0) q') ty ys); [|exact Ej].
              apply ReconcileBase.wf_path_firstn; exact Hq'. }
          pose proof (merge_keeps_thru s R Hok Hfam Hpure tr live cfg M q' nl Htr Hwl Hwc Hcl Hcc Hpl Em
                        Hq' Hint Hnone Hnl) as HMq.
          pose proof Hn as Hn2. rewrite Hpq in Hn2.
          pose proof (leaf_stop s tr M q' (skipn j p) nl _ HMq Lnl Hn2) as Esk.
          rewrite Esk, app_nil_r in Hpq.
          (* p = q' is owned by another manager *)
          assert (Hoth : ps_has p (others_set mgr mf) = true).
          { destruct (ps_has p (others_set mgr mf)) eqn:E; [reflexivity|]. exfalso. apply HnD.
            split; [|split; [|exact E]].
            - unfold recf. rewrite Hlast, Hpq. exact Hm.
            - rewrite Hpq. exact Ecq. }
          assert (HenU : forall i, 1 <= i <= List.length p -> ps_has (firstn i p) (ps_en s tr U) = true).
          { intros i Hi. destruct (Nat.eq_dec i (List.length p)) as [->|Hneq].
            - rewrite firstn_all. apply (en_has_mono s tr U p HU Hp). apply (HoU p Hp Hoth).
            - apply HcU.
              + apply ReconcileBase.wf_path_firstn; exact Hp.
              + apply firstn_nonnil; [lia|exact Hpne].
              + rewrite Hpq. apply Hpre. rewrite <- Hpq. lia. }
          assert (Hjp : 1 <= List.length p <= List.length p) by (destruct p; [congruence|cbn [List.length]; lia]).
          pose proof (HC p t x Hp Hpne Hn Ln HenU (List.length p) Hjp) as HinP1.
          rewrite firstn_all, Hpq in HinP1. rewrite HinP1 in HnotP1. discriminate. }
      (* R: a deleted path is absent *)
      assert (HR : forall p, wf_path p = true -> Dd mf cfg mgr p ->
                present s tr (remove s tr M T2) p = false).
      { intros p Hp HD. destruct (HDsh p HD Hp) as (last' & Hl' & Hplast & (nl & Hnl & Lnl) & Hpre).
        inversion Hl'; subst last'. clear Hl'.
        destruct HD as (_ & Hnp & Hno).
        pose proof (has_nonnil _ _ Hplast) as Hpne.
        destruct nl as [tl xl|tl xsl]; [|exfalso; exact (Nl p tl xsl Hp Hnl)].
        assert (Hres : present s tr (match o with Some t => snd t | None => live end) p = false).
        { apply (apply_removes_abandoned c R ver (ver, live) (ver, cfg) mf mgr true o mf' last set0 p
                   Hni Hcid Hok Hfam Htr Hkp eq_refl eq_refl Hsv Hmf Hcur
                   (fun r Hg => proj1 (so_records c ver live mf Hst mgr r Hg)) Hothers Hwl Hwc Hcl Hcc Hpl Hgr
                   Happly Hlast Eset0 Hp Hpne Hplast).
          - intros q Hin. cbn [snd] in Hin. apply in_map_iff in Hin. destruct Hin as ([q0 b] & E & Hin).
            cbn [fst] in E. subst q0.
            destruct (nodes_sound s R Hok cfg tr q b Htr Hwc Hin) as (_ & Hq & nq & Hnq & _).
            destruct (is_prefix p q) eqn:Epq; [exfalso|reflexivity].
            assert (Hprq : present s tr cfg q = true) by (unfold present; rewrite Hnq; reflexivity).
            rewrite (OthersKeep.present_of_prefix s R Hok tr cfg p q Htr Hwc Hp Hq Epq Hprq) in Hnp. discriminate.
          - cbn [snd]. rewrite others_union_same. fold s tr.
            destruct (others_set_spec mgr mf Hmf) as [HokO _].
            destruct (ps_has p (ps_en s tr (others_set mgr mf))) eqn:E; [exfalso|reflexivity].
            destruct (en_has_prefix s tr (others_set mgr mf) p HokO Hp E) as (r & Hr & Hh).
            assert (Hpr : wf_path (p ++ r) = true) by (apply ReconcileBase.wf_path_app; auto).
            destruct (others_has_inv mgr mf (p ++ r) Hmf Hpr Hh) as (m & rm & Hm & Hg & Hhm).
            pose proof (Hown m rm (p ++ r) Hg Hpr Hhm) as Hprs. apply present_resolve in Hprs.
            destruct Hprs as (nr & Hnr).
            pose proof (leaf_stop s tr live p r _ nr Hnl Lnl Hnr) as Er. subst r. rewrite app_nil_r in Hh.
            congruence.
          - cbn [snd]. intros _. exists [], tl, xl. rewrite app_nil_r.
            split; [reflexivity|]. split; [exact Hnl|]. split; [apply leafy_of_leaf; exact Lnl|].
            intros ->. pose proof (Sl p tl (VList []) Hp Hpne Hnl) as Hh. discriminate Hh. }
        rewrite Hpruned in Ho. cbn [snd] in Ho.
        destruct Ho as [(-> & _ & Hv)| ->]; [|exact Hres].
        rewrite <- (ApplyPrune.veqb_present s R Hok Hfam tr live _ p Htr Hwl HwP2 Hcl HcP2 Hv Hp). exact Hres. }
      rewrite Hpruned. cbn [snd].
      (* the leaves of the configuration are kept *)
      assert (Hrw : forall p n, wf_path p = true -> resolve_path s tr cfg p = Some n -> rnode_is_leaf s n = true ->
                has_leaf s tr (remove s tr M T2) p n = true).
      { intros p n Hp Hr Ln.
        assert (Hpne : p <> []) by (intros ->; exact (root_not_leaf s tr cfg n Hgr Hr Ln)).
        pose proof (ms_rw _ _ _ _ _ HM p n Hp Hr Ln) as H1.
        destruct (hl_inv s tr M p n H1) as (m & Hm & Lm & Em').
        assert (HnD : ~ Dd mf cfg mgr p).
        { intros (_ & Hnp & _). unfold present in Hnp. rewrite Hr in Hnp. discriminate. }
        unfold has_leaf. rewrite (HK p m Hp Hpne Hm Lm HnD), Lm. exact Em'. }
      constructor.
      - split; assumption.
      - exact Hrw.
      - (* every leaf of the result comes from an operand *)
        intros p n Hp Hr Ln.
        destruct p as [|e0 p0].
        { exfalso.
          destruct (node_leaf_beneath s R Hok Hfam tr cfg [] (RNode tr cfg) Htr Gc eq_refl eq_refl)
            as (u & m & Hu & Hmu & Lm). cbn [app] in Hmu.
          pose proof (Hrw u m Hu Hmu Lm) as H1. destruct (hl_inv s tr _ u m H1) as (m' & Hm' & _ & _).
          pose proof (leaf_stop s tr _ [] u n m' Hr Ln Hm') as E. subst u.
          exact (root_not_leaf s tr cfg m Hgr Hmu Lm). }
        set (p := e0 :: p0) in *. assert (Hpne : p <> []) by discriminate.
        assert (HprP : present s tr (remove s tr M T2) p = true) by (unfold present; rewrite Hr; reflexivity).
        pose proof (remove_mono s R Hok Hfam Hnd p M tr true T2 Htr HwM HcM HnT2 Hp Hpne HprP) as HprM.
        apply present_resolve in HprM. destruct HprM as (nd & Hnd').
        assert (Et : touches p T2 = false).
        { destruct (touches p T2) eqn:E; [|reflexivity].
          pose proof (remove_drops s R Hok Hfam Hnd p M tr true T2 Htr HwM HcM HnT2 Hp E) as Hdr.
          change (remove_items s false tr T2 M) with (remove s tr M T2) in Hdr. congruence. }
        destruct (remove_keeps s R Hok Hfam Hnd p M tr true T2 nd Htr HwM HcM HnT2 Hp Hpne Hnd' Et)
          as (n' & Hn' & Hsm).
        change (remove_items s false tr T2 M) with (remove s tr M T2) in Hn'.
        rewrite Hr in Hn'. inversion Hn'; subst n'. clear Hn'.
        destruct (rnode_is_leaf s nd) eqn:Lnd.
        + rewrite (Hsm (or_introl Hsp2) eq_refl) in *.
          destruct (ms_fo _ _ _ _ _ HM p nd Hp Hnd' Lnd) as [H|H]; [left; exact H|right].
          split; [exact H|]. intros HD. rewrite (HR p Hp HD) in HprP. discriminate.
        + exfalso.
          destruct (node_leaf_beneath s R Hok Hfam tr M p nd Htr GM Hp Hnd') as (q & m & Hq & Hm & Lm).
          destruct q as [|eq q1].
          { rewrite app_nil_r in Hm. rewrite Hnd' in Hm. inversion Hm; subst m. congruence. }
          set (q := eq :: q1) in *.
          assert (Hz : wf_path (p ++ q) = true) by (apply ReconcileBase.wf_path_app; split; assumption).
          (* a leaf of M strictly beneath p that is kept *)
          assert (Hex : exists q2 m2, q2 <> [] /\ wf_path (p ++ q2) = true /\
                    resolve_path s tr M (p ++ q2) = Some m2 /\ rnode_is_leaf s m2 = true /\
                    ~ Dd mf cfg mgr (p ++ q2)).
          { set (k := List.length (p ++ q) - 1).
            assert (Hlenz : List.length (p ++ q) = List.length p + S (List.length q1)).
            { rewrite app_length. reflexivity. }
            assert (Hlenp : 1 <= List.length p) by (unfold p; cbn [List.length]; lia).
            destruct (present s tr cfg (firstn k (p ++ q))) eqn:Epar.
            - apply present_resolve in Epar. destruct Epar as (np & Hnp).
              assert (Hwk : wf_path (firstn k (p ++ q)) = true) by (apply ReconcileBase.wf_path_firstn; exact Hz).
              destruct (node_leaf_beneath s R Hok Hfam tr cfg _ np Htr Gc Hwk Hnp) as (u & mc & Hu & Hmc & Lmc).
              assert (Ek : firstn k (p ++ q) = p ++ firstn (k - List.length p) q).
              { rewrite firstn_app. rewrite (firstn_all2 p) by (unfold k; lia). reflexivity. }
              rewrite Ek, <- app_assoc in Hmc.
              assert (Hw2 : wf_path (p ++ firstn (k - List.length p) q ++ u) = true).
              { rewrite app_assoc, <- Ek. apply ReconcileBase.wf_path_app. split; assumption. }
              pose proof (ms_rw _ _ _ _ _ HM _ mc Hw2 Hmc Lmc) as H1.
              destruct (hl_inv s tr M _ mc H1) as (m2 & Hm2 & Lm2 & _).
              exists (firstn (k - List.length p) q ++ u), m2.
              split.
              { intros E. rewrite E, app_nil_r in Hm2. rewrite Hnd' in Hm2. inversion Hm2; subst m2. congruence. }
              split; [exact Hw2|]. split; [exact Hm2|]. split; [exact Lm2|].
              intros (_ & Hnpc & _). unfold present in Hnpc. rewrite Hmc in Hnpc. discriminate.
            - exists q, m. split; [discriminate|]. split; [exact Hz|]. split; [exact Hm|]. split; [exact Lm|].
              intros HD. destruct (HDsh _ HD Hz) as (_ & _ & _ & _ & Hpre).
              assert (Hk : 1 <= k < List.length (p ++ q)) by (unfold k; lia).
              rewrite (Hpre k Hk) in Epar. discriminate. }
          destruct Hex as (q2 & m2 & Hq2ne & Hw2 & Hm2 & Lm2 & HnD2).
          assert (Hne2 : p ++ q2 <> []) by (intros E; apply app_eq_nil in E; destruct E; contradiction).
          pose proof (HK (p ++ q2) m2 Hw2 Hne2 Hm2 Lm2 HnD2) as Hkept.
          exact (Hq2ne (leaf_stop s tr _ p q2 n m2 Hr Ln Hkept)).
      - (* what the configuration leaves open and is not deleted is kept *)
        intros p n Hp Hopen Hr Ln HnD.
        assert (Hpne : p <> []).
        { intros ->. destruct Hopen as [_ H]. cbn [resolve_path] in H. discriminate. }
        pose proof (ms_kp _ _ _ _ _ HM p n Hp Hopen Hr Ln) as H1.
        destruct (hl_inv s tr M p n H1) as (m & Hm & Lm & Em').
        unfold has_leaf. rewrite (HK p m Hp Hpne Hm Lm HnD), Lm. exact Em'.
      - intros z j HD Hz Hj. destruct (HDsh z HD Hz) as (_ & _ & _ & _ & Hpre). apply Hpre. exact Hj. }
    destruct Ho as [(-> & _ & Hv)| ->]; [|exact HP].
    apply (dstep_veqb s R Hok Hfam tr live cfg _ (snd pruned) live Htr Gl Cc Gl Hv HP).
  Qed.
End Step.
