(* C04 at the level of Apply, at every state that satisfies the invariant of
   Proofs/History.v, hence along every history.  Statements: Proofs/ConflictsApply_statements.v
   (both theorems VERBATIM, same Section structure).

   Delivered:
     apply_stages                    what an apply computes at such a state, whatever [force]:
                                     every stage before [update_core] succeeds and does not
                                     look at [force]
     forced_apply_succeeds           (1) a forced apply of an admissible configuration succeeds
     apply_conflicts_exact           (2) the non-forced apply returns what the forced one
                                     returns, or fails with a non-empty conflict list that
                                     lists exactly the pairs (other manager, path of its
                                     record) the reference diff live -> result reports as
                                     modified or added
     forced_apply_succeeds_along_histories, apply_conflicts_exact_along_histories
                                     the same at the state [run ops] of every history
     conflicts_apply_example         non-vacuity on ex_config: at the final state of the history
                                     of Proofs/History.v the non-forced apply fails with exactly
                                     one conflict pair, the forced one succeeds, and the pair is
                                     the one the theorem prescribes

   Proof.  Reconciliation is the identity [reconcile_managed_id], the merge succeeds
   [merge_total], the configuration has a field set [to_field_set_ok_family], the prune stage
   succeeds [prune_total] and returns a well-formed valid object px [prune_agrees], the
   comparison of live and px succeeds [compare_total]; none of these depends on [force].
   What remains is [update_core] on (live, px) with the applier's record replaced, for which
   Proofs/UpdaterLaws.v has the exact characterisation on the sets of the comparison;
   C11 [compare_refines_ref_diff_restricted] moves it to the reference diff.  When the forced
   apply answers "nothing to persist" the result is the live object, px is equal to it
   ([veqb]), the reference diff of the live object with itself is empty and the comparison
   of live and px reports nothing [Proofs/RefDiffVeqb.v], so there is no conflict. *)
From Coq Require Import List ZArith String Bool Arith Lia.
From SMD Require Import Model.Value Model.Order Model.PathElem Model.PathSet Model.Schema Model.Walk
  Model.Validate Model.FieldSet Model.Remove Model.Merge Model.Compare Model.Matcher Model.Reconcile
  Model.Updater
  Spec.PathsAsSets Spec.RefValid Spec.Resolve Spec.Agree Spec.RefDiff Spec.Examples
  Proofs.OrderLaws Proofs.PathSetLaws Proofs.SchemaOk Proofs.FieldSetBase Proofs.FieldSetPaths
  Proofs.FieldSetWf Proofs.FieldSetLaws Proofs.RemoveAbsent Proofs.RemoveWf Proofs.ResolveLaws
  Proofs.UpdaterLaws Proofs.UpdaterLaws2 Proofs.MergeLaws Proofs.MergeAgree
  Proofs.RemoveFrame Proofs.EnLaws Proofs.NodeSet Proofs.KeyFields Proofs.VeqbResolve
  Proofs.SetCheckers Proofs.ApplyEffect Proofs.RefDiffBoth Proofs.RefDiffLaws Proofs.RefDiffPresent
  Proofs.ApplyInv Proofs.History.
From SMD Require Import Proofs.CompareLaws Proofs.ApplyPruneBase Proofs.ReconcileTotal Proofs.PruneTotal
  Proofs.Reapply Proofs.RefDiffVeqb.
From SMD Require Proofs.MergeBase.
Import ListNotations.
Open Scope bool_scope.
Open Scope list_scope.

Local Arguments ps_has : simpl never.
Local Arguments ps_empty : simpl never.

(* the answer of Apply, given the outcome of [update_core] *)
Definition apply_answer (c : config) (ver : string) (live px : value)
  (u : ures (managed * comparison3 * nat)) : ures (option tv * managed) :=
  match u with
  | UErr e => UErr e
  | UOk (mf2, _, _) =>
      if negb (cfg_return_input_on_noop c) && veqb live px then UOk (None, mf2)
      else UOk (Some (ver, px), mf2)
  end.

Section ConflictsApply.
  Variables (c : config) (R : typeref -> Prop) (ver : string).
  Let s := schema_of c ver.
  Let tr := tr_of c ver.

  (* ================= the stages of an apply, whatever [force] ================= *)
  Lemma apply_stages : forall live mf mgr cfg fz,
    setting_ok c R ver -> state_ok c ver live mf -> op_ok c ver (HApply mgr cfg fz) ->
    exists set0 px n1 cmp,
      to_field_set s tr cfg = Some set0 /\ ps_ok set0 = true /\
      wf_value px = true /\ conforms s tr true px = true /\
      compare s tr live px = Some cmp /\
      forall force,
        apply_op c (ver, live) (ver, cfg) ver mf mgr force =
        apply_answer c ver live px
          (update_core c n1 (ver, live) (ver, px) ver (mf_set mgr (mkRec set0 ver true) mf) mgr force).
  Proof.
    intros live mf mgr cfg fz Hset Hst Hop.
    pose proof (state_ok_conforms c ver live mf _ Hst Hop) as Hcl. fold s tr in Hcl.
    pose proof Hset as (Hni & Hcid & Hok & Hfam & Hpure & Htr & Hkp).
    fold s tr in Hok, Hfam, Hpure, Htr, Hkp.
    pose proof Hkp as [Hnd Hks].
    pose proof Hop as (Hwc & Hcc & Hpl & Hgr). fold s tr in Hcc, Hgr.
    pose proof (so_wf c ver live mf Hst) as Hwl. pose proof (so_mf c ver live mf Hst) as Hmf.
    pose proof (so_single c ver live mf Hst) as Hsv.
    (* reconciliation *)
    destruct (reconcile_managed_id c R ver live mf Hcid Hok Hfam Hpure Htr Hwl Hcl Hmf Hsv
                (so_nonempty c ver live mf Hst) (so_present c ver live mf Hst)) as (n0 & Erec).
    (* merge *)
    destruct (merge_total s R tr live cfg Hok Hfam Htr Hwl Hwc Hcl Hcc) as (M & Em).
    destruct (merge_facts s R Hok Hfam tr live cfg M Htr Hwl Hwc Hcl Hcc Hpl Em) as (HwM & HcM & Hagr & Hlf).
    (* the field set of the configuration *)
    destruct (to_field_set_ok_family s R tr cfg Hok Htr Hfam Hwc (MergeBase.conforms_dup_mono s cfg tr Hcc))
      as (set0 & Eset0 & Hset0ok).
    set (rec0 := mkRec set0 ver true) in *.
    set (mfp := mf_set mgr rec0 mf) in *.
    assert (Hothers : forall m r, m <> mgr -> mf_get m mf = Some r -> owns_live_keys s tr live (mr_set r)).
    { intros m r _ Hg. apply (so_records c ver live mf Hst m r Hg). }
    pose proof (managers_sets s tr ver live mf mgr set0 Hsv Hmf Hset0ok Hothers) as HM.
    cbv zeta in HM. fold rec0 in HM. fold mfp in HM.
    destruct HM as (HU & HUcfg & HUown & Hmav & Htarget & _).
    set (U := union_all mfp ps_empty_set) in *.
    assert (Hlast : forall last, mf_get mgr mf = Some last ->
              mr_ver last = ver /\ ps_ok (mr_set last) = true /\ applier_record_ok s tr (mr_set last)).
    { intros last Hg. split; [|split].
      - apply String.eqb_eq. apply (single_version_get ver mf mgr last Hsv Hg).
      - apply (mf_ok_get mf mgr last Hmf Hg).
      - apply (so_records c ver live mf Hst mgr last Hg). }
    (* the prune stage *)
    assert (Hpr : exists pruned n1, prune c n0 (ver, M) mfp mgr (mf_get mgr mf) = UOk (pruned, n1)).
    { destruct (mf_get mgr mf) as [last|] eqn:El; [|exists (ver, M), n0; reflexivity].
      destruct (Hlast last eq_refl) as (Hlv & Hlok & Hlrec).
      destruct (prune_total s R tr Hok Hfam Htr Hnd Hks live cfg M Hwc Hcc Hpl Hgr HwM HcM Hagr Hlf
                  set0 U Eset0 HU HUcfg HUown c ver Hcid eq_refl eq_refl n0 mfp mgr last Hmav Htarget
                  Hlv Hlok Hlrec (so_nonempty c ver live mf Hst mgr last El))
        as (T1 & n1 & _ & _ & _ & _ & _ & _ & Epr).
      eexists. exists n1. exact Epr. }
    destruct Hpr as (pruned & n1 & Epr).
    destruct (prune_agrees s R tr Hok Hfam Htr Hnd Hks live cfg M Hwc Hcc Hpl Hgr HwM HcM Hagr Hlf
                set0 U Eset0 HU HUcfg HUown c ver Hcid eq_refl eq_refl
                n0 mfp mgr (mf_get mgr mf) pruned n1 Hmav Htarget Hlast Epr) as (Hpv & _ & HwP & HcP).
    destruct pruned as [pv px]. cbn [fst snd] in *. subst pv.
    destruct (compare_total s R tr live px Hok Hfam Htr Hwl HwP Hcl HcP) as (cmp & Hcmp).
    exists set0, px, n1, cmp.
    split; [exact Eset0|]. split; [exact Hset0ok|]. split; [exact HwP|]. split; [exact HcP|].
    split; [exact Hcmp|].
    intros force. unfold apply_op. cbn [fst snd]. rewrite Erec. fold s tr. rewrite Em.
    unfold to_fs. cbn [fst snd]. fold s tr. rewrite Eset0.
    rewrite (no_ignore_filter c ver Hni). cbn [filter_set]. fold rec0. fold mfp. rewrite Epr.
    unfold apply_answer.
    destruct (update_core c n1 (ver, live) (ver, px) ver mfp mgr force) as [[[mf2 cmp2] n2]|e]; reflexivity.
  Qed.

  (* a forced apply of an admissible configuration at a reachable state always succeeds *)
  Theorem forced_apply_succeeds : forall live mf mgr cfg,
    setting_ok c R ver -> state_ok c ver live mf -> op_ok c ver (HApply mgr cfg true) ->
    exists o mf', apply_op c (ver, live) (ver, cfg) ver mf mgr true = UOk (o, mf').
  Proof.
    intros live mf mgr cfg Hset Hst Hop.
    destruct (apply_stages live mf mgr cfg true Hset Hst Hop)
      as (set0 & px & n1 & cmp & Eset0 & Hset0ok & HwP & HcP & Hcmp & Heq).
    pose proof Hset as (Hni & _).
    pose proof (so_mf c ver live mf Hst) as Hmf. pose proof (so_single c ver live mf Hst) as Hsv.
    set (mfp := mf_set mgr (mkRec set0 ver true) mf) in *.
    assert (Hsvp : single_version ver mfp) by (apply mf_set_single; [assumption|reflexivity]).
    rewrite (Heq true).
    rewrite (update_core_single c n1 (ver, live) (ver, px) ver mfp mgr true cmp Hni Hsvp Hcmp).
    unfold ufinish. cbn [negb andb]. unfold apply_answer.
    destruct (negb (cfg_return_input_on_noop c) && veqb live px); eexists; eexists; reflexivity.
  Qed.

  (* the non-forced apply either returns exactly what the forced one returns, or fails with a
     conflict error that lists precisely the pairs (other manager, path of its record) that
     the forced apply changes or newly creates -- in terms of the independent reference
     diff between the live object and the object the forced apply yields *)
  Theorem apply_conflicts_exact : forall live mf mgr cfg o mf',
    setting_ok c R ver -> state_ok c ver live mf -> op_ok c ver (HApply mgr cfg true) ->
    apply_op c (ver, live) (ver, cfg) ver mf mgr true = UOk (o, mf') ->
    let res := match o with Some t => snd t | None => live end in
    let d := ref_diff s tr live res in
    let hits (m : string) (p : path) : Prop :=
      m <> mgr /\ (exists r, mf_get m mf = Some r /\ ps_has p (mr_set r) = true) /\
      (pmem p (rd_modified d) = true \/ pmem p (rd_added d) = true) in
    (apply_op c (ver, live) (ver, cfg) ver mf mgr false = UOk (o, mf') /\
     forall m p, wf_path p = true -> p <> [] -> ~ hits m p)
    \/
    (exists cs, apply_op c (ver, live) (ver, cfg) ver mf mgr false = UErr (EConflict cs) /\
                cs <> [] /\
                forall m p, wf_path p = true -> p <> [] ->
                  (conflict_listed cs m p = true <-> hits m p)).
  Proof.
    intros live mf mgr cfg o mf' Hset Hst Hop Happly res d hits.
    destruct (apply_stages live mf mgr cfg true Hset Hst Hop)
      as (set0 & px & n1 & cmp & Eset0 & Hset0ok & HwP & HcP & Hcmp & Heq).
    pose proof (state_ok_conforms c ver live mf _ Hst Hop) as Hcl. fold s tr in Hcl.
    pose proof Hset as (Hni & Hcid & Hok & Hfam & Hpure & Htr & Hkp).
    fold s tr in Hok, Hfam, Hpure, Htr, Hkp.
    pose proof (so_wf c ver live mf Hst) as Hwl. pose proof (so_mf c ver live mf Hst) as Hmf.
    pose proof (so_single c ver live mf Hst) as Hsv.
    set (mfp := mf_set mgr (mkRec set0 ver true) mf) in *.
    assert (Hmfp : mf_ok mfp) by (apply mf_set_ok; assumption).
    assert (Hsvp : single_version ver mfp) by (apply mf_set_single; [assumption|reflexivity]).
    assert (Hcmp_tv : compare_tv c (ver, live) (ver, px) = Some cmp) by exact Hcmp.
    assert (Hc : cmp_ok cmp) by (apply (compare_sets_ok s R tr live px cmp Hok Htr Hwl HwP Hcmp)).
    (* the forced apply *)
    rewrite (Heq true) in Happly. unfold apply_answer in Happly.
    destruct (update_core c n1 (ver, live) (ver, px) ver mfp mgr true) as [[[mf2 cmp2] n2]|e] eqn:Eupd;
      [|discriminate].
    (* the sets of the comparison against the reference diff live -> res *)
    assert (Href : forall p, wf_path p = true -> p <> [] ->
              ps_has p (modified cmp) = pmem p (rd_modified d) /\
              ps_has p (added cmp) = pmem p (rd_added d)).
    { intros p Hp Hne. unfold d, res.
      destruct (negb (cfg_return_input_on_noop c) && veqb live px) eqn:Enoop;
        inversion Happly; subst o mf'.
      - apply andb_true_iff in Enoop. destruct Enoop as [_ Hv].
        rewrite (ref_diff_same s R Hok Hfam tr live Htr Hwl Hcl). cbn.
        destruct (compare_veqb_quiet s R Hok Hfam Hpure tr live px cmp Htr Hwl HwP Hcl HcP Hv Hcmp p Hp Hne)
          as (_ & E2 & E3).
        split; assumption.
      - cbn [snd].
        destruct (compare_refines_ref_diff_restricted s R tr live px cmp Hok Hfam Hpure Htr Hwl HwP Hcl HcP
                    Hcmp p Hp Hne) as (_ & E2 & E3).
        split; assumption. }
    (* the prescribed pairs, on the sets of the comparison and on the reference diff *)
    assert (Hiff : forall m p, wf_path p = true -> p <> [] ->
              (is_conflict mfp mgr cmp m p = true <-> hits m p)).
    { intros m p Hp Hne. destruct (Href p Hp Hne) as [E2 E3]. unfold is_conflict, hits.
      destruct (String.eqb_spec m mgr) as [->|Hm]; cbn [negb andb].
      - split; [discriminate|]. intros [Hbad _]. contradiction Hbad. reflexivity.
      - unfold mfp. rewrite (mf_get_set_other m mgr _ mf Hm). rewrite E2, E3. split.
        + intros H. destruct (mf_get m mf) as [r|] eqn:Eg; [|discriminate].
          apply andb_true_iff in H. destruct H as [H1 H2]. apply orb_true_iff in H2.
          split; [exact Hm|]. split; [exists r; split; [reflexivity|exact H1]|exact H2].
        + intros (_ & (r & Eg & H1) & H2). rewrite Eg, H1. cbn [andb].
          apply orb_true_iff. exact H2. }
    destruct (update_core c n1 (ver, live) (ver, px) ver mfp mgr false) as [r|e] eqn:Eupd0.
    - (* no conflict: the same answer *)
      left. pose proof (update_core_noforce_ok c n1 (ver, live) (ver, px) ver mfp mgr r Eupd0) as E.
      rewrite Eupd in E. inversion E; subst r. clear E.
      split.
      + rewrite (Heq false), Eupd0. unfold apply_answer. exact Happly.
      + intros m p Hp Hne Hh. apply (Hiff m p Hp Hne) in Hh.
        destruct (proj2 (update_core_conflict_iff c n1 (ver, live) (ver, px) ver mfp mgr cmp
                           Hni Hsvp Hmfp Hcmp_tv Hc)) as (cs & Hcs).
        { exists m, p. split; [exact Hp|]. split; [exact Hne|exact Hh]. }
        rewrite Eupd0 in Hcs. discriminate.
    - (* a failure of the non-forced apply is a conflict *)
      right.
      destruct (update_core_noforce_err c n1 (ver, live) (ver, px) ver mfp mgr e Eupd0)
        as [(cs & r & -> & Hcsne & _)|Hbad]; [|rewrite Eupd in Hbad; discriminate].
      exists cs. split; [rewrite (Heq false), Eupd0; reflexivity|]. split; [exact Hcsne|].
      intros m p Hp Hne.
      rewrite (update_core_conflicts_exact c n1 (ver, live) (ver, px) ver mfp mgr cmp cs
                 Hni Hsvp Hmfp Hcmp_tv Hc Eupd0 m p Hp Hne).
      apply (Hiff m p Hp Hne).
  Qed.
End ConflictsApply.

(* ================= along histories ================= *)

Theorem forced_apply_succeeds_along_histories : forall c R ver ops mgr cfg,
  setting_ok c R ver -> Forall (op_ok c ver) ops -> op_ok c ver (HApply mgr cfg true) ->
  exists o mf',
    apply_op c (ver, fst (run c ver ops)) (ver, cfg) ver (snd (run c ver ops)) mgr true = UOk (o, mf').
Proof.
  intros c R ver ops mgr cfg Hset Hall Hop.
  apply (forced_apply_succeeds c R ver _ _ mgr cfg Hset (reachable_states_ok c R ver ops Hset Hall) Hop).
Qed.

Theorem apply_conflicts_exact_along_histories : forall c R ver ops mgr cfg o mf',
  setting_ok c R ver -> Forall (op_ok c ver) ops -> op_ok c ver (HApply mgr cfg true) ->
  let live := fst (run c ver ops) in
  let mf := snd (run c ver ops) in
  apply_op c (ver, live) (ver, cfg) ver mf mgr true = UOk (o, mf') ->
  let res := match o with Some t => snd t | None => live end in
  let d := ref_diff (schema_of c ver) (tr_of c ver) live res in
  let hits (m : string) (p : path) : Prop :=
    m <> mgr /\ (exists r, mf_get m mf = Some r /\ ps_has p (mr_set r) = true) /\
    (pmem p (rd_modified d) = true \/ pmem p (rd_added d) = true) in
  (apply_op c (ver, live) (ver, cfg) ver mf mgr false = UOk (o, mf') /\
   forall m p, wf_path p = true -> p <> [] -> ~ hits m p)
  \/
  (exists cs, apply_op c (ver, live) (ver, cfg) ver mf mgr false = UErr (EConflict cs) /\
              cs <> [] /\
              forall m p, wf_path p = true -> p <> [] ->
                (conflict_listed cs m p = true <-> hits m p)).
Proof.
  intros c R ver ops mgr cfg o mf' Hset Hall Hop live mf Happly.
  apply (apply_conflicts_exact c R ver live mf mgr cfg o mf' Hset
           (reachable_states_ok c R ver ops Hset Hall) Hop Happly).
Qed.

(* the state after the operation, along histories: a forced apply is never a no-op of the
   history for lack of success, and a non-forced apply that is refused leaves the state *)
Corollary forced_step_along_histories : forall c R ver ops mgr cfg,
  setting_ok c R ver -> Forall (op_ok c ver) ops -> op_ok c ver (HApply mgr cfg true) ->
  exists o mf',
    apply_op c (ver, fst (run c ver ops)) (ver, cfg) ver (snd (run c ver ops)) mgr true = UOk (o, mf') /\
    run c ver (ops ++ [HApply mgr cfg true]) =
      (match o with Some t => snd t | None => fst (run c ver ops) end, mf').
Proof.
  intros c R ver ops mgr cfg Hset Hall Hop.
  destruct (forced_apply_succeeds_along_histories c R ver ops mgr cfg Hset Hall Hop) as (o & mf' & H).
  exists o, mf'. split; [exact H|].
  unfold run. rewrite fold_left_app. cbn [fold_left hstep].
  fold (run c ver ops). rewrite H. destruct o as [t|]; reflexivity.
Qed.

(* ================= non-vacuity ================= *)

(* At the final state of the history of Proofs/History.v (four managers a, b, c, d) manager
   "b" applies a configuration that changes the number aa (owned by "a"), changes the value
   of the member z (its own) and claims the member y (owned by "a", unchanged).  Without
   force the apply is refused with exactly one conflict pair, (a, .aa); with force it
   succeeds; and the pair is the one the theorem prescribes. *)
Section Example.
  Open Scope string_scope.
  Let F := PEField.
  Let K (n : string) := PEKey [("name", VStr n)].

  Lemma cx_op_ok : op_ok ex_config "v1" (HApply "b" hx_cfg true).
  Proof. repeat split; try (vm_compute; reflexivity); vm_compute; exact I. Qed.

  Lemma cx_noforce :
    apply_op ex_config ("v1", hx_obj) ("v1", hx_cfg) "v1" hx_mf "b" false = UErr (EConflict [("a", [F "aa"])]).
  Proof. vm_compute. reflexivity. Qed.

  Example conflicts_apply_example :
    run ex_config "v1" hx_ops = (hx_obj, hx_mf) /\
    op_ok ex_config "v1" (HApply "b" hx_cfg true) /\
    apply_op ex_config ("v1", hx_obj) ("v1", hx_cfg) "v1" hx_mf "b" false = UErr (EConflict [("a", [F "aa"])]) /\
    (exists o mf', apply_op ex_config ("v1", hx_obj) ("v1", hx_cfg) "v1" hx_mf "b" true = UOk (o, mf')) /\
    (* by the theorem: the listed pair is a path of a's record that the forced apply modifies *)
    forall o mf', apply_op ex_config ("v1", hx_obj) ("v1", hx_cfg) "v1" hx_mf "b" true = UOk (o, mf') ->
      let res := match o with Some t => snd t | None => hx_obj end in
      let d := ref_diff ex_schema ex_rt hx_obj res in
      (exists r, mf_get "a" hx_mf = Some r /\ ps_has [F "aa"] (mr_set r) = true) /\
      (pmem [F "aa"] (rd_modified d) = true \/ pmem [F "aa"] (rd_added d) = true) /\
      (* ... and no other pair is: e.g. the member y, which "a" owns and "b" claims unchanged *)
      ~ (pmem [F "items"; K "y"] (rd_modified d) = true \/ pmem [F "items"; K "y"] (rd_added d) = true).
  Proof.
    split; [exact hx_run|]. split; [exact cx_op_ok|]. split; [exact cx_noforce|].
    pose proof (forced_apply_succeeds_along_histories ex_config FieldSetLaws.ex_R "v1" hx_ops "b" hx_cfg
                  ex_setting_ok hx_ops_ok cx_op_ok) as T1.
    pose proof (fun o mf' => apply_conflicts_exact_along_histories ex_config FieldSetLaws.ex_R "v1" hx_ops "b"
                  hx_cfg o mf' ex_setting_ok hx_ops_ok cx_op_ok) as T2.
    rewrite hx_run in T1, T2. cbn [fst snd] in T1, T2.
    split; [exact T1|].
    intros o mf' Happly res d.
    specialize (T2 o mf' Happly). cbv zeta in T2.
    change (schema_of ex_config "v1") with ex_schema in T2. change (tr_of ex_config "v1") with ex_rt in T2.
    fold res in T2. fold d in T2.
    destruct T2 as [[Hsame _]|(cs & Hcs & _ & Hlist)].
    { rewrite cx_noforce in Hsame. discriminate Hsame. }
    rewrite cx_noforce in Hcs. inversion Hcs; subst cs. clear Hcs.
    assert (Hp1 : wf_path [F "aa"] = true) by reflexivity.
    assert (Hp2 : wf_path [F "items"; K "y"] = true) by reflexivity.
    assert (Hl1 : conflict_listed [("a", [F "aa"])] "a" [F "aa"] = true) by (vm_compute; reflexivity).
    destruct (proj1 (Hlist "a" [F "aa"] Hp1 ltac:(intros Hnil; discriminate Hnil)) Hl1) as (_ & Hrec & Hd).
    split; [exact Hrec|]. split; [exact Hd|].
    intros Hd2.
    assert (Hbad : conflict_listed [("a", [F "aa"])] "a" [F "items"; K "y"] = true).
    { apply (Hlist "a" [F "items"; K "y"] Hp2 ltac:(intros Hnil; discriminate Hnil)).
      split; [intros Hab; discriminate Hab|]. split; [|exact Hd2].
      exists (mkRec (ps_of_paths [[F "aa"]; [F "items"; K "y"]; [F "items"; K "y"; F "name"]]) "v1" true).
      split; vm_compute; reflexivity. }
    vm_compute in Hbad. discriminate Hbad.
  Qed.
End Example.

