(* C20: reconciling a field set with a schema in which fields turned atomic
   (Model/Reconcile.v, reconcile_field_set) against the reference of Spec/TypeAt.v.
   Every theorem is proved with Qed.  The groundwork is in Proofs/ReconcileBase.v.

   The two stated theorems (reconcile_exact, reconcile_idempotent) are FALSE under the
   hypotheses of ReconcileLaws_statements.v alone; three further hypotheses are needed
   (each one is shown necessary by a fully proved counterexample at the end of the file):
     - walkable s R          every non-empty reference reached resolves to an atom with
                             exactly one member, and list element types are non-empty
                             references (otherwise the walker reports an error, or
                             handle_atom and is_atomic_type dispatch differently);
     - is_empty_tr tr = false    the root reference is not the empty reference (error);
     - is_atomic_type s tr = false   the root type itself is not atomic (the walker then
                             reports the root path, which no set can hold, and does not
                             descend, while the reference only looks at non-root prefixes).
   reconcile_exact_gen / reconcile_idempotent_gen are the same theorems under the weaker
   [walkable_gen] (atoms may have several members as long as walker and reference dispatch
   alike), from which the stated forms follow. *)
From Coq Require Import List ZArith String Bool Arith Lia.
From SMD Require Import Model.Value Model.Order Model.PathElem Model.PathSet Model.Schema Model.Walk
  Model.Reconcile Spec.PathsAsSets Spec.TypeAt Proofs.OrderLaws Proofs.PathSetLaws Proofs.SchemaOk.
From SMD Require Import Proofs.ReconcileBase.
From SMD Require Proofs.TrieBase.
Import ListNotations.
Open Scope bool_scope.

(* every path of the set is typed by the schema, and no reachable map is the schemaless
   "untyped deduced" map, which the walker skips: find the weakest natural form *)
Definition typed_paths (s : schema) (tr : typeref) (fs : pset) : Prop :=
  forall p, In p (ps_elems fs) -> type_at s tr p <> None.

(* ---- the additional hypotheses ---- *)

(* the generated family: an atom is a scalar, a list or a map *)
Definition atom_one_member (a : atom) : bool :=
  match a with
  | Atom (Some _) None None | Atom None (Some _) None | Atom None None (Some _) => true
  | _ => false
  end.

Definition walkable (s : schema) (R : typeref -> Prop) : Prop :=
  (forall t, R t -> is_empty_tr t = false ->
     exists a, resolve s t = Some a /\ atom_one_member a = true) /\
  (forall t a l, R t -> resolve s t = Some a -> atom_list a = Some l ->
     is_empty_tr (list_elem l) = false).

Lemma walkable_gen_of : forall s R, walkable s R ->
  (forall tr' m, R tr' -> resolve s tr' = Some (Atom None None (Some m)) -> is_untyped_deduced_map m = false) ->
  walkable_gen s R.
Proof.
  intros s R [H1 H2] Hud. split.
  - intros t Rt Hne. destruct (H1 t Rt Hne) as (a & Hres & Hone). exists a. split; [exact Hres|].
    destruct a as [[sc|] [l|] [m|]]; try discriminate Hone; (split; [reflexivity|]);
      intros m' E; try discriminate E.
    inversion E; subst m'. apply (Hud t m Rt Hres).
  - intros t a l Rt Hres _ Hl. apply (H2 t a l Rt Hres Hl).
Qed.

(* ---- small facts about membership ---- *)

Lemma pmem_true : forall p l, pmem p l = true <-> exists q, In q l /\ patheqb p q = true.
Proof. intros p l. unfold pmem. apply existsb_exists. Qed.

Lemma in_elems_has : forall fs m, ps_ok fs = true -> In m (ps_elems fs) ->
  wf_path m = true /\ ps_has m fs = true.
Proof.
  intros fs m Hok Hin. pose proof (ps_elems_wf fs Hok) as Hwf. rewrite forallb_forall in Hwf.
  pose proof (Hwf m Hin) as Wm. split; [exact Wm|]. rewrite ps_has_elems by assumption.
  apply pmem_true. exists m. split; [exact Hin|apply patheqb_refl; exact Wm].
Qed.

Lemma has_in_elems : forall fs m, ps_ok fs = true -> wf_path m = true -> ps_has m fs = true ->
  exists m0, In m0 (ps_elems fs) /\ wf_path m0 = true /\ patheqb m m0 = true.
Proof.
  intros fs m Hok Wm Hm. rewrite ps_has_elems in Hm by assumption. apply pmem_true in Hm.
  destruct Hm as [m0 [Hin He]]. exists m0. split; [exact Hin|]. split; [|exact He].
  apply (in_elems_has fs m0 Hok Hin).
Qed.

Lemma has_prefix_in_true : forall p T, has_prefix_in p T = true <->
  exists n, 1 <= n <= List.length p /\ ps_has (firstn n p) T = true.
Proof.
  intros p T. unfold has_prefix_in. rewrite existsb_exists. split.
  - intros [n [Hin H]]. apply in_seq in Hin. exists n. split; [lia|exact H].
  - intros [n [Hn H]]. exists n. split; [apply in_seq; lia|exact H].
Qed.

Lemma typed_has_of_paths : forall s tr fs, ps_ok fs = true -> typed_paths s tr fs -> typed_has s tr fs.
Proof.
  intros s tr fs Hok Hty m Wm Hm. destruct (has_in_elems fs m Hok Wm Hm) as (m0 & Hin & _ & He).
  rewrite (type_at_eqb s m m0 tr He). apply (Hty m0 Hin).
Qed.

Lemma aroot_wf : forall s t m q, wf_path m = true -> aroot s t m = Some q -> wf_path q = true.
Proof.
  intros s t m q Wm H. destruct (aroot_prefix s m t q H) as [E _]. rewrite E.
  apply wf_path_firstn. exact Wm.
Qed.

Lemma firstn_full : forall (p : path) n, List.length (firstn n p) = List.length p -> firstn n p = p.
Proof.
  intros p n H. rewrite firstn_length in H. apply firstn_all2. lia.
Qed.

(* ================= the general form ================= *)

Section General.
  Variables (s : schema) (R : typeref -> Prop) (tr : typeref).
  Hypothesis Hso : schema_ok s R.
  Hypothesis Hw : walkable_gen s R.
  Hypothesis Rtr : R tr.
  Hypothesis Hroot_ne : is_empty_tr tr = false.
  Hypothesis Hroot_na : is_atomic_type s tr = false.

  (* the walker at the root *)
  Lemma rw_root : forall fs, ps_ok fs = true -> typed_has s tr fs ->
    exists L, reconcile_w (S (ps_depth fs)) s tr [] (Some fs) false = (false, L) /\
      rw_sound s tr [] fs L /\ rw_complete s tr [] fs L.
  Proof.
    intros fs Hok Hty. apply (rw_main s R Hso Hw); auto.
  Qed.

  Theorem reconcile_exact_gen : forall fs, ps_ok fs = true -> typed_paths s tr fs ->
    match reconcile_field_set s tr fs with
    | None => False
    | Some None => forall p, In p (ps_elems fs) -> reconcile_path s tr p = p
    | Some (Some out) =>
        ps_ok out = true /\
        forall p, wf_path p = true -> p <> [] ->
          ps_has p out = pmem p (reconcile_ref s tr (ps_elems fs))
    end.
  Proof.
    intros fs Hok Htp. pose proof (typed_has_of_paths s tr fs Hok Htp) as Hty.
    destruct (rw_root fs Hok Hty) as (L & HL & Hs & Hc).
    unfold reconcile_field_set. rewrite HL.
    pose proof (rw_sound_wf s tr [] fs L eq_refl Hs) as HwfL.
    destruct L as [|l0 L'].
    - (* unchanged: no member lies strictly beneath an atomic prefix *)
      intros p Hin. destruct (in_elems_has fs p Hok Hin) as [Wp Hp].
      rewrite reconcile_path_aroot. destruct (aroot s tr p) as [q|] eqn:Har; [|reflexivity].
      destruct (aroot_prefix s p tr q Har) as [E Hl].
      destruct (Nat.eq_dec (List.length q) (List.length p)) as [El|Nl].
      + rewrite E, El. apply firstn_all.
      + destruct (Hc p q Wp Hp Har) as (q0 & [] & _). lia.
    - set (L := l0 :: L') in *. set (T := ps_of_paths L).
      assert (forallb wf_path L = true) as HwfL' by (apply forallb_forall; exact HwfL).
      assert (ps_ok T = true) as HT by (apply ps_of_paths_ok; exact HwfL').
      assert (forall x, wf_path x = true -> x <> [] -> ps_has x T = pmem x L) as HTh
        by (intros x Wx Nx; apply ps_has_of_paths; assumption).
      destruct (ps_rdiff_spec fs T Hok HT) as [HokR HR].
      destruct (ps_union_spec _ _ HokR HT) as [HokU HU].
      split; [exact HokU|]. intros p Wp Np.
      rewrite (HU p Wp), (HR p Wp). apply bool_eq_of_iff.
      (* a member equal to p whose atomic root is absent or itself: p stays *)
      assert (forall m0, In m0 (ps_elems fs) -> patheqb p m0 = true ->
                aroot s tr m0 = None \/ aroot s tr m0 = Some m0 ->
                ps_has p fs && negb (has_prefix_in p T) || ps_has p T = true) as Hstay.
      { intros m0 Hin He Hroot. destruct (in_elems_has fs m0 Hok Hin) as [Wm0 Hm0].
        assert (ps_has p fs = true) as Hpfs.
        { rewrite ps_has_elems by assumption. apply pmem_true. exists m0. auto. }
        rewrite Hpfs. destruct (has_prefix_in p T) eqn:Hpre; [|reflexivity]. cbn [negb andb orb].
        apply has_prefix_in_true in Hpre. destruct Hpre as (n & Hn & Hpn).
        assert (firstn n p <> []) as Nn by (destruct p, n; simpl; try congruence; lia).
        rewrite HTh in Hpn by (try apply wf_path_firstn; assumption).
        apply pmem_true in Hpn. destruct Hpn as (q0 & Hq0 & Hpq0).
        destruct (Hs q0 Hq0) as (m & q' & Wm & Hm & Har & Hlen & Eq). cbn [app] in Eq. subst q0.
        assert (List.length q' = n) as Hlq.
        { apply patheqb_length in Hpq0. rewrite firstn_length in Hpq0. lia. }
        assert (patheqb (firstn (List.length q') m0) q' = true) as Hsim.
        { rewrite Hlq. apply (patheqb_trans _ (firstn n p)).
          - apply wf_path_firstn; exact Wm0.
          - apply wf_path_firstn; exact Wp.
          - apply (aroot_wf s tr m q' Wm Har).
          - apply patheqb_firstn. apply patheqb_sym_true; assumption.
          - exact Hpq0. }
        pose proof (aroot_sim s m tr q' m0 Har Hsim) as Har0. rewrite Hlq in Har0.
        destruct Hroot as [Hr|Hr]; rewrite Hr in Har0; [discriminate|].
        inversion Har0 as [E0].
        assert (List.length m0 = List.length p) as Hlen0 by (symmetry; apply patheqb_length; exact He).
        assert (firstn n p = p) as Efull.
        { apply firstn_full. rewrite firstn_length. rewrite E0 in Hlen0 at 1.
          rewrite firstn_length in Hlen0. lia. }
        rewrite Efull in Hpq0. rewrite HTh by assumption. apply pmem_true. exists q'. auto. }
      split.
      + (* a member of the result is the reconciled form of a member *)
        intros H. apply orb_true_iff in H. destruct H as [H|H].
        * apply andb_true_iff in H. destruct H as [Hpfs Hnp]. apply negb_true_iff in Hnp.
          destruct (has_in_elems fs p Hok Wp Hpfs) as (m0 & Hin & Wm0 & He).
          apply pmem_true. exists (reconcile_path s tr m0). split; [apply in_map; exact Hin|].
          rewrite reconcile_path_aroot. destruct (aroot s tr m0) as [q|] eqn:Har; [|exact He].
          destruct (aroot_prefix s m0 tr q Har) as [E Hl].
          destruct (Nat.eq_dec (List.length q) (List.length m0)) as [El|Nl].
          { rewrite E, El, firstn_all. exact He. }
          exfalso. destruct (in_elems_has fs m0 Hok Hin) as [_ Hm0].
          destruct (Hc m0 q Wm0 Hm0 Har) as (q0 & Hq0 & Hpq0); [lia|]. cbn [app] in Hpq0.
          assert (has_prefix_in p T = true) as Hpre; [|congruence].
          apply has_prefix_in_true. exists (List.length q).
          assert (List.length p = List.length m0) as Hlp by (apply patheqb_length; exact He).
          split; [lia|].
          assert (firstn (List.length q) p <> []) as Nn
            by (destruct p; [congruence|]; destruct (List.length q); [lia|]; simpl; congruence).
          rewrite HTh by (try apply wf_path_firstn; assumption).
          apply pmem_true. exists q0. split; [exact Hq0|].
          apply (patheqb_trans _ q).
          -- apply wf_path_firstn; exact Wp.
          -- apply (aroot_wf s tr m0 q Wm0 Har).
          -- apply (HwfL q0 Hq0).
          -- rewrite E at 2. apply patheqb_firstn. exact He.
          -- apply patheqb_sym_true; [apply (HwfL q0 Hq0)|apply (aroot_wf s tr m0 q Wm0 Har)|exact Hpq0].
        * rewrite HTh in H by assumption. apply pmem_true in H. destruct H as (q0 & Hq0 & Hpq0).
          destruct (Hs q0 Hq0) as (m & q' & Wm & Hm & Har & Hlen & Eq). cbn [app] in Eq. subst q0.
          destruct (has_in_elems fs m Hok Wm Hm) as (m0 & Hin & Wm0 & He).
          destruct (aroot_eqb s tr m m0 q' Wm Wm0 He Har) as (q0' & Har0 & Hqq & _).
          apply pmem_true. exists (reconcile_path s tr m0). split; [apply in_map; exact Hin|].
          rewrite reconcile_path_aroot, Har0.
          apply (patheqb_trans _ q');
            [exact Wp|apply (aroot_wf s tr m q' Wm Har)|apply (aroot_wf s tr m0 q0' Wm0 Har0)
            |exact Hpq0|exact Hqq].
      + (* the reconciled form of a member is in the result *)
        intros H. apply pmem_true in H. destruct H as (x & Hx & Hpx).
        unfold reconcile_ref in Hx. apply in_map_iff in Hx. destruct Hx as (m0 & Ex & Hin). subst x.
        destruct (in_elems_has fs m0 Hok Hin) as [Wm0 Hm0].
        rewrite reconcile_path_aroot in Hpx.
        destruct (aroot s tr m0) as [q|] eqn:Har; [|apply (Hstay m0 Hin Hpx); left; exact Har].
        destruct (aroot_prefix s m0 tr q Har) as [E Hl].
        destruct (Nat.eq_dec (List.length q) (List.length m0)) as [El|Nl].
        { assert (q = m0) as Eq by (rewrite E, El; apply firstn_all). subst q.
          apply (Hstay m0 Hin Hpx). right; exact Har. }
        destruct (Hc m0 q Wm0 Hm0 Har) as (q0 & Hq0 & Hpq0); [lia|]. cbn [app] in Hpq0.
        apply orb_true_iff. right. rewrite HTh by assumption. apply pmem_true.
        exists q0. split; [exact Hq0|].
        apply (patheqb_trans _ q);
          [exact Wp|apply (aroot_wf s tr m0 q Wm0 Har)|apply (HwfL q0 Hq0)|exact Hpx|].
        apply patheqb_sym_true; [apply (HwfL q0 Hq0)|apply (aroot_wf s tr m0 q Wm0 Har)|exact Hpq0].
  Qed.

  Theorem reconcile_idempotent_gen : forall fs out, ps_ok fs = true -> typed_paths s tr fs ->
    reconcile_field_set s tr fs = Some (Some out) ->
    reconcile_field_set s tr out = Some None.
  Proof.
    intros fs out Hok Htp Hrec. pose proof (reconcile_exact_gen fs Hok Htp) as Hex.
    rewrite Hrec in Hex. destruct Hex as [Hoko Hmem].
    (* a member of the result is (equal to) the reconciled form of a member *)
    assert (forall m, wf_path m = true -> ps_has m out = true ->
              exists m0, In m0 (ps_elems fs) /\ wf_path m0 = true /\
                         patheqb m (reconcile_path s tr m0) = true) as Hfrom.
    { intros m Wm Hm. assert (m <> []) as Nm by (intros E; subst; discriminate).
      rewrite (Hmem m Wm Nm) in Hm. apply pmem_true in Hm. destruct Hm as (x & Hx & Hpx).
      unfold reconcile_ref in Hx. apply in_map_iff in Hx. destruct Hx as (m0 & Ex & Hin). subst x.
      exists m0. split; [exact Hin|]. split; [apply (in_elems_has fs m0 Hok Hin)|exact Hpx]. }
    assert (typed_has s tr out) as Htyo.
    { intros m Wm Hm. destruct (Hfrom m Wm Hm) as (m0 & Hin & Wm0 & He).
      rewrite (type_at_eqb s m _ tr He). rewrite reconcile_path_aroot.
      destruct (aroot s tr m0) as [q|] eqn:Har; [|apply (Htp m0 Hin)].
      destruct (aroot_prefix s m0 tr q Har) as [E _]. rewrite E.
      apply (type_at_prefix s tr _ (skipn (List.length q) m0)). rewrite firstn_skipn.
      apply (Htp m0 Hin). }
    destruct (rw_root out Hoko Htyo) as (L & HL & Hs & _).
    unfold reconcile_field_set. rewrite HL. destruct L as [|q0 L']; [reflexivity|]. exfalso.
    destruct (Hs q0 (or_introl eq_refl)) as (m & q' & Wm & Hm & Har & Hlen & _).
    destruct (Hfrom m Wm Hm) as (m0 & Hin & Wm0 & He).
    rewrite reconcile_path_aroot in He. destruct (aroot s tr m0) as [q|] eqn:Har0.
    - pose proof (aroot_idem s tr m0 q Wm0 Har0) as Hqq.
      pose proof (aroot_wf s tr m0 q Wm0 Har0) as Wq.
      destruct (aroot_eqb s tr q m q Wq Wm (patheqb_sym_true _ _ Wm Wq He) Hqq) as (q2 & Har2 & _ & Hl2).
      rewrite Har in Har2. inversion Har2; subst q2. apply patheqb_length in He. lia.
    - rewrite (aroot_none_eqb s tr m0 m Wm0 Wm (patheqb_sym_true _ _ Wm Wm0 He) Har0) in Har.
      discriminate.
  Qed.
End General.

(* ================= the stated theorems ================= *)

Theorem reconcile_exact : forall s R tr fs,
  schema_ok s R -> R tr -> ps_ok fs = true -> typed_paths s tr fs ->
  (forall tr' m, R tr' -> resolve s tr' = Some (Atom None None (Some m)) -> is_untyped_deduced_map m = false) ->
  walkable s R -> is_empty_tr tr = false -> is_atomic_type s tr = false ->
  match reconcile_field_set s tr fs with
  | None => False
  | Some None =>
      forall p, In p (ps_elems fs) -> reconcile_path s tr p = p
  | Some (Some out) =>
      ps_ok out = true /\
      forall p, wf_path p = true -> p <> [] ->
        ps_has p out = pmem p (reconcile_ref s tr (ps_elems fs))
  end.
Proof.
  intros s R tr fs Hso Rtr Hok Htp Hud Hwalk Hne Hna.
  apply (reconcile_exact_gen s R tr Hso (walkable_gen_of s R Hwalk Hud) Rtr Hne Hna fs Hok Htp).
Qed.

(* reconciling again changes nothing *)
Theorem reconcile_idempotent : forall s R tr fs out,
  schema_ok s R -> R tr -> ps_ok fs = true -> typed_paths s tr fs ->
  (forall tr' m, R tr' -> resolve s tr' = Some (Atom None None (Some m)) -> is_untyped_deduced_map m = false) ->
  walkable s R -> is_empty_tr tr = false -> is_atomic_type s tr = false ->
  reconcile_field_set s tr fs = Some (Some out) ->
  reconcile_field_set s tr out = Some None.
Proof.
  intros s R tr fs out Hso Rtr Hok Htp Hud Hwalk Hne Hna Hrec.
  apply (reconcile_idempotent_gen s R tr Hso (walkable_gen_of s R Hwalk Hud) Rtr Hne Hna fs out Hok Htp Hrec).
Qed.

(* ================= satisfiability and counterexamples ================= *)

Lemma find_field_In : forall fs k f, find_field fs k = Some f -> In f fs.
Proof.
  induction fs as [|[n t d] fs IH]; intros k f H; [discriminate|].
  cbn [find_field] in H. destruct (find_field fs k) as [r|] eqn:E.
  - inversion H; subst. right. apply (IH k f E).
  - destruct (String.eqb k n); [|discriminate]. inversion H; subst. left. reflexivity.
Qed.

(* schema_ok for a finite, explicitly listed family of references *)
Lemma schema_ok_finite : forall s l,
  (forall t, In t l ->
     match resolve s t with
     | None => True
     | Some a =>
         wf_defaults_atom a = true /\
         (forall li, atom_list a = Some li -> In (list_elem li) l) /\
         (forall m, atom_map a = Some m ->
            In (map_elem m) l /\ forall f, In f (map_fields m) -> In (sf_type f) l)
     end) ->
  schema_ok s (fun t => In t l).
Proof.
  intros s l H. constructor.
  - intros tr a t Rt Hres Hl. specialize (H tr Rt). rewrite Hres in H. apply H. exact Hl.
  - intros tr a m k Rt Hres Hm. specialize (H tr Rt). rewrite Hres in H.
    destruct H as (_ & _ & H). destruct (H m Hm) as [He Hf]. unfold field_type.
    destruct (find_field (map_fields m) k) as [f|] eqn:E; [|exact He].
    apply Hf. apply (find_field_In _ _ _ E).
  - intros tr a Rt Hres. specialize (H tr Rt). rewrite Hres in H. apply H.
Qed.

Ltac in_solve := solve [cbn; repeat (first [left; reflexivity | right])].
Ltac each_ref H := cbn [In] in H; repeat (destruct H as [H|H]; [subst|]); [..|destruct H].
Ltac fin_ok :=
  apply schema_ok_finite;
  let t := fresh "t" in let H := fresh "H" in
  intros t H; each_ref H; cbn;
  repeat match goal with
         | |- _ /\ _ => split
         | |- True => exact I
         | |- forall _, _ => intro
         | H : Some _ = Some _ |- _ => inversion H; subst; clear H
         | H : None = Some _ |- _ => discriminate H
         | H : In _ _ |- _ => progress cbn in H
         | H : _ \/ _ |- _ => destruct H; [subst|]
         | H : False |- _ => destruct H
         | |- true = true => reflexivity
         end; try in_solve.

Module Examples.
Local Open Scope string_scope.

(* ---- satisfiability: a schema with an atomic map field, an atomic list field, a set
        and a scalar; the set owns fields beneath all of them ---- *)
Definition ex_str : typeref := TR (Some "str") empty_atom None.
Definition ex_spec : typeref := TR (Some "spec") empty_atom None.
Definition ex_root : typeref := TR (Some "root") empty_atom None.
Definition ex_tags : typeref := TR None (Atom None (Some (ListT ex_str RAtomic [])) None) None.
Definition ex_ports : typeref := TR None (Atom None (Some (ListT ex_str RAssociative [])) None) None.
Definition ex_s : schema :=
  [ ("root", Atom None None (Some (MapT [SField "spec" ex_spec None; SField "tags" ex_tags None;
                                        SField "name" ex_str None; SField "ports" ex_ports None]
                                       empty_tr RSeparable)));
    ("spec", Atom None None (Some (MapT [SField "a" ex_str None; SField "b" ex_str None] empty_tr RAtomic)));
    ("str", Atom (Some SString) None None) ].
Definition ex_R : typeref -> Prop := fun t => In t [ex_root; ex_spec; ex_str; ex_tags; ex_ports; empty_tr].
Definition ex_fs : pset :=
  ps_of_paths [ [PEField "spec"; PEField "a"]; [PEField "spec"; PEField "b"];
                [PEField "tags"; PEValue (VStr "x")]; [PEField "name"];
                [PEField "ports"; PEValue (VStr "p")] ].

Lemma ex_schema_ok : schema_ok ex_s ex_R.
Proof. unfold ex_R. fin_ok. Qed.

Lemma ex_walkable : walkable ex_s ex_R.
Proof.
  split.
  - intros t H Hne. unfold ex_R in H. each_ref H; try discriminate Hne;
      (eexists; split; [vm_compute; reflexivity|reflexivity]).
  - intros t a l H Hres Hl. unfold ex_R in H. each_ref H; vm_compute in Hres;
      inversion Hres; subst a; try discriminate Hl; inversion Hl; subst l; reflexivity.
Qed.

Lemma ex_no_deduced : forall tr' m, ex_R tr' ->
  resolve ex_s tr' = Some (Atom None None (Some m)) -> is_untyped_deduced_map m = false.
Proof.
  intros t m H Hres. unfold ex_R in H. each_ref H; vm_compute in Hres;
    try discriminate Hres; inversion Hres; subst m; reflexivity.
Qed.

Lemma ex_typed : typed_paths ex_s ex_root ex_fs.
Proof.
  intros p H. vm_compute in H.
  repeat (destruct H as [H|H]; [subst p; vm_compute; discriminate|]). destruct H.
Qed.

(* the hypotheses of reconcile_exact are met, so its conclusion holds for this set ... *)
Example ex_exact :
  match reconcile_field_set ex_s ex_root ex_fs with
  | Some (Some out) =>
      ps_ok out = true /\
      forall p, wf_path p = true -> p <> [] ->
        ps_has p out = pmem p (reconcile_ref ex_s ex_root (ps_elems ex_fs))
  | _ => False
  end.
Proof.
  pose proof (reconcile_exact ex_s ex_R ex_root ex_fs ex_schema_ok (or_introl eq_refl) eq_refl
                ex_typed ex_no_deduced ex_walkable eq_refl eq_refl) as H.
  destruct (reconcile_field_set ex_s ex_root ex_fs) as [[out|]|] eqn:E; [exact H| |exact H].
  vm_compute in E. discriminate E.
Qed.

(* ... and it is the expected one: whatever was owned beneath the atomic map "spec" and the
   atomic list "tags" is replaced by the field itself, the rest is unchanged *)
Example ex_result :
  option_map (option_map ps_elems) (reconcile_field_set ex_s ex_root ex_fs) =
  Some (Some [ [PEField "name"]; [PEField "spec"]; [PEField "tags"];
               [PEField "ports"; PEValue (VStr "p")] ]).
Proof. vm_compute. reflexivity. Qed.

Example ex_reference :
  reconcile_ref ex_s ex_root (ps_elems ex_fs) =
  [ [PEField "name"]; [PEField "ports"; PEValue (VStr "p")];
    [PEField "spec"]; [PEField "spec"]; [PEField "tags"] ].
Proof. vm_compute. reflexivity. Qed.

Example ex_again :
  match reconcile_field_set ex_s ex_root ex_fs with
  | Some (Some out) => reconcile_field_set ex_s ex_root out = Some None
  | _ => False
  end.
Proof. vm_compute. reflexivity. Qed.

End Examples.

(* ---- counterexamples: the statements of ReconcileLaws_statements.v are false, and each
        of the three added hypotheses is needed ---- *)
Module Counterexamples.
Local Open Scope string_scope.

(* the hypotheses of the statements file *)
Definition given_hyps (s : schema) (R : typeref -> Prop) (tr : typeref) (fs : pset) : Prop :=
  schema_ok s R /\ R tr /\ ps_ok fs = true /\ typed_paths s tr fs /\
  (forall tr' m, R tr' -> resolve s tr' = Some (Atom None None (Some m)) -> is_untyped_deduced_map m = false).

Ltac typed_tac :=
  let p := fresh "p" in let H := fresh "H" in
  intros p H; vm_compute in H;
  repeat (destruct H as [H|H]; [subst p; vm_compute; discriminate|]); destruct H.
Ltac nd_tac R :=
  let t := fresh "t" in let m := fresh "m" in let H := fresh "H" in let Hres := fresh "Hres" in
  intros t m H Hres; unfold R in H; each_ref H; vm_compute in Hres;
  try discriminate Hres; inversion Hres; subst m; reflexivity.
Ltac walk1_tac R :=
  let t := fresh "t" in let H := fresh "H" in let Hne := fresh "Hne" in
  intros t H Hne; unfold R in H; each_ref H; try discriminate Hne;
  (eexists; split; [vm_compute; reflexivity|reflexivity]).
Ltac walk2_tac R :=
  let t := fresh "t" in let a := fresh "a" in let l := fresh "l" in
  let H := fresh "H" in let Hres := fresh "Hres" in let Hl := fresh "Hl" in
  intros t a l H Hres Hl; unfold R in H; each_ref H; vm_compute in Hres;
  try discriminate Hres; inversion Hres; subst a; try discriminate Hl; inversion Hl; subst l; reflexivity.

(* (1) the root type is atomic (every atom has one member, everything resolves): the walker
   reports the root path and stops, the set is left as it was, while the reference replaces
   what lies beneath the atomic field "a" by "a" *)
Definition c1_str : typeref := TR (Some "str") empty_atom None.
Definition c1_inner : typeref := TR (Some "inner") empty_atom None.
Definition c1_root : typeref := TR (Some "root") empty_atom None.
Definition c1_s : schema :=
  [ ("root", Atom None None (Some (MapT [SField "a" c1_inner None] empty_tr RAtomic)));
    ("inner", Atom None None (Some (MapT [SField "b" c1_str None] empty_tr RAtomic)));
    ("str", Atom (Some SString) None None) ].
Definition c1_R : typeref -> Prop := fun t => In t [c1_root; c1_inner; c1_str; empty_tr].
Definition c1_fs : pset := ps_of_paths [ [PEField "a"; PEField "b"] ].

Lemma c1_given : given_hyps c1_s c1_R c1_root c1_fs.
Proof.
  split; [unfold c1_R; fin_ok|]. split; [left; reflexivity|]. split; [reflexivity|].
  split; [typed_tac|nd_tac c1_R].
Qed.

Lemma c1_walkable : walkable c1_s c1_R /\ is_empty_tr c1_root = false /\ is_atomic_type c1_s c1_root = true.
Proof. split; [split; [walk1_tac c1_R|walk2_tac c1_R]|split; reflexivity]. Qed.

Theorem given_reconcile_exact_false :
  ~ (forall s R tr fs,
       schema_ok s R -> R tr -> ps_ok fs = true -> typed_paths s tr fs ->
       (forall tr' m, R tr' -> resolve s tr' = Some (Atom None None (Some m)) -> is_untyped_deduced_map m = false) ->
       match reconcile_field_set s tr fs with
       | None => False
       | Some None => forall p, In p (ps_elems fs) -> reconcile_path s tr p = p
       | Some (Some out) =>
           ps_ok out = true /\
           forall p, wf_path p = true -> p <> [] ->
             ps_has p out = pmem p (reconcile_ref s tr (ps_elems fs))
       end).
Proof.
  intros H. destruct c1_given as (H1 & H2 & H3 & H4 & H5).
  specialize (H c1_s c1_R c1_root c1_fs H1 H2 H3 H4 H5).
  destruct (reconcile_field_set c1_s c1_root c1_fs) as [[out|]|] eqn:E;
    vm_compute in E; try discriminate E.
  inversion E; subst out. destruct H as [_ H].
  specialize (H [PEField "a"; PEField "b"] eq_refl ltac:(discriminate)).
  vm_compute in H. discriminate H.
Qed.

Theorem given_reconcile_idempotent_false :
  ~ (forall s R tr fs out,
       schema_ok s R -> R tr -> ps_ok fs = true -> typed_paths s tr fs ->
       (forall tr' m, R tr' -> resolve s tr' = Some (Atom None None (Some m)) -> is_untyped_deduced_map m = false) ->
       reconcile_field_set s tr fs = Some (Some out) ->
       reconcile_field_set s tr out = Some None).
Proof.
  intros H. destruct c1_given as (H1 & H2 & H3 & H4 & H5).
  destruct (reconcile_field_set c1_s c1_root c1_fs) as [[out|]|] eqn:E;
    try (vm_compute in E; discriminate E).
  specialize (H c1_s c1_R c1_root c1_fs out H1 H2 H3 H4 H5 E).
  vm_compute in E. inversion E; subst out. vm_compute in H. discriminate H.
Qed.

(* (2) the root reference is the empty reference: the walker reports an error *)
Definition c2_R : typeref -> Prop := fun t => In t [empty_tr].
Example c2_empty_root :
  given_hyps [] c2_R empty_tr ps_empty_set /\ walkable [] c2_R /\ is_atomic_type [] empty_tr = false /\
  reconcile_field_set [] empty_tr ps_empty_set = None.
Proof.
  split.
  { split; [unfold c2_R; fin_ok|]. split; [left; reflexivity|]. split; [reflexivity|].
    split; [typed_tac|nd_tac c2_R]. }
  split; [split; [walk1_tac c2_R|walk2_tac c2_R]|]. split; reflexivity.
Qed.

(* (3) an atom with a scalar and a list member: handle_atom treats it as a scalar and
   reports nothing, is_atomic_type looks at the (atomic) list member *)
Definition c3_str : typeref := TR (Some "str") empty_atom None.
Definition c3_x : typeref := TR None (Atom (Some SString) (Some (ListT c3_str RAtomic [])) None) None.
Definition c3_root : typeref := TR (Some "root") empty_atom None.
Definition c3_s : schema :=
  [ ("root", Atom None None (Some (MapT [SField "f" c3_x None] empty_tr RSeparable)));
    ("str", Atom (Some SString) None None) ].
Definition c3_R : typeref -> Prop := fun t => In t [c3_root; c3_x; c3_str; empty_tr].
Definition c3_p : path := [PEField "f"; PEIndex 0].
Definition c3_fs : pset := ps_of_paths [c3_p].
Example c3_two_members :
  given_hyps c3_s c3_R c3_root c3_fs /\
  is_empty_tr c3_root = false /\ is_atomic_type c3_s c3_root = false /\
  (forall t a l, c3_R t -> resolve c3_s t = Some a -> atom_list a = Some l -> is_empty_tr (list_elem l) = false) /\
  reconcile_field_set c3_s c3_root c3_fs = Some None /\
  In c3_p (ps_elems c3_fs) /\ reconcile_path c3_s c3_root c3_p = [PEField "f"].
Proof.
  split.
  { split; [unfold c3_R; fin_ok|]. split; [left; reflexivity|]. split; [reflexivity|].
    split; [typed_tac|nd_tac c3_R]. }
  split; [reflexivity|]. split; [reflexivity|]. split; [walk2_tac c3_R|].
  split; [reflexivity|]. split; [left; reflexivity|reflexivity].
Qed.

(* (4) a reference that does not resolve: error *)
Definition c4_missing : typeref := TR (Some "missing") empty_atom None.
Definition c4_root : typeref := TR (Some "root") empty_atom None.
Definition c4_s : schema :=
  [ ("root", Atom None None (Some (MapT [SField "f" c4_missing None] empty_tr RSeparable))) ].
Definition c4_R : typeref -> Prop := fun t => In t [c4_root; c4_missing; empty_tr].
Definition c4_fs : pset := ps_of_paths [ [PEField "f"] ].
Example c4_unresolved :
  given_hyps c4_s c4_R c4_root c4_fs /\
  is_empty_tr c4_root = false /\ is_atomic_type c4_s c4_root = false /\
  reconcile_field_set c4_s c4_root c4_fs = None.
Proof.
  split.
  { split; [unfold c4_R; fin_ok|]. split; [left; reflexivity|]. split; [reflexivity|].
    split; [typed_tac|nd_tac c4_R]. }
  split; [reflexivity|]. split; reflexivity.
Qed.

(* (5) a list whose element type is the empty reference: error *)
Definition c5_list : typeref := TR None (Atom None (Some (ListT empty_tr RAssociative [])) None) None.
Definition c5_root : typeref := TR (Some "root") empty_atom None.
Definition c5_s : schema :=
  [ ("root", Atom None None (Some (MapT [SField "l" c5_list None] empty_tr RSeparable))) ].
Definition c5_R : typeref -> Prop := fun t => In t [c5_root; c5_list; empty_tr].
Definition c5_fs : pset := ps_of_paths [ [PEField "l"; PEIndex 0] ].
Example c5_empty_element :
  given_hyps c5_s c5_R c5_root c5_fs /\
  is_empty_tr c5_root = false /\ is_atomic_type c5_s c5_root = false /\
  (forall t, c5_R t -> is_empty_tr t = false ->
     exists a, resolve c5_s t = Some a /\ atom_one_member a = true) /\
  reconcile_field_set c5_s c5_root c5_fs = None.
Proof.
  split.
  { split; [unfold c5_R; fin_ok|]. split; [left; reflexivity|]. split; [reflexivity|].
    split; [typed_tac|nd_tac c5_R]. }
  split; [reflexivity|]. split; [reflexivity|]. split; [walk1_tac c5_R|reflexivity].
Qed.

End Counterexamples.

