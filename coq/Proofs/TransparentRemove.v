(* Helper of Proofs/Transparent.v, level 2: what the pruned object inherits from the merged
   one.
     - [remove_nel]: removal (typed/remove.go) never produces an empty list (an emptied
       container becomes null) and keeps the rest as it is: an object without an empty list
       stays so, whatever the set removed;
     - [remove_conforms_nodup]: the companion of RemoveFrame.remove_conforms for objects
       without duplicate list members: the kept members keep their path elements
       (RemoveFrame.occ_kept), so none occurs twice. *)
From Coq Require Import List ZArith String Bool Arith Lia.
From SMD Require Import Model.Value Model.Order Model.PathElem Model.PathSet Model.Schema
  Model.Walk Model.FieldSet Model.Remove Spec.PathsAsSets Spec.RefValid Spec.Resolve Spec.Agree
  Proofs.OrderLaws Proofs.KeyLaws Proofs.PathSetLaws Proofs.ValidateLaws Proofs.SchemaOk
  Proofs.FieldSetMirrors Proofs.FieldSetBase Proofs.FieldSetShape Proofs.FieldSetPaths
  Proofs.RemoveBase Proofs.ExtractBase Proofs.ExtractLaws Proofs.RemoveAbsent Proofs.RemoveWf
  Proofs.ResolveLaws Proofs.ReconcileBase Proofs.RemoveFrame.
From SMD Require Proofs.Visible Proofs.TransparentMerge.
Import ListNotations.
Open Scope bool_scope.

Local Arguments ps_has : simpl never.
Local Arguments ps_with_prefix : simpl never.
Local Arguments ps_empty : simpl never.

Notation no_empty_list := Visible.no_empty_list.

Lemma occ_all_distinct' : forall s t l, forallb (has_pe s t) l = true -> items_wf s t l ->
  (forall e, wf_pe e = true -> (2 <=? List.length (occ s t e l)) = false) ->
  all_distinct (pes_of s t l) = true.
Proof. intros s t l. exact (TransparentMerge.occ_all_distinct s t l). Qed.

(* ================= no empty list ================= *)

Lemma remove_nel : forall s v tr T, no_empty_list v = true ->
  no_empty_list (remove_items s false tr T v) = true.
Proof.
  intros s v. induction v as [|b|z|q0|str|l IHl|m IHm] using value_ind'; intros tr T Hn;
    rewrite remove_items_eq; (destruct (resolve s tr) as [a|]; [|reflexivity]);
    match goal with |- context [handle_atom ?x] => destruct (handle_atom x) as [t|t|t|] end;
    try reflexivity; try exact Hn.
  - (* list *)
    destruct l as [|x0 l0]; [reflexivity|]. set (l := x0 :: l0) in *.
    destruct (rel_is_atomic (list_rel t)); [reflexivity|]. cbv zeta.
    assert (Hall : forallb no_empty_list (rm_list_go s false T t l) = true).
    { assert (Hl : forallb no_empty_list l = true) by exact Hn.
      clearbody l. clear Hn. induction l as [|x l IH]; [reflexivity|].
      inversion IHl as [|? ? Hx Hrest]; subst.
      cbn [forallb] in Hl. apply andb_true_iff in Hl. destruct Hl as [Hnx Hnl].
      specialize (IH Hrest Hnl).
      rewrite rm_list_go_cons. unfold rm_list_step. cbv zeta.
      destruct (rm_has T (list_item_pe_or_zero s t x) && negb false); [exact IH|].
      destruct (rm_has T (list_item_pe_or_zero s t x) &&
                ps_empty (rm_subset T (list_item_pe_or_zero s t x))).
      { cbn [forallb]. rewrite IH, (Hx _ _ Hnx). reflexivity. }
      destruct (negb (ps_empty (rm_subset T (list_item_pe_or_zero s t x)))).
      { cbn [forallb]. rewrite IH, (Hx _ _ Hnx). reflexivity. }
      cbn [forallb]. rewrite IH, Hnx. reflexivity. }
    destruct (rm_list_go s false T t l) as [|y ys]; [reflexivity|exact Hall].
  - (* map *)
    destruct m as [|kv0 m0]; [reflexivity|]. set (m := kv0 :: m0) in *.
    destruct (rel_is_atomic (map_rel t)); [reflexivity|]. cbv zeta.
    assert (Hall : forallb (fun kv => no_empty_list (snd kv)) (rm_map_go s false T t m) = true).
    { assert (Hm : forallb (fun kv => no_empty_list (snd kv)) m = true) by exact Hn.
      clearbody m. clear Hn. induction m as [|[k x] m IH]; [reflexivity|].
      inversion IHm as [|? ? Hx Hrest]; subst. cbn [snd] in Hx.
      cbn [forallb snd] in Hm. apply andb_true_iff in Hm. destruct Hm as [Hnx Hnm].
      specialize (IH Hrest Hnm).
      rewrite rm_map_go_cons. unfold rm_map_step. cbn [fst snd]. cbv zeta.
      destruct (ps_has [PEField k] T); [exact IH|].
      destruct (negb (ps_empty (ps_with_prefix (PEField k) T))).
      - cbn [forallb snd]. rewrite IH, (Hx _ _ Hnx). reflexivity.
      - cbn [forallb snd]. rewrite IH, Hnx. reflexivity. }
    destruct (rm_map_go s false T t m) as [|y ys]; [reflexivity|exact Hall].
Qed.

(* ================= no duplicate member ================= *)

Section NoDup.
  Variables (s : schema) (R : typeref -> Prop).
  Hypothesis Hok : schema_ok s R.
  Hypothesis Hfam : family_refs s R.
  Hypothesis Hnd : keys_nodefault s R.

  Theorem remove_conforms_nodup : forall v tr T, R tr -> wf_value v = true ->
    conforms s tr false v = true -> nice s tr v T ->
    conforms s tr false (remove_items s false tr T v) = true.
  Proof.
    intros v. induction v as [|b|z|q0|str|l IHl|m IHm] using value_ind';
      intros tr T Htr Hwf Hc Hn;
      try (rewrite (scalar_removed s tr false T _ Hc eq_refl); exact Hc).
    - rewrite remove_items_null. exact Hc.
    - (* list *)
      pose proof Hc as Hc'. rewrite conforms_eq in Hc'.
      destruct (resolve s tr) as [[sc li ma]|] eqn:Er; [|discriminate].
      destruct li as [t|]; [|discriminate].
      assert (Hnull : conforms s tr false VNull = true)
        by (rewrite conforms_eq, Er; destruct sc; reflexivity).
      destruct l as [|x0 l0]; [rewrite remove_items_eq, Er, handle_vlist; exact Hnull|].
      set (l := x0 :: l0) in *.
      rewrite (remove_items_vlist' s false tr T sc t ma l Er) by discriminate.
      destruct (rel_is_atomic (list_rel t)) eqn:Ena; [exact Hnull|].
      assert (Ek : kind_of s tr (VList l) = KList t l).
      { unfold kind_of. rewrite Er, Ena. reflexivity. }
      destruct (conf_list_facts s R Hok Hfam tr false t l Htr Hc Ek)
        as (sc' & ma' & Hr & Hte & _ & _ & Hhp & Hcs & Hdis).
      cbn [orb] in Hdis.
      destruct (kept_list_facts s R Hok Hfam Hnd tr false t l T Htr Hwf Hc Ek Hn) as [Hwf' Hhp'].
      pose proof (kept_items_pe s R Hok Hfam Hnd tr false t l T Htr Hwf Hc Ek Hn) as Hst.
      assert (Hiw : items_wf s t l) by (apply (items_wf_R s R Hok t l Hte); exact Hwf).
      rewrite rm_list_go_flat.
      destruct (flat_map (keep_item s T t) l) as [|y0 ys] eqn:Ei; [exact Hnull|].
      rewrite <- Ei in *.
      rewrite conforms_eq, Er.
      destruct (Hfam tr _ t Htr Er eq_refl) as [Hrel|Hrel]; [|rewrite Hrel in Ena; discriminate].
      rewrite Hrel, Hhp'. cbn [andb orb].
      apply andb_true_iff. split.
      + apply forallb_forall. intros y Hy. apply in_flat_map in Hy. destruct Hy as (x & Hx & Hy).
        rewrite keep_item_kept in Hy.
        destruct (ps_has [list_item_pe_or_zero s t x] T) eqn:Eh; [contradiction|].
        destruct Hy as [<-|[]].
        assert (Hcx : conforms s (list_elem t) false x = true).
        { rewrite forallb_forall in Hcs. exact (Hcs x Hx). }
        unfold kept_item. cbv zeta.
        destruct (negb (ps_empty (ps_with_prefix (list_item_pe_or_zero s t x) T))); [|exact Hcx].
        rewrite forallb_forall in Hhp. pose proof (Hhp x Hx) as Hpx. unfold has_pe in Hpx.
        destruct (list_item_to_pe s t x) as [ex|] eqn:Ex; [|discriminate].
        rewrite (list_item_pe_or_zero_some s t x ex Ex) in *.
        rewrite Forall_forall in IHl. apply (IHl x Hx); auto.
        * apply (wf_value_list_in l x Hwf Hx).
        * apply (nice_item_child s tr l T t x ex Hn Ek Hx Ex); [|exact Eh].
          apply (list_item_to_pe_wf s R tr _ t x ex Hok Htr Er eq_refl); [|exact Ex].
          apply (wf_value_list_in l x Hwf Hx).
      + apply occ_all_distinct'; [exact Hhp'| |].
        * apply (items_wf_R s R Hok t _ Hte). exact Hwf'.
        * intros e He.
          rewrite (occ_kept s t T e l (n_ok _ _ _ _ Hn) He Hhp Hiw Hst).
          destruct (ps_has [e] T); [reflexivity|]. rewrite map_length.
          apply (distinct_occ s t l e Hdis Hiw He).
    - (* map *)
      pose proof Hc as Hc'. rewrite conforms_eq in Hc'.
      destruct (resolve s tr) as [[sc li ma]|] eqn:Er; [|discriminate].
      destruct ma as [t|]; [|discriminate].
      assert (Hnull : conforms s tr false VNull = true)
        by (rewrite conforms_eq, Er; destruct sc, li; reflexivity).
      destruct m as [|kv0 m0]; [rewrite remove_items_eq, Er, handle_vmap; exact Hnull|].
      set (m := kv0 :: m0) in *.
      rewrite (remove_items_vmap' s false tr T sc li t m Er) by discriminate.
      destruct (rel_is_atomic (map_rel t)) eqn:Ena; [exact Hnull|].
      assert (Ek : kind_of s tr (VMap m) = KMap t m).
      { unfold kind_of. rewrite Er, Ena. reflexivity. }
      destruct (rm_map_go s false T t m) as [|o out] eqn:Eo; [exact Hnull|].
      rewrite <- Eo. rewrite conforms_eq, Er.
      apply cmap_each_rm; [|exact Hc'].
      intros k c Hin Eh Hck. unfold kept_value.
      destruct (negb (ps_empty (ps_with_prefix (PEField k) T))) eqn:Ene; [|exact Hck].
      rewrite Forall_forall in IHm. apply (IHm (k, c) Hin); auto.
      + apply (so_map s R Hok tr _ t k Htr Er eq_refl).
      + apply (wf_value_map_in m k c Hwf Hin).
      + apply (nice_map_child s tr m T t k c Hn Ek); [|exact Eh].
        apply assoc_get_in_sorted; [|exact Hin]. apply andb_true_iff in Hwf. apply Hwf.
  Qed.
End NoDup.
