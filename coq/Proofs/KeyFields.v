(* Keyed-list members and their key fields, along paths:
     - [resolve_sub]: what a path designates is of a reachable type, well formed, conforming;
     - [item_inv]: a path ending in a key designates a map that spells out its key fields
       (schemas without key defaults);
     - [key_field_leaf]: with scalar key fields, a path through a key field stops there, at a
       scalar or null;
     - [conforms_no_dup]: a duplicate-free object has no duplicate groups;
     - [plain_visible]: every node of a plain object lies on a path to a visible leaf;
     - conditions on recorded sets that [ps_en] preserves: [keys_closed], [atomic_items_free];
       the latter makes a set safe for the members of any conforming object ([items_ok_of_free]). *)
From Coq Require Import List ZArith String Bool Arith Lia.
From SMD Require Import Model.Value Model.Order Model.PathElem Model.PathSet Model.Schema
  Model.Walk Model.FieldSet Model.Remove Spec.PathsAsSets Spec.RefValid Spec.Resolve Spec.Agree
  Proofs.OrderLaws Proofs.KeyLaws Proofs.PathSetLaws Proofs.ValidateLaws Proofs.SchemaOk
  Proofs.FieldSetMirrors Proofs.FieldSetBase Proofs.FieldSetShape Proofs.FieldSetPaths
  Proofs.RemoveBase Proofs.ExtractBase Proofs.ExtractLaws Proofs.RemoveAbsent
  Proofs.ResolveLaws Proofs.RemoveFrame Proofs.EnLaws Proofs.NodeSet.
From SMD Require Proofs.MergeVeqbAux Proofs.MergeAgree.
Import ListNotations.
Open Scope bool_scope.
Open Scope list_scope.

Local Arguments ps_has : simpl never.
Local Arguments ps_with_prefix : simpl never.
Local Arguments ps_empty : simpl never.

(* the key fields of every keyed list reached from R are of a scalar type *)
Definition keys_scalar (s : schema) (R : typeref -> Prop) : Prop :=
  forall tr a t k ea mt, R tr -> resolve s tr = Some a -> atom_list a = Some t ->
    In k (list_keys t) -> resolve s (list_elem t) = Some ea -> atom_map ea = Some mt ->
    exists sc, resolve s (field_type mt k) = Some (Atom (Some sc) None None).

(* the type is an atomic map *)
Definition atomic_map_type (s : schema) (tr : typeref) : bool :=
  match resolve s tr with
  | Some (Atom _ _ (Some m)) => rel_is_atomic (map_rel m)
  | _ => false
  end.

(* no member of the set lies strictly beneath a list member of an atomic map type *)
Definition atomic_items_free (s : schema) (tr : typeref) (T : pset) : Prop :=
  forall (pre : path) e q, wf_path (pre ++ e :: q) = true -> q <> [] -> is_keyval e = true ->
    ps_has (pre ++ e :: q) T = true ->
    atomic_map_type s (en_type s tr (pre ++ [e])) = false.

Lemma keyed_go_explicit : forall s t m keys fl, keyed_go s t m keys = Some fl ->
  (forall k d, In k keys -> key_default s t k <> Some (Some d)) ->
  forall k, In k keys -> assoc_get k m <> None.
Proof.
  intros s t m keys. induction keys as [|k0 ks IH]; intros fl Hg Hnd k Hk; [destruct Hk|].
  simpl in Hg. destruct (assoc_get k0 m) as [v0|] eqn:E0.
  - destruct (keyed_go s t m ks) as [r|] eqn:Er; [|discriminate].
    destruct Hk as [<-|Hk]; [congruence|].
    apply (IH r eq_refl); auto. intros k' d Hk'. apply Hnd. right. exact Hk'.
  - destruct (key_default s t k0) as [[d|]|] eqn:Ed; try discriminate.
    exfalso. apply (Hnd k0 d (or_introl eq_refl) Ed).
Qed.

Lemma F2_flr_names : forall A B, Forall2 MergeVeqbAux.flr A B -> map fst A = map fst B.
Proof.
  intros A B H. induction H as [|a b A B [Hab _] _ IH]; [reflexivity|]. simpl. rewrite Hab, IH. reflexivity.
Qed.

Section KeyFields.
  Variables (s : schema) (R : typeref -> Prop).
  Hypothesis Hok : schema_ok s R.
  Hypothesis Hfam : family_refs s R.

  (* ---------- what a path designates ---------- *)

  Lemma resolve_sub : forall p v tr dup tr' x, R tr -> wf_value v = true ->
    conforms s tr dup v = true -> wf_path p = true ->
    resolve_path s tr v p = Some (RNode tr' x) ->
    R tr' /\ wf_value x = true /\ conforms s tr' dup x = true.
  Proof.
    induction p as [|e rest IH]; intros v tr dup tr' x Htr Hwf Hc Hp Hres.
    - simpl in Hres. inversion Hres; subst. auto.
    - apply wf_path_cons in Hp. destruct Hp as [He Hrest].
      destruct (kind_of s tr v) as [|t m|t l|] eqn:Ek.
      + rewrite resolve_path_leaf in Hres by (rewrite Ek; exact I). discriminate.
      + destruct (kind_map_inv _ _ _ _ _ Ek) as (a & Hr & Ham & Hv & _ & _). subst v.
        destruct e as [k|fl|ev|i];
          try (rewrite (resolve_path_map_other _ _ _ _ _ _ _ Ek) in Hres by exact I; discriminate).
        rewrite (resolve_path_map _ _ _ _ _ _ _ Ek) in Hres.
        destruct (assoc_get k m) as [c|] eqn:Eg; [|discriminate].
        pose proof (assoc_get_In m k c Eg) as Hin.
        destruct a as [sc li ma]. simpl in Ham. subst ma.
        apply (IH c (field_type t k) dup tr' x); auto.
        * apply (so_map s R Hok tr _ t k Htr Hr eq_refl).
        * apply (wf_value_map_in m k c Hwf Hin).
        * rewrite conforms_eq, Hr in Hc. eapply cmap_each_in; eauto.
      + destruct (kind_list_inv _ _ _ _ _ Ek) as (a & Hr0 & Hal & Hv & _ & _). subst v.
        destruct (conf_list_facts s R Hok Hfam tr dup t l Htr Hc Ek)
          as (sc & ma & Hr & Hte & Hna & Hlne & Hhp & Hcs & _).
        rewrite (resolve_path_list_occ s R Hok tr _ t l e rest Htr Hwf Ek He), Hhp in Hres.
        destruct (is_keyval e); [|discriminate]. cbn [andb] in Hres.
        destruct (occ s t e l) as [|x0 [|y more]] eqn:Eo; [discriminate| |destruct rest; discriminate].
        assert (Hx0 : In x0 (occ s t e l)) by (rewrite Eo; left; reflexivity).
        apply occ_In in Hx0. destruct Hx0 as [Hx0 _].
        apply (IH x0 (list_elem t) dup tr' x); auto.
        * apply (wf_value_list_in l x0 Hwf Hx0).
        * rewrite forallb_forall in Hcs. exact (Hcs x0 Hx0).
      + rewrite resolve_path_leaf in Hres by (rewrite Ek; exact I). discriminate.
  Qed.

  (* a path ending in a key: the list it selects from, and the member *)
  Lemma item_inv : forall (pre : path) fl v tr dup ti xi, R tr -> wf_value v = true ->
    conforms s tr dup v = true -> wf_path (pre ++ [PEKey fl]) = true ->
    resolve_path s tr v (pre ++ [PEKey fl]) = Some (RNode ti xi) ->
    exists tp vp t l m fl0,
      resolve_path s tr v pre = Some (RNode tp vp) /\ R tp /\ kind_of s tp vp = KList t l /\
      (exists sc ma, resolve s tp = Some (Atom sc (Some t) ma)) /\
      ti = list_elem t /\ In xi l /\ xi = VMap m /\
      keyed_go s t m (list_keys t) = Some fl0 /\ list_keys t <> [] /\
      map fst fl = map fst (fl_sort fl0).
  Proof.
    intros pre fl v tr dup ti xi Htr Hwf Hc Hp Hres.
    apply ReconcileBase.wf_path_app in Hp. destruct Hp as [Hpre Hfl].
    apply wf_path_cons in Hfl. destruct Hfl as [Hfl _].
    rewrite resolve_path_app in Hres.
    destruct (resolve_path s tr v pre) as [[tp vp|tp vs]|] eqn:Epre; try discriminate.
    destruct (resolve_sub pre v tr dup tp vp Htr Hwf Hc Hpre Epre) as (Htp & Hwp & Hcp).
    destruct (kind_of s tp vp) as [|t m0|t l|] eqn:Ek.
    - rewrite resolve_path_leaf in Hres by (rewrite Ek; exact I). discriminate.
    - rewrite (resolve_path_map_other _ _ _ _ _ _ _ Ek) in Hres by exact I. discriminate.
    - destruct (kind_list_inv _ _ _ _ _ Ek) as (a & Hr0 & Hal & Hv & _ & _). subst vp.
      destruct (conf_list_facts s R Hok Hfam tp dup t l Htp Hcp Ek)
        as (sc & ma & Hr & Hte & Hna & Hlne & Hhp & Hcs & _).
      rewrite (resolve_path_list_occ s R Hok tp _ t l (PEKey fl) [] Htp Hwp Ek Hfl), Hhp in Hres.
      cbn [andb is_keyval] in Hres.
      destruct (occ s t (PEKey fl) l) as [|x0 [|y more]] eqn:Eo; try discriminate.
      simpl in Hres. inversion Hres; subst ti xi. clear Hres.
      assert (Hx0 : In x0 (occ s t (PEKey fl) l)) by (rewrite Eo; left; reflexivity).
      apply occ_In in Hx0. destruct Hx0 as [Hx0 Hm]. unfold pe_matches in Hm.
      destruct (list_item_to_pe s t x0) as [ex|] eqn:Ex; [|discriminate].
      unfold list_item_to_pe in Ex.
      destruct (negb (rel_is_assoc (list_rel t))); [discriminate|].
      destruct (list_keys t) as [|k0 ks] eqn:Ekeys.
      { destruct x0; simpl in Ex; try discriminate; inversion Ex; subst ex; discriminate. }
      destruct x0 as [| | | | |l'|m]; try (simpl in Ex; discriminate).
      rewrite keyed_item_to_pe_eq in Ex.
      destruct (keyed_go s t m (list_keys t)) as [fl0|] eqn:Eg; [|discriminate].
      inversion Ex; subst ex. clear Ex. simpl in Hm.
      apply MergeVeqbAux.fl_eqb_F2 in Hm. apply F2_flr_names in Hm.
      exists tp, (VList l), t, l, m, fl0. repeat split; auto.
      + exists sc, ma. exact Hr.
      + rewrite Ekeys. discriminate.
    - rewrite resolve_path_leaf in Hres by (rewrite Ek; exact I). discriminate.
  Qed.

  Hypothesis Hnd : keys_nodefault s R.

  (* the member spells out its key fields *)
  Lemma item_key_explicit : forall (pre : path) fl k v tr dup ti xi, R tr -> wf_value v = true ->
    conforms s tr dup v = true -> wf_path (pre ++ [PEKey fl]) = true ->
    resolve_path s tr v (pre ++ [PEKey fl]) = Some (RNode ti xi) -> In k (map fst fl) ->
    exists m val, xi = VMap m /\ assoc_get k m = Some val.
  Proof.
    intros pre fl k v tr dup ti xi Htr Hwf Hc Hp Hres Hk.
    destruct (item_inv pre fl v tr dup ti xi Htr Hwf Hc Hp Hres)
      as (tp & vp & t & l & m & fl0 & Epre & Htp & Ek & (sc & ma & Hr) & -> & Hin & -> & Eg & Hkne & Hnames).
    assert (Hkk : In k (list_keys t)).
    { rewrite Hnames in Hk. apply (proj1 (fl_sort_names fl0 k)) in Hk. rewrite (keyed_go_names _ _ _ _ _ Eg) in Hk. exact Hk. }
    pose proof (keyed_go_explicit s t m (list_keys t) fl0 Eg
                  (fun k' d Hk' => Hnd tp _ t k' d Htp Hr eq_refl Hk') k Hkk) as Hne.
    destruct (assoc_get k m) as [val|] eqn:Ev; [|congruence].
    exists m, val. auto.
  Qed.

  Hypothesis Hks : keys_scalar s R.

  (* a path through a key field stops there, at a scalar or null *)
  Lemma key_field_leaf : forall (pre : path) fl k rest v tr dup, R tr -> wf_value v = true ->
    conforms s tr dup v = true -> wf_path (pre ++ PEKey fl :: PEField k :: rest) = true ->
    In k (map fst fl) ->
    present s tr v (pre ++ PEKey fl :: PEField k :: rest) = true ->
    rest = [] /\ exists tr' x, resolve_path s tr v (pre ++ [PEKey fl; PEField k]) = Some (RNode tr' x) /\
      (is_scalar x = true \/ x = VNull).
  Proof.
    intros pre fl k rest v tr dup Htr Hwf Hc Hp Hk Hpr.
    assert (Hp1 : wf_path (pre ++ [PEKey fl]) = true) by (eapply wf_path_key_prefix; eauto).
    replace (pre ++ PEKey fl :: PEField k :: rest) with ((pre ++ [PEKey fl]) ++ PEField k :: rest) in Hpr
      by (rewrite <- app_assoc; reflexivity).
    unfold present in Hpr. rewrite resolve_path_app in Hpr.
    destruct (resolve_path s tr v (pre ++ [PEKey fl])) as [[ti xi|ti xs]|] eqn:Eitem; try discriminate.
    destruct (item_inv pre fl v tr dup ti xi Htr Hwf Hc Hp1 Eitem)
      as (tp & vp & t & l & m & fl0 & Epre & Htp & Ek & (sc & ma & Hr) & -> & Hin & -> & Eg & Hkne & Hnames).
    destruct (resolve_sub (pre ++ [PEKey fl]) v tr dup _ _ Htr Hwf Hc Hp1 Eitem) as (Hti & Hwi & Hci).
    assert (Hkk : In k (list_keys t)).
    { rewrite Hnames in Hk. apply (proj1 (fl_sort_names fl0 k)) in Hk. rewrite (keyed_go_names _ _ _ _ _ Eg) in Hk. exact Hk. }
    destruct (kind_of s (list_elem t) (VMap m)) as [|tm m'|tm l'|] eqn:Ekm;
      try (rewrite resolve_path_leaf in Hpr by (rewrite Ekm; exact I); discriminate).
    2:{ pose proof (kind_vmap_cases s (list_elem t) m) as Hkc. rewrite Ekm in Hkc. contradiction. }
    destruct (kind_map_inv _ _ _ _ _ Ekm) as (ea & Hre & Hame & Hv & _ & _). inversion Hv; subst m'.
    rewrite (resolve_path_map _ _ _ _ _ _ _ Ekm) in Hpr.
    destruct (assoc_get k m) as [val|] eqn:Ev; [|discriminate].
    destruct (Hks tp _ t k ea tm Htp Hr eq_refl Hkk Hre Hame) as (sck & Hrk).
    assert (Hcv : conforms s (field_type tm k) dup val = true).
    { destruct ea as [sce lie mae]. simpl in Hame. subst mae.
      rewrite conforms_eq, Hre in Hci. eapply cmap_each_in; eauto. apply assoc_get_In. exact Ev. }
    assert (Hsimple : is_scalar val = true \/ val = VNull).
    { rewrite conforms_eq, Hrk in Hcv. destruct val; try discriminate; auto. }
    assert (Hleaf : leafy s (field_type tm k) val).
    { destruct Hsimple as [Hs|Hn]; [apply scalar_leafy; exact Hs|subst val; apply kind_null]. }
    destruct rest as [|r0 rest'].
    - split; [reflexivity|]. exists (field_type tm k), val. split; [|exact Hsimple].
      replace (pre ++ [PEKey fl; PEField k]) with ((pre ++ [PEKey fl]) ++ [PEField k])
        by (rewrite <- app_assoc; reflexivity).
      rewrite resolve_path_app, Eitem, (resolve_path_map _ _ _ _ _ _ _ Ekm), Ev. reflexivity.
    - rewrite resolve_path_leaf in Hpr by exact Hleaf. discriminate.
  Qed.

  (* ---------- duplicate-free objects ---------- *)

  Lemma conforms_no_dup : forall p v tr tr' xs, R tr -> wf_value v = true ->
    conforms s tr false v = true -> wf_path p = true ->
    resolve_path s tr v p <> Some (RDup tr' xs).
  Proof.
    induction p as [|e rest IH]; intros v tr tr' xs Htr Hwf Hc Hp Hres; [discriminate|].
    apply wf_path_cons in Hp. destruct Hp as [He Hrest].
    destruct (kind_of s tr v) as [|t m|t l|] eqn:Ek.
    - rewrite resolve_path_leaf in Hres by (rewrite Ek; exact I). discriminate.
    - destruct (kind_map_inv _ _ _ _ _ Ek) as (a & Hr & Ham & Hv & _ & _). subst v.
      destruct e as [k|fl|ev|i];
        try (rewrite (resolve_path_map_other _ _ _ _ _ _ _ Ek) in Hres by exact I; discriminate).
      rewrite (resolve_path_map _ _ _ _ _ _ _ Ek) in Hres.
      destruct (assoc_get k m) as [c|] eqn:Eg; [|discriminate].
      pose proof (assoc_get_In m k c Eg) as Hin.
      destruct a as [sc li ma]. simpl in Ham. subst ma.
      apply (IH c (field_type t k) tr' xs); auto.
      + apply (so_map s R Hok tr _ t k Htr Hr eq_refl).
      + apply (wf_value_map_in m k c Hwf Hin).
      + rewrite conforms_eq, Hr in Hc. eapply cmap_each_in; eauto.
    - destruct (kind_list_inv _ _ _ _ _ Ek) as (a & Hr0 & Hal & Hv & _ & _). subst v.
      destruct (conf_list_facts s R Hok Hfam tr false t l Htr Hc Ek)
        as (sc & ma & Hr & Hte & Hna & Hlne & Hhp & Hcs & Hdis).
      assert (Hiw : items_wf s t l) by (eapply items_wf_R; eauto).
      rewrite (resolve_path_list_occ s R Hok tr _ t l e rest Htr Hwf Ek He), Hhp in Hres.
      destruct (is_keyval e); [|discriminate]. cbn [andb] in Hres.
      pose proof (distinct_occ s t l e Hdis Hiw He) as Hle.
      destruct (occ s t e l) as [|x0 [|y more]] eqn:Eo; [discriminate| |discriminate Hle].
      assert (Hx0 : In x0 (occ s t e l)) by (rewrite Eo; left; reflexivity).
      apply occ_In in Hx0. destruct Hx0 as [Hx0 _].
      apply (IH x0 (list_elem t) tr' xs); auto.
      + apply (wf_value_list_in l x0 Hwf Hx0).
      + rewrite forallb_forall in Hcs. exact (Hcs x0 Hx0).
    - rewrite resolve_path_leaf in Hres by (rewrite Ek; exact I). discriminate.
  Qed.

  (* ---------- plain objects: every node leads to a visible leaf ---------- *)

  Lemma visible_self : forall v tr, leafy s tr v -> v <> VList [] ->
    exists r tr' x, wf_path r = true /\ resolve_path s tr v r = Some (RNode tr' x) /\
      leafy s tr' x /\ x <> VList [].
  Proof. intros v tr Hl Hne. exists [], tr, v. repeat split; auto. Qed.

  Lemma plain_visible_value : forall v tr, R tr -> wf_value v = true ->
    conforms s tr false v = true -> plain v = true ->
    exists r tr' x, wf_path r = true /\ resolve_path s tr v r = Some (RNode tr' x) /\
      leafy s tr' x /\ x <> VList [].
  Proof.
    intros v. induction v as [|b|z|q0|str|l IHl|m IHm] using value_ind';
      intros tr Htr Hwf Hc Hpl; try discriminate;
      try (apply visible_self; [apply scalar_leafy; reflexivity|discriminate]).
    - (* list *)
      destruct l as [|x0 l0]; [discriminate|].
      destruct (kind_of s tr (VList (x0 :: l0))) as [|t m|t l'|] eqn:Ek;
        try (apply visible_self; [unfold leafy; rewrite Ek; exact I|discriminate]).
      { destruct (kind_map_inv _ _ _ _ _ Ek) as (_ & _ & _ & Hv & _). discriminate. }
      destruct (kind_list_inv _ _ _ _ _ Ek) as (a0 & _ & _ & Hv & _). inversion Hv; subst l'. clear Hv.
      set (l := x0 :: l0) in *.
      destruct (conf_list_facts s R Hok Hfam tr false t l Htr Hc Ek)
        as (sc & ma & Hr & Hte & Hna & Hlne & Hhp & Hcs & Hdis).
      assert (Hiw : items_wf s t l) by (eapply items_wf_R; eauto).
      assert (Hx0 : In x0 l) by (left; reflexivity).
      rewrite forallb_forall in Hhp. pose proof (Hhp x0 Hx0) as Hp0. unfold ValidateLaws.has_pe in Hp0.
      destruct (list_item_to_pe s t x0) as [e0|] eqn:E0; [|discriminate].
      assert (He0 : wf_pe e0 = true) by (apply (Hiw x0 e0 Hx0 E0)).
      assert (Hocc : occ s t e0 l = [x0]).
      { assert (Hin : In x0 (occ s t e0 l)).
        { apply In_occ; [exact Hx0|]. unfold pe_matches. rewrite E0. apply peeqb_refl. exact He0. }
        pose proof (distinct_occ s t l e0 Hdis Hiw He0) as Hle.
        destruct (occ s t e0 l) as [|y [|y' more]]; [destruct Hin| |discriminate Hle].
        destruct Hin as [->|[]]. reflexivity. }
      rewrite Forall_forall in IHl.
      destruct (IHl x0 Hx0 (list_elem t) Hte (wf_value_list_in l x0 Hwf Hx0)) as (r & tr' & x & Hr' & Hres & Hleaf & Hx).
      + rewrite forallb_forall in Hcs. exact (Hcs x0 Hx0).
      + apply (MergeAgree.plain_list_in l x0 Hpl Hx0).
      + exists (e0 :: r), tr', x. repeat split; auto.
        * apply wf_path_cons. auto.
        * assert (Hhp' : forallb (ValidateLaws.has_pe s t) l = true) by (apply forallb_forall; exact Hhp).
          rewrite (resolve_path_list_occ s R Hok tr _ t l e0 r Htr Hwf Ek He0), Hhp',
            (lipe_keyval s t x0 e0 E0), Hocc. exact Hres.
    - (* map *)
      destruct m as [|[k0 c0] m0]; [discriminate|].
      destruct (kind_of s tr (VMap ((k0, c0) :: m0))) as [|t m'|t l'|] eqn:Ek;
        try (apply visible_self; [unfold leafy; rewrite Ek; exact I|discriminate]).
      2:{ destruct (kind_list_inv _ _ _ _ _ Ek) as (_ & _ & _ & Hv & _). discriminate. }
      destruct (kind_map_inv _ _ _ _ _ Ek) as (a & Hr & Ham & Hv & _ & _). inversion Hv; subst m'. clear Hv.
      set (m := (k0, c0) :: m0) in *.
      assert (Hin : In (k0, c0) m) by (left; reflexivity).
      destruct a as [sc li ma]. simpl in Ham. subst ma.
      rewrite Forall_forall in IHm.
      destruct (IHm (k0, c0) Hin (field_type t k0)) as (r & tr' & x & Hr' & Hres & Hleaf & Hx).
      + apply (so_map s R Hok tr _ t k0 Htr Hr eq_refl).
      + apply (wf_value_map_in m k0 c0 Hwf Hin).
      + rewrite conforms_eq, Hr in Hc. eapply cmap_each_in; eauto.
      + apply (MergeAgree.plain_map_in m k0 c0 Hpl Hin).
      + exists (PEField k0 :: r), tr', x. repeat split; auto.
        rewrite (resolve_path_map _ _ _ _ _ _ _ Ek). unfold m. simpl. rewrite String.eqb_refl. exact Hres.
  Qed.
End KeyFields.

(* ================= conditions on recorded sets ================= *)

Lemma app_cons_assoc : forall (A : Type) (pre : list A) e q r,
  (pre ++ e :: q) ++ r = pre ++ e :: (q ++ r).
Proof. intros A pre e q r. rewrite <- app_assoc. reflexivity. Qed.

Lemma en_keys_closed : forall s tr S, ps_ok S = true -> keys_closed S -> keys_closed (ps_en s tr S).
Proof.
  intros s tr S Hok Hkc pre fl k rest Hwf Hin Hhas.
  destruct (en_has_prefix s tr S _ Hok Hwf Hhas) as (r & Hr & Hmem).
  replace ((pre ++ PEKey fl :: PEField k :: rest) ++ r)
    with (pre ++ PEKey fl :: PEField k :: (rest ++ r)) in Hmem
    by (rewrite <- app_assoc; reflexivity).
  apply en_has_mono; auto; [eapply wf_path_key_prefix; eauto|].
  apply (Hkc pre fl k (rest ++ r)); auto.
  apply ReconcileBase.wf_path_app in Hwf. destruct Hwf as [H1 H2].
  apply ReconcileBase.wf_path_app. split; [exact H1|].
  apply wf_path_cons in H2. destruct H2 as [H2 H3]. apply wf_path_cons in H3. destruct H3 as [H3 H4].
  apply wf_path_cons. split; [exact H2|]. apply wf_path_cons. split; [exact H3|].
  apply ReconcileBase.wf_path_app. auto.
Qed.

Lemma en_mono_sub : forall s tr A B, ps_ok A = true -> ps_ok B = true ->
  (forall q, wf_path q = true -> ps_has q A = true -> ps_has q B = true) ->
  forall p, wf_path p = true -> ps_has p (ps_en s tr A) = true -> ps_has p (ps_en s tr B) = true.
Proof.
  intros s tr A B HA HB Hsub p Hp H.
  assert (Hne : p <> []) by (intros ->; rewrite ps_has_nil in H; discriminate).
  apply (en_has_iff s p tr A HA Hp Hne) in H. apply (en_has_iff s p tr B HB Hp Hne).
  destruct H as [H|(pre & n & Hpe & Hnamed & r & Hrne & Hr & Hhas)]; [left; auto|].
  right. exists pre, n. split; [exact Hpe|]. split; [exact Hnamed|].
  exists r. repeat split; auto. apply Hsub; [apply ReconcileBase.wf_path_app; auto|exact Hhas].
Qed.

Lemma atomic_items_free_en : forall s tr S, ps_ok S = true -> atomic_items_free s tr S ->
  atomic_items_free s tr (ps_en s tr S).
Proof.
  intros s tr S Hok Hfree pre e q Hwf Hq Hkv Hhas.
  destruct (en_has_prefix s tr S _ Hok Hwf Hhas) as (r & Hr & Hmem).
  rewrite app_cons_assoc in Hmem.
  apply (Hfree pre e (q ++ r)); auto.
  - apply ReconcileBase.wf_path_app in Hwf. destruct Hwf as [H1 H2].
    apply wf_path_cons in H2. destruct H2 as [H2 H3].
    apply ReconcileBase.wf_path_app. split; [exact H1|]. apply wf_path_cons. split; [exact H2|].
    apply ReconcileBase.wf_path_app. auto.
  - intros E. apply app_eq_nil in E. destruct E. congruence.
Qed.

Section FreeItems.
  Variables (s : schema) (R : typeref -> Prop).
  Hypothesis Hok : schema_ok s R.
  Hypothesis Hfam : family_refs s R.
  Hypothesis Hnd : keys_nodefault s R.

  Lemma free_child : forall tr T e0, ps_ok T = true -> wf_pe e0 = true ->
    atomic_items_free s tr T ->
    atomic_items_free s (en_child_tr (atom_at s tr) e0) (ps_with_prefix e0 T).
  Proof.
    intros tr T e0 HT He0 Hfree pre e q Hwf Hq Hkv Hhas.
    destruct (ps_with_prefix_spec e0 T HT He0) as [_ Hw].
    rewrite Hw in Hhas by (auto; destruct pre; discriminate).
    apply (Hfree (e0 :: pre) e q); auto. simpl. apply wf_path_cons. auto.
  Qed.

  Theorem items_ok_of_free : forall v tr dup T, R tr -> wf_value v = true ->
    conforms s tr dup v = true -> ps_ok T = true -> atomic_items_free s tr T ->
    items_ok s tr v T.
  Proof.
    intros v. induction v as [|b|z|q0|str|l IHl|m IHm] using value_ind';
      intros tr dup T Htr Hwf Hc HT Hfree;
      try (apply io_leaf; unfold leafy, kind_of; destruct (resolve s tr) as [[sc li ma]|];
           [|exact I]; try destruct sc; exact I).
    - (* list *)
      destruct (kind_of s tr (VList l)) as [|t m|t l'|] eqn:Ek;
        try (apply io_leaf; unfold leafy; rewrite Ek; exact I).
      { destruct (kind_map_inv _ _ _ _ _ Ek) as (_ & _ & _ & Hv & _). discriminate. }
      destruct (kind_list_inv _ _ _ _ _ Ek) as (a0 & _ & _ & Hv & _). inversion Hv; subst l'. clear Hv.
      destruct (conf_list_facts s R Hok Hfam tr dup t l Htr Hc Ek)
        as (sc & ma & Hr & Hte & Hna & Hlne & Hhp & Hcs & _).
      assert (Hiw : items_wf s t l) by (eapply items_wf_R; eauto).
      assert (Hat : atom_at s tr = Atom sc (Some t) ma) by (unfold atom_at; rewrite Hr; reflexivity).
      apply (io_list s tr _ T t l Ek). intros x ex Hx Hex Hno.
      assert (Hwex : wf_pe ex = true) by (apply (Hiw x ex Hx Hex)).
      assert (Hwx : wf_value x = true) by (apply (wf_value_list_in l x Hwf Hx)).
      assert (Hcx : conforms s (list_elem t) dup x = true).
      { rewrite forallb_forall in Hcs. exact (Hcs x Hx). }
      destruct (ps_with_prefix_spec ex T HT Hwex) as [HT' Hw].
      pose proof Hex as Hex0. unfold list_item_to_pe in Hex.
      destruct (negb (rel_is_assoc (list_rel t))); [discriminate|].
      destruct (list_keys t) as [|k0 ks] eqn:Ekeys.
      + (* set member: a scalar *)
        assert (Hs : is_scalar x = true) by (destruct x; simpl in Hex; try discriminate; reflexivity).
        split; [intros _; left; exact Hs|]. apply io_leaf. apply scalar_leafy. exact Hs.
      + destruct x as [| | | | |l'|mx]; try (simpl in Hex; discriminate).
        rewrite keyed_item_to_pe_eq in Hex.
        destruct (keyed_go s t mx (list_keys t)) as [fl0|] eqn:Eg; [|discriminate].
        inversion Hex; subst ex. clear Hex.
        pose proof (free_child tr T (PEKey (fl_sort fl0)) HT Hwex Hfree) as Hfree'.
        rewrite Hat in Hfree'. cbn [en_child_tr] in Hfree'.
        split.
        * intros Ee. right.
          destruct (ps_nonempty_witness _ HT' Ee) as (q & Hq & Hhas).
          pose proof (has_nonnil _ _ Hhas) as Hqne. rewrite Hw in Hhas by auto.
          pose proof (Hfree [] (PEKey (fl_sort fl0)) q) as Hna'. cbn [app] in Hna'.
          specialize (Hna' ltac:(apply wf_path_cons; auto) Hqne eq_refl Hhas).
          simpl in Hna'. rewrite Hat in Hna'. cbn [en_child_tr] in Hna'.
          pose proof Hcx as Hcx'. rewrite conforms_eq in Hcx'.
          destruct (resolve s (list_elem t)) as [[sc' li' ma']|] eqn:Er'; [|discriminate].
          destruct ma' as [mt|]; [|discriminate].
          unfold atomic_map_type in Hna'. rewrite Er' in Hna'.
          assert (Hk0 : assoc_get k0 mx <> None).
          { apply (keyed_go_explicit s t mx (list_keys t) fl0 Eg); [|rewrite Ekeys; left; reflexivity].
            intros k' d Hk'. apply (Hnd tr _ t k' d Htr Hr eq_refl Hk'). }
          unfold granular, kind_of. rewrite Er', Hna'.
          destruct mx; [exfalso; apply Hk0; reflexivity|exact I].
        * rewrite Forall_forall in IHl. apply (IHl _ Hx (list_elem t) dup); auto.
    - (* map *)
      destruct (kind_of s tr (VMap m)) as [|t m'|t l'|] eqn:Ek;
        try (apply io_leaf; unfold leafy; rewrite Ek; exact I).
      2:{ destruct (kind_list_inv _ _ _ _ _ Ek) as (_ & _ & _ & Hv & _). discriminate. }
      destruct (kind_map_inv _ _ _ _ _ Ek) as (a & Hr & Ham & Hv & Hna & Hmne).
      inversion Hv; subst m'. clear Hv.
      destruct a as [sc li ma]. simpl in Ham. subst ma.
      assert (Hat : atom_at s tr = Atom sc li (Some t)) by (unfold atom_at; rewrite Hr; reflexivity).
      apply (io_map s tr _ T t m Ek). intros k c Eg Hno.
      pose proof (assoc_get_In m k c Eg) as Hin.
      destruct (ps_with_prefix_spec (PEField k) T HT eq_refl) as [HT' _].
      pose proof (free_child tr T (PEField k) HT eq_refl Hfree) as Hfree'.
      rewrite Hat in Hfree'. cbn [en_child_tr] in Hfree'.
      rewrite Forall_forall in IHm. apply (IHm (k, c) Hin (field_type t k) dup); auto.
      + apply (so_map s R Hok tr _ t k Htr Hr eq_refl).
      + apply (wf_value_map_in m k c Hwf Hin).
      + rewrite conforms_eq, Hr in Hc. eapply cmap_each_in; eauto.
  Qed.
End FreeItems.
