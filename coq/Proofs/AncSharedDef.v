(* The extra invariant of histories that C02 ("every field owned by another manager keeps
   its value unless the configuration itself sets it", Proofs/OthersKeep.v) needs on top of
   [state_ok] (Proofs/History.v):

     of two managers that own the same field, at least one owns -- in the closed sense of
     EnsureNamedFieldsAreMembers -- each of the field's ancestors.

   (Ancestors that end in a declared field of a struct are members of the closure of any set
   that has a member beneath them; so the condition is about the list members and the keys
   of schemaless maps above the field.)  It holds at every reachable state
   (Proofs/AncShared.v): two managers come to own the same field only when the later one
   APPLIES a configuration that spells the field out, and the field set of a configuration
   contains every list member and every map key above each of its members. *)
From Coq Require Import List String Bool.
From SMD Require Import Model.Value Model.PathElem Model.PathSet Model.Schema Model.FieldSet
  Model.Updater Spec.PathsAsSets Proofs.OrderLaws.
Import ListNotations.

Definition anc_shared (s : schema) (tr : typeref) (mf : managed) : Prop :=
  forall m1 m2 r1 r2 (q r : path),
    m1 <> m2 -> mf_get m1 mf = Some r1 -> mf_get m2 mf = Some r2 ->
    wf_path (q ++ r) = true -> q <> [] -> r <> [] ->
    ps_has (q ++ r) (mr_set r1) = true -> ps_has (q ++ r) (mr_set r2) = true ->
    ps_has q (ps_en s tr (mr_set r1)) = true \/ ps_has q (ps_en s tr (mr_set r2)) = true.

Lemma anc_shared_nil : forall s tr, anc_shared s tr [].
Proof. intros s tr m1 m2 r1 r2 q r _ H. discriminate H. Qed.
