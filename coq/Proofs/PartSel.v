(* C14, partition: the set ExtractItems(WithAppendKeyFields) walks with -- the selection S
   together with the key-field paths of the list members on the paths of S ([with_keys]) --
   is a selection in the sense of Proofs/PartExtract.v ([xsel]) when the members of S
   designate leaves of the object. *)
From Coq Require Import List ZArith String Bool Arith Lia.
From SMD Require Import Model.Value Model.Order Model.PathElem Model.PathSet Model.Schema Model.Walk
  Model.Validate Model.FieldSet Model.Remove
  Spec.PathsAsSets Spec.RefValid Spec.Resolve Spec.Agree
  Proofs.OrderLaws Proofs.KeyLaws Proofs.PathSetLaws Proofs.ValidateLaws Proofs.SchemaOk
  Proofs.FieldSetMirrors Proofs.FieldSetBase Proofs.FieldSetShape Proofs.FieldSetPaths
  Proofs.FieldSetLaws Proofs.RemoveBase Proofs.ExtractBase Proofs.ExtractLaws Proofs.RemoveAbsent
  Proofs.RemoveWf Proofs.ResolveLaws Proofs.ReconcileBase Proofs.RemoveFrame
  Proofs.NodeSet Proofs.KeyFields Proofs.TreeFacts Proofs.SetCheckers
  Proofs.PartBase Proofs.PartExtract.
Import ListNotations.
Open Scope bool_scope.
Open Scope list_scope.

Local Arguments ps_has : simpl never.
Local Arguments ps_with_prefix : simpl never.
Local Arguments ps_empty : simpl never.

(* ================= the appended key-field paths ================= *)

Lemma kfp_spec : forall p prefix q,
  In q (key_field_paths prefix p) <->
  exists i fl k, nth_error p i = Some (PEKey fl) /\ In k (map fst fl) /\
    q = prefix ++ firstn i p ++ [PEKey fl; PEField k].
Proof.
  induction p as [|a p IH]; intros prefix q.
  - simpl. split; [contradiction|]. intros (i & fl & k & Hn & _). destruct i; discriminate.
  - cbn [key_field_paths]. rewrite in_app_iff, IH. split.
    + intros [H|H].
      * destruct a as [n|key|w|z]; try contradiction.
        apply in_map_iff in H. destruct H as ([k0 v0] & <- & Hin).
        exists 0, key, k0. simpl. split; [reflexivity|]. split.
        -- apply in_map_iff. exists (k0, v0). auto.
        -- rewrite <- app_assoc. reflexivity.
      * destruct H as (i & fl & k & Hn & Hk & ->). exists (S i), fl, k. simpl.
        split; [exact Hn|]. split; [exact Hk|]. rewrite <- app_assoc. reflexivity.
    + intros (i & fl & k & Hn & Hk & ->). destruct i as [|i].
      * simpl in Hn. inversion Hn; subst a. left.
        apply in_map_iff in Hk. destruct Hk as ([k0 v0] & <- & Hin).
        apply in_map_iff. exists (k0, v0). split; [|exact Hin].
        simpl. rewrite <- app_assoc. reflexivity.
      * right. exists i, fl, k. simpl in Hn. split; [exact Hn|]. split; [exact Hk|].
        simpl. rewrite <- app_assoc. reflexivity.
Qed.

Definition key_extra (fs S : pset) : list path :=
  flat_map (fun p => if ps_has p fs then key_field_paths [] p else []) (ps_elems S).

Definition with_keys (fs S : pset) : pset := ps_union S (ps_of_paths (key_extra fs S)).

Lemma extract_with_keys : forall s tr v S fs, to_field_set s tr v = Some fs ->
  extract s tr true v S = remove_items s true tr (with_keys fs S) v.
Proof. intros s tr v S fs H. unfold extract. rewrite H. reflexivity. Qed.

Lemma wf_path_nth : forall p i e, wf_path p = true -> nth_error p i = Some e -> wf_pe e = true.
Proof.
  intros p i e Hp Hn. unfold wf_path in Hp. rewrite forallb_forall in Hp.
  apply Hp. eapply nth_error_In; eauto.
Qed.

Lemma wf_key_path : forall p i fl k, wf_path p = true -> nth_error p i = Some (PEKey fl) ->
  wf_path (firstn i p ++ [PEKey fl; PEField k]) = true.
Proof.
  intros p i fl k Hp Hn. apply wf_path_app. split; [apply wf_path_firstn; exact Hp|].
  apply wf_path_cons. split; [apply (wf_path_nth p i _ Hp Hn)|reflexivity].
Qed.

Lemma key_extra_wf : forall fs S, ps_ok S = true -> forallb wf_path (key_extra fs S) = true.
Proof.
  intros fs S HS. apply forallb_forall. intros q Hq. unfold key_extra in Hq.
  apply in_flat_map in Hq. destruct Hq as (p & Hp & Hq).
  pose proof (ps_elems_wf S HS) as Hall. rewrite forallb_forall in Hall.
  destruct (ps_has p fs); [|contradiction].
  apply kfp_spec in Hq. destruct Hq as (i & fl & k & Hn & Hk & ->). cbn [app].
  apply wf_key_path; auto.
Qed.

Lemma with_keys_ok : forall fs S, ps_ok S = true -> ps_ok (with_keys fs S) = true.
Proof.
  intros fs S HS. unfold with_keys.
  apply (ps_union_spec S _ HS (ps_of_paths_ok _ (key_extra_wf fs S HS))).
Qed.

(* membership in [with_keys], up to Path.Equals *)
Lemma with_keys_has : forall fs S q, ps_ok S = true ->
  (forall p, wf_path p = true -> ps_has p S = true -> ps_has p fs = true) ->
  wf_path q = true -> q <> [] ->
  (ps_has q (with_keys fs S) = true <->
   ps_has q S = true \/
   exists p i fl k, wf_path p = true /\ ps_has p S = true /\ nth_error p i = Some (PEKey fl) /\
     In k (map fst fl) /\ patheqb q (firstn i p ++ [PEKey fl; PEField k]) = true).
Proof.
  intros fs S q HS Hsub Hq Hqne.
  pose proof (key_extra_wf fs S HS) as Hxw.
  destruct (ps_union_spec S _ HS (ps_of_paths_ok _ Hxw)) as [_ Hu].
  unfold with_keys. rewrite (Hu q Hq), orb_true_iff, (ps_has_of_paths _ q Hxw Hq Hqne).
  pose proof (ps_elems_wf S HS) as Hall. rewrite forallb_forall in Hall.
  split; (intros [H|H]; [left; exact H|right]).
  - unfold pmem in H. apply existsb_exists in H. destruct H as (kp & Hkp & Heq).
    unfold key_extra in Hkp. apply in_flat_map in Hkp. destruct Hkp as (p & Hp & Hkp).
    destruct (ps_has p fs); [|contradiction].
    apply kfp_spec in Hkp. destruct Hkp as (i & fl & k & Hn & Hk & ->). cbn [app] in Heq.
    exists p, i, fl, k. repeat split; auto.
    rewrite (ps_has_elems S p HS (Hall p Hp)). apply pmem_refl_in; auto.
  - destruct H as (p & i & fl & k & Hp & Hh & Hn & Hk & Heq).
    rewrite (ps_has_elems S p HS Hp) in Hh. unfold pmem in Hh. apply existsb_exists in Hh.
    destruct Hh as (p' & Hp' & Hpp').
    destruct (patheqb_nth p p' i _ Hpp' Hn) as (b & Hnb & Hb).
    destruct (peeqb_key_inv fl b Hb) as (fl1 & -> & Hnames).
    unfold pmem. apply existsb_exists.
    exists (firstn i p' ++ [PEKey fl1; PEField k]). split.
    + unfold key_extra. apply in_flat_map. exists p'. split; [exact Hp'|].
      assert (Hin : ps_has p' fs = true).
      { apply Hsub; [apply Hall; exact Hp'|].
        rewrite (ps_has_elems S p' HS (Hall p' Hp')). apply pmem_refl_in; auto. }
      rewrite Hin. apply kfp_spec. exists i, fl1, k. cbn [app]. rewrite <- Hnames. auto.
    + apply (patheqb_trans q (firstn i p ++ [PEKey fl; PEField k])); auto.
      * apply wf_key_path; auto.
      * apply wf_key_path; auto.
      * apply patheqb_app2; [apply patheqb_firstn; exact Hpp'|].
        rewrite !patheqb_cons, Hb. simpl. rewrite String.eqb_refl. reflexivity.
Qed.

(* ================= list facts ================= *)

Lemma nth_error_firstn_lt : forall (A : Type) n (l : list A) i, i < n ->
  nth_error (firstn n l) i = nth_error l i.
Proof.
  intros A n. induction n as [|n IH]; intros l i Hi; [lia|].
  destruct l as [|x l]; [reflexivity|]. destruct i as [|i]; [reflexivity|].
  simpl. apply IH. lia.
Qed.

Lemma firstn_app_exact : forall (A : Type) (l1 l2 : list A), firstn (List.length l1) (l1 ++ l2) = l1.
Proof.
  intros A l1 l2. rewrite firstn_app, Nat.sub_diag, firstn_all. simpl. apply app_nil_r.
Qed.

Lemma nth_error_app_exact : forall (A : Type) (l1 l2 : list A) a,
  nth_error (l1 ++ a :: l2) (List.length l1) = Some a.
Proof. intros A l1 l2 a. rewrite nth_error_app2, Nat.sub_diag by lia. reflexivity. Qed.

Lemma nth_error_lt : forall (A : Type) (l : list A) i a, nth_error l i = Some a -> i < List.length l.
Proof. intros A l i a H. apply nth_error_Some. congruence. Qed.

(* ================= resolution is invariant under Path.Equals ================= *)

Section Sel.
  Variables (s : schema) (R : typeref -> Prop).
  Hypothesis Hok : schema_ok s R.
  Hypothesis Hfam : family_refs s R.
  Hypothesis Hnd : keys_nodefault s R.
  Hypothesis Hks : keys_scalar s R.

  Lemma resolve_patheqb : forall p q, patheqb p q = true -> wf_path p = true -> wf_path q = true ->
    forall v tr, R tr -> wf_value v = true -> resolve_path s tr v p = resolve_path s tr v q.
  Proof.
    induction p as [|e p IH]; intros [|e' q] Hpq Hp Hq v tr Htr Hwf; simpl in Hpq; try discriminate.
    - reflexivity.
    - apply andb_true_iff in Hpq. destruct Hpq as [Hee Hpq].
      apply wf_path_cons in Hp. destruct Hp as [He Hp].
      apply wf_path_cons in Hq. destruct Hq as [He' Hq].
      destruct (kind_of s tr v) eqn:Ek.
      + rewrite !resolve_path_leaf by (rewrite Ek; exact I). reflexivity.
      + destruct (kind_map_inv _ _ _ _ _ Ek) as (a & Hr & Ham & Hv & _ & _). subst v.
        destruct e, e'; simpl in Hee; try discriminate;
          try (rewrite !(resolve_path_map_other _ _ _ _ _ _ _ Ek) by exact I; reflexivity).
        apply String.eqb_eq in Hee. subst name0.
        rewrite !(resolve_path_map _ _ _ _ _ _ _ Ek).
        destruct (assoc_get name m) as [c|] eqn:Eg; [|reflexivity].
        apply IH; auto.
        * eapply (so_map s R Hok); eauto.
        * apply (wf_value_map_in m name c Hwf). apply assoc_get_In. exact Eg.
      + destruct (kind_list_inv _ _ _ _ _ Ek) as (a & Hr & Hal & Hv & _ & _). subst v.
        assert (Hte : R (list_elem t)) by (eapply (so_list s R Hok); eauto).
        assert (Hiw : items_wf s t l) by (eapply items_wf_R; eauto).
        rewrite (resolve_path_list_occ s R Hok tr _ t l e p Htr Hwf Ek He).
        rewrite (resolve_path_list_occ s R Hok tr _ t l e' q Htr Hwf Ek He').
        rewrite (peeqb_keyval e e' Hee), (occ_cong s t l e e' Hiw He He' Hee).
        destruct (forallb (has_pe s t) l && is_keyval e'); [|reflexivity].
        destruct (occ s t e' l) as [|x [|y more]] eqn:Eocc; [reflexivity| |].
        * apply IH; auto.
          assert (Hx : In x (occ s t e' l)) by (rewrite Eocc; simpl; auto).
          apply occ_In in Hx. eapply wf_value_list_in; eauto. apply Hx.
        * destruct p, q; simpl in Hpq; try discriminate; reflexivity.
      + rewrite !resolve_path_leaf by (rewrite Ek; exact I). reflexivity.
  Qed.

  Section SelKeys.
    Variables (tr : typeref) (v : value) (S fs : pset).
    Hypothesis Htr : R tr.
    Hypothesis Hwf : wf_value v = true.
    Hypothesis Hc : conforms s tr false v = true.
    Hypothesis HS : ps_ok S = true.
    Hypothesis Hsel : sel_leaves s tr v S.
    Hypothesis Hsub : forall p, wf_path p = true -> ps_has p S = true -> ps_has p fs = true.

    (* the key-field path of a list member on a path of S: either the member is the leaf S
       names, or the key field is a leaf of the object *)
    Lemma key_path_facts : forall p i fl k, wf_path p = true -> ps_has p S = true ->
      nth_error p i = Some (PEKey fl) -> In k (map fst fl) ->
      (exists tr' x, resolve_path s tr v (firstn i p ++ [PEKey fl]) = Some (RNode tr' x) /\
         leafy s tr' x /\ resolve_path s tr v (firstn i p ++ [PEKey fl; PEField k]) = None) \/
      (exists tr' x, resolve_path s tr v (firstn i p ++ [PEKey fl; PEField k]) = Some (RNode tr' x) /\
         leafy s tr' x).
    Proof.
      intros p i fl k Hp Hh Hn Hk.
      destruct (nth_error_split p i Hn) as (l1 & l2 & Hpe & Hlen). subst i.
      assert (Hf : firstn (List.length l1) p = l1) by (rewrite Hpe; apply firstn_app_exact).
      rewrite Hf.
      destruct (Hsel p Hp Hh) as (tp & xp & Hres & Hlp).
      assert (Hwk : wf_path (l1 ++ [PEKey fl]) = true).
      { rewrite Hpe in Hp. apply wf_path_app in Hp. destruct Hp as [H1 H2].
        apply wf_path_cons in H2. apply wf_path_app. split; [exact H1|].
        apply wf_path_cons. split; [tauto|reflexivity]. }
      destruct l2 as [|r0 l2'].
      - left. exists tp, xp. rewrite <- Hpe. split; [exact Hres|]. split; [exact Hlp|].
        replace (l1 ++ [PEKey fl; PEField k]) with (p ++ [PEField k])
          by (rewrite Hpe, <- app_assoc; reflexivity).
        rewrite resolve_path_app, Hres. apply resolve_path_leaf. exact Hlp.
      - right.
        assert (Hpe' : p = (l1 ++ [PEKey fl]) ++ r0 :: l2') by (rewrite Hpe, <- app_assoc; reflexivity).
        rewrite Hpe', resolve_path_app in Hres.
        destruct (resolve_path s tr v (l1 ++ [PEKey fl])) as [[ti xi|ti xs]|] eqn:Eitem; try discriminate.
        assert (Hgi : granular s ti xi).
        { apply (present_granular s ti xi (r0 :: l2')); [discriminate|]. unfold present.
          rewrite Hres. reflexivity. }
        destruct (item_key_explicit s R Hok Hfam Hnd l1 fl k v tr false ti xi Htr Hwf Hc Hwk Eitem Hk)
          as (m & val & -> & Eg).
        pose proof (kind_vmap_cases s ti m) as Hkc. unfold granular in Hgi.
        destruct (kind_of s ti (VMap m)) as [|t' m'|t' l'|] eqn:Ekm; try contradiction.
        destruct (kind_map_inv _ _ _ _ _ Ekm) as (_ & _ & _ & Hv & _). inversion Hv; subst m'.
        assert (Hwkk : wf_path (l1 ++ PEKey fl :: PEField k :: []) = true).
        { apply wf_path_app in Hwk. destruct Hwk as [H1 H2]. apply wf_path_cons in H2.
          apply wf_path_app. split; [exact H1|]. apply wf_path_cons. split; [tauto|reflexivity]. }
        assert (Hpr : present s tr v (l1 ++ PEKey fl :: PEField k :: []) = true).
        { unfold present.
          replace (l1 ++ [PEKey fl; PEField k]) with ((l1 ++ [PEKey fl]) ++ [PEField k])
            by (rewrite <- app_assoc; reflexivity).
          rewrite resolve_path_app, Eitem, (resolve_path_map _ _ _ _ _ _ _ Ekm), Eg. reflexivity. }
        destruct (key_field_leaf s R Hok Hfam Hks l1 fl k [] v tr false Htr Hwf Hc Hwkk Hk Hpr)
          as (_ & tr' & x & Hresk & Hsimple).
        exists tr', x. split; [exact Hresk|].
        destruct Hsimple as [Hs | ->]; [apply scalar_leafy; exact Hs|apply kind_null].
    Qed.

    Lemma with_keys_xsel : xsel s tr v (with_keys fs S).
    Proof.
      pose proof (with_keys_ok fs S HS) as HT.
      split; [exact HT| | |].
      - (* members that designate something designate leaves *)
        intros q n Hq Hh Hres. pose proof (has_nonnil _ _ Hh) as Hqne.
        apply (with_keys_has fs S q HS Hsub Hq Hqne) in Hh.
        destruct Hh as [Hh|(p & i & fl & k & Hp & Hhp & Hn & Hk & Heq)].
        + destruct (Hsel q Hq Hh) as (tr' & x & Hr & Hl). rewrite Hr in Hres.
          inversion Hres. apply leafy_rnode_leaf. exact Hl.
        + rewrite (resolve_patheqb q _ Heq Hq (wf_key_path p i fl k Hp Hn) v tr Htr Hwf) in Hres.
          destruct (key_path_facts p i fl k Hp Hhp Hn Hk) as [(tr' & x & _ & _ & Hnone)|(tr' & x & Hr & Hl)].
          * rewrite Hnone in Hres. discriminate.
          * rewrite Hr in Hres. inversion Hres. apply leafy_rnode_leaf. exact Hl.
      - (* every member is at or beneath a leaf *)
        intros q Hq Hh. pose proof (has_nonnil _ _ Hh) as Hqne.
        apply (with_keys_has fs S q HS Hsub Hq Hqne) in Hh.
        destruct Hh as [Hh|(p & i & fl & k & Hp & Hhp & Hn & Hk & Heq)].
        + destruct (Hsel q Hq Hh) as (tr' & x & Hr & Hl).
          exists (List.length q), tr', x. rewrite firstn_all.
          split; [destruct q; [congruence|simpl; lia]|]. auto.
        + pose proof (wf_key_path p i fl k Hp Hn) as Hwk.
          pose proof (patheqb_length _ _ Heq) as Hlen.
          pose proof (nth_error_lt _ p i _ Hn) as Hi.
          rewrite app_length, (firstn_length_le p (Nat.lt_le_incl _ _ Hi)) in Hlen. simpl in Hlen.
          destruct (key_path_facts p i fl k Hp Hhp Hn Hk) as [(tr' & x & Hr & Hl & _)|(tr' & x & Hr & Hl)].
          * exists (Datatypes.S i), tr', x. split; [lia|]. split; [|exact Hl].
            rewrite (resolve_patheqb (firstn (Datatypes.S i) q)
                       (firstn (Datatypes.S i) (firstn i p ++ [PEKey fl; PEField k]))
                       (patheqb_firstn _ _ _ Heq) (wf_path_firstn _ _ Hq) (wf_path_firstn _ _ Hwk)
                       v tr Htr Hwf).
            replace (firstn (Datatypes.S i) (firstn i p ++ [PEKey fl; PEField k]))
              with (firstn i p ++ [PEKey fl]); [exact Hr|].
            rewrite firstn_app, (firstn_length_le p (Nat.lt_le_incl _ _ Hi)).
            replace (Datatypes.S i - i) with 1 by lia.
            rewrite firstn_firstn, Nat.min_r by lia. reflexivity.
          * exists (List.length q), tr', x. rewrite firstn_all. split; [lia|]. split; [|exact Hl].
            rewrite (resolve_patheqb q _ Heq Hq Hwk v tr Htr Hwf). exact Hr.
      - (* key fields of the members reached *)
        intros pre fl rest k Hq Hrne Hh Hk.
        set (q := pre ++ PEKey fl :: rest) in *.
        assert (Hqne : q <> []) by (unfold q; destruct pre; discriminate).
        assert (Hnq : nth_error q (List.length pre) = Some (PEKey fl)) by apply nth_error_app_exact.
        assert (Hfq : firstn (List.length pre) q = pre) by apply firstn_app_exact.
        assert (Hwt : wf_path (pre ++ [PEKey fl; PEField k]) = true).
        { rewrite <- Hfq. apply wf_key_path; auto. }
        apply (with_keys_has fs S q HS Hsub Hq Hqne) in Hh.
        apply (with_keys_has fs S _ HS Hsub Hwt); [destruct pre; discriminate|]. right.
        destruct Hh as [Hh|(p & i0 & fl0 & k0 & Hp & Hhp & Hn & Hk0 & Heq)].
        + exists q, (List.length pre), fl, k. repeat split; auto.
          rewrite Hfq. apply patheqb_refl. exact Hwt.
        + pose proof (patheqb_length _ _ Heq) as Hlen.
          pose proof (nth_error_lt _ p i0 _ Hn) as Hi0.
          rewrite app_length, (firstn_length_le p (Nat.lt_le_incl _ _ Hi0)) in Hlen. simpl in Hlen.
          assert (Hle : List.length pre <= i0).
          { unfold q in Hlen. rewrite app_length in Hlen. simpl in Hlen.
            destruct rest; [congruence|]. simpl in Hlen. lia. }
          set (i := List.length pre) in *.
          destruct (patheqb_nth q _ i _ Heq Hnq) as (b & Hnb & Hb).
          assert (Hnp : nth_error p i = Some b).
          { destruct (Nat.eq_dec i i0) as [E|E].
            - rewrite E in *. rewrite nth_error_app2 in Hnb
                by (rewrite (firstn_length_le p (Nat.lt_le_incl _ _ Hi0)); lia).
              rewrite (firstn_length_le p (Nat.lt_le_incl _ _ Hi0)), Nat.sub_diag in Hnb.
              simpl in Hnb. rewrite Hn. exact Hnb.
            - rewrite nth_error_app1 in Hnb
                by (rewrite (firstn_length_le p (Nat.lt_le_incl _ _ Hi0)); lia).
              rewrite nth_error_firstn_lt in Hnb by lia. exact Hnb. }
          destruct (peeqb_key_inv fl b Hb) as (fl1 & -> & Hnames).
          exists p, i, fl1, k. repeat split; auto; [rewrite <- Hnames; exact Hk|].
          apply patheqb_app2.
          * rewrite <- Hfq.
            replace (firstn i p) with (firstn i (firstn i0 p ++ [PEKey fl0; PEField k0])).
            -- apply patheqb_firstn. exact Heq.
            -- rewrite firstn_app, (firstn_length_le p (Nat.lt_le_incl _ _ Hi0)).
               replace (i - i0) with 0 by lia. simpl. rewrite app_nil_r, firstn_firstn.
               rewrite Nat.min_l by lia. reflexivity.
          * rewrite !patheqb_cons, Hb. simpl. rewrite String.eqb_refl. reflexivity.
    Qed.

    Lemma with_keys_sub : forall p, wf_path p = true -> ps_has p S = true ->
      ps_has p (with_keys fs S) = true.
    Proof.
      intros p Hp Hh. apply (with_keys_has fs S p HS Hsub Hp (has_nonnil _ _ Hh)). left. exact Hh.
    Qed.
  End SelKeys.
End Sel.

(* ================= leaves of the object at or above a member of [with_keys] ================= *)

Lemma patheqb_snoc2_inv : forall p a b c, patheqb p (a ++ [b; c]) = true ->
  exists a' b' c', p = a' ++ [b'; c'] /\ peeqb b' b = true /\ peeqb c' c = true.
Proof.
  intros p a. revert p. induction a as [|x a IH]; intros p b c H.
  - destruct p as [|b' [|c' [|d p]]]; simpl in H; try discriminate.
    + rewrite andb_false_r in H. discriminate.
    + exists [], b', c'. rewrite !andb_true_iff in H. tauto.
    + rewrite !andb_false_r in H. discriminate.
  - destruct p as [|y p]; [discriminate|]. cbn [app] in H. rewrite patheqb_cons in H.
    apply andb_true_iff in H. destruct H as [_ H].
    destruct (IH p b c H) as (a' & b' & c' & -> & Hb & Hc). exists (y :: a'), b', c'. auto.
Qed.

Section SelLeaves.
  Variables (s : schema) (R : typeref -> Prop).
  Hypothesis Hok : schema_ok s R.
  Hypothesis Hfam : family_refs s R.
  Variables (tr : typeref) (v : value) (S fs : pset).
  Hypothesis Htr : R tr.
  Hypothesis Hwf : wf_value v = true.
  Hypothesis HS : ps_ok S = true.
  Hypothesis Hsel : sel_leaves s tr v S.
  Hypothesis Hsub : forall p, wf_path p = true -> ps_has p S = true -> ps_has p fs = true.

  (* nothing resolves beneath a leaf *)
  Lemma leaf_no_ext : forall a b n m, resolve_path s tr v a = Some n -> rnode_is_leaf s n = true ->
    resolve_path s tr v (a ++ b) = Some m -> b = [].
  Proof.
    intros a b n m Ha Hl Hab. rewrite resolve_path_app, Ha in Hab.
    destruct b as [|e b']; [reflexivity|]. exfalso.
    destruct n as [t x|t xs]; [|discriminate].
    rewrite resolve_path_leaf in Hab; [discriminate|]. apply rnode_leaf_leafy. exact Hl.
  Qed.

  (* a leaf of v that is (equal to) a prefix of a member of S is that member *)
  Lemma leaf_prefix_member : forall p p' L n, wf_path p = true -> wf_path p' = true ->
    ps_has p' S = true -> patheqb p (firstn L p') = true ->
    resolve_path s tr v p = Some n -> rnode_is_leaf s n = true -> ps_has p S = true.
  Proof.
    intros p p' L n Hp Hp' Hh Heq Hres Hl.
    destruct (Hsel p' Hp' Hh) as (t' & x' & Hres' & _).
    rewrite (resolve_patheqb s R Hok p _ Heq Hp (wf_path_firstn _ _ Hp') v tr Htr Hwf) in Hres.
    rewrite <- (firstn_skipn L p') in Hres'.
    pose proof (leaf_no_ext _ _ _ _ Hres Hl Hres') as Hnil.
    pose proof (firstn_skipn L p') as Hfs. rewrite Hnil, app_nil_r in Hfs. rewrite Hfs in Heq.
    rewrite (ps_has_patheqb S p p' HS Hp Hp' Heq). exact Hh.
  Qed.

  Lemma ext_leaf_cases : forall p n, wf_path p = true -> p <> [] ->
    resolve_path s tr v p = Some n -> rnode_is_leaf s n = true ->
    ext p (with_keys fs S) = true ->
    ps_has p S = true \/
    exists pre fl k, p = pre ++ [PEKey fl; PEField k] /\ In k (map fst fl).
  Proof.
    intros p n Hp Hpne Hres Hl Hext.
    apply (ext_iff p _ (with_keys_ok fs S HS) Hp) in Hext. destruct Hext as (q & Hq & Hh).
    assert (Hpq : wf_path (p ++ q) = true) by (apply wf_path_app; auto).
    apply (with_keys_has fs S (p ++ q) HS Hsub Hpq) in Hh;
      [|intros E; apply app_eq_nil in E; destruct E; congruence].
    destruct Hh as [Hh|(p' & i & fl & k & Hp' & Hhp & Hn & Hk & Heq)].
    - left. destruct (Hsel (p ++ q) Hpq Hh) as (t' & x' & Hres' & _).
      rewrite (leaf_no_ext _ _ _ _ Hres Hl Hres'), app_nil_r in Hh. exact Hh.
    - pose proof (nth_error_lt _ p' i _ Hn) as Hi.
      pose proof (wf_key_path p' i fl k Hp' Hn) as Hwk.
      destruct q as [|q0 q'].
      + right. rewrite app_nil_r in Heq.
        destruct (patheqb_snoc2_inv _ _ _ _ Heq) as (a' & b' & c' & -> & Hb & Hc).
        assert (Hwb : wf_pe b' = true).
        { apply wf_path_app in Hp. destruct Hp as [_ Hp]. apply wf_path_cons in Hp. tauto. }
        rewrite (peeqb_sym b' (PEKey fl) Hwb (wf_path_nth p' i _ Hp' Hn)) in Hb.
        destruct (peeqb_key_inv fl b' Hb) as (fl1 & -> & Hnames).
        assert (Hwc : wf_pe c' = true).
        { apply wf_path_app in Hp. destruct Hp as [_ Hp]. apply wf_path_cons in Hp.
          destruct Hp as [_ Hp]. apply wf_path_cons in Hp. tauto. }
        rewrite (peeqb_sym c' (PEField k) Hwc eq_refl) in Hc.
        rewrite (peeqb_field_inv k c' Hc).
        exists a', fl1, k. split; [reflexivity|]. rewrite <- Hnames. exact Hk.
      + left.
        pose proof (patheqb_length _ _ Heq) as Hlen.
        rewrite !app_length, (firstn_length_le p' (Nat.lt_le_incl _ _ Hi)) in Hlen. simpl in Hlen.
        pose proof (patheqb_firstn (List.length p) _ _ Heq) as Hf.
        rewrite firstn_app_exact in Hf.
        set (L := List.length p) in *.
        assert (HL : L <= Datatypes.S i) by lia.
        apply (leaf_prefix_member p p' L n Hp Hp' Hhp); auto.
        replace (firstn L (firstn i p' ++ [PEKey fl; PEField k])) with (firstn L p') in Hf; [exact Hf|].
        destruct (nth_error_split p' i Hn) as (l1 & l2 & Hpe & Hl1). subst i.
        assert (Hf1 : firstn (List.length l1) p' = l1) by (rewrite Hpe; apply firstn_app_exact).
        rewrite Hf1, Hpe.
        replace (l1 ++ PEKey fl :: l2) with ((l1 ++ [PEKey fl]) ++ l2) by (rewrite <- app_assoc; reflexivity).
        replace (l1 ++ [PEKey fl; PEField k]) with ((l1 ++ [PEKey fl]) ++ [PEField k])
          by (rewrite <- app_assoc; reflexivity).
        rewrite !(firstn_app L (l1 ++ [PEKey fl])).
        replace (L - List.length (l1 ++ [PEKey fl])) with 0
          by (rewrite app_length; simpl; lia).
        reflexivity.
  Qed.
End SelLeaves.
