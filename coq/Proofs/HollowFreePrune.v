(* Helper of Proofs/HollowFree.v: with an identity converter the prune stage of Apply
   (update.go:256-366) returns the merged object or the result of removing some set from
   it, so it never produces an empty map or list [prune_no_empty] -- whatever the records,
   the versions, the order of the passes. *)
From Coq Require Import List ZArith String Bool Arith Lia.
From SMD Require Import Model.Value Model.Order Model.PathElem Model.PathSet Model.Schema Model.Walk
  Model.Validate Model.FieldSet Model.Remove Model.Merge Model.Compare Model.Matcher Model.Reconcile
  Model.Updater Spec.Resolve Proofs.ApplyEffect Proofs.HollowFreeBase.
Import ListNotations.
Open Scope bool_scope.
Open Scope list_scope.

Section PruneNE.
  Variable c : config.
  Hypothesis Hcid : conv_id c.

  Lemma conv : forall n o v, convert c n o v = (COk (snd o), S n).
  Proof. intros n o v. unfold convert. rewrite Hcid. reflexivity. Qed.

  Lemma afv_ne : forall n m p v S m' p'' added n',
    add_back_for_version c n m p v S = UOk (m', p'', added, n') ->
    snd m' = snd m /\ (no_empty (snd m) = true -> no_empty (snd p'') = true).
  Proof.
    intros n m p v S m' p'' added n' H. unfold add_back_for_version in H.
    rewrite conv in H. cbv beta iota in H. rewrite conv in H. cbv beta iota in H.
    destruct (to_fs c (v, snd m)) as [mergedSet|]; [|discriminate].
    destruct (to_fs c (v, snd p)) as [prunedSet|]; [|discriminate].
    match type of H with context [remove_tv c ?a ?b] => set (T := b) in H end.
    destruct (to_fs c (remove_tv c (v, snd m) T)) as [newSet|]; [|discriminate].
    inversion H; subst m' p'' added n'. cbn [fst snd]. split; [reflexivity|].
    intros Hne. unfold remove. apply remove_no_empty. exact Hne.
  Qed.

  Definition rstep (mav : list (string * pset)) (acc : ures (tv * tv * bool * nat)) (v : string)
    : ures (tv * tv * bool * nat) :=
    match acc with
    | UErr e => UErr e
    | UOk (m, p, ch, n) =>
        match assoc_get v mav with
        | Some s =>
            match add_back_for_version c n m p v s with
            | UErr e => UErr e
            | UOk (m', p', added, n') => UOk (m', p', ch || added, n')
            end
        | None => acc
        end
    end.

  Lemma round_unfold : forall mav vs n m p,
    add_back_round c mav vs n m p = fold_left (rstep mav) vs (UOk (m, p, false, n)).
  Proof. reflexivity. Qed.

  Lemma rstep_err : forall mav vs e, fold_left (rstep mav) vs (UErr e) = UErr e.
  Proof. intros mav vs. induction vs as [|v vs IH]; intros e; [reflexivity|]. simpl. apply IH. Qed.

  Lemma round_ne : forall mav vs m p ch n m' p' ch' n',
    fold_left (rstep mav) vs (UOk (m, p, ch, n)) = UOk (m', p', ch', n') ->
    no_empty (snd m) = true -> no_empty (snd p) = true ->
    snd m' = snd m /\ no_empty (snd p') = true.
  Proof.
    intros mav vs. induction vs as [|v vs IH]; intros m p ch n m' p' ch' n' H Hm Hp.
    - simpl in H. inversion H; subst. auto.
    - cbn [fold_left] in H. unfold rstep at 2 in H.
      destruct (assoc_get v mav) as [S|].
      + destruct (add_back_for_version c n m p v S) as [[[[m1 p1] a1] n1]|e] eqn:E;
          [|rewrite rstep_err in H; discriminate].
        destruct (afv_ne n m p v S m1 p1 a1 n1 E) as [Hm1 Hp1].
        destruct (IH m1 p1 (ch || a1) n1 m' p' ch' n' H) as [Hm' Hp']; auto.
        * rewrite Hm1. exact Hm.
        * split; [rewrite Hm', Hm1; reflexivity|exact Hp'].
      + apply (IH m p ch n m' p' ch' n' H Hm Hp).
  Qed.

  Lemma rounds_ne : forall fuel mav vs n m p prev p' n',
    add_back_rounds fuel c mav vs n m p prev = UOk (p', n') ->
    no_empty (snd m) = true -> no_empty (snd p) = true -> no_empty (snd p') = true.
  Proof.
    induction fuel as [|fuel IH]; intros mav vs n m p prev p' n' H Hm Hp; [discriminate|].
    cbn [add_back_rounds] in H. rewrite round_unfold in H.
    destruct (fold_left (rstep mav) vs (UOk (m, p, false, n))) as [[[[m1 p1] ch1] n1]|e] eqn:Er;
      [|discriminate].
    destruct (round_ne mav vs m p false n m1 p1 ch1 n1 Er Hm Hp) as [Hm1 Hp1].
    destruct (ch1 && (2 <=? List.length vs)).
    - destruct (match prev with Some q => veqb (snd q) (snd p1) | None => false end).
      + inversion H; subst. exact Hp1.
      + apply (IH mav vs n1 m1 p1 (Some p1) p' n' H); [rewrite Hm1; exact Hm|exact Hp1].
    - inversion H; subst. exact Hp1.
  Qed.

  Theorem prune_no_empty : forall n merged mf mgr last pruned n1,
    prune c n merged mf mgr last = UOk (pruned, n1) ->
    no_empty (snd merged) = true -> no_empty (snd pruned) = true.
  Proof.
    intros n merged mf mgr last pruned n1 H Hm. unfold prune in H.
    destruct last as [last|]; [|inversion H; subst; exact Hm].
    destruct (ps_empty (mr_set last)); [inversion H; subst; exact Hm|].
    rewrite conv in H. cbv beta iota in H.
    match type of H with context [add_back_owned c ?a ?b ?p0 ?d ?e] =>
      destruct (add_back_owned c a b p0 d e) as [[pruned1 n2]|e1] eqn:Eabo; [|discriminate];
      assert (Hp1 : no_empty (snd pruned1) = true)
    end.
    { unfold add_back_owned in Eabo.
      apply (rounds_ne _ _ _ _ _ _ _ _ _ Eabo); cbn [snd]; [exact Hm|].
      unfold remove. apply remove_no_empty. exact Hm. }
    unfold add_back_dangling in H. rewrite conv in H. cbv beta iota in H.
    destruct (to_fs c (mr_ver last, snd pruned1)) as [prunedSet|]; [|discriminate].
    match type of H with context [to_fs c ?x] => destruct (to_fs c x) as [mergedSet|]; [|discriminate] end.
    rewrite conv in H. cbv beta iota in H. inversion H; subst pruned n1. cbn [snd].
    unfold remove. apply remove_no_empty. exact Hm.
  Qed.
End PruneNE.
