(* Steps 2-3 of C19: SetMatcher.Merge preserves the matcher invariant and denotes the union of
   the pattern sets of its arguments; a well-formed matcher denoting a pattern set accepts
   exactly the paths of the reference semantics Spec/Patterns.v. *)
From Coq Require Import List ZArith String Bool Arith Lia.
From SMD Require Import Base.Search Model.Value Model.Order Model.PathElem Model.PathSet Model.Matcher
  Spec.Patterns Proofs.OrderLaws Proofs.SearchLaws Proofs.KeyLaws Proofs.TrieBase
  Proofs.IncludeFilter Proofs.IncludeOrder.
Import ListNotations.
Open Scope bool_scope.

(* ---------- small list facts ---------- *)
Lemma existsb_ext_in : forall (A : Type) (f g : A -> bool) l,
  (forall x, In x l -> f x = g x) -> existsb f l = existsb g l.
Proof.
  intros A f g l H. induction l as [|a t IH]; simpl; auto.
  rewrite (H a) by (left; reflexivity). rewrite IH; auto. intros x Hx. apply H. right. exact Hx.
Qed.

Lemma find_ext_in : forall (A : Type) (f g : A -> bool) l,
  (forall x, In x l -> f x = g x) -> List.find f l = List.find g l.
Proof.
  intros A f g l H. induction l as [|a t IH]; simpl; auto.
  rewrite (H a) by (left; reflexivity). rewrite IH; auto. intros x Hx. apply H. right. exact Hx.
Qed.

Lemma find_existsb_true : forall (A : Type) (f : A -> bool) l, existsb f l = true ->
  exists x, List.find f l = Some x.
Proof.
  intros A f l. induction l as [|a t IH]; simpl; [discriminate|].
  destruct (f a); simpl; eauto.
Qed.

Lemma find_existsb_false : forall (A : Type) (f : A -> bool) l, existsb f l = false ->
  List.find f l = None.
Proof.
  intros A f l. induction l as [|a t IH]; simpl; auto.
  destruct (f a); simpl; [discriminate|auto].
Qed.

Lemma existsb_false_all : forall (A : Type) (f : A -> bool) l, existsb f l = false ->
  forall x, In x l -> f x = false.
Proof.
  intros A f l H x Hx. destruct (f x) eqn:E; auto.
  assert (existsb f l = true) by (apply existsb_exists; eauto). congruence.
Qed.

(* ---------- the member loop of Merge in closed form ---------- *)
Definition merge_step (fuel' : nat) (base acc : list member) (m : member) : list member :=
  let '(i, ok) := sm_find (fst m) base in
  if ok then
    match nth_error acc i with
    | Some (q, c) => replace_at i (q, sm_merge fuel' c (snd m)) acc
    | None => acc
    end
  else acc ++ [m].

Lemma sm_merge_unfold : forall fuel' a b,
  sm_merge (S fuel') a b =
    if sm_wild a || sm_wild b then SM true []
    else SM false (sm_sort (fold_left (merge_step fuel' (sm_members a)) (sm_members b) (sm_members a))).
Proof. reflexivity. Qed.

Definition upd_child (fuel' : nat) (bs : list member) (q : pematcher) (ca : smatcher) : smatcher :=
  fold_left (fun c m => if is_eq (pm_cmp (fst m) q) then sm_merge fuel' c (snd m) else c) bs ca.

Definition upd (fuel' : nat) (bs : list member) (x : member) : member :=
  (fst x, upd_child fuel' bs (fst x) (snd x)).

Definition notfound (base : list member) (m : member) : bool := negb (snd (sm_find (fst m) base)).

Lemma upd_child_snoc : forall fuel' bs m q ca,
  upd_child fuel' (bs ++ [m]) q ca =
    if is_eq (pm_cmp (fst m) q) then sm_merge fuel' (upd_child fuel' bs q ca) (snd m)
    else upd_child fuel' bs q ca.
Proof. intros. unfold upd_child. rewrite fold_left_app. reflexivity. Qed.

Lemma merged_spec : forall fuel' base, msorted base -> forall bs,
  fold_left (merge_step fuel' base) bs base = map (upd fuel' bs) base ++ filter (notfound base) bs.
Proof.
  intros fuel' base Hs bs. induction bs as [|m bs1 IH] using rev_ind.
  - simpl. rewrite app_nil_r. symmetry. rewrite <- (map_id base) at 2.
    apply map_ext. intros [q c]. reflexivity.
  - rewrite fold_left_app. simpl fold_left. rewrite IH. clear IH.
    rewrite filter_app. unfold merge_step.
    destruct (sm_find_spec base (fst m) Hs) as [Hyes Hno].
    assert (Hnf : notfound base m = negb (snd (sm_find (fst m) base))) by reflexivity.
    destruct (sm_find (fst m) base) as [i ok]. cbn [fst snd] in *. destruct ok.
    + destruct (Hyes eq_refl) as (kc & Hk & Heq).
      assert (Hil : i < List.length (map (upd fuel' bs1) base)).
      { rewrite map_length. apply nth_error_Some. congruence. }
      rewrite nth_error_app1 by exact Hil.
      rewrite (map_nth_error (upd fuel' bs1) i base Hk).
      cbn [filter]. rewrite Hnf. simpl negb. cbv iota. rewrite app_nil_r.
      unfold upd at 1.
      apply (replace_at_map _ _ (upd fuel' bs1) (upd fuel' (bs1 ++ [m])) base i kc).
      * exact Hk.
      * unfold upd. rewrite upd_child_snoc, Heq. reflexivity.
      * intros j z Hj Hz. unfold upd. rewrite upd_child_snoc.
        destruct (pm_cmp (fst m) (fst z)) eqn:Hc; try reflexivity.
        exfalso.
        assert (Hkz : pm_cmp (fst kc) (fst z) = Eq).
        { rewrite <- (pm_cmp_eq_l (fst m) (fst kc) (fst z) Heq). exact Hc. }
        destruct (Nat.lt_trichotomy i j) as [Hlt|[->|Hgt]].
        -- rewrite (msorted_nth base i j kc z Hs Hlt Hk Hz) in Hkz. discriminate.
        -- congruence.
        -- apply pm_cmp_eq_sym in Hkz.
           rewrite (msorted_nth base j i z kc Hs Hgt Hz Hk) in Hkz. discriminate.
    + specialize (Hno eq_refl). cbn [filter]. rewrite Hnf. simpl negb. cbv iota.
      rewrite <- app_assoc. f_equal.
      apply map_ext_in. intros z Hz. unfold upd. rewrite upd_child_snoc.
      destruct (pm_cmp (fst m) (fst z)) eqn:Hc; try reflexivity.
      exfalso. apply (Hno z Hz). exact Hc.
Qed.

Lemma notfound_true : forall base m, msorted base -> notfound base m = true ->
  forall kc, In kc base -> pm_cmp (fst m) (fst kc) <> Eq.
Proof.
  intros base m Hs Hn. destruct (sm_find_spec base (fst m) Hs) as [_ Hno].
  apply Hno. unfold notfound in Hn. apply negb_true_iff in Hn. exact Hn.
Qed.

Lemma notfound_false : forall base m, msorted base -> notfound base m = false ->
  exists kc, In kc base /\ pm_cmp (fst m) (fst kc) = Eq.
Proof.
  intros base m Hs Hn. destruct (sm_find_spec base (fst m) Hs) as [Hyes _].
  unfold notfound in Hn. apply negb_false_iff in Hn.
  destruct (Hyes Hn) as (kc & Hk & Heq). exists kc. split; auto.
  apply nth_error_In in Hk. exact Hk.
Qed.

Lemma upd_child_nohit : forall fuel' bs q ca,
  Forall (fun m : member => pm_cmp (fst m) q <> Eq) bs -> upd_child fuel' bs q ca = ca.
Proof.
  intros fuel' bs q ca H. unfold upd_child. revert ca.
  induction H as [|m t Hm Ht IH]; intros ca; simpl; auto.
  destruct (pm_cmp (fst m) q); try contradiction; simpl; apply IH.
Qed.

Lemma upd_child_cases : forall fuel' bs q ca, msorted bs ->
  (Forall (fun m : member => pm_cmp (fst m) q <> Eq) bs /\ upd_child fuel' bs q ca = ca) \/
  (exists m, In m bs /\ pm_cmp (fst m) q = Eq /\
             upd_child fuel' bs q ca = sm_merge fuel' ca (snd m)).
Proof.
  intros fuel' bs q ca. induction bs as [|m t IH]; intros Hs.
  - left. split; [constructor|reflexivity].
  - destruct Hs as [Hlt Hs].
    destruct (pm_cmp (fst m) q) eqn:Hc.
    + right. exists m. split; [left; reflexivity|]. split; auto.
      unfold upd_child. simpl. rewrite Hc. simpl.
      apply (upd_child_nohit fuel' t q).
      unfold mlt in Hlt. rewrite Forall_forall in *. intros z Hz.
      specialize (Hlt z Hz). rewrite (pm_cmp_eq_l (fst m) q (fst z) Hc) in Hlt.
      apply pm_cmp_neq_sym. congruence.
    + destruct (IH Hs) as [[Hall Heq]|(m' & Hin & Hm' & Heq)].
      * left. split; [constructor; auto; congruence|].
        unfold upd_child in *. simpl. rewrite Hc. simpl. exact Heq.
      * right. exists m'. split; [right; exact Hin|]. split; auto.
        unfold upd_child in *. simpl. rewrite Hc. simpl. exact Heq.
    + destruct (IH Hs) as [[Hall Heq]|(m' & Hin & Hm' & Heq)].
      * left. split; [constructor; auto; congruence|].
        unfold upd_child in *. simpl. rewrite Hc. simpl. exact Heq.
      * right. exists m'. split; [right; exact Hin|]. split; auto.
        unfold upd_child in *. simpl. rewrite Hc. simpl. exact Heq.
Qed.

(* ---------- depth ---------- *)
Lemma sm_depth_pos : forall m, 0 < sm_depth m.
Proof. intros [w ms]. simpl. lia. Qed.

Lemma sm_depth_child : forall w ms (kc : member), In kc ms -> sm_depth (snd kc) < sm_depth (SM w ms).
Proof.
  intros w ms kc Hin. cbn [sm_depth]. induction ms as [|a t IH]; [destruct Hin|].
  cbn [fold_right]. destruct Hin as [->|Hin]; [lia|]. specialize (IH Hin). lia.
Qed.

(* ---------- pattern sets ---------- *)
Notation pat := (list pematcher) (only parsing).

Definition wf_pat (p : pat) : bool := forallb wf_pm p.
Definition pats_wf (A : list pat) : Prop := Forall (fun p => wf_pat p = true) A.

Definition pnull (p : pat) : bool := match p with [] => true | _ => false end.

Definition head_is (k : pematcher) (p : pat) : bool :=
  match p with h :: _ => pm_eqb k h | [] => false end.

Definition tails (k : pematcher) (A : list pat) : list pat := map (@tl pematcher) (filter (head_is k) A).

Lemma tails_app : forall k A B, tails k (A ++ B) = tails k A ++ tails k B.
Proof. intros. unfold tails. rewrite filter_app, map_app. reflexivity. Qed.

Lemma tails_wf : forall k A, pats_wf A -> pats_wf (tails k A).
Proof.
  intros k A H. unfold pats_wf, tails in *. rewrite Forall_forall in *.
  intros p Hp. apply in_map_iff in Hp. destruct Hp as (q & <- & Hq).
  apply filter_In in Hq. destruct Hq as [Hq _]. specialize (H q Hq).
  destruct q as [|h r]; simpl in *; auto. apply andb_true_iff in H. tauto.
Qed.

Lemma pats_wf_app : forall A B, pats_wf A -> pats_wf B -> pats_wf (A ++ B).
Proof. intros A B HA HB. apply Forall_app. auto. Qed.

Lemma head_is_cong : forall k' k p, wf_pm k' = true -> wf_pm k = true -> wf_pat p = true ->
  pm_cmp k' k = Eq -> head_is k' p = head_is k p.
Proof.
  intros k' k p Hk' Hk Hp Heq. destruct p as [|h r]; simpl; auto.
  simpl in Hp. apply andb_true_iff in Hp. destruct Hp as [Hh _].
  apply Bool.eq_iff_eq_true. rewrite <- !pm_cmp_eq_iff by auto.
  rewrite (pm_cmp_eq_l k' k h Heq). tauto.
Qed.

Lemma tails_cong : forall k' k A, wf_pm k' = true -> wf_pm k = true -> pats_wf A ->
  pm_cmp k' k = Eq -> tails k' A = tails k A.
Proof.
  intros k' k A Hk' Hk HA Heq. unfold tails.
  rewrite (filter_ext_in (head_is k') (head_is k) A); [reflexivity|].
  intros p Hp. apply head_is_cong; auto. unfold pats_wf in HA. rewrite Forall_forall in HA. auto.
Qed.

Lemma head_wild_is : forall p, head_wild p = head_is PMWild p.
Proof. intros [|[|x] r]; reflexivity. Qed.

Lemma head_matches_is : forall e p, wf_pe e = true -> wf_pat p = true ->
  head_matches e p = head_is (PMElem e) p.
Proof.
  intros e [|[|x] r] He Hp; simpl; auto.
  simpl in Hp. apply andb_true_iff in Hp. destruct Hp as [Hx _]. apply peeqb_sym; auto.
Qed.

Lemma tails_wild : forall A, map (@tl pematcher) (filter head_wild A) = tails PMWild A.
Proof.
  intros A. unfold tails. rewrite (filter_ext head_wild (head_is PMWild) head_wild_is). reflexivity.
Qed.

Lemma filter_head_matches : forall e A, wf_pe e = true -> pats_wf A ->
  filter (head_matches e) A = filter (head_is (PMElem e)) A.
Proof.
  intros e A He HA. apply filter_ext_in. intros p Hp. apply head_matches_is; auto.
  unfold pats_wf in HA. rewrite Forall_forall in HA. auto.
Qed.

(* ---------- a matcher denotes a set of patterns ---------- *)
Definition key_is (k : pematcher) (kc : member) : bool := pm_eqb k (fst kc).

Inductive denotes : smatcher -> list pat -> Prop :=
| den_wild : forall ms A, existsb pnull A = true -> denotes (SM true ms) A
| den_node : forall ms A,
    existsb pnull A = false ->
    (forall k, wf_pm k = true -> (existsb (key_is k) ms = true <-> tails k A <> [])) ->
    Forall (fun kc => denotes (snd kc) (tails (fst kc) A)) ms ->
    denotes (SM false ms) A.

Lemma den_tails_nil : forall ms A k,
  (forall k, wf_pm k = true -> (existsb (key_is k) ms = true <-> tails k A <> [])) ->
  wf_pm k = true -> (forall kc, In kc ms -> key_is k kc = false) -> tails k A = [].
Proof.
  intros ms A k Hkeys Hk Hall. destruct (tails k A) as [|t0 ts] eqn:Ht; auto. exfalso.
  assert (Hne : tails k A <> []) by (rewrite Ht; discriminate).
  apply (Hkeys k Hk) in Hne. apply existsb_exists in Hne. destruct Hne as (kc & Hin & Hkc).
  rewrite (Hall kc Hin) in Hkc. discriminate.
Qed.

(* ---------- Merge: invariant and denotation ---------- *)
Lemma sm_wf_wild_nil : sm_wf (SM true []).
Proof. constructor; simpl; auto; constructor. Qed.

Theorem merge_denotes : forall fuel a b A B,
  sm_wf a -> sm_wf b -> pats_wf A -> pats_wf B -> denotes a A -> denotes b B ->
  sm_depth a + sm_depth b < fuel ->
  sm_wf (sm_merge fuel a b) /\ denotes (sm_merge fuel a b) (A ++ B).
Proof.
  intros fuel. induction fuel as [|fuel' IH]; intros a b A B Hwa Hwb HA HB Hda Hdb Hfuel.
  { pose proof (sm_depth_pos a). lia. }
  rewrite sm_merge_unfold. destruct a as [wa ams], b as [wb bms].
  cbn [sm_wild sm_members].
  destruct wa.
  { simpl. split; [apply sm_wf_wild_nil|]. apply den_wild. rewrite existsb_app.
    inversion Hda; subst. rewrite H0. reflexivity. }
  destruct wb.
  { simpl. split; [apply sm_wf_wild_nil|]. apply den_wild. rewrite existsb_app.
    inversion Hdb; subst. rewrite H0. apply orb_true_r. }
  cbn [orb].
  inversion Hda as [|? ? HnA HkA HcA]; subst. inversion Hdb as [|? ? HnB HkB HcB]; subst.
  apply sm_wf_inv in Hwa. destruct Hwa as (Hsa & Hka & Hca).
  apply sm_wf_inv in Hwb. destruct Hwb as (Hsb & Hkb & Hcb).
  unfold mkwf in Hka, Hkb. rewrite Forall_forall in Hka, Hkb, Hca, Hcb, HcA, HcB.
  rewrite (merged_spec fuel' ams Hsa bms).
  set (merged := map (upd fuel' bms) ams ++ filter (notfound ams) bms).
  (* members of the merged list *)
  assert (Hin_merged : forall kc, In kc merged <->
            (exists x, In x ams /\ kc = upd fuel' bms x) \/ (In kc bms /\ notfound ams kc = true)).
  { intros kc. unfold merged. rewrite in_app_iff, in_map_iff, filter_In.
    split; intros [H|H]; auto.
    - left. destruct H as (x & Hx & Hi). exists x. auto.
    - left. destruct H as (x & Hx & Hi). exists x. auto. }
  (* every member: lawful key, well-formed child denoting the tails *)
  assert (HC : forall kc, In kc merged ->
            wf_pm (fst kc) = true /\ sm_wf (snd kc) /\ denotes (snd kc) (tails (fst kc) (A ++ B))).
  { intros kc Hkc. apply Hin_merged in Hkc. destruct Hkc as [(x & Hx & ->)|[Hkc Hnf]].
    - cbn [upd fst snd]. pose proof (Hka x Hx) as Hwx. split; auto.
      rewrite tails_app.
      destruct (upd_child_cases fuel' bms (fst x) (snd x) Hsb) as [[Hall Heq]|(m & Hm & Hmx & Heq)];
        rewrite Heq.
      + assert (Hnil : tails (fst x) B = []).
        { apply (den_tails_nil bms B (fst x) HkB Hwx). intros kc Hkc. unfold key_is.
          apply pm_cmp_neq_eqb; auto. apply pm_cmp_neq_sym.
          rewrite Forall_forall in Hall. apply Hall. exact Hkc. }
        rewrite Hnil, app_nil_r. split; auto.
      + pose proof (Hkb m Hm) as Hwm.
        rewrite <- (tails_cong (fst m) (fst x) B Hwm Hwx HB Hmx).
        apply IH; auto.
        * apply tails_wf; auto.
        * apply tails_wf; auto.
        * pose proof (sm_depth_child false ams x Hx). pose proof (sm_depth_child false bms m Hm). lia.
    - pose proof (Hkb kc Hkc) as Hwk. split; auto. split; auto.
      rewrite tails_app.
      assert (Hnil : tails (fst kc) A = []).
      { apply (den_tails_nil ams A (fst kc) HkA Hwk). intros x Hx. unfold key_is.
        apply pm_cmp_neq_eqb; auto. apply (notfound_true ams kc Hsa Hnf x Hx). }
      rewrite Hnil. simpl. auto. }
  (* keys *)
  assert (HK : forall k, wf_pm k = true ->
            ((exists kc, In kc merged /\ key_is k kc = true) <-> tails k (A ++ B) <> [])).
  { intros k Hk. rewrite tails_app. split.
    - intros (kc & Hkc & Hkk). apply Hin_merged in Hkc.
      destruct Hkc as [(x & Hx & ->)|[Hkc Hnf]].
      + assert (Hne : tails k A <> []).
        { apply (HkA k Hk). apply existsb_exists. exists x. split; auto. }
        intros Happ. apply app_eq_nil in Happ. tauto.
      + assert (Hne : tails k B <> []).
        { apply (HkB k Hk). apply existsb_exists. exists kc. split; auto. }
        intros Happ. apply app_eq_nil in Happ. tauto.
    - intros Hne.
      assert (Hor : tails k A <> [] \/ tails k B <> []).
      { destruct (tails k A); [right|left; discriminate]. exact Hne. }
      destruct Hor as [HneA|HneB].
      + apply (HkA k Hk) in HneA. apply existsb_exists in HneA. destruct HneA as (x & Hx & Hkx).
        exists (upd fuel' bms x). split; [|exact Hkx].
        apply Hin_merged. left. exists x. auto.
      + apply (HkB k Hk) in HneB. apply existsb_exists in HneB. destruct HneB as (m & Hm & Hkm).
        destruct (notfound ams m) eqn:Hnf.
        * exists m. split; auto. apply Hin_merged. right. auto.
        * destruct (notfound_false ams m Hsa Hnf) as (x & Hx & Hmx).
          exists (upd fuel' bms x). split; [apply Hin_merged; left; exists x; auto|].
          unfold key_is in *. cbn [upd fst]. apply pm_cmp_eq_iff; auto.
          apply pm_eqb_cmp in Hkm; auto.
          rewrite (pm_cmp_eq_l k (fst m) (fst x) Hkm). exact Hmx. }
  (* distinct keys, hence the sort produces a strictly sorted list *)
  assert (HD : mdistinct merged).
  { unfold merged. apply mdistinct_app.
    - apply mdistinct_map; [reflexivity|]. apply msorted_distinct. exact Hsa.
    - apply mdistinct_filter. apply msorted_distinct. exact Hsb.
    - intros x y Hx Hy. apply in_map_iff in Hx. destruct Hx as (x0 & <- & Hx0).
      apply filter_In in Hy. destruct Hy as [Hy Hnf]. cbn [upd fst].
      apply pm_cmp_neq_sym. apply (notfound_true ams y Hsa Hnf x0 Hx0). }
  split.
  - constructor.
    + apply sm_sort_sorted. exact HD.
    + unfold mkwf. rewrite Forall_forall. intros kc Hkc. apply (proj1 (sm_sort_In _ _)) in Hkc. apply HC. exact Hkc.
    + rewrite Forall_forall. intros kc Hkc. apply (proj1 (sm_sort_In _ _)) in Hkc. apply HC. exact Hkc.
  - apply den_node.
    + rewrite existsb_app, HnA, HnB. reflexivity.
    + intros k Hk. rewrite <- (HK k Hk). rewrite existsb_exists. split.
      * intros (kc & Hkc & Hkk). exists kc. split; auto. apply (proj1 (sm_sort_In _ _)). exact Hkc.
      * intros (kc & Hkc & Hkk). exists kc. split; auto. apply (proj2 (sm_sort_In _ _)). exact Hkc.
    + rewrite Forall_forall. intros kc Hkc. apply (proj1 (sm_sort_In _ _)) in Hkc. apply HC. exact Hkc.
Qed.

(* ---------- a matcher denoting a pattern set has the reference semantics ---------- *)
Lemma keep_path_cons : forall A e rest,
  keep_path A (e :: rest) =
    if existsb pnull A then true
    else
      match (match filter head_wild A with
             | [] => filter (head_matches e) A
             | _ :: _ => filter head_wild A
             end) with
      | [] => false
      | c0 :: cs =>
          match rest with
          | [] => true
          | _ :: _ => keep_path (map (@tl pematcher) (c0 :: cs)) rest
          end
      end.
Proof.
  intros A e rest. cbn [keep_path].
  destruct (filter head_wild A); [destruct (filter (head_matches e) A)|]; reflexivity.
Qed.

Theorem keeps_denotes : forall p m A, wf_path p = true -> sm_wf m -> pats_wf A -> denotes m A ->
  sm_keeps m p = keep_path A p.
Proof.
  intros p. induction p as [|e rest IH]; intros m A Hp Hwf HA Hden; [reflexivity|].
  apply wf_path_cons in Hp. destruct Hp as [He Hrest].
  rewrite keep_path_cons. destruct m as [w ms].
  inversion Hden as [? ? HnA|? ? HnA HkA HcA]; subst; rewrite HnA.
  { reflexivity. }
  cbn [sm_keeps sm_wild sm_members].
  apply sm_wf_inv in Hwf. destruct Hwf as (Hs & Hk & Hc).
  unfold mkwf in Hk. rewrite Forall_forall in Hk, Hc, HcA.
  destruct (existsb (key_is PMWild) ms) eqn:Hw.
  - (* a wildcard member: it is the first member and shadows the others *)
    pose proof Hw as Hw'. apply existsb_exists in Hw'. destruct Hw' as (kc & Hin & Hkc).
    assert (Hfst : fst kc = PMWild).
    { unfold key_is in Hkc. destruct (fst kc); [reflexivity|discriminate]. }
    destruct (msorted_wild_head ms kc Hs Hin Hfst) as [t ->].
    assert (Hne : tails PMWild A <> []) by (apply (HkA PMWild eq_refl); exact Hw).
    pose proof (tails_wild A) as Htw.
    destruct (filter head_wild A) as [|w0 ws] eqn:Hfw.
    { simpl in Htw. symmetry in Htw. contradiction. }
    assert (Hm : pm_matches e kc = true) by (unfold pm_matches; rewrite Hfst; reflexivity).
    destruct rest as [|r0 r'].
    + simpl. rewrite Hm. reflexivity.
    + cbn [List.find]. rewrite Hm. apply IH; auto.
      * rewrite Htw. apply tails_wf. exact HA.
      * rewrite Htw. rewrite <- Hfst. apply HcA. exact Hin.
  - (* no wildcard member *)
    assert (Hnw : tails PMWild A = []).
    { apply (den_tails_nil ms A PMWild HkA eq_refl). apply existsb_false_all. exact Hw. }
    rewrite <- tails_wild in Hnw. apply map_eq_nil in Hnw. rewrite Hnw.
    rewrite (filter_head_matches e A He HA).
    assert (Hmatch : forall kc, In kc ms -> pm_matches e kc = key_is (PMElem e) kc).
    { intros kc Hin. pose proof (existsb_false_all _ _ _ Hw kc Hin) as Hkc.
      pose proof (Hk kc Hin) as Hwk. unfold key_is, pm_matches in *.
      destruct (fst kc) as [|y]; [discriminate|]. simpl. apply peeqb_sym; auto. }
    rewrite (existsb_ext_in _ _ _ ms Hmatch), (find_ext_in _ _ _ ms Hmatch).
    destruct (existsb (key_is (PMElem e)) ms) eqn:Hex.
    + assert (Hne : tails (PMElem e) A <> []) by (apply (HkA (PMElem e) He); exact Hex).
      destruct (filter (head_is (PMElem e)) A) as [|c0 cs] eqn:Hf.
      { exfalso. apply Hne. unfold tails. rewrite Hf. reflexivity. }
      destruct rest as [|r0 r']; [reflexivity|].
      destruct (find_existsb_true _ _ _ Hex) as [kc Hfind]. rewrite Hfind.
      apply find_some in Hfind. destruct Hfind as [Hin Hkc].
      pose proof (Hk kc Hin) as Hwk.
      assert (Hcmp : pm_cmp (fst kc) (PMElem e) = Eq).
      { apply pm_cmp_eq_sym. apply pm_eqb_cmp; auto. }
      apply IH; auto.
      * rewrite <- Hf. apply (tails_wf (PMElem e)). exact HA.
      * rewrite <- Hf. change (map (@tl pematcher) (filter (head_is (PMElem e)) A))
          with (tails (PMElem e) A).
        rewrite <- (tails_cong (fst kc) (PMElem e) A Hwk He HA Hcmp). apply HcA. exact Hin.
    + assert (Hnil : tails (PMElem e) A = []).
      { apply (den_tails_nil ms A (PMElem e) HkA He). apply existsb_false_all. exact Hex. }
      unfold tails in Hnil. apply map_eq_nil in Hnil. rewrite Hnil.
      rewrite (find_existsb_false _ _ _ Hex). destruct rest; reflexivity.
Qed.

(* ---------- PrefixMatcher and NewIncludeMatcherFilter ---------- *)
Lemma prefix_matcher_wf : forall x, wf_pat x = true -> sm_wf (prefix_matcher x).
Proof.
  intros x. induction x as [|k r IH]; intros Hx; simpl.
  - apply sm_wf_wild_nil.
  - simpl in Hx. apply andb_true_iff in Hx. destruct Hx as [Hk Hr].
    constructor.
    + simpl. split; [constructor|exact I].
    + constructor; [exact Hk|constructor].
    + constructor; [apply IH; exact Hr|constructor].
Qed.

Lemma prefix_matcher_denotes : forall x, wf_pat x = true -> denotes (prefix_matcher x) [x].
Proof.
  intros x. induction x as [|k r IH]; intros Hx; simpl.
  - apply den_wild. reflexivity.
  - simpl in Hx. apply andb_true_iff in Hx. destruct Hx as [Hk Hr].
    apply den_node.
    + reflexivity.
    + intros k' Hk'. unfold tails, key_is. simpl. rewrite orb_false_r.
      destruct (pm_eqb k' k); simpl; split; congruence.
    + constructor; [|constructor]. unfold tails. simpl. rewrite (pm_eqb_refl k Hk). simpl.
      apply IH. exact Hr.
Qed.

Definition include_fold (rest : list smatcher) (m : smatcher) : smatcher :=
  fold_left (fun acc x => sm_merge (S (sm_depth acc + sm_depth x)) acc x) rest m.

Lemma include_fold_denotes : forall rest acc A, sm_wf acc -> pats_wf A -> denotes acc A ->
  pats_wf rest ->
  sm_wf (include_fold (map prefix_matcher rest) acc) /\
  denotes (include_fold (map prefix_matcher rest) acc) (A ++ rest).
Proof.
  intros rest. induction rest as [|y t IH]; intros acc A Hwf HA Hden Hrest.
  - simpl. rewrite app_nil_r. auto.
  - inversion Hrest as [|? ? Hy Ht]; subst.
    unfold include_fold. simpl map. simpl fold_left.
    destruct (merge_denotes (S (sm_depth acc + sm_depth (prefix_matcher y))) acc (prefix_matcher y)
                A [y] Hwf (prefix_matcher_wf y Hy) HA) as [Hwf' Hden']; auto.
    + constructor; [exact Hy|constructor].
    + apply prefix_matcher_denotes. exact Hy.
    + change (A ++ y :: t) with (A ++ [y] ++ t). rewrite app_assoc.
      apply IH; auto. apply pats_wf_app; auto. constructor; [exact Hy|constructor].
Qed.

Theorem include_matcher_keeps : forall pats p, pats_wf pats -> wf_path p = true ->
  sm_wf (include_matcher (map prefix_matcher pats)) /\
  sm_keeps (include_matcher (map prefix_matcher pats)) p = (match p with [] => false | _ => include_keeps pats p end).
Proof.
  intros pats p Hpats Hp. destruct pats as [|x rest].
  - simpl. split; [apply sm_wf_wild_nil|]. destruct p; reflexivity.
  - inversion Hpats as [|? ? Hx Hrest]; subst.
    change (include_matcher (map prefix_matcher (x :: rest)))
      with (include_fold (map prefix_matcher rest) (prefix_matcher x)).
    destruct (include_fold_denotes rest (prefix_matcher x) [x] (prefix_matcher_wf x Hx)) as [Hwf Hden]; auto.
    + constructor; [exact Hx|constructor].
    + apply prefix_matcher_denotes. exact Hx.
    + split; [exact Hwf|]. simpl app in Hden.
      rewrite (keeps_denotes p _ (x :: rest) Hp Hwf Hpats Hden).
      destruct p; reflexivity.
Qed.
