(* The trie: well-formedness, membership, emptiness, size, insertion. *)
From Coq Require Import List ZArith String Bool Arith Lia.
From SMD Require Import Base.Search Model.Value Model.Order Model.PathElem Model.PathSet
  Spec.PathsAsSets Proofs.OrderLaws Proofs.SearchLaws Proofs.KeyLaws Proofs.PesLaws.
Import ListNotations.
Open Scope bool_scope.

Fixpoint ps_wfv (s : pset) : bool :=
  match s with
  | PSet m c => wf_pes m && forallb (fun ec => wf_pe (fst ec) && ps_wfv (snd ec)) c
  end.
Definition ps_ok (s : pset) : bool := ps_wf s && ps_wfv s.

Definition cok (ec : pe * pset) : Prop :=
  wf_pe (fst ec) = true /\ ps_ok (snd ec) = true /\ ps_empty (snd ec) = false.

Lemma ps_ok_PSet : forall m c,
  ps_ok (PSet m c) = true <->
  sorted_pes m = true /\ wf_pes m = true /\ ksorted fst c /\ Forall cok c.
Proof.
  intros m c. unfold ps_ok. cbn [ps_wf ps_wfv].
  rewrite !andb_true_iff, !forallb_forall, sorted_fst_iff, Forall_forall. split.
  - intros (((H1 & H2) & H3) & H4 & H5). repeat split; auto.
    + specialize (H5 x H). apply andb_true_iff in H5. tauto.
    + unfold ps_ok. specialize (H3 x H). specialize (H5 x H).
      apply andb_true_iff in H3, H5. apply andb_true_iff. tauto.
    + specialize (H3 x H). apply andb_true_iff in H3. destruct H3 as [_ H3].
      apply negb_true_iff in H3. exact H3.
  - intros (H1 & H2 & H3 & H4). repeat split; auto.
    + intros x Hx. destruct (H4 x Hx) as (Ha & Hb & Hc). unfold ps_ok in Hb.
      apply andb_true_iff in Hb. rewrite Hc. apply andb_true_iff. simpl. tauto.
    + intros x Hx. destruct (H4 x Hx) as (Ha & Hb & Hc). unfold ps_ok in Hb.
      apply andb_true_iff in Hb. apply andb_true_iff. tauto.
Qed.

Lemma ps_ok_empty : ps_ok ps_empty_set = true.
Proof. reflexivity. Qed.

Lemma cok_kwf : forall c, Forall cok c -> kwf fst c.
Proof.
  intros c H. unfold kwf. eapply Forall_impl; [|exact H]. intros a Ha. apply Ha.
Qed.

Lemma cok_wfkeys : forall c, Forall cok c -> forallb (fun ec : pe * pset => wf_pe (fst ec)) c = true.
Proof. intros c H. apply wf_keys_iff. apply cok_kwf. exact H. Qed.

Lemma klook_cok : forall e c x, Forall cok c -> klook fst e c = Some x ->
  In x c /\ cok x /\ peeqb e (fst x) = true.
Proof.
  intros e c x Hc Hl. apply klook_Some in Hl. destruct Hl as [Hin Heq].
  rewrite Forall_forall in Hc. auto.
Qed.

Lemma wf_pe_default : wf_pe pe_default = true.
Proof. reflexivity. Qed.

(* ---------- membership ---------- *)
Definition chas (p : path) (o : option (pe * pset)) : bool :=
  match o with Some ec => ps_has p (snd ec) | None => false end.

Lemma ps_has_one : forall e m c, ps_ok (PSet m c) = true -> wf_pe e = true ->
  ps_has [e] (PSet m c) = pes_mem e m.
Proof.
  intros e m c Hok He. apply ps_ok_PSet in Hok. destruct Hok as (H1 & H2 & _).
  cbn [ps_has ps_members]. apply pes_has_spec; auto.
Qed.

Lemma snm_get_look : forall e c, wf_pe e = true -> ksorted fst c -> Forall cok c ->
  snm_get e c = option_map snd (klook fst e c).
Proof.
  intros e c He Hs Hc. unfold snm_get. apply pem_get_look; auto. apply cok_kwf; auto.
Qed.

Lemma ps_has_more : forall e p0 p' m c, ps_ok (PSet m c) = true -> wf_pe e = true ->
  ps_has (e :: p0 :: p') (PSet m c) = chas (p0 :: p') (klook fst e c).
Proof.
  intros e p0 p' m c Hok He. apply ps_ok_PSet in Hok. destruct Hok as (_ & _ & H3 & H4).
  change (ps_has (e :: p0 :: p') (PSet m c)) with
    (match snm_get e c with Some sub => ps_has (p0 :: p') sub | None => false end).
  rewrite snm_get_look by auto. destruct (klook fst e c); reflexivity.
Qed.

Lemma ps_has_nil : forall s, ps_has [] s = false.
Proof. reflexivity. Qed.

Lemma pes_has_nil : forall e, pes_has e [] = false.
Proof. reflexivity. Qed.

Lemma wf_path_cons : forall e p, wf_path (e :: p) = true <-> wf_pe e = true /\ wf_path p = true.
Proof. intros e p. unfold wf_path. simpl. apply andb_true_iff. Qed.

(* ---------- emptiness ---------- *)
Lemma ps_empty_has : forall s p, ps_empty s = true -> ps_has p s = false.
Proof.
  intros s. induction s as [m c IH] using pset_ind'. intros p He.
  cbn [ps_empty] in He. destruct m as [|m0 m']; [|discriminate].
  destruct p as [|e [|p0 p']]; [reflexivity|reflexivity|].
  change (ps_has (e :: p0 :: p') (PSet [] c)) with
    (match snm_get e c with Some sub => ps_has (p0 :: p') sub | None => false end).
  destruct (snm_get e c) as [sub|] eqn:Hg; [|reflexivity].
  apply pem_get_In in Hg. destruct Hg as (e' & Hin & _).
  rewrite Forall_forall in IH. apply (IH (e', sub) Hin).
  rewrite forallb_forall in He. apply (He (e', sub) Hin).
Qed.

Lemma ps_nonempty_witness : forall s, ps_ok s = true -> ps_empty s = false ->
  exists p, wf_path p = true /\ ps_has p s = true.
Proof.
  intros s. induction s as [m c IH] using pset_ind'. intros Hok Hne.
  pose proof Hok as Hok'. apply ps_ok_PSet in Hok'. destruct Hok' as (H1 & H2 & H3 & H4).
  destruct m as [|m0 m'].
  - destruct c as [|[e1 s1] t]; [discriminate|].
    inversion IH as [|? ? IH1 _]; subst. inversion H4 as [|? ? Hc1 Hct]; subst.
    destruct Hc1 as (Hw1 & Hok1 & Hne1). simpl in *.
    destruct (IH1 Hok1 Hne1) as (p & Hp & Hhas).
    destruct p as [|p0 p']; [discriminate|].
    exists (e1 :: p0 :: p'). split; [apply wf_path_cons; auto|].
    rewrite ps_has_more by auto. rewrite klook_cons. simpl fst.
    rewrite peeqb_refl by auto. exact Hhas.
  - exists [m0]. unfold wf_pes in H2. simpl in H2. apply andb_true_iff in H2.
    split; [unfold wf_path; simpl; rewrite (proj1 H2); reflexivity|].
    rewrite ps_has_one by tauto. rewrite pes_mem_cons, peeqb_refl by tauto. reflexivity.
Qed.

Lemma ps_has_nonempty : forall s p, ps_has p s = true -> ps_empty s = false.
Proof.
  intros s p H. destruct (ps_empty s) eqn:He; auto.
  rewrite (ps_empty_has s p He) in H. discriminate.
Qed.

(* ---------- elements: size and emptiness ---------- *)
Lemma ps_size_elems : forall s, ps_size s = List.length (ps_elems s).
Proof.
  intros s. induction s as [m c IH] using pset_ind'.
  cbn [ps_size ps_elems]. rewrite app_length, map_length. f_equal.
  induction IH as [|ec t Hec Ht IHt]; simpl; auto.
  rewrite app_length, map_length, Hec, IHt. reflexivity.
Qed.

Lemma ps_empty_elems : forall s, ps_empty s = true <-> ps_elems s = [].
Proof.
  intros s. induction s as [m c IH] using pset_ind'.
  cbn [ps_empty ps_elems]. destruct m as [|m0 m']; [|simpl; split; discriminate].
  simpl map. simpl app.
  induction IH as [|ec t Hec Ht IHt]; simpl; [tauto|].
  rewrite andb_true_iff, Hec, IHt. split.
  - intros [Ha Hb]. rewrite Ha, Hb. reflexivity.
  - intros H. apply app_eq_nil in H. destruct H as [Ha Hb].
    apply map_eq_nil in Ha. auto.
Qed.

(* ---------- insertion ---------- *)
Definition sub_or_empty (o : option pset) : pset :=
  match o with Some sub => sub | None => ps_empty_set end.

Lemma ps_insert_unfold : forall e e2 r s,
  ps_insert (e :: e2 :: r) s =
    PSet (ps_members s)
      (pem_insert e (ps_insert (e2 :: r) (sub_or_empty (pem_get e (ps_children s)))) (ps_children s)).
Proof.
  intros e e2 r s. unfold pem_insert, pem_get, sub_or_empty.
  change (ps_insert (e :: e2 :: r) s) with
    (let c := ps_children s in
     let loc := pem_loc e c in
     match nth_error c loc with
     | None => PSet (ps_members s) (c ++ [(e, ps_insert (e2 :: r) ps_empty_set)])
     | Some (e', sub) =>
         if peeqb e' e then PSet (ps_members s) (replace_at loc (e', ps_insert (e2 :: r) sub) c)
         else PSet (ps_members s) (insert_at loc (e, ps_insert (e2 :: r) ps_empty_set) c)
     end).
  cbv zeta.
  destruct (nth_error (ps_children s) (pem_loc e (ps_children s))) as [[e' sub]|]; [|reflexivity].
  destruct (peeqb e' e); reflexivity.
Qed.

Lemma ps_insert_one : forall e m c, ps_insert [e] (PSet m c) = PSet (pes_insert e m) c.
Proof. reflexivity. Qed.

Lemma ps_insert_nonempty : forall p s, p <> [] -> ps_empty (ps_insert p s) = false.
Proof.
  intros p. induction p as [|e r IH]; intros s Hp; [contradiction|].
  destruct r as [|e2 r'].
  - destruct s as [m c]. rewrite ps_insert_one. cbn [ps_empty].
    pose proof (pes_insert_nonempty e m) as Hn. destruct (pes_insert e m); [contradiction|reflexivity].
  - rewrite ps_insert_unfold. cbn [ps_empty]. destruct (ps_members s); [|reflexivity].
    match goal with |- forallb ?f ?l = false => destruct (forallb f l) eqn:HF end; auto.
    rewrite forallb_forall in HF.
    match type of HF with forall x, In x (pem_insert ?e ?v ?l) -> _ =>
      destruct (pem_insert_has _ e v l) as [k Hk]; specialize (HF (k, v) Hk) end.
    cbn [snd] in HF. rewrite IH in HF by discriminate. discriminate.
Qed.

Lemma sub_or_empty_ok : forall e c, Forall cok c -> ps_ok (sub_or_empty (pem_get e c)) = true.
Proof.
  intros e c Hc. destruct (pem_get e c) as [sub|] eqn:Hg; simpl; [|reflexivity].
  apply pem_get_In in Hg. destruct Hg as (e' & Hin & _).
  rewrite Forall_forall in Hc. apply (Hc (e', sub) Hin).
Qed.

Lemma ps_insert_ok : forall p s, ps_ok s = true -> wf_path p = true -> ps_ok (ps_insert p s) = true.
Proof.
  intros p. induction p as [|e r IH]; intros s Hok Hwf; [exact Hok|].
  apply wf_path_cons in Hwf. destruct Hwf as [He Hr].
  destruct s as [m c]. pose proof Hok as Hok'. apply ps_ok_PSet in Hok'.
  destruct Hok' as (H1 & H2 & H3 & H4).
  destruct r as [|e2 r'].
  - rewrite ps_insert_one. apply ps_ok_PSet.
    destruct (pes_insert_sorted e m H1 H2 He) as [Ha Hb]. auto.
  - rewrite ps_insert_unfold. cbn [ps_members ps_children]. apply ps_ok_PSet.
    set (v := ps_insert (e2 :: r') (sub_or_empty (pem_get e c))).
    assert (Hv : ps_ok v = true) by (apply IH; auto; apply sub_or_empty_ok; auto).
    assert (Hvn : ps_empty v = false) by (apply ps_insert_nonempty; discriminate).
    pose proof (cok_wfkeys c H4) as Hwk. pose proof (proj2 (sorted_fst_iff _ c) H3) as Hsf.
    destruct (pem_insert_facts _ e v c Hsf Hwk He) as (Hs' & Hw' & _).
    repeat split; auto.
    rewrite Forall_forall. intros a Ha. apply pem_insert_In in Ha.
    rewrite Forall_forall in H4.
    destruct Ha as [[Hsnd Hfst]|Ha]; [|auto].
    unfold cok. rewrite Hsnd. repeat split; auto.
    destruct Hfst as [Hfst|Hfst]; [rewrite Hfst; auto|].
    apply in_map_iff in Hfst. destruct Hfst as (b & Hb1 & Hb2). rewrite <- Hb1. apply (H4 b Hb2).
Qed.

Lemma patheqb_one_more : forall x e q0 q', patheqb [x] (e :: q0 :: q') = false.
Proof. intros. simpl. apply andb_false_r. Qed.

Lemma patheqb_more_one : forall x p0 p' e, patheqb (x :: p0 :: p') [e] = false.
Proof. intros. simpl. apply andb_false_r. Qed.

Lemma ps_has_insert : forall p q s, ps_ok s = true -> wf_path p = true -> wf_path q = true -> q <> [] ->
  ps_has p (ps_insert q s) = patheqb p q || ps_has p s.
Proof.
  intros p q. revert p. induction q as [|e r IH]; intros p s Hok Hp Hq Hne; [contradiction|].
  pose proof (ps_insert_ok (e :: r) s Hok Hq) as Hok2.
  apply wf_path_cons in Hq. destruct Hq as [He Hr].
  destruct s as [m c]. pose proof Hok as Hok'. apply ps_ok_PSet in Hok'.
  destruct Hok' as (H1 & H2 & H3 & H4).
  destruct p as [|x [|p0 p']]; [reflexivity| |].
  - apply wf_path_cons in Hp. destruct Hp as [Hx _].
    destruct r as [|e2 r'].
    + rewrite ps_insert_one in *. rewrite !ps_has_one by auto.
      rewrite pes_insert_mem by auto. simpl. rewrite andb_true_r. reflexivity.
    + rewrite ps_insert_unfold in *. cbn [ps_members ps_children] in *.
      rewrite !ps_has_one by auto. rewrite patheqb_one_more. reflexivity.
  - apply wf_path_cons in Hp. destruct Hp as [Hx Hp].
    destruct r as [|e2 r'].
    + rewrite ps_insert_one in *. rewrite !ps_has_more by auto.
      rewrite patheqb_more_one. reflexivity.
    + rewrite ps_insert_unfold in *. cbn [ps_members ps_children] in *.
      rewrite !ps_has_more by auto.
      set (v := ps_insert (e2 :: r') (sub_or_empty (pem_get e c))) in *.
      pose proof (cok_wfkeys c H4) as Hwk. pose proof (proj2 (sorted_fst_iff _ c) H3) as Hsf.
      destruct (pem_insert_facts _ e v c Hsf Hwk He) as (_ & _ & Hlook).
      rewrite (Hlook x Hx).
      change (patheqb (x :: p0 :: p') (e :: e2 :: r')) with
        (peeqb x e && patheqb (p0 :: p') (e2 :: r')).
      destruct (peeqb x e) eqn:Hxe; [|reflexivity].
      cbn [chas andb]. rewrite gins_new_pem_snd. unfold v.
      rewrite IH; auto; [|apply sub_or_empty_ok; auto|discriminate].
      f_equal. fold (snm_get e c). rewrite snm_get_look by auto.
      rewrite (klook_cong fst x e c) by (auto; apply cok_kwf; auto).
      destruct (klook fst e c); [reflexivity|].
      cbn [chas option_map sub_or_empty].
      rewrite (ps_empty_has ps_empty_set (p0 :: p') eq_refl). reflexivity.
Qed.

(* ---------- building from a list of paths ---------- *)
Lemma fold_insert_ok : forall l s, forallb wf_path l = true -> ps_ok s = true ->
  ps_ok (fold_left (fun s p => ps_insert p s) l s) = true.
Proof.
  intros l. induction l as [|q t IH]; intros s Hl Hs; [exact Hs|].
  simpl in Hl. apply andb_true_iff in Hl. destruct Hl as [Hq Ht].
  simpl. apply IH; auto. apply ps_insert_ok; auto.
Qed.

Lemma ps_of_paths_ok : forall l, forallb wf_path l = true -> ps_ok (ps_of_paths l) = true.
Proof. intros l Hl. unfold ps_of_paths. apply fold_insert_ok; auto. Qed.

Lemma patheqb_cons_nil : forall x p, patheqb (x :: p) [] = false.
Proof. reflexivity. Qed.

Lemma fold_insert_has : forall l s p, forallb wf_path l = true -> ps_ok s = true ->
  wf_path p = true -> p <> [] ->
  ps_has p (fold_left (fun s p => ps_insert p s) l s) = pmem p l || ps_has p s.
Proof.
  intros l. induction l as [|q t IH]; intros s p Hl Hs Hp Hne; [reflexivity|].
  simpl in Hl. apply andb_true_iff in Hl. destruct Hl as [Hq Ht].
  cbn [fold_left]. rewrite IH; auto; [|apply ps_insert_ok; auto].
  unfold pmem. cbn [existsb]. fold (pmem p t).
  destruct q as [|q0 q'].
  - cbn [ps_insert]. destruct p as [|x p']; [contradiction|].
    rewrite patheqb_cons_nil. cbn [orb]. reflexivity.
  - rewrite ps_has_insert by (auto; discriminate).
    destruct (pmem p t), (patheqb p (q0 :: q')); reflexivity.
Qed.

Lemma ps_has_of_paths : forall l p, forallb wf_path l = true -> wf_path p = true -> p <> [] ->
  ps_has p (ps_of_paths l) = pmem p l.
Proof.
  intros l p Hl Hp Hne. unfold ps_of_paths.
  rewrite fold_insert_has; auto. destruct p as [|x [|p0 p']]; try contradiction.
  - cbn. apply orb_false_r.
  - cbn. apply orb_false_r.
Qed.
