(* The merging walker on conforming operands, by induction on the fuel: one side absent,
   both sides equal, absence of errors. *)
From Coq Require Import List ZArith String Bool Arith Lia.
From SMD Require Import Model.Value Model.Order Model.PathElem Model.PathSet Model.Schema
  Model.Walk Model.Merge Spec.RefValid Spec.Resolve Proofs.OrderLaws Proofs.KeyLaws Proofs.PesLaws
  Proofs.SchemaOk Proofs.MergeBase Proofs.MergeLoop.
Import ListNotations.
Open Scope bool_scope.

Lemma handle_leafy : forall f s lo ro h,
  h <> HInvalid ->
  is_empty_l (deref_map lo) && is_empty_l (deref_map ro) = true ->
  is_empty_l (deref_list lo) && is_empty_l (deref_list ro) = true ->
  (forall t, h = HScalar t -> validate_scalar t lo && validate_scalar t ro = false) ->
  handle f s lo ro h = do_leaf lo ro.
Proof.
  intros f s lo ro h Hh Hm Hl Hs. destruct h as [t|t|t|]; simpl.
  - unfold merge_map. rewrite Hm, orb_true_r. reflexivity.
  - rewrite (Hs t eq_refl). reflexivity.
  - unfold merge_list. rewrite Hl, orb_true_r. reflexivity.
  - congruence.
Qed.

Lemma hfrom_not_invalid : forall a h, hfrom a h -> h <> HInvalid.
Proof. intros [sc li ma] h H E. subst h. exact H. Qed.

Lemma deduce_null : forall a, deduce_atom a (Some VNull) = a.
Proof. intros [sc li ma]. reflexivity. Qed.

Lemma deduce_conf_scalar : forall t li ma v, is_scalar v = true ->
  handle_atom (deduce_atom (Atom (Some t) li ma) (Some v)) = HScalar t.
Proof. intros t li ma v H. simpl. rewrite H. reflexivity. Qed.

Lemma handle_scalar_ok : forall f s t lo v, scalar_ok t v = true ->
  handle f s lo (Some v) (HScalar t) = (false, Some v).
Proof.
  intros f s t lo v H. unfold handle. rewrite (scalar_ok_validate t v H), andb_false_r. reflexivity.
Qed.

Lemma handle_scalar_ok_l : forall f s t v, scalar_ok t v = true ->
  handle f s (Some v) None (HScalar t) = (false, Some v).
Proof.
  intros f s t v H. unfold handle. rewrite (scalar_ok_validate t v H). reflexivity.
Qed.

Lemma index_nil : forall s t b acc obs err, index_list_pes s t b [] acc obs err = (acc, obs, err).
Proof. reflexivity. Qed.

Lemma list_rel_assoc : forall t, list_rel t = RAssociative \/ list_rel t = RAtomic ->
  rel_is_atomic (list_rel t) = false -> list_rel t = RAssociative.
Proof. intros t [H|H] Ha; auto. rewrite H in Ha. discriminate. Qed.

Section Walk.
  Variables (s : schema) (R : typeref -> Prop).
  Hypothesis Hok : schema_ok s R.
  Hypothesis Hfam : family_refs s R.

  Lemma elem_ok : forall tr a t, R tr -> resolve s tr = Some a -> atom_list a = Some t ->
    elem_defaults_ok s t.
  Proof.
    intros tr a t HR Hr Hl a' Hr'. apply (so_defaults s R Hok (list_elem t) a'); auto.
    apply (so_list s R Hok tr a t); auto.
  Qed.

  (* what [conforms] says about a list of an associative type *)
  Lemma conf_list_assoc : forall tr a t dup l, resolve s tr = Some a -> atom_list a = Some t ->
    list_rel t = RAssociative -> conforms s tr dup (VList l) = true ->
    forallb (has_pe s t) l = true /\ forallb (conforms s (list_elem t) dup) l = true /\
    (dup = false -> all_distinct (pes_of s t l) = true).
  Proof.
    intros tr a t dup l Hr Hl Hrel Hc. rewrite conforms_unf, Hr in Hc.
    destruct a as [sc li ma]. simpl in Hl. subst li. rewrite Hrel in Hc.
    apply andb_true_iff in Hc. destruct Hc as [Hc H3].
    apply andb_true_iff in Hc. destruct Hc as [H1 H2].
    repeat split; auto. intros Hd. subst dup. exact H3.
  Qed.

  (* ---------------------------------------------------------------- *)
  (* right side absent *)
  Section AbsentRight.
    Variable f : nat.
    Hypothesis IHA : forall tr x, R tr -> vdepth x < f -> conforms s tr true x = true ->
      wf_value x = true -> merge_w f s tr (Some x) None = (false, Some x).

    Lemma absent_right_map : forall tr a mt m, R tr -> resolve s tr = Some a ->
      atom_map a = Some mt -> vdepth (VMap m) < S f ->
      conforms s tr true (VMap m) = true -> wf_value (VMap m) = true ->
      merge_map f s mt (Some (VMap m)) None = (false, Some (VMap m)).
    Proof.
      intros tr a mt m HR Hr Hm Hd Hc Hw. unfold merge_map.
      destruct (rel_is_atomic (map_rel mt) ||
                is_empty_l (deref_map (Some (VMap m))) && is_empty_l (deref_map None)) eqn:Eleaf;
        [reflexivity|].
      apply orb_false_iff in Eleaf. destruct Eleaf as [_ Eleaf].
      assert (Hne : m <> []) by (intros E; subst m; discriminate).
      change (dm (Some (VMap m))) with m. change (dm None) with (@nil (string * value)).
      simpl map at 2. rewrite keys_union_nil_r.
      set (g := fun k => match assoc_get k m with Some x => x | None => VNull end).
      rewrite (fold_map_ok f s mt m [] g).
      - assert (Hreb : map (fun k => (k, g k)) (map fst m) = m).
        { apply map_rebuild. intros k x Hin. unfold g.
          rewrite (assoc_get_sorted_in m k x (wf_map_sorted m Hw) Hin). reflexivity. }
        simpl app. rewrite Hreb. destruct m; [congruence|reflexivity].
      - intros k Hk. simpl assoc_get at 2.
        pose proof (assoc_get_in_keys _ m k Hk) as Hsome. unfold g.
        destruct (assoc_get k m) as [x|] eqn:Ex; [|congruence].
        pose proof (oconf_dm s tr true a mt (Some (VMap m)) k Hr Hm (conj Hc Hw)) as Hsub.
        change (dm (Some (VMap m))) with m in Hsub. rewrite Ex in Hsub. destruct Hsub as [Hcx Hwx].
        apply IHA; auto.
        + apply (so_map s R Hok tr a mt k); auto.
        + apply assoc_get_in in Ex. pose proof (vdepth_map_in m k x Ex). lia.
    Qed.

    Lemma absent_right_list : forall tr a t l, R tr -> resolve s tr = Some a ->
      atom_list a = Some t -> vdepth (VList l) < S f ->
      conforms s tr true (VList l) = true -> wf_value (VList l) = true ->
      merge_list f s t (Some (VList l)) None = (false, Some (VList l)).
    Proof.
      intros tr a t l HR Hr Hl Hd Hc Hw. unfold merge_list.
      destruct (rel_is_atomic (list_rel t) ||
                is_empty_l (deref_list (Some (VList l))) && is_empty_l (deref_list None)) eqn:Eleaf;
        [reflexivity|].
      apply orb_false_iff in Eleaf. destruct Eleaf as [Hna Eleaf].
      assert (Hne : l <> []) by (intros E; subst l; discriminate).
      pose proof (list_rel_assoc t (Hfam tr a t HR Hr Hl) Hna) as Hrel.
      destruct (conf_list_assoc tr a t true l Hr Hl Hrel Hc) as (Hpe & Hall & _).
      change (dl (Some (VList l))) with l. change (dl None) with (@nil value).
      rewrite index_nil.
      assert (Hwfpe : forall e, In e (pes_of s t l) -> wf_pe e = true).
      { apply pes_of_wf; [apply (elem_ok tr a t); auto|exact Hw]. }
      destruct (index_dup s t l [] [] false (pem_ok_nil _) Hwfpe Hpe) as [oL [Hidx [HoL _]]].
      rewrite Hidx. cbv beta iota. simpl orb. cbv iota.
      simpl app. unfold shared_order. simpl filter. simpl pop_shared. cbv iota.
      rewrite (ipairs_combine s t l Hpe).
      rewrite loop_left_id.
      - simpl app. rewrite (ipairs_snd s t l Hpe). destruct l; [congruence|reflexivity].
      - intros e. apply pem_get_nil.
      - intros e c Hin. apply ipairs_in in Hin. destruct Hin as [Hin He].
        apply IHA.
        + apply (so_list s R Hok tr a t); auto.
        + pose proof (vdepth_list_in l c Hin). lia.
        + rewrite forallb_forall in Hall. apply Hall. exact Hin.
        + apply (wf_list_in l c Hw Hin).
      - rewrite (ipairs_length s t l Hpe). simpl. lia.
    Qed.
  End AbsentRight.

  Lemma merge_absent_right : forall f tr x, R tr -> vdepth x < f ->
    conforms s tr true x = true -> wf_value x = true ->
    merge_w f s tr (Some x) None = (false, Some x).
  Proof.
    induction f as [|f IH]; intros tr x HR Hd Hc Hw; [lia|].
    rewrite merge_w_S.
    destruct (conforms_resolve s tr true x Hc) as [a [Hr Hne]]. rewrite Hr.
    unfold merge_top.
    pose proof Hc as Hc'. rewrite conforms_unf, Hr in Hc'. destruct a as [sc li ma].
    destruct x as [|b|z|q|str|l|m].
    - rewrite deduce_null. rewrite handle_leafy; try reflexivity.
      apply (hfrom_not_invalid (Atom sc li ma)). apply (hfrom_deduce _ None Hne).
    - destruct sc as [t|]; [|discriminate]. rewrite deduce_conf_scalar by reflexivity.
      apply handle_scalar_ok_l. exact Hc'.
    - destruct sc as [t|]; [|discriminate]. rewrite deduce_conf_scalar by reflexivity.
      apply handle_scalar_ok_l. exact Hc'.
    - destruct sc as [t|]; [|discriminate]. rewrite deduce_conf_scalar by reflexivity.
      apply handle_scalar_ok_l. exact Hc'.
    - destruct sc as [t|]; [|discriminate]. rewrite deduce_conf_scalar by reflexivity.
      apply handle_scalar_ok_l. exact Hc'.
    - destruct li as [t|]; [|discriminate].
      rewrite (deduce_conf_list (Atom sc (Some t) ma) l t eq_refl). simpl handle.
      apply (absent_right_list f IH tr (Atom sc (Some t) ma) t l); auto.
    - destruct ma as [t|]; [|discriminate].
      rewrite (deduce_conf_map (Atom sc li (Some t)) m t eq_refl). simpl handle.
      apply (absent_right_map f IH tr (Atom sc li (Some t)) t m); auto.
  Qed.

  (* unconditional versions, for the roots *)
  Lemma absent_right_map' : forall f tr a mt m, R tr -> resolve s tr = Some a ->
    atom_map a = Some mt -> vdepth (VMap m) < S f ->
    conforms s tr true (VMap m) = true -> wf_value (VMap m) = true ->
    merge_map f s mt (Some (VMap m)) None = (false, Some (VMap m)).
  Proof. intros f. apply absent_right_map. apply merge_absent_right. Qed.

  Lemma absent_right_list' : forall f tr a t l, R tr -> resolve s tr = Some a ->
    atom_list a = Some t -> vdepth (VList l) < S f ->
    conforms s tr true (VList l) = true -> wf_value (VList l) = true ->
    merge_list f s t (Some (VList l)) None = (false, Some (VList l)).
  Proof. intros f. apply absent_right_list. apply merge_absent_right. Qed.

  (* ---------------------------------------------------------------- *)
  (* left side absent *)
  Section AbsentLeft.
    Variable f : nat.
    Hypothesis IHB : forall tr x, R tr -> vdepth x < f -> conforms s tr false x = true ->
      wf_value x = true -> merge_w f s tr None (Some x) = (false, Some x).

    Lemma absent_left_map : forall tr a mt m, R tr -> resolve s tr = Some a ->
      atom_map a = Some mt -> vdepth (VMap m) < S f ->
      conforms s tr false (VMap m) = true -> wf_value (VMap m) = true ->
      merge_map f s mt None (Some (VMap m)) = (false, Some (VMap m)).
    Proof.
      intros tr a mt m HR Hr Hm Hd Hc Hw. unfold merge_map.
      destruct (rel_is_atomic (map_rel mt) ||
                is_empty_l (deref_map None) && is_empty_l (deref_map (Some (VMap m)))) eqn:Eleaf;
        [reflexivity|].
      apply orb_false_iff in Eleaf. destruct Eleaf as [_ Eleaf].
      assert (Hne : m <> []) by (intros E; subst m; discriminate).
      change (dm (Some (VMap m))) with m. change (dm None) with (@nil (string * value)).
      simpl map at 1. rewrite keys_union_nil_l.
      set (g := fun k => match assoc_get k m with Some x => x | None => VNull end).
      rewrite (fold_map_ok f s mt [] m g).
      - assert (Hreb : map (fun k => (k, g k)) (map fst m) = m).
        { apply map_rebuild. intros k x Hin. unfold g.
          rewrite (assoc_get_sorted_in m k x (wf_map_sorted m Hw) Hin). reflexivity. }
        simpl app. rewrite Hreb. destruct m; [congruence|reflexivity].
      - intros k Hk. simpl assoc_get at 1.
        pose proof (assoc_get_in_keys _ m k Hk) as Hsome. unfold g.
        destruct (assoc_get k m) as [x|] eqn:Ex; [|congruence].
        pose proof (oconf_dm s tr false a mt (Some (VMap m)) k Hr Hm (conj Hc Hw)) as Hsub.
        change (dm (Some (VMap m))) with m in Hsub. rewrite Ex in Hsub. destruct Hsub as [Hcx Hwx].
        apply IHB; auto.
        + apply (so_map s R Hok tr a mt k); auto.
        + apply assoc_get_in in Ex. pose proof (vdepth_map_in m k x Ex). lia.
    Qed.

    Lemma absent_left_list : forall tr a t l, R tr -> resolve s tr = Some a ->
      atom_list a = Some t -> vdepth (VList l) < S f ->
      conforms s tr false (VList l) = true -> wf_value (VList l) = true ->
      merge_list f s t None (Some (VList l)) = (false, Some (VList l)).
    Proof.
      intros tr a t l HR Hr Hl Hd Hc Hw. unfold merge_list.
      destruct (rel_is_atomic (list_rel t) ||
                is_empty_l (deref_list None) && is_empty_l (deref_list (Some (VList l)))) eqn:Eleaf;
        [reflexivity|].
      apply orb_false_iff in Eleaf. destruct Eleaf as [Hna Eleaf].
      assert (Hne : l <> []) by (intros E; subst l; discriminate).
      pose proof (list_rel_assoc t (Hfam tr a t HR Hr Hl) Hna) as Hrel.
      destruct (conf_list_assoc tr a t false l Hr Hl Hrel Hc) as (Hpe & Hall & Hdis).
      specialize (Hdis eq_refl).
      change (dl (Some (VList l))) with l. change (dl None) with (@nil value).
      rewrite index_nil.
      assert (Hwfpe : forall e, In e (pes_of s t l) -> wf_pe e = true).
      { apply pes_of_wf; [apply (elem_ok tr a t); auto|exact Hw]. }
      destruct (index_nodup s t false l [] [] false (pem_ok_nil _) Hwfpe Hpe Hdis)
        as [oR [Hidx [HoR Hget]]].
      { intros e _. apply pem_get_nil. }
      rewrite Hidx. cbv beta iota. simpl orb. cbv iota. simpl app. simpl combine.
      destruct (pop_shared (shared_order [] (pes_of s t l))) as [ns so].
      rewrite <- (ipairs_fst s t l).
      rewrite loop_right_id.
      - simpl app. rewrite (ipairs_snd s t l Hpe). destruct l; [congruence|reflexivity].
      - intros e c Hin. rewrite pem_get_nil.
        assert (He : wf_pe e = true).
        { apply Hwfpe. rewrite <- ipairs_fst. apply in_map_iff. exists (e, c). auto. }
        rewrite (Hget e He), (lfind_in s t l e c Hwfpe Hdis Hin).
        apply ipairs_in in Hin. destruct Hin as [Hin Hpec].
        apply IHB.
        + apply (so_list s R Hok tr a t); auto.
        + pose proof (vdepth_list_in l c Hin). lia.
        + rewrite forallb_forall in Hall. apply Hall. exact Hin.
        + apply (wf_list_in l c Hw Hin).
      - rewrite (ipairs_length s t l Hpe). simpl. lia.
    Qed.

    Lemma absent_left_handle : forall tr a x, R tr -> resolve s tr = Some a ->
      atom_nonempty a = true -> vdepth x < S f ->
      conforms s tr false x = true -> wf_value x = true ->
      handle f s None (Some x) (handle_atom (deduce_atom a (Some x))) = (false, Some x).
    Proof.
      intros tr a x HR Hr Hne Hd Hc Hw.
      pose proof Hc as Hc'. rewrite conforms_unf, Hr in Hc'. destruct a as [sc li ma].
      destruct x as [|b|z|q|str|l|m].
      - rewrite deduce_null. rewrite handle_leafy; try reflexivity.
        apply (hfrom_not_invalid (Atom sc li ma)). apply (hfrom_deduce _ None Hne).
      - destruct sc as [t|]; [|discriminate]. rewrite deduce_conf_scalar by reflexivity.
        apply handle_scalar_ok. exact Hc'.
      - destruct sc as [t|]; [|discriminate]. rewrite deduce_conf_scalar by reflexivity.
        apply handle_scalar_ok. exact Hc'.
      - destruct sc as [t|]; [|discriminate]. rewrite deduce_conf_scalar by reflexivity.
        apply handle_scalar_ok. exact Hc'.
      - destruct sc as [t|]; [|discriminate]. rewrite deduce_conf_scalar by reflexivity.
        apply handle_scalar_ok. exact Hc'.
      - destruct li as [t|]; [|discriminate].
        rewrite (deduce_conf_list (Atom sc (Some t) ma) l t eq_refl). simpl handle.
        apply (absent_left_list tr (Atom sc (Some t) ma) t l); auto.
      - destruct ma as [t|]; [|discriminate].
        rewrite (deduce_conf_map (Atom sc li (Some t)) m t eq_refl). simpl handle.
        apply (absent_left_map tr (Atom sc li (Some t)) t m); auto.
    Qed.
  End AbsentLeft.

  Lemma merge_absent_left : forall f tr x, R tr -> vdepth x < f ->
    conforms s tr false x = true -> wf_value x = true ->
    merge_w f s tr None (Some x) = (false, Some x).
  Proof.
    induction f as [|f IH]; intros tr x HR Hd Hc Hw; [lia|].
    rewrite merge_w_S.
    destruct (conforms_resolve s tr false x Hc) as [a [Hr Hne]]. rewrite Hr.
    unfold merge_top. apply (absent_left_handle f IH tr a x); auto.
  Qed.

  Lemma absent_left_handle' : forall f tr a x, R tr -> resolve s tr = Some a ->
    atom_nonempty a = true -> vdepth x < S f ->
    conforms s tr false x = true -> wf_value x = true ->
    handle f s None (Some x) (handle_atom (deduce_atom a (Some x))) = (false, Some x).
  Proof. intros f. apply absent_left_handle. apply merge_absent_left. Qed.

  (* ---------------------------------------------------------------- *)
  (* both sides equal *)
  Section Self.
    Variable f : nat.
    Hypothesis IHE : forall tr v, R tr -> 2 * vdepth v < f -> conforms s tr false v = true ->
      wf_value v = true -> merge_w f s tr (Some v) (Some v) = (false, Some v).

    Lemma self_map : forall tr a mt m, R tr -> resolve s tr = Some a ->
      atom_map a = Some mt -> 2 * vdepth (VMap m) < S f ->
      conforms s tr false (VMap m) = true -> wf_value (VMap m) = true ->
      merge_map f s mt (Some (VMap m)) (Some (VMap m)) = (false, Some (VMap m)).
    Proof.
      intros tr a mt m HR Hr Hm Hd Hc Hw. unfold merge_map.
      destruct (rel_is_atomic (map_rel mt) ||
                is_empty_l (deref_map (Some (VMap m))) && is_empty_l (deref_map (Some (VMap m)))) eqn:Eleaf;
        [reflexivity|].
      apply orb_false_iff in Eleaf. destruct Eleaf as [_ Eleaf].
      assert (Hne : m <> []) by (intros E; subst m; discriminate).
      change (dm (Some (VMap m))) with m. rewrite keys_union_self.
      set (g := fun k => match assoc_get k m with Some x => x | None => VNull end).
      rewrite (fold_map_ok f s mt m m g).
      - assert (Hreb : map (fun k => (k, g k)) (map fst m) = m).
        { apply map_rebuild. intros k x Hin. unfold g.
          rewrite (assoc_get_sorted_in m k x (wf_map_sorted m Hw) Hin). reflexivity. }
        simpl app. rewrite Hreb. destruct m; [congruence|reflexivity].
      - intros k Hk.
        pose proof (assoc_get_in_keys _ m k Hk) as Hsome. unfold g.
        destruct (assoc_get k m) as [x|] eqn:Ex; [|congruence].
        pose proof (oconf_dm s tr false a mt (Some (VMap m)) k Hr Hm (conj Hc Hw)) as Hsub.
        change (dm (Some (VMap m))) with m in Hsub. rewrite Ex in Hsub. destruct Hsub as [Hcx Hwx].
        apply IHE; auto.
        + apply (so_map s R Hok tr a mt k); auto.
        + apply assoc_get_in in Ex. pose proof (vdepth_map_in m k x Ex). lia.
    Qed.

    Lemma self_list : forall tr a t l, R tr -> resolve s tr = Some a ->
      atom_list a = Some t -> 2 * vdepth (VList l) < S f ->
      conforms s tr false (VList l) = true -> wf_value (VList l) = true ->
      merge_list f s t (Some (VList l)) (Some (VList l)) = (false, Some (VList l)).
    Proof.
      intros tr a t l HR Hr Hl Hd Hc Hw. unfold merge_list.
      destruct (rel_is_atomic (list_rel t) ||
                is_empty_l (deref_list (Some (VList l))) && is_empty_l (deref_list (Some (VList l)))) eqn:Eleaf;
        [reflexivity|].
      apply orb_false_iff in Eleaf. destruct Eleaf as [Hna Eleaf].
      assert (Hne : l <> []) by (intros E; subst l; discriminate).
      pose proof (list_rel_assoc t (Hfam tr a t HR Hr Hl) Hna) as Hrel.
      destruct (conf_list_assoc tr a t false l Hr Hl Hrel Hc) as (Hpe & Hall & Hdis).
      specialize (Hdis eq_refl).
      change (dl (Some (VList l))) with l.
      assert (Hwfpe : forall e, In e (pes_of s t l) -> wf_pe e = true).
      { apply pes_of_wf; [apply (elem_ok tr a t); auto|exact Hw]. }
      destruct (index_nodup s t false l [] [] false (pem_ok_nil _) Hwfpe Hpe Hdis)
        as [oR [HidxR [HoR HgetR]]].
      { intros e _. apply pem_get_nil. }
      destruct (index_nodup s t true l [] [] false (pem_ok_nil _) Hwfpe Hpe Hdis)
        as [oL [HidxL [HoL HgetL]]].
      { intros e _. apply pem_get_nil. }
      rewrite HidxR. cbv beta iota. rewrite HidxL. cbv beta iota. simpl orb. cbv iota. simpl app.
      destruct (pop_shared (shared_order oL (pes_of s t l))) as [ns so].
      rewrite (ipairs_combine s t l Hpe).
      rewrite <- (ipairs_fst s t l).
      rewrite loop_self_id.
      - simpl app. rewrite (ipairs_snd s t l Hpe). destruct l; [congruence|reflexivity].
      - intros e c Hin.
        assert (He : wf_pe e = true).
        { apply Hwfpe. rewrite <- ipairs_fst. apply in_map_iff. exists (e, c). auto. }
        split; [exact He|].
        rewrite (HgetL e He), (HgetR e He), (lfind_in s t l e c Hwfpe Hdis Hin).
        apply ipairs_in in Hin. destruct Hin as [Hin Hpec].
        apply IHE.
        + apply (so_list s R Hok tr a t); auto.
        + pose proof (vdepth_list_in l c Hin). lia.
        + rewrite forallb_forall in Hall. apply Hall. exact Hin.
        + apply (wf_list_in l c Hw Hin).
      - rewrite (ipairs_length s t l Hpe). simpl. lia.
    Qed.
  End Self.

  Lemma merge_self_w : forall f tr v, R tr -> 2 * vdepth v < f ->
    conforms s tr false v = true -> wf_value v = true ->
    merge_w f s tr (Some v) (Some v) = (false, Some v).
  Proof.
    induction f as [|f IH]; intros tr v HR Hd Hc Hw; [lia|].
    rewrite merge_w_S.
    destruct (conforms_resolve s tr false v Hc) as [a [Hr Hne]]. rewrite Hr.
    unfold merge_top. rewrite atom_eqb_refl.
    pose proof Hc as Hc'. rewrite conforms_unf, Hr in Hc'. destruct a as [sc li ma].
    destruct v as [|b|z|q|str|l|m].
    - rewrite deduce_null. rewrite handle_leafy; try reflexivity.
      apply (hfrom_not_invalid (Atom sc li ma)). apply (hfrom_deduce _ None Hne).
    - destruct sc as [t|]; [|discriminate]. rewrite deduce_conf_scalar by reflexivity.
      apply handle_scalar_ok. exact Hc'.
    - destruct sc as [t|]; [|discriminate]. rewrite deduce_conf_scalar by reflexivity.
      apply handle_scalar_ok. exact Hc'.
    - destruct sc as [t|]; [|discriminate]. rewrite deduce_conf_scalar by reflexivity.
      apply handle_scalar_ok. exact Hc'.
    - destruct sc as [t|]; [|discriminate]. rewrite deduce_conf_scalar by reflexivity.
      apply handle_scalar_ok. exact Hc'.
    - destruct li as [t|]; [|discriminate].
      rewrite (deduce_conf_list (Atom sc (Some t) ma) l t eq_refl). simpl handle.
      apply (self_list f IH tr (Atom sc (Some t) ma) t l); auto.
    - destruct ma as [t|]; [|discriminate].
      rewrite (deduce_conf_map (Atom sc li (Some t)) m t eq_refl). simpl handle.
      apply (self_map f IH tr (Atom sc li (Some t)) t m); auto.
  Qed.

  (* ---------------------------------------------------------------- *)
  (* no error on conforming operands *)
  Lemma keep_rhs_some : forall lo ro : option value, lo <> None \/ ro <> None ->
    exists out, keep_rhs lo ro = Some out.
  Proof.
    intros [l|] [r|] H; simpl; eauto. destruct H; congruence.
  Qed.

  Lemma oconf_dl : forall tr a t dup o, resolve s tr = Some a -> atom_list a = Some t ->
    list_rel t = RAssociative -> oconf s tr dup o ->
    forallb (has_pe s t) (dl o) = true /\ forallb (conforms s (list_elem t) dup) (dl o) = true /\
    forallb wf_value (dl o) = true /\ (dup = false -> all_distinct (pes_of s t (dl o)) = true).
  Proof.
    intros tr a t dup o Hr Hl Hrel Hc.
    destruct o as [[| | | | |l|m]|]; simpl; auto.
    destruct Hc as [Hc Hw]. destruct (conf_list_assoc tr a t dup l Hr Hl Hrel Hc) as (H1 & H2 & H3).
    auto.
  Qed.

  Lemma conforms_null : forall tr dup x, conforms s tr dup x = true -> conforms s tr true VNull = true.
  Proof.
    intros tr dup x H. destruct (conforms_resolve s tr dup x H) as [a [Hr Hne]].
    rewrite conforms_unf, Hr. destruct a. exact Hne.
  Qed.

  Section Total.
    Variable f : nat.
    Hypothesis IHF : forall tr lo ro, R tr -> odepth lo + odepth ro < f ->
      oconf s tr true lo -> oconf s tr false ro -> (lo <> None \/ ro <> None) ->
      exists out, merge_w f s tr lo ro = (false, Some out).

    Lemma total_map : forall tr a mt lo ro, R tr -> resolve s tr = Some a ->
      atom_map a = Some mt -> odepth lo + odepth ro < S f ->
      oconf s tr true lo -> oconf s tr false ro -> (lo <> None \/ ro <> None) ->
      exists out, merge_map f s mt lo ro = (false, Some out).
    Proof.
      intros tr a mt lo ro HR Hr Hm Hd Hcl Hcr Hsome. unfold merge_map.
      destruct (rel_is_atomic (map_rel mt) ||
                is_empty_l (deref_map lo) && is_empty_l (deref_map ro)) eqn:Eleaf.
      { destruct (keep_rhs_some lo ro Hsome) as [out Ho]. exists out. unfold do_leaf. rewrite Ho. reflexivity. }
      apply orb_false_iff in Eleaf. destruct Eleaf as [_ Eleaf].
      assert (Hne : dm lo <> [] \/ dm ro <> []).
      { unfold dm. destruct (deref_map lo) as [[|? ?]|]; destruct (deref_map ro) as [[|? ?]|];
          simpl in Eleaf; try discriminate; try (left; discriminate); right; discriminate. }
      set (keys := keys_union (map fst (dm lo)) (map fst (dm ro))).
      set (g := fun k => out_of (merge_w f s (field_type mt k) (assoc_get k (dm lo)) (assoc_get k (dm ro)))).
      rewrite (fold_map_ok f s mt (dm lo) (dm ro) g).
      - assert (Hk : keys <> []).
        { destruct Hne as [Hne|Hne].
          - destruct (dm lo) as [|[k0 x0] rest] eqn:E; [congruence|].
            assert (Hin : In k0 keys) by (apply keys_union_in; left; simpl; auto).
            intros E'. rewrite E' in Hin. destruct Hin.
          - destruct (dm ro) as [|[k0 x0] rest] eqn:E; [congruence|].
            assert (Hin : In k0 keys) by (apply keys_union_in; right; simpl; auto).
            intros E'. rewrite E' in Hin. destruct Hin. }
        simpl app. destruct keys as [|k0 ks]; [congruence|]. simpl. eexists. reflexivity.
      - intros k Hk. unfold g.
        assert (Hex : exists out, merge_w f s (field_type mt k) (assoc_get k (dm lo)) (assoc_get k (dm ro))
                                  = (false, Some out)).
        { apply IHF.
          - apply (so_map s R Hok tr a mt k); auto.
          - pose proof (dm_depth lo k). pose proof (dm_depth ro k).
            destruct Hne as [Hne|Hne].
            + pose proof (dm_depth_lt lo k Hne). lia.
            + pose proof (dm_depth_lt ro k Hne). lia.
          - apply (oconf_dm s tr true a mt lo k Hr Hm Hcl).
          - apply (oconf_dm s tr false a mt ro k Hr Hm Hcr).
          - apply keys_union_in in Hk. destruct Hk as [Hk|Hk].
            + left. apply assoc_get_in_keys. exact Hk.
            + right. apply assoc_get_in_keys. exact Hk. }
        destruct Hex as [out Hout]. apply (out_of_eq _ out Hout).
    Qed.

    Lemma total_list_gen : forall (P : value -> Prop) tr a t lo ro, R tr -> resolve s tr = Some a ->
      atom_list a = Some t -> odepth lo + odepth ro < S f ->
      oconf s tr true lo -> oconf s tr false ro -> (lo <> None \/ ro <> None) ->
      (forall out, keep_rhs lo ro = Some out -> P out) ->
      (forall ll rl oL oR, ll = dl lo -> rl = dl ro -> list_rel t = RAssociative ->
         (ll <> [] \/ rl <> []) -> pem_ok oL -> pem_ok oR ->
         (forall x, wf_pe x = true ->
            pem_get x oR = match lfind s t x rl with Some v => Some v | None => None end) ->
         (forall x v, wf_pe x = true -> pem_get x oL = Some v ->
            (v = VNull /\ ll <> []) \/ (exists e, In (e, v) (ipairs s t ll) /\ peeqb x e = true)) ->
         exists Q : value -> Prop,
           (forall e c, In (e, c) (ipairs s t ll) -> pem_get e oR = None ->
              forall x, merge_w f s (list_elem t) (Some c) None = (false, Some x) -> Q x) /\
           (forall e, wf_pe e = true -> pem_get e oR <> None ->
              forall x, merge_w f s (list_elem t) (pem_get e oL) (pem_get e oR) = (false, Some x) -> Q x) /\
           (forall res, Forall Q res -> res <> [] -> P (VList res))) ->
      exists out, merge_list f s t lo ro = (false, Some out) /\ P out.
    Proof.
      intros P tr a t lo ro HR Hr Hl Hd Hcl Hcr Hsome HPleaf HPloop. unfold merge_list.
      destruct (rel_is_atomic (list_rel t) ||
                is_empty_l (deref_list lo) && is_empty_l (deref_list ro)) eqn:Eleaf.
      { destruct (keep_rhs_some lo ro Hsome) as [out Ho]. exists out. unfold do_leaf. rewrite Ho.
        split; [reflexivity|]. apply HPleaf. exact Ho. }
      apply orb_false_iff in Eleaf. destruct Eleaf as [Hna Eleaf].
      assert (Hne : dl lo <> [] \/ dl ro <> []).
      { unfold dl. destruct (deref_list lo) as [[|? ?]|]; destruct (deref_list ro) as [[|? ?]|];
          simpl in Eleaf; try discriminate; try (left; discriminate); right; discriminate. }
      pose proof (list_rel_assoc t (Hfam tr a t HR Hr Hl) Hna) as Hrel.
      destruct (oconf_dl tr a t true lo Hr Hl Hrel Hcl) as (HpeL & HallL & HwL & _).
      destruct (oconf_dl tr a t false ro Hr Hl Hrel Hcr) as (HpeR & HallR & HwR & HdisR).
      specialize (HdisR eq_refl).
      pose proof (elem_ok tr a t HR Hr Hl) as Helem.
      pose proof (so_list s R Hok tr a t HR Hr Hl) as HRelem.
      assert (HwfpeL : forall e, In e (pes_of s t (dl lo)) -> wf_pe e = true) by (apply pes_of_wf; auto).
      assert (HwfpeR : forall e, In e (pes_of s t (dl ro)) -> wf_pe e = true) by (apply pes_of_wf; auto).
      destruct (index_nodup s t false (dl ro) [] [] false (pem_ok_nil _) HwfpeR HpeR HdisR)
        as [oR [HidxR [HoR HgetR]]].
      { intros e _. apply pem_get_nil. }
      destruct (index_dup s t (dl lo) [] [] false (pem_ok_nil _) HwfpeL HpeL)
        as [oL [HidxL [HoL HgetL]]].
      rewrite HidxR. cbv beta iota. rewrite HidxL. cbv beta iota. simpl orb. cbv iota. simpl app.
      destruct (pop_shared (shared_order oL (pes_of s t (dl ro)))) as [ns so].
      rewrite (ipairs_combine s t (dl lo) HpeL).
      assert (HgetR' : forall x, wf_pe x = true ->
                pem_get x oR = match lfind s t x (dl ro) with Some v => Some v | None => None end).
      { intros x Hx. rewrite (HgetR x Hx), pem_get_nil. reflexivity. }
      assert (HgetL' : forall x v, wf_pe x = true -> pem_get x oL = Some v ->
                (v = VNull /\ dl lo <> []) \/ (exists e, In (e, v) (ipairs s t (dl lo)) /\ peeqb x e = true)).
      { intros x v Hx Hv. destruct (HgetL x v Hx Hv) as [H|[H|H]]; auto.
        rewrite pem_get_nil in H. discriminate. }
      destruct (HPloop (dl lo) (dl ro) oL oR eq_refl eq_refl Hrel Hne HoL HoR HgetR' HgetL')
        as [Q [HQ1 [HQ2 HQ3]]].
      destruct (loop_general (fun (e : pe) (lc rc : option value) => merge_w f s (list_elem t) lc rc)
                  oL oR Q (ipairs s t (dl lo)) (pes_of s t (dl ro)))
        with (fuel := 2 * (List.length (dl lo) + List.length (dl ro)) + 2)
             (lhs := ipairs s t (dl lo)) (rhs := pes_of s t (dl ro)) (ns := ns) (so := so)
             (merged := @nil (pe * unit)) (out := @nil value)
        as [res [Hres [HQres Hlen]]].
      - intros e c Hin. apply HwfpeL. rewrite <- ipairs_fst. apply in_map_iff. exists (e, c). auto.
      - exact HwfpeR.
      - exact HoR.
      - intros e He. rewrite (HgetR' e (HwfpeR e He)).
        pose proof (lfind_exists s t e (dl ro)) as Hex.
        destruct (lfind s t e (dl ro)); [discriminate|]. exfalso. apply Hex; [|reflexivity].
        apply existsb_exists. exists e. split; [exact He|]. apply peeqb_refl. apply HwfpeR. exact He.
      - (* a left item that is not on the right *)
        intros e c Hin HnoR.
        assert (Hex : exists x, merge_w f s (list_elem t) (Some c) None = (false, Some x)).
        { pose proof (ipairs_in s t _ e c Hin) as [Hinc Hpec].
          apply IHF; auto.
          - pose proof (dl_depth_in lo c Hinc). simpl. lia.
          - split.
            + rewrite forallb_forall in HallL. apply HallL. exact Hinc.
            + rewrite forallb_forall in HwL. apply HwL. exact Hinc.
          - exact I.
          - left. discriminate. }
        destruct Hex as [x Hx]. exists x. split; [exact Hx|]. apply (HQ1 e c Hin HnoR x Hx).
      - (* an item of the right side *)
        intros e He HinR.
        assert (Hex : exists x, merge_w f s (list_elem t) (pem_get e oL) (pem_get e oR) = (false, Some x)).
        { pose proof (HgetR' e He) as HR'.
          destruct (lfind s t e (dl ro)) as [r|] eqn:Er; [|congruence].
          apply lfind_some in Er. destruct Er as [e' [Hin' Hee']].
          apply ipairs_in in Hin'. destruct Hin' as [Hinr Hper].
          assert (Hcr' : conforms s (list_elem t) false r = true)
            by (rewrite forallb_forall in HallR; apply HallR; exact Hinr).
          assert (Hwr' : wf_value r = true)
            by (rewrite forallb_forall in HwR; apply HwR; exact Hinr).
          pose proof (dl_depth_in ro r Hinr) as Hdr.
          rewrite HR'. apply IHF; auto.
          - destruct (pem_get e oL) as [v|] eqn:Ev; simpl; [|lia].
            destruct (HgetL' e v He Ev) as [[Hv Hnl]|[e'' [Hin'' _]]].
            + subst v. pose proof (dl_depth_null lo Hnl). simpl. lia.
            + apply ipairs_in in Hin''. destruct Hin'' as [Hinv _].
              pose proof (dl_depth_in lo v Hinv). lia.
          - destruct (pem_get e oL) as [v|] eqn:Ev; simpl; [|exact I].
            destruct (HgetL' e v He Ev) as [[Hv Hnl]|[e'' [Hin'' _]]].
            + subst v. split; [|reflexivity]. apply (conforms_null _ false r Hcr').
            + apply ipairs_in in Hin''. destruct Hin'' as [Hinv _]. split.
              * rewrite forallb_forall in HallL. apply HallL. exact Hinv.
              * rewrite forallb_forall in HwL. apply HwL. exact Hinv.
          - split; assumption.
          - right. discriminate. }
        destruct Hex as [x Hx]. exists x. split; [exact Hx|]. apply (HQ2 e He HinR x Hx).
      - split; [apply incl_refl|]. split; [apply incl_refl|]. split; [apply pem_ok_nil|].
        intros e He HinR. left. apply lfind_exists_rev.
        rewrite (HgetR' e He) in HinR. destruct (lfind s t e (dl ro)); congruence.
      - rewrite (ipairs_length s t _ HpeL), (pes_of_length s t _ HpeR). lia.
      - constructor.
      - rewrite Hres.
        assert (Hnres : res <> []).
        { destruct Hne as [Hne|Hne].
          - destruct (dl ro) as [|r0 rrest] eqn:Erl.
            + assert (HnoneR : forall e, pem_get e oR = None).
              { intros e. destruct (pem_get e oR) as [v|] eqn:Ev; [|reflexivity].
                apply pem_get_In in Ev. destruct Ev as [e' [Hin _]].
                simpl in HidxR. inversion HidxR. subst oR. destruct Hin. }
              rewrite (cntL_none oR HnoneR), (ipairs_length s t _ HpeL) in Hlen.
              destruct (dl lo); [congruence|]. destruct res; [simpl in Hlen; lia|discriminate].
            + rewrite (pes_of_length s t _ HpeR) in Hlen. simpl in Hlen.
              destruct res; [simpl in Hlen; lia|discriminate].
          - rewrite (pes_of_length s t _ HpeR) in Hlen.
            destruct (dl ro); [congruence|]. simpl in Hlen.
            destruct res; [simpl in Hlen; lia|discriminate]. }
        exists (VList res). split.
        + destruct res; [congruence|reflexivity].
        + apply HQ3; assumption.
    Qed.

    Lemma total_list : forall tr a t lo ro, R tr -> resolve s tr = Some a ->
      atom_list a = Some t -> odepth lo + odepth ro < S f ->
      oconf s tr true lo -> oconf s tr false ro -> (lo <> None \/ ro <> None) ->
      exists out, merge_list f s t lo ro = (false, Some out).
    Proof.
      intros tr a t lo ro HR Hr Hl Hd Hcl Hcr Hsome.
      destruct (total_list_gen (fun _ => True) tr a t lo ro HR Hr Hl Hd Hcl Hcr Hsome) as [out [Ho _]].
      - auto.
      - intros. exists (fun _ => True). auto.
      - exists out. exact Ho.
    Qed.

    Lemma hfrom_map : forall a t, hfrom a (HMap t) -> atom_map a = Some t.
    Proof. intros [sc li ma] t H. exact H. Qed.
    Lemma hfrom_list : forall a t, hfrom a (HList t) -> atom_list a = Some t.
    Proof. intros [sc li ma] t H. exact H. Qed.

    Lemma handle_total : forall tr a lo ro h, R tr -> resolve s tr = Some a -> hfrom a h ->
      odepth lo + odepth ro < S f ->
      oconf s tr true lo -> oconf s tr false ro -> (lo <> None \/ ro <> None) ->
      (forall t, h = HScalar t -> validate_scalar t lo = false \/ validate_scalar t ro = false) ->
      exists out, handle f s lo ro h = (false, Some out).
    Proof.
      intros tr a lo ro h HR Hr Hh Hd Hcl Hcr Hsome Hsc. destruct h as [t|t|t|]; simpl.
      - apply (total_map tr a t); auto. apply hfrom_map. exact Hh.
      - assert (E : validate_scalar t lo && validate_scalar t ro = false).
        { destruct (Hsc t eq_refl) as [E|E]; rewrite E; [reflexivity|apply andb_false_r]. }
        rewrite E. destruct (keep_rhs_some lo ro Hsome) as [out Ho]. exists out.
        unfold do_leaf. rewrite Ho. reflexivity.
      - apply (total_list tr a t); auto. apply hfrom_list. exact Hh.
      - destruct a; contradiction.
    Qed.
  End Total.

  Lemma oconf_resolve : forall tr dup1 dup2 lo ro, oconf s tr dup1 lo -> oconf s tr dup2 ro ->
    (lo <> None \/ ro <> None) -> exists a, resolve s tr = Some a /\ atom_nonempty a = true.
  Proof.
    intros tr dup1 dup2 lo ro Hl Hr [H|H].
    - destruct lo as [l|]; [|congruence]. destruct Hl as [Hl _]. apply (conforms_resolve s tr dup1 l Hl).
    - destruct ro as [r|]; [|congruence]. destruct Hr as [Hr _]. apply (conforms_resolve s tr dup2 r Hr).
  Qed.

  Lemma merge_total_w : forall f tr lo ro, R tr -> odepth lo + odepth ro < f ->
    oconf s tr true lo -> oconf s tr false ro -> (lo <> None \/ ro <> None) ->
    exists out, merge_w f s tr lo ro = (false, Some out).
  Proof.
    induction f as [|f IH]; intros tr lo ro HR Hd Hcl Hcr Hsome; [lia|].
    rewrite merge_w_S.
    destruct (oconf_resolve tr true false lo ro Hcl Hcr Hsome) as [a [Hr Hne]]. rewrite Hr.
    assert (HL : exists out, handle f s lo ro (handle_atom (deduce_atom a lo)) = (false, Some out)).
    { apply (handle_total f IH tr a); auto; try lia.
      - apply hfrom_deduce. exact Hne.
      - intros t Ht. left. apply (deduce_scalar_valid s tr true a lo t Hr Hcl Ht). }
    assert (HR' : exists out, handle f s lo ro (handle_atom (deduce_atom a ro)) = (false, Some out)).
    { apply (handle_total f IH tr a); auto; try lia.
      - apply hfrom_deduce. exact Hne.
      - intros t Ht. right. apply (deduce_scalar_valid s tr false a ro t Hr Hcr Ht). }
    unfold merge_top.
    destruct lo as [l|]; destruct ro as [r|].
    - destruct (atom_eqb (deduce_atom a (Some l)) (deduce_atom a (Some r))); [exact HR'|].
      destruct HL as [o1 H1]. destruct HR' as [o2 H2]. rewrite H1, H2. exists o2. reflexivity.
    - exact HL.
    - exact HR'.
    - destruct Hsome; congruence.
  Qed.

  (* ---------------------------------------------------------------- *)
  (* an explicit null on the left *)
  Lemma handle_null_left : forall f lo r h,
    deref_map lo = None -> deref_list lo = None -> (forall t, validate_scalar t lo = false) ->
    handle f s lo (Some r) h = handle f s None (Some r) h.
  Proof.
    intros f lo r h Hm Hl Hv. destruct h as [t|t|t|]; simpl.
    - unfold merge_map, dm, do_leaf. rewrite Hm. reflexivity.
    - rewrite Hv. reflexivity.
    - unfold merge_list, dl, do_leaf. rewrite Hl. reflexivity.
    - reflexivity.
  Qed.

  Lemma merge_null_left_w : forall f tr r, R tr -> 1 + vdepth r < f ->
    conforms s tr false r = true -> wf_value r = true ->
    merge_w f s tr (Some VNull) (Some r) = (false, Some r).
  Proof.
    intros f tr r HR Hd Hc Hw. destruct f as [|f]; [lia|].
    rewrite merge_w_S.
    destruct (conforms_resolve s tr false r Hc) as [a [Hr Hne]]. rewrite Hr.
    unfold merge_top. rewrite deduce_null.
    assert (H2 : handle f s (Some VNull) (Some r) (handle_atom (deduce_atom a (Some r))) = (false, Some r)).
    { rewrite handle_null_left by (try reflexivity; intros t; reflexivity).
      apply (absent_left_handle' f tr a r); auto. lia. }
    assert (H1 : exists o1, handle f s (Some VNull) (Some r) (handle_atom a) = (false, Some o1)).
    { apply (handle_total f (merge_total_w f) tr a).
      - exact HR.
      - exact Hr.
      - pose proof (hfrom_deduce a (Some VNull) Hne) as X. rewrite deduce_null in X. exact X.
      - simpl. lia.
      - split; [|reflexivity]. apply (conforms_null tr false r Hc).
      - split; assumption.
      - left. discriminate.
      - intros t _. left. reflexivity. }
    rewrite H2. destruct H1 as [o1 H1]. rewrite H1.
    destruct (atom_eqb a (deduce_atom a (Some r))); reflexivity.
  Qed.

  (* an explicit null on the right of a granular, non-empty container *)
  Lemma merge_map_null_right : forall f mt m, rel_is_atomic (map_rel mt) = false -> m <> [] ->
    merge_map f s mt (Some (VMap m)) (Some VNull) = merge_map f s mt (Some (VMap m)) None.
  Proof.
    intros f mt m Ha Hne. unfold merge_map. rewrite Ha.
    destruct m; [congruence|reflexivity].
  Qed.

  Lemma merge_list_null_right : forall f t l, rel_is_atomic (list_rel t) = false -> l <> [] ->
    merge_list f s t (Some (VList l)) (Some VNull) = merge_list f s t (Some (VList l)) None.
  Proof.
    intros f t l Ha Hne. unfold merge_list. rewrite Ha.
    destruct l; [congruence|reflexivity].
  Qed.

  Definition list_only (a : atom) : bool :=
    match a with Atom None (Some _) None => true | _ => false end.

  Lemma merge_null_right_w : forall f tr l, R tr -> vdepth l < f ->
    conforms s tr true l = true -> wf_value l = true ->
    match Spec.Resolve.kind_of s tr l with
    | Spec.Resolve.KMap _ _ => True
    | Spec.Resolve.KList _ _ => forall a, resolve s tr = Some a -> list_only a = true
    | _ => False
    end ->
    merge_w f s tr (Some l) (Some VNull) = (false, Some l).
  Proof.
    intros f tr l HR Hd Hc Hw Hk. destruct f as [|f]; [lia|].
    rewrite merge_w_S.
    destruct (conforms_resolve s tr true l Hc) as [a [Hr Hne]]. rewrite Hr.
    unfold merge_top. rewrite deduce_null.
    unfold Spec.Resolve.kind_of in Hk. rewrite Hr in Hk. destruct a as [sc li ma].
    destruct l as [|b|z|q|str|ll|m]; try (destruct sc; contradiction); try contradiction.
    - (* list *)
      destruct li as [t|]; [|contradiction].
      destruct (rel_is_atomic (list_rel t)) eqn:Ea; [contradiction|].
      destruct ll as [|x0 ll0]; [contradiction|].
      specialize (Hk _ eq_refl). destruct sc; [discriminate|]. destruct ma; [discriminate|].
      assert (H : handle f s (Some (VList (x0 :: ll0))) (Some VNull) (HList t)
                  = (false, Some (VList (x0 :: ll0)))).
      { simpl handle. rewrite merge_list_null_right by (auto; discriminate).
        apply (absent_right_list' f tr (Atom None (Some t) None) t); auto. }
      simpl deduce_atom. simpl handle_atom. rewrite H.
      destruct (atom_eqb (Atom None (Some t) None) (Atom None (Some t) None)); reflexivity.
    - (* map *)
      destruct ma as [mt|]; [|contradiction].
      destruct (rel_is_atomic (map_rel mt)) eqn:Ea; [contradiction|].
      destruct m as [|kv0 m0]; [contradiction|].
      assert (H : handle f s (Some (VMap (kv0 :: m0))) (Some VNull) (HMap mt)
                  = (false, Some (VMap (kv0 :: m0)))).
      { simpl handle. rewrite merge_map_null_right by (auto; discriminate).
        apply (absent_right_map' f tr (Atom sc li (Some mt)) mt); auto. }
      rewrite (deduce_conf_map (Atom sc li (Some mt)) (kv0 :: m0) mt eq_refl).
      assert (Hh : handle_atom (Atom sc li (Some mt)) = HMap mt) by (destruct sc, li; reflexivity).
      rewrite Hh, H.
      destruct (atom_eqb (deduce_atom (Atom sc li (Some mt)) (Some (VMap (kv0 :: m0)))) (Atom sc li (Some mt)));
        reflexivity.
  Qed.
End Walk.
