(* Well-formedness of a schema RELATIVE to a set R of type references that is closed
   under descent (the references reachable from the roots one cares about).  A
   hypothesis quantifying over ALL type references would be unsatisfiable, because an
   inlined reference resolves to an arbitrary atom. *)
From Coq Require Import List ZArith String Bool.
From SMD Require Import Model.Value Model.Schema Model.Walk.
Import ListNotations.

Definition atom_list (a : atom) : option listT := match a with Atom _ l _ => l end.
Definition atom_map (a : atom) : option mapT := match a with Atom _ _ m => m end.

(* default values declared in the schema are well formed (they become key values) *)
Fixpoint wf_defaults_fields (fs : list sfield) : bool :=
  match fs with
  | [] => true
  | SField _ _ d :: rest => match d with Some v => wf_value v | None => true end && wf_defaults_fields rest
  end.
Definition wf_defaults_atom (a : atom) : bool :=
  match a with Atom _ _ (Some (MapT fs _ _)) => wf_defaults_fields fs | _ => true end.

Record schema_ok (s : schema) (R : typeref -> Prop) : Prop := mkSchemaOk {
  (* R is closed under descent into list elements and map fields / elements *)
  so_list : forall tr a t, R tr -> resolve s tr = Some a -> atom_list a = Some t -> R (list_elem t);
  so_map : forall tr a m k, R tr -> resolve s tr = Some a -> atom_map a = Some m -> R (field_type m k);
  (* defaults of every atom reached are well formed *)
  so_defaults : forall tr a, R tr -> resolve s tr = Some a -> wf_defaults_atom a = true
}.

(* the generated family: every list reached is associative or atomic (a "separable"
   list validates but cannot be merged, compared or turned into a field set) *)
Definition family_refs (s : schema) (R : typeref -> Prop) : Prop :=
  forall tr a t, R tr -> resolve s tr = Some a -> atom_list a = Some t ->
    list_rel t = RAssociative \/ list_rel t = RAtomic.
