(* Removal leaves no listed member behind, for removal sets that do not split a keyed
   list member from its key fields. *)
From Coq Require Import List ZArith String Bool Arith Lia.
From SMD Require Import Model.Value Model.Order Model.PathElem Model.PathSet Model.Schema
  Model.Walk Model.FieldSet Model.Remove Spec.PathsAsSets Spec.RefValid Spec.Resolve
  Proofs.OrderLaws Proofs.KeyLaws Proofs.PathSetLaws Proofs.ValidateLaws Proofs.SchemaOk
  Proofs.FieldSetMirrors Proofs.FieldSetBase Proofs.FieldSetShape Proofs.FieldSetPaths
  Proofs.RemoveBase Proofs.ExtractBase Proofs.ExtractLaws.
Import ListNotations.
Open Scope bool_scope.

Local Arguments ps_has : simpl never.
Local Arguments ps_with_prefix : simpl never.
Local Arguments ps_empty : simpl never.

(* a set that contains a path through a key field of a keyed list member also contains
   the member itself *)
Definition keys_closed (T : pset) : Prop :=
  forall pre fl k rest,
    wf_path (pre ++ PEKey fl :: PEField k :: rest) = true -> In k (map fst fl) ->
    ps_has (pre ++ PEKey fl :: PEField k :: rest) T = true ->
    ps_has (pre ++ [PEKey fl]) T = true.

(* ---------- membership respects Path.Equals ---------- *)
Lemma patheqb_cong_l : forall p q x, wf_path p = true -> wf_path q = true -> wf_path x = true ->
  patheqb p q = true -> patheqb p x = patheqb q x.
Proof.
  induction p as [|a p IH]; intros [|b q] [|c x] Hp Hq Hx H; simpl in H; try discriminate;
    try reflexivity.
  apply andb_true_iff in H. destruct H as [Hab Hpq].
  apply wf_path_cons in Hp. apply wf_path_cons in Hq. apply wf_path_cons in Hx.
  simpl. rewrite (peeqb_cong_l c a b) by tauto. f_equal. apply IH; tauto.
Qed.

Lemma ps_has_patheqb : forall T p q, ps_ok T = true -> wf_path p = true -> wf_path q = true ->
  patheqb p q = true -> ps_has p T = ps_has q T.
Proof.
  intros T p q HT Hp Hq H. rewrite !ps_has_elems by auto. unfold pmem.
  apply existsb_ext_in. intros x Hx. apply patheqb_cong_l; auto.
  pose proof (ps_elems_wf T HT) as Hw. rewrite forallb_forall in Hw. apply Hw. exact Hx.
Qed.

Lemma keys_closed_wp : forall T e, ps_ok T = true -> wf_pe e = true -> keys_closed T ->
  keys_closed (ps_with_prefix e T).
Proof.
  intros T e HT He Hkc pre fl k rest Hwf Hin Hhas.
  destruct (ps_with_prefix_spec e T HT He) as [_ Hw].
  rewrite Hw in Hhas by (auto; destruct pre; discriminate).
  rewrite Hw.
  - apply (Hkc (e :: pre) fl k rest); auto. simpl. apply wf_path_cons. auto.
  - unfold wf_path in *. rewrite forallb_app in *. apply andb_true_iff in Hwf.
    destruct Hwf as [H1 H2]. simpl in H2. apply andb_true_iff in H2.
    rewrite H1. simpl. rewrite (proj1 H2). reflexivity.
  - destruct pre; discriminate.
Qed.

(* ---------- the loops of removal as flat_maps ---------- *)
Definition keep_item (s : schema) (T : pset) (t : listT) (x : value) : list value :=
  let e := list_item_pe_or_zero s t x in
  if ps_has [e] T then []
  else if negb (ps_empty (ps_with_prefix e T))
       then [remove_items s false (list_elem t) (ps_with_prefix e T) x]
       else [x].

Lemma rm_list_go_flat : forall s T t l, rm_list_go s false T t l = flat_map (keep_item s T t) l.
Proof.
  intros s T t l. induction l as [|x l IH]; [reflexivity|].
  rewrite rm_list_go_cons, IH.
  change (flat_map (keep_item s T t) (x :: l))
    with (keep_item s T t x ++ flat_map (keep_item s T t) l).
  generalize (flat_map (keep_item s T t) l). intros rest.
  unfold rm_list_step, keep_item, rm_has, rm_subset. cbv zeta.
  set (e := list_item_pe_or_zero s t x).
  destruct (ps_has [e] T); [reflexivity|].
  destruct (ps_empty (ps_with_prefix e T)); reflexivity.
Qed.

Definition kept_value (s : schema) (T : pset) (t : mapT) (k : string) (c : value) : value :=
  if negb (ps_empty (ps_with_prefix (PEField k) T))
  then remove_items s false (field_type t k) (ps_with_prefix (PEField k) T) c
  else c.

Lemma rm_map_go_assoc_get : forall s T t k m,
  assoc_get k (rm_map_go s false T t m) =
  if ps_has [PEField k] T then None
  else match assoc_get k m with
       | None => None
       | Some c => Some (kept_value s T t k c)
       end.
Proof.
  intros s T t k m. induction m as [|[k' c'] m IH].
  - simpl. destruct (ps_has [PEField k] T); reflexivity.
  - rewrite rm_map_go_cons. unfold rm_map_step. cbn [fst snd].
    simpl assoc_get at 2. destruct (String.eqb_spec k k') as [E|E].
    + subst k'. destruct (ps_has [PEField k] T) eqn:Eh.
      * exact IH.
      * unfold kept_value. destruct (negb (ps_empty (ps_with_prefix (PEField k) T)));
          simpl; rewrite String.eqb_refl; reflexivity.
    + assert (Hneq : String.eqb k k' = false) by (apply String.eqb_neq; exact E).
      destruct (ps_has [PEField k'] T); [exact IH|].
      destruct (negb (ps_empty (ps_with_prefix (PEField k') T))); simpl; rewrite Hneq; exact IH.
Qed.

(* ---------- generic list facts ---------- *)
Lemma filter_flat_map : forall (A B : Type) (f : B -> bool) (g : A -> list B) l,
  filter f (flat_map g l) = flat_map (fun x => filter f (g x)) l.
Proof.
  intros A B f g l. induction l as [|x l IH]; [reflexivity|].
  simpl. rewrite filter_app, IH. reflexivity.
Qed.

Lemma flat_map_nil_all : forall (A B : Type) (g : A -> list B) l,
  (forall y, In y l -> g y = []) -> flat_map g l = [].
Proof.
  intros A B g l. induction l as [|x l IH]; intros H; [reflexivity|].
  simpl. rewrite (H x) by (simpl; auto). apply IH. intros y Hy. apply H. simpl. auto.
Qed.

Lemma flat_map_single : forall (A B : Type) (f : A -> bool) (g : A -> list B) l,
  (2 <=? List.length (filter f l)) = false ->
  (forall x, In x l -> f x = false -> g x = []) ->
  flat_map g l = [] \/ exists x0, In x0 l /\ f x0 = true /\ flat_map g l = g x0.
Proof.
  intros A B f g l. induction l as [|x l IH]; intros Hlen Hg; [left; reflexivity|].
  simpl in Hlen. destruct (f x) eqn:Efx.
  - right. exists x. split; [simpl; auto|]. split; [exact Efx|].
    simpl. assert (Hnil : flat_map g l = []).
    { assert (Hf : filter f l = []).
      { destruct (filter f l); [reflexivity|]. simpl in Hlen. discriminate. }
      apply flat_map_nil_all. intros y Hy. apply Hg; [simpl; auto|].
      destruct (f y) eqn:Efy; [|reflexivity].
      assert (In y (filter f l)) by (apply filter_In; auto). rewrite Hf in H. contradiction. }
    rewrite Hnil, app_nil_r. reflexivity.
  - simpl. rewrite (Hg x) by (simpl; auto). simpl.
    destruct IH as [H|(x0 & H1 & H2 & H3)]; auto.
    + intros y Hy. apply Hg. simpl. auto.
    + right. exists x0. simpl. auto.
Qed.

(* ---------- key fields of a keyed member ---------- *)
Lemma keyed_go_names : forall s t m keys fl, keyed_go s t m keys = Some fl -> map fst fl = keys.
Proof.
  intros s t m keys. induction keys as [|k ks IH]; simpl; intros fl H.
  - inversion H. reflexivity.
  - destruct (assoc_get k m) as [v|].
    + destruct (keyed_go s t m ks) as [r|]; [|discriminate]. inversion H. simpl. f_equal. auto.
    + destruct (key_default s t k) as [[d|]|]; try discriminate.
      destruct (keyed_go s t m ks) as [r|]; [|discriminate]. inversion H. simpl. f_equal. auto.
Qed.

Lemma keyed_go_ext : forall s t m1 m2 keys,
  (forall k, In k keys -> assoc_get k m1 = assoc_get k m2) ->
  keyed_go s t m1 keys = keyed_go s t m2 keys.
Proof.
  intros s t m1 m2 keys. induction keys as [|k ks IH]; intros H; [reflexivity|].
  simpl. rewrite (H k) by (simpl; auto). rewrite IH; [reflexivity|].
  intros k' Hk'. apply H. simpl. auto.
Qed.

Lemma fl_insert_names : forall x l k, In k (map fst (fl_insert x l)) <-> k = fst x \/ In k (map fst l).
Proof.
  intros x l k. induction l as [|y l IH]; simpl.
  - split; intros [H|H]; auto.
  - destruct (str_ltb (fst y) (fst x)); simpl.
    + rewrite IH. split; intros H; intuition.
    + split; intros H; intuition.
Qed.

Lemma fl_sort_names : forall l k, In k (map fst (fl_sort l)) <-> In k (map fst l).
Proof.
  induction l as [|x l IH]; intros k; [reflexivity|].
  change (fl_sort (x :: l)) with (fl_insert x (fl_sort l)).
  rewrite fl_insert_names, IH. simpl. split; intros [H|H]; auto.
Qed.

Section Absent.
  Variables (s : schema) (R : typeref -> Prop).
  Hypothesis Hok : schema_ok s R.

  (* removal inside a member that is not itself removed keeps its path element, or
     destroys it *)
  Lemma keep_pe_stable : forall t x ex T, ps_ok T = true -> keys_closed T ->
    list_item_to_pe s t x = Some ex -> wf_pe ex = true -> ps_has [ex] T = false ->
    list_item_to_pe s t (remove_items s false (list_elem t) (ps_with_prefix ex T) x) = None \/
    list_item_to_pe s t (remove_items s false (list_elem t) (ps_with_prefix ex T) x) = Some ex.
  Proof.
    intros t x ex T HT Hkc Hex Hwex Hno.
    destruct (ps_with_prefix_spec ex T HT Hwex) as [HT' Hw].
    set (T' := ps_with_prefix ex T) in *.
    unfold list_item_to_pe in *.
    destruct (negb (rel_is_assoc (list_rel t))); [discriminate|].
    destruct (list_keys t) as [|k0 ks] eqn:Ek.
    - (* set *)
      rewrite remove_items_eq.
      destruct x; simpl in Hex; try discriminate;
        (destruct (resolve s (list_elem t)) as [a|]; [|left; reflexivity]);
        (destruct (handle_atom (deduce_atom a _)); simpl; auto).
    - (* keyed *)
      destruct x as [| | | | |l|m]; try (simpl in Hex; discriminate).
      rewrite keyed_item_to_pe_eq in Hex.
      destruct (keyed_go s t m (list_keys t)) as [fl|] eqn:Eg; [|discriminate].
      inversion Hex as [Hexeq]. clear Hex.
      assert (Hnames : forall k, In k (list_keys t) -> In k (map fst (fl_sort fl))).
      { intros k Hk. apply fl_sort_names. rewrite (keyed_go_names _ _ _ _ _ Eg). exact Hk. }
      assert (Hkeys : forall k, In k (list_keys t) ->
                ps_has [PEField k] T' = false /\ ps_empty (ps_with_prefix (PEField k) T') = true).
      { intros k Hk. specialize (Hnames k Hk). split.
        - destruct (ps_has [PEField k] T') eqn:Eh; [|reflexivity]. exfalso.
          rewrite Hw in Eh by (auto; discriminate). subst ex.
          assert (H : ps_has ([] ++ [PEKey (fl_sort fl)]) T = true).
          { apply (Hkc [] (fl_sort fl) k []); [|exact Hnames|exact Eh].
            simpl app. apply wf_path_cons. split; [exact Hwex|reflexivity]. }
          simpl app in H. congruence.
        - destruct (ps_empty (ps_with_prefix (PEField k) T')) eqn:Ee; [reflexivity|]. exfalso.
          destruct (ps_with_prefix_spec (PEField k) T' HT' eq_refl) as [HT'' Hw'].
          destruct (ps_nonempty_witness _ HT'' Ee) as (p & Hp & Hhas).
          assert (Hpne : p <> []) by (intros ->; discriminate).
          rewrite Hw' in Hhas by auto.
          rewrite Hw in Hhas by (try (apply wf_path_cons; split; auto); discriminate).
          subst ex.
          assert (H : ps_has ([] ++ [PEKey (fl_sort fl)]) T = true).
          { apply (Hkc [] (fl_sort fl) k p); [|exact Hnames|exact Hhas].
            simpl app. apply wf_path_cons. split; [exact Hwex|]. apply wf_path_cons. auto. }
          simpl app in H. congruence. }
      rewrite remove_items_eq.
      destruct (resolve s (list_elem t)) as [a|]; [|left; reflexivity].
      destruct (handle_atom (deduce_atom a (Some (VMap m)))) as [mt|sc|lt|] eqn:Eh;
        try (left; reflexivity).
      + destruct m as [|kv m']; [left; reflexivity|].
        destruct (rel_is_atomic (map_rel mt)); [left; reflexivity|]. cbv zeta.
        destruct (rm_map_go s false T' mt (kv :: m')) as [|o out] eqn:Eout; [left; reflexivity|].
        right. rewrite keyed_item_to_pe_eq, <- Eout.
        rewrite (keyed_go_ext s t _ (kv :: m') (list_keys t)); [rewrite Eg, Hexeq; reflexivity|].
        intros k Hk. destruct (Hkeys k Hk) as [H1 H2].
        rewrite rm_map_go_assoc_get, H1. unfold kept_value. rewrite H2. cbn [negb].
        destruct (assoc_get k (kv :: m')); reflexivity.
      + right. rewrite keyed_item_to_pe_eq, Eg, Hexeq. reflexivity.
  Qed.
End Absent.

(* ---------- helpers on kinds and conformance ---------- *)
Lemma present_leaf_false : forall s tr w p,
  match kind_of s tr w with KLeaf | KBad => True | _ => False end -> p <> [] ->
  present s tr w p = false.
Proof.
  intros s tr w [|e rest] Hk Hne; [contradiction|]. unfold present.
  rewrite resolve_path_leaf by exact Hk. reflexivity.
Qed.

Lemma kind_null : forall s tr, match kind_of s tr VNull with KLeaf | KBad => True | _ => False end.
Proof. intros s tr. unfold kind_of. destruct (resolve s tr) as [[sc li ma]|]; exact I. Qed.

Lemma remove_items_null : forall s ex tr T, remove_items s ex tr T VNull = VNull.
Proof.
  intros s ex tr T. rewrite remove_items_eq. destruct (resolve s tr) as [a|]; [|reflexivity].
  destruct (handle_atom (deduce_atom a (Some VNull))); reflexivity.
Qed.

Lemma assoc_get_In : forall (m : list (string * value)) k c, assoc_get k m = Some c -> In (k, c) m.
Proof.
  induction m as [|[k' c'] m IH]; simpl; intros k c H; [discriminate|].
  destruct (String.eqb_spec k k') as [E|E].
  - inversion H; subst. auto.
  - right. apply IH. exact H.
Qed.

Lemma lipe_nonassoc : forall s t x, rel_is_assoc (list_rel t) = false -> list_item_to_pe s t x = None.
Proof. intros s t x H. unfold list_item_to_pe. rewrite H. reflexivity. Qed.

Lemma occ_nonassoc : forall s t e l, rel_is_assoc (list_rel t) = false -> occ s t e l = [].
Proof.
  intros s t e l H. unfold occ. induction l as [|x l IH]; [reflexivity|].
  simpl. unfold pe_matches at 1. rewrite (lipe_nonassoc s t x H). exact IH.
Qed.

Lemma conforms_list_inv : forall s tr sc t ma l,
  resolve s tr = Some (Atom sc (Some t) ma) -> conforms s tr false (VList l) = true ->
  items_wf s t l ->
  forallb (fun x => conforms s (list_elem t) false x) l = true /\
  forall e, wf_pe e = true -> (2 <=? List.length (occ s t e l)) = false.
Proof.
  intros s tr sc t ma l Hr Hc Hiw. rewrite conforms_eq, Hr in Hc.
  destruct (list_rel t) eqn:Erel;
    try (split; [exact Hc|]; intros e He; rewrite occ_nonassoc by (rewrite Erel; reflexivity);
         reflexivity).
  apply andb_true_iff in Hc. destruct Hc as [Hc Hd]. apply andb_true_iff in Hc.
  split; [apply Hc|]. intros e He. apply distinct_occ; auto.
Qed.

(* the members of a conforming associative list all have a path element *)
Lemma conforms_list_has_pe : forall s tr sc t ma l,
  resolve s tr = Some (Atom sc (Some t) ma) -> conforms s tr false (VList l) = true ->
  rel_is_assoc (list_rel t) = true -> forallb (has_pe s t) l = true.
Proof.
  intros s tr sc t ma l Hr Hc Has. rewrite conforms_eq, Hr in Hc.
  destruct (list_rel t); try discriminate.
  apply andb_true_iff in Hc. destruct Hc as [Hc _]. apply andb_true_iff in Hc. apply Hc.
Qed.

Section AbsentMain.
  Variables (s : schema) (R : typeref -> Prop).
  Hypothesis Hok : schema_ok s R.

  Theorem remove_absent_gen : forall v tr T p, R tr -> wf_value v = true ->
    conforms s tr false v = true -> ps_ok T = true -> keys_closed T ->
    wf_path p = true -> ps_has p T = true ->
    present s tr (remove_items s false tr T v) p = false.
  Proof.
    intros v. induction v as [|b|z|q0|str|l IHl|m IHm] using value_ind';
      intros tr T p Htr Hwf Hc HT Hkc Hp Hhas;
      (destruct p as [|e rest]; [discriminate|]);
      pose proof Hc as Hc'; rewrite conforms_eq in Hc';
      (destruct (resolve s tr) as [[sc li ma]|] eqn:Er; [|discriminate]);
      try (destruct sc; [|discriminate]; rewrite remove_items_eq, Er; cbn [deduce_atom is_scalar handle_atom];
           apply present_leaf_false; [unfold kind_of; rewrite Er; exact I|discriminate]).
    - rewrite remove_items_null. apply present_leaf_false; [apply kind_null|discriminate].
    - (* list *)
      destruct li as [t|]; [|discriminate].
      apply wf_path_cons in Hp. destruct Hp as [He Hrest].
      assert (Hcase : l = [] \/ l <> []) by (destruct l; [left; reflexivity|right; discriminate]).
      destruct Hcase as [->|Hne].
      { rewrite remove_items_eq, Er, handle_vlist.
        apply present_leaf_false; [apply kind_null|discriminate]. }
      rewrite (remove_items_vlist' _ _ _ _ _ _ _ _ Er Hne).
      destruct (rel_is_atomic (list_rel t)) eqn:Eat.
      { apply present_leaf_false; [apply kind_null|discriminate]. }
      rewrite rm_list_go_flat.
      destruct (flat_map (keep_item s T t) l) as [|y0 ys] eqn:Ei.
      { apply present_leaf_false; [apply kind_null|discriminate]. }
      rewrite <- Ei. set (items' := flat_map (keep_item s T t) l) in *.
      assert (Hk : kind_of s tr (VList items') = KList t items').
      { unfold kind_of. rewrite Er, Eat, Ei. reflexivity. }
      destruct (is_keyval e) eqn:Ekv.
      2:{ unfold present. rewrite (resolve_path_list_other _ _ _ _ _ _ _ Hk Ekv). reflexivity. }
      unfold present. rewrite (resolve_path_list _ _ _ _ _ _ _ Hk Ekv).
      destruct (group_items s t items' []) as [g|] eqn:Eg; [|reflexivity].
      assert (Hte : R (list_elem t)) by (eapply (so_list s R Hok); eauto; reflexivity).
      assert (Hiw : items_wf s t l) by (eapply items_wf_R; eauto).
      destruct (conforms_list_inv s tr sc t ma l Er Hc Hiw) as [Hconf Hocc].
      assert (Hstab : forall x y, In x l -> In y (keep_item s T t x) ->
                forall ey, list_item_to_pe s t y = Some ey -> list_item_to_pe s t x = Some ey).
      { intros x y Hx Hy ey Hey.
        destruct (list_item_to_pe s t x) as [ex|] eqn:Ex.
        - unfold keep_item in Hy. rewrite (list_item_pe_or_zero_some s t x ex Ex) in Hy.
          cbv zeta in Hy.
          destruct (ps_has [ex] T) eqn:Eh; [contradiction|].
          destruct (negb (ps_empty (ps_with_prefix ex T))).
          + destruct Hy as [<-|[]].
            destruct (keep_pe_stable s t x ex T HT Hkc Ex (Hiw x ex Hx Ex) Eh) as [H|H];
              rewrite H in Hey; [discriminate|exact Hey].
          + destruct Hy as [<-|[]]. rewrite Ex in Hey. exact Hey.
        - exfalso. destruct (rel_is_assoc (list_rel t)) eqn:Eas.
          + pose proof (conforms_list_has_pe s tr sc t ma l Er Hc Eas) as Hhp.
            rewrite forallb_forall in Hhp. specialize (Hhp x Hx). unfold has_pe in Hhp.
            rewrite Ex in Hhp. discriminate.
          + rewrite (lipe_nonassoc s t y Eas) in Hey. discriminate. }
      assert (Hiw' : items_wf s t items').
      { intros y ey Hy Hey. unfold items' in Hy. apply in_flat_map in Hy.
        destruct Hy as (x & Hx & Hy). apply (Hiw x ey Hx). eapply Hstab; eauto. }
      destruct (group_items_some s t items' g Hiw' Eg) as (_ & _ & Hlk).
      rewrite (Hlk e He).
      assert (Hoccf : occ s t e items' = flat_map (fun x => occ s t e (keep_item s T t x)) l).
      { unfold items', occ. apply filter_flat_map. }
      rewrite Hoccf.
      destruct (flat_map_single _ _ (pe_matches s t e)
                  (fun x => occ s t e (keep_item s T t x)) l (Hocc e He))
        as [Hnil|(x0 & Hx0 & Hm0 & Hfm)].
      { intros x Hx Hmx. destruct (occ s t e (keep_item s T t x)) as [|y r] eqn:Eo; [reflexivity|].
        exfalso. assert (Hy : In y (occ s t e (keep_item s T t x))) by (rewrite Eo; simpl; auto).
        apply occ_In in Hy. destruct Hy as [Hy Hmy]. unfold pe_matches in Hmy, Hmx.
        destruct (list_item_to_pe s t y) as [ey|] eqn:Ey; [|discriminate].
        rewrite (Hstab x y Hx Hy ey Ey) in Hmx. congruence. }
      { rewrite Hnil. reflexivity. }
      rewrite Hfm. unfold pe_matches in Hm0.
      destruct (list_item_to_pe s t x0) as [ex0|] eqn:Ex0; [|discriminate].
      assert (Hwx0 : wf_pe ex0 = true) by (apply (Hiw x0 ex0 Hx0 Ex0)).
      assert (Hhas0 : ps_has (ex0 :: rest) T = true).
      { rewrite <- Hhas. apply ps_has_patheqb; auto; try (apply wf_path_cons; auto).
        simpl. rewrite Hm0. apply patheqb_refl. exact Hrest. }
      unfold keep_item. rewrite (list_item_pe_or_zero_some s t x0 ex0 Ex0). cbv zeta.
      destruct (ps_has [ex0] T) eqn:Eh0; [reflexivity|].
      destruct rest as [|r0 rest']; [congruence|].
      destruct (ps_with_prefix_spec ex0 T HT Hwx0) as [HT' Hw].
      assert (Hsub : ps_has (r0 :: rest') (ps_with_prefix ex0 T) = true).
      { rewrite Hw by (auto; discriminate). exact Hhas0. }
      rewrite (ps_has_nonempty _ _ Hsub). cbn [negb].
      unfold occ. cbn [filter].
      destruct (pe_matches s t e (remove_items s false (list_elem t) (ps_with_prefix ex0 T) x0));
        [|reflexivity].
      change (present s (list_elem t)
                (remove_items s false (list_elem t) (ps_with_prefix ex0 T) x0) (r0 :: rest') = false).
      rewrite Forall_forall in IHl. apply (IHl x0 Hx0); auto.
      + eapply wf_value_list_in; eauto.
      + rewrite forallb_forall in Hconf. apply Hconf. exact Hx0.
      + apply keys_closed_wp; auto.
    - (* map *)
      destruct ma as [t|]; [|discriminate].
      apply wf_path_cons in Hp. destruct Hp as [He Hrest].
      assert (Hcase : m = [] \/ m <> []) by (destruct m; [left; reflexivity|right; discriminate]).
      destruct Hcase as [->|Hne].
      { rewrite remove_items_eq, Er, handle_vmap.
        apply present_leaf_false; [apply kind_null|discriminate]. }
      rewrite (remove_items_vmap' _ _ _ _ _ _ _ _ Er Hne).
      destruct (rel_is_atomic (map_rel t)) eqn:Eat.
      { apply present_leaf_false; [apply kind_null|discriminate]. }
      destruct (rm_map_go s false T t m) as [|o out] eqn:Eo.
      { apply present_leaf_false; [apply kind_null|discriminate]. }
      rewrite <- Eo.
      assert (Hk : kind_of s tr (VMap (rm_map_go s false T t m)) = KMap t (rm_map_go s false T t m)).
      { unfold kind_of. rewrite Er, Eat, Eo. reflexivity. }
      destruct e as [k|fl|ev|i];
        try (unfold present; rewrite (resolve_path_map_other _ _ _ _ _ _ _ Hk) by exact I; reflexivity).
      unfold present. rewrite (resolve_path_map _ _ _ _ _ _ _ Hk), rm_map_go_assoc_get.
      destruct (ps_has [PEField k] T) eqn:Eh; [reflexivity|].
      destruct (assoc_get k m) as [c|] eqn:Eg; [|reflexivity].
      destruct rest as [|r0 rest']; [congruence|].
      destruct (ps_with_prefix_spec (PEField k) T HT eq_refl) as [HT' Hw].
      assert (Hsub : ps_has (r0 :: rest') (ps_with_prefix (PEField k) T) = true).
      { rewrite Hw by (auto; discriminate). exact Hhas. }
      unfold kept_value. rewrite (ps_has_nonempty _ _ Hsub). cbn [negb].
      change (present s (field_type t k)
                (remove_items s false (field_type t k) (ps_with_prefix (PEField k) T) c)
                (r0 :: rest') = false).
      pose proof (assoc_get_In m k c Eg) as Hin.
      rewrite Forall_forall in IHm. apply (IHm (k, c) Hin); auto.
      + eapply (so_map s R Hok); eauto.
      + eapply wf_value_map_in; eauto.
      + eapply cmap_each_in; eauto.
      + apply keys_closed_wp; auto.
  Qed.
End AbsentMain.
