(* Helper of Proofs/HollowFree.v: what the merged object of an Apply inherits from its
   operands (the proof follows Proofs/TransparentMerge.v [keeps_w], which has the
   "no empty list" half):
     [merge_no_empty]  merging a plain configuration into an object without empty map or
                       list gives an object without empty map or list;
     [merge_plain]     merging a plain configuration into a null or plain object gives a
                       plain object. *)
From Coq Require Import List ZArith String Bool Arith Lia.
From SMD Require Import Model.Value Model.Order Model.PathElem Model.PathSet Model.Schema
  Model.Walk Model.Merge Spec.PathsAsSets Spec.RefValid Spec.Resolve Spec.Agree
  Proofs.OrderLaws Proofs.KeyLaws Proofs.PathSetLaws Proofs.SchemaOk Proofs.MergeLaws.
From SMD Require Import Proofs.FieldSetBase Proofs.FieldSetPaths Proofs.ResolveLaws
  Proofs.PesLaws Proofs.MergeBase Proofs.MergeLoop Proofs.MergeWalk Proofs.MergeConf
  Proofs.MergeInter Proofs.MergeVeqb Proofs.MergeDescent Proofs.MergeAgree.
From SMD Require Proofs.ExtractLaws Proofs.TransparentMerge.
From SMD Require Import Proofs.HollowFreeBase.
Import ListNotations.
Open Scope bool_scope.

Notation oplain := TransparentMerge.oplain.

(* an optional operand without empty container / that is null or plain *)
Definition one (o : option value) : Prop :=
  match o with Some v => no_empty v = true | None => True end.
Definition ohf (o : option value) : Prop :=
  match o with Some v => hollow_free v | None => True end.

Lemma one_dm : forall o k, one o -> one (assoc_get k (dm o)).
Proof.
  intros o k H. destruct (assoc_get k (dm o)) as [x|] eqn:E; [|exact I].
  apply assoc_get_in in E. destruct o as [[| | | | |l|m]|]; simpl in E; try destruct E.
  apply (no_empty_map_in m k x H E).
Qed.

Lemma one_dl : forall o x, one o -> In x (dl o) -> no_empty x = true.
Proof.
  intros o x H Hin. destruct o as [[| | | | |l|m]|]; simpl in Hin; try destruct Hin.
  apply (no_empty_list_in l x H Hin).
Qed.

(* the members of a null-or-plain operand are plain *)
Lemma ohf_dm : forall o k, ohf o -> oplain (assoc_get k (dm o)).
Proof.
  intros o k H. destruct (assoc_get k (dm o)) as [x|] eqn:E; [|exact I].
  apply assoc_get_in in E. destruct o as [[| | | | |l|m]|]; simpl in E; try destruct E.
  destruct H as [H|H]; [discriminate|]. apply (ExtractLaws.plain_map_in m k x H E).
Qed.

Lemma ohf_dl : forall o x, ohf o -> In x (dl o) -> plain x = true.
Proof.
  intros o x H Hin. destruct o as [[| | | | |l|m]|]; simpl in Hin; try destruct Hin.
  destruct H as [H|H]; [discriminate|]. apply (ExtractLaws.plain_list_in l x H Hin).
Qed.

Lemma oplain_ohf : forall o, oplain o -> ohf o.
Proof. intros [v|] H; [right; exact H|exact I]. Qed.

Lemma no_empty_list_of : forall l, l <> [] -> forallb no_empty l = true -> no_empty (VList l) = true.
Proof. intros [|x l] Hne H; [congruence|exact H]. Qed.
Lemma no_empty_map_of : forall m, m <> [] -> forallb (fun kv => no_empty (snd kv)) m = true ->
  no_empty (VMap m) = true.
Proof. intros [|x l] Hne H; [congruence|exact H]. Qed.
Lemma plain_list_of : forall l, l <> [] -> forallb plain l = true -> plain (VList l) = true.
Proof. intros [|x l] Hne H; [congruence|exact H]. Qed.
Lemma plain_map_of : forall m, m <> [] -> forallb (fun kv => plain (snd kv)) m = true ->
  plain (VMap m) = true.
Proof. intros [|x l] Hne H; [congruence|exact H]. Qed.

Section Keeps.
  Variables (s : schema) (R : typeref -> Prop).
  Hypothesis Hok : schema_ok s R.
  Hypothesis Hfam : family_refs s R.

  Lemma hollow_w : forall f tr lo ro out, R tr -> odepth lo + odepth ro < f ->
    oconf s tr true lo -> oconf s tr false ro -> (lo <> None \/ ro <> None) ->
    merge_w f s tr lo ro = (false, Some out) ->
    (one lo -> oplain ro -> no_empty out = true) /\
    (ohf lo -> oplain ro -> (ro <> None \/ oplain lo) -> plain out = true).
  Proof.
    induction f as [|f IH]; intros tr lo ro out HR Hd Hcl Hcr Hsome Hm; [lia|].
    destruct ro as [r|].
    2:{ destruct lo as [l|]; [|destruct Hsome; congruence].
        destruct Hcl as [Hcl Hwl].
        rewrite (merge_absent_right s R Hok Hfam (S f) tr l HR) in Hm; auto; [|simpl in Hd; lia].
        inversion Hm; subst out. split; [intros H _; exact H|].
        intros _ _ [H|H]; [congruence|exact H]. }
    destruct Hcr as [Hcr Hwr].
    destruct (merge_cases f s tr false lo r out Hcr Hm)
      as [Heq|[(a & mt & Hr & Hmt & Hna & Hne & Hshape & Hmm & Hhm)|(a & t & Hr & Hlt & Hna & Hne & Hshape & Hml & Hhl)]].
    - subst out. split; [intros _ Hp; apply plain_no_empty; exact Hp|intros _ Hp _; exact Hp].
    - (* granular map *)
      destruct (map_descent s R Hok Hfam f tr a mt lo (Some r) out HR Hr Hmt Hd Hcl
                  (conj Hcr Hwr) Hna Hne Hmm) as (g & Hout & Hkne & Hg).
      set (keys := keys_union (map fst (dm lo)) (map fst (dm (Some r)))) in *.
      assert (Hsub : forall k, In k keys ->
                (one lo -> oplain (Some r) -> no_empty (g k) = true) /\
                (ohf lo -> oplain (Some r) -> plain (g k) = true)).
      { intros k Hk.
        destruct (map_sub s R Hok f tr a mt lo (Some r) k HR Hr Hmt Hd Hcl (conj Hcr Hwr) Hne Hk)
          as (H1 & H2 & H3 & H4 & H5).
        destruct (IH (field_type mt k) _ _ (g k) H1 H2 H3 H4 H5 (Hg k Hk)) as [Hn Hp].
        split.
        - intros Hnl Hpl. apply Hn; [apply one_dm; exact Hnl|apply TransparentMerge.oplain_dm; exact Hpl].
        - intros Hhf Hpl. apply Hp.
          + apply oplain_ohf. apply ohf_dm. exact Hhf.
          + apply TransparentMerge.oplain_dm. exact Hpl.
          + right. apply ohf_dm. exact Hhf. }
      assert (Hmne : map (fun k => (k, g k)) keys <> []).
      { destruct keys; [congruence|discriminate]. }
      subst out. split.
      + intros Hnl Hpl. apply no_empty_map_of; [exact Hmne|].
        apply forallb_forall. intros [k x] Hin. apply in_map_iff in Hin.
        destruct Hin as (k' & E & Hk). inversion E; subst k' x. cbn [snd].
        apply (proj1 (Hsub k Hk) Hnl Hpl).
      + intros Hhf Hpl _. apply plain_map_of; [exact Hmne|].
        apply forallb_forall. intros [k x] Hin. apply in_map_iff in Hin.
        destruct Hin as (k' & E & Hk). inversion E; subst k' x. cbn [snd].
        apply (proj2 (Hsub k Hk) Hhf Hpl).
    - (* granular list *)
      pose proof (list_rel_assoc t (Hfam tr a t HR Hr Hlt) Hna) as Hrel.
      destruct (list_descent s R Hok Hfam f tr a t lo (Some r) out HR Hr Hlt Hd Hcl
                  (conj Hcr Hwr) Hna Hne Hml) as (gR & tl & Hout & Htlne & Hil & HgR).
      destruct (list_descent_items s R Hok Hfam f tr a t lo (Some r) gR tl HR Hr Hlt Hd Hcl
                  (conj Hcr Hwr) Hrel Hil HgR) as (Hitems & HA).
      set (rl := dl (Some r)) in *.
      pose proof (so_list s R Hok tr a t HR Hr Hlt) as HRelem.
      (* a merged right-hand member *)
      assert (HsubR : forall e, In e (pes_of s t rl) ->
                (one lo -> oplain (Some r) -> no_empty (gR e) = true) /\
                (ohf lo -> oplain (Some r) -> plain (gR e) = true)).
      { intros e He. destruct (HA e He) as (c & Hinc & Hpec & Hlf & Hcc & Hwc & _ & _).
        destruct (obsL_ok s tr a t lo e Hr Hlt Hrel Hcl) as (Ho1 & Ho2 & _).
        pose proof (dl_depth_in (Some r) c Hinc) as Hdc.
        pose proof (HgR e He) as Hme. fold rl in Hme. rewrite Hlf in Hme.
        assert (Hdd : odepth (obsL s t (dl lo) e) + odepth (Some c) < f) by (simpl in *; lia).
        assert (Hsx : obsL s t (dl lo) e <> None \/ Some c <> None) by (right; discriminate).
        destruct (IH (list_elem t) _ _ (gR e) HRelem Hdd Ho1 (conj Hcc Hwc) Hsx Hme) as [Hn Hp].
        split.
        - intros Hnl Hpl. apply Hn; [|apply (TransparentMerge.oplain_dl (Some r) c Hpl Hinc)].
          destruct (obsL s t (dl lo) e) as [v|] eqn:Ev; [|exact I].
          destruct (obsL_cases s t (dl lo) e v Ev) as [[-> _]|(_ & Hinv & _)]; [reflexivity|].
          apply (one_dl lo v Hnl Hinv).
        - intros Hhf Hpl. apply Hp; [|apply (TransparentMerge.oplain_dl (Some r) c Hpl Hinc)|left; discriminate].
          destruct (obsL s t (dl lo) e) as [v|] eqn:Ev; [|exact I].
          destruct (obsL_cases s t (dl lo) e v Ev) as [[-> _]|(_ & Hinv & _)]; [left; reflexivity|].
          right. apply (ohf_dl lo v Hhf Hinv). }
      (* every member of the merged list *)
      assert (Hmem : forall x, In x (map snd tl) ->
                (exists e, In e (pes_of s t rl) /\ x = gR e) \/ In x (dl lo)).
      { intros x Hx. apply in_map_iff in Hx. destruct Hx as ([e0 y] & <- & Hin). cbn [snd].
        apply (interleave_in _ _ _ _ (e0, y) Hil) in Hin. destruct Hin as [Hin|Hin].
        - left. apply in_map_iff in Hin. destruct Hin as (e & E & He). inversion E; subst e0 y.
          exists e. auto.
        - right. apply filter_In in Hin. destruct Hin as [Hin _].
          apply (ipairs_in s t _ e0 y Hin). }
      subst out. split.
      + intros Hnl Hpl. apply no_empty_list_of; [apply map_snd_nonempty; exact Htlne|].
        apply forallb_forall. intros x Hx. destruct (Hmem x Hx) as [(e & He & ->)|Hin].
        * apply (proj1 (HsubR e He) Hnl Hpl).
        * apply (one_dl lo x Hnl Hin).
      + intros Hhf Hpl _. apply plain_list_of; [apply map_snd_nonempty; exact Htlne|].
        apply forallb_forall. intros x Hx. destruct (Hmem x Hx) as [(e & He & ->)|Hin].
        * apply (proj2 (HsubR e He) Hhf Hpl).
        * apply (ohf_dl lo x Hhf Hin).
  Qed.

  Theorem merge_hollow : forall tr l r out, R tr -> wf_value l = true -> wf_value r = true ->
    conforms s tr true l = true -> conforms s tr false r = true ->
    merge s tr l r = Some (Some out) -> plain r = true ->
    (no_empty l = true -> no_empty out = true) /\
    (hollow_free l -> plain out = true).
  Proof.
    intros tr l r out HR Hwl Hwr Hcl Hcr Hm Hpr. unfold merge in Hm.
    destruct (merge_w (merge_fuel l r) s tr (Some l) (Some r)) as [e o] eqn:E.
    destruct e; [discriminate|]. inversion Hm; subst o.
    destruct (hollow_w (merge_fuel l r) tr (Some l) (Some r) out HR) as [Hn Hp]; auto.
    - unfold merge_fuel. simpl. lia.
    - split; assumption.
    - split; assumption.
    - left. discriminate.
    - split.
      + intros H. apply Hn; [exact H|exact Hpr].
      + intros H. apply Hp; [exact H|exact Hpr|left; discriminate].
  Qed.
End Keeps.
