(* C12: laws of the merging walker (Model/Merge.v), relative to a set R of type references
   closed under descent (Proofs/SchemaOk.v) in which every list is associative or atomic. *)
From Coq Require Import List ZArith String Bool Arith Lia.
From SMD Require Import Model.Value Model.Order Model.PathElem Model.PathSet Model.Schema
  Model.Walk Model.Merge Spec.RefValid Spec.Resolve Proofs.OrderLaws Proofs.SchemaOk
  Proofs.MergeBase Proofs.MergeLoop Proofs.MergeWalk Proofs.MergeConf.
From SMD Require Spec.Examples.
Import ListNotations.
Open Scope bool_scope.

Lemma merge_of_w : forall s tr l r out,
  merge_w (merge_fuel l r) s tr (Some l) (Some r) = (false, Some out) ->
  merge s tr l r = Some (Some out).
Proof. intros s tr l r out H. unfold merge. rewrite H. reflexivity. Qed.

(* merging never fails on valid operands: duplicates allowed on the left, not on the right *)
Theorem merge_total : forall s R tr l r,
  schema_ok s R -> family_refs s R -> R tr ->
  wf_value l = true -> wf_value r = true ->
  conforms s tr true l = true -> conforms s tr false r = true ->
  exists out, merge s tr l r = Some (Some out).
Proof.
  intros s R tr l r Hok Hfam HR Hwl Hwr Hcl Hcr.
  destruct (merge_total_w s R Hok Hfam (merge_fuel l r) tr (Some l) (Some r)) as [out Hout].
  - exact HR.
  - unfold merge_fuel. simpl. lia.
  - split; assumption.
  - split; assumption.
  - left. discriminate.
  - exists out. apply merge_of_w. exact Hout.
Qed.

(* merging an object with itself is the identity *)
Theorem merge_self : forall s R tr v,
  schema_ok s R -> family_refs s R -> R tr ->
  wf_value v = true -> conforms s tr false v = true ->
  merge s tr v v = Some (Some v).
Proof.
  intros s R tr v Hok Hfam HR Hw Hc. apply merge_of_w.
  apply (merge_self_w s R Hok Hfam); auto. unfold merge_fuel. lia.
Qed.

(* merging with nothing on the right is the identity, for a root that is a granular,
   non-empty container (for a root that is itself a leaf the right-hand null wins: F11).
   For a LIST root the atom resolved from tr must moreover declare nothing but the list:
   if it also declares a scalar or a map, the null on the right is dispatched to that
   other member, the walker sees a change of kind and the null wins (counterexamples
   below). This is the weakest such hypothesis: a map root needs nothing. *)
Theorem merge_null_right : forall s R tr l,
  schema_ok s R -> family_refs s R -> R tr ->
  wf_value l = true -> conforms s tr true l = true ->
  match kind_of s tr l with
  | KMap _ _ => True
  | KList _ _ => forall a, resolve s tr = Some a -> list_only a = true
  | _ => False
  end ->
  merge s tr l VNull = Some (Some l).
Proof.
  intros s R tr l Hok Hfam HR Hw Hc Hk. apply merge_of_w.
  apply (merge_null_right_w s R Hok Hfam); auto. unfold merge_fuel. lia.
Qed.

(* merging with nothing on the left is the identity *)
Theorem merge_null_left : forall s R tr r,
  schema_ok s R -> family_refs s R -> R tr ->
  wf_value r = true -> conforms s tr false r = true ->
  merge s tr VNull r = Some (Some r).
Proof.
  intros s R tr r Hok Hfam HR Hw Hc. apply merge_of_w.
  apply (merge_null_left_w s R Hok Hfam); auto. unfold merge_fuel. simpl. lia.
Qed.

(* the merged object is valid *)
Theorem merge_conforms : forall s R tr l r out,
  schema_ok s R -> family_refs s R -> R tr ->
  wf_value l = true -> wf_value r = true ->
  conforms s tr true l = true -> conforms s tr false r = true ->
  merge s tr l r = Some (Some out) -> conforms s tr true out = true /\ wf_value out = true.
Proof.
  intros s R tr l r out Hok Hfam HR Hwl Hwr Hcl Hcr Hm. unfold merge in Hm.
  destruct (merge_w (merge_fuel l r) s tr (Some l) (Some r)) as [e o] eqn:E.
  destruct e; [discriminate|]. inversion Hm; subst o.
  destruct (merge_conf_w s R Hok Hfam (merge_fuel l r) tr (Some l) (Some r) out) as (H1 & H2 & _); auto.
  - unfold merge_fuel. simpl. lia.
  - split; assumption.
  - split; assumption.
Qed.

(* ------------------------------------------------------------------ *)
(* why the hypotheses are there *)
Section Counterexamples.
  Import Spec.Examples.
  Open Scope string_scope.

  (* a list that is neither associative nor atomic validates but cannot be merged at all:
     without [family_refs] every law above fails *)
  Definition sep_list : typeref := TR None (Atom None (Some (ListT ex_str RSeparable [])) None) None.
  Example separable_list_not_mergeable :
    conforms [] sep_list false (VList [VStr "a"]) = true /\
    merge [] sep_list (VList [VStr "a"]) (VList [VStr "a"]) = None /\
    merge [] sep_list (VList [VStr "a"]) VNull = None /\
    merge [] sep_list VNull (VList [VStr "a"]) = None.
  Proof. vm_compute. auto. Qed.

  (* a list root whose atom also declares a scalar (or a map): the null on the right wins *)
  Definition multi_sl : typeref :=
    TR None (Atom (Some SString) (Some (ListT ex_str RAssociative [])) None) None.
  Definition multi_lm : typeref :=
    TR None (Atom None (Some (ListT ex_str RAssociative [])) (Some (MapT [] ex_str RUnset))) None.
  Example null_right_multi_kind_list :
    conforms [] multi_sl true (VList [VStr "a"]) = true /\
    (match kind_of [] multi_sl (VList [VStr "a"]) with KList _ _ => True | _ => False end) /\
    merge [] multi_sl (VList [VStr "a"]) VNull = Some (Some VNull) /\
    conforms [] multi_lm true (VList [VStr "a"]) = true /\
    (match kind_of [] multi_lm (VList [VStr "a"]) with KList _ _ => True | _ => False end) /\
    merge [] multi_lm (VList [VStr "a"]) VNull = Some (Some VNull).
  Proof. vm_compute. repeat split. Qed.
End Counterexamples.

(* ------------------------------------------------------------------ *)
(* the hypotheses are satisfiable: the example schema of Spec/Examples.v *)
Section Satisfiable.
  Import Spec.Examples.
  Open Scope string_scope.

  Definition ex_tags : typeref := TR None (Atom None (Some (ListT ex_str RAssociative [])) None) None.
  Definition ex_items : typeref :=
    TR None (Atom None (Some (ListT (ex_named "item") RAssociative ["name"])) None) None.
  Definition ex_mm : typeref := TR None (Atom None None (Some (MapT [] ex_num RUnset))) None.

  Definition ex_R (tr : typeref) : Prop :=
    In tr [ex_rt; ex_named "item"; ex_str; ex_num; ex_tags; ex_items; ex_mm; empty_tr].

  Lemma ex_R_rt : ex_R ex_rt.
  Proof. left. reflexivity. Qed.

  Ltac ex_cases H :=
    unfold ex_R in H; simpl in H;
    repeat (destruct H as [H|H]; [subst|]); [..|destruct H].

  Ltac ex_in := unfold ex_R; simpl; repeat (first [left; reflexivity | right]).

  Lemma ex_schema_ok : schema_ok ex_schema ex_R.
  Proof.
    constructor.
    - intros tr a t HR Hr Hl. ex_cases HR; vm_compute in Hr; inversion Hr; subst a;
        simpl in Hl; try discriminate; inversion Hl; subst t; simpl; ex_in.
    - intros tr a m k HR Hr Hm. ex_cases HR; vm_compute in Hr; inversion Hr; subst a;
        simpl in Hm; try discriminate; inversion Hm; subst m; unfold field_type; simpl;
        repeat match goal with |- context [String.eqb k ?c] => destruct (String.eqb k c) end;
        simpl; ex_in.
    - intros tr a HR Hr. ex_cases HR; vm_compute in Hr; inversion Hr; subst a; reflexivity.
  Qed.

  Lemma ex_family : family_refs ex_schema ex_R.
  Proof.
    intros tr a t HR Hr Hl. ex_cases HR; vm_compute in Hr; inversion Hr; subst a;
      simpl in Hl; try discriminate; inversion Hl; subst t; left; reflexivity.
  Qed.

  (* so the laws apply to every valid object of the example schema, for instance: *)
  Example ex_merge_self : forall v, wf_value v = true -> conforms ex_schema ex_rt false v = true ->
    merge ex_schema ex_rt v v = Some (Some v).
  Proof. intros v. apply (merge_self ex_schema ex_R ex_rt v ex_schema_ok ex_family ex_R_rt). Qed.
End Satisfiable.

