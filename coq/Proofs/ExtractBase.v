(* Leaves of a list of paths, and how the leaves of the paths of a container restrict
   to the leaves of the paths of one member. *)
From Coq Require Import List ZArith String Bool Arith Lia.
From SMD Require Import Model.Value Model.Order Model.PathElem Model.PathSet Model.Schema
  Model.Walk Model.FieldSet Model.Remove Spec.PathsAsSets Spec.RefValid Spec.Resolve
  Proofs.OrderLaws Proofs.KeyLaws Proofs.PathSetLaws Proofs.ValidateLaws Proofs.SchemaOk
  Proofs.FieldSetMirrors Proofs.FieldSetBase Proofs.FieldSetShape Proofs.FieldSetPaths
  Proofs.RemoveBase.
Import ListNotations.
Open Scope bool_scope.

Definition leafmem (L : list path) (p : path) : bool :=
  pmem p L && negb (existsb (proper_prefix p) L).

Definition leaves_of (T : pset) (L : list path) : Prop :=
  ps_ok T = true /\ forall p, wf_path p = true -> p <> [] -> ps_has p T = leafmem L p.

(* ---------- prefixes and Path.Equals ---------- *)
Lemma patheqb_length : forall q q', patheqb q q' = true -> List.length q = List.length q'.
Proof.
  induction q as [|x q IH]; intros [|y q'] H; simpl in H; try discriminate; [reflexivity|].
  apply andb_true_iff in H. simpl. f_equal. apply IH. apply H.
Qed.

Lemma is_prefix_cong : forall p q q', wf_path p = true -> wf_path q = true -> wf_path q' = true ->
  patheqb q q' = true -> is_prefix p q = is_prefix p q'.
Proof.
  induction p as [|x p IH]; intros [|y q] [|y' q'] Hp Hq Hq' H; simpl in H; try discriminate;
    try reflexivity.
  apply andb_true_iff in H. destruct H as [Hy Hqq].
  apply wf_path_cons in Hp. apply wf_path_cons in Hq. apply wf_path_cons in Hq'.
  simpl. rewrite (peeqb_cong_r x y y') by tauto. f_equal. apply IH; tauto.
Qed.

Lemma proper_prefix_cong : forall p q q', wf_path p = true -> wf_path q = true -> wf_path q' = true ->
  patheqb q q' = true -> proper_prefix p q = proper_prefix p q'.
Proof.
  intros p q q' Hp Hq Hq' H. unfold proper_prefix.
  rewrite (is_prefix_cong p q q' Hp Hq Hq' H), (patheqb_length q q' H). reflexivity.
Qed.

Lemma is_prefix_length : forall p q, is_prefix p q = true -> List.length p <= List.length q.
Proof.
  induction p as [|x p IH]; intros [|y q] H; simpl in *; try discriminate; try lia.
  apply andb_true_iff in H. destruct H as [_ H]. apply IH in H. lia.
Qed.

Lemma proper_prefix_length : forall p q, proper_prefix p q = true -> List.length p < List.length q.
Proof.
  intros p q H. unfold proper_prefix in H. apply andb_true_iff in H. destruct H as [H1 H2].
  apply is_prefix_length in H1. apply negb_true_iff in H2. apply Nat.eqb_neq in H2. lia.
Qed.

Lemma pmem_refl_in : forall q L, wf_path q = true -> In q L -> pmem q L = true.
Proof.
  intros q L Hq Hin. unfold pmem. apply existsb_exists. exists q. split; [exact Hin|].
  apply patheqb_refl. exact Hq.
Qed.

Lemma existsb_pp_sub : forall X Y p,
  (forall q, wf_path q = true -> q <> [] -> pmem q X = true -> pmem q Y = true) ->
  forallb wf_path X = true -> forallb wf_path Y = true -> wf_path p = true -> p <> [] ->
  existsb (proper_prefix p) X = true -> existsb (proper_prefix p) Y = true.
Proof.
  intros X Y p Hsub HX HY Hp Hne H. apply existsb_exists in H. destruct H as (q & Hq & Hpp).
  rewrite forallb_forall in HX, HY.
  assert (Hqne : q <> []).
  { intros ->. apply proper_prefix_length in Hpp. simpl in Hpp. lia. }
  pose proof (Hsub q (HX q Hq) Hqne (pmem_refl_in q X (HX q Hq) Hq)) as Hm.
  unfold pmem in Hm. apply existsb_exists in Hm. destruct Hm as (q' & Hq' & Heq).
  apply existsb_exists. exists q'. split; [exact Hq'|].
  rewrite <- (proper_prefix_cong p q q'); auto.
Qed.

Lemma existsb_pp_ext : forall X Y p,
  (forall q, wf_path q = true -> q <> [] -> pmem q X = pmem q Y) ->
  forallb wf_path X = true -> forallb wf_path Y = true -> wf_path p = true -> p <> [] ->
  existsb (proper_prefix p) X = existsb (proper_prefix p) Y.
Proof.
  intros X Y p Hext HX HY Hp Hne. apply bool_eq_of_iff. split; apply existsb_pp_sub; auto.
  - intros q Hq Hqne H. rewrite <- Hext; auto.
  - intros q Hq Hqne H. rewrite Hext; auto.
Qed.

Lemma leaves_of_root : forall L, forallb wf_path L = true ->
  leaves_of (ps_leaves (ps_of_paths L)) L.
Proof.
  intros L HL. pose proof (ps_of_paths_ok L HL) as Hok.
  destruct (ps_leaves_spec (ps_of_paths L) Hok) as [Hlok Hl]. split; [exact Hlok|].
  intros p Hp Hne. rewrite (Hl p Hp). unfold leafmem.
  rewrite (ps_has_of_paths L p HL Hp Hne). f_equal. f_equal.
  apply existsb_pp_ext; auto.
  - intros q Hq Hqne. rewrite <- (ps_has_elems _ q Hok Hq). apply ps_has_of_paths; auto.
  - apply ps_elems_wf. exact Hok.
Qed.

(* ---------- a longest path is a leaf ---------- *)
Lemma max_length_exists : forall (L : list path), L <> [] ->
  exists p, In p L /\ forall q, In q L -> List.length q <= List.length p.
Proof.
  induction L as [|a L IH]; intros Hne; [contradiction|].
  destruct L as [|b L'].
  - exists a. split; [simpl; auto|]. intros q [H|[]]. subst. lia.
  - destruct IH as (p & Hp & Hmax); [discriminate|].
    destruct (le_lt_dec (List.length a) (List.length p)) as [Hle|Hlt].
    + exists p. split; [simpl; auto|]. intros q [H|H]; [subst; exact Hle|apply Hmax; exact H].
    + exists a. split; [simpl; auto|]. intros q [H|H]; [subst; lia|].
      specialize (Hmax q H). lia.
Qed.

Lemma leafmem_max : forall L p, wf_path p = true -> In p L ->
  (forall q, In q L -> List.length q <= List.length p) -> leafmem L p = true.
Proof.
  intros L p Hp Hin Hmax. unfold leafmem. rewrite (pmem_refl_in p L Hp Hin). simpl.
  apply negb_true_iff. destruct (existsb (proper_prefix p) L) eqn:E; [|reflexivity].
  apply existsb_exists in E. destruct E as (q & Hq & Hpp).
  apply proper_prefix_length in Hpp. specialize (Hmax q Hq). lia.
Qed.

(* ---------- restriction to one member ---------- *)
Lemma existsb_single : forall (A : Type) (f : A -> bool) l x0,
  In x0 l -> (forall x, In x l -> x = x0 \/ f x = false) -> existsb f l = f x0.
Proof.
  intros A f l x0 Hin H. destruct (f x0) eqn:E.
  - apply existsb_exists. exists x0. auto.
  - destruct (existsb f l) eqn:Ex; [|reflexivity]. apply existsb_exists in Ex.
    destruct Ex as (x & Hx & Hfx). destruct (H x Hx) as [->|Hf]; congruence.
Qed.

Lemma group_leafmem : forall (A : Type) (F : A -> list path) (I : list A) i0 e0 X0,
  In i0 I -> F i0 = map (cons e0) X0 -> wf_pe e0 = true ->
  (forall i, In i I -> i = i0 \/
     forall q, In q (F i) -> exists e q', q = e :: q' /\ peeqb e0 e = false) ->
  forall p, leafmem (flat_map F I) (e0 :: p) = leafmem X0 p.
Proof.
  intros A F I i0 e0 X0 Hin HF He0 Hsep p. unfold leafmem, pmem.
  rewrite !existsb_flat_map.
  rewrite (existsb_single _ (fun x => existsb (patheqb (e0 :: p)) (F x)) I i0 Hin).
  2:{ intros i Hi. destruct (Hsep i Hi) as [->|Hq]; [left; reflexivity|right].
      destruct (existsb (patheqb (e0 :: p)) (F i)) eqn:Ex; [|reflexivity].
      apply existsb_exists in Ex. destruct Ex as (q & Hq1 & Hq2).
      destruct (Hq q Hq1) as (e & q' & -> & Hne). simpl in Hq2. rewrite Hne in Hq2. discriminate. }
  rewrite (existsb_single _ (fun x => existsb (proper_prefix (e0 :: p)) (F x)) I i0 Hin).
  2:{ intros i Hi. destruct (Hsep i Hi) as [->|Hq]; [left; reflexivity|right].
      destruct (existsb (proper_prefix (e0 :: p)) (F i)) eqn:Ex; [|reflexivity].
      apply existsb_exists in Ex. destruct Ex as (q & Hq1 & Hq2).
      destruct (Hq q Hq1) as (e & q' & -> & Hne). rewrite proper_prefix_cons, Hne in Hq2.
      discriminate. }
  rewrite HF. f_equal.
  - change (existsb (patheqb (e0 :: p)) (map (cons e0) X0))
      with (pmem (e0 :: p) (map (fun q => e0 :: q) X0)).
    rewrite pmem_cons_map, peeqb_refl by exact He0. reflexivity.
  - f_equal. rewrite existsb_map.
    rewrite (existsb_ext_in _ _ (fun q => peeqb e0 e0 && proper_prefix p q)).
    + rewrite existsb_andb_const, peeqb_refl by exact He0. reflexivity.
    + intros q _. apply proper_prefix_cons.
Qed.

Lemma leafmem_app_nils : forall (X Y : list path) (p : path), (forall q, In q Y -> q = []) -> p <> [] ->
  leafmem (X ++ Y) p = leafmem X p.
Proof.
  intros X Y p HY Hne. unfold leafmem. rewrite pmem_app, existsb_app.
  assert (H1 : pmem p Y = false).
  { unfold pmem. destruct (existsb (patheqb p) Y) eqn:E; [|reflexivity].
    apply existsb_exists in E. destruct E as (q & Hq & Heq). rewrite (HY q Hq) in Heq.
    destruct p; [contradiction|discriminate]. }
  assert (H2 : existsb (proper_prefix p) Y = false).
  { destruct (existsb (proper_prefix p) Y) eqn:E; [|reflexivity].
    apply existsb_exists in E. destruct E as (q & Hq & Hpp). rewrite (HY q Hq) in Hpp.
    apply proper_prefix_length in Hpp. simpl in Hpp. lia. }
  rewrite H1, H2, !orb_false_r. reflexivity.
Qed.

Lemma leafmem_nil_leaf : forall (Y : list path), (forall q, In q Y -> q = []) -> leafmem ([[]] ++ Y) [] = true.
Proof.
  intros Y HY. unfold leafmem. rewrite pmem_app, existsb_app.
  assert (H2 : existsb (proper_prefix (@nil pe)) Y = false).
  { destruct (existsb (proper_prefix (@nil pe)) Y) eqn:E; [|reflexivity].
    apply existsb_exists in E. destruct E as (q & Hq & Hpp). rewrite (HY q Hq) in Hpp. discriminate. }
  unfold path in *. rewrite H2. reflexivity.
Qed.

Lemma leafmem_nil_granular : forall (X Y : list path), X <> [] -> (forall q, In q X -> q <> []) ->
  leafmem (X ++ Y) [] = false.
Proof.
  intros X Y Hne HX. unfold leafmem. rewrite existsb_app.
  destruct X as [|q X']; [contradiction|].
  assert (Hq : q <> []) by (apply HX; simpl; auto).
  destruct q as [|e q']; [contradiction|]. simpl. rewrite andb_false_r. reflexivity.
Qed.

Lemma leafmem_only_nils : forall (X : list path) (p : path), (forall q, In q X -> q = []) -> p <> [] -> leafmem X p = false.
Proof.
  intros X p HX Hne. unfold leafmem.
  assert (H1 : pmem p X = false).
  { unfold pmem. destruct (existsb (patheqb p) X) eqn:E; [|reflexivity].
    apply existsb_exists in E. destruct E as (q & Hq & Heq). rewrite (HX q Hq) in Heq.
    destruct p; [contradiction|discriminate]. }
  rewrite H1. reflexivity.
Qed.

(* a set without members (all its would-be members are refused) is empty *)
Lemma leaves_of_empty : forall T L, leaves_of T L -> (forall p, p <> [] -> leafmem L p = false) ->
  ps_empty T = true.
Proof.
  intros T L [Hok Hl] Hno. destruct (ps_empty T) eqn:E; [reflexivity|].
  destruct (ps_nonempty_witness T Hok E) as (p & Hp & Hhas).
  assert (Hne : p <> []) by (intros ->; discriminate).
  rewrite (Hl p Hp Hne), (Hno p Hne) in Hhas. discriminate.
Qed.

Lemma leaves_of_nonempty : forall T L, leaves_of T L -> L <> [] ->
  forallb wf_path L = true -> (forall q, In q L -> q <> []) -> ps_empty T = false.
Proof.
  intros T L [Hok Hl] Hne HL Hq. destruct (max_length_exists L Hne) as (p & Hp & Hmax).
  rewrite forallb_forall in HL.
  apply (ps_has_nonempty T p). rewrite (Hl p (HL p Hp) (Hq p Hp)).
  apply leafmem_max; auto.
Qed.
