(* A recorded set all of whose members designate nodes of a valid object is left alone by
   the schema reconciliation (Model/Reconcile.v), and the walker does not fail on it:
   [reconcile_field_set] answers exactly [Some None].  Proofs/ReconcileCurrent.v shows that
   the walker reports no path (second component); here the first component (the error
   flag) is shown to be [false]: the walker fails only when its fuel runs out, when a type
   reference does not resolve, or on the empty atom, and every position it visits is the
   type of a node of the valid object.  Consequence: with the identity converter and one
   version, [reconcile_managed] returns the managers unchanged. *)
From Coq Require Import List ZArith String Bool Arith Lia.
From SMD Require Import Model.Value Model.Order Model.PathElem Model.PathSet Model.Schema Model.Walk
  Model.Validate Model.Reconcile Model.Updater Spec.PathsAsSets Spec.RefValid Spec.Resolve
  Proofs.OrderLaws Proofs.PathSetLaws Proofs.SchemaOk Proofs.ValidateLaws Proofs.FieldSetBase
  Proofs.FieldSetPaths Proofs.MergeBase Proofs.ReconcileBase Proofs.ReconcileOwned Proofs.CompareTotal
  Proofs.RefDiffOneSided Proofs.RefDiffBoth Proofs.RefDiffPresent Proofs.ReconcileCurrent
  Proofs.UpdaterLaws Proofs.UpdaterLaws2 Proofs.ApplyEffect.
From SMD Require Proofs.TrieBase Proofs.ResolveLaws.
Import ListNotations.
Open Scope bool_scope.
Open Scope list_scope.

Local Arguments ps_has : simpl never.
Local Arguments ps_empty : simpl never.

Section Total.
  Variables (s : schema) (R : typeref -> Prop).
  Hypothesis Hok : schema_ok s R.
  Hypothesis Hfam : family_refs s R.
  Hypothesis Hpure : lists_pure s R.

  (* the type of a position resolves to an atom that is not the empty atom *)
  Definition resolves (tr : typeref) : Prop :=
    exists a, resolve s tr = Some a /\ atom_nonempty a = true.

  (* what the walker is called with: a non-empty set of nodes of a valid object, or no set
     at a position flagged atomic whose type resolves *)
  Definition rw_input2 (tr : typeref) (fs : option pset) (isAtomic : bool) : Prop :=
    match fs with
    | None => isAtomic = true /\ resolves tr
    | Some f => rw_input s R tr (Some f) isAtomic
    end.

  Definition fuel_ok (fuel : nat) (fs : option pset) : Prop :=
    match fs with Some f => ps_depth f < fuel | None => 1 <= fuel end.

  Lemma child_resolves : forall ctr c n, child_ok s R ctr c n -> resolves ctr.
  Proof.
    intros ctr c n (_ & _ & Hc & _). apply (conforms_resolve s ctr true c Hc).
  Qed.

  Theorem rw_no_error : forall fuel tr p fs isAtomic,
    fuel_ok fuel fs -> rw_input2 tr fs isAtomic ->
    fst (reconcile_w fuel s tr p fs isAtomic) = false.
  Proof.
    induction fuel as [|fuel IH]; intros tr p fs isAtomic Hfu Hin.
    { destruct fs as [f|]; unfold fuel_ok in Hfu; lia. }
    rewrite reconcile_w_S.
    destruct fs as [f|].
    2:{ (* no set: the position is flagged atomic, nothing is visited *)
      destruct Hin as (Hat & a & Hres & Hne). subst isAtomic. rewrite Hres.
      destruct a as [[sc|] [l|] [m|]]; try discriminate Hne; cbn [handle_atom negb andb];
        try reflexivity; destruct (is_untyped_deduced_map m); reflexivity. }
    unfold fuel_ok in Hfu.
    destruct Hin as (Hf & Hne & v & Htr & Hwv & Hcv & Hmp).
    destruct (conforms_resolve s tr true v Hcv) as (a & Hres & Hane). rewrite Hres.
    (* a member of the set: a node of v beneath the root *)
    destruct (TrieBase.ps_nonempty_witness f Hf Hne) as (mw & Wmw & Hmw).
    pose proof (Hmp mw Wmw Hmw) as Hprw.
    destruct mw as [|e0 r0]; [discriminate Hmw|].
    assert (Hkind : match kind_of s tr v with KMap _ _ | KList _ _ => True | _ => False end).
    { destruct (kind_of s tr v) eqn:Ek; try exact I;
        unfold present in Hprw; rewrite resolve_path_leaf in Hprw by (rewrite Ek; exact I); discriminate. }
    (* the visit of the children, for either kind of container *)
    assert (Hvisit : forall child_tr,
      (forall e sube ctr, wf_pe e = true -> snm_get e (ps_children f) = Some sube ->
         child_tr e = Some ctr -> rw_input s R ctr (Some sube) false) ->
      (forall e ctr, wf_pe e = true -> ps_has [e] f = true -> child_tr e = Some ctr -> resolves ctr) ->
      fst (rw_visit (reconcile_w fuel s) p child_tr f) = false).
    { intros child_tr Hchild Hleaf. destruct f as [ms cs]. cbn [ps_children] in Hchild.
      assert (Hf1 : 1 <= fuel) by (pose proof (ps_depth_pos (PSet ms cs)); lia).
      destruct (rw_visit_spec (reconcile_w fuel s) p child_tr ms cs) as (L & HL & _);
        [| |rewrite HL; reflexivity].
      - intros ec er Hinc Hgc. destruct (pes_has (fst ec) ms); [discriminate Hgc|].
        destruct (snm_get_In ms cs ec Hf Hinc) as [W Hg].
        unfold rw_call in Hgc. destruct (child_tr (fst ec)) as [ctr|] eqn:Ect; [|discriminate Hgc].
        rewrite Hg in Hgc. cbn [has_sub andb] in Hgc. inversion Hgc; subst er. clear Hgc.
        apply IH.
        + unfold fuel_ok. pose proof (depth_child ms cs ec Hinc). lia.
        + apply (Hchild _ _ _ W Hg Ect).
      - intros e er Hinm Hgm. destruct (member_has ms cs e Hf Hinm) as [W Hh].
        unfold rw_call in Hgm. destruct (child_tr e) as [ctr|] eqn:Ect; [|discriminate Hgm].
        destruct (snm_get e cs) as [sube|] eqn:Hg.
        + cbn [has_sub andb negb] in Hgm. inversion Hgm; subst er. clear Hgm.
          apply IH.
          * unfold fuel_ok. destruct (snm_get_cok ms cs e sube Hf Hg) as (_ & _ & Hd & _). lia.
          * apply (Hchild _ _ _ W Hg Ect).
        + cbn [has_sub andb negb] in Hgm. inversion Hgm; subst er. clear Hgm.
          apply IH.
          * exact Hf1.
          * split; [reflexivity|]. apply (Hleaf e ctr W Hh Ect). }
    destruct (kind_of s tr v) as [|t m|t l|] eqn:Ek; try contradiction.
    - (* v is a granular map *)
      destruct (kind_map_inv _ _ _ _ _ Ek) as (a' & Hr & Ham & Hv & Hna & _).
      rewrite Hres in Hr. inversion Hr; subst a'. clear Hr.
      destruct a as [sc li ma]. simpl in Ham. subst ma.
      replace (handle_atom (Atom sc li (Some t))) with (HMap t)
        by (destruct sc as [?|]; destruct li as [?|]; reflexivity).
      destruct (is_untyped_deduced_map t); [reflexivity|].
      rewrite Hna, andb_false_r.
      destruct (map_side s R Hok tr _ v t m Htr Hres Hwv Hcv Ek) as [_ Hch].
      pose proof (map_view_kind s tr v t m Ek) as Vw.
      apply (Hvisit (type_ref_at_path t)).
      + intros e sube ctr We Hg Ect. destruct f as [ms cs]. cbn [ps_children] in Hg.
        destruct (first_member ms cs e sube Hf Hg) as (x & r & Wxr & Hxr).
        assert (Wexr : wf_path (e :: x :: r) = true) by (apply wf_path_cons; auto).
        pose proof (Hmp _ Wexr Hxr) as Hpe. rewrite Vw in Hpe.
        destruct e as [k|k|k|k]; try discriminate.
        destruct (assoc_get k m) as [c|] eqn:Eg; [|discriminate].
        destruct (Hch k c Eg) as (H1 & H2 & H3 & _).
        unfold type_ref_at_path in Ect. destruct (is_empty_tr (field_type t k)); [discriminate|].
        inversion Ect; subst ctr.
        apply (child_input s R tr v ms cs (PEField k) sube (field_type t k) c Hf We Hg Hmp); auto.
        intros rest _ Hpr. rewrite Vw, Eg in Hpr. exact Hpr.
      + intros e ctr We Hh Ect.
        assert (W1 : wf_path [e] = true) by (apply wf_path_cons; auto).
        pose proof (Hmp _ W1 Hh) as Hpe. rewrite Vw in Hpe.
        destruct e as [k|k|k|k]; try discriminate.
        destruct (assoc_get k m) as [c|] eqn:Eg; [|discriminate].
        unfold type_ref_at_path in Ect. destruct (is_empty_tr (field_type t k)); [discriminate|].
        inversion Ect; subst ctr.
        apply (child_resolves _ c _ (Hch k c Eg)).
    - (* v is a granular list *)
      destruct (kind_list_inv _ _ _ _ _ Ek) as (a' & Hr & Hal & Hv & Hna & _).
      rewrite Hres in Hr. inversion Hr; subst a'. clear Hr.
      rewrite (pure_atom s R tr a t Hpure Htr Hres Hal Hna) in *. cbn [handle_atom].
      rewrite Hna, andb_false_r.
      destruct (list_side s R Hok Hfam tr _ v t l Htr Hres Hwv Hcv Ek) as (_ & Hiw & Hh & _ & Hch).
      pose proof (list_view_kind s R Hok tr v t l Htr Hwv Ek Hh) as Vw.
      apply (Hvisit (fun _ => Some (list_elem t))).
      + intros e sube ctr We Hg Ect. inversion Ect; subst ctr. destruct f as [ms cs]. cbn [ps_children] in Hg.
        destruct (first_member ms cs e sube Hf Hg) as (x & r & Wxr & Hxr).
        assert (Wexr : wf_path (e :: x :: r) = true) by (apply wf_path_cons; auto).
        pose proof (Hmp _ Wexr Hxr) as Hpe. rewrite (Vw e _ We) in Hpe.
        destruct (occ s t e l) as [|x0 [|y0 more]] eqn:Eo; try discriminate.
        assert (Hx0 : In x0 l).
        { assert (Hx : In x0 (occ s t e l)) by (rewrite Eo; left; reflexivity). apply occ_In in Hx. apply Hx. }
        destruct (Hch x0 Hx0) as (H1 & H2 & H3 & _).
        apply (child_input s R tr v ms cs e sube (list_elem t) x0 Hf We Hg Hmp); auto.
        intros rest _ Hpr. rewrite (Vw e _ We), Eo in Hpr. exact Hpr.
      + intros e ctr We Hhe Ect. inversion Ect; subst ctr.
        assert (W1 : wf_path [e] = true) by (apply wf_path_cons; auto).
        pose proof (Hmp _ W1 Hhe) as Hpe. rewrite (Vw e _ We) in Hpe.
        destruct (occ s t e l) as [|x0 more] eqn:Eo; [discriminate|].
        assert (Hx0 : In x0 l).
        { assert (Hx : In x0 (occ s t e l)) by (rewrite Eo; left; reflexivity). apply occ_In in Hx. apply Hx. }
        apply (child_resolves _ x0 _ (Hch x0 Hx0)).
  Qed.

  (* the reconciliation succeeds and has nothing to do *)
  Theorem present_records_none : forall tr v fs,
    R tr -> wf_value v = true -> conforms s tr true v = true -> ps_ok fs = true ->
    ps_empty fs = false ->
    mpresent s tr v fs -> reconcile_field_set s tr fs = Some None.
  Proof.
    intros tr v fs Htr Hwv Hcv Hf Hne Hmp. unfold reconcile_field_set.
    assert (Hin : rw_input s R tr (Some fs) false).
    { split; [exact Hf|]. split; [exact Hne|]. exists v. auto. }
    pose proof (rw_reports_nothing s R Hok Hfam Hpure (S (ps_depth fs)) tr [] (Some fs) false Hin) as Hno.
    assert (Hfu : fuel_ok (S (ps_depth fs)) (Some fs)) by (unfold fuel_ok; lia).
    pose proof (rw_no_error (S (ps_depth fs)) tr [] (Some fs) false Hfu Hin) as Hne0.
    destruct (reconcile_w (S (ps_depth fs)) s tr [] (Some fs) false) as [e L].
    cbn [fst] in Hne0. cbn [snd] in Hno. subst e.
    destruct L as [|q0 L]; [reflexivity|].
    exfalso. apply (Hno q0). left. reflexivity.
  Qed.
End Total.

Theorem present_records_reconcile_none : forall s R tr v fs,
  schema_ok s R -> family_refs s R -> lists_pure s R ->
  R tr -> wf_value v = true -> conforms s tr true v = true -> ps_ok fs = true ->
  ps_empty fs = false ->
  (forall m, wf_path m = true -> ps_has m fs = true -> present s tr v m = true) ->
  reconcile_field_set s tr fs = Some None.
Proof.
  intros s R tr v fs Hok Hfam Hpure Htr Hwv Hcv Hf Hne Hmp.
  apply (present_records_none s R Hok Hfam Hpure tr v fs Htr Hwv Hcv Hf Hne). exact Hmp.
Qed.

(* ================= reconcile_managed changes nothing ================= *)

Lemma fold_rstep_none : forall c live ver l res n, conv_id c ->
  (forall mr, In mr l -> mr_ver (snd mr) = ver) ->
  (forall mr, In mr l ->
     reconcile_field_set (schema_of c ver) (tr_of c ver) (mr_set (snd mr)) = Some None) ->
  fold_left (rstep c live) l (UOk (res, n)) = UOk (res ++ l, n + List.length l).
Proof.
  intros c live ver l. induction l as [|mr l IH]; intros res n Hcid Hv Hrec.
  - simpl. rewrite app_nil_r, Nat.add_0_r. reflexivity.
  - cbn [fold_left].
    assert (E : rstep c live (UOk (res, n)) mr = UOk (res ++ [mr], S n)).
    { unfold rstep, convert. rewrite Hcid. rewrite (Hv mr (or_introl eq_refl)).
      rewrite (Hrec mr (or_introl eq_refl)). reflexivity. }
    rewrite E.
    rewrite IH; [|exact Hcid|exact (fun x Hx => Hv x (or_intror Hx))|exact (fun x Hx => Hrec x (or_intror Hx))].
    rewrite <- app_assoc. cbn [app List.length]. rewrite Nat.add_succ_r. reflexivity.
Qed.

Theorem reconcile_managed_id : forall c R ver live mf,
  conv_id c -> schema_ok (schema_of c ver) R -> family_refs (schema_of c ver) R ->
  lists_pure (schema_of c ver) R -> R (tr_of c ver) ->
  wf_value live = true -> conforms (schema_of c ver) (tr_of c ver) true live = true ->
  mf_ok mf -> single_version ver mf ->
  (forall m r, mf_get m mf = Some r -> ps_empty (mr_set r) = false) ->
  (forall m r p, mf_get m mf = Some r -> wf_path p = true -> ps_has p (mr_set r) = true ->
     present (schema_of c ver) (tr_of c ver) live p = true) ->
  exists n0, reconcile_managed c O (ver, live) mf = UOk (mf, n0).
Proof.
  intros c R ver live mf Hcid Hok Hfam Hpure Htr Hwv Hcv [Hsk Hpsok] Hsv Hne Hpr.
  exists (O + List.length mf). rewrite reconcile_managed_unfold.
  apply (fold_rstep_none c (ver, live) ver mf [] O Hcid).
  - intros mr Hin. unfold single_version in Hsv. rewrite forallb_forall in Hsv.
    apply String.eqb_eq. apply (Hsv mr Hin).
  - intros [m r] Hin. cbn [snd].
    assert (Hg : mf_get m mf = Some r) by (unfold mf_get; apply in_assoc_get; assumption).
    rewrite forallb_forall in Hpsok. pose proof (Hpsok (m, r) Hin) as Hf. cbn [snd] in Hf.
    apply (present_records_reconcile_none (schema_of c ver) R (tr_of c ver) live (mr_set r)
             Hok Hfam Hpure Htr Hwv Hcv Hf (Hne m r Hg)).
    intros p Wp Hp. apply (Hpr m r p Hg Wp Hp).
Qed.

