(* Both operands present: one step of the comparing walker against one step of the
   reference diff, by cases on the kinds of the two values. *)
From Coq Require Import List ZArith String Bool Arith Lia.
From SMD Require Import Model.Value Model.Order Model.PathElem Model.PathSet Model.Schema
  Model.Walk Model.Validate Model.Merge Model.Compare Spec.PathsAsSets Spec.RefValid
  Spec.Resolve Spec.RefDiff
  Proofs.OrderLaws Proofs.KeyLaws Proofs.PesLaws Proofs.PathSetLaws Proofs.ValidateLaws
  Proofs.SchemaOk Proofs.FieldSetBase Proofs.FieldSetPaths
  Proofs.CompareBase Proofs.CompareWf Proofs.CompareSwap Proofs.CompareTotal
  Proofs.RefDiffBase Proofs.RefDiffWalk Proofs.RefDiffOneSided.
Import ListNotations.
Open Scope bool_scope.

(* The extra hypothesis under which the walker and the reference diff agree: a granular
   (non-atomic) list type is the only member of its atom.  (With a scalar or map member
   beside it the walker disagrees with ref_diff: see RefDiffLaws.v.) *)
Definition lists_pure (s : schema) (R : typeref -> Prop) : Prop :=
  forall tr sc t ma, R tr -> resolve s tr = Some (Atom sc (Some t) ma) ->
    rel_is_atomic (list_rel t) = false -> sc = None /\ ma = None.

Lemma pure_atom : forall s R tr a t, lists_pure s R -> R tr -> resolve s tr = Some a ->
  atom_list a = Some t -> rel_is_atomic (list_rel t) = false -> a = Atom None (Some t) None.
Proof.
  intros s R tr [sc li ma] t Hpure HR Hres Hal Hna. simpl in Hal. subst li.
  destruct (Hpure tr sc t ma HR Hres Hna) as [H1 H2]. subst. reflexivity.
Qed.

Lemma value_cases : forall v,
  v = VNull \/ (exists m0, v = VMap m0) \/ (v <> VNull /\ vclass v <> 2).
Proof.
  intros v. destruct v; auto; try (right; right; split; simpl; congruence).
  right. left. eauto.
Qed.

Lemma pure_conf_cases : forall s tr t v, resolve s tr = Some (Atom None (Some t) None) ->
  conforms s tr true v = true -> v = VNull \/ exists l0, v = VList l0.
Proof.
  intros s tr t v Hres C. rewrite conforms_eq, Hres in C.
  destruct v; try discriminate C; eauto.
Qed.

(* ------------------------------------------------------------------ *)
Section Deduce.
  Variables (s : schema) (tr : typeref) (a : atom).
  Hypothesis Hres : resolve s tr = Some a.

  Lemma deduce_conf : forall v, conforms s tr true v = true ->
    match v with
    | VNull => deduce_atom a (Some v) = a
    | VList _ => exists t, atom_list a = Some t /\ deduce_atom a (Some v) = Atom None (Some t) None
    | VMap _ => exists t, atom_map a = Some t /\ deduce_atom a (Some v) = Atom None None (Some t)
    | _ => exists t, deduce_atom a (Some v) = Atom (Some t) None None
    end.
  Proof.
    intros v H. rewrite conforms_eq, Hres in H. destruct a as [sc li ma].
    destruct v as [|b|z|q|str|l0|m0]; cbn [deduce_atom is_scalar is_list is_map].
    - reflexivity.
    - destruct sc as [t|]; [exists t; reflexivity|discriminate H].
    - destruct sc as [t|]; [exists t; reflexivity|discriminate H].
    - destruct sc as [t|]; [exists t; reflexivity|discriminate H].
    - destruct sc as [t|]; [exists t; reflexivity|discriminate H].
    - destruct li as [t|]; [exists t; split; reflexivity|discriminate H].
    - destruct ma as [t|]; [exists t; split; reflexivity|discriminate H].
  Qed.

  Lemma atoms_differ : forall l r,
    conforms s tr true l = true -> conforms s tr true r = true ->
    l <> VNull -> r <> VNull -> vclass l <> vclass r ->
    atom_eqb (deduce_atom a (Some l)) (deduce_atom a (Some r)) = false.
  Proof.
    intros l r Cl Cr Nl Nr Hc.
    destruct (atom_eqb (deduce_atom a (Some l)) (deduce_atom a (Some r))) eqn:E; [|reflexivity].
    apply deduce_eqb_eq in E.
    pose proof (deduce_conf l Cl) as Dl. pose proof (deduce_conf r Cr) as Dr.
    destruct l; try congruence; destruct r; try congruence; simpl in Hc; try congruence;
      repeat match goal with
      | H : exists _, _ |- _ => destruct H
      | H : _ /\ _ |- _ => destruct H
      end; congruence.
  Qed.

  Lemma handle_of_null_map : forall t, atom_map a = Some t ->
    handle_atom (deduce_atom a (Some VNull)) = HMap t.
  Proof. intros t Ha. destruct a as [[sc|] [li|] ma]; simpl in Ha; subst ma; reflexivity. Qed.

  (* the handler deduced from a non-null leaf, against a value of another class *)
  Lemma handle_l_leaf : forall rec p l r,
    conforms s tr true l = true -> kind_of s tr l = KLeaf -> l <> VNull ->
    vclass r <> vclass l ->
    cmp_handle rec s p (Some l) (Some r) (handle_atom (deduce_atom a (Some l))) =
    do_leaf p (Some l) (Some r).
  Proof.
    intros rec p l r Cl Kl Nl Hc.
    pose proof (deduce_conf l Cl) as Dl. pose proof (handle_of_conf s tr a l Hres Cl) as Hh.
    destruct l as [|b|z|q|str|l0|m0]; try congruence;
      try (destruct Dl as [t Hd]; rewrite Hd in *; cbn [handle_atom cmp_handle] in *;
           rewrite Hh; reflexivity).
    - destruct Dl as (t & Hal & Hd). rewrite Hd. cbn [handle_atom cmp_handle].
      apply handle_list_leaf. destruct (rel_is_atomic (list_rel t)) eqn:Ea; [reflexivity|].
      rewrite (leaf_emp_list s tr a Hres (Some (VList l0)) t Kl Hal Ea).
      destruct r; try reflexivity. exfalso. apply Hc. reflexivity.
    - destruct Dl as (t & Hal & Hd). rewrite Hd. cbn [handle_atom cmp_handle].
      apply handle_map_leaf. destruct (rel_is_atomic (map_rel t)) eqn:Ea; [reflexivity|].
      rewrite (leaf_emp_map s tr a Hres (Some (VMap m0)) t Kl Hal Ea).
      destruct r; try reflexivity. exfalso. apply Hc. reflexivity.
  Qed.

  Lemma handle_r_leaf : forall rec p l r,
    conforms s tr true r = true -> kind_of s tr r = KLeaf -> r <> VNull ->
    vclass l <> vclass r ->
    cmp_handle rec s p (Some l) (Some r) (handle_atom (deduce_atom a (Some r))) =
    do_leaf p (Some l) (Some r).
  Proof.
    intros rec p l r Cr Kr Nr Hc.
    pose proof (deduce_conf r Cr) as Dr. pose proof (handle_of_conf s tr a r Hres Cr) as Hh.
    destruct r as [|b|z|q|str|l0|m0]; try congruence;
      try (destruct Dr as [t Hd]; rewrite Hd in *; cbn [handle_atom cmp_handle] in *;
           rewrite Hh, andb_false_r; reflexivity).
    - destruct Dr as (t & Hal & Hd). rewrite Hd. cbn [handle_atom cmp_handle].
      apply handle_list_leaf. destruct (rel_is_atomic (list_rel t)) eqn:Ea; [reflexivity|].
      rewrite (leaf_emp_list s tr a Hres (Some (VList l0)) t Kr Hal Ea), andb_true_r.
      destruct l; try reflexivity. exfalso. apply Hc. reflexivity.
    - destruct Dr as (t & Hal & Hd). rewrite Hd. cbn [handle_atom cmp_handle].
      apply handle_map_leaf. destruct (rel_is_atomic (map_rel t)) eqn:Ea; [reflexivity|].
      rewrite (leaf_emp_map s tr a Hres (Some (VMap m0)) t Kr Hal Ea), andb_true_r.
      destruct l; try reflexivity. exfalso. apply Hc. reflexivity.
  Qed.
End Deduce.

(* ------------------------------------------------------------------ *)
Section BodyBoth.
  Variables (s : schema) (R : typeref -> Prop).
  Hypothesis Hok : schema_ok s R.
  Hypothesis Hfam : family_refs s R.
  Hypothesis Hpure : lists_pure s R.
  Variable rec : typeref -> path -> option value -> option value -> bool * cmpacc.
  Variable rrec : typeref -> path -> value -> value -> rdiff.
  Variables p p' : path.
  Hypothesis Hp : wf_path p = true.
  Hypothesis Hp' : wf_path p' = true.
  Hypothesis Hpp : patheqb p p' = true.
  Variable tr : typeref.
  Variable a : atom.
  Variables l r : value.
  Hypothesis HR : R tr.
  Hypothesis Hres : resolve s tr = Some a.
  Hypothesis Hl : wf_value l = true.
  Hypothesis Hr : wf_value r = true.
  Hypothesis Cl : conforms s tr true l = true.
  Hypothesis Cr : conforms s tr true r = true.

  Hypothesis Hrec : forall te q q' x y, R te -> wf_path q = true -> wf_path q' = true ->
    patheqb q q' = true -> wf_value x = true -> wf_value y = true ->
    conforms s te true x = true -> conforms s te true y = true ->
    vdepth x < vdepth l -> vdepth y < vdepth r ->
    ceq (snd (rec te q (Some x) (Some y))) (rd2c (rrec te q' x y)).
  Hypothesis Hleft : forall te q q' x, R te -> wf_path q = true -> wf_path q' = true ->
    patheqb q q' = true -> wf_value x = true -> conforms s te true x = true ->
    vdepth x < vdepth l ->
    ceq (snd (rec te q (Some x) None)) (rd2c (one_sided false s te x q')).
  Hypothesis Hright : forall te q q' y, R te -> wf_path q = true -> wf_path q' = true ->
    patheqb q q' = true -> wf_value y = true -> conforms s te true y = true ->
    vdepth y < vdepth r ->
    ceq (snd (rec te q None (Some y))) (rd2c (one_sided true s te y q')).

  Let HL := cmp_handle rec s p (Some l) (Some r) (handle_atom (deduce_atom a (Some l))).
  Let HRr := cmp_handle rec s p (Some l) (Some r) (handle_atom (deduce_atom a (Some r))).

  Lemma body_both_snd :
    snd (compare_body rec s p (Some l) (Some r) tr) =
    snd (fst (cmp_dispatch rec s p (Some l) (Some r) a)).
  Proof.
    unfold compare_body. rewrite Hres.
    destruct (cmp_dispatch rec s p (Some l) (Some r) a) as [[e c] lf]. cbn [fst snd].
    destruct lf; cbn [cmp_tail]; apply cmp_app_empty_r.
  Qed.

  Lemma dispatch_same : forall X, ceq (snd (fst HL)) X -> ceq (snd (fst HRr)) X ->
    ceq (snd (fst (cmp_dispatch rec s p (Some l) (Some r) a))) X.
  Proof.
    intros X H1 H2. unfold cmp_dispatch.
    destruct (atom_eqb (deduce_atom a (Some l)) (deduce_atom a (Some r))); [exact H2|].
    fold HL HRr. destruct HL as [[e1 c1] l1]. destruct HRr as [[e2 c2] l2]. cbn [fst snd] in *.
    eapply ceq_trans; [apply ceq_app; eassumption|apply ceq_app_idem].
  Qed.

  Lemma dispatch_diff : forall X Y,
    atom_eqb (deduce_atom a (Some l)) (deduce_atom a (Some r)) = false ->
    ceq (snd (fst HL)) X -> ceq (snd (fst HRr)) Y ->
    ceq (snd (fst (cmp_dispatch rec s p (Some l) (Some r) a))) (cmp_app X Y).
  Proof.
    intros X Y E H1 H2. unfold cmp_dispatch. rewrite E.
    fold HL HRr. destruct HL as [[e1 c1] l1]. destruct HRr as [[e2 c2] l2]. cbn [fst snd] in *.
    apply ceq_app; assumption.
  Qed.

  (* ---- the container handlers, when they walk ---- *)
  Lemma both_map_walk : forall t, atom_map a = Some t -> rel_is_atomic (map_rel t) = false ->
    is_emp (deref_map (Some l)) && is_emp (deref_map (Some r)) = false ->
    ceq (snd (fst (handle_map rec p (Some l) (Some r) t)))
        (rd2c (rd_maps rrec s p' t (ol (deref_map (Some l))) (ol (deref_map (Some r))))).
  Proof.
    intros t Ham Hna Hemp.
    destruct (handle_map_walk rec p (Some l) (Some r) t Hna Hemp) as [Hc _]. rewrite Hc.
    assert (Wk : forall k, wf_path (p ++ [PEField k]) = true /\ wf_path (p' ++ [PEField k]) = true /\
                           patheqb (p ++ [PEField k]) (p' ++ [PEField k]) = true /\ R (field_type t k)).
    { intros k. split; [apply wf_path_snoc; auto|]. split; [apply wf_path_snoc; auto|].
      split; [apply patheqb_snoc; auto; simpl; apply String.eqb_refl|].
      eapply (so_map s R Hok); eauto. }
    apply map_walk_eq.
    - intros k x y Hx Hy. destruct (Wk k) as (W1 & W2 & W3 & W4).
      destruct (side_map s tr a Hres (Some l) t k x Hl Cl Ham Hx) as (G1 & G2 & G3).
      destruct (side_map s tr a Hres (Some r) t k y Hr Cr Ham Hy) as (G4 & G5 & G6).
      unfold od in G3, G6. apply Hrec; auto.
    - intros k x Hx _. destruct (Wk k) as (W1 & W2 & W3 & W4).
      destruct (side_map s tr a Hres (Some l) t k x Hl Cl Ham Hx) as (G1 & G2 & G3).
      unfold od in G3. apply Hleft; auto.
    - intros k y _ Hy. destruct (Wk k) as (W1 & W2 & W3 & W4).
      destruct (side_map s tr a Hres (Some r) t k y Hr Cr Ham Hy) as (G4 & G5 & G6).
      unfold od in G6. apply Hright; auto.
  Qed.

  Lemma both_list_walk : forall t, atom_list a = Some t -> rel_is_atomic (list_rel t) = false ->
    is_emp (deref_list (Some l)) && is_emp (deref_list (Some r)) = false ->
    ceq (snd (fst (handle_list rec s p (Some l) (Some r) t)))
        (rd2c (rd_lists rrec s p' t (ol (deref_list (Some l))) (ol (deref_list (Some r))))).
  Proof.
    intros t Hal Hna Hemp.
    assert (Hrel : list_rel t = RAssociative).
    { destruct (Hfam tr a t HR Hres Hal) as [H|H]; auto. rewrite H in Hna. discriminate. }
    assert (HRe : R (list_elem t)) by (eapply (so_list s R Hok); eauto).
    destruct (side_list s tr a Hres (Some l) t Hl Cl Hal Hrel) as [SL1 SL2].
    destruct (side_list s tr a Hres (Some r) t Hr Cr Hal Hrel) as [SR1 SR2].
    pose proof (deref_list_wf (Some l) Hl) as Hll. pose proof (deref_list_wf (Some r) Hr) as Hrl.
    destruct (gather_values s t (ol (deref_list (Some l))) [] [] false) as [[lV o1] e1] eqn:El.
    destruct (gather_values s t (ol (deref_list (Some r))) [] [] false) as [[rV ro] e2] eqn:Er.
    destruct (handle_list_walk rec s p (Some l) (Some r) t lV o1 e1 rV ro e2 Hna Hemp El Er) as [Hc _].
    rewrite Hc.
    rewrite Forall_forall in SL2, SR2. unfold goodv, od in SL2, SR2.
    assert (Wk : forall e e', pe_rel e e' ->
              wf_path (p ++ [e]) = true /\ wf_path (p' ++ [e']) = true /\
              patheqb (p ++ [e]) (p' ++ [e']) = true).
    { intros e e' (He & He' & Hee). split; [apply wf_path_snoc; auto|].
      split; [apply wf_path_snoc; auto|]. apply patheqb_snoc; auto. }
    apply (list_walk_eq s R Hok rec rrec p p' Hp Hp' Hpp t _ _ lV o1 e1 rV ro e2); auto.
    - intros e e' x y Hee Hx Hy. destruct (Wk e e' Hee) as (W1 & W2 & W3).
      destruct (SL2 x Hx) as (G1 & G2 & G3). destruct (SR2 y Hy) as (G4 & G5 & G6).
      apply Hrec; auto.
    - intros e e' x Hee Hx. destruct (Wk e e' Hee) as (W1 & W2 & W3).
      destruct (SL2 x Hx) as (G1 & G2 & G3). apply Hleft; auto.
    - intros e e' y Hee Hy. destruct (Wk e e' Hee) as (W1 & W2 & W3).
      destruct (SR2 y Hy) as (G4 & G5 & G6). apply Hright; auto.
  Qed.

  (* ---- the cases ---- *)
  Lemma leaf_result :
    ceq (snd (fst (do_leaf p (Some l) (Some r))))
        (rd2c (if veqb r l then rd_empty else mkRD [] [p'] [])).
  Proof.
    unfold do_leaf. cbn [fst snd]. destruct (veqb r l); [apply ceq_refl|].
    apply (ceq_mod _ _ Hp Hp' Hpp).
  Qed.

  Lemma mod_result : veqb r l = false ->
    ceq (snd (fst (do_leaf p (Some l) (Some r)))) (rd2c (mkRD [] [p'] [])).
  Proof. intros E. pose proof leaf_result as H. rewrite E in H. exact H. Qed.

  Lemma case_leaf_leaf : kind_of s tr l = KLeaf -> kind_of s tr r = KLeaf ->
    ceq (snd (fst (cmp_dispatch rec s p (Some l) (Some r) a)))
        (rd2c (if veqb r l then rd_empty else mkRD [] [p'] [])).
  Proof.
    intros Kl Kr. apply dispatch_same.
    - unfold HL.
      rewrite (cmp_handle_leaf s tr a Hres rec p (Some l) (Some r) (Some l) l eq_refl (or_introl eq_refl) Cl Kl Kr).
      apply leaf_result.
    - unfold HRr.
      rewrite (cmp_handle_leaf s tr a Hres rec p (Some l) (Some r) (Some r) r eq_refl (or_intror eq_refl) Cr Kl Kr).
      apply leaf_result.
  Qed.

  (* both handlers are the map handler, which walks *)
  Lemma case_maps : forall t lm rm,
    atom_map a = Some t -> rel_is_atomic (map_rel t) = false ->
    handle_atom (deduce_atom a (Some l)) = HMap t ->
    handle_atom (deduce_atom a (Some r)) = HMap t ->
    ol (deref_map (Some l)) = lm -> ol (deref_map (Some r)) = rm ->
    is_emp (deref_map (Some l)) && is_emp (deref_map (Some r)) = false ->
    ceq (snd (fst (cmp_dispatch rec s p (Some l) (Some r) a))) (rd2c (rd_maps rrec s p' t lm rm)).
  Proof.
    intros t lm rm Ham Hna H1 H2 E1 E2 Hemp. subst lm rm.
    apply dispatch_same; [unfold HL; rewrite H1|unfold HRr; rewrite H2];
      cbn [cmp_handle]; apply both_map_walk; auto.
  Qed.

  Lemma case_lists : forall t ll rl,
    atom_list a = Some t -> rel_is_atomic (list_rel t) = false ->
    handle_atom (deduce_atom a (Some l)) = HList t ->
    handle_atom (deduce_atom a (Some r)) = HList t ->
    ol (deref_list (Some l)) = ll -> ol (deref_list (Some r)) = rl ->
    is_emp (deref_list (Some l)) && is_emp (deref_list (Some r)) = false ->
    ceq (snd (fst (cmp_dispatch rec s p (Some l) (Some r) a))) (rd2c (rd_lists rrec s p' t ll rl)).
  Proof.
    intros t ll rl Hal Hna H1 H2 E1 E2 Hemp. subst ll rl.
    apply dispatch_same; [unfold HL; rewrite H1|unfold HRr; rewrite H2];
      cbn [cmp_handle]; apply both_list_walk; auto.
  Qed.

  Lemma leaf_map_nil : forall t m, kind_of s tr (VMap m) = KLeaf -> atom_map a = Some t ->
    rel_is_atomic (map_rel t) = false -> m = [].
  Proof.
    intros t m K Ham Hna. pose proof (leaf_emp_map s tr a Hres (Some (VMap m)) t K Ham Hna) as H.
    destruct m; [reflexivity|discriminate H].
  Qed.

  Lemma leaf_list_nil : forall t l0, kind_of s tr (VList l0) = KLeaf -> atom_list a = Some t ->
    rel_is_atomic (list_rel t) = false -> l0 = [].
  Proof.
    intros t l0 K Hal Hna. pose proof (leaf_emp_list s tr a Hres (Some (VList l0)) t K Hal Hna) as H.
    destruct l0; [reflexivity|discriminate H].
  Qed.

  (* a non-null leaf of another class against a granular map on the right *)
  Lemma case_leaf_map : forall t rm, r = VMap rm -> kind_of s tr r = KMap t rm ->
    atom_map a = Some t -> rel_is_atomic (map_rel t) = false -> rm <> [] ->
    kind_of s tr l = KLeaf -> l <> VNull -> vclass l <> 2 ->
    ceq (snd (fst (cmp_dispatch rec s p (Some l) (Some r) a)))
        (rd2c (rd_app (mkRD [] [p'] []) (rd_beneath s tr p' true r))).
  Proof.
    intros t rm Er Kr Ham Hna Hne Kl Nl Hc. rewrite rd2c_app.
    assert (Vr : vclass r = 2) by (rewrite Er; reflexivity).
    apply dispatch_diff.
    - apply (atoms_differ s tr a Hres); auto; [rewrite Er; discriminate|congruence].
    - unfold HL. rewrite (handle_l_leaf s tr a Hres rec p l r Cl Kl Nl) by congruence.
      apply mod_result. apply veqb_class. congruence.
    - unfold HRr.
      assert (Hh : handle_atom (deduce_atom a (Some r)) = HMap t).
      { rewrite Er. apply (handle_of_vmap s tr a Hres t rm Ham). }
      rewrite Hh. cbn [cmp_handle].
      assert (Hsk : sorted_keys rm = true).
      { pose proof Hr as Hr'. rewrite Er in Hr'. simpl in Hr'. apply andb_true_iff in Hr'. apply Hr'. }
      assert (Kr' : kind_of s tr (VMap rm) = KMap t rm) by (rewrite <- Er; exact Kr).
      replace (rd2c (rd_beneath s tr p' true r)) with (rd2c (rd_maps rrec s p' t [] rm))
        by (rewrite Er; apply (rd_maps_nil_l rrec s tr p' t rm Kr' Hsk)).
      assert (El : ol (deref_map (Some l)) = []) by (destruct l; try reflexivity; exfalso; apply Hc; reflexivity).
      assert (Er2 : ol (deref_map (Some r)) = rm) by (rewrite Er; reflexivity).
      replace (rd_maps rrec s p' t [] rm)
        with (rd_maps rrec s p' t (ol (deref_map (Some l))) (ol (deref_map (Some r))))
        by (rewrite El, Er2; reflexivity).
      apply both_map_walk; auto.
      rewrite Er. simpl. destruct rm; [congruence|]. apply andb_false_r.
  Qed.

  Lemma case_map_leaf : forall t lm, l = VMap lm -> kind_of s tr l = KMap t lm ->
    atom_map a = Some t -> rel_is_atomic (map_rel t) = false -> lm <> [] ->
    kind_of s tr r = KLeaf -> r <> VNull -> vclass r <> 2 ->
    ceq (snd (fst (cmp_dispatch rec s p (Some l) (Some r) a)))
        (rd2c (rd_app (mkRD [] [p'] []) (rd_beneath s tr p' false l))).
  Proof.
    intros t lm El Kl Ham Hna Hne Kr Nr Hc. rewrite rd2c_app.
    assert (Vl : vclass l = 2) by (rewrite El; reflexivity).
    eapply ceq_trans; [|apply ceq_app_comm]. apply dispatch_diff.
    - apply (atoms_differ s tr a Hres); auto; [rewrite El; discriminate|congruence].
    - unfold HL.
      assert (Hh : handle_atom (deduce_atom a (Some l)) = HMap t).
      { rewrite El. apply (handle_of_vmap s tr a Hres t lm Ham). }
      rewrite Hh. cbn [cmp_handle].
      assert (Hsk : sorted_keys lm = true).
      { pose proof Hl as Hl'. rewrite El in Hl'. simpl in Hl'. apply andb_true_iff in Hl'. apply Hl'. }
      assert (Kl' : kind_of s tr (VMap lm) = KMap t lm) by (rewrite <- El; exact Kl).
      replace (rd2c (rd_beneath s tr p' false l)) with (rd2c (rd_maps rrec s p' t lm []))
        by (rewrite El; apply (rd_maps_nil_r rrec s tr p' t lm Kl' Hsk)).
      assert (Er : ol (deref_map (Some r)) = []) by (destruct r; try reflexivity; exfalso; apply Hc; reflexivity).
      assert (El2 : ol (deref_map (Some l)) = lm) by (rewrite El; reflexivity).
      replace (rd_maps rrec s p' t lm [])
        with (rd_maps rrec s p' t (ol (deref_map (Some l))) (ol (deref_map (Some r))))
        by (rewrite Er, El2; reflexivity).
      apply both_map_walk; auto.
      rewrite El. simpl. destruct lm; [congruence|]. reflexivity.
    - unfold HRr. rewrite (handle_r_leaf s tr a Hres rec p l r Cr Kr Nr) by congruence.
      apply mod_result. apply veqb_class. congruence.
  Qed.

  Theorem body_both :
    ceq (snd (compare_body rec s p (Some l) (Some r) tr)) (rd2c (ref_body rrec s p' tr l r)).
  Proof.
    rewrite body_both_snd. unfold ref_body.
    set (W := snd (fst (cmp_dispatch rec s p (Some l) (Some r) a))).
    destruct (kind_of s tr l) as [|tl lm|tl ll|] eqn:Kl;
      [| | |exfalso; exact (conf_not_bad s tr a Hres l Cl Kl)];
      (destruct (kind_of s tr r) as [|t rm|t rl|] eqn:Kr;
       [| | |exfalso; exact (conf_not_bad s tr a Hres r Cr Kr)]).
    - (* leaf, leaf *) apply case_leaf_leaf; auto.
    - (* leaf, map *)
      destruct (kind_map_inv _ _ _ _ _ Kr) as (a0 & Hr0 & Ham & Er & Hna & Hne).
      rewrite Hres in Hr0. inversion Hr0; subst a0.
      assert (Emp : forall b, b && is_emp (deref_map (Some r)) = false).
      { intros b. rewrite Er. simpl. destruct rm; [congruence|apply andb_false_r]. }
      destruct (value_cases l) as [El|[(m0 & El)|[Nl Hc]]].
      + rewrite El. cbv iota. subst W. apply (case_maps t [] rm Ham Hna); auto.
        * rewrite El. apply (handle_of_null_map s tr a Hres t Ham).
        * rewrite Er. apply (handle_of_vmap s tr a Hres t rm Ham).
        * rewrite El. reflexivity.
        * rewrite Er. reflexivity.
      + assert (Kl' : kind_of s tr (VMap m0) = KLeaf) by (rewrite <- El; exact Kl).
        pose proof (leaf_map_nil t m0 Kl' Ham Hna) as Hm0. subst m0.
        rewrite El. cbv iota. subst W. apply (case_maps t [] rm Ham Hna); auto.
        * rewrite El. apply (handle_of_vmap s tr a Hres t [] Ham).
        * rewrite Er. apply (handle_of_vmap s tr a Hres t rm Ham).
        * rewrite El. reflexivity.
        * rewrite Er. reflexivity.
      + assert (Hsel : forall A B : rdiff, match l with VNull | VMap [] => A | _ => B end = B).
        { intros A B. destruct l as [| | | | | |[|]]; try reflexivity; exfalso; auto. }
        rewrite Hsel. subst W. apply (case_leaf_map t rm); auto.
    - (* leaf, list *)
      destruct (kind_list_inv _ _ _ _ _ Kr) as (a0 & Hr0 & Hal & Er & Hna & Hne).
      rewrite Hres in Hr0. inversion Hr0; subst a0.
      pose proof (pure_atom s R tr a t Hpure HR Hres Hal Hna) as Ha.
      assert (Hres' : resolve s tr = Some (Atom None (Some t) None)) by (rewrite <- Ha; exact Hres).
      assert (Emp : forall b, b && is_emp (deref_list (Some r)) = false).
      { intros b. rewrite Er. simpl. destruct rl; [congruence|apply andb_false_r]. }
      destruct (pure_conf_cases s tr t l Hres' Cl) as [El|[l0 El]].
      + rewrite El. cbv iota. subst W. apply (case_lists t [] rl Hal Hna); auto.
        * rewrite El, Ha. reflexivity.
        * rewrite Er. apply (handle_of_vlist s tr a Hres t rl Hal).
        * rewrite El. reflexivity.
        * rewrite Er. reflexivity.
      + assert (Kl' : kind_of s tr (VList l0) = KLeaf) by (rewrite <- El; exact Kl).
        pose proof (leaf_list_nil t l0 Kl' Hal Hna) as Hl0. subst l0.
        rewrite El. cbv iota. subst W. apply (case_lists t [] rl Hal Hna); auto.
        * rewrite El. apply (handle_of_vlist s tr a Hres t [] Hal).
        * rewrite Er. apply (handle_of_vlist s tr a Hres t rl Hal).
        * rewrite El. reflexivity.
        * rewrite Er. reflexivity.
    - (* map, leaf *)
      destruct (kind_map_inv _ _ _ _ _ Kl) as (a0 & Hr0 & Ham & El & Hna & Hne).
      rewrite Hres in Hr0. inversion Hr0; subst a0.
      assert (Emp : forall b, is_emp (deref_map (Some l)) && b = false).
      { intros b. rewrite El. simpl. destruct lm; [congruence|reflexivity]. }
      destruct (value_cases r) as [Er|[(m0 & Er)|[Nr Hc]]].
      + rewrite Er. cbv iota. subst W. apply (case_maps tl lm [] Ham Hna); auto.
        * rewrite El. apply (handle_of_vmap s tr a Hres tl lm Ham).
        * rewrite Er. apply (handle_of_null_map s tr a Hres tl Ham).
        * rewrite El. reflexivity.
        * rewrite Er. reflexivity.
      + assert (Kr' : kind_of s tr (VMap m0) = KLeaf) by (rewrite <- Er; exact Kr).
        pose proof (leaf_map_nil tl m0 Kr' Ham Hna) as Hm0. subst m0.
        rewrite Er. cbv iota. subst W. apply (case_maps tl lm [] Ham Hna); auto.
        * rewrite El. apply (handle_of_vmap s tr a Hres tl lm Ham).
        * rewrite Er. apply (handle_of_vmap s tr a Hres tl [] Ham).
        * rewrite El. reflexivity.
        * rewrite Er. reflexivity.
      + assert (Hsel : forall A B : rdiff, match r with VNull | VMap [] => A | _ => B end = B).
        { intros A B. destruct r as [| | | | | |[|]]; try reflexivity; exfalso; auto. }
        rewrite Hsel. subst W. apply (case_map_leaf tl lm); auto.
    - (* map, map *)
      destruct (kind_map_inv _ _ _ _ _ Kl) as (a0 & Hr0 & Ham & El & Hna & Hne).
      rewrite Hres in Hr0. inversion Hr0; subst a0.
      destruct (kind_map_inv _ _ _ _ _ Kr) as (a1 & Hr1 & Ham1 & Er & Hna1 & Hne1).
      rewrite Hres in Hr1. inversion Hr1; subst a1.
      rewrite Ham in Ham1. inversion Ham1; subst t.
      subst W. apply (case_maps tl lm rm Ham Hna).
      + rewrite El. apply (handle_of_vmap s tr a Hres tl lm Ham).
      + rewrite Er. apply (handle_of_vmap s tr a Hres tl rm Ham).
      + rewrite El. reflexivity.
      + rewrite Er. reflexivity.
      + rewrite El. simpl. destruct lm; [congruence|reflexivity].
    - (* map, list: excluded *)
      exfalso.
      destruct (kind_map_inv _ _ _ _ _ Kl) as (a0 & Hr0 & Ham & _).
      rewrite Hres in Hr0. inversion Hr0; subst a0.
      destruct (kind_list_inv _ _ _ _ _ Kr) as (a1 & Hr1 & Hal & _ & Hna & _).
      rewrite Hres in Hr1. inversion Hr1; subst a1.
      rewrite (pure_atom s R tr a t Hpure HR Hres Hal Hna) in Ham. discriminate Ham.
    - (* list, leaf *)
      destruct (kind_list_inv _ _ _ _ _ Kl) as (a0 & Hr0 & Hal & El & Hna & Hne).
      rewrite Hres in Hr0. inversion Hr0; subst a0.
      pose proof (pure_atom s R tr a tl Hpure HR Hres Hal Hna) as Ha.
      assert (Hres' : resolve s tr = Some (Atom None (Some tl) None)) by (rewrite <- Ha; exact Hres).
      assert (Emp : forall b, is_emp (deref_list (Some l)) && b = false).
      { intros b. rewrite El. simpl. destruct ll; [congruence|reflexivity]. }
      destruct (pure_conf_cases s tr tl r Hres' Cr) as [Er|[l0 Er]].
      + rewrite Er. cbv iota. subst W. apply (case_lists tl ll [] Hal Hna); auto.
        * rewrite El. apply (handle_of_vlist s tr a Hres tl ll Hal).
        * rewrite Er, Ha. reflexivity.
        * rewrite El. reflexivity.
        * rewrite Er. reflexivity.
      + assert (Kr' : kind_of s tr (VList l0) = KLeaf) by (rewrite <- Er; exact Kr).
        pose proof (leaf_list_nil tl l0 Kr' Hal Hna) as Hl0. subst l0.
        rewrite Er. cbv iota. subst W. apply (case_lists tl ll [] Hal Hna); auto.
        * rewrite El. apply (handle_of_vlist s tr a Hres tl ll Hal).
        * rewrite Er. apply (handle_of_vlist s tr a Hres tl [] Hal).
        * rewrite El. reflexivity.
        * rewrite Er. reflexivity.
    - (* list, map: excluded *)
      exfalso.
      destruct (kind_map_inv _ _ _ _ _ Kr) as (a0 & Hr0 & Ham & _).
      rewrite Hres in Hr0. inversion Hr0; subst a0.
      destruct (kind_list_inv _ _ _ _ _ Kl) as (a1 & Hr1 & Hal & _ & Hna & _).
      rewrite Hres in Hr1. inversion Hr1; subst a1.
      rewrite (pure_atom s R tr a tl Hpure HR Hres Hal Hna) in Ham. discriminate Ham.
    - (* list, list *)
      destruct (kind_list_inv _ _ _ _ _ Kl) as (a0 & Hr0 & Hal & El & Hna & Hne).
      rewrite Hres in Hr0. inversion Hr0; subst a0.
      destruct (kind_list_inv _ _ _ _ _ Kr) as (a1 & Hr1 & Hal1 & Er & Hna1 & Hne1).
      rewrite Hres in Hr1. inversion Hr1; subst a1.
      rewrite Hal in Hal1. inversion Hal1; subst t.
      subst W. apply (case_lists tl ll rl Hal Hna).
      + rewrite El. apply (handle_of_vlist s tr a Hres tl ll Hal).
      + rewrite Er. apply (handle_of_vlist s tr a Hres tl rl Hal).
      + rewrite El. reflexivity.
      + rewrite Er. reflexivity.
      + rewrite El. simpl. destruct ll; [congruence|reflexivity].
  Qed.
End BodyBoth.
