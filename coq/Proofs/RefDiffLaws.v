(* C11: the comparing walker computes the reference diff (Spec/RefDiff.v).

   The statement of Proofs/RefDiffLaws_statements.v (compare_refines_ref_diff) is FALSE:
   see compare_refines_ref_diff_refuted below.  The walker and ref_diff disagree exactly
   when an atom holds a granular (associative) list type TOGETHER with a scalar or a map
   member:
     (1) a granular map against a granular list under the same type: the walker runs the
         handlers of both deduced atoms, neither calls doLeaf, nothing is modified at the
         path itself, while ref_diff reports the path as modified (rd_cx_l / rd_cx_r);
     (2) an explicit null against a non-empty granular list under such an atom: the
         handler of the un-deduced atom (map first, then scalar) calls doLeaf and the path
         is modified, while ref_diff compares the null as the empty list (rd_cx_l2).
   It is proved here under the extra hypothesis [lists_pure s R] (Proofs/RefDiffBoth.v):
   every reached atom whose list member is not atomic has no other member. *)
From Coq Require Import List ZArith String Bool Arith Lia.
From SMD Require Import Model.Value Model.Order Model.PathElem Model.PathSet Model.Schema
  Model.Walk Model.Validate Model.Merge Model.Compare Spec.PathsAsSets Spec.RefValid
  Spec.Resolve Spec.RefDiff Spec.Examples
  Proofs.OrderLaws Proofs.PathSetLaws Proofs.ValidateLaws Proofs.SchemaOk
  Proofs.CompareBase Proofs.CompareWf Proofs.CompareSwap Proofs.CompareTotal Proofs.CompareLaws
  Proofs.RefDiffBase Proofs.RefDiffWalk Proofs.RefDiffOneSided Proofs.RefDiffBoth.
Import ListNotations.
Open Scope list_scope.
Open Scope bool_scope.

(* ------------------------------------------------------------------ *)
(* the walker against the reference diff, any sufficient fuels, prefixes up to Path.Equals *)
Theorem compare_w_ref_diff : forall s R,
  schema_ok s R -> family_refs s R -> lists_pure s R ->
  forall f f2 tr p p' l r, R tr ->
  wf_path p = true -> wf_path p' = true -> patheqb p p' = true ->
  wf_value l = true -> wf_value r = true ->
  conforms s tr true l = true -> conforms s tr true r = true ->
  vdepth l + vdepth r < f -> vdepth l + vdepth r < f2 ->
  ceq (snd (compare_w f s tr p (Some l) (Some r))) (rd2c (ref_diff_fuel f2 s tr p' l r)).
Proof.
  intros s R Hok Hfam Hpure f. induction f as [|f IH];
    intros f2 tr p p' l r HR Hp Hp' Hpp Hl Hr Cl Cr Hf Hf2; [lia|].
  destruct f2 as [|f2]; [lia|].
  rewrite compare_w_S, ref_diff_fuel_S.
  destruct (conf_resolve s tr true l Cl) as [a Hres].
  apply (body_both s R Hok Hfam Hpure (compare_w f s) (ref_diff_fuel f2 s) p p' Hp Hp' Hpp tr a l r
           HR Hres Hl Hr Cl Cr).
  - intros te q q' x y HRe Hq Hq' Hqq Hx Hy Cx Cy Dx Dy. apply IH; auto; lia.
  - intros te q q' x HRe Hq Hq' Hqq Hx Cx Dx.
    apply (compare_w_removed s R Hok Hfam); auto. lia.
  - intros te q q' y HRe Hq Hq' Hqq Hy Cy Dy.
    apply (compare_w_added s R Hok Hfam); auto. lia.
Qed.

(* ------------------------------------------------------------------ *)
(* the statement of RefDiffLaws_statements.v under the extra hypothesis lists_pure *)
Theorem compare_refines_ref_diff_restricted : forall s R tr l r c,
  schema_ok s R -> family_refs s R -> lists_pure s R -> R tr ->
  wf_value l = true -> wf_value r = true ->
  conforms s tr true l = true -> conforms s tr true r = true ->
  compare s tr l r = Some c ->
  forall p, wf_path p = true -> p <> [] ->
    ps_has p (removed c) = pmem p (rd_removed (ref_diff s tr l r)) /\
    ps_has p (modified c) = pmem p (rd_modified (ref_diff s tr l r)) /\
    ps_has p (added c) = pmem p (rd_added (ref_diff s tr l r)).
Proof.
  intros s R tr l r c Hok Hfam Hpure HR Hl Hr Cl Cr Hc p Hp Hne. unfold compare in Hc.
  pose proof (compare_w_wf s R Hok (merge_fuel l r) tr [] (Some l) (Some r) HR eq_refl Hl Hr) as Hw.
  assert (Hfuel : vdepth l + vdepth r < merge_fuel l r) by (unfold merge_fuel; lia).
  pose proof (compare_w_ref_diff s R Hok Hfam Hpure (merge_fuel l r) (merge_fuel l r) tr [] [] l r
                HR eq_refl eq_refl eq_refl Hl Hr Cl Cr Hfuel Hfuel p Hp) as Hq.
  destruct (compare_w (merge_fuel l r) s tr [] (Some l) (Some r)) as [e acc].
  destruct e; [discriminate|]. inversion Hc; subst c. cbn [removed modified added].
  destruct Hw as (W1 & W2 & W3). cbn [snd] in *.
  rewrite !ps_has_of_paths by (auto; apply Forall_W_forallb; assumption).
  unfold ref_diff. exact Hq.
Qed.

(* ------------------------------------------------------------------ *)
(* the literal statement is false *)
Open Scope string_scope.

(* a type holding a scalar, an associative list (a set of strings) and a granular map *)
Definition rd_cx_any : typeref :=
  TR None (Atom (Some SUntyped) (Some (ListT ex_str RAssociative [])) (Some (MapT [] ex_num RUnset))) None.
Definition rd_cx_root : typeref := TR None (Atom None None (Some (MapT [] rd_cx_any RUnset))) None.
Definition rd_cx_R (tr : typeref) : Prop := In tr [rd_cx_root; rd_cx_any; ex_str; ex_num].

(* (1) granular map against granular list *)
Definition rd_cx_l : value := VMap [("f", VMap [("a", VInt 1)])].
Definition rd_cx_r : value := VMap [("f", VList [VStr "x"])].
(* (2) null against granular list *)
Definition rd_cx_l2 : value := VMap [("f", VNull)].

Ltac rd_cx_cases H :=
  unfold rd_cx_R in H; simpl in H;
  repeat (destruct H as [H|H]; [symmetry in H; subst|]); [..|destruct H].

Lemma rd_cx_schema_ok : schema_ok [] rd_cx_R.
Proof.
  constructor.
  - intros tr a t H Hres Ha. rd_cx_cases H; simpl in Hres; inversion Hres; subst a;
      simpl in Ha; inversion Ha; subst t; unfold rd_cx_R; simpl; auto.
  - intros tr a m k H Hres Ha. rd_cx_cases H; simpl in Hres; inversion Hres; subst a;
      simpl in Ha; inversion Ha; subst m; unfold rd_cx_R, field_type; simpl; auto.
  - intros tr a H Hres. rd_cx_cases H; simpl in Hres; inversion Hres; subst a; reflexivity.
Qed.

Lemma rd_cx_family_refs : family_refs [] rd_cx_R.
Proof.
  intros tr a t H Hres Ha. rd_cx_cases H; simpl in Hres; inversion Hres; subst a;
    simpl in Ha; inversion Ha; subst t; simpl; auto.
Qed.

Lemma rd_cx_root_R : rd_cx_R rd_cx_root.
Proof. unfold rd_cx_R. simpl. auto. Qed.

(* the disagreements, computed *)
Example rd_cx_walker_1 :
  snd (compare_w (merge_fuel rd_cx_l rd_cx_r) [] rd_cx_root [] (Some rd_cx_l) (Some rd_cx_r)) =
  mkCmp [[PEField "f"; PEField "a"]] [] [[PEField "f"; PEValue (VStr "x")]].
Proof. vm_compute. reflexivity. Qed.
Example rd_cx_ref_1 :
  ref_diff [] rd_cx_root rd_cx_l rd_cx_r =
  mkRD [[PEField "f"; PEField "a"]] [[PEField "f"]] [[PEField "f"; PEValue (VStr "x")]].
Proof. vm_compute. reflexivity. Qed.

Example rd_cx_walker_2 :
  snd (compare_w (merge_fuel rd_cx_l2 rd_cx_r) [] rd_cx_root [] (Some rd_cx_l2) (Some rd_cx_r)) =
  mkCmp [] [[PEField "f"]] [[PEField "f"; PEValue (VStr "x")]].
Proof. vm_compute. reflexivity. Qed.
Example rd_cx_ref_2 :
  ref_diff [] rd_cx_root rd_cx_l2 rd_cx_r = mkRD [] [] [[PEField "f"; PEValue (VStr "x")]].
Proof. vm_compute. reflexivity. Qed.

Definition refines_statement : Prop :=
  forall s R tr l r c,
    schema_ok s R -> family_refs s R -> R tr ->
    wf_value l = true -> wf_value r = true ->
    conforms s tr true l = true -> conforms s tr true r = true ->
    compare s tr l r = Some c ->
    forall p, wf_path p = true -> p <> [] ->
      ps_has p (removed c) = pmem p (rd_removed (ref_diff s tr l r)) /\
      ps_has p (modified c) = pmem p (rd_modified (ref_diff s tr l r)) /\
      ps_has p (added c) = pmem p (rd_added (ref_diff s tr l r)).

(* (1): the walker does not report [f] as modified, ref_diff does *)
Theorem compare_refines_ref_diff_refuted : ~ refines_statement.
Proof.
  intros H.
  destruct (compare [] rd_cx_root rd_cx_l rd_cx_r) as [c|] eqn:Ec; [|vm_compute in Ec; discriminate Ec].
  assert (Hne : [PEField "f"] <> []) by discriminate.
  destruct (H [] rd_cx_R rd_cx_root rd_cx_l rd_cx_r c rd_cx_schema_ok rd_cx_family_refs rd_cx_root_R
              eq_refl eq_refl eq_refl eq_refl Ec [PEField "f"] eq_refl Hne) as (_ & Hm & _).
  vm_compute in Ec. inversion Ec; subst c. vm_compute in Hm. discriminate Hm.
Qed.

(* (2): the walker reports [f] as modified, ref_diff does not *)
Theorem compare_refines_ref_diff_refuted_null : ~ refines_statement.
Proof.
  intros H.
  destruct (compare [] rd_cx_root rd_cx_l2 rd_cx_r) as [c|] eqn:Ec; [|vm_compute in Ec; discriminate Ec].
  assert (Hne : [PEField "f"] <> []) by discriminate.
  destruct (H [] rd_cx_R rd_cx_root rd_cx_l2 rd_cx_r c rd_cx_schema_ok rd_cx_family_refs rd_cx_root_R
              eq_refl eq_refl eq_refl eq_refl Ec [PEField "f"] eq_refl Hne) as (_ & Hm & _).
  vm_compute in Ec. inversion Ec; subst c. vm_compute in Hm. discriminate Hm.
Qed.

(* ------------------------------------------------------------------ *)
(* satisfiability of the extra hypothesis: the example schema *)
Example ex_lists_pure : lists_pure ex_schema ex_R.
Proof.
  intros tr sc t ma H Hres Hna. ex_cases H; vm_compute in Hres; inversion Hres; subst; auto.
Qed.

