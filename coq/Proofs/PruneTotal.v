(* The prune stage of Apply SUCCEEDS (single version, identity converter): the fuel of the
   add-back loop suffices whatever the order oracle [cfg_version_order] returns, every
   [to_field_set] succeeds, and the result has the shape of Proofs/PruneShape.v.

   Termination.  After the first pass the pruned object is  P = remove M T  for a set T that
   is nice for M, mentions only nodes of M that nobody owns, and avoids the configuration
   ([good]).  One more pass maps T to  pass_T T  which contains T; hence the number mu(P) of
   members of  ps_elems (node_set M)  that are present in P does not increase along a pass
   [pass_mu_le], and if it stays the same the pass returns the very same object
   [pass_mu_eq] (the two sets touch the same paths of M: Proofs/RemoveExt.v).  A later round
   is repeated only if the object differs (veqb) from what the previous round left, so mu
   strictly decreases from round to round; mu <= |node_set M| < value_size M. *)
From Coq Require Import List ZArith String Bool Arith Lia.
From SMD Require Import Model.Value Model.Order Model.PathElem Model.PathSet Model.Schema Model.Walk
  Model.Validate Model.FieldSet Model.Remove Model.Merge Model.Compare Model.Matcher Model.Reconcile
  Model.Updater
  Spec.PathsAsSets Spec.RefValid Spec.Resolve Spec.Agree Spec.Examples
  Proofs.OrderLaws Proofs.PathSetLaws Proofs.SchemaOk Proofs.FieldSetBase Proofs.FieldSetPaths
  Proofs.FieldSetWf Proofs.FieldSetLaws Proofs.RemoveAbsent Proofs.RemoveWf Proofs.ResolveLaws
  Proofs.UpdaterLaws Proofs.UpdaterLaws2 Proofs.MergeLaws Proofs.MergeAgree
  Proofs.RemoveFrame Proofs.EnLaws Proofs.NodeSet Proofs.KeyFields Proofs.VeqbResolve
  Proofs.SetCheckers Proofs.ApplyEffect Proofs.PruneShape Proofs.NodeCount Proofs.RemoveExt
  Proofs.TrieElems Proofs.ReconcileBase Proofs.ReconcileLaws.
Import ListNotations.
Open Scope bool_scope.
Open Scope list_scope.

Local Arguments ps_has : simpl never.
Local Arguments ps_with_prefix : simpl never.
Local Arguments ps_empty : simpl never.

(* ================= counting with filter ================= *)

Lemma filter_len_le_all : forall (A : Type) (f : A -> bool) (l : list A),
  List.length (filter f l) <= List.length l.
Proof.
  intros A f l. induction l as [|x l IH]; [simpl; lia|].
  simpl. destruct (f x); simpl; lia.
Qed.

Lemma filter_len_le : forall (A : Type) (f g : A -> bool) (l : list A),
  (forall x, In x l -> f x = true -> g x = true) ->
  List.length (filter f l) <= List.length (filter g l).
Proof.
  intros A f g l. induction l as [|x l IH]; intros H; [simpl; lia|].
  assert (IH' : List.length (filter f l) <= List.length (filter g l)).
  { apply IH. intros y Hy. apply H. right. exact Hy. }
  simpl. destruct (f x) eqn:Ef.
  - rewrite (H x (or_introl eq_refl) Ef). simpl. lia.
  - destruct (g x); simpl; lia.
Qed.

Lemma filter_len_eq : forall (A : Type) (f g : A -> bool) (l : list A),
  (forall x, In x l -> f x = true -> g x = true) ->
  List.length (filter f l) = List.length (filter g l) ->
  forall x, In x l -> f x = g x.
Proof.
  intros A f g l. induction l as [|x l IH]; intros H Hlen y Hy; [destruct Hy|].
  assert (Hsub : forall z, In z l -> f z = true -> g z = true).
  { intros z Hz. apply H. right. exact Hz. }
  pose proof (filter_len_le A f g l Hsub) as Hle.
  simpl in Hlen. destruct (f x) eqn:Ef.
  - rewrite (H x (or_introl eq_refl) Ef) in Hlen. simpl in Hlen.
    destruct Hy as [->|Hy].
    + rewrite Ef. symmetry. apply (H y (or_introl eq_refl) Ef).
    + apply IH; auto.
  - destruct (g x) eqn:Eg.
    + simpl in Hlen. lia.
    + destruct Hy as [->|Hy]; [congruence|]. apply IH; auto.
Qed.

Section Total.
  Variables (s : schema) (R : typeref -> Prop) (tr : typeref).
  Hypothesis Hok : schema_ok s R.
  Hypothesis Hfam : family_refs s R.
  Hypothesis Htr : R tr.
  Hypothesis Hnd : keys_nodefault s R.
  Hypothesis Hks : keys_scalar s R.

  Variables (live cfg M : value).
  Hypothesis Hwl : wf_value live = true.
  Hypothesis Hwc : wf_value cfg = true.
  Hypothesis Hcc : conforms s tr false cfg = true.
  Hypothesis Hpl : plain cfg = true.
  Hypothesis Hroot : granular s tr cfg.
  Hypothesis HwM : wf_value M = true.
  Hypothesis HcM : conforms s tr true M = true.
  Hypothesis Hagr : AgrP s tr cfg M.
  Hypothesis Hlf : LeafP s tr (Some live) (Some cfg) M.

  Variables (set0 U : pset).
  Hypothesis Hset0 : to_field_set s tr cfg = Some set0.
  Hypothesis HU : ps_ok U = true.
  Hypothesis HUcfg : forall q, wf_path q = true -> ps_has q set0 = true -> ps_has q U = true.
  Hypothesis HUown : forall q, wf_path q = true -> ps_has q U = true ->
    ps_has q set0 = true \/
    exists S, ps_ok S = true /\ owns_live_keys s tr live S /\ ps_has q S = true /\
              forall q', wf_path q' = true -> ps_has q' S = true -> ps_has q' U = true.

  Variables (c : config) (ver : string).
  Hypothesis Hcid : conv_id c.
  Hypothesis Hsch : schema_of c ver = s.
  Hypothesis Htrr : tr_of c ver = tr.

  Let passT (T0 : pset) : pset := pass_T s tr M U T0.
  Let rm (T : pset) : value := remove s tr M T.

  Let HokM : ps_ok (node_set s tr M) = true := node_set_ok s R Hok tr M Htr HwM.

  (* ================= the invariant of the pruned object after the first pass ================= *)

  (* every member of T is a node of M that nobody owns *)
  Definition unowned_nodes (T : pset) : Prop :=
    forall q, wf_path q = true -> ps_has q T = true ->
      ps_has q (node_set s tr M) = true /\ ps_has q (ps_en s tr U) = false.

  Definition good (T : pset) : Prop :=
    nice s tr M T /\ sub_present s tr M T /\ avoids s tr cfg T /\ unowned_nodes T.

  Lemma rm_obj : forall T, nice s tr M T ->
    wf_value (rm T) = true /\ conforms s tr true (rm T) = true.
  Proof.
    intros T Hn. apply (removed_obj s R tr Hok Hfam Htr Hnd M HwM HcM T Hn).
  Qed.

  Lemma pass_has : forall T0, nice s tr M T0 ->
    ps_ok (passT T0) = true /\
    (forall q, wf_path q = true ->
       ps_has q (passT T0) = ps_has q (node_set s tr M) &&
                             negb (ps_has q (node_set s tr (rm T0)) || ps_has q (ps_en s tr U))) /\
    nice s tr M (passT T0).
  Proof.
    intros T0 Hn0.
    apply (pass_set s R tr Hok Hfam Htr Hnd Hks live cfg M Hwc Hcc Hpl HwM HcM Hlf set0 U
             Hset0 HU HUcfg HUown T0 Hn0).
  Qed.

  (* a pass from the removal of ANY nice set establishes the invariant *)
  Lemma pass_good : forall T0, nice s tr M T0 -> good (passT T0).
  Proof.
    intros T0 Hn0. destruct (pass_has T0 Hn0) as (HokT & Hhas & Hn).
    split; [exact Hn|]. split; [|split].
    - intros q Hq Hq1. rewrite (Hhas q Hq) in Hq1. apply andb_true_iff in Hq1.
      apply (node_set_present s R Hok Hfam tr M q Htr HwM HcM Hq). apply Hq1.
    - intros q c0 Hq Hne Hres. destruct (touches q (passT T0)) eqn:Et; [|reflexivity]. exfalso.
      apply (touches_iff q (passT T0) HokT Hq) in Et. destruct Et as (n & Hn' & Hmem).
      assert (Hq' : wf_path (firstn n q) = true) by (apply ReconcileBase.wf_path_firstn; exact Hq).
      assert (Hne' : firstn n q <> []).
      { apply firstn_nonnil; [lia|exact Hne]. }
      assert (Hres' : exists c', resolve_path s tr cfg (firstn n q) = Some c').
      { rewrite <- (firstn_skipn n q) in Hres. rewrite resolve_path_app in Hres.
        destruct (resolve_path s tr cfg (firstn n q)) as [c'|]; [eauto|discriminate]. }
      destruct Hres' as (c' & Hres').
      rewrite (Hhas _ Hq'),
        (cfg_nodes_in_U s R tr Hok Hfam Htr cfg Hwc Hcc Hpl set0 U Hset0 HU HUcfg _ c' Hq' Hne' Hres'),
        orb_true_r, andb_false_r in Hmem.
      discriminate.
    - intros q Hq Hq1. rewrite (Hhas q Hq) in Hq1. apply andb_true_iff in Hq1.
      destruct Hq1 as [H1 H2]. apply negb_true_iff in H2. apply orb_false_iff in H2.
      split; [exact H1|apply H2].
  Qed.

  (* nothing at a member of T survives the removal of T *)
  Lemma member_dropped : forall T q, nice s tr M T -> wf_path q = true -> ps_has q T = true ->
    present s tr (rm T) q = false.
  Proof.
    intros T q Hn Hq Hmem. unfold rm, remove.
    apply (remove_drops s R Hok Hfam Hnd q M tr true T Htr HwM HcM Hn Hq).
    apply (touches_self q T (n_ok _ _ _ _ Hn) Hq Hmem).
  Qed.

  (* (a) the set grows along a pass *)
  Lemma pass_grows : forall T, good T -> forall q, wf_path q = true ->
    ps_has q T = true -> ps_has q (passT T) = true.
  Proof.
    intros T (Hn & Hsp & Hav & Hun) q Hq Hmem.
    destruct (pass_has T Hn) as (HokT & Hhas & Hn').
    destruct (rm_obj T Hn) as [HwP HcP].
    destruct (Hun q Hq Hmem) as [HinM HnotU].
    rewrite (Hhas q Hq), HinM, HnotU, orb_false_r. cbn [andb]. apply negb_true_iff.
    destruct (ps_has q (node_set s tr (rm T))) eqn:E; [|reflexivity].
    pose proof (node_set_present s R Hok Hfam tr (rm T) q Htr HwP HcP Hq E) as Hpr.
    rewrite (member_dropped T q Hn Hq Hmem) in Hpr. discriminate.
  Qed.

  Lemma touches_mono : forall T T', ps_ok T = true -> ps_ok T' = true ->
    (forall q, wf_path q = true -> ps_has q T = true -> ps_has q T' = true) ->
    forall q, wf_path q = true -> touches q T = true -> touches q T' = true.
  Proof.
    intros T T' HT HT' Hsub q Hq Ht.
    apply (touches_iff q T HT Hq) in Ht. destruct Ht as (n & Hn & Hmem).
    apply (touches_iff q T' HT' Hq). exists n. split; [exact Hn|].
    apply Hsub; [apply ReconcileBase.wf_path_firstn; exact Hq|exact Hmem].
  Qed.

  (* a path of M that T does not touch is still there after the removal of T *)
  Lemma untouched_kept : forall T q, nice s tr M T -> wf_path q = true ->
    present s tr M q = true -> touches q T = false -> present s tr (rm T) q = true.
  Proof.
    intros T q Hn Hq Hpr Ht. destruct q as [|e q'].
    - reflexivity.
    - unfold present in Hpr.
      destruct (resolve_path s tr M (e :: q')) as [nd|] eqn:Eres; [|discriminate].
      assert (Hne : e :: q' <> []) by discriminate.
      destruct (remove_keeps s R Hok Hfam Hnd (e :: q') M tr true T nd Htr HwM HcM Hn Hq Hne Eres Ht)
        as (n' & Hn' & _).
      unfold present, rm, remove. rewrite Hn'. reflexivity.
  Qed.

  Lemma touched_dropped : forall T q, nice s tr M T -> wf_path q = true ->
    touches q T = true -> present s tr (rm T) q = false.
  Proof.
    intros T q Hn Hq Ht. unfold rm, remove.
    apply (remove_drops s R Hok Hfam Hnd q M tr true T Htr HwM HcM Hn Hq Ht).
  Qed.

  (* (b) what is present after one more pass was present before it *)
  Lemma pass_present_mono : forall T q, good T -> wf_path q = true ->
    present s tr M q = true ->
    present s tr (rm (passT T)) q = true -> present s tr (rm T) q = true.
  Proof.
    intros T q HT Hq HprM Hpr'.
    pose proof HT as (Hn & Hsp & Hav & Hun).
    destruct (pass_has T Hn) as (HokT & Hhas & Hn').
    apply (untouched_kept T q Hn Hq HprM).
    destruct (touches q T) eqn:Et; [|reflexivity]. exfalso.
    pose proof (touches_mono T (passT T) (n_ok _ _ _ _ Hn) HokT (pass_grows T HT) q Hq Et) as Et'.
    rewrite (touched_dropped (passT T) q Hn' Hq Et') in Hpr'. discriminate.
  Qed.

  (* the measure: the nodes of M that the object still has *)
  Definition mu (P : value) : nat :=
    List.length (filter (fun q => present s tr P q) (ps_elems (node_set s tr M))).

  Lemma elem_facts : forall q, In q (ps_elems (node_set s tr M)) ->
    wf_path q = true /\ ps_has q (node_set s tr M) = true /\ present s tr M q = true.
  Proof.
    intros q Hin.
    pose proof (ps_elems_wf (node_set s tr M) HokM) as Hwf. rewrite forallb_forall in Hwf.
    pose proof (Hwf q Hin) as Hq.
    assert (Hmem : ps_has q (node_set s tr M) = true).
    { rewrite (ps_has_elems (node_set s tr M) q HokM Hq). apply pmem_true.
      exists q. split; [exact Hin|apply patheqb_refl; exact Hq]. }
    split; [exact Hq|]. split; [exact Hmem|].
    apply (node_set_present s R Hok Hfam tr M q Htr HwM HcM Hq Hmem).
  Qed.

  Lemma mu_bound : forall P, mu P < value_size M.
  Proof.
    intros P. unfold mu.
    pose proof (filter_len_le_all path (fun q => present s tr P q) (ps_elems (node_set s tr M))) as H1.
    pose proof (node_set_size s R Hok Hfam tr M Htr HwM HcM) as H2. lia.
  Qed.

  Lemma pass_mu_le : forall T, good T -> mu (rm (passT T)) <= mu (rm T).
  Proof.
    intros T HT. unfold mu. apply filter_len_le. intros q Hin Hpr.
    destruct (elem_facts q Hin) as (Hq & _ & HprM).
    apply (pass_present_mono T q HT Hq HprM Hpr).
  Qed.

  (* (c) a pass that keeps the measure returns the same object *)
  Lemma pass_mu_eq : forall T, good T -> mu (rm (passT T)) = mu (rm T) -> rm (passT T) = rm T.
  Proof.
    intros T HT Hmu.
    pose proof HT as (Hn & Hsp & Hav & Hun).
    destruct (pass_has T Hn) as (HokT & Hhas & Hn').
    destruct (pass_good T Hn) as (_ & Hsp' & _ & _).
    pose proof (n_ok _ _ _ _ Hn) as HTok.
    assert (Hpt : forall q, In q (ps_elems (node_set s tr M)) ->
              present s tr (rm (passT T)) q = present s tr (rm T) q).
    { intros q Hin.
      apply (filter_len_eq path (fun q => present s tr (rm (passT T)) q)
               (fun q => present s tr (rm T) q) (ps_elems (node_set s tr M))); auto.
      intros x Hx Hpr. destruct (elem_facts x Hx) as (Hq & _ & HprM).
      apply (pass_present_mono T x HT Hq HprM Hpr). }
    unfold rm, remove.
    apply (remove_ext s R Hok Hfam M tr true (passT T) T Htr HwM HcM HokT HTok Hsp' Hsp).
    intros q Hq Hne HprM.
    destruct (touches q T) eqn:Et.
    - apply (touches_mono T (passT T) HTok HokT (pass_grows T HT) q Hq Et).
    - destruct (touches q (passT T)) eqn:Et'; [|reflexivity]. exfalso.
      apply (touches_iff q (passT T) HokT Hq) in Et'. destruct Et' as (n & Hn1 & Hmem).
      set (q' := firstn n q) in *.
      assert (Hq' : wf_path q' = true) by (apply ReconcileBase.wf_path_firstn; exact Hq).
      assert (Hsplit : q = q' ++ skipn n q) by (symmetry; apply firstn_skipn).
      assert (Etq' : touches q' T = false).
      { destruct (touches q' T) eqn:E; [|reflexivity].
        assert (Hwapp : wf_path (q' ++ skipn n q) = true) by (rewrite <- Hsplit; exact Hq).
        pose proof (touches_app q' (skipn n q) T HTok Hwapp E) as Happ.
        rewrite <- Hsplit, Et in Happ. discriminate. }
      pose proof (Hsp' q' Hq' Hmem) as HprM'.
      pose proof (untouched_kept T q' Hn Hq' HprM' Etq') as Hkept.
      pose proof (member_dropped (passT T) q' Hn' Hq' Hmem) as Hdropped.
      assert (HinM : ps_has q' (node_set s tr M) = true).
      { rewrite (Hhas q' Hq') in Hmem. apply andb_true_iff in Hmem. apply Hmem. }
      rewrite (ps_has_elems (node_set s tr M) q' HokM Hq') in HinM.
      apply pmem_true in HinM. destruct HinM as (q1 & Hin1 & Heq1).
      destruct (elem_facts q1 Hin1) as (Hq1 & _ & _).
      destruct (rm_obj T Hn) as [HwP _]. destruct (rm_obj (passT T) Hn') as [HwP' _].
      rewrite (present_patheqb s R Hok q' q1 Heq1 Hq' Hq1 (rm T) tr Htr HwP) in Hkept.
      rewrite (present_patheqb s R Hok q' q1 Heq1 Hq' Hq1 (rm (passT T)) tr Htr HwP') in Hdropped.
      rewrite (Hpt q1 Hin1), Hkept in Hdropped. discriminate.
  Qed.

  (* ================= the add-back loop, computed ================= *)

  Let to_fs_v := to_fs_ver s tr c ver Hsch Htrr.
  Let en_v := en_ver s tr c ver Hsch Htrr.
  Let remove_tv_v := remove_tv_ver s tr c ver Hsch Htrr.
  Let convert_i := convert_id c Hcid.

  Lemma fs_M : exists SM, to_field_set s tr M = Some SM /\ ps_en s tr SM = node_set s tr M.
  Proof.
    destruct (to_field_set_ok_family s R tr M Hok Htr Hfam HwM HcM) as (SM & ESM & _).
    exists SM. split; [exact ESM|].
    apply (to_field_set_node_set s R tr M SM Htr HwM HcM ESM).
  Qed.

  Lemma fs_rm : forall T, nice s tr M T ->
    exists SP, to_field_set s tr (rm T) = Some SP /\ ps_en s tr SP = node_set s tr (rm T).
  Proof.
    intros T Hn. destruct (rm_obj T Hn) as [HwP HcP].
    destruct (to_field_set_ok_family s R tr (rm T) Hok Htr Hfam HwP HcP) as (SP & ESP & _).
    exists SP. split; [exact ESP|].
    apply (to_field_set_node_set s R tr (rm T) SP Htr HwP HcP ESP).
  Qed.

  (* one pass of addBackOwnedItemsForVersion succeeds *)
  Lemma afv_ok : forall n T, nice s tr M T ->
    exists added n',
      add_back_for_version c n (ver, M) (ver, rm T) ver U
      = UOk ((ver, M), (ver, rm (passT T)), added, n').
  Proof.
    intros n T Hn.
    destruct fs_M as (SM & ESM & HSM).
    destruct (fs_rm T Hn) as (SP & ESP & HSP).
    destruct (pass_has T Hn) as (_ & _ & Hn').
    destruct (fs_rm (passT T) Hn') as (SN & ESN & _).
    unfold add_back_for_version. rewrite !convert_i. cbn [snd].
    rewrite !to_fs_v. rewrite ESM, ESP.
    rewrite !en_v, remove_tv_v. rewrite to_fs_v.
    rewrite HSM, HSP.
    change (remove s tr M (ps_diff (node_set s tr M)
              (ps_union (node_set s tr (rm T)) (ps_en s tr U)))) with (rm (passT T)).
    rewrite ESN. eexists. eexists. reflexivity.
  Qed.

  (* the passes of one round, from an object that satisfies the invariant *)
  Lemma round_ok : forall vs n T ch, good T ->
    exists T' ch' n',
      fold_left (ab_step U c ver) vs (UOk ((ver, M), (ver, rm T), ch, n))
      = UOk ((ver, M), (ver, rm T'), ch', n') /\
      good T' /\ mu (rm T') <= mu (rm T) /\ (mu (rm T') = mu (rm T) -> rm T' = rm T).
  Proof.
    induction vs as [|v vs IH]; intros n T ch HT.
    - exists T, ch, n. split; [reflexivity|]. split; [exact HT|]. split; [lia|]. intros _. reflexivity.
    - cbn [fold_left]. unfold ab_step at 2. cbn [assoc_get].
      destruct (String.eqb v ver) eqn:Ev.
      + apply String.eqb_eq in Ev. subst v.
        pose proof HT as (Hn & _).
        destruct (afv_ok n T Hn) as (added & n1 & Eafv). rewrite Eafv.
        destruct (IH n1 (passT T) (ch || added) (pass_good T Hn))
          as (T' & ch' & n' & Er & HT' & Hle & Heq).
        exists T', ch', n'. split; [exact Er|]. split; [exact HT'|].
        pose proof (pass_mu_le T HT) as Hle1.
        split; [lia|]. intros Hmu.
        assert (Hmu1 : mu (rm (passT T)) = mu (rm T)) by lia.
        rewrite (Heq ltac:(lia)). apply (pass_mu_eq T HT Hmu1).
      + apply (IH n T ch HT).
  Qed.

  (* (d) the later rounds: the measure bounds the number of rounds *)
  Definition rounds_good (r : ures (tv * nat)) : Prop :=
    exists T' n', r = UOk ((ver, rm T'), n') /\ good T'.

  Lemma rounds_ok : forall fuel os n T, good T -> mu (rm T) < fuel ->
    rounds_good
      (add_back_rounds fuel c [(ver, U)] (ver :: os) n (ver, M) (ver, rm T) (Some (ver, rm T))).
  Proof.
    induction fuel as [|fuel IH]; intros os n T HT Hmu; [lia|].
    cbn [add_back_rounds]. rewrite (add_back_round_fold U c ver).
    destruct (round_ok (ver :: os) n T false HT) as (T1 & ch1 & n1 & Er & HT1 & Hle & Heq).
    match goal with |- context [fold_left ?f ?l ?a] =>
      replace (fold_left f l a) with (UOk ((ver, M), (ver, rm T1), ch1, n1) : ures (tv * tv * bool * nat))
        by (symmetry; exact Er)
    end.
    cbv beta iota.
    destruct (ch1 && Nat.leb 2 (List.length (ver :: os))).
    - cbn [snd]. destruct (veqb (rm T) (rm T1)) eqn:Ev.
      + exists T1, n1. split; [reflexivity|exact HT1].
      + apply (IH os n1 T1 HT1).
        assert (Hneq : mu (rm T1) <> mu (rm T)).
        { intros Hm. rewrite (Heq Hm) in Ev.
          pose proof HT as (Hn & _). destruct (rm_obj T Hn) as [HwP _].
          rewrite (veqb_refl (rm T) HwP) in Ev. discriminate. }
        lia.
    - exists T1, n1. split; [reflexivity|exact HT1].
  Qed.

  (* the first round starts from the removal of any nice set (the closure of the applier's
     previous record); its first pass establishes the invariant *)
  Lemma first_round_ok : forall fuel os n T0, nice s tr M T0 -> value_size M <= fuel ->
    rounds_good
      (add_back_rounds (S fuel) c [(ver, U)] (ver :: os) n (ver, M) (ver, rm T0) None).
  Proof.
    intros fuel os n T0 Hn0 Hfuel.
    cbn [add_back_rounds]. rewrite (add_back_round_fold U c ver).
    cbn [fold_left]. unfold ab_step at 2. cbn [assoc_get]. rewrite String.eqb_refl.
    destruct (afv_ok n T0 Hn0) as (added & n1 & Eafv). rewrite Eafv.
    destruct (round_ok os n1 (passT T0) (false || added) (pass_good T0 Hn0))
      as (T1 & ch1 & n2 & Er & HT1 & Hle & _).
    match goal with |- context [fold_left ?f ?l ?a] =>
      replace (fold_left f l a) with (UOk ((ver, M), (ver, rm T1), ch1, n2) : ures (tv * tv * bool * nat))
        by (symmetry; exact Er)
    end.
    cbv beta iota.
    destruct (ch1 && Nat.leb 2 (List.length (ver :: os))).
    - apply (rounds_ok fuel os n2 T1 HT1). pose proof (mu_bound (rm T1)). lia.
    - exists T1, n2. split; [reflexivity|exact HT1].
  Qed.

  (* ================= the dangling-items stage ================= *)

  Lemma dangling_good : forall T1 lastS, good T1 -> ps_ok lastS = true -> keys_closed lastS ->
    nice s tr M (dangling_T s tr M T1 lastS) /\
    sub_present s tr M (dangling_T s tr M T1 lastS) /\
    avoids s tr cfg (dangling_T s tr M T1 lastS).
  Proof.
    intros T1 lastS (Hn1 & Hsp1 & Hav1 & _) Hlast Hkc.
    destruct (dangling_set s R tr Hok Hfam Htr Hnd Hks M HwM HcM T1 lastS Hn1 Hlast Hkc)
      as (HokT & Hhas & Hn2).
    destruct (rm_obj T1 Hn1) as [HwP HcP].
    assert (Hrootleaf : rnode_is_leaf s (RNode tr cfg) = false).
    { simpl. unfold granular in Hroot. destruct (kind_of s tr cfg); try contradiction; reflexivity. }
    assert (HagrP : AgrP s tr cfg (rm T1)).
    { apply (remove_frame s R Hok Hfam Hnd tr true cfg M T1 Htr HwM HcM Hn1 Hsp1 Hagr Hrootleaf Hav1). }
    split; [exact Hn2|]. split.
    - intros q Hq Hq1. rewrite (Hhas q Hq) in Hq1. apply andb_true_iff in Hq1. destruct Hq1 as [Hq1 _].
      apply andb_true_iff in Hq1.
      apply (node_set_present s R Hok Hfam tr M q Htr HwM HcM Hq). apply Hq1.
    - intros q c0 Hq Hne Hres.
      destruct (touches q (dangling_T s tr M T1 lastS)) eqn:Et; [|reflexivity]. exfalso.
      apply (touches_iff q _ HokT Hq) in Et. destruct Et as (n & Hn & Hmem).
      assert (Hq' : wf_path (firstn n q) = true) by (apply ReconcileBase.wf_path_firstn; exact Hq).
      assert (Hne' : firstn n q <> []) by (apply firstn_nonnil; [lia|exact Hne]).
      assert (Hres' : exists c', resolve_path s tr cfg (firstn n q) = Some c').
      { rewrite <- (firstn_skipn n q) in Hres. rewrite resolve_path_app in Hres.
        destruct (resolve_path s tr cfg (firstn n q)) as [c'|]; [eauto|discriminate]. }
      destruct Hres' as (c' & Hres').
      rewrite (Hhas _ Hq') in Hmem.
      fold (rm T1) in Hmem.
      rewrite (cfg_nodes_in_obj s R tr Hok Hfam Htr cfg Hwc Hcc Hpl (rm T1) _ c' HwP HcP HagrP Hq' Hne' Hres')
        in Hmem.
      rewrite andb_false_r in Hmem. discriminate.
  Qed.

  (* ================= the whole prune stage ================= *)

  Theorem prune_total : forall n mfp mgr last,
    managed_at_version mfp = [(ver, U)] ->
    (forall r, mf_get mgr mfp = Some r -> mr_ver r = ver) ->
    mr_ver last = ver -> ps_ok (mr_set last) = true -> applier_record_ok s tr (mr_set last) ->
    ps_empty (mr_set last) = false ->
    exists T1 n1,
      nice s tr M T1 /\ sub_present s tr M T1 /\ avoids s tr cfg T1 /\
      nice s tr M (dangling_T s tr M T1 (mr_set last)) /\
      sub_present s tr M (dangling_T s tr M T1 (mr_set last)) /\
      avoids s tr cfg (dangling_T s tr M T1 (mr_set last)) /\
      prune c n (ver, M) mfp mgr (Some last)
        = UOk ((ver, remove s tr M (dangling_T s tr M T1 (mr_set last))), n1).
  Proof.
    intros n mfp mgr last Hmav Htarget Hlv Hlok Hlrec Hne.
    assert (Hn0 : nice s tr M (ps_en s tr (mr_set last))).
    { apply (first_set_nice s R tr Hok Hfam Htr Hnd M HwM HcM (mr_set last) Hlok Hlrec). }
    destruct (first_round_ok (S (value_size M)) (cfg_version_order c []) (S n)
                (ps_en s tr (mr_set last)) Hn0 ltac:(lia))
      as (T1 & n2 & Erounds & HT1).
    pose proof HT1 as (Hn1 & Hsp1 & Hav1 & _).
    destruct (dangling_good T1 (mr_set last) HT1 Hlok (proj1 Hlrec)) as (Hn2 & Hsp2 & Hav2).
    exists T1. eexists.
    split; [exact Hn1|]. split; [exact Hsp1|]. split; [exact Hav1|].
    split; [exact Hn2|]. split; [exact Hsp2|]. split; [exact Hav2|].
    destruct fs_M as (SM & ESM & HSM).
    destruct (fs_rm T1 Hn1) as (S1 & ES1 & HS1).
    assert (Htv : (match mf_get mgr mfp with Some r => mr_ver r | None => ver end) = ver).
    { destruct (mf_get mgr mfp) as [r|] eqn:E; [apply Htarget; reflexivity|reflexivity]. }
    unfold prune. rewrite Hne.
    rewrite Hlv. rewrite convert_i. cbn [snd].
    rewrite en_v, remove_tv_v.
    unfold add_back_owned. rewrite Hmav. cbn [assoc_get assoc_remove map].
    rewrite String.eqb_refl. cbn [app snd].
    match goal with |- context [add_back_rounds ?fu ?cc ?mv ?o ?nn ?mm ?pp ?pv] =>
      replace (add_back_rounds fu cc mv o nn mm pp pv)
        with (UOk ((ver, rm T1), n2) : ures (tv * nat)) by (symmetry; exact Erounds)
    end.
    cbv beta iota.
    unfold add_back_dangling. rewrite Hlv, convert_i. cbn [fst snd].
    rewrite !to_fs_v. rewrite ES1, ESM.
    rewrite !en_v, remove_tv_v.
    rewrite Htv, convert_i. cbn [snd].
    rewrite HSM, HS1. reflexivity.
  Qed.
End Total.

