(* What the reference diff (Spec/RefDiff.v) says about the NODES of the two objects
   (Spec/Resolve.v), in both directions -- sharper than Proofs/RefDiffPresent.v:
     - an added path designates a node of the right-hand object that the left-hand object
       does not have, or has with the other multiplicity (single member vs group of
       duplicates); a removed path, symmetrically;
     - a modified path designates nodes of both objects: two groups of duplicates, or two
       single nodes that are not both maps / both lists and, when both leaves, differ;
     - a path that designates a single member on one side and a group of duplicates on
       the other is reported added.
   Used for the invariants of histories (Proofs/History.v).  Same structure as
   Proofs/RefDiffPresent.v. *)
From Coq Require Import List ZArith String Bool Arith Lia.
From SMD Require Import Model.Value Model.Order Model.PathElem Model.PathSet Model.Schema Model.Walk
  Model.Validate Model.Merge Model.Compare Spec.PathsAsSets Spec.RefValid Spec.Resolve Spec.RefDiff
  Proofs.OrderLaws Proofs.KeyLaws Proofs.ValidateLaws Proofs.SchemaOk Proofs.FieldSetBase Proofs.FieldSetPaths
  Proofs.CompareBase Proofs.CompareTotal Proofs.RefDiffBase Proofs.RefDiffOneSided Proofs.RefDiffBoth
  Proofs.RefDiffPresent Proofs.RefDiffLaws.
From SMD Require Proofs.ResolveLaws.
Import ListNotations.
Open Scope bool_scope.
Open Scope list_scope.

(* ---------- what two resolutions say ---------- *)
Definition isso (o : option rnode) : bool := match o with Some _ => true | None => false end.
Definition isdup (o : option rnode) : bool := match o with Some (RDup _ _) => true | _ => false end.

(* [ob] is a node that [oa] is not, or is with the other multiplicity *)
Definition one_side_o (oa ob : option rnode) : Prop :=
  isso ob = true /\ (isso oa = false \/ isdup oa <> isdup ob).

Definition mod_kinds (k1 k2 : vkind) (same : bool) : Prop :=
  match k1, k2 with
  | KLeaf, KLeaf => same = false
  | KMap _ _, KMap _ _ => False
  | KList _ _, KList _ _ => False
  | _, _ => True
  end.

Definition mod_o (s : schema) (oa ob : option rnode) : Prop :=
  match oa, ob with
  | Some (RNode t1 x), Some (RNode t2 y) => mod_kinds (kind_of s t1 x) (kind_of s t2 y) (veqb y x)
  | Some (RDup _ _), Some (RDup _ _) => True
  | _, _ => False
  end.

Section RDC.
  Variables (s : schema) (R : typeref -> Prop).
  Hypothesis Hok : schema_ok s R.
  Hypothesis Hfam : family_refs s R.
  Hypothesis Hpure : lists_pure s R.

  Notation rs := (resolve_path s).

  Definition sided_in (q : path) (tr : typeref) (a b : value) (L : list path) : Prop :=
    forall x, In x L ->
      exists p2, x = q ++ p2 /\ wf_path p2 = true /\ one_side_o (rs tr a p2) (rs tr b p2).

  Definition mod_in (q : path) (tr : typeref) (l r : value) (L : list path) : Prop :=
    forall x, In x L ->
      exists p2, x = q ++ p2 /\ wf_path p2 = true /\ mod_o s (rs tr l p2) (rs tr r p2).

  Definition mis_cov (q : path) (tr : typeref) (l r : value) (L : list path) : Prop :=
    forall p1, wf_path p1 = true -> p1 <> [] ->
      isso (rs tr l p1) = true -> isso (rs tr r p1) = true ->
      isdup (rs tr l p1) <> isdup (rs tr r p1) ->
      exists p2, patheqb p1 p2 = true /\ In (q ++ p2) L.

  Definition rd_char (q : path) (tr : typeref) (l r : value) (D : rdiff) : Prop :=
    sided_in q tr l r (rd_added D) /\ sided_in q tr r l (rd_removed D) /\
    mod_in q tr l r (rd_modified D) /\ mis_cov q tr l r (rd_added D).

  Lemma sided_in_nil : forall q tr a b, sided_in q tr a b [].
  Proof. intros q tr a b x []. Qed.
  Lemma mod_in_nil : forall q tr a b, mod_in q tr a b [].
  Proof. intros q tr a b x []. Qed.

  Lemma sided_in_app : forall q tr a b L1 L2, sided_in q tr a b L1 -> sided_in q tr a b L2 ->
    sided_in q tr a b (L1 ++ L2).
  Proof. intros q tr a b L1 L2 H1 H2 x Hx. apply in_app_or in Hx. destruct Hx; auto. Qed.

  (* ---------- node enumeration ---------- *)
  Lemma nodes_res : forall f v tr q x, R tr -> wf_value v = true ->
    In x (map fst (nodes_fuel f s tr v q)) ->
    exists p2, x = q ++ p2 /\ p2 <> [] /\ wf_path p2 = true /\ isso (rs tr v p2) = true.
  Proof.
    intros f v tr q x Htr Hwf Hx. apply in_map_iff in Hx. destruct Hx as ([p b] & E & Hin).
    simpl in E. subst p.
    destruct (ResolveLaws.nodes_fuel_sound s R Hok _ _ _ _ _ _ Htr Hwf Hin)
      as (p' & Hp & Hne & Hwp & n & Hres & _).
    exists p'. split; [exact Hp|]. split; [exact Hne|]. split; [exact Hwp|]. rewrite Hres. reflexivity.
  Qed.

  (* every node of v, beneath q, against an object that has nothing there *)
  Lemma nodes_sided : forall f v w tr q, R tr -> wf_value v = true ->
    (forall p2, p2 <> [] -> rs tr w p2 = None) ->
    sided_in q tr w v (map fst (nodes_fuel f s tr v q)).
  Proof.
    intros f v w tr q Htr Hwf Hnone x Hx.
    destruct (nodes_res f v tr q x Htr Hwf Hx) as (p2 & E & Hne & W & P).
    exists p2. split; [exact E|]. split; [exact W|]. split; [exact P|].
    left. rewrite (Hnone p2 Hne). reflexivity.
  Qed.

  (* ---------- how a value is seen one step down ---------- *)
  Definition map_viewR (tr : typeref) (v : value) (t : mapT) (m : list (string * value)) : Prop :=
    forall e rest, rs tr v (e :: rest) =
      match e with
      | PEField k =>
          match assoc_get k m with Some c => rs (field_type t k) c rest | None => None end
      | _ => None
      end.

  Definition list_viewR (tr : typeref) (v : value) (t : listT) (l : list value) : Prop :=
    forall e rest, wf_pe e = true -> rs tr v (e :: rest) =
      match occ s t e l with
      | [] => None
      | [x] => rs (list_elem t) x rest
      | xs => match rest with [] => Some (RDup (list_elem t) xs) | _ => None end
      end.

  Lemma map_viewR_kind : forall tr v t m, kind_of s tr v = KMap t m -> map_viewR tr v t m.
  Proof.
    intros tr v t m Ek e rest. destruct e as [k|k|k|k];
      try (rewrite (resolve_path_map_other _ _ _ _ _ _ _ Ek) by exact I; reflexivity).
    rewrite (resolve_path_map _ _ _ _ _ _ _ Ek). reflexivity.
  Qed.

  Lemma map_viewR_leaf : forall tr v t, kind_of s tr v = KLeaf -> map_viewR tr v t [].
  Proof.
    intros tr v t Ek e rest. rewrite resolve_path_leaf by (rewrite Ek; exact I).
    destruct e; reflexivity.
  Qed.

  Lemma list_viewR_kind : forall tr v t l, R tr -> wf_value v = true -> kind_of s tr v = KList t l ->
    forallb (has_pe s t) l = true -> list_viewR tr v t l.
  Proof.
    intros tr v t l Htr Hwf Ek Hh e rest He.
    rewrite (ResolveLaws.resolve_path_list_occ s R Hok tr v t l e rest Htr Hwf Ek He), Hh.
    cbn [andb]. destruct (is_keyval e) eqn:Ekv.
    - destruct (occ s t e l) as [|x [|y more]]; reflexivity.
    - rewrite (occ_not_keyval s t e l Ekv). reflexivity.
  Qed.

  Lemma list_viewR_leaf : forall tr v t, kind_of s tr v = KLeaf -> list_viewR tr v t [].
  Proof.
    intros tr v t Ek e rest He. rewrite resolve_path_leaf by (rewrite Ek; exact I).
    rewrite occ_nil. reflexivity.
  Qed.

  Lemma leaf_none : forall tr v p2, kind_of s tr v = KLeaf -> p2 <> [] -> rs tr v p2 = None.
  Proof.
    intros tr v p2 Ek Hne. destruct p2 as [|e rest]; [contradiction Hne; reflexivity|].
    apply resolve_path_leaf. rewrite Ek. exact I.
  Qed.

  Lemma leaf_mis : forall q tr l r L, kind_of s tr l = KLeaf \/ kind_of s tr r = KLeaf -> mis_cov q tr l r L.
  Proof.
    intros q tr l r L [Ek|Ek] p1 _ Hne Hl Hr _.
    - rewrite (leaf_none tr l p1 Ek Hne) in Hl. discriminate.
    - rewrite (leaf_none tr r p1 Ek Hne) in Hr. discriminate.
  Qed.

  (* the head of a one-sided diff and its nodes *)
  Lemma one_sided_added : forall ct v q, rd_added (one_sided true s ct v q) = q :: map fst (nodes_fuel (S (vdepth v)) s ct v q).
  Proof. reflexivity. Qed.
  Lemma one_sided_removed : forall ct v q, rd_removed (one_sided false s ct v q) = q :: map fst (nodes_fuel (S (vdepth v)) s ct v q).
  Proof. reflexivity. Qed.

  (* ---------- two maps ---------- *)
  Section Maps.
    Variable rrec : typeref -> path -> value -> value -> rdiff.
    Variables (q : path) (tr : typeref) (l r : value) (t : mapT) (lm rm : list (string * value)).
    Variables (nl nr : nat).
    Hypothesis Vl : map_viewR tr l t lm.
    Hypothesis Vr : map_viewR tr r t rm.
    Hypothesis Cl : forall k c, assoc_get k lm = Some c -> child_ok s R (field_type t k) c nl.
    Hypothesis Cr : forall k c, assoc_get k rm = Some c -> child_ok s R (field_type t k) c nr.
    Hypothesis IH : forall ct q' x y, child_ok s R ct x nl -> child_ok s R ct y nr ->
      rd_char q' ct x y (rrec ct q' x y).

    Let G := rd_map_G rrec s q t lm rm.

    (* a path beneath the field k, with the resolutions of the two sides *)
    Lemma map_lift : forall (P : option rnode -> option rnode -> Prop) k L
        (oa ob : path -> option rnode),
      (forall p2, rs tr l (PEField k :: p2) = oa p2) ->
      (forall p2, rs tr r (PEField k :: p2) = ob p2) ->
      (forall x, In x L -> exists p2, x = (q ++ [PEField k]) ++ p2 /\ wf_path p2 = true /\ P (oa p2) (ob p2)) ->
      forall x, In x L -> exists p2, x = q ++ p2 /\ wf_path p2 = true /\ P (rs tr l p2) (rs tr r p2).
    Proof.
      intros P k L oa ob Ha Hb H x Hx. destruct (H x Hx) as (p2 & E & W & HP).
      exists (PEField k :: p2). split; [rewrite E, <- app_assoc; reflexivity|].
      split; [apply wf_path_cons; split; [reflexivity|exact W]|].
      rewrite Ha, Hb. exact HP.
    Qed.

    Lemma one_sided_nodes : forall ct v qq, R ct -> wf_value v = true ->
      forall x, In x (qq :: map fst (nodes_fuel (S (vdepth v)) s ct v qq)) ->
        exists p2, x = qq ++ p2 /\ wf_path p2 = true /\ one_side_o None (rs ct v p2).
    Proof.
      intros ct v qq Hct Hwf x [E|Hx].
      - subst x. exists []. split; [rewrite app_nil_r; reflexivity|]. split; [reflexivity|].
        split; auto.
      - destruct (nodes_res _ v ct qq x Hct Hwf Hx) as (p2 & E & _ & W & P).
        exists p2. split; [exact E|]. split; [exact W|]. split; auto.
    Qed.

    Lemma mapG_added : forall k, sided_in q tr l r (rd_added (G k)).
    Proof.
      intros k. unfold G, rd_map_G.
      destruct (assoc_get k lm) as [c|] eqn:El; destruct (assoc_get k rm) as [y|] eqn:Er;
        try (intros x Hx; solve [destruct Hx]).
      - unfold sided_in. apply (map_lift one_side_o k _ (rs (field_type t k) c) (rs (field_type t k) y)).
        + intros p2. rewrite Vl, El. reflexivity.
        + intros p2. rewrite Vr, Er. reflexivity.
        + apply (IH _ _ c y (Cl k c El) (Cr k y Er)).
      - unfold sided_in. apply (map_lift one_side_o k _ (fun _ => None) (rs (field_type t k) y)).
        + intros p2. rewrite Vl, El. reflexivity.
        + intros p2. rewrite Vr, Er. reflexivity.
        + destruct (Cr k y Er) as (H1 & H2 & _). rewrite one_sided_added. intros x Hx.
          apply (one_sided_nodes _ y _ H1 H2 x Hx).
    Qed.

    Lemma mapG_removed : forall k, sided_in q tr r l (rd_removed (G k)).
    Proof.
      intros k. unfold G, rd_map_G.
      destruct (assoc_get k lm) as [c|] eqn:El; destruct (assoc_get k rm) as [y|] eqn:Er;
        try (intros x Hx; solve [destruct Hx]).
      - unfold sided_in.
        apply (map_lift (fun a b => one_side_o b a) k _ (rs (field_type t k) c) (rs (field_type t k) y)).
        + intros p2. rewrite Vl, El. reflexivity.
        + intros p2. rewrite Vr, Er. reflexivity.
        + apply (IH _ _ c y (Cl k c El) (Cr k y Er)).
      - unfold sided_in.
        apply (map_lift (fun a b => one_side_o b a) k _ (rs (field_type t k) c) (fun _ => None)).
        + intros p2. rewrite Vl, El. reflexivity.
        + intros p2. rewrite Vr, Er. reflexivity.
        + destruct (Cl k c El) as (H1 & H2 & _). rewrite one_sided_removed. intros x' Hx'.
          apply (one_sided_nodes _ c _ H1 H2 x' Hx').
    Qed.

    Lemma mapG_modified : forall k, mod_in q tr l r (rd_modified (G k)).
    Proof.
      intros k. unfold G, rd_map_G.
      destruct (assoc_get k lm) as [c|] eqn:El; destruct (assoc_get k rm) as [y|] eqn:Er;
        try (intros x Hx; solve [destruct Hx]).
      unfold mod_in. apply (map_lift (mod_o s) k _ (rs (field_type t k) c) (rs (field_type t k) y)).
      - intros p2. rewrite Vl, El. reflexivity.
      - intros p2. rewrite Vr, Er. reflexivity.
      - apply (IH _ _ c y (Cl k c El) (Cr k y Er)).
    Qed.

    Lemma maps_char : rd_char q tr l r (rd_maps rrec s q t lm rm).
    Proof.
      unfold rd_maps. fold G. split; [|split; [|split]].
      - intros x Hx. apply (rd_fold_in rd_added (fun a b => eq_refl)) in Hx.
        destruct Hx as [[]|(k & _ & Hx)]. apply (mapG_added k x Hx).
      - intros x Hx. apply (rd_fold_in rd_removed (fun a b => eq_refl)) in Hx.
        destruct Hx as [[]|(k & _ & Hx)]. apply (mapG_removed k x Hx).
      - intros x Hx. apply (rd_fold_in rd_modified (fun a b => eq_refl)) in Hx.
        destruct Hx as [[]|(k & _ & Hx)]. apply (mapG_modified k x Hx).
      - intros p1 Hw Hne Hl Hr Hd. destruct p1 as [|e rest]; [contradiction Hne; reflexivity|].
        apply wf_path_cons in Hw. destruct Hw as [He Hrest].
        rewrite Vl in Hl, Hd. rewrite Vr in Hr, Hd. destruct e as [k|k|k|k]; try discriminate.
        destruct (assoc_get k lm) as [c|] eqn:El; [|discriminate].
        destruct (assoc_get k rm) as [y|] eqn:Er; [|discriminate].
        destruct rest as [|e2 rest2]; [exfalso; apply Hd; reflexivity|].
        destruct (IH (field_type t k) (q ++ [PEField k]) c y (Cl k c El) (Cr k y Er)) as (_ & _ & _ & Hc).
        destruct (Hc (e2 :: rest2) Hrest) as (p2 & Hpp & Hin); [discriminate|exact Hl|exact Hr|exact Hd|].
        exists (PEField k :: p2). split.
        + rewrite pq_cons. cbn [peeqb]. rewrite String.eqb_refl. exact Hpp.
        + apply (rd_fold_in rd_added (fun a b => eq_refl)). right. exists k. split.
          * apply keys_union_In. left. apply (assoc_get_some_key lm k c El).
          * unfold G, rd_map_G. rewrite El, Er. rewrite <- app_assoc in Hin. exact Hin.
    Qed.
  End Maps.
  (* ---------- two associative lists ---------- *)
  Section Lists.
    Variable rrec : typeref -> path -> value -> value -> rdiff.
    Variables (q : path) (tr : typeref) (l r : value) (t : listT) (ll rl : list value).
    Variables (gl gr : list (pe * list value)) (nl nr : nat).
    Hypothesis Vl : list_viewR tr l t ll.
    Hypothesis Vr : list_viewR tr r t rl.
    Hypothesis Il : items_wf s t ll.
    Hypothesis Ir : items_wf s t rl.
    Hypothesis Hgl : group_items s t ll [] = Some gl.
    Hypothesis Hgr : group_items s t rl [] = Some gr.
    Hypothesis Cl : forall x, In x ll -> child_ok s R (list_elem t) x nl.
    Hypothesis Cr : forall x, In x rl -> child_ok s R (list_elem t) x nr.
    Hypothesis IH : forall ct q' x y, child_ok s R ct x nl -> child_ok s R ct y nr ->
      rd_char q' ct x y (rrec ct q' x y).

    Let G := rd_list_G rrec s q t gl gr.

    Lemma LklR : forall e, wf_pe e = true ->
      lookup_group e gl = match occ s t e ll with [] => None | xs => Some xs end.
    Proof. intros e He. apply (group_items_some s t ll gl Il Hgl). exact He. Qed.

    Lemma LkrR : forall e, wf_pe e = true ->
      lookup_group e gr = match occ s t e rl with [] => None | xs => Some xs end.
    Proof. intros e He. apply (group_items_some s t rl gr Ir Hgr). exact He. Qed.

    Lemma all_wfR : forall e, In e (rd_all gl gr) -> wf_pe e = true.
    Proof.
      intros e Hin. unfold rd_all in Hin. apply in_app_iff in Hin.
      destruct (group_items_some s t ll gl Il Hgl) as (_ & Wl & _).
      destruct (group_items_some s t rl gr Ir Hgr) as (_ & Wr & _).
      unfold reps_wf in Wl, Wr. rewrite Forall_forall in Wl, Wr.
      destruct Hin as [Hin|Hin]; apply in_map_iff in Hin; destruct Hin as (ex & E & Hin); subst e.
      - apply (Wl ex Hin).
      - apply filter_In in Hin. apply (Wr ex (proj1 Hin)).
    Qed.

    Lemma occ_child_lR : forall e x, In x (occ s t e ll) -> child_ok s R (list_elem t) x nl.
    Proof. intros e x H. apply occ_In in H. apply Cl. apply H. Qed.

    Lemma occ_child_rR : forall e x, In x (occ s t e rl) -> child_ok s R (list_elem t) x nr.
    Proof. intros e x H. apply occ_In in H. apply Cr. apply H. Qed.

    Lemma list_lift : forall (P : option rnode -> option rnode -> Prop) e L
        (oa ob : path -> option rnode), wf_pe e = true ->
      (forall p2, rs tr l (e :: p2) = oa p2) ->
      (forall p2, rs tr r (e :: p2) = ob p2) ->
      (forall x, In x L -> exists p2, x = (q ++ [e]) ++ p2 /\ wf_path p2 = true /\ P (oa p2) (ob p2)) ->
      forall x, In x L -> exists p2, x = q ++ p2 /\ wf_path p2 = true /\ P (rs tr l p2) (rs tr r p2).
    Proof.
      intros P e L oa ob He Ha Hb H x Hx. destruct (H x Hx) as (p2 & E & W & HP).
      exists (e :: p2). split; [rewrite E, <- app_assoc; reflexivity|].
      split; [apply wf_path_cons; split; [exact He|exact W]|].
      rewrite Ha, Hb. exact HP.
    Qed.

    (* the resolution of e :: p2 on a side where e designates a group of duplicates *)
    Definition dupres (xs : list value) (p2 : path) : option rnode :=
      match p2 with [] => Some (RDup (list_elem t) xs) | _ => None end.

    (* the six shapes of the two sides at e *)
    Lemma side_l : forall e, wf_pe e = true ->
      match occ s t e ll with
      | [] => forall p2, rs tr l (e :: p2) = None
      | [x] => forall p2, rs tr l (e :: p2) = rs (list_elem t) x p2
      | xs => forall p2, rs tr l (e :: p2) = dupres xs p2
      end.
    Proof.
      intros e He. pose proof (fun p2 => Vl e p2 He) as H.
      destruct (occ s t e ll) as [|x [|y more]]; exact H.
    Qed.

    Lemma side_r : forall e, wf_pe e = true ->
      match occ s t e rl with
      | [] => forall p2, rs tr r (e :: p2) = None
      | [x] => forall p2, rs tr r (e :: p2) = rs (list_elem t) x p2
      | xs => forall p2, rs tr r (e :: p2) = dupres xs p2
      end.
    Proof.
      intros e He. pose proof (fun p2 => Vr e p2 He) as H.
      destruct (occ s t e rl) as [|x [|y more]]; exact H.
    Qed.

    Lemma self_in : forall (P : option rnode -> option rnode -> Prop) qq (oa ob : path -> option rnode),
      P (oa []) (ob []) ->
      forall x, In x [qq] -> exists p2, x = qq ++ p2 /\ wf_path p2 = true /\ P (oa p2) (ob p2).
    Proof.
      intros P qq oa ob HP x [E|[]]. subst x. exists []. split; [rewrite app_nil_r; reflexivity|].
      split; [reflexivity|exact HP].
    Qed.

    (* nodes of a single member y against a group of duplicates on the other side *)
    Lemma single_vs_dup : forall y xs qq, R (list_elem t) -> wf_value y = true ->
      forall x, In x (qq :: map fst (nodes_fuel (S (vdepth y)) s (list_elem t) y qq)) ->
        exists p2, x = qq ++ p2 /\ wf_path p2 = true /\
          one_side_o (dupres xs p2) (rs (list_elem t) y p2).
    Proof.
      intros y xs qq Hct Hwf x Hx.
      destruct (one_sided_nodes (list_elem t) y qq Hct Hwf x Hx) as (p2 & E & W & HP & _).
      exists p2. split; [exact E|]. split; [exact W|]. split; [exact HP|].
      destruct p2 as [|e2 rest2]; [right; simpl; discriminate|left; reflexivity].
    Qed.

    Lemma listG_addedR : forall e, wf_pe e = true -> sided_in q tr l r (rd_added (G e)).
    Proof.
      intros e He. unfold G, rd_list_G. rewrite (LklR e He), (LkrR e He).
      pose proof (side_l e He) as Sl. pose proof (side_r e He) as Sr.
      destruct (occ s t e ll) as [|x1 [|x2 xs]] eqn:El;
        destruct (occ s t e rl) as [|y1 [|y2 ys]] eqn:Er; cbv beta iota zeta;
        try (intros x Hx; solve [destruct Hx]);
        try (destruct (values_eqb_dup _ _); intros x Hx; solve [destruct Hx]).
      - (* none, single *)
        unfold sided_in. apply (list_lift one_side_o e _ _ _ He Sl Sr).
        destruct (occ_child_rR e y1) as (H1 & H2 & _); [rewrite Er; left; reflexivity|].
        rewrite one_sided_added. apply (one_sided_nodes _ y1 _ H1 H2).
      - (* none, group *)
        unfold sided_in. apply (list_lift one_side_o e _ _ _ He Sl Sr).
        cbn [rd_added]. apply self_in. split; [reflexivity|left; reflexivity].
      - (* single, single *)
        unfold sided_in. apply (list_lift one_side_o e _ _ _ He Sl Sr). apply IH.
        + apply (occ_child_lR e). rewrite El. left. reflexivity.
        + apply (occ_child_rR e). rewrite Er. left. reflexivity.
      - (* single, group *)
        unfold sided_in. apply (list_lift one_side_o e _ _ _ He Sl Sr).
        cbn [rd_added rd_app one_sided app]. apply self_in. split; [reflexivity|right; simpl; discriminate].
      - (* group, single *)
        unfold sided_in. apply (list_lift one_side_o e _ _ _ He Sl Sr).
        destruct (occ_child_rR e y1) as (H1 & H2 & _); [rewrite Er; left; reflexivity|].
        cbn [rd_added rd_app app]. rewrite one_sided_added. apply (single_vs_dup y1 _ _ H1 H2).
    Qed.

    Lemma listG_removedR : forall e, wf_pe e = true -> sided_in q tr r l (rd_removed (G e)).
    Proof.
      intros e He. unfold G, rd_list_G. rewrite (LklR e He), (LkrR e He).
      pose proof (side_l e He) as Sl. pose proof (side_r e He) as Sr.
      destruct (occ s t e ll) as [|x1 [|x2 xs]] eqn:El;
        destruct (occ s t e rl) as [|y1 [|y2 ys]] eqn:Er; cbv beta iota zeta;
        try (intros x Hx; solve [destruct Hx]);
        try (destruct (values_eqb_dup _ _); intros x Hx; solve [destruct Hx]).
      - (* single, none *)
        unfold sided_in. apply (list_lift (fun a b => one_side_o b a) e _ _ _ He Sl Sr).
        destruct (occ_child_lR e x1) as (H1 & H2 & _); [rewrite El; left; reflexivity|].
        rewrite one_sided_removed. apply (one_sided_nodes _ x1 _ H1 H2).
      - (* single, single *)
        unfold sided_in. apply (list_lift (fun a b => one_side_o b a) e _ _ _ He Sl Sr). apply IH.
        + apply (occ_child_lR e). rewrite El. left. reflexivity.
        + apply (occ_child_rR e). rewrite Er. left. reflexivity.
      - (* single, group *)
        unfold sided_in. apply (list_lift (fun a b => one_side_o b a) e _ _ _ He Sl Sr).
        destruct (occ_child_lR e x1) as (H1 & H2 & _); [rewrite El; left; reflexivity|].
        cbn [rd_removed rd_app]. rewrite one_sided_removed, app_nil_r. apply (single_vs_dup x1 _ _ H1 H2).
      - (* group, none *)
        unfold sided_in. apply (list_lift (fun a b => one_side_o b a) e _ _ _ He Sl Sr).
        cbn [rd_removed]. apply (self_in (fun a b => one_side_o b a)). split; [reflexivity|left; reflexivity].
      - (* group, single *)
        unfold sided_in. apply (list_lift (fun a b => one_side_o b a) e _ _ _ He Sl Sr).
        cbn [rd_removed rd_app one_sided app]. apply (self_in (fun a b => one_side_o b a)).
        split; [reflexivity|right; simpl; discriminate].
    Qed.

    Lemma listG_modifiedR : forall e, wf_pe e = true -> mod_in q tr l r (rd_modified (G e)).
    Proof.
      intros e He. unfold G, rd_list_G. rewrite (LklR e He), (LkrR e He).
      pose proof (side_l e He) as Sl. pose proof (side_r e He) as Sr.
      destruct (occ s t e ll) as [|x1 [|x2 xs]] eqn:El;
        destruct (occ s t e rl) as [|y1 [|y2 ys]] eqn:Er; cbv beta iota zeta;
        try (intros x Hx; solve [destruct Hx]).
      - unfold mod_in. apply (list_lift (mod_o s) e _ _ _ He Sl Sr). apply IH.
        + apply (occ_child_lR e). rewrite El. left. reflexivity.
        + apply (occ_child_rR e). rewrite Er. left. reflexivity.
      - destruct (values_eqb_dup _ _); [intros x []|].
        unfold mod_in. apply (list_lift (mod_o s) e _ _ _ He Sl Sr).
        cbn [rd_modified]. apply self_in. exact I.
    Qed.

    Lemma listG_mis : forall e rest, wf_pe e = true -> wf_path rest = true ->
      isso (rs tr l (e :: rest)) = true -> isso (rs tr r (e :: rest)) = true ->
      isdup (rs tr l (e :: rest)) <> isdup (rs tr r (e :: rest)) ->
      exists p2, patheqb rest p2 = true /\ In ((q ++ [e]) ++ p2) (rd_added (G e)).
    Proof.
      intros e rest He Hw Hl Hr Hd.
      pose proof (side_l e He) as Sl. pose proof (side_r e He) as Sr.
      unfold G, rd_list_G. rewrite (LklR e He), (LkrR e He).
      destruct (occ s t e ll) as [|x1 [|x2 xs]] eqn:El.
      { rewrite Sl in Hl. discriminate. }
      - destruct (occ s t e rl) as [|y1 [|y2 ys]] eqn:Er; cbv beta iota zeta.
        { rewrite Sr in Hr. discriminate. }
        + rewrite Sl in Hl, Hd. rewrite Sr in Hr, Hd.
          destruct rest as [|e2 rest2]; [exfalso; apply Hd; reflexivity|].
          destruct (IH (list_elem t) (q ++ [e]) x1 y1) as (_ & _ & _ & Hc).
          { apply (occ_child_lR e). rewrite El. left. reflexivity. }
          { apply (occ_child_rR e). rewrite Er. left. reflexivity. }
          apply (Hc (e2 :: rest2) Hw); [discriminate|exact Hl|exact Hr|exact Hd].
        + rewrite Sr in Hr. destruct rest as [|e2 rest2]; [|discriminate].
          exists []. split; [reflexivity|]. cbn [rd_added rd_app one_sided app].
          rewrite app_nil_r. left. reflexivity.
      - rewrite Sl in Hl, Hd. destruct rest as [|e2 rest2]; [|discriminate].
        destruct (occ s t e rl) as [|y1 [|y2 ys]] eqn:Er; cbv beta iota zeta.
        { rewrite Sr in Hr. discriminate. }
        + exists []. split; [reflexivity|]. cbn [rd_added rd_app app]. rewrite one_sided_added.
          rewrite app_nil_r. left. reflexivity.
        + rewrite Sr in Hd. exfalso. apply Hd. reflexivity.
    Qed.

    Lemma lists_char : rd_char q tr l r (rd_lists rrec s q t ll rl).
    Proof.
      unfold rd_lists. rewrite Hgl, Hgr. fold G. split; [|split; [|split]].
      - intros x Hx. apply (rd_fold_in rd_added (fun a b => eq_refl)) in Hx.
        destruct Hx as [[]|(e & He & Hx)]. apply (listG_addedR e (all_wfR e He) x Hx).
      - intros x Hx. apply (rd_fold_in rd_removed (fun a b => eq_refl)) in Hx.
        destruct Hx as [[]|(e & He & Hx)]. apply (listG_removedR e (all_wfR e He) x Hx).
      - intros x Hx. apply (rd_fold_in rd_modified (fun a b => eq_refl)) in Hx.
        destruct Hx as [[]|(e & He & Hx)]. apply (listG_modifiedR e (all_wfR e He) x Hx).
      - intros p1 Hw Hne Hl Hr Hd. destruct p1 as [|e rest]; [contradiction Hne; reflexivity|].
        apply wf_path_cons in Hw. destruct Hw as [He Hrest].
        (* the representative of e's group *)
        assert (exists e', In e' (rd_all gl gr) /\ wf_pe e' = true /\ peeqb e e' = true) as (e' & Hin' & He' & Hee).
        { pose proof (LklR e He) as Hlk. rewrite (Vl e rest He) in Hl.
          destruct (occ s t e ll) as [|x1 xs] eqn:El; [discriminate|].
          apply lookup_group_In in Hlk. destruct Hlk as (ex & Hex & Hpe & _).
          assert (In (fst ex) (rd_all gl gr)) as Hall.
          { unfold rd_all. apply in_or_app. left. apply in_map. exact Hex. }
          exists (fst ex). split; [exact Hall|]. pose proof (all_wfR _ Hall) as W. split; [exact W|].
          rewrite (peeqb_sym e (fst ex) He W). exact Hpe. }
        assert (El' : rs tr l (e :: rest) = rs tr l (e' :: rest)).
        { rewrite (Vl e rest He), (Vl e' rest He'), (occ_cong s t ll e e' Il He He' Hee). reflexivity. }
        assert (Er' : rs tr r (e :: rest) = rs tr r (e' :: rest)).
        { rewrite (Vr e rest He), (Vr e' rest He'), (occ_cong s t rl e e' Ir He He' Hee). reflexivity. }
        rewrite El' in Hl, Hd. rewrite Er' in Hr, Hd.
        destruct (listG_mis e' rest He' Hrest Hl Hr Hd) as (p2 & Hpp & Hin).
        exists (e' :: p2). split; [rewrite pq_cons, Hee; exact Hpp|].
        apply (rd_fold_in rd_added (fun a b => eq_refl)). right. exists e'. split; [exact Hin'|].
        rewrite <- app_assoc in Hin. exact Hin.
    Qed.
  End Lists.

  (* ---------- a change of kind ---------- *)
  Lemma mod_self : forall q tr l r, mod_kinds (kind_of s tr l) (kind_of s tr r) (veqb r l) ->
    mod_in q tr l r [q].
  Proof.
    intros q tr l r H x [E|[]]. subst x. exists []. split; [rewrite app_nil_r; reflexivity|].
    split; [reflexivity|]. simpl. exact H.
  Qed.

  Lemma leaf_vs_container_char : forall q tr l r, R tr -> wf_value r = true ->
    kind_of s tr l = KLeaf -> kind_of s tr r <> KLeaf ->
    rd_char q tr l r (rd_app (mkRD [] [q] []) (rd_beneath s tr q true r)).
  Proof.
    intros q tr l r Htr Hwf Kl Kr.
    unfold rd_beneath; cbn [rd_added rd_modified rd_removed rd_app app]. split; [|split; [|split]].
    - apply nodes_sided; [exact Htr|exact Hwf|]. intros p2 Hne. apply (leaf_none tr l p2 Kl Hne).
    - apply sided_in_nil.
    - apply mod_self. rewrite Kl. destruct (kind_of s tr r); try exact I. contradiction Kr; reflexivity.
    - apply leaf_mis. left. exact Kl.
  Qed.

  Lemma container_vs_leaf_char : forall q tr l r, R tr -> wf_value l = true ->
    kind_of s tr r = KLeaf -> kind_of s tr l <> KLeaf ->
    rd_char q tr l r (rd_app (mkRD [] [q] []) (rd_beneath s tr q false l)).
  Proof.
    intros q tr l r Htr Hwf Kr Kl.
    unfold rd_beneath; cbn [rd_added rd_modified rd_removed rd_app app]. split; [|split; [|split]].
    - apply sided_in_nil.
    - apply nodes_sided; [exact Htr|exact Hwf|]. intros p2 Hne. apply (leaf_none tr r p2 Kr Hne).
    - apply mod_self. rewrite Kr. destruct (kind_of s tr l); try exact I. contradiction Kl; reflexivity.
    - apply leaf_mis. right. exact Kr.
  Qed.

  (* under [lists_pure] a type cannot hold a granular map and a granular list *)
  Lemma no_mixed : forall tr a b t1 m t2 l0, R tr ->
    kind_of s tr a = KMap t1 m -> kind_of s tr b = KList t2 l0 -> False.
  Proof.
    intros tr a b t1 m t2 l0 Htr Ka Kb.
    destruct (kind_map_inv _ _ _ _ _ Ka) as (a1 & Hr1 & Ham & _).
    destruct (kind_list_inv _ _ _ _ _ Kb) as (a2 & Hr2 & Hal & _ & Hna & _).
    rewrite Hr1 in Hr2. inversion Hr2; subst a2.
    destruct a1 as [sc li ma]. simpl in Ham, Hal. subst li ma.
    destruct (Hpure tr sc t2 (Some t1) Htr Hr1 Hna) as [_ H]. discriminate.
  Qed.

  (* ---------- the reference diff, any sufficient fuel ---------- *)
  Theorem ref_diff_fuel_char : forall f q tr l r, R tr ->
    wf_value l = true -> wf_value r = true ->
    conforms s tr true l = true -> conforms s tr true r = true ->
    vdepth l + vdepth r < f ->
    rd_char q tr l r (ref_diff_fuel f s tr q l r).
  Proof.
    induction f as [|f IHf]; intros q tr l r Htr Hl Hr Cl Cr Hf; [lia|].
    rewrite ref_diff_fuel_S. unfold ref_body.
    destruct (conf_resolve s tr true l Cl) as [a Hres].
    pose proof (conf_not_bad s tr a Hres l Cl) as Nl.
    pose proof (conf_not_bad s tr a Hres r Cr) as Nr.
    assert (IH' : forall ct q' x y, child_ok s R ct x (vdepth l) -> child_ok s R ct y (vdepth r) ->
              rd_char q' ct x y (ref_diff_fuel f s ct q' x y)).
    { intros ct q' x y (A1 & A2 & A3 & A4) (B1 & B2 & B3 & B4). apply IHf; auto. lia. }
    destruct (kind_of s tr l) as [|t lm|t ll|] eqn:Kl; [| | |contradiction Nl; reflexivity];
      (destruct (kind_of s tr r) as [|t2 rm|t2 rl|] eqn:Kr; [| | |contradiction Nr; reflexivity]).
    - (* leaf, leaf *)
      destruct (veqb r l) eqn:Ev; (split; [apply sided_in_nil|split; [apply sided_in_nil|split; [|apply leaf_mis; left; exact Kl]]]).
      + apply mod_in_nil.
      + apply mod_self. rewrite Kl, Kr. exact Ev.
    - (* leaf, map *)
      destruct (map_side s R Hok tr a r t2 rm Htr Hres Hr Cr Kr) as [_ Hcr].
      apply match_map_good.
      + apply (maps_char (ref_diff_fuel f s) q tr l r t2 [] rm (vdepth l) (vdepth r)
                 (map_viewR_leaf tr l t2 Kl) (map_viewR_kind tr r t2 rm Kr)
                 (nil_children s R t2 (vdepth l)) Hcr IH').
      + apply leaf_vs_container_char; auto. rewrite Kr. discriminate.
    - (* leaf, list *)
      destruct (list_side s R Hok Hfam tr a r t2 rl Htr Hres Hr Cr Kr) as (_ & Hiw & Hh & (gr & Hgr) & Hcr).
      apply match_list_good.
      + apply (lists_char (ref_diff_fuel f s) q tr l r t2 [] rl [] gr (vdepth l) (vdepth r)
                 (list_viewR_leaf tr l t2 Kl) (list_viewR_kind tr r t2 rl Htr Hr Kr Hh)
                 (items_wf_nil s t2) Hiw eq_refl Hgr).
        * intros x [].
        * exact Hcr.
        * exact IH'.
      + apply leaf_vs_container_char; auto. rewrite Kr. discriminate.
    - (* map, leaf *)
      destruct (map_side s R Hok tr a l t lm Htr Hres Hl Cl Kl) as [_ Hcl].
      apply match_map_good.
      + apply (maps_char (ref_diff_fuel f s) q tr l r t lm [] (vdepth l) (vdepth r)
                 (map_viewR_kind tr l t lm Kl) (map_viewR_leaf tr r t Kr)
                 Hcl (nil_children s R t (vdepth r)) IH').
      + apply container_vs_leaf_char; auto. rewrite Kl. discriminate.
    - (* map, map *)
      destruct (map_side s R Hok tr a l t lm Htr Hres Hl Cl Kl) as [Ht Hcl].
      destruct (map_side s R Hok tr a r t2 rm Htr Hres Hr Cr Kr) as [Ht2 Hcr].
      rewrite Ht in Ht2. inversion Ht2; subst t2.
      apply (maps_char (ref_diff_fuel f s) q tr l r t lm rm (vdepth l) (vdepth r)
               (map_viewR_kind tr l t lm Kl) (map_viewR_kind tr r t rm Kr) Hcl Hcr IH').
    - (* map, list *)
      exfalso. apply (no_mixed tr l r t lm t2 rl Htr Kl Kr).
    - (* list, leaf *)
      destruct (list_side s R Hok Hfam tr a l t ll Htr Hres Hl Cl Kl) as (_ & Hiw & Hh & (gl & Hgl) & Hcl).
      apply match_list_good.
      + apply (lists_char (ref_diff_fuel f s) q tr l r t ll [] gl [] (vdepth l) (vdepth r)
                 (list_viewR_kind tr l t ll Htr Hl Kl Hh) (list_viewR_leaf tr r t Kr)
                 Hiw (items_wf_nil s t) Hgl eq_refl).
        * exact Hcl.
        * intros x [].
        * exact IH'.
      + apply container_vs_leaf_char; auto. rewrite Kl. discriminate.
    - (* list, map *)
      exfalso. apply (no_mixed tr r l t2 rm t ll Htr Kr Kl).
    - (* list, list *)
      destruct (list_side s R Hok Hfam tr a l t ll Htr Hres Hl Cl Kl) as (Ht & Hiwl & Hhl & (gl & Hgl) & Hcl).
      destruct (list_side s R Hok Hfam tr a r t2 rl Htr Hres Hr Cr Kr) as (Ht2 & Hiwr & Hhr & (gr & Hgr) & Hcr).
      rewrite Ht in Ht2. inversion Ht2; subst t2.
      apply (lists_char (ref_diff_fuel f s) q tr l r t ll rl gl gr (vdepth l) (vdepth r)
               (list_viewR_kind tr l t ll Htr Hl Kl Hhl) (list_viewR_kind tr r t rl Htr Hr Kr Hhr)
               Hiwl Hiwr Hgl Hgr Hcl Hcr IH').
  Qed.

  (* ---------- resolution is invariant under Path.Equals ---------- *)
  Lemma resolve_patheqb : forall p q, patheqb p q = true -> wf_path p = true -> wf_path q = true ->
    forall v tr, R tr -> wf_value v = true -> rs tr v p = rs tr v q.
  Proof.
    induction p as [|e p IH]; intros [|e' q] Hpq Hp Hq v tr Htr Hwf; simpl in Hpq; try discriminate.
    - reflexivity.
    - apply andb_true_iff in Hpq. destruct Hpq as [Hee Hpq].
      apply wf_path_cons in Hp. destruct Hp as [He Hp].
      apply wf_path_cons in Hq. destruct Hq as [He' Hq].
      destruct (kind_of s tr v) eqn:Ek.
      + rewrite !resolve_path_leaf by (rewrite Ek; exact I). reflexivity.
      + destruct (kind_map_inv _ _ _ _ _ Ek) as (a & Hr & Ham & Hv & _ & _). subst v.
        destruct e, e'; simpl in Hee; try discriminate;
          try (rewrite !(resolve_path_map_other _ _ _ _ _ _ _ Ek) by exact I; reflexivity).
        apply String.eqb_eq in Hee. subst name0.
        rewrite !(resolve_path_map _ _ _ _ _ _ _ Ek).
        destruct (assoc_get name m) as [c|] eqn:Eg; [|reflexivity].
        apply IH; auto.
        * eapply (so_map s R Hok); eauto.
        * simpl in Hwf. apply andb_true_iff in Hwf. eapply assoc_get_wf; [apply Hwf|exact Eg].
      + destruct (kind_list_inv _ _ _ _ _ Ek) as (a & Hr & Hal & Hv & _ & _). subst v.
        pose proof (peeqb_keyval e e' Hee) as Hkv.
        destruct (is_keyval e) eqn:Ekv.
        * rewrite !(resolve_path_list _ _ _ _ _ _ _ Ek) by auto.
          destruct (group_items s t l []) as [g|] eqn:Eg; [|reflexivity].
          assert (Hte : R (list_elem t)) by (eapply (so_list s R Hok); eauto).
          assert (Hiw : items_wf s t l) by (eapply items_wf_R; eauto).
          destruct (group_items_some s t l g Hiw Eg) as (_ & _ & Hlk).
          rewrite (Hlk e He), (Hlk e' He'), (occ_cong s t l e e' Hiw He He' Hee).
          destruct (occ s t e' l) as [|x [|y more]] eqn:Eocc; [reflexivity| |].
          -- apply IH; auto.
             assert (Hx : In x (occ s t e' l)) by (rewrite Eocc; simpl; auto).
             apply occ_In in Hx. eapply wf_value_list_in; eauto. apply Hx.
          -- destruct p, q; simpl in Hpq; try discriminate; reflexivity.
        * rewrite !(resolve_path_list_other _ _ _ _ _ _ _ Ek) by congruence.
          reflexivity.
      + rewrite !resolve_path_leaf by (rewrite Ek; exact I). reflexivity.
  Qed.

  (* ---------- the comparison ---------- *)
  Theorem compare_char : forall tr l r c, R tr ->
    wf_value l = true -> wf_value r = true ->
    conforms s tr true l = true -> conforms s tr true r = true ->
    compare s tr l r = Some c ->
    forall p, wf_path p = true -> p <> [] ->
      (ps_has p (added c) = true -> one_side_o (rs tr l p) (rs tr r p)) /\
      (ps_has p (removed c) = true -> one_side_o (rs tr r p) (rs tr l p)) /\
      (ps_has p (modified c) = true -> mod_o s (rs tr l p) (rs tr r p)) /\
      (isso (rs tr l p) = true -> isso (rs tr r p) = true ->
       isdup (rs tr l p) <> isdup (rs tr r p) -> ps_has p (added c) = true).
  Proof.
    intros tr l r c Htr Hl Hr Cl Cr Hc p Hp Hne.
    destruct (compare_refines_ref_diff_restricted s R tr l r c Hok Hfam Hpure Htr Hl Hr Cl Cr Hc p Hp Hne)
      as (E1 & E2 & E3).
    destruct (ref_diff_fuel_char (merge_fuel l r) [] tr l r Htr Hl Hr Cl Cr) as (Ha & Hrm & Hm & Hmis).
    { unfold merge_fuel. lia. }
    fold (ref_diff s tr l r) in Ha, Hrm, Hm, Hmis.
    assert (Hmem : forall (P : option rnode -> option rnode -> Prop) L,
              (forall x, In x L -> exists p2, x = [] ++ p2 /\ wf_path p2 = true /\ P (rs tr l p2) (rs tr r p2)) ->
              pmem p L = true -> P (rs tr l p) (rs tr r p)).
    { intros P L HL Hmem. unfold pmem in Hmem. apply existsb_exists in Hmem.
      destruct Hmem as (x & Hx & Hpx). destruct (HL x Hx) as (p2 & E & W & HP).
      simpl in E. subst x.
      rewrite (resolve_patheqb p p2 Hpx Hp W l tr Htr Hl), (resolve_patheqb p p2 Hpx Hp W r tr Htr Hr).
      exact HP. }
    split; [|split; [|split]].
    - intros H. rewrite E3 in H. apply (Hmem one_side_o _ Ha H).
    - intros H. rewrite E1 in H. apply (Hmem (fun a b => one_side_o b a) _ Hrm H).
    - intros H. rewrite E2 in H. apply (Hmem (mod_o s) _ Hm H).
    - intros H1 H2 H3. rewrite E3. destruct (Hmis p Hp Hne H1 H2 H3) as (p2 & Hpp & Hin).
      unfold pmem. apply existsb_exists. exists p2. split; [exact Hin|exact Hpp].
  Qed.
End RDC.
