(* C14: removal and extraction partition an object -- proofs of the statements of
   Proofs/Partition_statements.v, for a set S of leaf paths of the object's field set.

   Differences from the statements file (both flagged below, with counterexamples):
   - all three theorems assume [keys_scalar s R] (Proofs/KeyFields.v: the key fields of every
     keyed list reached are of a scalar type).  Without it [leaf_subset] does not keep S off
     the key fields: a leaf *beneath* a map-valued key field can be removed, which changes
     the member's path element, and the other leaves of that member are no longer found
     ([remove_partition_needs_scalar_keys]);
   - [merge_partition] moreover assumes [list_root_pure s tr v]: if the root of v is a granular
     list, the atom of tr declares nothing but that list (the condition of
     MergeLaws.merge_null_right; implied by [lists_pure s R] of C06 / C11, and void for a map
     root).  Without it the statement is false for the empty selection at a list root whose
     atom also declares a scalar: the extraction is null, and merging a null into such a list
     gives null ([merge_partition_needs_pure_list_root]).  Nothing is assumed of the atoms
     beneath the root (Proofs/MergeThruSame.v).

   Proof structure: Proofs/PartBase.v (S is a nice removal set; clause 1),
   Proofs/PartExtract.v (what extraction keeps: [xt_struct], [xt_keeps], [xt_sound]),
   Proofs/PartSel.v (the set extraction walks with, S plus key-field paths, is a selection),
   Proofs/SameLeaves.v (two valid objects with the same leaves are equal up to member order),
   Proofs/MergeThruSame.v (merging keeps the left operand's leaves where the right one stops,
   for operands of the same shape along the path). *)
From Coq Require Import List ZArith String Bool Arith Lia.
From SMD Require Import Model.Value Model.Order Model.PathElem Model.PathSet Model.Schema Model.Walk
  Model.Validate Model.FieldSet Model.Remove Model.Merge
  Spec.PathsAsSets Spec.RefValid Spec.Resolve Spec.Agree Spec.Examples
  Proofs.OrderLaws Proofs.PathSetLaws Proofs.SchemaOk Proofs.FieldSetBase Proofs.FieldSetPaths
  Proofs.FieldSetWf Proofs.FieldSetLaws Proofs.RemoveAbsent Proofs.RemoveWf Proofs.ResolveLaws
  Proofs.RemoveFrame Proofs.RemoveMono Proofs.EnLaws Proofs.NodeSet Proofs.KeyFields.
From SMD Require Import Proofs.ValidateLaws Proofs.RemoveBase Proofs.ExtractLaws Proofs.ReconcileBase
  Proofs.TreeFacts Proofs.RefDiffBoth Proofs.MergeLaws Proofs.MergeAgree Proofs.MergeThru
  Proofs.VeqbResolve Proofs.SameLeaves Proofs.PartBase Proofs.PartExtract Proofs.PartSel
  Proofs.MergeThruSame Proofs.RemoveExt.
From SMD Require Proofs.MergeBase Proofs.MergeWalk Proofs.ApplyEffect.
Import ListNotations.
Open Scope bool_scope.
Open Scope list_scope.

(* S: leaves of the field set of v, key fields of list members excluded (the property's
   "key fields of surviving items excluded") *)
Definition leaf_subset (s : schema) (tr : typeref) (v : value) (S : pset) : Prop :=
  ps_ok S = true /\
  exists fs, to_field_set s tr v = Some fs /\
    forall p, wf_path p = true -> ps_has p S = true ->
      ps_has p (ps_leaves fs) = true /\
      (forall pre fl k, p = pre ++ [PEKey fl; PEField k] -> ~ In k (map fst fl)).

(* a well-formed set without members is the empty set *)
Lemma ps_empty_eq : forall S, ps_ok S = true -> ps_empty S = true -> S = ps_empty_set.
Proof.
  intros [m c] Hok Hem. unfold ps_ok in Hok. apply andb_true_iff in Hok. destruct Hok as [Hwf _].
  simpl in Hem. destruct m as [|x m]; [|discriminate].
  destruct c as [|[e sub] c]; [reflexivity|]. exfalso.
  simpl in Hem. apply andb_true_iff in Hem. destruct Hem as [Hsub _].
  simpl in Hwf. rewrite !andb_true_iff in Hwf. destruct Hwf as [_ [[_ Hne] _]].
  rewrite Hsub in Hne. discriminate.
Qed.

Local Arguments ps_has : simpl never.
Local Arguments ps_with_prefix : simpl never.
Local Arguments ps_empty : simpl never.

Lemma leaf_nodes_in : forall s R tr v p n, schema_ok s R -> R tr -> wf_value v = true ->
  In (p, n) (leaf_nodes s tr v) ->
  p <> [] /\ wf_path p = true /\ resolve_path s tr v p = Some n /\ rnode_is_leaf s n = true.
Proof.
  intros s R tr v p n Hok Htr Hwf Hin. unfold leaf_nodes in Hin. apply in_flat_map in Hin.
  destruct Hin as ([p0 b] & Hin0 & Hin1). simpl in Hin1. destruct b; [|contradiction].
  destruct (resolve_path s tr v p0) as [n0|] eqn:Eres; [|contradiction].
  destruct Hin1 as [Heq|[]]. inversion Heq; subst p0 n0.
  destruct (nodes_sound s R Hok v tr p true Htr Hwf Hin0) as (Hne & Hwp & n' & Hres & Hleaf).
  rewrite Eres in Hres. inversion Hres; subst n'. auto.
Qed.

Lemma rnode_eqb_sym : forall a b,
  match a with RNode _ x => wf_value x = true | RDup _ xs => forall x, In x xs -> wf_value x = true end ->
  match b with RNode _ x => wf_value x = true | RDup _ xs => forall x, In x xs -> wf_value x = true end ->
  rnode_eqb a b = true -> rnode_eqb b a = true.
Proof.
  intros [ta x|ta xs] [tb y|tb ys] Ha Hb H; simpl in *; try discriminate.
  - rewrite (veqb_sym y x Hb Ha). exact H.
  - revert ys Ha Hb H. induction xs as [|x xs IH]; intros [|y ys] Ha Hb H; simpl in *;
      try discriminate; [reflexivity|].
    apply andb_true_iff in H. destruct H as [H1 H2].
    rewrite (veqb_sym y x (Hb y (or_introl eq_refl)) (Ha x (or_introl eq_refl))), H1. cbn [andb].
    apply IH; [intros z Hz; apply Ha; right; exact Hz|intros z Hz; apply Hb; right; exact Hz|exact H2].
Qed.

(* the condition of MergeLaws.merge_null_right on a list root: its atom declares nothing but
   the list.  Needed (only) when S selects nothing: the extraction is then null, and a null
   merged into a list whose atom also declares a scalar or a map wins. *)
Definition list_root_pure (s : schema) (tr : typeref) (v : value) : Prop :=
  match kind_of s tr v with
  | KList _ _ => forall a, resolve s tr = Some a -> MergeWalk.list_only a = true
  | _ => True
  end.

Lemma lists_pure_root : forall s R tr v, lists_pure s R -> R tr -> list_root_pure s tr v.
Proof.
  intros s R tr v Hpure Htr. unfold list_root_pure.
  destruct (kind_of s tr v) as [|mt m|t l|] eqn:Ek; try exact I.
  intros a Hr. destruct (kind_list_inv _ _ _ _ _ Ek) as (a' & Hr' & Hal & _ & Hna & _).
  rewrite Hr in Hr'. inversion Hr'; subst a'.
  rewrite (pure_atom s R tr a t Hpure Htr Hr Hal Hna). reflexivity.
Qed.

Section Partition.
  Variables (s : schema) (R : typeref -> Prop) (tr : typeref) (v : value) (S : pset).
  Hypothesis Hok : schema_ok s R.
  Hypothesis Hfam : family_refs s R.
  Hypothesis Htr : R tr.
  Hypothesis Hnd : keys_nodefault s R.
  Hypothesis Hks : keys_scalar s R.
  Hypothesis Hwf : wf_value v = true.
  Hypothesis Hc : conforms s tr false v = true.
  Hypothesis Hpl : plain v = true.
  Hypothesis Hls : leaf_subset s tr v S.

  Lemma ls_unpack : ps_ok S = true /\
    exists fs, to_field_set s tr v = Some fs /\ ps_ok fs = true /\
      sel_leaves s tr v S /\ no_key_field S /\
      (forall p, wf_path p = true -> ps_has p S = true -> ps_has p fs = true).
  Proof.
    destruct Hls as (HS & fs & Hfs & HSl). split; [exact HS|]. exists fs. split; [exact Hfs|].
    pose proof (MergeBase.conforms_dup_mono s v tr Hc) as Hc'.
    destruct (to_field_set_ok_family s R tr v Hok Htr Hfam Hwf Hc') as (fs' & Hfs' & Hfsok).
    rewrite Hfs in Hfs'. inversion Hfs'; subst fs'. split; [exact Hfsok|]. split; [|split].
    - intros p Hp Hh. destruct (HSl p Hp Hh) as [Hlf _].
      apply (fs_leaf_leafy s R Hok Hfam tr v fs p Htr Hwf Hc Hpl Hfs Hp Hlf).
    - intros p Hp Hh. apply (HSl p Hp Hh).
    - intros p Hp Hh. destruct (HSl p Hp Hh) as [Hlf _].
      destruct (ps_leaves_spec fs Hfsok) as [_ Hlv]. rewrite (Hlv p Hp) in Hlf.
      apply andb_true_iff in Hlf. apply Hlf.
  Qed.

  (* 1. removing S leaves no member of S and keeps every other leaf with its value *)
  Theorem remove_partition_thm :
    (forall p, wf_path p = true -> ps_has p S = true -> present s tr (remove s tr v S) p = false) /\
    (forall p n, In (p, n) (leaf_nodes s tr v) -> wf_path p = true ->
       (forall q, ps_has q S = true -> is_prefix q p = false) ->
       has_leaf s tr (remove s tr v S) p n = true).
  Proof.
    destruct ls_unpack as (HS & fs & Hfs & Hfsok & Hsel & Hnk & Hsub). split.
    - intros p Hp Hh.
      apply (remove_part_drops s R Hok Hfam Hnd Hks tr v S Htr Hwf Hc HS Hsel Hnk p Hp Hh).
    - intros p n Hin Hp Hno.
      destruct (leaf_nodes_in s R tr v p n Hok Htr Hwf Hin) as (Hne & _ & Hres & Hleaf).
      apply (remove_part_keeps s R Hok Hfam Hnd Hks tr v S Htr Hwf Hc HS Hsel Hnk p n Hp Hne Hres Hleaf).
      apply (not_touched S HS p Hp Hno).
  Qed.

  (* 2. extracting S with the key fields yields a valid object that contains S and, besides
        S, only the key fields that locate its members *)
  Theorem extract_partition_thm :
    let x := extract s tr true v S in
    wf_value x = true /\ (x = VNull \/ conforms s tr false x = true) /\
    (forall p n, In (p, n) (leaf_nodes s tr v) -> wf_path p = true -> ps_has p S = true ->
       has_leaf s tr x p n = true) /\
    (forall p n, In (p, n) (leaf_nodes s tr x) -> wf_path p = true ->
       ps_has p S = true \/
       exists pre fl k, p = pre ++ [PEKey fl; PEField k] /\ In k (map fst fl)).
  Proof.
    destruct ls_unpack as (HS & fs & Hfs & Hfsok & Hsel & Hnk & Hsub).
    cbv zeta. rewrite (extract_with_keys s tr v S fs Hfs).
    set (T := with_keys fs S).
    pose proof (with_keys_xsel s R Hok Hfam Hnd Hks tr v S fs Htr Hwf Hc HS Hsel Hsub) as Hx.
    pose proof (xs_ok _ _ _ _ Hx) as HT.
    pose proof (remove_items_wf s true v tr T Hwf) as Hwx.
    split; [exact Hwx|].
    destruct (leafy_or_granular s tr v) as [Hl|Hg].
    - (* the root is a leaf: it is extracted whole *)
      rewrite (xt_leafy s tr T v Hc Hpl Hl). split; [right; exact Hc|]. split.
      + intros p n Hin Hp _.
        destruct (leaf_nodes_in s R tr v p n Hok Htr Hwf Hin) as (Hne & _ & Hres & Hleaf).
        apply (has_leaf_refl s R Hok tr v p n Htr Hwf Hp Hres Hleaf).
      + intros p n Hin Hp. exfalso.
        destruct (leaf_nodes_in s R tr v p n Hok Htr Hwf Hin) as (Hne & _ & Hres & _).
        destruct p as [|e p']; [congruence|]. rewrite resolve_path_leaf in Hres by exact Hl. discriminate.
    - destruct (xt_struct s R Hok Hfam Hnd v tr T Htr Hwf Hc Hpl Hg Hx) as [Hnull Hfull].
      split; [|split].
      + destruct (ps_empty T) eqn:Eem; [left; apply Hnull; reflexivity|right; apply Hfull; reflexivity].
      + intros p n Hin Hp Hh.
        destruct (leaf_nodes_in s R tr v p n Hok Htr Hwf Hin) as (Hne & _ & Hres & Hleaf).
        apply (has_leaf_refl s R Hok tr _ p n Htr Hwx Hp); [|exact Hleaf].
        apply (xt_keeps s R Hok Hfam Hnd p v tr T n Htr Hwf Hc Hpl Hg Hx Hp Hne Hres Hleaf).
        apply (ext_self p T HT Hp).
        apply (with_keys_sub S fs HS Hsub p Hp Hh).
      + intros p n Hin Hp.
        destruct (leaf_nodes_in s R tr _ p n Hok Htr Hwx Hin) as (Hne & _ & Hres & Hleaf).
        destruct (xt_sound s R Hok Hfam Hnd p v tr T n Htr Hwf Hc Hpl Hg Hx Hp Hne Hres)
          as (Hext & n0 & Hres0 & _ & Hlf).
        apply (ext_leaf_cases s R Hok tr v S fs Htr Hwf HS Hsel Hsub p n0 Hp Hne Hres0 (Hlf Hleaf) Hext).
  Qed.

  (* 3. merging the two parts gives the original back, up to the order of list members *)
  Hypothesis Hlroot : list_root_pure s tr v.

  Theorem merge_partition_thm : forall out,
    merge s tr (remove s tr v S) (extract s tr true v S) = Some (Some out) ->
    veq_assoc s tr out v = true.
  Proof.
    intros out Hm.
    destruct ls_unpack as (HS & fs & Hfs & Hfsok & Hsel & Hnk & Hsub).
    rewrite (extract_with_keys s tr v S fs Hfs) in Hm.
    set (T := with_keys fs S) in *.
    pose proof (with_keys_xsel s R Hok Hfam Hnd Hks tr v S fs Htr Hwf Hc HS Hsel Hsub) as Hx.
    pose proof (xs_ok _ _ _ _ Hx) as HT.
    pose proof (MergeBase.conforms_dup_mono s v tr Hc) as Hc'.
    pose proof (sel_nice s R Hok Hfam Hks tr v S Htr Hwf Hc HS Hsel Hnk) as Hnice.
    pose proof (sel_sub_present s tr v S Hsel) as Hsp.
    set (A := remove s tr v S) in *. set (B := remove_items s true tr T v) in *.
    assert (HwA : wf_value A = true) by (apply remove_items_wf; exact Hwf).
    assert (HwB : wf_value B = true) by (apply remove_items_wf; exact Hwf).
    assert (HcA : conforms s tr true A = true)
      by (apply (remove_conforms s R Hok Hfam Hnd v tr S Htr Hwf Hc' Hnice)).
    destruct (leafy_or_granular s tr v) as [Hl|Hg].
    - (* the root is a leaf: the extraction is the object, and the right-hand side wins *)
      assert (HB : B = v) by (apply (xt_leafy s tr T v Hc Hpl Hl)).
      rewrite HB in Hm.
      destruct (merge_conforms s R tr A v out Hok Hfam Htr HwA Hwf HcA Hc Hm) as [Hco Hwo].
      pose proof (merge_right_wins s R tr A v out Hok Hfam Htr HwA Hwf HcA Hc Hpl Hm) as Hag.
      unfold agrees in Hag. apply andb_true_iff in Hag. destruct Hag as [_ Hroot].
      assert (Hk : kind_of s tr v = KLeaf).
      { pose proof (conforms_kind_not_bad s tr false v Hc) as Hnb. unfold leafy in Hl.
        destruct (kind_of s tr v); try contradiction; try reflexivity; congruence. }
      rewrite Hk in Hroot.
      assert (Hlo : leafy s tr out) by (apply (leafy_veqb s tr v out Hroot Hl)).
      apply (same_leaves_veq_assoc s R tr v out Hok Hfam Htr Hwf Hc Hpl Hwo Hco).
      + intros p n Hp Hres Hleaf. destruct p as [|e p'];
          [|rewrite resolve_path_leaf in Hres by exact Hl; discriminate].
        simpl in Hres. inversion Hres; subst n. unfold has_leaf. cbn [resolve_path].
        rewrite (leafy_rnode_leaf s tr out Hlo). simpl. rewrite (veqb_sym out v Hwo Hwf). exact Hroot.
      + intros p n Hp Hres Hleaf. destruct p as [|e p'];
          [|rewrite resolve_path_leaf in Hres by exact Hlo; discriminate].
        simpl in Hres. inversion Hres; subst n. unfold has_leaf. cbn [resolve_path].
        rewrite (leafy_rnode_leaf s tr v Hl). simpl. exact Hroot.
    - destruct (xt_struct s R Hok Hfam Hnd v tr T Htr Hwf Hc Hpl Hg Hx) as [Hnull Hfull].
      destruct (ps_empty T) eqn:Eem.
      + (* nothing is selected: the removal is the object, the extraction is null *)
        assert (HB : B = VNull) by (apply Hnull; reflexivity).
        assert (HSe : ps_empty S = true).
        { destruct (ps_empty S) eqn:E; [reflexivity|]. exfalso.
          destruct (ps_nonempty_witness S HS E) as (p & Hp & Hh).
          pose proof (with_keys_sub S fs HS Hsub p Hp Hh) as HhT.
          fold T in HhT. rewrite (ps_empty_has T p Eem) in HhT. discriminate. }
        assert (HA : A = v).
        { unfold A. rewrite (ps_empty_eq S HS HSe). apply remove_nothing_gen. exact Hg. }
        rewrite HA, HB in Hm.
        assert (Hm' : merge s tr v VNull = Some (Some v)).
        { apply (merge_null_right s R tr v Hok Hfam Htr Hwf Hc'). unfold granular in Hg.
          unfold list_root_pure in Hlroot.
          destruct (kind_of s tr v) as [|mt m|t l|] eqn:Ek; try contradiction; [exact I|exact Hlroot]. }
        rewrite Hm' in Hm. inversion Hm; subst out.
        apply (same_leaves_veq_assoc s R tr v v Hok Hfam Htr Hwf Hc Hpl Hwf Hc');
          intros p n Hp Hres Hleaf; apply (has_leaf_refl s R Hok tr v p n Htr Hwf Hp Hres Hleaf).
      + destruct (Hfull eq_refl) as (HcB & HplB & HgB).
        destruct (merge_conforms s R tr A B out Hok Hfam Htr HwA HwB HcA HcB Hm) as [Hco Hwo].
        pose proof (merge_inv s tr A B out Hm) as Hmw.
        assert (Hagr : AgrP s tr B out).
        { apply (right_wins_w s R Hok Hfam (merge_fuel A B) tr (Some A) B out); auto.
          - unfold merge_fuel. simpl. lia.
          - split; assumption. }
        assert (Hlf : LeafP s tr (Some A) (Some B) out).
        { apply (leaves_w s R Hok Hfam (merge_fuel A B) tr (Some A) (Some B) out); auto.
          - unfold merge_fuel. simpl. lia.
          - split; assumption.
          - split; assumption.
          - left. discriminate. }
        (* a leaf of v that S touches is a member of S *)
        assert (Htouch : forall p n, wf_path p = true -> resolve_path s tr v p = Some n ->
                  touches p S = true -> ps_has p S = true).
        { intros p n Hp Hres Hto. apply (touches_iff p S HS Hp) in Hto.
          destruct Hto as (j & Hj & Hh).
          destruct (Hsel _ (wf_path_firstn j p Hp) Hh) as (t' & x' & Hres' & Hl').
          rewrite <- (firstn_skipn j p) in Hres.
          pose proof (leaf_no_ext s tr v _ _ _ _ Hres' (leafy_rnode_leaf s t' x' Hl') Hres) as Hnil.
          pose proof (firstn_skipn j p) as Hfs'. rewrite Hnil, app_nil_r in Hfs'.
          rewrite Hfs' in Hh. exact Hh. }
        (* (i) every leaf of v is in the merged object *)
        assert (Hi : forall p n, wf_path p = true -> resolve_path s tr v p = Some n ->
                  rnode_is_leaf s n = true -> has_leaf s tr out p n = true).
        { intros p n Hp Hres Hleaf.
          destruct p as [|e0 p0].
          { simpl in Hres. inversion Hres; subst n.
            rewrite (granular_not_leaf s tr v Hg) in Hleaf. discriminate. }
          set (p := e0 :: p0) in *. assert (Hne : p <> []) by discriminate.
          destruct (ext p T) eqn:Eext.
          - (* in the extraction: the right-hand side wins *)
            pose proof (xt_keeps s R Hok Hfam Hnd p v tr T n Htr Hwf Hc Hpl Hg Hx Hp Hne Hres Hleaf Eext)
              as HresB.
            destruct (Hagr p n Hp HresB) as (o & Ho & Heq). specialize (Heq Hleaf).
            unfold has_leaf. rewrite Ho.
            rewrite (rnode_eqb_leaf s p B out tr n o HresB Ho Heq Hleaf). cbn [andb].
            apply rnode_eqb_sym; [| |exact Heq].
            + apply (resolve_node_wf s R Hok p B tr n Htr HwB Hp HresB).
            + apply (resolve_node_wf s R Hok p out tr o Htr Hwo Hp Ho).
          - (* not in the extraction: kept by the removal, and merging keeps it *)
            assert (HnoB : resolve_path s tr B p = None).
            { destruct (resolve_path s tr B p) as [nb|] eqn:Eb; [|reflexivity]. exfalso.
              destruct (xt_sound s R Hok Hfam Hnd p v tr T nb Htr Hwf Hc Hpl Hg Hx Hp Hne Eb) as [He _].
              congruence. }
            assert (Hnt : touches p S = false).
            { destruct (touches p S) eqn:Et; [|reflexivity]. exfalso.
              pose proof (Htouch p n Hp Hres Et) as Hh.
              rewrite (ext_self p T HT Hp (with_keys_sub S fs HS Hsub p Hp Hh)) in Eext.
              discriminate. }
            destruct (remove_keeps s R Hok Hfam Hnd p v tr false S n Htr Hwf Hc Hnice Hp Hne Hres Hnt)
              as (n' & HresA & Hsame).
            rewrite (Hsame (or_introl Hsp) Hleaf) in HresA.
            apply (has_leaf_refl s R Hok tr out p n Htr Hwo Hp); [|exact Hleaf].
            (* along p: the nodes of v, and those of the extraction, are single granular nodes *)
            assert (Hvq : forall j, j < List.length p -> exists t0 x0,
                      resolve_path s tr v (firstn j p) = Some (RNode t0 x0) /\ granular s t0 x0).
            { intros j Hj. pose proof Hres as Hres1. rewrite <- (firstn_skipn j p) in Hres1.
              assert (Hsk : skipn j p <> []).
              { intros E. assert (Hlen : List.length (skipn j p) = 0) by (rewrite E; reflexivity).
                rewrite skipn_length in Hlen. lia. }
              rewrite resolve_path_app in Hres1.
              destruct (resolve_path s tr v (firstn j p)) as [[t0 x0|t0 xs0]|]; try discriminate.
              - exists t0, x0. split; [reflexivity|].
                apply (present_granular s t0 x0 (skipn j p) Hsk). unfold present. rewrite Hres1. reflexivity.
              - destruct (skipn j p); [congruence|discriminate]. }
            assert (HBq : forall j nb, j < List.length p -> resolve_path s tr B (firstn j p) = Some nb ->
                      exists tb y, nb = RNode tb y /\ granular s tb y).
            { intros j nb Hj Eb. destruct j as [|j'].
              { simpl in Eb. inversion Eb; subst nb. exists tr, B. split; [reflexivity|exact HgB]. }
              assert (Hfne : firstn (Datatypes.S j') p <> []) by (unfold p; simpl; discriminate).
              destruct (xt_sound s R Hok Hfam Hnd _ v tr T nb Htr Hwf Hc Hpl Hg Hx
                          (wf_path_firstn _ p Hp) Hfne Eb) as (_ & n0 & Hres0 & _ & Hlf0).
              destruct (Hvq _ Hj) as (t0 & x0 & Hr0 & Hg0). rewrite Hr0 in Hres0. inversion Hres0; subst n0.
              pose proof (granular_not_leaf s t0 x0 Hg0) as Hnl0.
              destruct nb as [tb y|tb ys].
              - exists tb, y. split; [reflexivity|].
                destruct (leafy_or_granular s tb y) as [Hly|Hgy]; [|exact Hgy].
                rewrite (Hlf0 (leafy_rnode_leaf s tb y Hly)) in Hnl0. discriminate.
              - rewrite (Hlf0 eq_refl) in Hnl0. discriminate. }
            apply (merge_keeps_thru_same s R Hok Hfam tr A B out p n Htr HwA HwB HcA HcB HplB Hm Hp);
              [| |exact HnoB|exact HresA].
            { intros j Hj. unfold interior_or_absent.
              destruct (resolve_path s tr B (firstn j p)) as [nb|] eqn:Eb; [|exact I].
              destruct (HBq j nb Hj Eb) as (tb & y & -> & Hgy). exact Hgy. }
            (* both parts have, along p, nodes of the shape of v's *)
            intros j Hj. unfold same_shape_at.
            destruct (resolve_path s tr A (firstn j p)) as [[ta xa|ta xsa]|] eqn:EA; try exact I.
            destruct (resolve_path s tr B (firstn j p)) as [nb|] eqn:EB; [|exact I].
            destruct (HBq j nb Hj EB) as (tb & xb & -> & Hgb).
            destruct (Hvq j Hj) as (t0 & x0 & Hr0 & Hg0).
            assert (Hsk : skipn j p <> []).
            { intros E. assert (Hlen : List.length (skipn j p) = 0) by (rewrite E; reflexivity).
              rewrite skipn_length in Hlen. lia. }
            assert (Hga : granular s ta xa).
            { pose proof HresA as HresA1. rewrite <- (firstn_skipn j p), resolve_path_app in HresA1.
              change (remove_items s false tr S v) with A in HresA1. rewrite EA in HresA1.
              apply (present_granular s ta xa (skipn j p) Hsk). unfold present. rewrite HresA1. reflexivity. }
            assert (Hsa : is_map xa = is_map x0 /\ is_list xa = is_list x0).
            { destruct j as [|j'].
              - simpl in EA, Hr0. inversion EA; subst ta xa. inversion Hr0; subst t0 x0.
                destruct (remove_items_shape s false tr S v) as [E|E]; [|exact E].
                exfalso. apply (granular_shape s tr A Hga). exact E.
              - assert (Hfne : firstn (Datatypes.S j') p <> []) by (unfold p; simpl; discriminate).
                assert (Hntq : touches (firstn (Datatypes.S j') p) S = false).
                { apply (touches_false_prefix _ (skipn (Datatypes.S j') p) S HS); rewrite firstn_skipn; auto. }
                destruct (remove_node s R Hok Hfam Hnd _ v tr false S t0 x0 Htr Hwf Hc Hnice
                            (wf_path_firstn _ p Hp) Hfne Hr0 Hntq) as (T' & _ & HA').
                change (remove_items s false tr S v) with A in HA'. rewrite EA in HA'.
                inversion HA' as [[Hta Hxa]]. subst ta. rewrite Hxa in *. unfold kept_node in *.
                destruct (negb (ps_empty T')); [|split; reflexivity].
                destruct (remove_items_shape s false t0 T' x0) as [E|E]; [|exact E].
                exfalso. exact (granular_shape s t0 _ Hga E). }
            assert (Hsb : is_map xb = is_map x0 /\ is_list xb = is_list x0).
            { destruct j as [|j'].
              - simpl in EB, Hr0. inversion EB; subst tb xb. inversion Hr0; subst t0 x0.
                destruct (remove_items_shape s true tr T v) as [E|E]; [|exact E].
                exfalso. apply (granular_shape s tr B Hgb). exact E.
              - assert (Hfne : firstn (Datatypes.S j') p <> []) by (unfold p; simpl; discriminate).
                destruct (xt_node s R Hok Hfam Hnd _ v tr T t0 x0 _ Htr Hwf Hc Hpl Hg Hx
                            (wf_path_firstn _ p Hp) Hfne Hr0 EB) as (T' & HB').
                inversion HB' as [[Htb Hxb]]. subst tb. rewrite Hxb in *.
                destruct (remove_items_shape s true t0 T' x0) as [E|E]; [|exact E].
                exfalso. exact (granular_shape s t0 _ Hgb E). }
            destruct Hsa as [Ha1 Ha2]. destruct Hsb as [Hb1 Hb2]. rewrite Ha1, Ha2, Hb1, Hb2. auto. }
        (* the merged object is granular: the extraction has a path *)
        assert (Hgo : granular s tr out).
        { destruct (ps_nonempty_witness T HT Eem) as (q & Hq & Hh).
          destruct (xs_hit _ _ _ _ Hx q Hq Hh) as (j & t' & x' & Hj & Hres' & Hl').
          set (r := firstn j q) in *.
          assert (Hr : wf_path r = true) by (apply wf_path_firstn; exact Hq).
          assert (Hrne : r <> []).
          { unfold r. destruct q; [simpl in Hj; lia|]. destruct j; [lia|]. discriminate. }
          assert (Hext : ext r T = true).
          { apply (ext_iff r T HT Hr). exists (skipn j q). split.
            - unfold wf_path in *. rewrite forallb_forall in *. intros e He. apply Hq.
              rewrite <- (firstn_skipn j q). apply in_or_app. right. exact He.
            - unfold r. rewrite firstn_skipn. exact Hh. }
          pose proof (xt_keeps s R Hok Hfam Hnd r v tr T _ Htr Hwf Hc Hpl Hg Hx Hr Hrne Hres'
                        (leafy_rnode_leaf s t' x' Hl') Hext) as HresB.
          destruct (Hagr r _ Hr HresB) as (o & Ho & _).
          apply (present_granular s tr out r Hrne). unfold present. rewrite Ho. reflexivity. }
        apply (same_leaves_veq_assoc s R tr v out Hok Hfam Htr Hwf Hc Hpl Hwo Hco); [exact Hi|].
        (* (ii) every leaf of the merged object is a leaf of v *)
        intros p n' Hp Hres Hleaf.
        destruct p as [|e0 p0].
        { simpl in Hres. inversion Hres; subst n'.
          rewrite (granular_not_leaf s tr out Hgo) in Hleaf. discriminate. }
        set (p := e0 :: p0) in *. assert (Hne : p <> []) by discriminate.
        destruct (Hlf p n' Hp Hres Hleaf) as [Hb|Ha]; simpl in Hb || simpl in Ha.
        * (* from the extraction *)
          unfold has_leaf in Hb.
          destruct (resolve_path s tr B p) as [mb|] eqn:Eb; [|discriminate].
          apply andb_true_iff in Hb. destruct Hb as [Hlb Heqb].
          destruct (xt_sound s R Hok Hfam Hnd p v tr T mb Htr Hwf Hc Hpl Hg Hx Hp Hne Eb)
            as (_ & n0 & Hres0 & Hsame & Hlf0).
          specialize (Hlf0 Hlb). rewrite (Hsame Hlf0) in *.
          unfold has_leaf. rewrite Hres0, Hlf0. exact Heqb.
        * (* from the removal *)
          unfold has_leaf in Ha.
          destruct (resolve_path s tr A p) as [ma|] eqn:Ea; [|discriminate].
          apply andb_true_iff in Ha. destruct Ha as [Hla Heqa].
          assert (Hpv : present s tr v p = true).
          { apply (remove_mono s R Hok Hfam Hnd p v tr false S Htr Hwf Hc Hnice Hp Hne).
            unfold present. change (remove_items s false tr S v) with A. rewrite Ea. reflexivity. }
          unfold present in Hpv.
          destruct (resolve_path s tr v p) as [n0|] eqn:Eres0; [|discriminate].
          assert (Hnt : touches p S = false).
          { destruct (touches p S) eqn:Et; [|reflexivity]. exfalso.
            pose proof (remove_drops s R Hok Hfam Hnd p v tr false S Htr Hwf Hc Hnice Hp Et) as Hd.
            unfold present in Hd. change (remove_items s false tr S v) with A in Hd. rewrite Ea in Hd. discriminate. }
          destruct (remove_keeps s R Hok Hfam Hnd p v tr false S n0 Htr Hwf Hc Hnice Hp Hne Eres0 Hnt)
            as (n1 & HresA & Hsame).
          change (remove_items s false tr S v) with A in HresA. rewrite Ea in HresA. inversion HresA; subst n1.
          destruct n0 as [t0 x0|t0 xs0];
            [|exfalso; exact (conforms_no_dup s R Hok Hfam p v tr t0 xs0 Htr Hwf Hc Hp Eres0)].
          destruct (leafy_or_granular s t0 x0) as [Hl0|Hg0].
          -- rewrite (Hsame (or_introl Hsp) (leafy_rnode_leaf s t0 x0 Hl0)) in *.
             unfold has_leaf. rewrite Eres0, (leafy_rnode_leaf s t0 x0 Hl0). exact Heqa.
          -- (* a granular node of v cannot have become a leaf of the merged object *)
             exfalso.
             destruct (resolve_sub s R Hok Hfam p v tr false t0 x0 Htr Hwf Hc Hp Eres0) as (Ht0 & Hw0 & Hc0).
             pose proof (ApplyEffect.plain_sub s R Hok p v tr t0 x0 Htr Hwf Hp Hpl Eres0) as Hpl0.
             destruct (plain_visible_value s R Hok Hfam x0 t0 Ht0 Hw0 Hc0 Hpl0)
               as (r & t2 & y & Hr & Hresr & Hly & _).
             assert (Hrne : r <> []).
             { intros ->. simpl in Hresr. inversion Hresr; subst t2 y.
               exact (leafy_not_granular s t0 x0 Hly Hg0). }
             assert (Hpr : wf_path (p ++ r) = true) by (apply wf_path_app; auto).
             assert (Hresv : resolve_path s tr v (p ++ r) = Some (RNode t2 y)).
             { rewrite resolve_path_app, Eres0. exact Hresr. }
             pose proof (Hi (p ++ r) _ Hpr Hresv (leafy_rnode_leaf s t2 y Hly)) as Hh.
             unfold has_leaf in Hh.
             destruct (resolve_path s tr out (p ++ r)) as [mo|] eqn:Eo; [|discriminate].
             apply Hrne. apply (leaf_no_ext s tr out p r n' mo Hres Hleaf Eo).
  Qed.
End Partition.

(* ================= the statements of Proofs/Partition_statements.v ================= *)

(* 1. removing S leaves no member of S and keeps every other leaf with its value.
      ADDED HYPOTHESIS: [keys_scalar s R] (see [remove_partition_needs_scalar_keys]). *)
Theorem remove_partition : forall s R tr v S,
  schema_ok s R -> family_refs s R -> R tr -> keys_nodefault s R -> keys_scalar s R ->
  wf_value v = true -> conforms s tr false v = true -> plain v = true ->
  leaf_subset s tr v S ->
  (forall p, wf_path p = true -> ps_has p S = true -> present s tr (remove s tr v S) p = false) /\
  (forall p n, In (p, n) (leaf_nodes s tr v) -> wf_path p = true ->
     (forall q, ps_has q S = true -> is_prefix q p = false) ->
     has_leaf s tr (remove s tr v S) p n = true).
Proof.
  intros s R tr v S Hok Hfam Htr Hnd Hks Hwf Hc Hpl Hls.
  exact (remove_partition_thm s R tr v S Hok Hfam Htr Hnd Hks Hwf Hc Hpl Hls).
Qed.

(* 2. extracting S with the key fields yields a valid object that contains S and, besides
      S, only the key fields that locate its members.
      ADDED HYPOTHESIS: [keys_scalar s R]. *)
Theorem extract_partition : forall s R tr v S,
  schema_ok s R -> family_refs s R -> R tr -> keys_nodefault s R -> keys_scalar s R ->
  wf_value v = true -> conforms s tr false v = true -> plain v = true ->
  leaf_subset s tr v S ->
  let x := extract s tr true v S in
  wf_value x = true /\ (x = VNull \/ conforms s tr false x = true) /\
  (forall p n, In (p, n) (leaf_nodes s tr v) -> wf_path p = true -> ps_has p S = true ->
     has_leaf s tr x p n = true) /\
  (forall p n, In (p, n) (leaf_nodes s tr x) -> wf_path p = true ->
     ps_has p S = true \/
     exists pre fl k, p = pre ++ [PEKey fl; PEField k] /\ In k (map fst fl)).
Proof.
  intros s R tr v S Hok Hfam Htr Hnd Hks Hwf Hc Hpl Hls.
  exact (extract_partition_thm s R tr v S Hok Hfam Htr Hnd Hks Hwf Hc Hpl Hls).
Qed.

(* 3. merging the two parts gives the original back, up to the order of list members.
      ADDED HYPOTHESES: [keys_scalar s R] and [list_root_pure s tr v]: when the root of v is a
      granular list, the atom of tr declares nothing but that list -- the condition of
      MergeLaws.merge_null_right (see [merge_partition_needs_pure_list_root]); it holds of
      every root that is a map, and follows from [lists_pure s R]. *)
Theorem merge_partition : forall s R tr v S out,
  schema_ok s R -> family_refs s R -> R tr -> keys_nodefault s R -> keys_scalar s R ->
  list_root_pure s tr v ->
  wf_value v = true -> conforms s tr false v = true -> plain v = true ->
  leaf_subset s tr v S ->
  merge s tr (remove s tr v S) (extract s tr true v S) = Some (Some out) ->
  veq_assoc s tr out v = true.
Proof.
  intros s R tr v S out Hok Hfam Htr Hnd Hks Hroot Hwf Hc Hpl Hls Hm.
  exact (merge_partition_thm s R tr v S Hok Hfam Htr Hnd Hks Hwf Hc Hpl Hls Hroot out Hm).
Qed.

(* the same under the hypothesis of C06 / C11 on schemas *)
Corollary merge_partition_pure_lists : forall s R tr v S out,
  schema_ok s R -> family_refs s R -> R tr -> keys_nodefault s R -> keys_scalar s R ->
  lists_pure s R ->
  wf_value v = true -> conforms s tr false v = true -> plain v = true ->
  leaf_subset s tr v S ->
  merge s tr (remove s tr v S) (extract s tr true v S) = Some (Some out) ->
  veq_assoc s tr out v = true.
Proof.
  intros s R tr v S out Hok Hfam Htr Hnd Hks Hpure.
  apply (merge_partition s R tr v S out Hok Hfam Htr Hnd Hks (lists_pure_root s R tr v Hpure Htr)).
Qed.

(* the merge of the two parts never fails *)
Corollary merge_partition_total : forall s R tr v S,
  schema_ok s R -> family_refs s R -> R tr -> keys_nodefault s R -> keys_scalar s R ->
  list_root_pure s tr v ->
  wf_value v = true -> conforms s tr false v = true -> plain v = true ->
  leaf_subset s tr v S ->
  exists out, merge s tr (remove s tr v S) (extract s tr true v S) = Some (Some out) /\
    veq_assoc s tr out v = true.
Proof.
  intros s R tr v S Hok Hfam Htr Hnd Hks Hroot Hwf Hc Hpl Hls.
  destruct (extract_partition s R tr v S Hok Hfam Htr Hnd Hks Hwf Hc Hpl Hls) as (Hwx & Hcx & _).
  destruct (ls_unpack s R tr v S Hok Hfam Htr Hwf Hc Hpl Hls) as (HS & fs & Hfs & Hfsok & Hsel & Hnk & Hsub).
  pose proof (sel_nice s R Hok Hfam Hks tr v S Htr Hwf Hc HS Hsel Hnk) as Hnice.
  assert (HcA : conforms s tr true (remove s tr v S) = true).
  { apply (remove_conforms s R Hok Hfam Hnd v tr S Htr Hwf (MergeBase.conforms_dup_mono s v tr Hc) Hnice). }
  assert (HcB : conforms s tr false (extract s tr true v S) = true).
  { destruct Hcx as [->|H]; [|exact H]. rewrite conforms_eq.
    rewrite conforms_eq in Hc. destruct (resolve s tr) as [[sc li ma]|]; [|discriminate].
    destruct v; simpl in *; try exact Hc; destruct sc, li, ma; simpl; try reflexivity; discriminate. }
  destruct (merge_total s R tr _ _ Hok Hfam Htr (remove_items_wf s false v tr S Hwf) Hwx HcA HcB) as [out Hm].
  exists out. split; [exact Hm|].
  apply (merge_partition s R tr v S out Hok Hfam Htr Hnd Hks Hroot Hwf Hc Hpl Hls Hm).
Qed.

(* ================= how to establish [leaf_subset] for a listed set ================= *)

(* the last two elements of p are not a member's key followed by one of its key fields *)
Definition nokey_b (p : path) : bool :=
  match rev p with
  | PEField k :: PEKey fl :: _ => negb (existsb (String.eqb k) (map fst fl))
  | _ => true
  end.

Lemma leaf_subset_intro : forall s tr v L fs,
  forallb wf_path L = true -> to_field_set s tr v = Some fs -> ps_ok (ps_leaves fs) = true ->
  forallb (fun p => ps_has p (ps_leaves fs)) L = true -> forallb nokey_b L = true ->
  leaf_subset s tr v (ps_of_paths L).
Proof.
  intros s tr v L fs HL Hfs Hlok Hlv Hnk. split; [apply ps_of_paths_ok; exact HL|].
  exists fs. split; [exact Hfs|]. intros p Hp Hh.
  pose proof (has_nonnil _ _ Hh) as Hne. rewrite (ps_has_of_paths L p HL Hp Hne) in Hh.
  unfold pmem in Hh. apply existsb_exists in Hh. destruct Hh as (p0 & Hin & Heq).
  rewrite forallb_forall in HL, Hlv, Hnk. split.
  - rewrite (ps_has_patheqb _ p p0 Hlok Hp (HL p0 Hin) Heq). apply Hlv. exact Hin.
  - intros pre fl k -> Hk.
    rewrite (patheqb_sym _ _ Hp (HL p0 Hin)) in Heq.
    destruct (patheqb_snoc2_inv _ _ _ _ Heq) as (a' & b' & c' & Hp0 & Hb & Hc).
    assert (Hw0 : wf_path p0 = true) by (apply HL; exact Hin). rewrite Hp0 in Hw0.
    apply wf_path_app in Hw0. destruct Hw0 as [_ Hw0]. apply wf_path_cons in Hw0. destruct Hw0 as [Hwb Hw0].
    apply wf_path_cons in Hw0. destruct Hw0 as [Hwc _].
    apply wf_path_app in Hp. destruct Hp as [_ Hp]. apply wf_path_cons in Hp. destruct Hp as [Hwk _].
    rewrite (peeqb_sym b' (PEKey fl) Hwb Hwk) in Hb.
    destruct (SetCheckers.peeqb_key_inv fl b' Hb) as (fl1 & -> & Hnames).
    rewrite (peeqb_sym c' (PEField k) Hwc eq_refl) in Hc.
    rewrite (SetCheckers.peeqb_field_inv k c' Hc) in Hp0.
    pose proof (Hnk p0 Hin) as Hn. unfold nokey_b in Hn. rewrite Hp0, rev_app_distr in Hn. simpl in Hn.
    apply negb_true_iff in Hn. rewrite Hnames in Hk.
    rewrite (SetCheckers.in_names_b k _ Hk) in Hn. discriminate.
Qed.

(* ================= why the added hypotheses are there ================= *)

Ltac in_list := simpl; repeat (first [left; reflexivity | right]); fail.
Ltac split_in H := simpl in H; repeat (destruct H as [H|H]; [subst|]); try contradiction.

Section Counterexamples.
  Open Scope string_scope.

  (* (a) a keyed list whose key field holds a map: a leaf beneath the key field is a leaf of
     the field set and not a key field, removing it changes the member's path element and
     the member's other leaves are lost (and the member of the extraction has another path
     element than the member of the object, so the selected leaf is not found in it) *)
  Definition k_key := TR None (Atom None None (Some (MapT [] ex_num RUnset))) None.
  Definition k_item : atom :=
    Atom None None (Some (MapT [SField "name" k_key None; SField "vv" ex_num None] empty_tr RUnset)).
  Definition k_item_tr := TR None k_item None.
  Definition k_tr := TR None (Atom None (Some (ListT k_item_tr RAssociative ["name"])) None) None.
  Definition k_R (tr : typeref) : Prop := In tr [k_tr; k_item_tr; k_key; ex_num; empty_tr].
  Definition k_v := VList [VMap [("name", VMap [("a", VInt 1); ("b", VInt 2)]); ("vv", VInt 3)]].
  Definition k_kab := PEKey [("name", VMap [("a", VInt 1); ("b", VInt 2)])].
  Definition k_L := [[k_kab; PEField "name"; PEField "b"]].
  Definition k_S := ps_of_paths k_L.
  Definition k_p := [k_kab; PEField "vv"].

  Lemma k_schema_ok : schema_ok [] k_R.
  Proof.
    constructor.
    - intros tr a t Htr Hr Ha. unfold k_R in *. split_in Htr;
        vm_compute in Hr; inversion Hr; subst a; simpl in Ha; inversion Ha; subst t; simpl; auto 10.
    - intros tr a m k Htr Hr Ha. unfold k_R in *. split_in Htr;
        vm_compute in Hr; inversion Hr; subst a; simpl in Ha; inversion Ha; subst m;
        unfold field_type; simpl;
        repeat (match goal with |- context [String.eqb ?x ?y] => destruct (String.eqb x y) end; simpl);
        auto 10.
    - intros tr a Htr Hr. unfold k_R in *. split_in Htr;
        vm_compute in Hr; inversion Hr; subst a; reflexivity.
  Qed.

  Lemma k_family : family_refs [] k_R.
  Proof.
    intros tr a t Htr Hr Ha. unfold k_R in *. split_in Htr;
      vm_compute in Hr; inversion Hr; subst a; simpl in Ha; inversion Ha; subst t; simpl; auto.
  Qed.

  Lemma k_nodefault : keys_nodefault [] k_R.
  Proof.
    intros tr a t k d Htr Hr Ha Hk. unfold k_R in *. split_in Htr;
      vm_compute in Hr; inversion Hr; subst a; simpl in Ha; try discriminate; inversion Ha; subst t;
      simpl in Hk; try contradiction.
    destruct Hk as [<-|[]]. vm_compute. discriminate.
  Qed.

  Lemma k_leaf_subset : leaf_subset [] k_tr k_v k_S.
  Proof.
    unfold k_S. eapply leaf_subset_intro; try (vm_compute; reflexivity).
  Qed.

  (* CHANGED after the F27 repair: the extraction used to be [VList [VMap [("name", VNull)]]]
     (the walker descended into the selected key field "name" with the selection of the member's
     level, which names none of the fields beneath "name"); it now descends with the selection
     beneath "name" and takes "b" alone.  The member of the extraction therefore has another
     path element ({name:{b:2}}), and the selected leaf is still not found at its path. *)
  Example remove_partition_counterexample :
    In (k_p, RNode ex_num (VInt 3)) (leaf_nodes [] k_tr k_v) /\
    remove [] k_tr k_v k_S = VList [VMap [("name", VMap [("a", VInt 1)]); ("vv", VInt 3)]] /\
    has_leaf [] k_tr (remove [] k_tr k_v k_S) k_p (RNode ex_num (VInt 3)) = false /\
    extract [] k_tr true k_v k_S = VList [VMap [("name", VMap [("b", VInt 2)])]] /\
    has_leaf [] k_tr (extract [] k_tr true k_v k_S) [k_kab; PEField "name"; PEField "b"]
      (RNode ex_num (VInt 2)) = false.
  Proof. vm_compute. repeat split; auto. Qed.

  Theorem remove_partition_needs_scalar_keys :
    ~ (forall s R tr v S,
         schema_ok s R -> family_refs s R -> R tr -> keys_nodefault s R ->
         wf_value v = true -> conforms s tr false v = true -> plain v = true ->
         leaf_subset s tr v S ->
         (forall p, wf_path p = true -> ps_has p S = true -> present s tr (remove s tr v S) p = false) /\
         (forall p n, In (p, n) (leaf_nodes s tr v) -> wf_path p = true ->
            (forall q, ps_has q S = true -> is_prefix q p = false) ->
            has_leaf s tr (remove s tr v S) p n = true)).
  Proof.
    intros H.
    destruct (H [] k_R k_tr k_v k_S k_schema_ok k_family ltac:(unfold k_R; simpl; auto) k_nodefault
                eq_refl eq_refl eq_refl k_leaf_subset) as [_ H2].
    assert (Hf : has_leaf [] k_tr (remove [] k_tr k_v k_S) k_p (RNode ex_num (VInt 3)) = true).
    { apply H2; [vm_compute; auto|reflexivity|].
      intros q Hq. destruct (is_prefix q k_p) eqn:E; [|reflexivity]. exfalso.
      pose proof (has_nonnil _ _ Hq) as Hne.
      destruct q as [|e1 [|e2 [|e3 q']]]; [congruence| | |simpl in E; rewrite !andb_false_r in E; discriminate].
      - (* a single element: the set has no member at the root *)
        revert Hq. unfold k_S. set (S0 := ps_of_paths k_L). vm_compute in S0. subst S0.
        unfold ps_has, pes_has. simpl. discriminate.
      - (* two elements: the only child has no member *)
        revert Hq. unfold k_S. set (S0 := ps_of_paths k_L). vm_compute in S0. subst S0.
        unfold ps_has, snm_get, pem_get. cbn [ps_children ps_members].
        match goal with |- context [nth_error ?c ?i] => destruct (nth_error c i) as [[e sub]|] eqn:En end;
          [|discriminate].
        match type of En with nth_error _ ?i = _ => destruct i as [|[|i']] end; simpl in En; try discriminate.
        inversion En; subst e sub. destruct (peeqb _ e1); [|discriminate].
        unfold pes_has. simpl. discriminate. }
    vm_compute in Hf. discriminate.
  Qed.

  (* (b) a list root whose atom also declares a scalar: nothing selected, the extraction is
     null and the null wins the merge (cf. MergeLaws.null_right_multi_kind_list) *)
  Definition ms_tr : typeref :=
    TR None (Atom (Some SString) (Some (ListT ex_str RAssociative [])) None) None.
  Definition ms_R (tr : typeref) : Prop := In tr [ms_tr; ex_str].
  Definition ms_v := VList [VStr "a"].

  Lemma ms_schema_ok : schema_ok [] ms_R.
  Proof.
    constructor.
    - intros tr a t Htr Hr Ha. unfold ms_R in *. split_in Htr;
        vm_compute in Hr; inversion Hr; subst a; simpl in Ha; inversion Ha; subst t; simpl; auto 10.
    - intros tr a m k Htr Hr Ha. unfold ms_R in *. split_in Htr;
        vm_compute in Hr; inversion Hr; subst a; simpl in Ha; inversion Ha.
    - intros tr a Htr Hr. unfold ms_R in *. split_in Htr;
        vm_compute in Hr; inversion Hr; subst a; reflexivity.
  Qed.

  Lemma ms_family : family_refs [] ms_R.
  Proof.
    intros tr a t Htr Hr Ha. unfold ms_R in *. split_in Htr;
      vm_compute in Hr; inversion Hr; subst a; simpl in Ha; inversion Ha; subst t; simpl; auto.
  Qed.

  Lemma ms_nodefault : keys_nodefault [] ms_R.
  Proof.
    intros tr a t k d Htr Hr Ha Hk. unfold ms_R in *. split_in Htr;
      vm_compute in Hr; inversion Hr; subst a; simpl in Ha; try discriminate; inversion Ha; subst t;
      simpl in Hk; contradiction.
  Qed.

  Lemma ms_scalar : keys_scalar [] ms_R.
  Proof.
    intros tr a t k ea mt Htr Hr Ha Hk. unfold ms_R in *. split_in Htr;
      vm_compute in Hr; inversion Hr; subst a; simpl in Ha; try discriminate; inversion Ha; subst t;
      simpl in Hk; contradiction.
  Qed.

  Lemma ms_leaf_subset : leaf_subset [] ms_tr ms_v ps_empty_set.
  Proof.
    split; [reflexivity|]. eexists. split; [vm_compute; reflexivity|].
    intros p _ Hh. rewrite (ps_empty_has ps_empty_set p eq_refl) in Hh. discriminate.
  Qed.

  Theorem merge_partition_needs_pure_list_root :
    ~ (forall s R tr v S out,
         schema_ok s R -> family_refs s R -> R tr -> keys_nodefault s R -> keys_scalar s R ->
         wf_value v = true -> conforms s tr false v = true -> plain v = true ->
         leaf_subset s tr v S ->
         merge s tr (remove s tr v S) (extract s tr true v S) = Some (Some out) ->
         veq_assoc s tr out v = true).
  Proof.
    intros H.
    assert (Hf : veq_assoc [] ms_tr VNull ms_v = true).
    { apply (H [] ms_R ms_tr ms_v ps_empty_set VNull ms_schema_ok ms_family
               ltac:(unfold ms_R; simpl; auto) ms_nodefault ms_scalar eq_refl eq_refl eq_refl
               ms_leaf_subset).
      vm_compute. reflexivity. }
    vm_compute in Hf. discriminate.
  Qed.
End Counterexamples.

(* ================= non-vacuity: the example schema ================= *)
From SMD Require Proofs.ApplyInv.

Section Example.
  Open Scope string_scope.

  (* a keyed list with two members, the first holding a set *)
  Definition px_v : value :=
    VMap [("aa", VInt 1);
          ("items", VList [VMap [("name", VStr "x"); ("tags", VList [VStr "t1"; VStr "t2"]); ("vv", VInt 1)];
                           VMap [("name", VStr "y"); ("vv", VInt 2)]]);
          ("mm", VMap [("k", VInt 5)])].
  Definition px_x := PEKey [("name", VStr "x")].
  Definition px_y := PEKey [("name", VStr "y")].
  (* one set member of the first list member, one non-key leaf of the second *)
  Definition px_L : list path :=
    [[PEField "items"; px_x; PEField "tags"; PEValue (VStr "t1")];
     [PEField "items"; px_y; PEField "vv"]].
  Definition px_S := ps_of_paths px_L.

  Lemma px_leaf_subset : leaf_subset ex_schema ex_rt px_v px_S.
  Proof. unfold px_S. eapply leaf_subset_intro; try (vm_compute; reflexivity). Qed.

  Definition px_removed : value :=
    VMap [("aa", VInt 1);
          ("items", VList [VMap [("name", VStr "x"); ("tags", VList [VStr "t2"]); ("vv", VInt 1)];
                           VMap [("name", VStr "y")]]);
          ("mm", VMap [("k", VInt 5)])].
  Definition px_extracted : value :=
    VMap [("items", VList [VMap [("name", VStr "x"); ("tags", VList [VStr "t1"])];
                           VMap [("name", VStr "y"); ("vv", VInt 2)]])].

  Example partition_example :
    schema_ok ex_schema ex_R /\ family_refs ex_schema ex_R /\ ex_R ex_rt /\
    keys_nodefault ex_schema ex_R /\ keys_scalar ex_schema ex_R /\ lists_pure ex_schema ex_R /\
    wf_value px_v = true /\ conforms ex_schema ex_rt false px_v = true /\ plain px_v = true /\
    leaf_subset ex_schema ex_rt px_v px_S /\
    remove ex_schema ex_rt px_v px_S = px_removed /\
    extract ex_schema ex_rt true px_v px_S = px_extracted /\
    exists out, merge ex_schema ex_rt px_removed px_extracted = Some (Some out) /\
      veq_assoc ex_schema ex_rt out px_v = true.
  Proof.
    destruct ApplyEffect.ex_keys_plain as [Hnd Hks].
    repeat (split; [first [exact ex_schema_ok | exact ex_family | exact ex_R_root | exact Hnd | exact Hks
                          | exact ApplyInv.ex_lists_pure_fs | exact px_leaf_subset
                          | vm_compute; reflexivity]|]).
    destruct (merge_partition_total ex_schema ex_R ex_rt px_v px_S ex_schema_ok ex_family ex_R_root
                Hnd Hks (lists_pure_root _ _ _ _ ApplyInv.ex_lists_pure_fs ex_R_root)
                eq_refl eq_refl eq_refl px_leaf_subset)
      as (out & Hm & Hv).
    exists out. split; [|exact Hv].
    replace px_removed with (remove ex_schema ex_rt px_v px_S) by (vm_compute; reflexivity).
    replace px_extracted with (extract ex_schema ex_rt true px_v px_S) by (vm_compute; reflexivity).
    exact Hm.
  Qed.

  (* the outcomes at this instance; the merged object has the set members in the order
     t2, t1: equal to the original up to member order only *)
  Example partition_example_clauses :
    (forall p, wf_path p = true -> ps_has p px_S = true ->
       present ex_schema ex_rt px_removed p = false) /\
    has_leaf ex_schema ex_rt px_removed [PEField "items"; px_x; PEField "vv"] (RNode ex_num (VInt 1)) = true /\
    has_leaf ex_schema ex_rt px_extracted [PEField "items"; px_y; PEField "vv"] (RNode ex_num (VInt 2)) = true /\
    merge ex_schema ex_rt px_removed px_extracted =
      Some (Some (VMap [("aa", VInt 1);
                        ("items", VList [VMap [("name", VStr "x"); ("tags", VList [VStr "t2"; VStr "t1"]); ("vv", VInt 1)];
                                         VMap [("name", VStr "y"); ("vv", VInt 2)]]);
                        ("mm", VMap [("k", VInt 5)])])).
  Proof.
    destruct ApplyEffect.ex_keys_plain as [Hnd Hks].
    destruct (remove_partition ex_schema ex_R ex_rt px_v px_S ex_schema_ok ex_family ex_R_root
                Hnd Hks eq_refl eq_refl eq_refl px_leaf_subset) as [H1 _].
    split; [|vm_compute; repeat split].
    replace px_removed with (remove ex_schema ex_rt px_v px_S) by (vm_compute; reflexivity). exact H1.
  Qed.
End Example.

