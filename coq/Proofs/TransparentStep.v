(* Helper of Proofs/Transparent.v, level 2: one Apply / Update at any version label, on
   records at any labels, against the same operation in the single-version run on the
   relabelled records: the two outcomes are the same (same object, same records up to the
   labels, same conflict or error).  Identity converter, one schema for every label. *)
From Coq Require Import List ZArith String Bool Arith Lia Permutation.
From SMD Require Import Model.Value Model.Order Model.PathElem Model.PathSet Model.Schema Model.Walk
  Model.Validate Model.FieldSet Model.Remove Model.Merge Model.Compare Model.Matcher Model.Reconcile
  Model.Updater
  Spec.PathsAsSets Spec.RefValid Spec.Resolve Spec.Agree Spec.RefDiff Spec.Examples
  Proofs.OrderLaws Proofs.PathSetLaws Proofs.SchemaOk Proofs.FieldSetBase Proofs.FieldSetPaths
  Proofs.FieldSetWf Proofs.FieldSetLaws Proofs.RemoveAbsent Proofs.RemoveWf Proofs.ResolveLaws
  Proofs.UpdaterLaws Proofs.UpdaterLaws2 Proofs.MergeLaws Proofs.MergeAgree
  Proofs.RemoveFrame Proofs.EnLaws Proofs.NodeSet Proofs.KeyFields Proofs.VeqbResolve
  Proofs.SetCheckers Proofs.ApplyEffect Proofs.PruneShape Proofs.RemoveExt Proofs.Visible
  Proofs.NodeCount Proofs.OrderIndep Proofs.OrderIndepN Proofs.ApplyInv Proofs.KeySync Proofs.History
  Proofs.TransparentPrune Proofs.TransparentCore Proofs.TransparentMerge Proofs.TransparentRemove.
From SMD Require Proofs.MergeBase.
Import ListNotations.
Open Scope bool_scope.
Open Scope list_scope.

Local Arguments ps_has : simpl never.
Local Arguments ps_empty : simpl never.

(* ================= key fields of owned members, against another object ================= *)

(* a record whose members are nodes of the (duplicate-free) live object and that owns the key
   fields the live object spells out for the members it owns, owns the key fields ANY object
   spells out for them: the key fields of a member are determined by its path element *)
Lemma owns_live_keys_transfer : forall s R, schema_ok s R -> family_refs s R ->
  keys_nodefault s R -> keys_scalar s R ->
  forall tr live X S, R tr ->
  wf_value live = true -> conforms s tr false live = true ->
  wf_value X = true -> conforms s tr true X = true ->
  members_present s tr live S -> owns_live_keys s tr live S -> owns_live_keys s tr X S.
Proof.
  intros s R Hok Hfam Hnd Hks tr live X S Htr Hwl Hcl HwX HcX Hmp Holk pre fl k Hp Hk Hitem HprX.
  apply (Holk pre fl k Hp Hk Hitem).
  pose proof (wf_path_key_prefix pre fl k [] Hp) as Hp1.
  destruct (key_field_nodes s R Hok Hfam Hks pre fl k X tr true Htr HwX HcX Hp Hk HprX)
    as (tpb & vpb & tb & lb & mb & fb & tmb & y & _ & _ & _ & _ & Eib & _ & _ & _ & _ & _ & Ekmb & _).
  pose proof (Hmp _ Hp1 Hitem) as Hpri. unfold present in Hpri.
  destruct (resolve_path s tr live (pre ++ [PEKey fl])) as [[ti xi|ti xs]|] eqn:Eia; [| |discriminate].
  2:{ exfalso. apply (conforms_no_dup s R Hok Hfam (pre ++ [PEKey fl]) live tr ti xs Htr Hwl Hcl Hp1 Eia). }
  pose proof (resolve_type_det s _ live X tr ti xi _ _ Eia Eib) as Et. subst ti.
  destruct (item_key_explicit s R Hok Hfam Hnd pre fl k live tr false _ xi Htr Hwl Hcl Hp1 Eia Hk)
    as (m0 & val & -> & Ev).
  destruct (kind_map_inv _ _ _ _ _ Ekmb) as (ea & Hre & Hame & _ & Hna & _).
  assert (Ekma : kind_of s (list_elem tb) (VMap m0) = KMap tmb m0).
  { unfold kind_of. rewrite Hre. destruct ea as [sc li ma]. simpl in Hame. subst ma.
    rewrite Hna. destruct m0; [discriminate Ev|reflexivity]. }
  apply (member_has_key s R Hok Hfam Hnd pre fl k live tr false _ _ tmb m0 Htr Hwl Hcl Hp Hk Eia Ekma).
Qed.

(* ================= outcomes ================= *)

Definition same_apply_outcome (ver : string) (a b : ures (option tv * managed)) : Prop :=
  match a, b with
  | UOk (o, mf'), UOk (o1, mf1) => option_map snd o = option_map snd o1 /\ relab ver mf' = mf1
  | UErr e, UErr e1 => e = e1
  | _, _ => False
  end.

Definition same_update_outcome (ver : string) (a b : ures (tv * managed)) : Prop :=
  match a, b with
  | UOk (t, mf'), UOk (t1, mf1) => snd t = snd t1 /\ relab ver mf' = mf1
  | UErr e, UErr e1 => e = e1
  | _, _ => False
  end.

Section Step.
  Variables (c : config) (R : typeref -> Prop) (ver : string).
  Let s := schema_of c ver.
  Let tr := tr_of c ver.

  Hypothesis Hset : setting_ok c R ver.
  Hypothesis Hone : forall v, cfg_schema c v = cfg_schema c ver.
  Hypothesis Hperm : forall l, Permutation l (cfg_version_order c l).

  Lemma Hsch : forall v, cfg_schema c v = (s, tr).
  Proof. intros v. rewrite Hone. unfold s, tr, schema_of, tr_of. apply surjective_pairing. Qed.

  Lemma schema_of_any : forall v, schema_of c v = s.
  Proof. intros v. unfold schema_of. rewrite Hsch. reflexivity. Qed.
  Lemma tr_of_any : forall v, tr_of c v = tr.
  Proof. intros v. unfold tr_of. rewrite Hsch. reflexivity. Qed.

  (* the live object has no duplicate list member *)
  Definition nodup_ok (live : value) : Prop := live = VNull \/ conforms s tr false live = true.

  Lemma nodup_conforms : forall live, conforms s tr true live = true -> nodup_ok live ->
    conforms s tr false live = true.
  Proof.
    intros live Hc [->|H]; [|exact H]. rewrite (conforms_null_dup s tr false true). exact Hc.
  Qed.

  (* the records of a state that satisfies the invariant after relabelling *)
  Lemma relab_state_get : forall live mfv mr, state_ok c ver live (relab ver mfv) -> In mr mfv ->
    mf_get (fst mr) (relab ver mfv) = Some (relab_rec ver (snd mr)).
  Proof.
    intros live mfv mr Hst Hin. unfold mf_get. apply UpdaterLaws.in_assoc_get.
    - apply (so_mf _ _ _ _ Hst).
    - apply (relab_in ver mr mfv Hin).
  Qed.

  Lemma relab_state_current : forall live mfv, state_ok c ver live (relab ver mfv) ->
    forall mr s', In mr mfv -> reconcile_field_set s tr (mr_set (snd mr)) <> Some (Some s').
  Proof.
    intros live mfv Hst mr s' Hin.
    apply (so_current _ _ _ _ Hst (fst mr) (relab_rec ver (snd mr)) s').
    apply (relab_state_get live mfv mr Hst Hin).
  Qed.

  (* ================= Apply ================= *)
  Theorem apply_labels : forall lv live mfv v mgr cfg force,
    state_ok c ver live (relab ver mfv) -> no_empty_list live = true -> nodup_ok live ->
    op_ok c ver (HApply mgr cfg force) ->
    same_apply_outcome ver
      (apply_op c (lv, live) (v, cfg) v mfv mgr force)
      (apply_op c (ver, live) (ver, cfg) ver (relab ver mfv) mgr force) /\
    forall o1 mf1,
      apply_op c (ver, live) (ver, cfg) ver (relab ver mfv) mgr force = UOk (o1, mf1) ->
      forall t, o1 = Some t -> no_empty_list (snd t) = true /\ conforms s tr false (snd t) = true.
  Proof.
    intros lv live mfv v mgr cfg force Hst Hnel Hnd0 Hop.
    pose proof (state_ok_conforms c ver live _ _ Hst Hop) as Hcl. fold s tr in Hcl.
    pose proof (nodup_conforms live Hcl Hnd0) as Hcf.
    pose proof Hset as (Hni & Hcid & Hok & Hfam & Hpure & Htr & Hkp).
    fold s tr in Hok, Hfam, Hpure, Htr, Hkp.
    pose proof Hkp as [Hnd Hks].
    destruct Hop as (Hwc & Hcc & Hpl & Hgr). fold s tr in Hcc, Hgr.
    pose proof (so_wf _ _ _ _ Hst) as Hwl.
    pose proof (so_mf _ _ _ _ Hst) as Hmf1.
    pose proof (proj1 (relab_mf_ok ver mfv) Hmf1) as Hmfv.
    unfold apply_op. cbn [fst snd].
    rewrite !schema_of_any, !tr_of_any.
    destruct (reconcile_labels c s tr Hcid Hsch ver (lv, live) (ver, live) mfv
                (relab_state_current live mfv Hst)) as [[E1 E2]|(n0 & E1 & E2)];
      rewrite E1, E2; [split; [reflexivity|intros o1 mf1 H; discriminate H]|].
    destruct (merge s tr live cfg) as [[M|]|] eqn:Em;
      [|split; [reflexivity|intros o1 mf1 H; discriminate H]
       |split; [reflexivity|intros o1 mf1 H; discriminate H]].
    unfold to_fs. cbn [fst snd]. rewrite !schema_of_any, !tr_of_any.
    destruct (to_field_set s tr cfg) as [set0|] eqn:Eset0;
      [|split; [reflexivity|intros o1 mf1 H; discriminate H]].
    rewrite !(no_ignore_filter c _ Hni). cbn [filter_set].
    (* the merged object *)
    destruct (merge_conforms s R tr live cfg M Hok Hfam Htr Hwl Hwc Hcl Hcc Em) as [HcM HwM].
    destruct (merge_keeps s R Hok Hfam tr live cfg M Htr Hwl Hwc Hcl Hcc Em) as [HnM HfM].
    specialize (HnM Hnel Hpl). specialize (HfM Hcf).
    assert (Hset0ok : ps_ok set0 = true) by (apply (to_field_set_ok s R tr cfg set0 Hok Htr Hwc Eset0)).
    (* the records the prune stage sees *)
    rewrite relab_get.
    set (mfp := mf_set mgr {| mr_set := set0; mr_ver := v; mr_applied := true |} mfv).
    assert (Emfp : mf_set mgr {| mr_set := set0; mr_ver := ver; mr_applied := true |} (relab ver mfv)
                   = relab ver mfp).
    { unfold mfp. rewrite relab_set. reflexivity. }
    rewrite Emfp.
    assert (Hrecs : recs_ok s tr M mfp).
    { intros mr Hin. unfold mfp, mf_set in Hin. apply in_assoc_set in Hin. destruct Hin as [->|Hin].
      - cbn [snd mr_set]. split; [exact Hset0ok|].
        apply (owns_of_key_sync s tr M set0).
        apply (key_sync_field_set s R Hok Hfam Hnd Hks tr cfg set0 M Htr Hwc Hcc Eset0 HwM HcM).
      - pose proof (relab_state_get live mfv mr Hst Hin) as Hg.
        destruct (so_records _ _ _ _ Hst _ _ Hg) as [_ Holk]. cbn [relab_rec mr_set] in Holk.
        split.
        + destruct Hmfv as [_ Hall]. rewrite forallb_forall in Hall. apply (Hall mr Hin).
        + apply (owns_live_keys_transfer s R Hok Hfam Hnd Hks tr live M _ Htr Hwl Hcf HwM HcM); [|exact Holk].
          intros p Hp Hh. apply (so_present _ _ _ _ Hst _ _ p Hg Hp). exact Hh. }
    (* the prune stage *)
    assert (Hprune : exists x l1 k1 l2 k2,
              prune c n0 (lv, M) mfp mgr (mf_get mgr mfv) = UOk ((l1, x), k1) /\
              prune c n0 (ver, M) (relab ver mfp) mgr (option_map (relab_rec ver) (mf_get mgr mfv))
                = UOk ((l2, x), k2) /\
              (x = M \/ exists T, nice s tr M T /\ x = remove s tr M T)).
    { destruct (mf_get mgr mfv) as [last|] eqn:Elast.
      - cbn [option_map].
        assert (Hg : mf_get mgr (relab ver mfv) = Some (relab_rec ver last))
          by (rewrite relab_get, Elast; reflexivity).
        apply (prune_relab c s R tr Hcid Hsch Hperm Hok Hfam Htr Hnd Hks M HwM HfM HnM
                 ver mfp last n0 lv mgr n0 ver mgr).
        + apply (mf_ok_get mfv mgr last Hmfv Elast).
        + apply (so_records _ _ _ _ Hst _ _ Hg).
        + exact Hrecs.
      - exists M, lv, n0, ver, n0. cbn [option_map prune]. auto. }
    destruct Hprune as (x & l1 & k1 & l2 & k2 & P1 & P2 & Hx). rewrite P1, P2.
    (* the object returned *)
    assert (Hxfacts : no_empty_list x = true /\ conforms s tr false x = true).
    { destruct Hx as [->|(T & HnT & ->)]; [auto|]. split.
      - apply remove_nel. exact HnM.
      - apply (remove_conforms_nodup s R Hok Hfam Hnd M tr T Htr HwM HfM HnT). }
    (* the records *)
    pose proof (update_core_labels c s tr ver Hcid Hsch Hni k1 k2 lv ver live l1 l2 x v ver mfp mgr force) as Hu.
    destruct (update_core c k1 (lv, live) (l1, x) v mfp mgr force) as [[[mf2 cmp2] n2]|e2];
      destruct (update_core c k2 (ver, live) (l2, x) ver (relab ver mfp) mgr force) as [[[mf3 cmp3] n3]|e3];
      cbn [same_outcome3] in Hu; try contradiction.
    - destruct Hu as [Hmf _]. cbn [snd].
      destruct (negb (cfg_return_input_on_noop c) && veqb live x).
      + split; [split; [reflexivity|exact Hmf]|]. intros o1 mf1 H t Ht. subst o1. discriminate H.
      + split; [split; [reflexivity|exact Hmf]|]. intros o1 mf1 H t Ht. subst o1.
        inversion H; subst t. cbn [snd]. exact Hxfacts.
    - split; [exact Hu|]. intros o1 mf1 H. discriminate H.
  Qed.

  (* ================= Update ================= *)
  Theorem update_labels : forall lv live mfv v mgr obj,
    state_ok c ver live (relab ver mfv) ->
    same_update_outcome ver
      (update_op c (lv, live) (v, obj) v mfv mgr)
      (update_op c (ver, live) (ver, obj) ver (relab ver mfv) mgr).
  Proof.
    intros lv live mfv v mgr obj Hst.
    pose proof Hset as (Hni & Hcid & _).
    unfold update_op.
    destruct (reconcile_labels c s tr Hcid Hsch ver (lv, live) (ver, live) mfv
                (relab_state_current live mfv Hst)) as [[E1 E2]|(n0 & E1 & E2)];
      rewrite E1, E2; [reflexivity|].
    pose proof (update_core_labels c s tr ver Hcid Hsch Hni n0 n0 lv ver live v ver obj v ver mfv mgr true) as Hu.
    destruct (update_core c n0 (lv, live) (v, obj) v mfv mgr true) as [[[mf2 cmp2] n2]|e2];
      destruct (update_core c n0 (ver, live) (ver, obj) ver (relab ver mfv) mgr true) as [[[mf3 cmp3] n3]|e3];
      cbn [same_outcome3] in Hu; try contradiction; [|exact Hu].
    destruct Hu as [<- <-].
    rewrite !(no_ignore_filter c _ Hni). cbn [filter_set].
    rewrite relab_get.
    assert (Ecur : match option_map (relab_rec ver) (mf_get mgr mf2) with
                   | Some r => mr_set r | None => ps_empty_set end =
                   match mf_get mgr mf2 with Some r => mr_set r | None => ps_empty_set end).
    { destruct (mf_get mgr mf2); reflexivity. }
    rewrite Ecur.
    set (set0 := ps_union (ps_union (ps_diff match mf_get mgr mf2 with Some r => mr_set r | None => ps_empty_set end
                                       (removed cmp2)) (modified cmp2)) (added cmp2)).
    cbn [same_update_outcome snd]. split; [reflexivity|].
    destruct (ps_empty set0); [apply relab_del|apply relab_set].
  Qed.
End Step.
