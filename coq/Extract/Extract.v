(* Extraction of the driver (model + checkers).  ExtrOcamlBasic only: bool, option,
   unit, list, prod, sumbool, sumor map to OCaml's; Z, N, positive, nat, Q, string and
   ascii stay the extracted inductive types.  No Extract Constant of our own. *)
Require Import ExtrOcamlBasic.
From SMD Require Import Base.Sexp Driver.Common Driver.Main Driver.Explain.
Extraction "model.ml" run_case ds_init show_sexp explain_case.
