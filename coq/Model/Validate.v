(* Model of the validating walker (typed/validate.go:84-205).  The result is
   [true] when the Go code reports at least one validation error. *)
From Coq Require Import List ZArith String Bool.
From SMD Require Import Model.Value Model.Order Model.PathElem Model.PathSet Model.Schema Model.Walk.
Import ListNotations.
Open Scope bool_scope.

Fixpoint validate (s : schema) (dup : bool) (tr : typeref) (v : value) {struct v} : bool :=
  match resolve s tr with
  | None => true
  | Some a =>
      match handle_atom (deduce_atom a (Some v)) with
      | HInvalid => true
      | HScalar t => validate_scalar t (Some v)
      | HList t =>
          match v with
          | VNull => false
          | VList l =>
              (* visitListItems *)
              (fix go (l : list value) (observed : pes) {struct l} : bool :=
                 match l with
                 | [] => false
                 | child :: rest =>
                     if negb (rel_is_assoc (list_rel t)) then
                       validate s dup (list_elem t) child || go rest observed
                     else
                       match list_item_to_pe s t child with
                       | None => true
                       | Some e =>
                           (pes_has e observed && negb dup)
                           || validate s dup (list_elem t) child
                           || go rest (pes_insert e observed)
                       end
                 end) l []
          | _ => true
          end
      | HMap t =>
          match v with
          | VNull => false
          | VMap m =>
              (* visitMapItems *)
              (fix go (m : list (string * value)) {struct m} : bool :=
                 match m with
                 | [] => false
                 | (k, child) :: rest =>
                     if has_field t k then
                       validate s dup (field_type t k) child || go rest
                     else if is_empty_tr (map_elem t) then true
                     else validate s dup (map_elem t) child || go rest
                 end) m
          | _ => true
          end
      end
  end.

(* AsTyped: Ok iff no validation error *)
Definition conforms_b (s : schema) (tr : typeref) (dup : bool) (v : value) : bool :=
  negb (validate s dup tr v).
