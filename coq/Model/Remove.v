(* Model of the shared remove/extract walker (typed/remove.go:36-165) and of
   TypedValue.RemoveItems / ExtractItems (typed/typed.go:198-238). *)
From Coq Require Import List ZArith String Bool.
From SMD Require Import Model.Value Model.Order Model.PathElem Model.PathSet Model.Schema
  Model.Walk Model.FieldSet.
Import ListNotations.
Open Scope bool_scope.

(* removeItemsWithSchema; the result is value.NewValueInterface(w.out): a walker that
   leaves [out] nil yields null *)
Fixpoint remove_items (s : schema) (extract : bool) (tr : typeref) (toRemove : pset)
  (v : value) {struct v} : value :=
  match resolve s tr with
  | None => VNull
  | Some a =>
      match handle_atom (deduce_atom a (Some v)) with
      | HInvalid => VNull
      | HScalar _ => v
      | HList t =>
          match v with
          | VList [] => VNull
          | VList l =>
              if rel_is_atomic (list_rel t) then (if extract then v else VNull)
              else
                let items :=
                  (fix go (l : list value) {struct l} : list value :=
                     match l with
                     | [] => []
                     | item :: rest =>
                         (* errors of listItemToPathElement are ignored (remove.go:83) *)
                         let e := list_item_pe_or_zero s t item in
                         let has := ps_has [e] toRemove in
                         let subset := ps_with_prefix e toRemove in
                         if has && negb extract then go rest
                         else if has && ps_empty subset then
                           (* extracting an item that is selected with nothing beneath it *)
                           remove_items s extract (list_elem t) subset item :: go rest
                         else if negb (ps_empty subset) then
                           remove_items s extract (list_elem t) subset item :: go rest
                         else if extract then go rest
                         else item :: go rest
                     end) l in
                match items with [] => VNull | _ => VList items end
          | _ => VNull
          end
      | HMap t =>
          match v with
          | VMap [] => VNull
          | VMap m =>
              if rel_is_atomic (map_rel t) then (if extract then v else VNull)
              else
                let out :=
                  (fix go (m : list (string * value)) {struct m} : list (string * value) :=
                     match m with
                     | [] => []
                     | (k, val) :: rest =>
                         let e := PEField k in
                         let ft := field_type t k in
                         if ps_has [e] toRemove then
                           (* what is selected beneath the entry decides what is taken from it
                              (remove.go as repaired: the walker used to descend with the
                              selection of the PARENT level, F27) *)
                           if extract then (k, remove_items s extract ft (ps_with_prefix e toRemove) val) :: go rest
                           else go rest
                         else
                           let subset := ps_with_prefix e toRemove in
                           if negb (ps_empty subset) then
                             (k, remove_items s extract ft subset val) :: go rest
                           else if extract then go rest
                           else (k, val) :: go rest
                     end) m in
                match out with [] => VNull | _ => VMap out end
          | _ => VNull
          end
      end
  end.

Definition remove (s : schema) (tr : typeref) (v : value) (items : pset) : value :=
  remove_items s false tr items v.

(* key-field paths appended by ExtractItems(WithAppendKeyFields) *)
Fixpoint key_field_paths (prefix : path) (p : path) : list path :=
  match p with
  | [] => []
  | e :: rest =>
      let here := prefix ++ [e] in
      match e with
      | PEKey k => map (fun kv => here ++ [PEField (fst kv)]) k
      | _ => []
      end ++ key_field_paths here rest
  end.

Definition extract (s : schema) (tr : typeref) (withKeys : bool) (v : value) (items : pset) : value :=
  let items' :=
    if withKeys then
      match to_field_set s tr v with
      | Some tvset =>
          let extra :=
            flat_map (fun p => if ps_has p tvset then key_field_paths [] p else []) (ps_elems items) in
          ps_union items (ps_of_paths extra)
      | None => items
      end
    else items in
  remove_items s true tr items' v.
