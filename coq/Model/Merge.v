(* Model of the merging walker (typed/merge.go:55-427) with rule = ruleKeepRHS and no
   post-item hook (TypedValue.Merge).  [None] stands for Go's nil Value (absent);
   an explicit null is [Some VNull].  Result: (errors reported?, w.out). *)
From Coq Require Import List ZArith String Bool Arith.
From SMD Require Import Model.Value Model.Order Model.PathElem Model.PathSet Model.Schema Model.Walk.
Import ListNotations.
Open Scope bool_scope.

Definition keep_rhs (lhs rhs : option value) : option value :=
  match rhs with Some _ => rhs | None => lhs end.

(* indexListPathElements: (path elements in order, observed map, errors?) *)
Fixpoint index_list_pes (s : schema) (t : listT) (allowDup : bool) (l : list value)
  (pes_acc : list pe) (observed : pem value) (err : bool) : list pe * pem value * bool :=
  match l with
  | [] => (pes_acc, observed, err)
  | child :: rest =>
      match list_item_to_pe s t child with
      | None => index_list_pes s t allowDup rest pes_acc observed true
      | Some e =>
          match pem_get e observed with
          | Some _ =>
              if allowDup then
                (* duplicated items are not merged with the new value: make them null *)
                index_list_pes s t allowDup rest (pes_acc ++ [e]) (pem_insert e VNull observed) err
              else index_list_pes s t allowDup rest pes_acc observed true
          | None => index_list_pes s t allowDup rest (pes_acc ++ [e]) (pem_insert e child observed) err
          end
      end
  end.

Definition pop_shared (sharedOrder : list pe) : option pe * list pe :=
  match sharedOrder with
  | [] => (None, [])
  | x :: t => (Some x, t)
  end.

Definition opt_pe_eqb_neg (ns : option pe) (e : pe) : bool :=
  (* nextShared != nil && !nextShared.Equals(e) *)
  match ns with Some n => negb (peeqb n e) | None => false end.

Section merge_loop.
  (* mergeListItem for the element type, supplied by the enclosing walker *)
  Variable merge_item : pe -> option value -> option value -> bool * option value.
  Variable observedLHS observedRHS : pem value.

  (* the index loop of visitListItems (merge.go:199-273); [lhs] pairs every left item
     with its path element; out is accumulated in reverse *)
  Fixpoint merge_loop (fuel : nat) (lhs : list (pe * value)) (rhs : list pe)
    (nextShared : option pe) (sharedOrder : list pe) (mergedRHS : pem unit)
    (out : list value) (err : bool) : option (list value * bool) :=
    match fuel with
    | O => None
    | S fuel' =>
        match lhs, rhs with
        | [], [] => Some (rev out, err)
        | _, _ =>
            (* first block: both indexes in range *)
            let both :=
              match lhs, rhs with
              | (lpe, _) :: lrest, rpe :: rrest =>
                  if peeqb lpe rpe then
                    let '(e, o) := merge_item lpe (pem_get lpe observedLHS) (pem_get lpe observedRHS) in
                    let '(ns, so) := pop_shared sharedOrder in
                    Some (merge_loop fuel' lrest rrest ns so (pem_insert lpe tt mergedRHS)
                            (match o with Some x => x :: out | None => out end) (err || e))
                  else
                    match pem_get lpe observedRHS with
                    | Some _ =>
                        if opt_pe_eqb_neg nextShared lpe then
                          Some (merge_loop fuel' lrest rhs nextShared sharedOrder mergedRHS out err)
                        else None
                    | None => None
                    end
              | _, _ => None
              end in
            match both with
            | Some r => r
            | None =>
                (* second block: lI in range *)
                let second :=
                  match lhs with
                  | (lpe, lchild) :: lrest =>
                      match pem_get lpe observedRHS with
                      | None =>
                          let '(e, o) := merge_item lpe (Some lchild) None in
                          inl (merge_loop fuel' lrest rhs nextShared sharedOrder mergedRHS
                                 (match o with Some x => x :: out | None => out end) (err || e))
                      | Some _ =>
                          match pem_get lpe mergedRHS with
                          | Some _ => inr lrest
                          | None => inr lhs
                          end
                      end
                  | [] => inr lhs
                  end in
                match second with
                | inl r => r
                | inr lhs' =>
                    (* third block: rI in range *)
                    match rhs with
                    | rpe :: rrest =>
                        let '(e, o) := merge_item rpe (pem_get rpe observedLHS) (pem_get rpe observedRHS) in
                        let '(ns, so) :=
                          match nextShared with
                          | Some n => if peeqb n rpe then pop_shared sharedOrder else (nextShared, sharedOrder)
                          | None => (nextShared, sharedOrder)
                          end in
                        merge_loop fuel' lhs' rrest ns so (pem_insert rpe tt mergedRHS)
                          (match o with Some x => x :: out | None => out end) (err || e)
                    | [] => merge_loop fuel' lhs' rhs nextShared sharedOrder mergedRHS out err
                    end
                end
            end
        end
    end.
End merge_loop.

(* union of the keys of two sorted association lists, sorted *)
Fixpoint keys_union (a : list string) : list string -> list string :=
  fix aux (b : list string) : list string :=
    match a, b with
    | [], _ => b
    | _, [] => a
    | x :: xs, y :: ys =>
        match String.compare x y with
        | Lt => x :: keys_union xs b
        | Eq => x :: keys_union xs ys
        | Gt => y :: aux ys
        end
    end.

Fixpoint merge_w (fuel : nat) (s : schema) (tr : typeref) (lhs rhs : option value)
  {struct fuel} : bool * option value :=
  match fuel with
  | O => (true, None)
  | S fuel' =>
      match lhs, rhs with
      | None, None => (true, None)
      | _, _ =>
          match resolve s tr with
          | None => (true, None)
          | Some a =>
              let do_leaf := (false, keep_rhs lhs rhs) in
              let handle (h : handled) : bool * option value :=
                match h with
                | HInvalid => (true, None)
                | HScalar t =>
                    if validate_scalar t lhs && validate_scalar t rhs then (true, None)
                    else do_leaf
                | HList t =>
                    let l := deref_list lhs in
                    let r := deref_list rhs in
                    let is_empty (x : option (list value)) :=
                      match x with None | Some [] => true | _ => false end in
                    if rel_is_atomic (list_rel t) || (is_empty l && is_empty r) then do_leaf
                    else
                      let ll := match l with Some x => x | None => [] end in
                      let rl := match r with Some x => x | None => [] end in
                      let '(rhsPEs, observedRHS, rerr) := index_list_pes s t false rl [] [] false in
                      let '(lhsPEs, observedLHS, lerr) := index_list_pes s t true ll [] [] false in
                      if rerr || lerr then (true, None)
                      else
                        let sharedOrder :=
                          filter (fun e => match pem_get e observedLHS with Some _ => true | None => false end) rhsPEs in
                        let '(ns, so) := pop_shared sharedOrder in
                        let merge_item (e : pe) (lc rc : option value) :=
                          merge_w fuel' s (list_elem t) lc rc in
                        match merge_loop merge_item observedLHS observedRHS
                                (2 * (List.length ll + List.length rl) + 2)
                                (combine lhsPEs ll) rhsPEs ns so [] [] false with
                        | None => (true, None)
                        | Some (out, e) =>
                            (e, match out with [] => None | _ => Some (VList out) end)
                        end
                | HMap t =>
                    let l := deref_map lhs in
                    let r := deref_map rhs in
                    let is_empty (x : option (list (string * value))) :=
                      match x with None | Some [] => true | _ => false end in
                    if rel_is_atomic (map_rel t) || (is_empty l && is_empty r) then do_leaf
                    else
                      let lm := match l with Some x => x | None => [] end in
                      let rm := match r with Some x => x | None => [] end in
                      let keys := keys_union (map fst lm) (map fst rm) in
                      let '(e, out) :=
                        fold_left
                          (fun (acc : bool * list (string * value)) k =>
                             let '(e1, o) := merge_w fuel' s (field_type t k) (assoc_get k lm) (assoc_get k rm) in
                             (fst acc || e1,
                              match o with Some x => snd acc ++ [(k, x)] | None => snd acc end))
                          keys (false, []) in
                      (e, match out with [] => None | _ => Some (VMap out) end)
                end in
              let alhs := deduce_atom a lhs in
              let arhs := deduce_atom a rhs in
              match rhs with
              | None => handle (handle_atom alhs)
              | Some _ =>
                  match lhs with
                  | None => handle (handle_atom arhs)
                  | Some _ =>
                      if atom_eqb alhs arhs then handle (handle_atom arhs)
                      else
                        (* kind change: the left atom is walked on a copy whose output is
                           dropped, only its errors are kept *)
                        let '(e1, _) := handle (handle_atom alhs) in
                        let '(e2, o) := handle (handle_atom arhs) in
                        (e1 || e2, o)
                  end
              end
          end
      end
  end.

Definition merge_fuel (l r : value) : nat := S (S (vdepth l + vdepth r)).

(* TypedValue.Merge: None = error; Some None = success with a nil value *)
Definition merge (s : schema) (tr : typeref) (l r : value) : option (option value) :=
  let '(e, o) := merge_w (merge_fuel l r) s tr (Some l) (Some r) in
  if e then None else Some o.
