(* Model of typed/helpers.go:105-258: atom deduction, atom dispatch, list/map access,
   conversion of a list item to its path element (with key defaults). *)
From Coq Require Import List ZArith String Bool.
From SMD Require Import Model.Value Model.Order Model.PathElem Model.Schema.
Import ListNotations.
Open Scope bool_scope.

(* deduceAtom: [None] is Go's nil Value; an explicit null leaves the atom as it is *)
Definition deduce_atom (a : atom) (v : option value) : atom :=
  match a, v with
  | Atom sc li ma, Some v =>
      if is_scalar v then match sc with Some _ => Atom sc None None | None => a end
      else if is_list v then match li with Some _ => Atom None li None | None => a end
      else if is_map v then match ma with Some _ => Atom None None ma | None => a end
      else a
  | _, None => a
  end.

Inductive handled : Type :=
| HMap (t : mapT) | HScalar (t : scalar) | HList (t : listT) | HInvalid.

(* handleAtom: map first, then scalar, then list *)
Definition handle_atom (a : atom) : handled :=
  match a with
  | Atom _ _ (Some m) => HMap m
  | Atom (Some s) _ None => HScalar s
  | Atom None (Some l) None => HList l
  | Atom None None None => HInvalid
  end.

(* listValue / mapValue: [inl] is the error case; [inr None] is the nil list/map *)
Definition list_value (v : value) : option (option (list value)) :=
  match v with
  | VNull => Some None
  | VList l => Some (Some l)
  | _ => None
  end.

Definition map_value (v : value) : option (option (list (string * value))) :=
  match v with
  | VNull => Some None
  | VMap m => Some (Some m)
  | _ => None
  end.

(* derefList / derefMap as used by merge and compare: errors are ignored there, so an
   absent value, a null and a value of the wrong kind all give the nil list/map *)
Definition deref_list (v : option value) : option (list value) :=
  match v with Some (VList l) => Some l | _ => None end.

Definition deref_map (v : option value) : option (list (string * value)) :=
  match v with Some (VMap m) => Some m | _ => None end.

(* getAssociativeKeyDefault *)
Definition key_default (s : schema) (t : listT) (fieldName : string) : option (option value) :=
  match resolve s (list_elem t) with
  | None => None
  | Some (Atom _ _ None) => None
  | Some (Atom _ _ (Some m)) =>
      match find_field (map_fields m) fieldName with
      | Some f => Some (sf_default f)
      | None => Some None
      end
  end.

(* keyedAssociativeListItemToPathElement *)
Definition keyed_item_to_pe (s : schema) (t : listT) (child : value) : option pe :=
  match child with
  | VMap m =>
      let fix go (keys : list string) : option fieldlist :=
          match keys with
          | [] => Some []
          | k :: ks =>
              match assoc_get k m with
              | Some v =>
                  match go ks with Some r => Some ((k, v) :: r) | None => None end
              | None =>
                  match key_default s t k with
                  | Some (Some d) =>
                      match go ks with Some r => Some ((k, d) :: r) | None => None end
                  | _ => None
                  end
              end
          end in
      match go (list_keys t) with
      | Some fl => Some (PEKey (fl_sort fl))
      | None => None
      end
  | _ => None
  end.

(* setItemToPathElement *)
Definition set_item_to_pe (child : value) : option pe :=
  match child with
  | VMap _ | VList _ | VNull => None
  | _ => Some (PEValue child)
  end.

(* listItemToPathElement *)
(* The zero fieldpath.PathElement{} (no member set), which listItemToPathElement returns
   together with its error and which the field-set and removing walkers go on to use.
   PathElement.Compare puts it after every other element and equal to itself; it is
   modelled as an index beyond the range of a Go int, which sorts the same way and
   collides with no element of the implementation. *)
Definition pe_zero : pe := PEIndex (2 ^ 70)%Z.

Definition list_item_to_pe (s : schema) (t : listT) (child : value) : option pe :=
  if negb (rel_is_assoc (list_rel t)) then None
  else match list_keys t with
       | _ :: _ => keyed_item_to_pe s t child
       | [] => set_item_to_pe child
       end.

(* listItemToPathElement with its error ignored *)
Definition list_item_pe_or_zero (s : schema) (t : listT) (child : value) : pe :=
  match list_item_to_pe s t child with Some e => e | None => pe_zero end.

(* validateScalar: true = error; nil and null are accepted *)
Definition validate_scalar (t : scalar) (v : option value) : bool :=
  match v with
  | None => false
  | Some VNull => false
  | Some v =>
      match t with
      | SNumeric => negb (is_float v || is_int v)
      | SString => negb (is_string v)
      | SBoolean => negb (is_bool v)
      | SUntyped => negb (is_scalar v)
      | SOther _ => true
      end
  end.
