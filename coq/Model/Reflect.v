(* Model for C18: a universe of Go types and typed inhabitants, SMD's reflection view of
   them (value/valuereflect.go, structreflect.go, mapreflect.go, listreflect.go,
   reflectcache.go:98-176, jsontagutil.go) and the view through the standard JSON encoder
   followed by decoding into interface{} (int64-else-float64 numbers).  The second function
   is the SPECIFICATION; the harness validates it against the real encoding/json.
   [None] stands for a panic. *)
From Coq Require Import List ZArith QArith String Bool.
From SMD Require Import Model.Value Model.Order.
Import ListNotations.
Open Scope bool_scope.

Inductive gtype : Type :=
| GBool | GInt | GFloat | GString
| GBytes                      (* []byte *)
| GPtr (t : gtype)
| GSlice (t : gtype)
| GMap (t : gtype)            (* map[string]T *)
| GIface                      (* interface{} holding unstructured data *)
| GStruct (fs : list gfield)
with gfield : Type :=
| GF (goname tagname : string) (skip inline omitempty omitzero embedded : bool) (ty : gtype).

Inductive gval : Type :=
| GVBool (b : bool)
| GVInt (z : Z)
| GVFloat (q : Q)
| GVString (s : string)
| GVBytes (base64 : string)   (* a non-nil byte slice, as its base64 text *)
| GVNil                       (* nil pointer, slice, map or interface *)
| GVPtr (v : gval)
| GVSlice (l : list gval)
| GVMap (kvs : list (string * gval))
| GVIface (u : value)
| GVStruct (fs : list gval).

Definition gf_type (f : gfield) := match f with GF _ _ _ _ _ _ _ t => t end.
Definition gf_skip (f : gfield) := match f with GF _ _ s _ _ _ _ _ => s end.
Definition gf_inline (f : gfield) := match f with GF _ _ _ i _ _ _ _ => i end.
Definition gf_omitempty (f : gfield) := match f with GF _ _ _ _ o _ _ _ => o end.
Definition gf_omitzero (f : gfield) := match f with GF _ _ _ _ _ z _ _ => z end.
Definition gf_embedded (f : gfield) := match f with GF _ _ _ _ _ _ e _ => e end.
Definition gf_jsonname (f : gfield) :=
  match f with GF g t _ _ _ _ _ _ => match t with EmptyString => g | _ => t end end.

(* reflect.Value.IsZero *)
Fixpoint is_zero (v : gval) : bool :=
  match v with
  | GVBool b => negb b
  | GVInt z => Z.eqb z 0
  | GVFloat q => Qeq_bool q 0
  | GVString s => match s with EmptyString => true | _ => false end
  | GVNil => true
  | GVStruct fs => forallb is_zero fs
  | _ => false
  end.

(* isEmpty / isEmptyValue: the omitempty test, the same in both implementations *)
Definition is_empty_val (v : gval) : bool :=
  match v with
  | GVBool b => negb b
  | GVInt z => Z.eqb z 0
  | GVFloat q => Qeq_bool q 0
  | GVString s => match s with EmptyString => true | _ => false end
  | GVBytes s => match s with EmptyString => true | _ => false end
  | GVNil => true
  | GVSlice [] => true
  | GVMap [] => true
  | _ => false
  end.

Definition can_omit (f : gfield) (v : gval) : bool :=
  (gf_omitempty f && is_empty_val v) || (gf_omitzero f && is_zero v).

(* insert keeping keys sorted; a later field with the same JSON name overwrites *)
Definition put (k : string) (v : value) (m : list (string * value)) := assoc_set k v m.

Section views.
  (* [strict]: SMD's view panics on a pointer or interface that is still a pointer or
     interface after one dereference; the JSON encoder follows every level *)
  Variable strict : bool.

  Fixpoint view (fuel : nat) (t : gtype) (v : gval) {struct fuel} : option value :=
    match fuel with
    | O => None
    | S f =>
        (* dereference once *)
        let '(t1, v1, derefd) :=
          match t, v with
          | GPtr t', GVPtr v' => (t', v', true)
          | _, _ => (t, v, false)
          end in
        match t1, v1 with
        | _, GVNil => Some VNull
        | GPtr t2, GVPtr v2 =>
            if strict && derefd then None           (* **T: "unsupported type" *)
            else view f (GPtr t2) (GVPtr v2)
        | GIface, GVIface u =>
            if strict && derefd then None           (* *interface{} *)
            else Some u
        | GBool, GVBool b => Some (VBool b)
        | GInt, GVInt z => Some (VInt z)
        | GFloat, GVFloat q => Some (VFloat q)
        | GString, GVString s => Some (VStr s)
        | GBytes, GVBytes s => Some (VStr s)
        | GSlice te, GVSlice l =>
            (fix go (l : list gval) : option value :=
               match l with
               | [] => Some (VList [])
               | x :: rest =>
                   match view f te x, go rest with
                   | Some y, Some (VList ys) => Some (VList (y :: ys))
                   | _, _ => None
                   end
               end) l
        | GMap te, GVMap kvs =>
            (fix go (kvs : list (string * gval)) : option value :=
               match kvs with
               | [] => Some (VMap [])
               | (k, x) :: rest =>
                   match view f te x, go rest with
                   | Some y, Some (VMap m) => Some (VMap (put k y m))
                   | _, _ => None
                   end
               end) kvs
        | GStruct fs, GVStruct vs =>
            match struct_fields f fs vs with
            | Some m => Some (VMap m)
            | None => None
            end
        | _, _ => None
        end
    end
  (* the JSON object members contributed by the fields of a struct value *)
  with struct_fields (fuel : nat) (fs : list gfield) (vs : list gval) {struct fuel}
    : option (list (string * value)) :=
    match fuel with
    | O => None
    | S f =>
        match fs, vs with
        | [], _ => Some []
        | _ :: _, [] => None
        | fd :: fs', fv :: vs' =>
            match struct_fields f fs' vs' with
            | None => None
            | Some rest =>
                if gf_skip fd then Some rest
                else if gf_inline fd then
                  (* an embedded struct, or pointer to one, tagged inline: its fields are
                     promoted; a nil pointer contributes nothing *)
                  match gf_type fd, fv with
                  | GStruct ifs, GVStruct ivs =>
                      match struct_fields f ifs ivs with
                      | Some inner => Some (fold_right (fun kv acc => put (fst kv) (snd kv) acc) rest inner)
                      | None => None
                      end
                  | GPtr (GStruct ifs), GVPtr (GVStruct ivs) =>
                      match struct_fields f ifs ivs with
                      | Some inner => Some (fold_right (fun kv acc => put (fst kv) (snd kv) acc) rest inner)
                      | None => None
                      end
                  | GPtr (GStruct _), GVNil => Some rest
                  | _, _ => Some rest
                  end
                else if can_omit fd fv then Some rest
                else
                  match view f (gf_type fd) fv with
                  | Some y => Some (put (gf_jsonname fd) y rest)
                  | None => None
                  end
            end
        end
    end.
End views.

Local Open Scope nat_scope.
Fixpoint gdepth (v : gval) : nat :=
  match v with
  | GVPtr x => S (gdepth x)
  | GVSlice l => S (fold_right (fun x acc => Nat.max (gdepth x) acc) O l)
  | GVMap m => S (fold_right (fun kv acc => Nat.max (gdepth (snd kv)) acc) O m)
  | GVStruct l => S (fold_right (fun x acc => Nat.max (gdepth x) acc + 1) O l)
  | _ => 1
  end.

Definition view_fuel (v : gval) : nat := 2 * gdepth v + 4.

(* value.NewValueReflect(&v).Unstructured() *)
Definition reflect_view (t : gtype) (v : gval) : option value := view true (view_fuel v) t v.
(* json.Marshal followed by decoding into interface{} *)
Definition json_view (t : gtype) (v : gval) : option value := view false (view_fuel v) t v.

(* the family of types on which the two views are claimed to coincide: single pointers
   to non-pointer, non-interface types *)
Fixpoint family_t (fuel : nat) (t : gtype) : bool :=
  match fuel with
  | O => false
  | S f =>
      match t with
      | GPtr (GPtr _) | GPtr GIface => false
      | GPtr t' => family_t f t'
      | GSlice t' | GMap t' => family_t f t'
      | GStruct fs =>
          forallb (fun fd => gf_skip fd ||
                             (if gf_inline fd then
                                gf_embedded fd &&
                                match gf_type fd with GStruct _ | GPtr (GStruct _) => true | _ => false end
                              else negb (gf_embedded fd)) &&
                             family_t f (gf_type fd)) fs
      | _ => true
      end
  end.
