(* Model of fieldpath.PathElement (fieldpath/element.go:28-136) and fieldpath.Path
   (fieldpath/path.go:28-72). *)
From Coq Require Import List ZArith String Bool.
From SMD Require Import Model.Value Model.Order.
Import ListNotations.
Open Scope bool_scope.

Inductive pe : Type :=
| PEField (name : string)
| PEKey (key : fieldlist)
| PEValue (v : value)
| PEIndex (i : Z).

(* PathElement.Compare: field names < keys < values < indexes *)
Definition pecmp (a b : pe) : comparison :=
  match a, b with
  | PEField x, PEField y => String.compare x y
  | PEField _, _ => Lt
  | _, PEField _ => Gt
  | PEKey x, PEKey y => fl_cmp x y
  | PEKey _, _ => Lt
  | _, PEKey _ => Gt
  | PEValue x, PEValue y => vcmp x y
  | PEValue _, _ => Lt
  | _, PEValue _ => Gt
  | PEIndex x, PEIndex y => Z.compare x y
  end.

Definition peless (a b : pe) : bool :=
  match pecmp a b with Lt => true | _ => false end.

(* PathElement.Equals *)
Definition peeqb (a b : pe) : bool :=
  match a, b with
  | PEField x, PEField y => String.eqb x y
  | PEKey x, PEKey y => fl_eqb x y
  | PEValue x, PEValue y => veqb x y
  | PEIndex x, PEIndex y => Z.eqb x y
  | _, _ => false
  end.

Definition path := list pe.

(* Path.Compare: lexical, a proper prefix first *)
Fixpoint pathcmp (p q : path) : comparison :=
  match p, q with
  | [], [] => Eq
  | [], _ :: _ => Lt
  | _ :: _, [] => Gt
  | x :: xs, y :: ys => match pecmp x y with Eq => pathcmp xs ys | c => c end
  end.

(* Path.Equals *)
Fixpoint patheqb (p q : path) : bool :=
  match p, q with
  | [], [] => true
  | x :: xs, y :: ys => peeqb x y && patheqb xs ys
  | _, _ => false
  end.

Definition pe_default : pe := PEIndex 0.
