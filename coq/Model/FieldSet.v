(* Model of the field-set walker (typed/tofieldset.go:86-190) and of
   EnsureNamedFieldsAreMembers (fieldpath/set.go:118-140, 649-672).
   [fs_paths] lists the paths in the order the walker inserts them; ToFieldSet is the
   trie obtained by inserting them one after the other. *)
From Coq Require Import List ZArith String Bool.
From SMD Require Import Model.Value Model.Order Model.PathElem Model.PathSet Model.Schema Model.Walk.
Import ListNotations.
Open Scope bool_scope.

(* result: (schema error?, inserted paths in order); [prefix] is the walker's path *)
Fixpoint fs_paths (s : schema) (tr : typeref) (prefix : path) (v : value) {struct v}
  : bool * list path :=
  match resolve s tr with
  | None => (true, [])
  | Some a =>
      match handle_atom (deduce_atom a (Some v)) with
      | HInvalid => (true, [])
      | HScalar _ => (false, [prefix])
      | HList t =>
          if rel_is_atomic (list_rel t) then (false, [prefix])
          else
            match v with
            | VList l =>
                (* first pass: which path elements occur more than once *)
                let fix pass1 (l : list value) (seen dups : pes) (acc : list path) (err : bool)
                  {struct l} : pes * list path * bool :=
                    match l with
                    | [] => (dups, acc, err)
                    | child :: rest =>
                        (* the error of listItemToPathElement is ignored (tofieldset.go:103) *)
                        let e := list_item_pe_or_zero s t child in
                        if pes_has e seen then
                          if pes_has e dups then pass1 rest seen dups acc err
                          else pass1 rest seen (pes_insert e dups) (acc ++ [prefix ++ [e]]) err
                        else pass1 rest (pes_insert e seen) dups acc err
                    end in
                let '(dups, acc1, err1) := pass1 l [] [] [] false in
                (* second pass: descend into the items that are not duplicated *)
                let '(e2, r2) :=
                  (fix pass2 (l : list value) {struct l} : bool * list path :=
                     match l with
                     | [] => (false, [])
                     | child :: rest =>
                         let '(e2, r) := pass2 rest in
                         let e := list_item_pe_or_zero s t child in
                         if pes_has e dups then (e2, r)
                         else
                           let '(e1, sub) := fs_paths s (list_elem t) (prefix ++ [e]) child in
                           (e1 || e2, sub ++ [prefix ++ [e]] ++ r)
                     end) l in
                (err1 || e2, acc1 ++ r2)
            | _ => (false, [])
            end
      | HMap t =>
          if rel_is_atomic (map_rel t) then (false, [prefix])
          else
            match v with
            | VMap m =>
                (fix go (m : list (string * value)) {struct m} : bool * list path :=
                   match m with
                   | [] => (false, [])
                   | (k, child) :: rest =>
                       let p := prefix ++ [PEField k] in
                       let '(e1, sub) := fs_paths s (field_type t k) p child in
                       let own :=
                         match child with
                         | VNull => [p]
                         | VMap [] => [p]
                         | _ => if has_field t k then [] else [p]
                         end in
                       let '(e2, r) := go rest in
                       (e1 || e2, sub ++ own ++ r)
                   end) m
            | _ => (false, [])
            end
      end
  end.

(* TypedValue.ToFieldSet *)
Definition to_field_set (s : schema) (tr : typeref) (v : value) : option pset :=
  let '(e, ps) := fs_paths s tr [] v in
  if e then None else Some (ps_of_paths ps).

(* Set.EnsureNamedFieldsAreMembers / SetNodeMap.EnsureNamedFieldsAreMembers *)
Definition en_child_tr (a : atom) (e : pe) : typeref :=
  match e, a with
  | PEField n, Atom _ _ (Some mt) => field_type mt n
  | PEKey _, Atom _ (Some lt) _ => list_elem lt
  | _, _ => empty_tr
  end.

Fixpoint ps_en (s : schema) (tr : typeref) (p : pset) {struct p} : pset :=
  match p with
  | PSet m c =>
      let a := match resolve s tr with Some a => a | None => empty_atom end in
      let m' :=
        fold_left (fun acc (ec : pe * pset) =>
                     match fst ec, a with
                     | PEField n, Atom _ _ (Some mt) =>
                         if has_field mt n then pes_insert (PEField n) acc else acc
                     | _, _ => acc
                     end) c m in
      PSet m' (map (fun ec => (fst ec, ps_en s (en_child_tr a (fst ec)) (snd ec))) c)
  end.
