(* Model of the field-set serialisation (fieldpath/serialize.go:79-238) at the level of
   JSON trees with ordered, possibly repeated members -- what jsoniter's ReadMapCB
   delivers and what the stream writer is fed.  Keys are classified path elements; the
   byte-level lexing, string escaping and number formatting are outside the model. *)
From Coq Require Import List ZArith String Bool Arith.
From SMD Require Import Base.Search Model.Value Model.Order Model.PathElem Model.PathSet.
Import ListNotations.
Open Scope bool_scope.

Inductive jkey : Type :=
| JSelf                (* the "." marker: this node is itself a member *)
| JPe (e : pe)         (* a key that deserialises to a path element *)
| JUnknown             (* a well-formed key of unknown kind: skipped *)
| JBad.                (* a key that fails to deserialise: error reported, skipped *)

Inductive jtree : Type := JObj (members : list (jkey * jtree)).

Definition jmembers (t : jtree) := match t with JObj m => m end.

(* ---- emitContentsV1: the two-index interleaving of members and children ---- *)
Fixpoint emit (includeSelf : bool) (s : pset) {struct s} : jtree :=
  match s with
  | PSet ms cs =>
      let self :=
        if includeSelf && negb (match ms, cs with [], [] => true | _, _ => false end)
        then [(JSelf, JObj [])] else [] in
      JObj (self ++
        (fix goc (cs : list (pe * pset)) : pes -> list (jkey * jtree) :=
           fix go (ms : pes) : list (jkey * jtree) :=
             match ms, cs with
             | [], [] => []
             | m :: ms', [] => (JPe m, JObj []) :: go ms'
             | [], (c, sub) :: cs' => (JPe c, emit false sub) :: goc cs' []
             | m :: ms', (c, sub) :: cs' =>
                 match pecmp m c with
                 | Lt => (JPe m, JObj []) :: go ms'
                 | Gt => (JPe c, emit false sub) :: goc cs' ms
                 | Eq => (JPe c, emit true sub) :: goc cs' ms'
                 end
             end) cs ms)
  end.

(* Set.ToJSON *)
Definition to_json (s : pset) : jtree := emit false s.

(* ---- readIterV1 ---- *)

Definition last_pe (l : pes) : option pe := match rev l with x :: _ => Some x | [] => None end.
Definition last_child (l : list (pe * pset)) : option pe := match rev l with (x, _) :: _ => Some x | [] => None end.

(* *children.Children.Descend(pe) = *grandchildren : overwrite or insert *)
Definition set_child (e : pe) (g : pset) (cs : list (pe * pset)) : list (pe * pset) :=
  pem_insert e g cs.

(* result: (children or nil, isMember, error reported) *)
Fixpoint parse (t : jtree) {struct t} : option pset * bool * bool :=
  match t with
  | JObj members =>
      let '(children, isMember, err) :=
        (fix go (l : list (jkey * jtree)) (children : option pset) (isMember err : bool)
           {struct l} : option pset * bool * bool :=
           match l with
           | [] => (children, isMember, err)
           | (k, sub) :: rest =>
               (* once an error has been reported the iterator stops delivering members *)
               if err then (children, isMember, err) else
               match k with
               | JSelf => go rest children true err
               | JUnknown => go rest children isMember err
               | JBad => go rest children isMember true
               | JPe e =>
                   let '(grand, childIsMember, err') := parse sub in
                   let c1 :=
                     if childIsMember then
                       let cur := match children with Some c => c | None => ps_empty_set end in
                       let m := ps_members cur in
                       let appendOK := match last_pe m with None => true | Some x => peless x e end in
                       Some (PSet (if appendOK then m ++ [e] else pes_insert e m) (ps_children cur))
                     else children in
                   let c2 :=
                     match grand with
                     | Some g =>
                         let cur := match c1 with Some c => c | None => ps_empty_set end in
                         let cs := ps_children cur in
                         let appendOK := match last_child cs with None => true | Some x => peless x e end in
                         Some (PSet (ps_members cur) (if appendOK then cs ++ [(e, g)] else set_child e g cs))
                     | None => c1
                     end in
                   go rest c2 isMember (err || err')
               end
           end) members None false false in
      (children, match children with None => true | Some _ => isMember end, err)
  end.

(* Set.FromJSON: the set that is stored, and whether an error is reported *)
Definition from_json (t : jtree) : pset * bool :=
  let '(children, _, err) := parse t in
  (match children with Some c => c | None => ps_empty_set end, err).

(* equality of trees up to Path.Equals on keys *)
Definition jkey_eqb (a b : jkey) : bool :=
  match a, b with
  | JSelf, JSelf | JUnknown, JUnknown | JBad, JBad => true
  | JPe x, JPe y => peeqb x y
  | _, _ => false
  end.

Fixpoint jtree_eqb (a b : jtree) {struct a} : bool :=
  match a, b with
  | JObj m1, JObj m2 =>
      (fix go (m1 m2 : list (jkey * jtree)) {struct m1} : bool :=
         match m1, m2 with
         | [], [] => true
         | (k1, t1) :: r1, (k2, t2) :: r2 => jkey_eqb k1 k2 && jtree_eqb t1 t2 && go r1 r2
         | _, _ => false
         end) m1 m2
  end.
