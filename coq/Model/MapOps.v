(* C18, last sentence: Set and Delete of the generic Map interface (value/map.go,
   mapunstructured.go, mapreflect.go, structreflect.go) seen on the unstructured view of
   the data: a map is a sorted association list, Set inserts or replaces one binding,
   Delete removes one; [update_at] applies such a change to the map found by following a
   path of keys and indexes below a root. *)
From Coq Require Import List ZArith String Bool Arith.
From SMD Require Import Model.Value.
Import ListNotations.
Open Scope bool_scope.

Fixpoint vmap_set (k : string) (v : value) (m : list (string * value)) : list (string * value) :=
  match m with
  | [] => [(k, v)]
  | (k', x) :: rest =>
      match String.compare k k' with
      | Lt => (k, v) :: m
      | Eq => (k, v) :: rest
      | Gt => (k', x) :: vmap_set k v rest
      end
  end.

Fixpoint vmap_delete (k : string) (m : list (string * value)) : list (string * value) :=
  match m with
  | [] => []
  | (k', x) :: rest => if String.eqb k k' then rest else (k', x) :: vmap_delete k rest
  end.

Fixpoint vmap_get (k : string) (m : list (string * value)) : option value :=
  match m with
  | [] => None
  | (k', x) :: rest => if String.eqb k k' then Some x else vmap_get k rest
  end.

Inductive mstep : Type := MKey (k : string) | MIdx (n : nat).

Fixpoint list_update (n : nat) (f : value -> option value) (l : list value) : option (list value) :=
  match l, n with
  | [], _ => None
  | x :: rest, O => match f x with Some y => Some (y :: rest) | None => None end
  | x :: rest, S n' => match list_update n' f rest with Some r => Some (x :: r) | None => None end
  end.

(* apply [f] to the map found at [p] below [v]; None when the path does not lead to a map *)
Fixpoint update_at (p : list mstep) (f : list (string * value) -> list (string * value)) (v : value)
  : option value :=
  match p with
  | [] => match v with VMap m => Some (VMap (f m)) | _ => None end
  | MKey k :: rest =>
      match v with
      | VMap m =>
          match vmap_get k m with
          | Some child =>
              match update_at rest f child with
              | Some child' => Some (VMap (vmap_set k child' m))
              | None => None
              end
          | None => None
          end
      | _ => None
      end
  | MIdx n :: rest =>
      match v with
      | VList l => match list_update n (update_at rest f) l with Some l' => Some (VList l') | None => None end
      | _ => None
      end
  end.

(* reading along a path *)
Fixpoint lookup_at (p : list mstep) (v : value) : option value :=
  match p with
  | [] => Some v
  | MKey k :: rest => match v with VMap m => match vmap_get k m with Some c => lookup_at rest c | None => None end | _ => None end
  | MIdx n :: rest => match v with VList l => match nth_error l n with Some c => lookup_at rest c | None => None end | _ => None end
  end.
