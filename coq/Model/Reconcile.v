(* Model of typed.ReconcileFieldSetWithSchema (typed/reconcile_schema.go:119-290). *)
From Coq Require Import List ZArith String Bool Arith.
From SMD Require Import Model.Value Model.Order Model.PathElem Model.PathSet Model.Schema Model.Walk.
Import ListNotations.
Open Scope bool_scope.

Fixpoint ps_depth (s : pset) : nat :=
  match s with
  | PSet _ c => S (fold_right (fun ec acc => Nat.max (ps_depth (snd ec)) acc) O c)
  end.

Definition is_untyped_deduced_ref (t : typeref) : bool :=
  match t with
  | TR (Some n) _ _ => String.eqb n "__untyped_deduced_"
  | TR None (Atom (Some SUntyped) _ _) _ => true
  | _ => false
  end.

Definition is_untyped_deduced_map (m : mapT) : bool :=
  is_untyped_deduced_ref (map_elem m) && match map_fields m with [] => true | _ => false end.

(* typeRefAtPath *)
Definition type_ref_at_path (t : mapT) (e : pe) : option typeref :=
  let tr := match e with PEField n => field_type t n | _ => map_elem t end in
  if is_empty_tr tr then None else Some tr.

(* result: (error?, paths that turned atomic) -- toRemove and toAdd always hold the same paths *)
Fixpoint reconcile_w (fuel : nat) (s : schema) (tr : typeref) (p : path)
  (fs : option pset) (isAtomic : bool) : bool * list path :=
  match fuel with
  | O => (true, [])
  | S fuel' =>
      match resolve s tr with
      | None => (true, [])
      | Some a =>
          let visit (child_tr : pe -> option typeref) (element : pset) : bool * list path :=
            let handle_element (acc : bool * list path) (e : pe) (isMember : bool) :=
              match child_tr e with
              | None => acc
              | Some ctr =>
                  let sub := snm_get e (ps_children element) in
                  let hasChildren := match sub with Some _ => true | None => false end in
                  let '(e1, r1) := reconcile_w fuel' s ctr (p ++ [e]) sub (isMember && negb hasChildren) in
                  (fst acc || e1, snd acc ++ r1)
              end in
            let acc1 :=
              fold_left (fun acc (ec : pe * pset) =>
                           if pes_has (fst ec) (ps_members element) then acc
                           else handle_element acc (fst ec) false)
                        (ps_children element) (false, []) in
            fold_left (fun acc e => handle_element acc e true) (ps_members element) acc1 in
          match handle_atom a with
          | HInvalid => (true, [])
          | HScalar _ => (false, [])
          | HList t =>
              if negb isAtomic && rel_is_atomic (list_rel t) then (false, [p])
              else match fs with
                   | Some f => visit (fun _ => Some (list_elem t)) f
                   | None => (false, [])
                   end
          | HMap t =>
              if is_untyped_deduced_map t then (false, [])
              else if negb isAtomic && rel_is_atomic (map_rel t) then
                match fs with
                | Some f => if Nat.ltb 0 (ps_size f) then (false, [p]) else (false, [])
                | None => (false, [])
                end
              else match fs with
                   | Some f => visit (type_ref_at_path t) f
                   | None => (false, [])
                   end
          end
      end
  end.

(* None = error; Some None = unchanged (nil); Some (Some s) = reconciled set *)
Definition reconcile_field_set (s : schema) (tr : typeref) (fs : pset) : option (option pset) :=
  let '(e, ps) := reconcile_w (S (ps_depth fs)) s tr [] (Some fs) false in
  if e then None
  else match ps with
       | [] => Some None
       | _ =>
           let t := ps_of_paths ps in
           Some (Some (ps_union (ps_rdiff fs t) t))
       end.
