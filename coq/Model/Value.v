(* Model of value.Value (value/value.go): JSON-like values.
   VInt carries an unbounded Z (the code's int64; no property is about overflow).
   VFloat carries an exact rational: every finite float64 is a dyadic rational and the
   harness converts exactly (big.Rat.SetFloat64); NaN and infinities are outside every
   property's domain.  VMap is an association list; the harness always prints maps sorted
   by key, and [sorted_keys] below is the executable well-formedness predicate. *)
From Coq Require Import List ZArith QArith String Ascii Bool.
Import ListNotations.
Open Scope bool_scope.

Inductive value : Type :=
| VNull
| VBool (b : bool)
| VInt (z : Z)
| VFloat (q : Q)
| VStr (s : string)
| VList (l : list value)
| VMap (kvs : list (string * value)).

(* Induction principle that reaches through the nested lists. *)
Section value_ind'.
  Variable P : value -> Prop.
  Hypothesis Hnull : P VNull.
  Hypothesis Hbool : forall b, P (VBool b).
  Hypothesis Hint : forall z, P (VInt z).
  Hypothesis Hfloat : forall q, P (VFloat q).
  Hypothesis Hstr : forall s, P (VStr s).
  Hypothesis Hlist : forall l, Forall P l -> P (VList l).
  Hypothesis Hmap : forall kvs, Forall (fun kv => P (snd kv)) kvs -> P (VMap kvs).

  Fixpoint value_ind' (v : value) : P v :=
    match v with
    | VNull => Hnull
    | VBool b => Hbool b
    | VInt z => Hint z
    | VFloat q => Hfloat q
    | VStr s => Hstr s
    | VList l =>
        Hlist l ((fix go (l : list value) : Forall P l :=
                    match l with
                    | [] => Forall_nil _
                    | x :: xs => Forall_cons _ (value_ind' x) (go xs)
                    end) l)
    | VMap kvs =>
        Hmap kvs ((fix go (l : list (string * value)) : Forall (fun kv => P (snd kv)) l :=
                     match l with
                     | [] => Forall_nil _
                     | kv :: xs => Forall_cons _ (value_ind' (snd kv)) (go xs)
                     end) kvs)
    end.
End value_ind'.

(* Kind predicates, as the IsXxx methods of the Value interface. *)
Definition is_null (v : value) := match v with VNull => true | _ => false end.
Definition is_bool (v : value) := match v with VBool _ => true | _ => false end.
Definition is_int (v : value) := match v with VInt _ => true | _ => false end.
Definition is_float (v : value) := match v with VFloat _ => true | _ => false end.
Definition is_string (v : value) := match v with VStr _ => true | _ => false end.
Definition is_list (v : value) := match v with VList _ => true | _ => false end.
Definition is_map (v : value) := match v with VMap _ => true | _ => false end.
Definition is_scalar (v : value) :=
  match v with VBool _ | VInt _ | VFloat _ | VStr _ => true | _ => false end.

(* Depth, used as fuel by two-value walkers. *)
Fixpoint vdepth (v : value) : nat :=
  match v with
  | VList l => S (fold_right (fun x acc => Nat.max (vdepth x) acc) O l)
  | VMap kvs => S (fold_right (fun kv acc => Nat.max (vdepth (snd kv)) acc) O kvs)
  | _ => 1%nat
  end.

(* Association-list helpers for VMap (keys are unique and sorted when well formed). *)
Fixpoint assoc_get {A} (k : string) (l : list (string * A)) : option A :=
  match l with
  | [] => None
  | (k', v) :: t => if String.eqb k k' then Some v else assoc_get k t
  end.

Definition assoc_has {A} (k : string) (l : list (string * A)) : bool :=
  match assoc_get k l with Some _ => true | None => false end.

Definition str_ltb (a b : string) : bool :=
  match String.compare a b with Lt => true | _ => false end.

(* insert or replace, keeping the list sorted by key *)
Fixpoint assoc_set {A} (k : string) (v : A) (l : list (string * A)) : list (string * A) :=
  match l with
  | [] => [(k, v)]
  | (k', v') :: t =>
      match String.compare k k' with
      | Lt => (k, v) :: l
      | Eq => (k, v) :: t
      | Gt => (k', v') :: assoc_set k v t
      end
  end.

Fixpoint assoc_remove {A} (k : string) (l : list (string * A)) : list (string * A) :=
  match l with
  | [] => []
  | (k', v') :: t => if String.eqb k k' then t else (k', v') :: assoc_remove k t
  end.

Fixpoint sorted_keys {A} (l : list (string * A)) : bool :=
  match l with
  | [] => true
  | (k, _) :: t =>
      match t with
      | [] => true
      | (k', _) :: _ => str_ltb k k' && sorted_keys t
      end
  end.

(* every VMap inside v has strictly sorted keys *)
Fixpoint wf_value (v : value) : bool :=
  match v with
  | VList l => forallb wf_value l
  | VMap kvs => sorted_keys kvs && forallb (fun kv => wf_value (snd kv)) kvs
  | _ => true
  end.
