(* Model of the shared caches of structured-merge-diff under concurrency (C10): the
   once-guarded indexes (Schema.FindNamedType, Map.FindField), the mutex-guarded cache of
   resolved type references (Schema.Resolve), and the copy-on-write reflection cache
   (value/reflectcache.go).  All three memoise a PURE function; they differ in how an
   entry becomes visible:
     - once:   the whole table is published by a single atomic step (once.Do);
     - mutex:  lookup and insertion happen together under the lock;
     - cow:    a thread works on a snapshot, computes the missing entries locally, and
               publishes current ∪ updates under a lock (atomic.Value Store).
   A thread's call is a sequence of atomic steps; an interleaving is a list of thread
   identifiers saying who moves next.  The Go memory model itself (what is a data race)
   is outside this model: that part is decided by the race detector. *)
From Coq Require Import List Arith Bool.
Import ListNotations.

Section Cache.
  Variables K V : Type.
  Variable f : K -> V.                      (* the pure function being memoised *)
  Variable keqb : K -> K -> bool.
  Hypothesis keqb_eq : forall a b, keqb a b = true -> a = b.

  Definition cache := list (K * V).

  Fixpoint lookup (k : K) (c : cache) : option V :=
    match c with
    | [] => None
    | (k', v) :: t => if keqb k k' then Some v else lookup k t
    end.

  (* every entry is the function's value *)
  Definition sound (c : cache) : Prop := Forall (fun kv : K * V => snd kv = f (fst kv)) c.

  Inductive discipline := Once | Mutex | Cow.

  (* local state of a thread executing get(k) *)
  Inductive tstate : Type :=
  | Start (k : K)
  | Snap (k : K) (snapshot : cache)          (* cow: holds a snapshot, must compute *)
  | Computed (k : K) (v : V) (updates : cache) (* holds a locally computed value *)
  | Done (k : K) (v : V).

  (* the table the once-guarded index publishes: all keys of a given domain *)
  Variable domain : list K.
  Definition full_table : cache := map (fun k => (k, f k)) domain.

  (* one atomic step of a thread against the shared cache *)
  Definition step (d : discipline) (shared : cache) (t : tstate) : cache * tstate :=
    match t with
    | Start k =>
        match d with
        | Once =>
            (* once.Do: whoever comes first publishes the whole table; then read *)
            let shared' := match shared with [] => full_table | _ => shared end in
            (shared', match lookup k shared' with Some v => Done k v | None => Done k (f k) end)
        | Mutex =>
            (* lookup and, on a miss, compute-and-insert under the lock *)
            match lookup k shared with
            | Some v => (shared, Done k v)
            | None => ((k, f k) :: shared, Done k (f k))
            end
        | Cow =>
            match lookup k shared with
            | Some v => (shared, Done k v)
            | None => (shared, Snap k shared)
            end
        end
    | Snap k snap =>
        (* compute against the snapshot, without touching shared state *)
        (shared, Computed k (f k) [(k, f k)])
    | Computed k v updates =>
        (* update(): lock, load current, add the entries it lacks, publish *)
        let merged :=
          fold_left (fun acc (kv : K * V) =>
                       match lookup (fst kv) acc with Some _ => acc | None => kv :: acc end)
                    updates shared in
        (merged, Done k v)
    | Done k v => (shared, Done k v)
    end.

  (* a configuration: shared cache and the threads' local states *)
  Definition config := (cache * list tstate)%type.

  Fixpoint set_nth {A} (n : nat) (x : A) (l : list A) : list A :=
    match l, n with
    | [], _ => []
    | _ :: t, O => x :: t
    | h :: t, S n' => h :: set_nth n' x t
    end.

  Definition run_one (d : discipline) (cfg : config) (who : nat) : config :=
    match nth_error (snd cfg) who with
    | Some t => let '(c', t') := step d (fst cfg) t in (c', set_nth who t' (snd cfg))
    | None => cfg
    end.

  Definition run (d : discipline) (schedule : list nat) (cfg : config) : config :=
    fold_left (run_one d) schedule cfg.

  (* what a thread may hold locally *)
  Definition tsound (t : tstate) : Prop :=
    match t with
    | Start _ => True
    | Snap _ snap => sound snap
    | Computed k v updates => v = f k /\ sound updates
    | Done k v => v = f k
    end.
End Cache.
