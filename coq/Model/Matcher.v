(* Model of PathElementMatcher, SetMatcher, SetMatcher.Merge, Set.FilterIncludeMatches and
   the Filter interface (fieldpath/set.go:142-333, 674-699, 729-783). *)
From Coq Require Import List ZArith String Bool Arith.
From SMD Require Import Base.Search Model.Value Model.Order Model.PathElem Model.PathSet.
Import ListNotations.
Open Scope bool_scope.

(* a wildcard ignores its embedded path element *)
Inductive pematcher : Type := PMWild | PMElem (e : pe).

(* PathElementMatcher.Equals / Less / Compare: wildcards first *)
Definition pm_eqb (a b : pematcher) : bool :=
  match a, b with
  | PMWild, PMWild => true
  | PMElem x, PMElem y => peeqb x y
  | _, _ => false
  end.

Definition pm_cmp (a b : pematcher) : comparison :=
  match a, b with
  | PMWild, PMWild => Eq
  | PMWild, PMElem _ => Lt
  | PMElem _, PMWild => Gt
  | PMElem x, PMElem y => pecmp x y
  end.

Definition pm_less (a b : pematcher) : bool :=
  match a, b with
  | PMWild, PMElem _ => true
  | _, PMWild => false
  | PMElem x, PMElem y => peless x y
  end.

Inductive smatcher : Type :=
| SM (wild : bool) (members : list (pematcher * smatcher)).

Definition sm_wild (m : smatcher) := match m with SM w _ => w end.
Definition sm_members (m : smatcher) := match m with SM _ ms => ms end.

(* PrefixMatcher(parts...) *)
Fixpoint prefix_matcher (parts : list pematcher) : smatcher :=
  match parts with
  | [] => SM true []
  | p :: rest => SM false [(p, prefix_matcher rest)]
  end.

(* sort.Sort(sortedMemberMatcher): insertion sort by Less *)
Fixpoint sm_insert_sorted (x : pematcher * smatcher) (l : list (pematcher * smatcher)) :=
  match l with
  | [] => [x]
  | y :: t => if pm_less (fst y) (fst x) then y :: sm_insert_sorted x t else x :: l
  end.

Definition sm_sort (l : list (pematcher * smatcher)) := fold_right sm_insert_sorted [] l.

Definition sm_find (p : pematcher) (ms : list (pematcher * smatcher)) : nat * bool :=
  find (List.length ms) (fun i =>
    match nth_error ms i with
    | Some (q, _) => pm_cmp p q
    | None => Lt
    end).

(* SetMatcher.Merge *)
Fixpoint sm_merge (fuel : nat) (a b : smatcher) : smatcher :=
  match fuel with
  | O => SM true []
  | S fuel' =>
      if sm_wild a || sm_wild b then SM true []
      else
        let base := sm_members a in
        let merged :=
          fold_left
            (fun (acc : list (pematcher * smatcher)) (m : pematcher * smatcher) =>
               let '(i, ok) := sm_find (fst m) base in
               if ok then
                 match nth_error acc i with
                 | Some (q, c) => replace_at i (q, sm_merge fuel' c (snd m)) acc
                 | None => acc
                 end
               else acc ++ [m])
            (sm_members b) base in
        SM false (sm_sort merged)
  end.

Fixpoint sm_depth (m : smatcher) : nat :=
  match m with SM _ ms => S (fold_right (fun x acc => Nat.max (sm_depth (snd x)) acc) O ms) end.

(* NewIncludeMatcherFilter(matchers...) *)
Definition include_matcher (ms : list smatcher) : smatcher :=
  match ms with
  | [] => SM true []
  | m :: rest =>
      fold_left (fun acc x => sm_merge (S (sm_depth acc + sm_depth x)) acc x) rest m
  end.

(* Set.FilterIncludeMatches / SetNodeMap.FilterIncludeMatches *)
Fixpoint ps_filter_include (s : pset) (pat : smatcher) {struct s} : pset :=
  match s with
  | PSet m c =>
      if sm_wild pat then s
      else
        let matches (e : pe) (pm : pematcher * smatcher) :=
          match fst pm with PMWild => true | PMElem x => peeqb x e end in
        let members :=
          fold_left (fun acc e => if existsb (matches e) (sm_members pat) then pes_insert e acc else acc) m [] in
        let children :=
          (fix go (c : list (pe * pset)) {struct c} : list (pe * pset) :=
             match c with
             | [] => []
             | (e, sub) :: rest =>
                 match List.find (matches e) (sm_members pat) with
                 | Some (_, child) =>
                     let r := ps_filter_include sub child in
                     if Nat.ltb 0 (ps_size r) then (e, r) :: go rest else go rest
                 | None => go rest
                 end
             end) c in
        PSet members children
  end.

(* fieldpath.Filter *)
Inductive sfilter : Type :=
| FExclude (s : pset)
| FInclude (m : smatcher).

Definition apply_filter (f : sfilter) (s : pset) : pset :=
  match f with
  | FExclude ex => ps_rdiff s ex
  | FInclude m => ps_filter_include s m
  end.
