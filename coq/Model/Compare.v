(* Model of the comparing walker (typed/compare.go:107-470) and TypedValue.Compare.
   The three sets are accumulated as lists of inserted paths, in insertion order. *)
From Coq Require Import List ZArith String Bool Arith.
From SMD Require Import Model.Value Model.Order Model.PathElem Model.PathSet Model.Schema
  Model.Walk Model.Merge.
Import ListNotations.
Open Scope bool_scope.

Record cmpacc : Type := mkCmp { c_removed : list path; c_modified : list path; c_added : list path }.

Definition cmp_empty := mkCmp [] [] [].
Definition cmp_app (a b : cmpacc) : cmpacc :=
  mkCmp (c_removed a ++ c_removed b) (c_modified a ++ c_modified b) (c_added a ++ c_added b).
Definition cmp_rem (p : path) := mkCmp [p] [] [].
Definition cmp_mod (p : path) := mkCmp [] [p] [].
Definition cmp_add (p : path) := mkCmp [] [] [p].

(* gather the items of a list by path element, keeping first-occurrence order *)
Fixpoint gather_values (s : schema) (t : listT) (l : list value)
  (vals : pem (list value)) (order : list pe) (err : bool)
  : pem (list value) * list pe * bool :=
  match l with
  | [] => (vals, order, err)
  | child :: rest =>
      match list_item_to_pe s t child with
      | None => gather_values s t rest vals order true
      | Some e =>
          match pem_get e vals with
          | Some vs => gather_values s t rest (pem_insert e (vs ++ [child]) vals) order err
          | None => gather_values s t rest (pem_insert e [child] vals) (order ++ [e]) err
          end
      end
  end.

Fixpoint values_eqb (a b : list value) : bool :=
  match a, b with
  | [], [] => true
  | x :: xs, y :: ys => veqb x y && values_eqb xs ys
  | _, _ => false
  end.

(* result: (errors?, accumulated comparison) *)
Fixpoint compare_w (fuel : nat) (s : schema) (tr : typeref) (p : path) (lhs rhs : option value)
  {struct fuel} : bool * cmpacc :=
  match fuel with
  | O => (true, cmp_empty)
  | S fuel' =>
      match lhs, rhs with
      | None, None => (true, cmp_empty)
      | _, _ =>
          match resolve s tr with
          | None => (true, cmp_empty)
          | Some a =>
              (* doLeaf; the boolean in third position says that inLeaf was set *)
              let do_leaf : bool * cmpacc * bool :=
                (false,
                 match lhs, rhs with
                 | None, _ => cmp_add p
                 | _, None => cmp_rem p
                 | Some l, Some r => if veqb r l then cmp_empty else cmp_mod p
                 end, true) in
              let handle (h : handled) : bool * cmpacc * bool :=
                match h with
                | HInvalid => (true, cmp_empty, false)
                | HScalar t =>
                    if validate_scalar t lhs && validate_scalar t rhs then (true, cmp_empty, false)
                    else do_leaf
                | HList t =>
                    let l := deref_list lhs in
                    let r := deref_list rhs in
                    let is_empty (x : option (list value)) :=
                      match x with None | Some [] => true | _ => false end in
                    if rel_is_atomic (list_rel t) || (is_empty l && is_empty r) then do_leaf
                    else
                      let ll := match l with Some x => x | None => [] end in
                      let rl := match r with Some x => x | None => [] end in
                      let '(lValues, order1, err1) := gather_values s t ll [] [] false in
                      let '(rValues, rorder, err2) := gather_values s t rl [] [] false in
                      let allPEs :=
                        order1 ++ filter (fun e => match pem_get e lValues with Some _ => false | None => true end) rorder in
                      let item (e : pe) (lc rc : option value) :=
                        compare_w fuel' s (list_elem t) (p ++ [e]) lc rc in
                      let step (acc : bool * cmpacc) (e : pe) : bool * cmpacc :=
                        let lList := match pem_get e lValues with Some x => x | None => [] end in
                        let rList := match pem_get e rValues with Some x => x | None => [] end in
                        let '(e1, c1) :=
                          match lList, rList with
                          | [], [] => (false, cmp_empty)
                          | [], [rv] => item e None (Some rv)
                          | [lv], [] => item e (Some lv) None
                          | [lv], [rv] => item e (Some lv) (Some rv)
                          | _ :: _ :: _, _ :: _ :: _ =>
                              (false, if values_eqb lList rList then cmp_empty else cmp_mod (p ++ [e]))
                          | _ :: _ :: _, [] => (false, cmp_rem (p ++ [e]))
                          | _ :: _ :: _, [rv] =>
                              let '(e1, c1) := item e None (Some rv) in
                              (e1, cmp_app c1 (cmp_rem (p ++ [e])))
                          | [], _ :: _ :: _ => (false, cmp_add (p ++ [e]))
                          | [lv], _ :: _ :: _ =>
                              let '(e1, c1) := item e (Some lv) None in
                              (e1, cmp_app c1 (cmp_add (p ++ [e])))
                          end in
                        (fst acc || e1, cmp_app (snd acc) c1) in
                      let '(e, c) := fold_left step allPEs (err1 || err2, cmp_empty) in
                      (e, c, false)
                | HMap t =>
                    let l := deref_map lhs in
                    let r := deref_map rhs in
                    let is_empty (x : option (list (string * value))) :=
                      match x with None | Some [] => true | _ => false end in
                    if rel_is_atomic (map_rel t) || (is_empty l && is_empty r) then do_leaf
                    else
                      let lm := match l with Some x => x | None => [] end in
                      let rm := match r with Some x => x | None => [] end in
                      let keys := keys_union (map fst lm) (map fst rm) in
                      let '(e, c) :=
                        fold_left
                          (fun (acc : bool * cmpacc) k =>
                             let '(e1, c1) :=
                               compare_w fuel' s (field_type t k) (p ++ [PEField k])
                                 (assoc_get k lm) (assoc_get k rm) in
                             (fst acc || e1, cmp_app (snd acc) c1))
                          keys (false, cmp_empty) in
                      (e, c, false)
                end in
              let alhs := deduce_atom a lhs in
              let arhs := deduce_atom a rhs in
              let '(e, c, leafed) :=
                match rhs with
                | None => handle (handle_atom alhs)
                | Some _ =>
                    match lhs with
                    | None => handle (handle_atom arhs)
                    | Some _ =>
                        if atom_eqb alhs arhs then handle (handle_atom arhs)
                        else
                          (* kind change: the copy w2 shares the comparison sets *)
                          let '(e1, c1, _) := handle (handle_atom alhs) in
                          let '(e2, c2, lf) := handle (handle_atom arhs) in
                          (e1 || e2, cmp_app c1 c2, lf)
                    end
                end in
              let tail :=
                if leafed then cmp_empty
                else match lhs, rhs with
                     | None, _ => cmp_add p
                     | _, None => cmp_rem p
                     | _, _ => cmp_empty
                     end in
              (e, cmp_app c tail)
          end
      end
  end.

Record comparison3 : Type := mkC3 { removed : pset; modified : pset; added : pset }.

(* TypedValue.Compare: None = error *)
Definition compare (s : schema) (tr : typeref) (l r : value) : option comparison3 :=
  let '(e, c) := compare_w (merge_fuel l r) s tr [] (Some l) (Some r) in
  if e then None
  else Some (mkC3 (ps_of_paths (c_removed c)) (ps_of_paths (c_modified c)) (ps_of_paths (c_added c))).

Definition c3_is_same (c : comparison3) : bool :=
  ps_empty (removed c) && ps_empty (modified c) && ps_empty (added c).
