(* Model of merge.Updater (merge/update.go:73-395), merge.ConflictsFromManagers
   (merge/conflict.go:108-121) and fieldpath.ManagedFields (fieldpath/managers.go).

   Go maps of managers and of versions are association lists sorted by key; the one loop
   whose iteration ORDER can influence the result (add-back over versions,
   update.go:302) takes an explicit ordering oracle.  The converter is a parameter: the
   n-th call of Convert is [cv_convert n from to value]. *)
From Coq Require Import List ZArith String Bool Arith.
From SMD Require Import Model.Value Model.Order Model.PathElem Model.PathSet Model.Schema
  Model.Walk Model.Validate Model.FieldSet Model.Remove Model.Merge Model.Compare
  Model.Matcher Model.Reconcile.
Import ListNotations.
Open Scope bool_scope.

Record mrec : Type := mkRec { mr_set : pset; mr_ver : string; mr_applied : bool }.
Definition managed := list (string * mrec).

(* typed value: the API version it is expressed in, and the value *)
Definition tv := (string * value)%type.

Inductive cres : Type := COk (v : value) | CMissing | CFail.

Record config : Type := mkConfig {
  (* schema and root type of each API version *)
  cfg_schema : string -> schema * typeref;
  (* Converter.Convert: call index, from, to, value *)
  cfg_convert : nat -> string -> string -> value -> cres;
  cfg_ignored_fields : option (list (string * pset));
  cfg_ignore_filter : option (list (string * sfilter));
  cfg_return_input_on_noop : bool;
  (* order in which the add-back loop visits the versions other than the pruned one *)
  cfg_version_order : list string -> list string
}.

Inductive uerr : Type :=
| EConflict (cs : list (string * path))
| EOther
| EPanic.

Inductive ures (A : Type) : Type :=
| UOk (a : A)
| UErr (e : uerr).
Arguments UOk {A} a.
Arguments UErr {A} e.

Definition mf_get (m : string) (mf : managed) : option mrec := assoc_get m mf.
Definition mf_set (m : string) (r : mrec) (mf : managed) : managed := assoc_set m r mf.
Definition mf_del (m : string) (mf : managed) : managed := assoc_remove m mf.

Definition schema_of (c : config) (ver : string) := fst (cfg_schema c ver).
Definition tr_of (c : config) (ver : string) := snd (cfg_schema c ver).

(* Convert(object, version) -> (result, next call index) *)
Definition convert (c : config) (n : nat) (o : tv) (ver : string) : cres * nat :=
  (cfg_convert c n (fst o) ver (snd o), S n).

(* the ignore configuration for a version: nil *Set / nil Filter = nothing ignored *)
Definition ignore_filter_for (c : config) (ver : string) : option (option sfilter) :=
  match cfg_ignored_fields c, cfg_ignore_filter c with
  | Some _, Some _ => None   (* both set: error *)
  | Some sets, None =>
      Some (match assoc_get ver sets with Some s => Some (FExclude s) | None => None end)
  | None, Some fs => Some (assoc_get ver fs)
  | None, None => Some None
  end.

Definition filter_set (f : option sfilter) (s : pset) : pset :=
  match f with Some f => apply_filter f s | None => s end.

Definition filter_cmp (f : option sfilter) (c : comparison3) : comparison3 :=
  mkC3 (filter_set f (removed c)) (filter_set f (modified c)) (filter_set f (added c)).

Definition compare_tv (c : config) (a b : tv) : option comparison3 :=
  compare (schema_of c (fst a)) (tr_of c (fst a)) (snd a) (snd b).

(* ---- update (update.go:73-160) ---- *)

Record upd_state : Type := mkUpd {
  us_managers : managed;
  us_versions : list (string * comparison3);
  us_conflicts : list (string * pset);
  us_removed : list (string * pset);
  us_n : nat
}.

Definition conflicts_of (cs : list (string * pset)) : list (string * path) :=
  flat_map (fun mp => map (fun p => (fst mp, p)) (ps_elems (snd mp))) cs.

Definition update_core (c : config) (n : nat) (old new : tv) (version : string)
  (managers : managed) (workflow : string) (force : bool)
  : ures (managed * comparison3 * nat) :=
  match compare_tv c old new with
  | None => UErr EOther
  | Some cmp0 =>
      match ignore_filter_for c version with
      | None => UErr EOther
      | Some f0 =>
          let cmpv := filter_cmp f0 cmp0 in
          let step (acc : ures upd_state) (mr : string * mrec) : ures upd_state :=
            match acc with
            | UErr e => UErr e
            | UOk st =>
                let manager := fst mr in
                let r := snd mr in
                if String.eqb manager workflow then UOk st
                else
                  let with_cmp (st : upd_state) (cmp : comparison3) : ures upd_state :=
                    let conflictSet := ps_inter (mr_set r) (ps_union (modified cmp) (added cmp)) in
                    let cs := if ps_empty conflictSet then us_conflicts st
                              else us_conflicts st ++ [(manager, conflictSet)] in
                    let rs := if ps_empty (removed cmp) then us_removed st
                              else us_removed st ++ [(manager, removed cmp)] in
                    UOk (mkUpd (us_managers st) (us_versions st) cs rs (us_n st)) in
                  match assoc_get (mr_ver r) (us_versions st) with
                  | Some cmp => with_cmp st cmp
                  | None =>
                      let '(r1, n1) := convert c (us_n st) old (mr_ver r) in
                      match r1 with
                      | CMissing =>
                          UOk (mkUpd (mf_del manager (us_managers st)) (us_versions st)
                                 (us_conflicts st) (us_removed st) n1)
                      | CFail => UErr EOther
                      | COk vold =>
                          let '(r2, n2) := convert c n1 new (mr_ver r) in
                          match r2 with
                          | CMissing =>
                              UOk (mkUpd (mf_del manager (us_managers st)) (us_versions st)
                                     (us_conflicts st) (us_removed st) n2)
                          | CFail => UErr EOther
                          | COk vnew =>
                              match compare_tv c (mr_ver r, vold) (mr_ver r, vnew) with
                              | None => UErr EOther
                              | Some cmp1 =>
                                  match ignore_filter_for c (mr_ver r) with
                                  | None => UErr EOther
                                  | Some f1 =>
                                      let cmp := filter_cmp f1 cmp1 in
                                      with_cmp (mkUpd (us_managers st)
                                                  (us_versions st ++ [(mr_ver r, cmp)])
                                                  (us_conflicts st) (us_removed st) n2) cmp
                                  end
                              end
                          end
                      end
                  end
            end in
          match fold_left step managers (UOk (mkUpd managers [(version, cmpv)] [] [] n)) with
          | UErr e => UErr e
          | UOk st =>
              if negb force && negb (match us_conflicts st with [] => true | _ => false end) then
                UErr (EConflict (conflicts_of (us_conflicts st)))
              else
                let sub (mf : managed) (ms : string * pset) : managed :=
                  match mf_get (fst ms) mf with
                  | Some r => mf_set (fst ms) (mkRec (ps_diff (mr_set r) (snd ms)) (mr_ver r) (mr_applied r)) mf
                  | None => mf
                  end in
                let mf1 := fold_left sub (us_conflicts st) (us_managers st) in
                let mf2 := fold_left sub (us_removed st) mf1 in
                let mf3 := filter (fun mr : string * mrec => negb (ps_empty (mr_set (snd mr)))) mf2 in
                UOk (mf3, cmpv, us_n st)
          end
      end
  end.

(* ---- reconcileManagedFieldsWithSchemaChanges (update.go:374-395) ---- *)

Definition reconcile_managed (c : config) (n : nat) (live : tv) (managers : managed)
  : ures (managed * nat) :=
  fold_left
    (fun (acc : ures (managed * nat)) (mr : string * mrec) =>
       match acc with
       | UErr e => UErr e
       | UOk (res, n) =>
           let r := snd mr in
           let '(cr, n1) := convert c n live (mr_ver r) in
           match cr with
           | CMissing => UOk (res, n1)
           | CFail => UErr EOther
           | COk v =>
               match reconcile_field_set (schema_of c (mr_ver r)) (tr_of c (mr_ver r)) (mr_set r) with
               | None => UErr EOther
               | Some (Some s') => UOk (res ++ [(fst mr, mkRec s' (mr_ver r) (mr_applied r))], n1)
               | Some None => UOk (res ++ [mr], n1)
               end
           end
       end)
    managers (UOk ([], n)).

(* ---- Update (update.go:167-204) ---- *)

Definition update_op (c : config) (live new : tv) (version : string) (managers : managed)
  (manager : string) : ures (tv * managed) :=
  match reconcile_managed c O live managers with
  | UErr e => UErr e
  | UOk (mf0, n0) =>
      match update_core c n0 live new version mf0 manager true with
      | UErr e => UErr e
      | UOk (mf1, cmp, _) =>
          let cur := match mf_get manager mf1 with Some r => mr_set r | None => ps_empty_set end in
          let set0 := ps_union (ps_union (ps_diff cur (removed cmp)) (modified cmp)) (added cmp) in
          match ignore_filter_for c version with
          | None => UErr EOther
          | Some f =>
              let set1 := filter_set f set0 in
              let mf2 := if ps_empty set1 then mf_del manager mf1
                         else mf_set manager (mkRec set1 version false) mf1 in
              UOk (new, mf2)
          end
      end
  end.

(* ---- prune and add-back (update.go:256-366) ---- *)

Fixpoint value_size (v : value) : nat :=
  match v with
  | VList l => S (fold_right (fun x acc => value_size x + acc) O l)
  | VMap m => S (fold_right (fun kv acc => value_size (snd kv) + acc) O m)
  | _ => 1
  end.


Definition to_fs (c : config) (o : tv) : option pset :=
  to_field_set (schema_of c (fst o)) (tr_of c (fst o)) (snd o).

Definition en (c : config) (ver : string) (s : pset) : pset :=
  ps_en (schema_of c ver) (tr_of c ver) s.

Definition remove_tv (c : config) (o : tv) (items : pset) : tv :=
  (fst o, remove (schema_of c (fst o)) (tr_of c (fst o)) (snd o) items).

(* addBackOwnedItemsForVersion; the boolean tells whether anything was added back *)
Definition add_back_for_version (c : config) (n : nat) (merged pruned : tv) (version : string)
  (managedSet : pset) : ures (tv * tv * bool * nat) :=
  let '(r1, n1) := convert c n merged version in
  match r1 with
  | CMissing => UErr EPanic   (* the Go code carries on with a nil object *)
  | CFail => UErr EOther
  | COk mv =>
      let merged' := (version, mv) in
      let '(r2, n2) := convert c n1 pruned version in
      match r2 with
      | CMissing => UErr EPanic
      | CFail => UErr EOther
      | COk pv =>
          let pruned' := (version, pv) in
          match to_fs c merged', to_fs c pruned' with
          | Some mergedSet, Some prunedSet =>
              let toRemove :=
                ps_diff (en c version mergedSet)
                        (ps_union (en c version prunedSet) (en c version managedSet)) in
              let pruned'' := remove_tv c merged' toRemove in
              match to_fs c pruned'' with
              | Some newSet => UOk (merged', pruned'', negb (ps_equals newSet prunedSet), n2)
              | None => UErr EOther
              end
          | _, _ => UErr EOther
          end
      end
  end.

(* managedAtVersion: version -> union of the sets recorded at it *)
Definition managed_at_version (mf : managed) : list (string * pset) :=
  fold_left (fun acc (mr : string * mrec) =>
               let v := mr_ver (snd mr) in
               let cur := match assoc_get v acc with Some s => s | None => ps_empty_set end in
               assoc_set v (ps_union cur (mr_set (snd mr))) acc)
            mf [].

(* one round of passes over the versions, in the given order *)
Definition add_back_round (c : config) (mav : list (string * pset)) (versions : list string)
  (n : nat) (merged pruned : tv) : ures (tv * tv * bool * nat) :=
  fold_left (fun (acc : ures (tv * tv * bool * nat)) v =>
               match acc with
               | UErr e => UErr e
               | UOk (m, p, ch, n) =>
                   match assoc_get v mav with
                   | Some s =>
                       match add_back_for_version c n m p v s with
                       | UErr e => UErr e
                       | UOk (m', p', added, n') => UOk (m', p', ch || added, n')
                       end
                   | None => acc
                   end
               end) versions (UOk (merged, pruned, false, n)).

(* addBackOwnedItems: the pruned version first, then the others; with more than one
   version the rounds are repeated until nothing more is added back (update.go, as
   repaired: a field owned at one version beneath an item owned only at another) *)
(* [previous]: the pruned object as the previous round left it.  A pass can report a change
   that a later pass of the same round undoes (an empty list is part of the object but of
   no field set), so the loop also stops when a whole round leaves the object as the
   previous round left it (update.go, second repair: without this the Go loop does not
   terminate on such objects). *)
Fixpoint add_back_rounds (fuel : nat) (c : config) (mav : list (string * pset)) (versions : list string)
  (n : nat) (merged pruned : tv) (previous : option tv) : ures (tv * nat) :=
  match fuel with
  | O => UErr EOther
  | S fuel' =>
      match add_back_round c mav versions n merged pruned with
      | UErr e => UErr e
      | UOk (m, p, changed, n') =>
          if changed && Nat.leb 2 (List.length versions)
          then
            if match previous with Some q => veqb (snd q) (snd p) | None => false end
            then UOk (p, n')
            else add_back_rounds fuel' c mav versions n' m p (Some p)
          else UOk (p, n')
      end
  end.

Definition add_back_owned (c : config) (n : nat) (merged pruned : tv) (prunedVersion : string)
  (mf : managed) : ures (tv * nat) :=
  let mav := managed_at_version mf in
  let first := match assoc_get prunedVersion mav with Some _ => [prunedVersion] | None => [] end in
  let others := cfg_version_order c (map fst (assoc_remove prunedVersion mav)) in
  (* every round that changes something adds at least one node of the merged object *)
  add_back_rounds (S (S (value_size (snd merged)))) c mav (first ++ others) n merged pruned None.

(* addBackDanglingItems *)
Definition add_back_dangling (c : config) (n : nat) (merged pruned : tv) (last : mrec)
  : ures (tv * nat) :=
  let '(r1, n1) := convert c n pruned (mr_ver last) in
  match r1 with
  | CMissing => UOk (merged, n1)
  | CFail => UErr EOther
  | COk pv =>
      let ver := mr_ver last in
      match to_fs c (ver, pv), to_fs c merged with
      | Some prunedSet, Some mergedSet =>
          let ver' := fst merged in
          let toRemove :=
            ps_inter (ps_diff (en c ver' mergedSet) (en c ver' prunedSet)) (en c ver' (mr_set last)) in
          UOk (remove_tv c merged toRemove, n1)
      | _, _ => UErr EOther
      end
  end.

Definition prune (c : config) (n : nat) (merged : tv) (mf : managed) (applying : string)
  (last : option mrec) : ures (tv * nat) :=
  match last with
  | None => UOk (merged, n)
  | Some last =>
      if ps_empty (mr_set last) then UOk (merged, n)
      else
        let version := mr_ver last in
        let '(r1, n1) := convert c n merged version in
        match r1 with
        | CMissing => UOk (merged, n1)
        | CFail => UErr EOther
        | COk mv =>
            let convertedMerged := (version, mv) in
            let pruned0 := remove_tv c convertedMerged (en c version (mr_set last)) in
            match add_back_owned c n1 convertedMerged pruned0 version mf with
            | UErr e => UErr e
            | UOk (pruned1, n2) =>
                match add_back_dangling c n2 convertedMerged pruned1 last with
                | UErr e => UErr e
                | UOk (pruned2, n3) =>
                    let target := match mf_get applying mf with Some r => mr_ver r | None => version end in
                    let '(r4, n4) := convert c n3 pruned2 target in
                    match r4 with
                    | COk v => UOk ((target, v), n4)
                    | _ => UErr EOther
                    end
                end
            end
        end
  end.

(* ---- Apply (update.go:209-250) ---- *)

Definition apply_op (c : config) (live cfg : tv) (version : string) (managers : managed)
  (manager : string) (force : bool) : ures (option tv * managed) :=
  match reconcile_managed c O live managers with
  | UErr e => UErr e
  | UOk (mf0, n0) =>
      match merge (schema_of c (fst live)) (tr_of c (fst live)) (snd live) (snd cfg) with
      | None => UErr EOther
      | Some None => UErr EPanic
      | Some (Some nv) =>
          let newObject := (fst live, nv) in
          let lastSet := mf_get manager mf0 in
          match to_fs c cfg with
          | None => UErr EOther
          | Some set0 =>
              match ignore_filter_for c version with
              | None => UErr EOther
              | Some f =>
                  let set1 := filter_set f set0 in
                  let mf1 := mf_set manager (mkRec set1 version true) mf0 in
                  (* prune sees the unfiltered set of the configuration (fix: ignored fields
                     that are being applied must not be pruned; the same set when nothing
                     is ignored) *)
                  let mfp := mf_set manager (mkRec set0 version true) mf0 in
                  match prune c n0 newObject mfp manager lastSet with
                  | UErr e => UErr e
                  | UOk (pruned, n1) =>
                      match update_core c n1 live pruned version mf1 manager force with
                      | UErr e => UErr e
                      | UOk (mf2, _, _) =>
                          if negb (cfg_return_input_on_noop c) && veqb (snd live) (snd pruned)
                          then UOk (None, mf2)
                          else UOk (Some pruned, mf2)
                      end
                  end
              end
          end
      end
  end.
