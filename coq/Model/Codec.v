(* Decoding of case lines (sexp -> model types) and encoding of model results back to
   sexp for reports.  Syntax: Appendix B of DESIGN.md. *)
From Coq Require Import List ZArith QArith String Ascii Bool.
From SMD Require Import Base.Sexp Model.Value Model.Order Model.PathElem Model.PathSet
  Model.Schema Model.Matcher.
Import ListNotations.
Open Scope string_scope.

Definition bind {A B} (x : option A) (f : A -> option B) : option B :=
  match x with Some a => f a | None => None end.
Notation "'do' x <- e ; k" := (bind e (fun x => k)) (at level 200, x pattern, e at level 100, k at level 200).

Fixpoint map_opt {A B} (f : A -> option B) (l : list A) : option (list B) :=
  match l with
  | [] => Some []
  | x :: t => do y <- f x; do r <- map_opt f t; Some (y :: r)
  end.

(* ---- values ---- *)
Fixpoint dec_value (x : sexp) : option value :=
  match x with
  | SAtom "n" => Some VNull
  | SAtom "t" => Some (VBool true)
  | SAtom "f" => Some (VBool false)
  | SList [SAtom "i"; SAtom z] => do z <- parse_Z z; Some (VInt z)
  | SList [SAtom "d"; SAtom n; SAtom d] =>
      do n <- parse_Z n; do d <- parse_Z d;
      match d with Zpos p => Some (VFloat (Qmake n p)) | _ => None end
  | SList [SAtom "s"; SAtom s] => Some (VStr s)
  | SList (SAtom "l" :: items) =>
      do l <- (fix go (l : list sexp) : option (list value) :=
                 match l with
                 | [] => Some []
                 | y :: t => do v <- dec_value y; do r <- go t; Some (v :: r)
                 end) items;
      Some (VList l)
  | SList (SAtom "m" :: items) =>
      do l <- (fix go (l : list sexp) : option (list (string * value)) :=
                 match l with
                 | [] => Some []
                 | SList [SAtom k; y] :: t => do v <- dec_value y; do r <- go t; Some ((k, v) :: r)
                 | _ => None
                 end) items;
      Some (VMap l)
  | _ => None
  end.

Fixpoint enc_value (v : value) : sexp :=
  match v with
  | VNull => SAtom "n"
  | VBool true => SAtom "t"
  | VBool false => SAtom "f"
  | VInt z => SList [SAtom "i"; sZ z]
  | VFloat q => SList [SAtom "d"; sZ (Qnum q); sZ (Zpos (Qden q))]
  | VStr s => SList [SAtom "s"; SAtom s]
  | VList l => SList (SAtom "l" :: map enc_value l)
  | VMap m => SList (SAtom "m" :: map (fun kv => SList [SAtom (fst kv); enc_value (snd kv)]) m)
  end.

Definition dec_opt {A} (f : sexp -> option A) (x : sexp) : option (option A) :=
  match x with
  | SAtom "-" => Some None
  | _ => do v <- f x; Some (Some v)
  end.

Definition enc_opt {A} (f : A -> sexp) (x : option A) : sexp :=
  match x with Some a => f a | None => SAtom "-" end.

(* ---- path elements, paths, sets ---- *)
Definition dec_kv (x : sexp) : option (string * value) :=
  match x with
  | SList [SAtom k; y] => do v <- dec_value y; Some (k, v)
  | _ => None
  end.

Definition dec_pe (x : sexp) : option pe :=
  match x with
  | SList [SAtom "F"; SAtom n] => Some (PEField n)
  | SList (SAtom "K" :: kvs) => do l <- map_opt dec_kv kvs; Some (PEKey l)
  | SList [SAtom "V"; y] => do v <- dec_value y; Some (PEValue v)
  | SList [SAtom "I"; SAtom z] => do z <- parse_Z z; Some (PEIndex z)
  | _ => None
  end.

Definition enc_pe (e : pe) : sexp :=
  match e with
  | PEField n => SList [SAtom "F"; SAtom n]
  | PEKey k => SList (SAtom "K" :: map (fun kv => SList [SAtom (fst kv); enc_value (snd kv)]) k)
  | PEValue v => SList [SAtom "V"; enc_value v]
  | PEIndex i => SList [SAtom "I"; sZ i]
  end.

Definition dec_path (x : sexp) : option path :=
  match x with
  | SList (SAtom "p" :: es) => map_opt dec_pe es
  | _ => None
  end.

Definition enc_path (p : path) : sexp := SList (SAtom "p" :: map enc_pe p).

(* a set travels as the list of its paths in Iterate order *)
Definition dec_paths (x : sexp) : option (list path) :=
  match x with
  | SList (SAtom "S" :: ps) => map_opt dec_path ps
  | _ => None
  end.

Definition dec_pset (x : sexp) : option pset :=
  do ps <- dec_paths x; Some (ps_of_paths ps).

Definition enc_paths (ps : list path) : sexp := SList (SAtom "S" :: map enc_path ps).
Definition enc_pset (s : pset) : sexp := enc_paths (ps_elems s).

(* ---- schemas ---- *)
Definition dec_scalar (x : sexp) : option scalar :=
  match x with
  | SAtom "numeric" => Some SNumeric
  | SAtom "string" => Some SString
  | SAtom "boolean" => Some SBoolean
  | SAtom "untyped" => Some SUntyped
  | SList [SAtom "other"; SAtom s] => Some (SOther s)
  | _ => None
  end.

Definition dec_rel (x : sexp) : option rel :=
  match x with
  | SAtom "associative" => Some RAssociative
  | SAtom "atomic" => Some RAtomic
  | SAtom "separable" => Some RSeparable
  | SAtom "unset" => Some RUnset
  | SList [SAtom "other"; SAtom s] => Some (ROther s)
  | _ => None
  end.

Definition dec_str (x : sexp) : option string :=
  match x with SAtom s => Some s | _ => None end.

Fixpoint dec_tr (fuel : nat) (x : sexp) : option typeref :=
  match fuel with
  | O => None
  | S f =>
      match x with
      | SList [SAtom "tr"; n; a; r] =>
          do n <- match n with SAtom "-" => Some None | SList [SAtom "named"; SAtom s] => Some (Some s) | _ => None end;
          do a <- dec_atom f a;
          do r <- dec_opt dec_rel r;
          Some (TR n a r)
      | _ => None
      end
  end
with dec_atom (fuel : nat) (x : sexp) : option atom :=
  match fuel with
  | O => None
  | S f =>
      match x with
      | SList [SAtom "atom"; sc; li; ma] =>
          do sc <- dec_opt dec_scalar sc;
          do li <- match li with
                   | SAtom "-" => Some None
                   | SList [SAtom "list"; e; r; SList (SAtom "keys" :: ks)] =>
                       do e <- dec_tr f e; do r <- dec_rel r; do ks <- map_opt dec_str ks;
                       Some (Some (ListT e r ks))
                   | _ => None
                   end;
          do ma <- match ma with
                   | SAtom "-" => Some None
                   | SList [SAtom "map"; SList (SAtom "fields" :: fs); e; r] =>
                       do fs <- (fix go (l : list sexp) : option (list sfield) :=
                                   match l with
                                   | [] => Some []
                                   | SList [SAtom "field"; SAtom n; t; d] :: rest =>
                                       do t <- dec_tr f t; do d <- dec_opt dec_value d;
                                       do r <- go rest; Some (SField n t d :: r)
                                   | _ => None
                                   end) fs;
                       do e <- dec_tr f e; do r <- dec_rel r;
                       Some (Some (MapT fs e r))
                   | _ => None
                   end;
          Some (Atom sc li ma)
      | _ => None
      end
  end.

Fixpoint sexp_depth (x : sexp) : nat :=
  match x with
  | SAtom _ => 1%nat
  | SList l => S (fold_right (fun y acc => Nat.max (sexp_depth y) acc) O l)
  end.

Definition dec_typeref (x : sexp) : option typeref := dec_tr (S (sexp_depth x)) x.

Definition dec_schema (x : sexp) : option schema :=
  match x with
  | SList (SAtom "schema" :: ts) =>
      map_opt (fun t => match t with
                        | SList [SAtom "type"; SAtom n; a] =>
                            do a <- dec_atom (S (sexp_depth a)) a; Some (n, a)
                        | _ => None
                        end) ts
  | _ => None
  end.

(* ---- matchers ---- *)
Definition dec_pm (x : sexp) : option pematcher :=
  match x with
  | SAtom "*" => Some PMWild
  | _ => do e <- dec_pe x; Some (PMElem e)
  end.

(* a pattern is a list of path-element matchers: (pat pm...) *)
Definition dec_pattern (x : sexp) : option (list pematcher) :=
  match x with
  | SList (SAtom "pat" :: pms) => map_opt dec_pm pms
  | _ => None
  end.

Definition dec_bool (x : sexp) : option bool :=
  match x with SAtom "t" => Some true | SAtom "f" => Some false | _ => None end.

Definition dec_int (x : sexp) : option Z :=
  match x with SAtom s => parse_Z s | _ => None end.

Definition dec_cmp (x : sexp) : option comparison :=
  do z <- dec_int x;
  Some (if Z.ltb z 0 then Lt else if Z.eqb z 0 then Eq else Gt).

Definition enc_cmp (c : comparison) : sexp :=
  match c with Lt => SAtom "-1" | Eq => SAtom "0" | Gt => SAtom "1" end.
