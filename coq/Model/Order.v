(* Model of value.Equals / value.Compare / value.Less (value/value.go:137-352),
   ListCompare (value/list.go:106-139), MapCompare (value/map.go:188-240, through the
   lexical-key-order zip) and FieldList.Compare/Equals/Sort (value/fields.go:35-97). *)
From Coq Require Import List ZArith QArith String Ascii Bool.
From SMD Require Import Model.Value.
Import ListNotations.
Open Scope bool_scope.

Definition num_of (v : value) : option Q :=
  match v with
  | VInt z => Some (inject_Z z)
  | VFloat q => Some q
  | _ => None
  end.

(* value.EqualsUsing *)
Fixpoint veqb (a b : value) {struct a} : bool :=
  if is_float a || is_float b then
    match num_of a, num_of b with
    | Some x, Some y => Qeq_bool x y
    | _, _ => false
    end
  else
  match a, b with
  | VInt x, VInt y => Z.eqb x y
  | VInt _, _ => false
  | _, VInt _ => false
  | VStr x, VStr y => String.eqb x y
  | VStr _, _ => false
  | _, VStr _ => false
  | VBool x, VBool y => Bool.eqb x y
  | VBool _, _ => false
  | _, VBool _ => false
  | VList l1, VList l2 =>
      (* listUnstructured.EqualsUsing: same length, pairwise equal *)
      (fix leq (l1 l2 : list value) {struct l1} : bool :=
         match l1, l2 with
         | [], [] => true
         | x :: xs, y :: ys => veqb x y && leq xs ys
         | _, _ => false
         end) l1 l2
  | VList _, _ => false
  | _, VList _ => false
  | VMap m1, VMap m2 =>
      (* mapUnstructured.EqualsUsing: same length, every lhs key present in rhs with an equal value *)
      Nat.eqb (List.length m1) (List.length m2) &&
      (fix meq (m1 : list (string * value)) {struct m1} : bool :=
         match m1 with
         | [] => true
         | (k, v) :: t =>
             match assoc_get k m2 with
             | Some v' => veqb v v' && meq t
             | None => false
             end
         end) m1
  | VMap _, _ => false
  | _, VMap _ => false
  | VNull, VNull => true
  | _, _ => true
  end.

(* value.CompareUsing; the result is Lt/Eq/Gt for -1/0/+1 *)
Fixpoint vcmp (a b : value) {struct a} : comparison :=
  match num_of a, num_of b with
  | Some x, Some y => Qcompare x y
  | Some _, None => Lt
  | None, Some _ => Gt
  | None, None =>
  match a, b with
  | VStr x, VStr y => String.compare x y
  | VStr _, _ => Lt
  | _, VStr _ => Gt
  | VBool x, VBool y =>
      if Bool.eqb x y then Eq else if negb x then Lt else Gt
  | VBool _, _ => Lt
  | _, VBool _ => Gt
  | VList l1, VList l2 =>
      (fix lc (l1 l2 : list value) {struct l1} : comparison :=
         match l1, l2 with
         | [], [] => Eq
         | [], _ :: _ => Lt
         | _ :: _, [] => Gt
         | x :: xs, y :: ys =>
             match vcmp x y with Eq => lc xs ys | c => c end
         end) l1 l2
  | VList _, _ => Lt
  | _, VList _ => Gt
  | VMap m1, VMap m2 =>
      (* MapCompareUsing through lexicalKeyOrderedMapZip on maps whose keys are unique
         and (in the model) sorted: lexicographic on (key, value) pairs, a missing key on
         one side making that side the greater one, a proper prefix the smaller one *)
      (fix mc (m1 m2 : list (string * value)) {struct m1} : comparison :=
         match m1, m2 with
         | [], [] => Eq
         | [], _ :: _ => Lt
         | _ :: _, [] => Gt
         | (k1, v1) :: t1, (k2, v2) :: t2 =>
             match String.compare k1 k2 with
             | Lt => Lt
             | Gt => Gt
             | Eq => match vcmp v1 v2 with Eq => mc t1 t2 | c => c end
             end
         end) m1 m2
  | VMap _, _ => Lt
  | _, VMap _ => Gt
  | _, _ => Eq
  end
  end.

Definition vless (a b : value) : bool :=
  match vcmp a b with Lt => true | _ => false end.

(* FieldList (value/fields.go): a list of (name, value) pairs; Compare is lexical on
   names then values, a shorter list first; Equals is positional. *)
Definition fieldlist := list (string * value).

Fixpoint fl_cmp (f g : fieldlist) : comparison :=
  match f, g with
  | [], [] => Eq
  | [], _ :: _ => Lt
  | _ :: _, [] => Gt
  | (n1, v1) :: t1, (n2, v2) :: t2 =>
      match String.compare n1 n2 with
      | Eq => match vcmp v1 v2 with Eq => fl_cmp t1 t2 | c => c end
      | c => c
      end
  end.

Fixpoint fl_eqb (f g : fieldlist) : bool :=
  match f, g with
  | [], [] => true
  | (n1, v1) :: t1, (n2, v2) :: t2 => String.eqb n1 n2 && veqb v1 v2 && fl_eqb t1 t2
  | _, _ => false
  end.

Definition fl_less (f g : fieldlist) : bool :=
  match fl_cmp f g with Lt => true | _ => false end.

(* FieldList.Sort: stable sort by name (insertion sort is stable) *)
Fixpoint fl_insert (x : string * value) (l : fieldlist) : fieldlist :=
  match l with
  | [] => [x]
  | y :: t => if str_ltb (fst y) (fst x) then y :: fl_insert x t else x :: l
  end.

(* insert from the right, each element before the first one not smaller than it, so
   that equal names keep their relative order (sort.SliceStable) *)
Definition fl_sort (l : fieldlist) : fieldlist := fold_right fl_insert [] l.
