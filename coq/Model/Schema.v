(* Model of schema.Schema and friends (schema/elements.go:27-354) and of the structural
   equality of schema/equals.go:22-202.  Unions are parsed by SMD but have no behaviour
   in this version of the library; they are not modelled (generated schemas have none). *)
From Coq Require Import List ZArith String Bool.
From SMD Require Import Model.Value Model.Order.
Import ListNotations.
Open Scope bool_scope.

Inductive scalar : Type := SNumeric | SString | SBoolean | SUntyped | SOther (s : string).

(* ElementRelationship; RUnset is the empty string (maps default to separable) *)
Inductive rel : Type := RAssociative | RAtomic | RSeparable | RUnset | ROther (s : string).

Inductive typeref : Type :=
| TR (named : option string) (inl : atom) (erel : option rel)
with atom : Type :=
| Atom (sc : option scalar) (li : option listT) (ma : option mapT)
with listT : Type :=
| ListT (elem : typeref) (lrel : rel) (keys : list string)
with mapT : Type :=
| MapT (fields : list sfield) (melem : typeref) (mrel : rel)
with sfield : Type :=
| SField (fname : string) (ftype : typeref) (fdefault : option value).

Definition schema := list (string * atom).

Definition empty_atom : atom := Atom None None None.
Definition empty_tr : typeref := TR None empty_atom None.

Definition is_empty_atom (a : atom) : bool :=
  match a with Atom None None None => true | _ => false end.

(* tr == schema.TypeRef{} : every pointer nil *)
Definition is_empty_tr (tr : typeref) : bool :=
  match tr with TR None a None => is_empty_atom a | _ => false end.

Definition scalar_eqb (a b : scalar) : bool :=
  match a, b with
  | SNumeric, SNumeric | SString, SString | SBoolean, SBoolean | SUntyped, SUntyped => true
  | SOther x, SOther y => String.eqb x y
  | _, _ => false
  end.

Definition rel_eqb (a b : rel) : bool :=
  match a, b with
  | RAssociative, RAssociative | RAtomic, RAtomic | RSeparable, RSeparable | RUnset, RUnset => true
  | ROther x, ROther y => String.eqb x y
  | _, _ => false
  end.

Definition opt_eqb {A} (f : A -> A -> bool) (a b : option A) : bool :=
  match a, b with
  | None, None => true
  | Some x, Some y => f x y
  | _, _ => false
  end.

Fixpoint list_eqb {A} (f : A -> A -> bool) (a b : list A) : bool :=
  match a, b with
  | [], [] => true
  | x :: xs, y :: ys => f x y && list_eqb f xs ys
  | _, _ => false
  end.

(* reflect.DeepEqual on decoded YAML defaults: structural, int and float distinct *)
Fixpoint value_deep_eqb (a b : value) {struct a} : bool :=
  match a, b with
  | VNull, VNull => true
  | VBool x, VBool y => Bool.eqb x y
  | VInt x, VInt y => Z.eqb x y
  | VFloat x, VFloat y => QArith_base.Qeq_bool x y
  | VStr x, VStr y => String.eqb x y
  | VList l1, VList l2 =>
      (fix go (l1 l2 : list value) {struct l1} : bool :=
         match l1, l2 with
         | [], [] => true
         | x :: xs, y :: ys => value_deep_eqb x y && go xs ys
         | _, _ => false
         end) l1 l2
  | VMap m1, VMap m2 =>
      (fix go (m1 m2 : list (string * value)) {struct m1} : bool :=
         match m1, m2 with
         | [], [] => true
         | (k1, x) :: xs, (k2, y) :: ys => String.eqb k1 k2 && value_deep_eqb x y && go xs ys
         | _, _ => false
         end) m1 m2
  | _, _ => false
  end.

(* Structural equality: TypeRef.Equals / Atom.Equals / List.Equals / Map.Equals /
   StructField.Equals, in the form the property requires: relationship overrides are
   compared by value, and every member of an atom is compared. *)
Fixpoint tr_eqb (a b : typeref) {struct a} : bool :=
  match a, b with
  | TR n1 i1 r1, TR n2 i2 r2 =>
      opt_eqb String.eqb n1 n2 && opt_eqb rel_eqb r1 r2 && atom_eqb i1 i2
  end
with atom_eqb (a b : atom) {struct a} : bool :=
  match a, b with
  | Atom s1 l1 m1, Atom s2 l2 m2 =>
      opt_eqb scalar_eqb s1 s2 &&
      match l1, l2 with
      | None, None => true
      | Some x, Some y => listT_eqb x y
      | _, _ => false
      end &&
      match m1, m2 with
      | None, None => true
      | Some x, Some y => mapT_eqb x y
      | _, _ => false
      end
  end
with listT_eqb (a b : listT) {struct a} : bool :=
  match a, b with
  | ListT e1 r1 k1, ListT e2 r2 k2 =>
      tr_eqb e1 e2 && rel_eqb r1 r2 && list_eqb String.eqb k1 k2
  end
with mapT_eqb (a b : mapT) {struct a} : bool :=
  match a, b with
  | MapT f1 e1 r1, MapT f2 e2 r2 =>
      tr_eqb e1 e2 && rel_eqb r1 r2 &&
      (fix go (f1 f2 : list sfield) {struct f1} : bool :=
         match f1, f2 with
         | [], [] => true
         | x :: xs, y :: ys => sfield_eqb x y && go xs ys
         | _, _ => false
         end) f1 f2
  end
with sfield_eqb (a b : sfield) {struct a} : bool :=
  match a, b with
  | SField n1 t1 d1, SField n2 t2 d2 =>
      String.eqb n1 n2 && opt_eqb value_deep_eqb d1 d2 && tr_eqb t1 t2
  end.

Definition typedef_eqb (a b : string * atom) : bool :=
  String.eqb (fst a) (fst b) && atom_eqb (snd a) (snd b).

Definition schema_eqb (a b : schema) : bool := list_eqb typedef_eqb a b.

(* Schema.FindNamedType: the index is built by iterating Types, a later definition of
   the same name overwrites an earlier one *)
Fixpoint find_named (s : schema) (n : string) : option atom :=
  match s with
  | [] => None
  | (n', a) :: t =>
      match find_named t n with
      | Some r => Some r
      | None => if String.eqb n n' then Some a else None
      end
  end.

(* Map.FindField: same construction over Fields *)
Fixpoint find_field (fs : list sfield) (n : string) : option sfield :=
  match fs with
  | [] => None
  | (SField n' _ _ as f) :: t =>
      match find_field t n with
      | Some r => Some r
      | None => if String.eqb n n' then Some f else None
      end
  end.

Definition map_fields (m : mapT) := match m with MapT f _ _ => f end.
Definition map_elem (m : mapT) := match m with MapT _ e _ => e end.
Definition map_rel (m : mapT) := match m with MapT _ _ r => r end.
Definition list_elem (l : listT) := match l with ListT e _ _ => e end.
Definition list_rel (l : listT) := match l with ListT _ r _ => r end.
Definition list_keys (l : listT) := match l with ListT _ _ k => k end.
Definition sf_type (f : sfield) := match f with SField _ t _ => t end.
Definition sf_default (f : sfield) := match f with SField _ _ d => d end.
Definition sf_name (f : sfield) := match f with SField n _ _ => n end.

(* the type of field [k] of map type [t]: declared field type, else element type *)
Definition field_type (t : mapT) (k : string) : typeref :=
  match find_field (map_fields t) k with
  | Some f => sf_type f
  | None => map_elem t
  end.

Definition has_field (t : mapT) (k : string) : bool :=
  match find_field (map_fields t) k with Some _ => true | None => false end.

Definition resolve_no_overrides (s : schema) (tr : typeref) : option atom :=
  match tr with
  | TR (Some n) _ _ => find_named s n
  | TR None a _ => Some a
  end.

(* Schema.Resolve with element-relationship overrides (elements.go:308-354) *)
Definition resolve (s : schema) (tr : typeref) : option atom :=
  match tr with
  | TR _ _ None => resolve_no_overrides s tr
  | TR _ _ (Some r) =>
      match resolve_no_overrides s tr with
      | None => None
      | Some (Atom sc li ma) =>
          match ma with
          | Some (MapT f e _) => Some (Atom sc li (Some (MapT f e r)))
          | None =>
              match li with
              | Some (ListT e _ k) => Some (Atom sc (Some (ListT e r k)) None)
              | None => None
              end
          end
      end
  end.

Definition rel_is_atomic (r : rel) : bool := match r with RAtomic => true | _ => false end.
Definition rel_is_assoc (r : rel) : bool := match r with RAssociative => true | _ => false end.
