(* Model of fieldpath.PathElementSet (fieldpath/element.go:176-317), fieldpath.Set and
   fieldpath.SetNodeMap (fieldpath/set.go:28-116, 334-727) and PathElementMap
   (fieldpath/pathelementmap.go:84-114).  Every operation is a transliteration of the
   sorted-slice loop of the Go code, lookups go through the real bisection. *)
From Coq Require Import List ZArith String Bool Arith.
From SMD Require Import Base.Search Model.Value Model.Order Model.PathElem.
Import ListNotations.
Open Scope bool_scope.

(* ---------- PathElementSet: a sorted slice of path elements ---------- *)

Definition pes := list pe.

Definition pes_loc (pe0 : pe) (l : pes) : nat :=
  search (List.length l) (fun i => negb (peless (nth i l pe_default) pe0)).

Definition pes_insert (pe0 : pe) (l : pes) : pes :=
  let loc := pes_loc pe0 l in
  if Nat.eqb loc (List.length l) then l ++ [pe0]
  else if peeqb (nth loc l pe_default) pe0 then l
  else insert_at loc pe0 l.

Definition pes_has (pe0 : pe) (l : pes) : bool :=
  let loc := pes_loc pe0 l in
  if Nat.eqb loc (List.length l) then false
  else peeqb (nth loc l pe_default) pe0.

Fixpoint pes_union (l1 : pes) : pes -> pes :=
  fix aux (l2 : pes) : pes :=
    match l1, l2 with
    | [], _ => l2
    | _, [] => l1
    | x :: xs, y :: ys =>
        if peless x y then x :: pes_union xs l2
        else if negb (peless y x) then y :: pes_union xs ys
        else y :: aux ys
    end.

Fixpoint pes_inter (l1 : pes) : pes -> pes :=
  fix aux (l2 : pes) : pes :=
    match l1, l2 with
    | [], _ => []
    | _, [] => []
    | x :: xs, y :: ys =>
        if peless x y then pes_inter xs l2
        else if negb (peless y x) then x :: pes_inter xs ys
        else aux ys
    end.

Fixpoint pes_diff (l1 : pes) : pes -> pes :=
  fix aux (l2 : pes) : pes :=
    match l1, l2 with
    | [], _ => []
    | _, [] => l1
    | x :: xs, y :: ys =>
        if peless x y then x :: pes_diff xs l2
        else if negb (peless y x) then pes_diff xs ys
        else aux ys
    end.

Fixpoint pes_equals (l1 l2 : pes) : bool :=
  match l1, l2 with
  | [], [] => true
  | x :: xs, y :: ys => peeqb x y && pes_equals xs ys
  | _, _ => false
  end.

(* ---------- PathElementMap: sorted slice of (path element, A) ---------- *)

Definition pem (A : Type) := list (pe * A).

Definition pem_loc {A} (pe0 : pe) (l : pem A) : nat :=
  search (List.length l) (fun i =>
    match nth_error l i with
    | Some (e, _) => negb (peless e pe0)
    | None => true
    end).

Definition pem_insert {A} (pe0 : pe) (v : A) (l : pem A) : pem A :=
  let loc := pem_loc pe0 l in
  match nth_error l loc with
  | None => l ++ [(pe0, v)]
  | Some (e, _) =>
      if peeqb e pe0 then replace_at loc (e, v) l
      else insert_at loc (pe0, v) l
  end.

Definition pem_get {A} (pe0 : pe) (l : pem A) : option A :=
  let loc := pem_loc pe0 l in
  match nth_error l loc with
  | None => None
  | Some (e, v) => if peeqb e pe0 then Some v else None
  end.

(* ---------- Set: the trie ---------- *)

Inductive pset : Type :=
| PSet (members : pes) (children : list (pe * pset)).

Definition ps_members (s : pset) := match s with PSet m _ => m end.
Definition ps_children (s : pset) := match s with PSet _ c => c end.
Definition ps_empty_set : pset := PSet [] [].

Section pset_ind'.
  Variable P : pset -> Prop.
  Hypothesis H : forall m c, Forall (fun ec => P (snd ec)) c -> P (PSet m c).
  Fixpoint pset_ind' (s : pset) : P s :=
    match s with
    | PSet m c =>
        H m c ((fix go (c : list (pe * pset)) : Forall (fun ec => P (snd ec)) c :=
                  match c with
                  | [] => Forall_nil _
                  | ec :: t => Forall_cons _ (pset_ind' (snd ec)) (go t)
                  end) c)
    end.
End pset_ind'.

(* SetNodeMap.Get *)
Definition snm_get (pe0 : pe) (c : list (pe * pset)) : option pset := pem_get pe0 c.

(* Set.Size / Set.Empty *)
Fixpoint ps_size (s : pset) : nat :=
  match s with
  | PSet m c => List.length m + fold_right (fun ec acc => ps_size (snd ec) + acc) O c
  end.

Fixpoint ps_empty (s : pset) : bool :=
  match s with
  | PSet m c =>
      match m with
      | _ :: _ => false
      | [] => forallb (fun ec => ps_empty (snd ec)) c
      end
  end.

(* SetNodeMap.Descend followed by a modification of the returned node: Insert walks
   down with Descend and inserts the last element into Members. *)
Fixpoint ps_insert (p : path) (s : pset) {struct p} : pset :=
  match p with
  | [] => s
  | e :: rest =>
      match rest with
      | [] => PSet (pes_insert e (ps_members s)) (ps_children s)
      | _ :: _ =>
          let c := ps_children s in
          let loc := pem_loc e c in
          match nth_error c loc with
          | None => PSet (ps_members s) (c ++ [(e, ps_insert rest ps_empty_set)])
          | Some (e', sub) =>
              if peeqb e' e then PSet (ps_members s) (replace_at loc (e', ps_insert rest sub) c)
              else PSet (ps_members s) (insert_at loc (e, ps_insert rest ps_empty_set) c)
          end
      end
  end.

Definition ps_of_paths (ps : list path) : pset :=
  fold_left (fun s p => ps_insert p s) ps ps_empty_set.

(* Set.Has *)
Fixpoint ps_has (p : path) (s : pset) {struct p} : bool :=
  match p with
  | [] => false
  | e :: rest =>
      match rest with
      | [] => pes_has e (ps_members s)
      | _ :: _ =>
          match snm_get e (ps_children s) with
          | Some sub => ps_has rest sub
          | None => false
          end
      end
  end.

(* Set.Equals / SetNodeMap.Equals *)
Fixpoint ps_equals (a b : pset) {struct a} : bool :=
  match a, b with
  | PSet m1 c1, PSet m2 c2 =>
      pes_equals m1 m2 &&
      (fix ce (c1 c2 : list (pe * pset)) {struct c1} : bool :=
         match c1, c2 with
         | [], [] => true
         | (e1, s1) :: t1, (e2, s2) :: t2 => peeqb e1 e2 && ps_equals s1 s2 && ce t1 t2
         | _, _ => false
         end) c1 c2
  end.

(* Set.Union / SetNodeMap.Union *)
Fixpoint ps_union (a b : pset) {struct a} : pset :=
  match a, b with
  | PSet m1 c1, PSet m2 c2 =>
      PSet (pes_union m1 m2)
        ((fix cu (c1 : list (pe * pset)) : list (pe * pset) -> list (pe * pset) :=
            fix cu2 (c2 : list (pe * pset)) : list (pe * pset) :=
              match c1, c2 with
              | [], _ => c2
              | _, [] => c1
              | (e1, s1) :: t1, (e2, s2) :: t2 =>
                  if peless e1 e2 then (e1, s1) :: cu t1 c2
                  else if negb (peless e2 e1) then (e1, ps_union s1 s2) :: cu t1 t2
                  else (e2, s2) :: cu2 t2
              end) c1 c2)
  end.

(* Set.Intersection / SetNodeMap.Intersection *)
Fixpoint ps_inter (a b : pset) {struct a} : pset :=
  match a, b with
  | PSet m1 c1, PSet m2 c2 =>
      PSet (pes_inter m1 m2)
        ((fix ci (c1 : list (pe * pset)) : list (pe * pset) -> list (pe * pset) :=
            fix ci2 (c2 : list (pe * pset)) : list (pe * pset) :=
              match c1, c2 with
              | [], _ => []
              | _, [] => []
              | (e1, s1) :: t1, (e2, s2) :: t2 =>
                  if peless e1 e2 then ci t1 c2
                  else if negb (peless e2 e1) then
                    let r := ps_inter s1 s2 in
                    if ps_empty r then ci t1 t2 else (e1, r) :: ci t1 t2
                  else ci2 t2
              end) c1 c2)
  end.

(* Set.Difference / SetNodeMap.Difference *)
Fixpoint ps_diff (a b : pset) {struct a} : pset :=
  match a, b with
  | PSet m1 c1, PSet m2 c2 =>
      PSet (pes_diff m1 m2)
        ((fix cd (c1 : list (pe * pset)) : list (pe * pset) -> list (pe * pset) :=
            fix cd2 (c2 : list (pe * pset)) : list (pe * pset) :=
              match c1, c2 with
              | [], _ => []
              | _, [] => c1
              | (e1, s1) :: t1, (e2, s2) :: t2 =>
                  if peless e1 e2 then (e1, s1) :: cd t1 c2
                  else if negb (peless e2 e1) then
                    let r := ps_diff s1 s2 in
                    if ps_empty r then cd t1 t2 else (e1, r) :: cd t1 t2
                  else cd2 t2
              end) c1 c2)
  end.

(* Set.RecursiveDifference / SetNodeMap.RecursiveDifference *)
Fixpoint ps_rdiff (a b : pset) {struct a} : pset :=
  match a, b with
  | PSet m1 c1, PSet m2 c2 =>
      PSet (pes_diff m1 m2)
        ((fix cr (c1 : list (pe * pset)) : list (pe * pset) -> list (pe * pset) :=
            fix cr2 (c2 : list (pe * pset)) : list (pe * pset) :=
              match c1, c2 with
              | [], _ => []
              | _, [] => filter (fun ec => negb (pes_has (fst ec) m2)) c1
              | (e1, s1) :: t1, (e2, s2) :: t2 =>
                  if peless e1 e2 then
                    if negb (pes_has e1 m2) then (e1, s1) :: cr t1 c2 else cr t1 c2
                  else if negb (peless e2 e1) then
                    if negb (pes_has e1 m2) then
                      let r := ps_rdiff s1 s2 in
                      if ps_empty r then cr t1 t2 else (e1, r) :: cr t1 t2
                    else cr t1 t2
                  else cr2 t2
              end) c1 c2)
  end.

(* Set.Iterate: members of a node first, then the children in order (preorder) *)
Fixpoint ps_elems (s : pset) : list path :=
  match s with
  | PSet m c =>
      map (fun e => [e]) m ++
      flat_map (fun ec => map (fun p => fst ec :: p) (ps_elems (snd ec))) c
  end.

(* Set.WithPrefix *)
Definition ps_with_prefix (e : pe) (s : pset) : pset :=
  match snm_get e (ps_children s) with
  | Some sub => sub
  | None => ps_empty_set
  end.

(* Set.Leaves: the member/children two-index loop of set.go:410-431 *)
Fixpoint leaves_members (ms : pes) : list (pe * pset) -> pes :=
  fix aux (cs : list (pe * pset)) : pes :=
    match ms, cs with
    | [], _ => []
    | _, [] => ms
    | m :: ms', (e, _) :: cs' =>
        match pecmp m e with
        | Eq => leaves_members ms' cs'
        | Lt => m :: leaves_members ms' cs
        | Gt => aux cs'
        end
    end.

Fixpoint ps_leaves (s : pset) : pset :=
  match s with
  | PSet m c => PSet (leaves_members m c) (map (fun ec => (fst ec, ps_leaves (snd ec))) c)
  end.

(* well-formedness: strictly sorted members and children, no empty child *)
Fixpoint sorted_pes (l : pes) : bool :=
  match l with
  | [] => true
  | x :: t => match t with [] => true | y :: _ => peless x y && sorted_pes t end
  end.

Fixpoint sorted_fst {A} (l : list (pe * A)) : bool :=
  match l with
  | [] => true
  | x :: t => match t with [] => true | y :: _ => peless (fst x) (fst y) && sorted_fst t end
  end.

Fixpoint ps_wf (s : pset) : bool :=
  match s with
  | PSet m c =>
      sorted_pes m && sorted_fst c &&
      forallb (fun ec => ps_wf (snd ec) && negb (ps_empty (snd ec))) c
  end.
