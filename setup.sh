#!/bin/sh
# Offline build of the whole framework: Coq development (full .vo build), extraction,
# OCaml driver, Go harness.  Run once after a fresh restore; ./check rebuilds what changes.
set -e
cd "$(dirname "$0")"
export GOFLAGS=-mod=mod GOPROXY=off GOSUMDB=off GOTOOLCHAIN=local
mkdir -p work evidence replays
( cd coq && coq_makefile -f _CoqProject -o Makefile >/dev/null && timeout 3000 make -j16 )
( cd ocaml && timeout 900 coqc -Q ../coq SMD ../coq/Extract/Extract.v \
  && timeout 900 ocamlfind ocamlopt -O3 -w -a model.mli model.ml main.ml -o driver )
cp /repo/go.sum harness/go.sum
( cd harness && timeout 900 go build -tags verif -o ../work/smdcases-go . )
echo setup done
