#!/usr/bin/env python3
"""seedrun.py [ID...]: re-runs the checks recorded in seeded/<ID>/meta.json with the seeded
change applied to /repo (git apply; always undone with git checkout -- .) and rewrites the
'checks' entry.  Not used by any registered check; /repo must be clean."""
import json, os, subprocess, sys, glob
ENV = dict(os.environ, GOFLAGS="-mod=mod", GOPROXY="off", GOSUMDB="off", GOTOOLCHAIN="local")
def sh(cmd, cwd=None):
    r = subprocess.run(cmd, shell=True, cwd=cwd, env=ENV, stdout=subprocess.PIPE, stderr=subprocess.STDOUT, text=True)
    return r.returncode, r.stdout
assert sh("git -C /repo status --short")[1].strip() == "", "/repo is not clean"
ids = sys.argv[1:] or sorted(os.path.basename(os.path.dirname(p)) for p in glob.glob("/verif/seeded/*/meta.json"))
for sid in ids:
    d = f"/verif/seeded/{sid}"
    meta = json.load(open(d + "/meta.json"))
    props = list(meta.get("checks", {}).keys()) or [meta["property"]]
    rc, out = sh(f"git -C /repo apply {d}/patch.diff")
    if rc != 0:
        print(sid, "patch does not apply:", out.strip()); continue
    results = {}
    try:
        for p in props:
            rc, out = sh(f"./check {p} --no-search", "/verif")
            lines = [l for l in out.splitlines() if l.strip()]
            msgs = sorted(set(l.strip()[3:].strip() for l in lines if l.strip().startswith("->")))
            results[p] = {"exit": rc, "caught": rc != 0, "summary": lines[-1] if lines else "", "messages": msgs[:6]}
            print(sid, p, "CAUGHT" if rc != 0 else "missed", flush=True)
    finally:
        sh("git -C /repo checkout -- .")
        assert sh("git -C /repo status --short")[1].strip() == ""
    meta["checks"] = results
    json.dump(meta, open(d + "/meta.json", "w"), indent=1)
