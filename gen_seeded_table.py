#!/usr/bin/env python3
"""Helper (not used by any check): prints the DESIGN.md section 8 table from seeded/*/meta.json."""
import json, glob
short = {
 'C01-a': ("typed/merge.go: in the differing-atoms branch of mergingWalker.merge the live-shaped pass and the configuration-shaped pass swapped walkers", "schemaless field holding a non-empty map in the live object, configuration sets a scalar or list there"),
 'C01-b': ("typed/remove.go doList: when removing, drop a list item left with no more fields than its keys", "an applier keeps an item but now gives only its key, having applied a non-key field of it before that nobody else owns"),
 'C02-a': ("typed/remove.go doList: always recurse into items and drop items that come back null", "keyed list whose elements are atomic structs, two managers owning different items, one abandons its item"),
 'C02-b': ("fieldpath/set.go EnsureNamedFieldsAreMembers: starts from the operand's member slice instead of a copy (seen from C02: another manager's stored set is rewritten)", "a record with 3, 5–7 leaf members at one struct level and a nested struct sorting before the last leaf; any later apply that prunes"),
 'C03-a': ("merge/update.go prune: skipped when the manager's previous record is not flagged applied", "same identity applies, then updates, then re-applies with less"),
 'C03-b': ("the same aliasing in EnsureNamedFieldsAreMembers (seen from C03: the last set loses its last leaf before the dangling-items stage, which puts the abandoned field back)", "previous record with a non-power-of-two number of leaf siblings and a nested struct sorting before the last; the new configuration omits exactly the last leaf"),
 'C04-a': ("fieldpath Intersection (element.go, set.go): binary-search 'skip ahead' with the wrong predicate when the receiver has more than 8 entries", "another manager owning ≥ 9 siblings under one node"),
 'C04-b': ("typed compareWalker returned to its pool without resetting inLeaf (refactored into finished())", "a comparison of two empty roots (apply {} to the empty object) earlier in the process; later comparisons report nothing, so no conflict is found"),
 'C05-a': ("merge/update.go update: per-manager 'removed' bookkeeping precomputed from the wrong set", "one update that both changes a field of another manager and removes a field"),
 'C05-b': ("merge/update.go Apply: keeps the existing record object when version and set are unchanged, forgetting the applied flag", "same identity updates, then applies exactly the fields it owns"),
 'C06-a': ("merge/update.go Update: 'nothing to rewrite' fast path ignores removals", "a second update by the same updater whose only effect is a removal of one of its own fields"),
 'C06-b': ("the pooled compareWalker / inLeaf slip again (seen from C06: removals are not reported, owners keep paths that are gone)", "an empty-versus-empty comparison earlier, then an update that removes an owned field"),
 'C07-a': ("merge/update.go Apply: early exit 'owns nothing, claims nothing' returns no object", "fresh manager applying a configuration made only of empty lists / {} onto an object lacking them"),
 'C01-c': ("value/value.go CompareUsing: int against float compared through int64(float) (seen from C01: the set algebra of prune pairs 1 with 1.5, the configuration's own member is removed)", "a numeric set or numeric key holding an int and a fractional float with the same integer part; a second apply by an owner"),
 'C02-c': ("typed/merge.go visitListItems: no lookup of the left counterpart once the left cursor is exhausted (seen from C02: fields of other managers in a reordered item are dropped and disowned without conflict)", "a keyed list whose shared items come in another order in the configuration, live items carrying fields the configuration omits"),
 'C03-c': ("typed/remove.go doList: when removing, key fields of an item that stays are taken out of the removal set", "a key field with a default, written out with its default value and later omitted by the same manager"),
 'C05-c': ("merge/update.go Update: returns the LIVE object when the comparison reports nothing", "an update that only reorders the members of a set or keyed list"),
 'C06-c': ("fieldpath/element.go PathElementSet.Difference: galloping search with an off-by-one", "one operation removing at least three sibling fields, another manager owning one that is not the first"),
 'C11-c': ("typed compareWalker returned to its pool without resetting inLeaf (third independent rediscovery)", "a comparison of two leaf roots earlier in the process"),
 'C12-c': ("typed/merge.go doMap: missing parentheses in emptyPromoteToLeaf (`lhs == nil || lhs.Empty() && ...`)", "a right-hand side valid only with duplicates whose duplicated list sits beneath a map field the left side lacks"),
 'C13-c': ("schema/elements.go Resolve: the override cache keyed by (name, relationship) instead of the TypeRef, so all inlined overriding references with one relationship collide", "two inlined type references with the same elementRelationship override and different structures"),
 'C14-c': ("value/value.go CompareUsing int/float truncation again (seen from C14: removal leaves a member, extraction omits one)", "a numeric set or numeric-keyed list holding n and n+0.5, S mentioning both"),
 'C19-c': ("fieldpath/set.go SetMatcher.Merge: works in place on the receiver's members, so building a filter widens the caller's first pattern value", "one pattern value used first in a multi-pattern filter and again in another filter (e.g. of another version)"),
 'C04-c': ("value/mapunstructured.go EqualsUsing (both map kinds): the per-key lookup drops the 'present' test, a missing key reads as null (fourth rediscovery, seen from C04: an atomic map is not reported modified, no conflict)", "the live value of an atomic map or struct owned by A holds an explicit null; B applies a map of the same size that replaces that key by another"),
 'C07-c': ("the same edit to value/mapunstructured.go (seen from C07: Apply answers 'nothing to persist' although the object changed)", "a manager applies {a: null, c: 1}, then {b: null, c: 1}"),
 'C08-c': ("merge/update.go reconcileManagedFieldsWithSchemaChanges: a record at a version the converter reports as gone is deleted from the CALLER'S map", "an Apply or Update while the caller's map still holds a record at a vanished version; results are unchanged, only the argument is"),
 'C09-c': ("fieldpath/set.go EnsureNamedFieldsAreMembers: starts from the receiver's own member slice (third rediscovery, seen from C09: the second of two identical calls answers differently)", "a set node with spare capacity (3, 5–7, 9–15 members) and a named struct child sorting before a member; the same call repeated on the same objects"),
 'C10-c': ("schema/elements.go Resolve: defer Unlock replaced by explicit unlocks, the arm for an override on a scalar or empty type returns with the schema's mutex held", "a reference with an elementRelationship override to a scalar type, resolved once; every later resolution of an overriding reference on that schema blocks"),
 'C15-c': ("value/value.go CompareUsing int/float truncation (fifth rediscovery, seen from C15: Has fails after Insert, union and intersection wrong)", "value path elements 1 and 1.5 under one parent"),
 'C16-c': ("value/value.go CompareUsing int/float truncation (seen from C16: ToJSON drops a member, equal sets serialise differently)", "numeric value or key path elements n and n+0.5 at one level"),
 'C17-c': ("value/structreflect.go EqualsUsing: reflect.DeepEqual when both sides are structs of one Go type", "two reflected structs of the same type whose omitted fields are empty in different ways (nil against empty slice or map)"),
 'C18-c': ("value/reflectcache.go CanOmit: three ifs folded into a switch, omitzero is no longer consulted when omitempty is set too", "a struct-kind field (or one with IsZero) tagged omitempty AND omitzero holding its zero value"),
 'C20-c': ("typed/reconcile_schema.go doMap: 'owns something here' tests the direct members only", "a struct turning atomic of which a manager owns only paths two or more levels down"),
 'C04-d': ("value/scalar.go IntCompare: compares by the sign of lhs - rhs, which wraps for integers more than 2^63 apart", "a keyed list or set with three integer keys spanning more than 2^63 (-6e18, 0, 6e18) owned by one manager, another manager changing a field under the extreme one"),
 'C06-d': ("fieldpath/set.go EnsureNamedFieldsAreMembers rewritten as one loop: a named field that is already a member leaves before its type is taken, so nothing beneath it is completed", "one manager owning a struct itself (applied as {}), another owning leaves two struct levels beneath it, the second applying again"),
 'C08-d': ("merge/update.go Update: the updater's new set is built by inserting the touched paths into the result of Difference, which shares child sets with the caller's record", "an updater that already owns a nested field and now touches a sibling of it"),
 'C09-d': ("typed/reconcile_schema.go: the pooled walker keeps its collected toRemove/toAdd when a reconciliation ends with an error", "a reconciliation that collects a change and then fails (unresolvable type), followed by any other reconciliation"),
 'C10-d': ("value/jsontagutil.go OmitZeroFunc: the addressable copy for a pointer-receiver IsZero hoisted out of the cached closure, one box shared by all goroutines", "an omitzero field of a type with IsZero on the pointer receiver inside a struct held by value in a map, two goroutines"),
 'C13-d': ("typed/validate.go visitMapItems: a null entry returns before the field lookup, so an undeclared field with a null value is accepted", "the 'undeclared field' corruption with a null payload on a map type without element type"),
 'C16-d': ("fieldpath/element.go PathElement.Compare: indices compared by subtraction, which wraps when they are 2^63 or more apart", "index path elements -2^62, 0, 2^62 under one parent"),
 'C17-d': ("value/map.go MapCompareUsing: with one side empty returns the length difference instead of -1/0/+1 while Less is Compare == -1", "an empty map against a map with two or more entries"),
 'C18-d': ("value/valuereflect.go reuse: the kind of a reused holder is recomputed only when the Go type changes, but nil-ness decides between null and list/map", "two consecutive same-typed slices or maps of different nil-ness through one holder (adjacent fields, [][]T, map values)"),
 'C20-d': ("typed/reconcile_schema.go visitListItems: an item that is a member counts as 'already owned whole' even with paths recorded beneath it", "the ELEMENT type of an associative list turning atomic, a record holding the item and fields beneath it"),
 'C07-b': ("the aliasing in EnsureNamedFieldsAreMembers once more (seen from C07: a re-apply rewrites the applier's own record)", "a second apply by a manager whose record has 3, 5–7 leaf members at a nested struct level and a struct sibling sorting before one of them"),
 'C08-b': ("fieldpath/set.go SetNodeMap.RecursiveDifference: binary-search fast-forward keeps `s.members[:i]` with the receiver's capacity, later appends write into the receiver", "s2 with children only at some level, s with an earlier child and a later child that loses something (reached through reconciliation when a nested struct turns atomic)"),
 'C09-b': ("schema/elements.go Resolve: a field-level elementRelationship override is written into the shared named LIST type instead of a copy", "a named list type referenced both plainly and with an override; any earlier call that resolves the overriding reference changes later results"),
 'C10-b': ("value/reflectcache.go: ordered field list sorted lazily under a sync.Once that lives in a copied struct, so concurrent first uses sort one shared slice", "several goroutines iterating a previously unseen struct type for the first time at once"),
 'C17-b': ("value/list.go ListCompareUsing: returns the length difference instead of -1/0/+1 while Less is `Compare == -1`", "a list that is a proper prefix of another and shorter by two or more"),
 'C18-b': ("value/mapreflect.go Has: `IsValid() && !IsZero()`: a key whose element is the zero value reads as absent", "a reflected Go map with a zero-valued entry on the left of a zip / Compare against a generic map"),
 'C08-a': ("fieldpath/set.go EnsureNamedFieldsAreMembers: starts from the operand's member slice instead of a copy", "set node with spare capacity in its member slice (3, 5–7, 9–15 members) and a named child sorting before a member"),
 'C09-a': ("merge/update.go addBackOwnedItems: the round's 'changed' flag keeps only the last version's answer", "managers at three versions with an ownership chain through a nested item; result then depends on map iteration order"),
 'C10-a': ("typed compareWalker returned to its pool without resetting inLeaf", "a Compare on a leaf-rooted type, then any Compare drawing the same pooled walker (other goroutine, other schema)"),
 'C11-a': ("typed/compare.go duplicates-before-and-after case: group comparison stops at the shorter group", "both operands hold duplicates of one member, groups of different size, the shorter a prefix of the longer"),
 'C11-b': ("value/mapunstructured.go EqualsUsing: a missing key reads as null", "two maps of equal size inside an atomic value whose one-sided keys all hold explicit nulls"),
 'C12-a': ("typed/typed.go: pooled mergingWalker no longer resets inLeaf", "a Merge with a leaf root, then any other Merge on the same P"),
 'C12-b': ("typed/merge.go visitListItems: stops looking up the left counterpart once the left cursor is exhausted", "keyed list present on both sides with the shared items in another order on the right, the moved item carrying a field only the left has"),
 'C13-a': ("typed/helpers.go: a key field present with explicit null treated as omitted", "keyed list item with a null key field"),
 'C13-b': ("schema/equals.go StructField.Equals: defaults compared with != (panics on maps and lists)", "a struct field whose default is a map or a list, then any merge or compare of two accepted values"),
 'C14-a': ("typed/typed.go ExtractItems(WithAppendKeyFields): per-call cache keyed by path element alone", "two keyed lists holding items with the same key, S with non-key leaves under both"),
 'C14-b': ("typed/remove.go doMap: declared fields looked up only when the map has no element type", "a type with both declared fields and an element type (preserve-unknown-fields shape) and a declared list field beneath it"),
 'C15-a': ("fieldpath/set.go RecursiveDifference: dropped the Members.Has guard in the 'child only on the left' branch", "s has paths beneath X, s2 has X as a member and children beneath a later sibling"),
 'C15-b': ("fieldpath/set.go Leaves: skips at most one child-only node per member", "a member that is also a parent, preceded by two parent-only siblings"),
 'C16-a': ("fieldpath/serialize.go readIterV1: one 'append directly' decision shared by members and children", "serialised set with keys out of canonical order (c,a,b pattern)"),
 'C16-b': ("fieldpath/serialize-pe.go: key fields sorted only if the LAST adjacent pair was out of order", "a k: element with ≥ 3 key fields, an earlier pair out of order and the last pair in order"),
 'C17-a': ("value: mixed int/float comparison through int64(float)", "a float with a fraction against the integer equal to its truncation (1.5 vs 1)"),
 'C18-a': ("value/structreflect.go Length(): consults CanOmit only for omitempty/omitzero fields", "struct inlining a nil pointer-to-struct with an untagged field"),
 'C19-a': ("fieldpath/set.go RecursiveDifference rewritten as a three-way switch; equal-key case loses the member check", "exclusion set containing a path and a strict descendant of it"),
 'C19-b': ("merge/update.go Update: only the changed fields go through the ignore filter, the old record is re-labelled unfiltered", "ignore configuration differing between versions; the same manager updates at v1, then at v2"),
 'C20-a': ("merge/update.go addBackOwnedItems: repeat-until-stable loop replaced by a fixed number of passes", "≥ 3 versions and an ownership chain alternating between versions through nested items"),
 'C20-b': ("fieldpath/set.go RecursiveDifference guard dropped (seen from C20: reconciliation with a schema that turns two fields atomic leaves a path beneath the atomic field)", "one field turning atomic directly under a parent and another one level deeper under a later sibling"),
}
out = ["| id | change | needs | reported by (message of the first failing case) | also run, silent |", "|---|---|---|---|---|"]
for p in sorted(glob.glob('/verif/seeded/*/meta.json')):
    m = json.load(open(p)); sid = m['id']
    caught = [(k, v) for k, v in m['checks'].items() if v['caught']]
    missed = [k for k, v in m['checks'].items() if not v['caught']]
    def msg(v):
        ms = v['messages'][0] if v['messages'] else v['summary']
        parts = [x.strip() for x in ms.split('|')]
        props = [x for x in parts if x.startswith('prop')]
        corr = [x for x in parts if x.startswith('corr')]
        pick = (props[:1] or corr[:1] or parts[:1])[0]
        return pick[:110]
    c = '; '.join("**%s**: %s" % (k, msg(v)) for k, v in caught)
    ch, needs = short.get(sid, (m.get('summary', '')[:120], m.get('needs', '')[:120]))
    out.append("| %s | %s | %s | %s | %s |" % (sid, ch, needs, c, ', '.join(missed) or '–'))
print('\n'.join(out))
