package main

// Operation histories against merge.Updater (C01-C07, C19, C20): every step is emitted
// with the implementation's own pre-state, so the model is driven one step at a time.

import (
	"fmt"
	"os"
	"sort"
	"strings"

	"sigs.k8s.io/structured-merge-diff/v6/fieldpath"
	"sigs.k8s.io/structured-merge-diff/v6/merge"
	"sigs.k8s.io/structured-merge-diff/v6/schema"
	"sigs.k8s.io/structured-merge-diff/v6/typed"
	"sigs.k8s.io/structured-merge-diff/v6/value"
)

// ---- configuration of an Updater run ----

type versionDef struct {
	name string
	sd   *schemaDef
	tr   schema.TypeRef
	// renaming of field names relative to the base version (nil = identity)
	rename map[string]string
}

type histConf struct {
	id        string
	versions  []*versionDef
	missing   map[string]bool // versions the converter reports as gone
	ignSets   map[fieldpath.APIVersion]*fieldpath.Set
	ignPats   map[string][][]string // include patterns per version ("*" = wildcard)
	useFilter bool                  // give exclusion sets through IgnoreFilter instead of IgnoredFields
}

func (c *histConf) version(n string) *versionDef {
	for _, v := range c.versions {
		if v.name == n {
			return v
		}
	}
	return nil
}

// converter: identity or field renaming between versions
type conv struct {
	c     *histConf
	calls int
	// failAt >= 0: the call with that index fails with an ordinary error
	failAt int
	fired  bool // the injected failure actually happened
}

type missingErr struct{ v string }

func (m missingErr) Error() string { return "missing version " + m.v }

func renameValue(v interface{}, f func(string) string) interface{} {
	switch t := v.(type) {
	case map[string]interface{}:
		out := make(map[string]interface{}, len(t))
		for k, x := range t {
			out[f(k)] = renameValue(x, f)
		}
		return out
	case []interface{}:
		out := make([]interface{}, len(t))
		for i, x := range t {
			out[i] = renameValue(x, f)
		}
		return out
	}
	return v
}

func (cv *conv) versionOf(tv *typed.TypedValue) *versionDef {
	tr := tv.TypeRef()
	for _, v := range cv.c.versions {
		if tv.Schema() == &v.sd.parser.Schema && tr.Equals(&v.tr) {
			return v
		}
	}
	return nil
}

func (cv *conv) Convert(object *typed.TypedValue, version fieldpath.APIVersion) (*typed.TypedValue, error) {
	idx := cv.calls
	cv.calls++
	if cv.failAt >= 0 && idx == cv.failAt {
		cv.fired = true
		return nil, fmt.Errorf("injected conversion failure at call %d", idx)
	}
	if cv.c.missing[string(version)] {
		return nil, missingErr{string(version)}
	}
	to := cv.c.version(string(version))
	if to == nil {
		return nil, missingErr{string(version)}
	}
	from := cv.versionOf(object)
	if from == nil {
		return nil, fmt.Errorf("object of unknown version")
	}
	if from == to {
		return object, nil
	}
	var u interface{}
	if object.AsValue() != nil {
		u = object.AsValue().Unstructured()
	}
	inv := map[string]string{}
	for k, v := range from.rename {
		inv[v] = k
	}
	u = renameValue(u, func(k string) string {
		base := k
		if b, ok := inv[k]; ok {
			base = b
		}
		if n, ok := to.rename[base]; ok {
			return n
		}
		return base
	})
	// a renaming converter is total: it must not reject the intermediate objects the
	// updater hands it (pruning can leave a list item without content)
	return typed.AsTypedUnvalidated(value.NewValueInterface(u), &to.sd.parser.Schema, to.tr), nil
}

func (cv *conv) IsMissingVersionError(err error) bool {
	_, ok := err.(missingErr)
	return ok
}

func (c *histConf) updater(returnInput bool, failAt int) (*merge.Updater, *conv) {
	cv := &conv{c: c, failAt: failAt}
	b := &merge.UpdaterBuilder{Converter: cv, ReturnInputOnNoop: returnInput}
	if c.ignSets != nil {
		if c.useFilter {
			b.IgnoreFilter = fieldpath.NewExcludeFilterSetMap(c.ignSets)
		} else {
			b.IgnoredFields = c.ignSets
		}
	} else if c.ignPats != nil {
		b.IgnoreFilter = map[fieldpath.APIVersion]fieldpath.Filter{}
		// one matcher value per distinct pattern, shared by the filters of all versions
		// (visited in sorted order so that runs are reproducible)
		shared := map[string]*fieldpath.SetMatcher{}
		vers := make([]string, 0, len(c.ignPats))
		for v := range c.ignPats {
			vers = append(vers, v)
		}
		sortStrings(vers)
		for _, v := range vers {
			var ms []*fieldpath.SetMatcher
			for _, p := range c.ignPats[v] {
				key := strings.Join(p, "\x00")
				m, ok := shared[key]
				if !ok {
					parts := make([]interface{}, len(p))
					for i, x := range p {
						if x == "*" {
							parts[i] = fieldpath.MatchAnyPathElement()
						} else {
							parts[i] = x
						}
					}
					m = fieldpath.MakePrefixMatcherOrDie(parts...)
					shared[key] = m
				}
				ms = append(ms, m)
			}
			b.IgnoreFilter[fieldpath.APIVersion(v)] = fieldpath.NewIncludeMatcherFilter(ms...)
		}
	}
	return b.BuildUpdater(), cv
}

func sexpConf(c *histConf) string {
	var b strings.Builder
	b.WriteString("(defconf " + quote(c.id) + " (versions")
	for _, v := range c.versions {
		b.WriteString(" (" + quote(v.name) + " " + quote(v.sd.id) + " " + sexpTypeRef(v.tr) + " (rename")
		keys := make([]string, 0, len(v.rename))
		for k := range v.rename {
			keys = append(keys, k)
		}
		sort.Strings(keys)
		for _, k := range keys {
			b.WriteString(" (" + quote(k) + " " + quote(v.rename[k]) + ")")
		}
		b.WriteString("))")
	}
	b.WriteString(") (missing")
	ms := make([]string, 0)
	for k := range c.missing {
		ms = append(ms, k)
	}
	sort.Strings(ms)
	for _, k := range ms {
		b.WriteString(" " + quote(k))
	}
	b.WriteString(") ")
	switch {
	case c.ignSets != nil:
		if c.useFilter {
			b.WriteString("(ignore-filter-sets")
		} else {
			b.WriteString("(ignore-sets")
		}
		vs := make([]string, 0)
		for k := range c.ignSets {
			vs = append(vs, string(k))
		}
		sort.Strings(vs)
		for _, k := range vs {
			b.WriteString(" (" + quote(k) + " " + sexpSet(c.ignSets[fieldpath.APIVersion(k)]) + ")")
		}
		b.WriteString(")")
	case c.ignPats != nil:
		b.WriteString("(ignore-patterns")
		vs := make([]string, 0)
		for k := range c.ignPats {
			vs = append(vs, k)
		}
		sort.Strings(vs)
		for _, k := range vs {
			b.WriteString(" (" + quote(k))
			for _, p := range c.ignPats[k] {
				b.WriteString(" (pat")
				for _, x := range p {
					if x == "*" {
						b.WriteString(" *")
					} else {
						b.WriteString(" (F " + quote(x) + ")")
					}
				}
				b.WriteString(")")
			}
			b.WriteString(")")
		}
		b.WriteString(")")
	default:
		b.WriteString("(ignore-none)")
	}
	b.WriteString(")")
	return b.String()
}

// ---- state ----

type appliedCfg struct {
	ver string
	v   interface{}
}

type hstate struct {
	live    *typed.TypedValue
	liveVer string
	managed fieldpath.ManagedFields
	// the last configuration each manager applied successfully (history knowledge that the
	// records alone do not carry: an Update rewrites the record as "not applied")
	applied map[string]appliedCfg
}

func (st *hstate) withApplied(mgr, ver string, v interface{}) map[string]appliedCfg {
	out := map[string]appliedCfg{}
	for k, x := range st.applied {
		out[k] = x
	}
	if mgr != "" {
		out[mgr] = appliedCfg{ver, v}
	}
	return out
}

func sexpManaged(m fieldpath.ManagedFields) string {
	if m == nil {
		return "(M)"
	}
	names := make([]string, 0, len(m))
	for k := range m {
		names = append(names, k)
	}
	sort.Strings(names)
	var b strings.Builder
	b.WriteString("(M")
	for _, n := range names {
		vs := m[n]
		b.WriteString(" (" + quote(n) + " " + quote(string(vs.APIVersion())) + " " + sexpBool(vs.Applied()) + " " + sexpSet(vs.Set()) + ")")
	}
	b.WriteString(")")
	return b.String()
}

func copyManaged(m fieldpath.ManagedFields) fieldpath.ManagedFields {
	out := fieldpath.ManagedFields{}
	for k, v := range m {
		// rebuilt by insertion, the way a caller obtains a set (field-set walker, decoder):
		// slices grown by append keep spare capacity, which set operations sized exactly
		// would hide from code that wrongly appends in place
		c := fieldpath.NewSet()
		v.Set().Iterate(func(p fieldpath.Path) { c.Insert(p.Copy()) })
		out[k] = fieldpath.NewVersionedSet(c, v.APIVersion(), v.Applied())
	}
	return out
}

func sexpTV(ver string, tv *typed.TypedValue) string {
	if tv == nil {
		return "-"
	}
	return "(tv " + quote(ver) + " " + sexpVal(tv.AsValue()) + ")"
}

func sexpConflicts(cs merge.Conflicts) string {
	items := make([]string, 0, len(cs))
	for _, c := range cs {
		items = append(items, "("+quote(c.Manager)+" "+sexpPath(c.Path)+")")
	}
	sort.Strings(items)
	return "(conflict " + strings.Join(items, " ") + ")"
}

type opResult struct {
	obj     *typed.TypedValue
	managed fieldpath.ManagedFields
	err     error
	panicked bool
	calls   int
	fired   bool
}

func (r opResult) ok() bool { return r.err == nil && !r.panicked }

func sexpOutcome(ver string, r opResult) string {
	if r.panicked {
		return "panic"
	}
	if r.err != nil {
		if cs, ok := r.err.(merge.Conflicts); ok {
			return sexpConflicts(cs)
		}
		if os.Getenv("VERIF_DEBUG") != "" {
			fmt.Fprintln(os.Stderr, "error:", r.err)
		}
		return "err"
	}
	return "(ok " + sexpTV(ver, r.obj) + " " + sexpManaged(r.managed) + ")"
}

func runApply(c *histConf, st *hstate, mgr, ver string, cfg *typed.TypedValue, force, returnInput bool, failAt int) (res opResult) {
	u, cv := c.updater(returnInput, failAt)
	defer func() {
		res.calls = cv.calls
		if x := recover(); x != nil {
			res.panicked = true
			res.err = fmt.Errorf("panic: %v", x)
		}
	}()
	obj, m, err := u.Apply(st.live, cfg, fieldpath.APIVersion(ver), copyManaged(st.managed), mgr, force)
	return opResult{obj: obj, managed: m, err: err}
}

func runUpdate(c *histConf, st *hstate, mgr, ver string, obj *typed.TypedValue, failAt int) (res opResult) {
	u, cv := c.updater(false, failAt)
	defer func() {
		res.calls = cv.calls
		if x := recover(); x != nil {
			res.panicked = true
			res.err = fmt.Errorf("panic: %v", x)
		}
	}()
	o, m, err := u.Update(st.live, obj, fieldpath.APIVersion(ver), copyManaged(st.managed), mgr)
	return opResult{obj: o, managed: m, err: err}
}

// the live object expressed in version ver (what the caller of Apply/Update must supply)
func (st *hstate) liveAt(c *histConf, ver string) (*typed.TypedValue, bool) {
	if st.liveVer == ver {
		return st.live, true
	}
	cv := &conv{c: c, failAt: -1}
	tv, err := cv.Convert(st.live, fieldpath.APIVersion(ver))
	if err != nil {
		return nil, false
	}
	return tv, true
}

func newState(c *histConf, ver string) *hstate {
	v := c.version(ver)
	tv, err := typed.AsTyped(value.NewValueInterface(nil), &v.sd.parser.Schema, v.tr)
	if err != nil {
		panic(err)
	}
	return &hstate{live: tv, liveVer: ver, managed: fieldpath.ManagedFields{}}
}
