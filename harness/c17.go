package main

import (
	"fmt"
	"strings"

	"sigs.k8s.io/structured-merge-diff/v6/fieldpath"
	"sigs.k8s.io/structured-merge-diff/v6/value"
)

func init() { generators["C17"] = genC17 }

type L = []interface{}
type M = map[string]interface{}

func valueUniverse() []interface{} {
	big := int64(1) << 53
	return []interface{}{
		nil, true, false,
		int64(-1), int64(0), int64(1), int64(2), big, -big, int64(6000000000000000000), int64(-6000000000000000000),
		uint32(3), int32(3), int(3),
		float64(-1), float64(0), 0.5, float64(1), 1.5, float64(2), float64(big), -0.5, 1e-3, float64(big) * 4,
		"", "a", "ab", "b", "a\"b\\", "A",
		L{}, L{int64(1)}, L{int64(1), int64(2)}, L{float64(1)}, L{"a"}, L{L{}}, L{nil}, L{int64(2)},
		M{}, M{"a": int64(1)}, M{"a": int64(1), "b": int64(2)}, M{"b": int64(1)}, M{"a": float64(1)},
		M{"a": M{"b": int64(1)}}, M{"a": nil}, M{"a": int64(2)}, M{"a": int64(1), "c": int64(0)},
	}
}

func randomValue(e *emitter, depth int) interface{} {
	r := e.rng
	k := r.Intn(9)
	if depth <= 0 && k >= 7 {
		k = r.Intn(7)
	}
	switch k {
	case 0:
		return nil
	case 1:
		return r.Intn(2) == 0
	case 2:
		return []int64{-1, 0, 1, 2, 3, 1 << 53, -(1 << 53)}[r.Intn(7)]
	case 3:
		return []float64{-1, 0, 0.5, 1, 1.5, 2, 3, 9007199254740992, 0.25}[r.Intn(9)]
	case 4, 5:
		return []string{"", "a", "b", "ab", "ba", "a b", "é", "\x01"}[r.Intn(8)]
	case 6:
		return int64(r.Intn(5))
	case 7:
		n := r.Intn(3)
		l := L{}
		for i := 0; i < n; i++ {
			l = append(l, randomValue(e, depth-1))
		}
		return l
	default:
		n := r.Intn(3)
		m := M{}
		for i := 0; i < n; i++ {
			m[[]string{"a", "b", "c"}[r.Intn(3)]] = randomValue(e, depth-1)
		}
		return m
	}
}

func sp(s string) *string { return &s }
func ip(i int) *int       { return &i }

func peField(n string) fieldpath.PathElement { return fieldpath.PathElement{FieldName: &n} }
func peIndex(i int) fieldpath.PathElement    { return fieldpath.PathElement{Index: &i} }
func peValue(v interface{}) fieldpath.PathElement {
	vv := value.NewValueInterface(v)
	return fieldpath.PathElement{Value: &vv}
}
func peKey(kv ...interface{}) fieldpath.PathElement {
	return fieldpath.PathElement{Key: fieldpath.KeyByFields(kv...)}
}

func peUniverse() []fieldpath.PathElement {
	return []fieldpath.PathElement{
		peField(""), peField("a"), peField("b"), peField("ab"),
		peKey("name", "a"), peKey("name", "b"), peKey("name", "a", "x", int64(1)), peKey("name", int64(1)),
		peKey("name", float64(1)), peKey("name", "a", "x", float64(1)), peKey("id", int64(1)),
		peValue(nil), peValue(true), peValue(int64(1)), peValue(float64(1)), peValue(1.5), peValue("a"), peValue("b"),
		peValue(int64(2)), peValue(L{int64(1)}), peValue(M{"a": int64(1)}),
		peIndex(-1), peIndex(0), peIndex(1), peIndex(2), peIndex(1 << 62), peIndex(-(1 << 62)),
		peValue(int64(6000000000000000000)), peValue(int64(-6000000000000000000)),
		peKey("id", int64(6000000000000000000)), peKey("id", int64(-6000000000000000000)),
	}
}

func matrixLine(kind string, items []string, cell func(i, j int) (int, bool, bool)) string {
	var b strings.Builder
	b.WriteString("(c17.matrix " + kind + " (items")
	for _, it := range items {
		b.WriteString(" " + it)
	}
	b.WriteString(") (rows")
	for i := range items {
		b.WriteString(" (")
		for j := range items {
			c, eq, l := cell(i, j)
			if j > 0 {
				b.WriteByte(' ')
			}
			fmt.Fprintf(&b, "(%d %s %s)", c, sexpBool(eq), sexpBool(l))
		}
		b.WriteString(")")
	}
	b.WriteString("))")
	return b.String()
}

func sign(c int) int {
	if c < 0 {
		return -1
	}
	if c > 0 {
		return 1
	}
	return 0
}

func emitValueMatrix(e *emitter, vals []interface{}) {
	items := make([]string, len(vals))
	vs := make([]value.Value, len(vals))
	for i, v := range vals {
		items[i] = sexpValue(v)
		vs[i] = value.NewValueInterface(v)
	}
	e.line(matrixLine("value", items, func(i, j int) (int, bool, bool) {
		return sign(value.Compare(vs[i], vs[j])), value.Equals(vs[i], vs[j]), value.Less(vs[i], vs[j])
	}))
}

func emitPEMatrix(e *emitter, pes []fieldpath.PathElement) {
	items := make([]string, len(pes))
	for i, p := range pes {
		items[i] = sexpPE(p)
	}
	e.line(matrixLine("pe", items, func(i, j int) (int, bool, bool) {
		return sign(pes[i].Compare(pes[j])), pes[i].Equals(pes[j]), pes[i].Less(pes[j])
	}))
}

func emitPathMatrix(e *emitter, ps []fieldpath.Path) {
	items := make([]string, len(ps))
	for i, p := range ps {
		items[i] = sexpPath(p)
	}
	e.line(matrixLine("path", items, func(i, j int) (int, bool, bool) {
		c := sign(ps[i].Compare(ps[j]))
		return c, ps[i].Equals(ps[j]), c < 0
	}))
}

func emitFLMatrix(e *emitter, fls []value.FieldList) {
	items := make([]string, len(fls))
	for i, f := range fls {
		items[i] = "(" + sexpFieldList(f) + ")"
	}
	e.line(matrixLine("fl", items, func(i, j int) (int, bool, bool) {
		return sign(fls[i].Compare(fls[j])), fls[i].Equals(fls[j]), fls[i].Less(fls[j])
	}))
}

func emitPMMatrix(e *emitter, pms []fieldpath.PathElementMatcher) {
	items := make([]string, len(pms))
	for i, p := range pms {
		if p.Wildcard {
			items[i] = "*"
		} else {
			items[i] = sexpPE(p.PathElement)
		}
	}
	e.line(matrixLine("pm", items, func(i, j int) (int, bool, bool) {
		return sign(pms[i].Compare(pms[j])), pms[i].Equals(pms[j]), pms[i].Less(pms[j])
	}))
}

func fl(kv ...interface{}) value.FieldList {
	out := value.FieldList{}
	for i := 0; i+1 < len(kv); i += 2 {
		out = append(out, value.Field{Name: kv[i].(string), Value: value.NewValueInterface(kv[i+1])})
	}
	return out
}

func genC17(e *emitter, tier string) {
	pes := peUniverse()
	if shardIndex == 0 {
		genC17Fixed(e, pes)
		genC17Schemas(e, tier)
	}
	genC17Random(e, tier, pes)
	// reflected Go values: compare is 0 exactly when equals, compare is antisymmetric, and
	// both agree with the order of the generic views
	nr := 600
	if tier == "thorough" {
		nr = 20000
	}
	emitReflectPairs(e, nr/shardCount)
}

func genC17Fixed(e *emitter, pes []fieldpath.PathElement) {
	// exhaustive over the fixed universes
	emitValueMatrix(e, valueUniverse())
	emitPEMatrix(e, pes)
	// paths up to length 3 over a few elements
	small := []fieldpath.PathElement{peField("a"), peField("b"), peKey("name", "a"), peValue(int64(1)), peValue(float64(1)), peIndex(0)}
	var paths []fieldpath.Path
	paths = append(paths, fieldpath.Path{})
	for _, a := range small {
		paths = append(paths, fieldpath.Path{a})
		for _, b := range small {
			paths = append(paths, fieldpath.Path{a, b})
		}
	}
	paths = append(paths, fieldpath.Path{small[0], small[1], small[2]}, fieldpath.Path{small[0], small[1], small[3]}, fieldpath.Path{small[0], small[1]})
	emitPathMatrix(e, paths)
	emitFLMatrix(e, []value.FieldList{
		fl(), fl("a", int64(1)), fl("a", float64(1)), fl("a", int64(2)), fl("b", int64(1)),
		fl("a", int64(1), "b", int64(2)), fl("a", int64(1), "b", int64(3)), fl("a", "x"), fl("a", nil),
		// three and five fields, differing in the last one only; prefixes of one another
		fl("a", int64(1), "b", int64(2), "c", int64(1)), fl("a", int64(1), "b", int64(2), "c", int64(2)),
		fl("a", int64(1), "b", int64(2), "c", int64(1), "d", "x", "e", int64(1)), fl("a", int64(1), "b", int64(2), "c", int64(1), "d", "x", "e", int64(2)),
		fl("b", int64(1), "a", int64(1)), fl("a", int64(1), "a", int64(1)),
	})
	pms := []fieldpath.PathElementMatcher{{Wildcard: true}, {Wildcard: true, PathElement: peField("a")}}
	for _, p := range []fieldpath.PathElement{peField("a"), peField("b"), peKey("name", "a"), peValue(int64(1)), peValue(float64(1)), peIndex(0), peIndex(1)} {
		pms = append(pms, fieldpath.PathElementMatcher{PathElement: p})
	}
	emitPMMatrix(e, pms)
}

func genC17Random(e *emitter, tier string, pes []fieldpath.PathElement) {
	// random universes
	rounds := 2
	if tier == "thorough" {
		rounds = 20
	}
	for r := 0; r < rounds; r++ {
		vals := []interface{}{}
		for i := 0; i < 24; i++ {
			vals = append(vals, randomValue(e, 2))
		}
		emitValueMatrix(e, vals)
		var rp []fieldpath.PathElement
		for i := 0; i < 12; i++ {
			switch e.rng.Intn(4) {
			case 0:
				rp = append(rp, peField([]string{"a", "b", "c", ""}[e.rng.Intn(4)]))
			case 1:
				rp = append(rp, peKey("name", randomValue(e, 0), "x", randomValue(e, 0)))
			case 2:
				rp = append(rp, peValue(randomValue(e, 1)))
			default:
				rp = append(rp, peIndex(e.rng.Intn(4)-1))
			}
		}
		emitPEMatrix(e, rp)
	}

	// sorted containers after shuffled inserts
	n := 100
	if tier == "thorough" {
		n = 2000
	}
	for k := 0; k < n; k++ {
		cnt := 1 + e.rng.Intn(10)
		var ins []fieldpath.PathElement
		for i := 0; i < cnt; i++ {
			ins = append(ins, pes[e.rng.Intn(len(pes))])
		}
		set := fieldpath.MakePathElementSet(0)
		for _, p := range ins {
			set.Insert(p)
		}
		var b strings.Builder
		b.WriteString("(c17.pes (")
		for i, p := range ins {
			if i > 0 {
				b.WriteByte(' ')
			}
			b.WriteString(sexpPE(p))
		}
		b.WriteString(") (")
		for i, p := range pes {
			if i > 0 {
				b.WriteByte(' ')
			}
			b.WriteString(sexpPE(p))
		}
		b.WriteString(") (")
		first := true
		set.Iterate(func(p fieldpath.PathElement) {
			if !first {
				b.WriteByte(' ')
			}
			first = false
			b.WriteString(sexpPE(p))
		})
		b.WriteString(") (")
		for i, p := range pes {
			if i > 0 {
				b.WriteByte(' ')
			}
			b.WriteString(sexpBool(set.Has(p)))
		}
		b.WriteString("))")
		e.line(b.String())

		m := fieldpath.MakePathElementMap(0)
		var b2 strings.Builder
		b2.WriteString("(c17.pem (")
		for i, p := range ins {
			m.Insert(p, i)
			if i > 0 {
				b2.WriteByte(' ')
			}
			fmt.Fprintf(&b2, "(%s %d)", sexpPE(p), i)
		}
		b2.WriteString(") (")
		for i, p := range pes {
			if i > 0 {
				b2.WriteByte(' ')
			}
			b2.WriteString(sexpPE(p))
		}
		b2.WriteString(") (")
		for i, p := range pes {
			if i > 0 {
				b2.WriteByte(' ')
			}
			if v, ok := m.Get(p); ok {
				fmt.Fprintf(&b2, "%d", v.(int))
			} else {
				b2.WriteString("-")
			}
		}
		b2.WriteString("))")
		e.line(b2.String())
	}
}
