package main

import (
	"bytes"
	"encoding/json"
	"fmt"
	"sort"
	"strconv"
	"strings"

	"sigs.k8s.io/structured-merge-diff/v6/fieldpath"
	"sigs.k8s.io/structured-merge-diff/v6/value"
)

func init() { generators["C16"] = genC16 }

// an ordered JSON object tree with classified keys (independent of SMD's own codec)
type jmember struct {
	kind string // "self", "pe", "unknown", "bad"
	pe   fieldpath.PathElement
	raw  string
	sub  *jtree
}
type jtree struct{ members []jmember }

func classifyKey(k string) jmember {
	if k == "." {
		return jmember{kind: "self", raw: k}
	}
	if len(k) < 2 || k[1] != ':' {
		return jmember{kind: "bad", raw: k}
	}
	body := k[2:]
	switch k[0] {
	case 'f':
		return jmember{kind: "pe", pe: peField(body), raw: k}
	case 'i':
		i, err := strconv.Atoi(body)
		if err != nil {
			return jmember{kind: "bad", raw: k}
		}
		return jmember{kind: "pe", pe: peIndex(i), raw: k}
	case 'v':
		var v interface{}
		d := json.NewDecoder(strings.NewReader(body))
		if err := d.Decode(&v); err != nil || d.More() {
			return jmember{kind: "bad", raw: k}
		}
		return jmember{kind: "pe", pe: peValue(normJSON(v)), raw: k}
	case 'k':
		d := json.NewDecoder(strings.NewReader(body))
		tok, err := d.Token()
		if err != nil || tok != json.Delim('{') {
			return jmember{kind: "bad", raw: k}
		}
		fl := value.FieldList{}
		for d.More() {
			kt, err := d.Token()
			if err != nil {
				return jmember{kind: "bad", raw: k}
			}
			var v interface{}
			if err := d.Decode(&v); err != nil {
				return jmember{kind: "bad", raw: k}
			}
			fl = append(fl, value.Field{Name: kt.(string), Value: value.NewValueInterface(normJSON(v))})
		}
		if _, err := d.Token(); err != nil {
			return jmember{kind: "bad", raw: k}
		}
		sort.SliceStable(fl, func(i, j int) bool { return fl[i].Name < fl[j].Name })
		return jmember{kind: "pe", pe: fieldpath.PathElement{Key: &fl}, raw: k}
	}
	return jmember{kind: "unknown", raw: k}
}

// encoding/json numbers are float64, as with jsoniter's Read
func normJSON(v interface{}) interface{} {
	switch t := v.(type) {
	case map[string]interface{}:
		out := M{}
		for k, x := range t {
			out[k] = normJSON(x)
		}
		return out
	case []interface{}:
		out := make(L, len(t))
		for i, x := range t {
			out[i] = normJSON(x)
		}
		return out
	}
	return v
}

func decodeTree(d *json.Decoder) (*jtree, error) {
	tok, err := d.Token()
	if err != nil {
		return nil, err
	}
	if tok != json.Delim('{') {
		return nil, fmt.Errorf("not an object")
	}
	t := &jtree{}
	for d.More() {
		kt, err := d.Token()
		if err != nil {
			return nil, err
		}
		m := classifyKey(kt.(string))
		sub, err := decodeTree(d)
		if err != nil {
			return nil, err
		}
		m.sub = sub
		t.members = append(t.members, m)
	}
	if _, err := d.Token(); err != nil {
		return nil, err
	}
	return t, nil
}

func treeOfBytes(b []byte) (*jtree, error) {
	d := json.NewDecoder(bytes.NewReader(b))
	return decodeTree(d)
}

func renderKeyPE(pe fieldpath.PathElement) string {
	switch {
	case pe.FieldName != nil:
		return "f:" + *pe.FieldName
	case pe.Index != nil:
		return "i:" + strconv.Itoa(*pe.Index)
	case pe.Value != nil:
		b, _ := json.Marshal((*pe.Value).Unstructured())
		return "v:" + string(b)
	case pe.Key != nil:
		var sb strings.Builder
		sb.WriteString("k:{")
		for i, f := range *pe.Key {
			if i > 0 {
				sb.WriteByte(',')
			}
			kb, _ := json.Marshal(f.Name)
			vb, _ := json.Marshal(f.Value.Unstructured())
			sb.Write(kb)
			sb.WriteByte(':')
			sb.Write(vb)
		}
		sb.WriteByte('}')
		return sb.String()
	}
	return "?"
}

func renderTree(t *jtree) []byte {
	var b bytes.Buffer
	b.WriteByte('{')
	for i, m := range t.members {
		if i > 0 {
			b.WriteByte(',')
		}
		key := m.raw
		if m.kind == "pe" {
			key = renderKeyPE(m.pe)
		}
		kb, _ := json.Marshal(key)
		b.Write(kb)
		b.WriteByte(':')
		if m.sub == nil {
			b.WriteString("{}")
		} else {
			b.Write(renderTree(m.sub))
		}
	}
	b.WriteByte('}')
	return b.Bytes()
}

func sexpTree(t *jtree) string {
	var b strings.Builder
	b.WriteString("(o")
	for _, m := range t.members {
		b.WriteString(" (")
		switch m.kind {
		case "self":
			b.WriteString(".")
		case "pe":
			b.WriteString(sexpPE(m.pe))
		case "unknown":
			b.WriteString("?")
		default:
			b.WriteString("!")
		}
		b.WriteByte(' ')
		if m.sub == nil {
			b.WriteString("(o)")
		} else {
			b.WriteString(sexpTree(m.sub))
		}
		b.WriteString(")")
	}
	b.WriteString(")")
	return b.String()
}

func permuteTree(e *emitter, t *jtree) *jtree {
	out := &jtree{members: append([]jmember{}, t.members...)}
	e.rng.Shuffle(len(out.members), func(i, j int) { out.members[i], out.members[j] = out.members[j], out.members[i] })
	for i := range out.members {
		if out.members[i].sub != nil {
			out.members[i].sub = permuteTree(e, out.members[i].sub)
		}
	}
	return out
}

// repeated keys, unknown kinds, bad keys, stray self markers
func perturbTree(e *emitter, t *jtree, depth int) *jtree {
	out := &jtree{}
	for _, m := range t.members {
		if m.sub != nil && depth > 0 {
			m.sub = perturbTree(e, m.sub, depth-1)
		}
		out.members = append(out.members, m)
		switch e.rng.Intn(10) {
		case 0: // repeat the key with another subtree
			dup := m
			if len(t.members) > 0 {
				dup.sub = t.members[e.rng.Intn(len(t.members))].sub
			}
			out.members = append(out.members, dup)
		case 1:
			out.members = append(out.members, jmember{kind: "unknown", raw: "x:future", sub: m.sub})
		case 2:
			out.members = append(out.members, jmember{kind: "bad", raw: []string{"f", "", "v:{", "i:1.5", "nocolon", "k:[1]"}[e.rng.Intn(6)], sub: &jtree{}})
		case 3:
			out.members = append(out.members, jmember{kind: "self", raw: ".", sub: &jtree{}})
		}
	}
	if e.rng.Intn(4) == 0 {
		e.rng.Shuffle(len(out.members), func(i, j int) { out.members[i], out.members[j] = out.members[j], out.members[i] })
	}
	return out
}

func fromJSON(b []byte) (res string) {
	defer func() {
		if r := recover(); r != nil {
			res = "panic"
		}
	}()
	s := fieldpath.NewSet()
	err := s.FromJSON(bytes.NewReader(b))
	return sexpSet(s) + " " + sexpBool(err != nil)
}

// path universe with strings that need escaping and numbers exactly representable
func c16Universe() []fieldpath.Path {
	q := "a\"b\\c"
	u := "é x"
	ctl := "t\tn\n"
	return append(pathUniverse(),
		fieldpath.Path{peField(q)}, fieldpath.Path{peField(q), peField(u)}, fieldpath.Path{peField("")},
		fieldpath.Path{peField("a"), peValue(q)}, fieldpath.Path{peField("a"), peValue(ctl)},
		fieldpath.Path{peField("a"), peKey("name", q, "id", int64(3))}, fieldpath.Path{peField("a"), peKey("name", q, "id", int64(3)), peField("z")},
		fieldpath.Path{peField("b"), peValue(1.5)}, fieldpath.Path{peField("b"), peValue(true)}, fieldpath.Path{peField("b"), peValue(nil)},
		fieldpath.Path{peField("b"), peIndex(-3)}, fieldpath.Path{peField("f:x")}, fieldpath.Path{peField(".")},
		fieldpath.Path{peField("b"), peValue(float64(1 << 40))}, fieldpath.Path{peField("b"), peValue(int64(1) << 53)},
		// numbers of other Go widths, as a caller may hand them over
		fieldpath.Path{peField("w"), peValue(uint32(7))}, fieldpath.Path{peField("w"), peValue(uint32(9))},
		fieldpath.Path{peField("w"), peValue(int32(8))}, fieldpath.Path{peField("w"), peValue(int(5))},
		fieldpath.Path{peField("w"), peKey("port", uint32(8080))}, fieldpath.Path{peField("w"), peKey("port", uint32(443)), peField("name")},
		fieldpath.Path{peField("w"), peValue(float32(2.5))},
	)
}

func genC16(e *emitter, tier string) {
	univ := c16Universe()
	n := 600
	if tier == "thorough" {
		n = 30000
	}
	n /= shardCount
	for k := 0; k < n; k++ {
		var ps []fieldpath.Path
		for _, p := range univ {
			if e.rng.Intn(4) == 0 {
				ps = append(ps, p)
			}
		}
		set := fieldpath.NewSet(shuffled(e, ps)...)
		b, err := set.ToJSON()
		if err != nil {
			e.line("(c16.error \"ToJSON failed\")")
			continue
		}
		tree, terr := treeOfBytes(b)
		if terr != nil {
			e.line("(c16.error \"ToJSON output is not a JSON object tree\")")
			continue
		}
		b2, _ := fieldpath.NewSet(shuffled(e, ps)...).ToJSON()
		parsed := fieldpath.NewSet()
		perr := parsed.FromJSON(bytes.NewReader(b))
		b3, _ := parsed.ToJSON()
		same := bytes.Equal(b, b2) && bytes.Equal(b, b3)
		e.line(fmt.Sprintf("(c16.roundtrip %s %s %s %s %s)", sexpPaths(ps), sexpTree(tree), sexpSet(parsed), sexpBool(perr != nil), sexpBool(same)))
		// any permutation of the members, at every level, parses to the same set
		pt := permuteTree(e, tree)
		e.line(fmt.Sprintf("(c16.perm %s %s %s)", sexpPaths(ps), sexpTree(pt), fromJSON(renderTree(pt))))
		// repeated keys, unknown kinds, bad keys
		xt := perturbTree(e, tree, 3)
		e.line(fmt.Sprintf("(c16.parse %s %s)", sexpTree(xt), fromJSON(renderTree(xt))))
		// byte-level mutation of the serialisation: error or well-formed set, no panic
		mb := append([]byte{}, b...)
		for m := 0; m < 1+e.rng.Intn(3) && len(mb) > 0; m++ {
			pos := e.rng.Intn(len(mb))
			switch e.rng.Intn(3) {
			case 0:
				mb[pos] = byte(e.rng.Intn(256))
			case 1:
				mb = append(mb[:pos], mb[pos+1:]...)
			default:
				mb = append(mb[:pos], append([]byte{"{}[]\":,\\x0"[e.rng.Intn(10)]}, mb[pos:]...)...)
			}
		}
		e.line(fmt.Sprintf("(c16.fuzz %s)", fromJSON(mb)))
	}
	// single path elements
	var pes []fieldpath.PathElement
	for _, p := range univ {
		pes = append(pes, p...)
	}
	for _, pe := range pes {
		s, err := fieldpath.SerializePathElement(pe)
		res := "err"
		if err == nil {
			func() {
				defer func() {
					if r := recover(); r != nil {
						res = "panic"
					}
				}()
				back, derr := fieldpath.DeserializePathElement(s)
				if derr == nil {
					res = sexpPE(back)
				}
			}()
		}
		// the independent key classifier must read the same element
		ind := classifyKey(s)
		indS := "-"
		if ind.kind == "pe" {
			indS = sexpPE(ind.pe)
		}
		e.line(fmt.Sprintf("(c16.pe %s %s %s)", sexpPE(pe), res, indS))
	}
	// the fields of a key may come in any order in the serialised form
	keys := []fieldpath.PathElement{
		peKey("name", "a", "id", int64(3)),
		peKey("ip", "10.0.0.1", "port", int64(443), "protocol", "tcp"),
		peKey("a", int64(1), "b", true, "c", "x", "d", 1.5),
	}
	for _, pe := range keys {
		fields := *pe.Key
		idx := make([]int, len(fields))
		for i := range idx {
			idx[i] = i
		}
		var perms [][]int
		var rec func(k int)
		rec = func(k int) {
			if k == len(idx) {
				perms = append(perms, append([]int{}, idx...))
				return
			}
			for i := k; i < len(idx); i++ {
				idx[k], idx[i] = idx[i], idx[k]
				rec(k + 1)
				idx[k], idx[i] = idx[i], idx[k]
			}
		}
		rec(0)
		canonical, _ := fieldpath.SerializePathElement(pe)
		for _, perm := range perms {
			var sb strings.Builder
			sb.WriteString("k:{")
			for j, i := range perm {
				if j > 0 {
					sb.WriteByte(',')
				}
				vb, _ := value.ToJSON(fields[i].Value)
				nb, _ := json.Marshal(fields[i].Name)
				sb.Write(nb)
				sb.WriteByte(':')
				sb.Write(vb)
			}
			sb.WriteString("}")
			res, again := "err", "-"
			func() {
				defer func() {
					if r := recover(); r != nil {
						res = "panic"
					}
				}()
				back, derr := fieldpath.DeserializePathElement(sb.String())
				if derr == nil {
					res = sexpPE(back)
					if s2, err := fieldpath.SerializePathElement(back); err == nil {
						again = sexpBool(s2 == canonical)
					}
				}
			}()
			// and as a member of a set
			kb, _ := json.Marshal(sb.String())
			doc := []byte("{\"f:l\":{" + string(kb) + ":{\"f:z\":{}}}}")
			e.line(fmt.Sprintf("(c16.keyorder %s %s %s %s %s)", sexpPE(pe), res, again,
				sexpPaths([]fieldpath.Path{{peField("l"), pe, peField("z")}}), fromJSON(doc)))
		}
	}
}
