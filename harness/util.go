package main

import "strconv"

func itoa(i int) string { return strconv.Itoa(i) }

func sortStrings(s []string) {
	for i := 1; i < len(s); i++ {
		for j := i; j > 0 && s[j] < s[j-1]; j-- {
			s[j], s[j-1] = s[j-1], s[j]
		}
	}
}
