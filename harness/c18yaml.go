package main

import (
	"sigs.k8s.io/structured-merge-diff/v6/value"
	"sigs.k8s.io/yaml"
)

func yamlToValue(b []byte) (value.Value, error) {
	var u interface{}
	if err := yaml.Unmarshal(b, &u); err != nil {
		return nil, err
	}
	return value.NewValueInterface(u), nil
}
