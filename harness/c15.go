package main

import (
	"strings"

	"sigs.k8s.io/structured-merge-diff/v6/fieldpath"
)

func init() { generators["C15"] = genC15 }

// a universe of paths mixing the four path-element kinds up to depth 3
func pathUniverse() []fieldpath.Path {
	a, b := peField("a"), peField("b")
	k1, k2 := peKey("name", "x"), peKey("name", "y")
	v1, v2 := peValue(int64(1)), peValue("s")
	i0 := peIndex(0)
	return []fieldpath.Path{
		{a}, {b}, {a, b}, {a, k1}, {a, k1, b}, {a, k1, a}, {a, k2}, {b, v1}, {b, v2}, {b, i0},
		{a, a}, {a, a, a}, {k1}, {k1, a}, {v1}, {i0}, {b, v1, a}, {a, k2, v1}, {a, b, i0}, {b, b},
		{a, k1, k1}, {b, i0, a}, {peField("c")}, {peField("c"), peField("d")}, {peField("c"), peField("d"), peField("e")},
		{a, peValue(float64(1))}, {a, peValue(int64(1))}, {a, peKey("name", int64(1))}, {a, peKey("name", float64(1))},
		{b, peValue(1.5)}, {b, peValue(0.5)}, {a, peKey("name", 1.5)},
		// integers and indices more than 2^63 apart
		{b, peIndex(1 << 62)}, {b, peIndex(-(1 << 62))}, {b, peValue(int64(6000000000000000000))}, {b, peValue(int64(-6000000000000000000))},
		{a, peKey("name", int64(6000000000000000000))}, {a, peKey("name", int64(-6000000000000000000))},
	}
}

// a universe with many siblings per node (the set operations and member searches
// change strategy with the number of members)
func wideUniverse() []fieldpath.Path {
	var els []fieldpath.PathElement
	for i := 0; i < 14; i++ {
		els = append(els, peField("f"+string(rune('a'+i))))
	}
	for i := 0; i < 8; i++ {
		els = append(els, peKey("name", "k"+string(rune('a'+i))))
	}
	for i := 0; i < 6; i++ {
		els = append(els, peValue(int64(i)))
	}
	for i := 0; i < 4; i++ {
		els = append(els, peIndex(i))
	}
	var out []fieldpath.Path
	for _, x := range els {
		out = append(out, fieldpath.Path{x})
	}
	for _, x := range els {
		out = append(out, fieldpath.Path{els[3], x})
	}
	for i, x := range els {
		if i%2 == 0 {
			out = append(out, fieldpath.Path{els[16], els[1], x})
		}
	}
	return out
}

func subsetOf(u []fieldpath.Path, mask int) []fieldpath.Path {
	var out []fieldpath.Path
	for i := range u {
		if mask&(1<<uint(i)) != 0 {
			out = append(out, u[i])
		}
	}
	return out
}

func shuffled(e *emitter, ps []fieldpath.Path) []fieldpath.Path {
	out := append([]fieldpath.Path{}, ps...)
	e.rng.Shuffle(len(out), func(i, j int) { out[i], out[j] = out[j], out[i] })
	return out
}

func emitSetOps(e *emitter, a, b, univ []fieldpath.Path, pfx fieldpath.PathElement) {
	sa := fieldpath.NewSet(a...)
	sb := fieldpath.NewSet(b...)
	sa2 := fieldpath.NewSet(shuffled(e, a)...)
	var sb2 strings.Builder
	sb2.WriteString("(c15.setops " + sexpPaths(a) + " " + sexpPaths(b) + " " + sexpPaths(univ) + " " + sexpPE(pfx))
	sb2.WriteString(" " + sexpSet(sa.Union(sb)))
	sb2.WriteString(" " + sexpSet(sa.Intersection(sb)))
	sb2.WriteString(" " + sexpSet(sa.Difference(sb)))
	sb2.WriteString(" " + sexpSet(sa.RecursiveDifference(sb)))
	sb2.WriteString(" " + sexpSet(sa.Leaves()))
	sb2.WriteString(" " + sexpSet(sa.WithPrefix(pfx)))
	sb2.WriteString(" " + itoa(sa.Size()))
	sb2.WriteString(" " + sexpBool(sa.Empty()))
	sb2.WriteString(" " + sexpBool(sa.Equals(sb)))
	sb2.WriteString(" (")
	for i, p := range univ {
		if i > 0 {
			sb2.WriteByte(' ')
		}
		sb2.WriteString(sexpBool(sa.Has(p)))
	}
	sb2.WriteString(") " + sexpSet(sa) + " " + sexpSet(sa2) + ")")
	e.line(sb2.String())
}

func genC15(e *emitter, tier string) {
	full := pathUniverse()
	// exhaustive over all pairs of subsets of a small universe
	n := 6
	if tier == "thorough" {
		n = 9
	}
	// the small universe: paths with prefixes of each other, of all four kinds
	small := []fieldpath.Path{full[0], full[2], full[3], full[4], full[7], full[8], full[9], full[16], full[17]}[:n]
	pfxs := []fieldpath.PathElement{peField("a"), peField("b"), peKey("name", "x")}
	count := 0
	for ma := 0; ma < 1<<uint(n); ma++ {
		for mb := 0; mb < 1<<uint(n); mb++ {
			if count%shardCount == shardIndex {
				emitSetOps(e, shuffled(e, subsetOf(small, ma)), shuffled(e, subsetOf(small, mb)), small, pfxs[(ma+mb)%len(pfxs)])
			}
			count++
		}
	}
	// random sets over the larger universe
	rn := 1500
	if tier == "thorough" {
		rn = 100000 / shardCount
	}
	for k := 0; k < rn; k++ {
		var a, b []fieldpath.Path
		for _, p := range full {
			if e.rng.Intn(3) == 0 {
				a = append(a, p)
			}
			switch e.rng.Intn(4) {
			case 0:
				b = append(b, p)
			}
		}
		// sometimes make b a mutation of a so that the sets share structure
		if e.rng.Intn(3) == 0 {
			b = append([]fieldpath.Path{}, a...)
			if len(b) > 0 {
				b = b[:e.rng.Intn(len(b)+1)]
			}
			b = append(b, full[e.rng.Intn(len(full))])
		}
		emitSetOps(e, shuffled(e, a), shuffled(e, b), full, full[e.rng.Intn(len(full))][0])
	}
	// random sets with many siblings per node
	wide := wideUniverse()
	for k := 0; k < rn/3; k++ {
		var a, b []fieldpath.Path
		da, db := 1+e.rng.Intn(4), 1+e.rng.Intn(6)
		for _, p := range wide {
			if e.rng.Intn(da) == 0 {
				a = append(a, p)
			}
			if e.rng.Intn(db) == 0 {
				b = append(b, p)
			}
		}
		probe := shuffled(e, wide)[:24]
		emitSetOps(e, shuffled(e, a), shuffled(e, b), probe, wide[e.rng.Intn(len(wide))][0])
	}
}
