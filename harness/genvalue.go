package main

// Schema-directed generation of conforming values, mutation, and corruption.

import (
	"math/rand"

	"sigs.k8s.io/structured-merge-diff/v6/schema"
)

type genMode struct {
	degenerate bool // nulls and empty containers may appear
	dups       bool // duplicate members may appear in sets / associative lists
}

var strAlphabet = []string{"a", "b", "c"}
// the last two are more than 2^63 apart (an order computed by subtraction wraps around)
var numAlphabet = []interface{}{int64(0), int64(1), float64(1), int64(2), int64(-1), 1.5, int64(1) << 53,
	int64(6000000000000000000), int64(-6000000000000000000),
	// 2^53 + 1: differs from 2^53 only below the precision of float64
	int64(1)<<53 + 1}

func genScalar(r *rand.Rand, t schema.Scalar) interface{} {
	switch t {
	case schema.Numeric:
		return numAlphabet[r.Intn(len(numAlphabet))]
	case schema.String:
		return strAlphabet[r.Intn(len(strAlphabet))]
	case schema.Boolean:
		return r.Intn(2) == 0
	default:
		switch r.Intn(3) {
		case 0:
			return numAlphabet[r.Intn(len(numAlphabet))]
		case 1:
			return strAlphabet[r.Intn(len(strAlphabet))]
		}
		return r.Intn(2) == 0
	}
}

func isEmptyTR(tr schema.TypeRef) bool {
	return tr.NamedType == nil && tr.ElementRelationship == nil && tr.Inlined.Scalar == nil && tr.Inlined.List == nil && tr.Inlined.Map == nil
}

// genValue returns a value conforming to tr (in the given mode).
func genValue(r *rand.Rand, sc *schema.Schema, tr schema.TypeRef, m genMode, depth int) interface{} {
	a, ok := sc.Resolve(tr)
	if !ok {
		return nil
	}
	if m.degenerate && r.Intn(12) == 0 {
		return nil
	}
	// choose among the atom's members
	var kinds []int
	if a.Scalar != nil {
		kinds = append(kinds, 0, 0)
	}
	if a.List != nil && depth > 0 {
		kinds = append(kinds, 1)
	}
	if a.Map != nil && depth > 0 {
		kinds = append(kinds, 2)
	}
	if len(kinds) == 0 {
		if a.Scalar != nil {
			return genScalar(r, *a.Scalar)
		}
		if a.List != nil {
			if m.degenerate {
				return L{}
			}
			return genListMin(r, sc, a.List, m)
		}
		if a.Map != nil {
			if m.degenerate {
				return M{}
			}
			return genMapMin(r, sc, a.Map, m)
		}
		return nil
	}
	switch kinds[r.Intn(len(kinds))] {
	case 0:
		return genScalar(r, *a.Scalar)
	case 1:
		return genList(r, sc, a.List, m, depth)
	default:
		return genMap(r, sc, a.Map, m, depth)
	}
}

// minimal non-empty containers used at depth 0 in plain mode
func genListMin(r *rand.Rand, sc *schema.Schema, t *schema.List, m genMode) interface{} {
	return genList(r, sc, t, m, 1)
}
func genMapMin(r *rand.Rand, sc *schema.Schema, t *schema.Map, m genMode) interface{} {
	return genMap(r, sc, t, m, 1)
}

func genKeyedItem(r *rand.Rand, sc *schema.Schema, t *schema.List, m genMode, depth int) interface{} {
	// element must be a map holding the key fields (or relying on defaults)
	ea, _ := sc.Resolve(t.ElementType)
	item := M{}
	if ea.Map != nil {
		for _, f := range ea.Map.Fields {
			isKey := false
			for _, k := range t.Keys {
				if k == f.Name {
					isKey = true
				}
			}
			if isKey {
				if f.Default != nil && r.Intn(2) == 0 {
					continue // rely on the default
				}
				fa, _ := sc.Resolve(f.Type)
				if fa.Scalar != nil {
					v := genScalar(r, *fa.Scalar)
					if f.Default != nil && r.Intn(2) == 0 {
						v = f.Default
					}
					item[f.Name] = v
				} else {
					item[f.Name] = genValue(r, sc, f.Type, genMode{}, depth-1)
				}
			} else if r.Intn(2) == 0 && depth > 0 {
				item[f.Name] = genValue(r, sc, f.Type, m, depth-1)
			}
		}
	}
	return item
}

func genList(r *rand.Rand, sc *schema.Schema, t *schema.List, m genMode, depth int) interface{} {
	n := 1 + r.Intn(3)
	if m.degenerate && r.Intn(8) == 0 {
		n = 0
	}
	out := L{}
	seen := map[string]bool{}
	for i := 0; i < n; i++ {
		var item interface{}
		if t.ElementRelationship == schema.Associative {
			if len(t.Keys) > 0 {
				item = genKeyedItem(r, sc, t, m, depth)
			} else {
				ea, _ := sc.Resolve(t.ElementType)
				if ea.Scalar != nil {
					item = genScalar(r, *ea.Scalar)
				} else {
					item = "x"
				}
			}
			k := itemKeyString(sc, t, item)
			if seen[k] && !(m.dups && r.Intn(2) == 0) {
				continue
			}
			seen[k] = true
		} else {
			item = genValue(r, sc, t.ElementType, m, depth-1)
		}
		out = append(out, item)
	}
	if len(out) == 0 && !m.degenerate {
		return genList(r, sc, t, m, depth)
	}
	return out
}

func genMap(r *rand.Rand, sc *schema.Schema, t *schema.Map, m genMode, depth int) interface{} {
	out := M{}
	for _, f := range t.Fields {
		if r.Intn(3) != 0 {
			out[f.Name] = genValue(r, sc, f.Type, m, depth-1)
		}
	}
	if !isEmptyTR(t.ElementType) {
		n := r.Intn(3)
		if len(t.Fields) == 0 && n == 0 {
			n = 1
		}
		for i := 0; i < n; i++ {
			k := []string{"ka", "kb", "kc"}[r.Intn(3)]
			if r.Intn(12) == 0 {
				k = "" // the empty string is a key like any other
			}
			if len(t.Fields) > 0 && r.Intn(2) == 0 {
				// an undeclared entry that sorts after the declared fields
				k = []string{"zy", "zz"}[r.Intn(2)]
			}
			out[k] = genValue(r, sc, t.ElementType, m, depth-1)
		}
	}
	if len(out) == 0 && !m.degenerate {
		if len(t.Fields) > 0 {
			f := t.Fields[r.Intn(len(t.Fields))]
			out[f.Name] = genValue(r, sc, f.Type, m, depth-1)
		} else if !isEmptyTR(t.ElementType) {
			out["ka"] = genValue(r, sc, t.ElementType, m, depth-1)
		}
	}
	if m.degenerate && r.Intn(10) == 0 {
		return M{}
	}
	return out
}

// identity of an associative-list item, for generation only (the checks never use it)
func itemKeyString(sc *schema.Schema, t *schema.List, item interface{}) string {
	if len(t.Keys) == 0 {
		return sexpNumericKey(item)
	}
	mp, ok := item.(M)
	if !ok {
		return "?"
	}
	ea, _ := sc.Resolve(t.ElementType)
	s := ""
	for _, k := range t.Keys {
		v, ok := mp[k]
		if !ok && ea.Map != nil {
			if f, has := ea.Map.FindField(k); has {
				v = f.Default
			}
		}
		s += k + "=" + sexpNumericKey(v) + ";"
	}
	return s
}

// 1 and 1.0 are the same key
func sexpNumericKey(v interface{}) string {
	switch t := v.(type) {
	case int64:
		return sexpFloat(float64(t))
	case int:
		return sexpFloat(float64(t))
	}
	return sexpValue(v)
}

func deepCopy(v interface{}) interface{} {
	switch t := v.(type) {
	case L:
		out := make(L, len(t))
		for i := range t {
			out[i] = deepCopy(t[i])
		}
		return out
	case M:
		out := M{}
		for k, x := range t {
			out[k] = deepCopy(x)
		}
		return out
	}
	return v
}

// mutate returns a variant of v that still conforms to tr and shares most of its
// structure: some leaves changed, some fields/items dropped, some added, some reordered.
func mutate(r *rand.Rand, sc *schema.Schema, tr schema.TypeRef, v interface{}, m genMode, depth int) interface{} {
	a, ok := sc.Resolve(tr)
	if !ok {
		return v
	}
	if r.Intn(10) == 0 {
		return genValue(r, sc, tr, m, depth)
	}
	switch t := v.(type) {
	case M:
		if a.Map == nil {
			return genValue(r, sc, tr, m, depth)
		}
		out := M{}
		for _, k := range sortedKeys(t) {
			x := t[k]
			if r.Intn(6) == 0 {
				continue // drop
			}
			ft := a.Map.ElementType
			if f, has := a.Map.FindField(k); has {
				ft = f.Type
			}
			if r.Intn(2) == 0 {
				out[k] = mutate(r, sc, ft, x, m, depth-1)
			} else {
				out[k] = deepCopy(x)
			}
		}
		if r.Intn(3) == 0 {
			extra, _ := genMap(r, sc, a.Map, m, depth).(M)
			for _, k := range sortedKeys(extra) {
				x := extra[k]
				if _, has := out[k]; !has {
					out[k] = x
					break
				}
			}
		}
		if len(out) == 0 && !m.degenerate {
			return deepCopy(v)
		}
		return out
	case L:
		if a.List == nil {
			return genValue(r, sc, tr, m, depth)
		}
		out := L{}
		for _, x := range t {
			if r.Intn(6) == 0 {
				continue
			}
			if r.Intn(2) == 0 && a.List.ElementRelationship == schema.Associative && len(a.List.Keys) > 0 {
				// mutate non-key fields only
				if mp, ok := x.(M); ok {
					ea, _ := sc.Resolve(a.List.ElementType)
					cp := deepCopy(mp).(M)
					if ea.Map != nil {
						for _, f := range ea.Map.Fields {
							isKey := false
							for _, k := range a.List.Keys {
								if k == f.Name {
									isKey = true
								}
							}
							if isKey {
								continue
							}
							if old, has := cp[f.Name]; has {
								switch r.Intn(4) {
								case 0:
									delete(cp, f.Name)
								case 1:
									cp[f.Name] = mutate(r, sc, f.Type, old, m, depth-1)
								}
							} else if r.Intn(4) == 0 {
								cp[f.Name] = genValue(r, sc, f.Type, m, depth-1)
							}
						}
					}
					out = append(out, cp)
					continue
				}
			}
			out = append(out, deepCopy(x))
		}
		if r.Intn(3) == 0 {
			extra, _ := genList(r, sc, a.List, m, depth).(L)
			seen := map[string]bool{}
			if a.List.ElementRelationship == schema.Associative {
				for _, x := range out {
					seen[itemKeyString(sc, a.List, x)] = true
				}
			}
			for _, x := range extra {
				if a.List.ElementRelationship == schema.Associative && seen[itemKeyString(sc, a.List, x)] && !m.dups {
					continue
				}
				pos := r.Intn(len(out) + 1)
				out = append(out[:pos], append(L{x}, out[pos:]...)...)
				break
			}
		}
		if r.Intn(4) == 0 {
			r.Shuffle(len(out), func(i, j int) { out[i], out[j] = out[j], out[i] })
		}
		if len(out) == 0 && !m.degenerate {
			return deepCopy(v)
		}
		return out
	default:
		if a.Scalar != nil && r.Intn(2) == 0 {
			return genScalar(r, *a.Scalar)
		}
		return v
	}
}

// corrupt applies one single-point corruption somewhere in v (result may or may not conform).
func corrupt(r *rand.Rand, v interface{}) interface{} {
	junk := []interface{}{nil, true, int64(7), 2.5, "zz", L{}, M{}, L{int64(1)}, M{"qq": int64(1)}, L{nil}, M{"name": nil}}
	switch t := v.(type) {
	case M:
		if len(t) > 0 && r.Intn(3) != 0 {
			keys := make([]string, 0, len(t))
			for k := range t {
				keys = append(keys, k)
			}
			sortStrings(keys)
			k := keys[r.Intn(len(keys))]
			out := deepCopy(t).(M)
			switch r.Intn(4) {
			case 0:
				delete(out, k)
			default:
				out[k] = corrupt(r, t[k])
			}
			return out
		}
		out := deepCopy(t).(M)
		out[[]string{"unknown", "name", "xx", "ka"}[r.Intn(4)]] = junk[r.Intn(len(junk))]
		return out
	case L:
		if len(t) > 0 && r.Intn(3) != 0 {
			i := r.Intn(len(t))
			out := deepCopy(t).(L)
			switch r.Intn(4) {
			case 0:
				out = append(out, deepCopy(t[i])) // duplicate
			case 1:
				out[i] = junk[r.Intn(len(junk))]
			default:
				out[i] = corrupt(r, t[i])
			}
			return out
		}
		return append(deepCopy(t).(L), junk[r.Intn(len(junk))])
	}
	return junk[r.Intn(len(junk))]
}

func sortedKeys(m M) []string {
	keys := make([]string, 0, len(m))
	for k := range m {
		keys = append(keys, k)
	}
	sortStrings(keys)
	return keys
}
