package main

// C18, last sentence: setting or deleting an entry through the generic Map interface changes
// exactly that entry, whatever the representation behind the map (unstructured maps with
// string or interface keys, reflected Go maps, reflected structs reached through a pointer,
// a slice element, a map of pointers, or a map of struct VALUES - whose items are not
// addressable and are replaced as a whole).
//
// A case records the unstructured view of the root before and after one Set/Delete on a map
// located by a path of keys/indexes below the root.

import (
	"fmt"
	"reflect"
	"strings"

	"sigs.k8s.io/structured-merge-diff/v6/value"
)

type MutInner struct {
	H int64  `json:"h,omitempty"`
	I string `json:"i"`
}

type MutS struct {
	A        int64             `json:"a"`
	B        string            `json:"b,omitempty"`
	C        *int64            `json:"c,omitempty"`
	D        *string           `json:"d"`
	E        interface{}       `json:"e,omitempty"`
	F        float64           `json:"f,omitempty"`
	G        bool              `json:"g"`
	M        map[string]string `json:"m,omitempty"`
	MutInner `json:",inline"`
}

type MutRoot struct {
	S   MutS             `json:"s"`
	PS  *MutS            `json:"ps,omitempty"`
	L   []MutS           `json:"l,omitempty"`
	MV  map[string]MutS  `json:"mv,omitempty"`
	MP  map[string]*MutS `json:"mp,omitempty"`
	MI  map[string]int64 `json:"mi,omitempty"`
	MX  map[string]interface{}
	Any interface{} `json:"any,omitempty"`
}

// which Set values each struct field accepts, and what Delete does to it
var mutFields = []struct {
	key    string
	vals   []interface{}
	delete string // "remove", "null" or "" (Delete panics: neither pointer nor omitempty)
	omit   bool   // tagged omitempty
}{
	{"a", []interface{}{int64(0), int64(7)}, "", false},
	{"b", []interface{}{"", "x"}, "remove", true},
	{"c", nil, "remove", true},
	{"d", nil, "null", false},
	{"e", []interface{}{int64(3), "s", map[string]interface{}{"k": int64(1)}, []interface{}{"a"}}, "remove", true},
	{"f", []interface{}{0.0, 1.5}, "remove", true},
	{"g", []interface{}{true, false}, "", false},
	{"m", []interface{}{map[string]string{"q": "r"}}, "remove", true},
	{"h", []interface{}{int64(0), int64(9)}, "remove", true},
	{"i", []interface{}{"", "y"}, "", false},
}

func fillMutS(e *emitter) MutS {
	r := e.rng
	s := MutS{A: int64(r.Intn(3)), B: []string{"", "b"}[r.Intn(2)], F: []float64{0, 0.5}[r.Intn(2)], G: r.Intn(2) == 0}
	if r.Intn(2) == 0 {
		x := int64(r.Intn(3))
		s.C = &x
	}
	if r.Intn(2) == 0 {
		x := []string{"", "d"}[r.Intn(2)]
		s.D = &x
	}
	if r.Intn(2) == 0 {
		s.E = []interface{}{int64(1), "e", map[string]interface{}{"x": "y"}}[r.Intn(3)]
	}
	if r.Intn(2) == 0 {
		// (two entries: deleting the only entry of an omitempty map removes the map itself
		// from its parent's view, which is JSON's business, not the Map interface's)
		s.M = map[string]string{"p": "q", "r": "s"}
	}
	s.H = int64(r.Intn(2))
	s.I = []string{"", "i"}[r.Intn(2)]
	return s
}

type mutStep struct {
	key string
	idx int // used when key == ""
}

func (s mutStep) sexp() string {
	if s.key == "" && s.idx >= 0 {
		return fmt.Sprintf("(i %d)", s.idx)
	}
	return "(k " + quote(s.key) + ")"
}

func descend(v value.Value, path []mutStep) (value.Value, bool) {
	for _, st := range path {
		if st.key == "" && st.idx >= 0 {
			if !v.IsList() || st.idx >= v.AsList().Length() {
				return nil, false
			}
			v = v.AsList().At(st.idx)
			continue
		}
		if !v.IsMap() {
			return nil, false
		}
		c, ok := v.AsMap().Get(st.key)
		if !ok {
			return nil, false
		}
		v = c
	}
	return v, v.IsMap()
}

func genC18Mut(e *emitter, n int) {
	for k := 0; k < n; k++ {
		// the root: a reflected struct, or an unstructured map of either key type
		var root value.Value
		kind := ""
		var path []mutStep
		isStruct := false
		switch e.rng.Intn(9) {
		case 0, 1:
			kind = "unstructured"
			u := map[string]interface{}{"a": int64(1), "b": map[string]interface{}{"c": "x", "d": []interface{}{map[string]interface{}{"e": int64(2), "f": nil}}}, "z": "t"}
			root = value.NewValueInterface(u)
			path = [][]mutStep{{}, {{key: "b"}}, {{key: "b"}, {key: "d"}, {idx: 0}}}[e.rng.Intn(3)]
		case 2:
			kind = "unstructured-ifacekeys"
			u := map[interface{}]interface{}{"a": int64(1), "b": map[interface{}]interface{}{"c": "x", "g": true}, "z": "t"}
			root = value.NewValueInterface(u)
			path = [][]mutStep{{}, {{key: "b"}}}[e.rng.Intn(2)]
		default:
			r := &MutRoot{S: fillMutS(e)}
			if e.rng.Intn(2) == 0 {
				x := fillMutS(e)
				r.PS = &x
			}
			r.L = []MutS{fillMutS(e), fillMutS(e)}
			r.MV = map[string]MutS{"ka": fillMutS(e), "kb": fillMutS(e)}
			y := fillMutS(e)
			r.MP = map[string]*MutS{"ka": &y}
			r.MI = map[string]int64{"one": 1, "two": 2}
			r.MX = map[string]interface{}{"x": int64(1), "y": "s"}
			r.Any = map[string]interface{}{"n": map[string]interface{}{"o": int64(1)}}
			var err error
			root, err = value.NewValueReflect(r)
			if err != nil {
				panic(err)
			}
			type tgt struct {
				kind     string
				path     []mutStep
				isStruct bool
			}
			ts := []tgt{
				{"struct-field", []mutStep{{key: "s"}}, true},
				{"struct-behind-pointer", []mutStep{{key: "ps"}}, true},
				{"struct-in-slice", []mutStep{{key: "l"}, {idx: e.rng.Intn(2)}}, true},
				{"struct-value-in-map", []mutStep{{key: "mv"}, {key: []string{"ka", "kb"}[e.rng.Intn(2)]}}, true},
				{"struct-pointer-in-map", []mutStep{{key: "mp"}, {key: "ka"}}, true},
				{"reflected-map-int", []mutStep{{key: "mi"}}, false},
				{"reflected-map-iface", []mutStep{{key: "MX"}}, false},
				{"reflected-map-in-struct-value-in-map", []mutStep{{key: "mv"}, {key: "ka"}, {key: "m"}}, false},
				{"unstructured-behind-interface", []mutStep{{key: "any"}, {key: "n"}}, false},
			}
			t := ts[e.rng.Intn(len(ts))]
			kind, path, isStruct = t.kind, t.path, t.isStruct
		}
		before := sexpValue(canonU(root.Unstructured()))
		target, ok := descend(root, path)
		if !ok {
			continue
		}
		m := target.AsMap()
		op, key, valS, after, omit := "", "", "-", "panic", false
		if isStruct && e.rng.Intn(5) == 0 {
			// two Sets on different fields through ONE handle: the second must not undo the
			// first (a handle on a struct held by value in a map works on replacements)
			settable := []int{0, 1, 5, 6, 8, 9}
			i1 := settable[e.rng.Intn(len(settable))]
			i2 := settable[e.rng.Intn(len(settable))]
			if i1 == i2 {
				continue
			}
			f1, f2 := mutFields[i1], mutFields[i2]
			v1, v2 := f1.vals[e.rng.Intn(len(f1.vals))], f2.vals[e.rng.Intn(len(f2.vals))]
			after2 := "panic"
			func() {
				defer func() { recover() }()
				m.Set(f1.key, value.NewValueInterface(v1))
				m.Set(f2.key, value.NewValueInterface(v2))
				after2 = sexpValue(canonU(root.Unstructured()))
			}()
			var ps strings.Builder
			ps.WriteString("(path")
			for _, s := range path {
				ps.WriteString(" " + s.sexp())
			}
			ps.WriteString(")")
			e.line(fmt.Sprintf("(c18.mut2 %s %s %s %s %s %s %s %s %s %s)", quote(kind), before, ps.String(),
				quote(f1.key), sexpValue(normUnstructured(v1)), sexpBool(f1.omit),
				quote(f2.key), sexpValue(normUnstructured(v2)), sexpBool(f2.omit), after2))
			continue
		}
		if isStruct {
			f := mutFields[e.rng.Intn(len(mutFields))]
			key, omit = f.key, f.omit
			if e.rng.Intn(2) == 0 && len(f.vals) > 0 {
				op = "set"
				val := f.vals[e.rng.Intn(len(f.vals))]
				valS = sexpValue(normUnstructured(toUnstructuredForSet(val)))
				func() {
					defer func() { recover() }()
					m.Set(key, value.NewValueInterface(val))
					after = sexpValue(canonU(root.Unstructured()))
				}()
			} else if f.delete != "" {
				op = map[string]string{"remove": "delete", "null": "nullify"}[f.delete]
				func() {
					defer func() { recover() }()
					m.Delete(key)
					after = sexpValue(canonU(root.Unstructured()))
				}()
			} else {
				continue
			}
		} else {
			keys := []string{}
			m.Iterate(func(k string, _ value.Value) bool { keys = append(keys, k); return true })
			sortStrings(keys)
			key = "new"
			if len(keys) > 0 && e.rng.Intn(3) != 0 {
				key = keys[e.rng.Intn(len(keys))]
			}
			var val interface{} = "w"
			switch {
			case kind == "reflected-map-int":
				val = int64(e.rng.Intn(5))
			case strings.HasPrefix(kind, "reflected-map-in-struct"):
				val = "w"
			default:
				val = []interface{}{"w", int64(4), map[string]interface{}{"u": "v"}, []interface{}{int64(1)}}[e.rng.Intn(4)]
			}
			if e.rng.Intn(2) == 0 {
				op = "set"
				valS = sexpValue(normUnstructured(val))
				func() {
					defer func() { recover() }()
					m.Set(key, value.NewValueInterface(val))
					after = sexpValue(canonU(root.Unstructured()))
				}()
			} else {
				op = "delete"
				func() {
					defer func() { recover() }()
					m.Delete(key)
					after = sexpValue(canonU(root.Unstructured()))
				}()
			}
		}
		var ps strings.Builder
		ps.WriteString("(path")
		for _, s := range path {
			ps.WriteString(" " + s.sexp())
		}
		ps.WriteString(")")
		e.line(fmt.Sprintf("(c18.mut %s %s %s %s %s %s %s %s)", quote(kind), before, ps.String(), op, quote(key), valS, sexpBool(omit), after))
	}
}

// the unstructured view of a value handed to Set (map[string]string shows as a map of strings)
func toUnstructuredForSet(v interface{}) interface{} {
	if m, ok := v.(map[string]string); ok {
		out := map[string]interface{}{}
		for k, x := range m {
			out[k] = x
		}
		return out
	}
	return v
}

// string-keyed, int64-normalised deep copy of unstructured data
func canonU(v interface{}) interface{} {
	switch t := v.(type) {
	case map[interface{}]interface{}:
		out := M{}
		for k, x := range t {
			out[fmt.Sprint(k)] = canonU(x)
		}
		return out
	case map[string]interface{}:
		out := M{}
		for k, x := range t {
			out[k] = canonU(x)
		}
		return out
	case []interface{}:
		out := make(L, len(t))
		for i, x := range t {
			out[i] = canonU(x)
		}
		return out
	}
	return normUnstructured(v)
}

var _ = reflect.TypeOf
