package main

import (
	"fmt"

	"sigs.k8s.io/structured-merge-diff/v6/fieldpath"
	"sigs.k8s.io/structured-merge-diff/v6/typed"
	"sigs.k8s.io/structured-merge-diff/v6/value"
)

func init() {
	for _, p := range []string{"C01", "C02", "C03", "C04", "C05", "C06", "C07"} {
		p := p
		generators[p] = func(e *emitter, tier string) { genHist(e, tier, p) }
	}
}

var appliers = []string{"a", "b", "c"}
var updaters = []string{"u", "w"}

func singleVersionConf(sd *schemaDef, id string) *histConf {
	return &histConf{id: id, versions: []*versionDef{{name: "v1", sd: sd, tr: sd.roots[0]}}}
}

type histOpts struct {
	plainConfigs bool // applied configurations are plain (C01-C03, C07 domain)
	degenerate   bool // updates may bring nulls, empties and duplicates
	noDups       bool // ... but no duplicate members (multi-version histories, see DESIGN.md 6)
}

// typed value of version ver from unstructured data (nil if invalid)
func (c *histConf) typedAt(ver string, v interface{}, dup bool) *typed.TypedValue {
	vd := c.version(ver)
	var tv *typed.TypedValue
	var err error
	func() {
		defer func() {
			if r := recover(); r != nil {
				err = fmt.Errorf("panic")
			}
		}()
		if dup {
			tv, err = typed.AsTyped(value.NewValueInterface(v), &vd.sd.parser.Schema, vd.tr, typed.AllowDuplicates)
		} else {
			tv, err = typed.AsTyped(value.NewValueInterface(v), &vd.sd.parser.Schema, vd.tr)
		}
	}()
	if err != nil {
		return nil
	}
	return tv
}

func unstructuredOf(tv *typed.TypedValue) interface{} {
	if tv == nil || tv.AsValue() == nil {
		return nil
	}
	return deepCopyAny(tv.AsValue().Unstructured())
}

func deepCopyAny(v interface{}) interface{} {
	switch t := v.(type) {
	case map[string]interface{}:
		out := M{}
		for k, x := range t {
			out[k] = deepCopyAny(x)
		}
		return out
	case []interface{}:
		out := make(L, len(t))
		for i, x := range t {
			out[i] = deepCopyAny(x)
		}
		return out
	case int:
		return int64(t)
	}
	return v
}

// a configuration for an apply: mutation of the live object, of the manager's previous
// configuration, or fresh
func genConfig(e *emitter, c *histConf, ver string, st *hstate, prev interface{}, plain bool) (interface{}, *typed.TypedValue) {
	vd := c.version(ver)
	sc := &vd.sd.parser.Schema
	mode := genMode{degenerate: !plain && e.rng.Intn(2) == 0}
	for try := 0; try < 20; try++ {
		var v interface{}
		switch e.rng.Intn(5) {
		case 0:
			v = genValue(e.rng, sc, vd.tr, mode, 3)
		case 1, 2:
			if prev != nil {
				v = mutate(e.rng, sc, vd.tr, prev, mode, 3)
			} else {
				v = genValue(e.rng, sc, vd.tr, mode, 3)
			}
		default:
			live, ok := st.liveAt(c, ver)
			if ok && live.AsValue() != nil && !live.AsValue().IsNull() {
				v = mutate(e.rng, sc, vd.tr, unstructuredOf(live), mode, 3)
				v = thin(e, v)
			} else {
				v = genValue(e.rng, sc, vd.tr, mode, 3)
			}
		}
		if plain {
			v = makePlain(v)
			if v == nil {
				continue
			}
		} else if e.rng.Intn(10) == 0 {
			// a configuration that names containers but no field: only empty lists and
			// the maps leading to them
			v = hollow(v)
		}
		if tv := c.typedAt(ver, v, false); tv != nil {
			return v, tv
		}
	}
	return nil, nil
}

// drop a random part of a (copied) object so that configurations are partial
func thin(e *emitter, v interface{}) interface{} {
	switch t := v.(type) {
	case M:
		out := M{}
		for _, k := range sortedKeys(t) {
			if e.rng.Intn(3) == 0 {
				continue
			}
			out[k] = thin(e, t[k])
		}
		return out
	case L:
		out := L{}
		for _, x := range t {
			if e.rng.Intn(4) == 0 {
				continue
			}
			if m, ok := x.(M); ok && e.rng.Intn(2) == 0 {
				out = append(out, m) // keep items whole most of the time (key fields)
				continue
			}
			out = append(out, x)
		}
		return out
	}
	return v
}

// keep only the containers of an object: lists become empty, scalars disappear
func hollow(v interface{}) interface{} {
	switch t := v.(type) {
	case M:
		out := M{}
		for k, x := range t {
			switch x.(type) {
			case M, L:
				out[k] = hollow(x)
			}
		}
		return out
	case L:
		return L{}
	}
	return v
}

// remove nulls and empty containers (returns nil if nothing is left)
func makePlain(v interface{}) interface{} {
	switch t := v.(type) {
	case nil:
		return nil
	case M:
		out := M{}
		for k, x := range t {
			if p := makePlain(x); p != nil {
				out[k] = p
			}
		}
		if len(out) == 0 {
			return nil
		}
		return out
	case L:
		out := L{}
		for _, x := range t {
			if p := makePlain(x); p != nil {
				out = append(out, p)
			}
		}
		if len(out) == 0 {
			return nil
		}
		return out
	}
	return v
}

func genUpdateObject(e *emitter, c *histConf, ver string, st *hstate, opts histOpts) (interface{}, *typed.TypedValue) {
	vd := c.version(ver)
	sc := &vd.sd.parser.Schema
	mode := genMode{degenerate: opts.degenerate && e.rng.Intn(2) == 0, dups: opts.degenerate && !opts.noDups && e.rng.Intn(3) == 0}
	for try := 0; try < 20; try++ {
		var v interface{}
		live, ok := st.liveAt(c, ver)
		if ok && live.AsValue() != nil && !live.AsValue().IsNull() && e.rng.Intn(5) != 0 {
			v = mutate(e.rng, sc, vd.tr, unstructuredOf(live), mode, 3)
		} else {
			v = genValue(e.rng, sc, vd.tr, mode, 3)
		}
		if !opts.degenerate {
			v = makePlain(v)
			if v == nil {
				continue
			}
		}
		if tv := c.typedAt(ver, v, true); tv != nil {
			return v, tv
		}
	}
	return nil, nil
}

// one apply step, observed four ways from the same pre-state
func emitApply(e *emitter, c *histConf, st *hstate, mgr, ver string, cfgV interface{}, cfg *typed.TypedValue) (next *hstate) {
	live, ok := st.liveAt(c, ver)
	if !ok {
		return st
	}
	pre := &hstate{live: live, liveVer: ver, managed: st.managed}
	noforce := runApply(c, pre, mgr, ver, cfg, false, false, -1)
	force := runApply(c, pre, mgr, ver, cfg, true, false, -1)
	rion := runApply(c, pre, mgr, ver, cfg, true, true, -1)
	chosen := noforce
	if !noforce.ok() {
		chosen = force
	}
	reapply := "-"
	next = st
	prevS := "-"
	if pa, ok := st.applied[mgr]; ok {
		pv := pa.v
		if pa.ver != ver {
			pv = convertUnstructured(c, pa.ver, ver, pa.v)
		}
		prevS = sexpValue(pv)
	}
	if chosen.ok() {
		obj := chosen.obj
		if obj == nil {
			obj = live
		}
		next = &hstate{live: obj, liveVer: ver, managed: chosen.managed, applied: st.withApplied(mgr, ver, cfgV)}
		re := runApply(c, next, mgr, ver, cfg, false, false, -1)
		reapply = sexpOutcome(ver, re)
	}
	e.line(fmt.Sprintf("(hist.apply %s %s %s %s %s %s %s %s %s %s %s)", quote(c.id), sexpTV(ver, live), sexpManaged(st.managed),
		quote(mgr), quote(ver), sexpValue(cfgV), sexpOutcome(ver, noforce), sexpOutcome(ver, force), reapply, sexpOutcome(ver, rion), prevS))
	return next
}

func emitUpdate(e *emitter, c *histConf, st *hstate, mgr, ver string, objV interface{}, obj *typed.TypedValue) *hstate {
	live, ok := st.liveAt(c, ver)
	if !ok {
		return st
	}
	pre := &hstate{live: live, liveVer: ver, managed: st.managed}
	res := runUpdate(c, pre, mgr, ver, obj, -1)
	e.line(fmt.Sprintf("(hist.update %s %s %s %s %s %s %s)", quote(c.id), sexpTV(ver, live), sexpManaged(st.managed),
		quote(mgr), quote(ver), sexpValue(objV), sexpOutcome(ver, res)))
	if res.ok() {
		return &hstate{live: res.obj, liveVer: ver, managed: res.managed, applied: st.applied}
	}
	return st
}

// extract what a manager owns and apply it back
func emitExtract(e *emitter, c *histConf, st *hstate, mgr string) {
	rec, ok := st.managed[mgr]
	if !ok || !rec.Applied() {
		return
	}
	ver := string(rec.APIVersion())
	live, ok := st.liveAt(c, ver)
	if !ok {
		return
	}
	var ext *typed.TypedValue
	func() {
		defer func() { recover() }()
		ext = live.ExtractItems(rec.Set().Leaves(), typed.WithAppendKeyFields())
	}()
	if ext == nil {
		return
	}
	pre := &hstate{live: live, liveVer: ver, managed: st.managed}
	res := runApply(c, pre, mgr, ver, ext, true, false, -1)
	e.line(fmt.Sprintf("(hist.extract %s %s %s %s %s %s)", quote(c.id), sexpTV(ver, live), sexpManaged(st.managed),
		quote(mgr), sexpTV(ver, ext), sexpOutcome(ver, res)))
}

func genHist(e *emitter, tier string, prop string) {
	emitSchemas(e)
	e.line("(setprop " + quote(prop) + ")")
	menu := schemaMenu()
	confs := []*histConf{singleVersionConf(menu[1], "small1"), singleVersionConf(menu[0], "kitchen1"), singleVersionConf(menu[2], "deduced1")}
	for _, c := range confs {
		e.line(sexpConf(c))
	}
	// three version labels over ONE schema and a converter that renames nothing: ownership
	// chains through nested items that alternate between versions (the add-back passes of
	// prune), under the same oracles as the single-version histories
	var mvid *histConf
	if prop == "C01" || prop == "C02" || prop == "C03" {
		sd := menu[1]
		mvid = &histConf{id: "small3id", versions: []*versionDef{{name: "v1", sd: sd, tr: sd.roots[0]},
			{name: "v2", sd: sd, tr: sd.roots[0]}, {name: "v3", sd: sd, tr: sd.roots[0]}}}
		e.line(sexpConf(mvid))
	}
	n := 1600
	if tier == "thorough" {
		n = 24000
	}
	n /= shardCount
	if mvid != nil {
		for h := 0; h < n/10+1; h++ {
			runNestingHist(e, mvid)
		}
	}
	for h := 0; h < n; h++ {
		var c *histConf
		switch e.rng.Intn(6) {
		case 0:
			c = confs[1]
		case 1:
			c = confs[2]
		default:
			c = confs[0]
		}
		opts := histOpts{plainConfigs: true}
		switch prop {
		case "C04", "C05", "C06", "C07":
			opts.degenerate = e.rng.Intn(2) == 0
			opts.plainConfigs = !opts.degenerate
		default:
			// the plain-configuration domain; live objects may still get nulls, empties
			// and (through updates) duplicates in half of the histories
			opts.degenerate = e.rng.Intn(2) == 0
		}
		runHistory(e, c, opts, prop)
	}
}

func runNestingHist(e *emitter, c *histConf) {
	st := newState(c, "v1")
	for _, sp := range nestingSteps(e) {
		var vObj interface{}
		var tv *typed.TypedValue
		if sp.apply {
			vObj = sp.obj
			tv = c.typedAt(sp.ver, vObj, false)
		} else {
			l1, ok := st.liveAt(c, "v1")
			if !ok {
				return
			}
			vObj = mergeTop(unstructuredOf(l1), sp.obj)
			tv = c.typedAt(sp.ver, vObj, true)
		}
		if tv == nil {
			return
		}
		if sp.apply {
			st = emitApply(e, c, st, sp.mgr, sp.ver, vObj, tv)
		} else {
			st = emitUpdate(e, c, st, sp.mgr, sp.ver, vObj, tv)
		}
	}
}

func runHistory(e *emitter, c *histConf, opts histOpts, prop string) {
	ver := c.versions[0].name
	st := newState(c, ver)
	// now and then something else ran in the process before: typed operations whose root is
	// itself a leaf (empty objects), which is what leaves a mark in a pooled walker that is
	// not cleaned
	if e.rng.Intn(3) == 0 {
		if tv := c.typedAt(ver, M{}, true); tv != nil {
			func() {
				defer func() { recover() }()
				tv.Merge(tv)
				tv.Compare(tv)
				tv.ToFieldSet()
			}()
		}
	}
	prevCfg := map[string]interface{}{}
	steps := 3 + e.rng.Intn(6)
	for i := 0; i < steps; i++ {
		if e.rng.Intn(5) < 3 {
			mgr := appliers[e.rng.Intn(len(appliers))]
			v, tv := genConfig(e, c, ver, st, prevCfg[mgr], opts.plainConfigs)
			if tv == nil {
				continue
			}
			next := emitApply(e, c, st, mgr, ver, v, tv)
			if next != st {
				prevCfg[mgr] = v
			}
			st = next
			// (the fixed-point sentence of C07 is stated for histories of plain configurations)
			if prop == "C07" && opts.plainConfigs && e.rng.Intn(2) == 0 {
				emitExtract(e, c, st, mgr)
			}
		} else {
			mgr := updaters[e.rng.Intn(len(updaters))]
			if e.rng.Intn(5) == 0 {
				// the same identity may both apply and update
				mgr = appliers[e.rng.Intn(len(appliers))]
			}
			v, tv := genUpdateObject(e, c, ver, st, opts)
			if tv == nil {
				continue
			}
			st = emitUpdate(e, c, st, mgr, ver, v, tv)
		}
	}
	_ = fieldpath.NewSet
}
