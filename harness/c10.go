package main

import (
	"fmt"
	"math"
	"math/rand"
	"reflect"
	"strings"
	"sync"
	"time"

	"sigs.k8s.io/structured-merge-diff/v6/fieldpath"
	"sigs.k8s.io/structured-merge-diff/v6/merge"
	"sigs.k8s.io/structured-merge-diff/v6/schema"
	"sigs.k8s.io/structured-merge-diff/v6/typed"
	"sigs.k8s.io/structured-merge-diff/v6/value"
)

func init() { generators["C10"] = genC10 }

type idConv struct{}

func (idConv) Convert(o *typed.TypedValue, _ fieldpath.APIVersion) (*typed.TypedValue, error) {
	return o, nil
}
func (idConv) IsMissingVersionError(error) bool { return false }

// a type whose IsZero is declared on the pointer receiver, held by value in a map (not
// addressable there): the omitzero predicate cached for it must not keep state between calls
type QuotaZ struct {
	Limit int64 `json:"limit"`
}

func (q *QuotaZ) IsZero() bool { return q.Limit == 0 }

type ItemZ struct {
	Name  string `json:"name"`
	Quota QuotaZ `json:"quota,omitzero"`
}
type InvZ struct {
	Items map[string]ItemZ `json:"items"`
}

// one worker's program: a deterministic function of (seed, parser); returns a transcript
func c10Program(seed int64, p *typed.Parser, types []reflect.Type) string {
	r := rand.New(rand.NewSource(seed))
	var sb strings.Builder
	// the last two references carry an override that cannot apply (a scalar, a type without
	// atom): they do not resolve, values typed with them are rejected, and the schema must
	// be as usable afterwards as before
	roots := []schema.TypeRef{nameRef("root"), nameRef("sub"), overrideRef("sub", schema.Atomic), nameRef("itemlist"),
		overrideRef("itemlist", schema.Atomic), nameRef("item"), overrideRef("quantity", schema.Atomic),
		overrideRef("hollow", schema.Separable)}
	sc := &p.Schema
	u := &merge.Updater{Converter: idConv{}}
	for i := 0; i < 12; i++ {
		tr := roots[r.Intn(len(roots))]
		var a, b interface{}
		if _, ok := sc.Resolve(tr); !ok {
			a, b = "1", "2"
		} else {
			a = genValue(r, sc, tr, genMode{}, 3)
			b = mutate(r, sc, tr, a, genMode{}, 3)
		}
		ta, err := typed.AsTyped(value.NewValueInterface(a), sc, tr)
		if err != nil {
			sb.WriteString("invalid;")
			continue
		}
		tb, err := typed.AsTyped(value.NewValueInterface(b), sc, tr)
		if err != nil {
			sb.WriteString("invalid;")
			continue
		}
		fs, _ := ta.ToFieldSet()
		sb.WriteString(sexpSet(fs))
		if js, err := fs.ToJSON(); err == nil {
			sb.Write(js)
		}
		if m, err := ta.Merge(tb); err == nil {
			sb.WriteString(sexpVal(m.AsValue()))
		}
		if c, err := ta.Compare(tb); err == nil {
			sb.WriteString(sexpSet(c.Added) + sexpSet(c.Removed) + sexpSet(c.Modified))
		}
		sb.WriteString(sexpVal(ta.ExtractItems(fs.Leaves()).AsValue()))
		if vb, err := value.ToJSON(ta.AsValue()); err == nil {
			sb.Write(vb)
		}
		// a small apply history on the shared parser
		if i%3 == 0 {
			live, _ := typed.AsTyped(value.NewValueInterface(nil), sc, tr)
			o, mf, err := u.Apply(live, ta, "v1", fieldpath.ManagedFields{}, "a", false)
			if err == nil && o != nil {
				o2, mf2, err2 := u.Apply(o, tb, "v1", mf, "b", true)
				if err2 == nil {
					sb.WriteString(sexpManaged(mf2))
					if o2 != nil {
						sb.WriteString(sexpVal(o2.AsValue()))
					}
				}
			}
		}
		// a value the JSON encoder rejects (NaN): the error is expected, what the failed call
		// leaves behind in the shared encoder pool must not reach anybody else
		if r.Intn(6) == 0 {
			if _, err := value.ToJSON(value.NewValueInterface(M{"w": math.NaN()})); err != nil {
				sb.WriteString("nan-rejected;")
			} else {
				sb.WriteString("nan-accepted;")
			}
		}
		// a statically declared type with a pointer-receiver IsZero behind omitzero
		func() {
			defer func() {
				if x := recover(); x != nil {
					sb.WriteString("reflect-panic;")
				}
			}()
			inv := InvZ{Items: map[string]ItemZ{}}
			for k := 0; k < 3; k++ {
				inv.Items[strAlphabet[k%len(strAlphabet)]] = ItemZ{Name: "n", Quota: QuotaZ{Limit: int64(r.Intn(2) * 7)}}
			}
			if rv, err := value.NewValueReflect(&inv); err == nil {
				sb.WriteString(sexpValue(normUnstructured(rv.Unstructured())))
			}
		}()
		// previously unseen Go types through the reflection cache
		if len(types) > 0 {
			t := types[r.Intn(len(types))]
			v := reflect.New(t)
			fillStruct(r, v.Elem())
			func() {
				defer func() {
					if x := recover(); x != nil {
						sb.WriteString("reflect-panic;")
					}
				}()
				rv, err := value.NewValueReflect(v.Interface())
				if err == nil {
					sb.WriteString(sexpValue(normUnstructured(rv.Unstructured())))
				}
			}()
		}
		sb.WriteByte(';')
	}
	return sb.String()
}

func normUnstructured(v interface{}) interface{} {
	switch t := v.(type) {
	case map[string]interface{}:
		out := M{}
		for k, x := range t {
			out[k] = normUnstructured(x)
		}
		return out
	case []interface{}:
		out := make(L, len(t))
		for i, x := range t {
			out[i] = normUnstructured(x)
		}
		return out
	case int:
		return int64(t)
	case int32:
		return int64(t)
	case uint32:
		return int64(t)
	case float32:
		return float64(t)
	}
	return v
}

func fillStruct(r *rand.Rand, v reflect.Value) {
	for i := 0; i < v.NumField(); i++ {
		f := v.Field(i)
		switch f.Kind() {
		case reflect.String:
			f.SetString(strAlphabet[r.Intn(len(strAlphabet))])
		case reflect.Int64:
			f.SetInt(int64(r.Intn(5)))
		case reflect.Bool:
			f.SetBool(r.Intn(2) == 0)
		case reflect.Struct:
			fillStruct(r, f)
		case reflect.Slice:
			if f.Type().Elem().Kind() == reflect.String {
				n := r.Intn(3)
				s := reflect.MakeSlice(f.Type(), n, n)
				for j := 0; j < n; j++ {
					s.Index(j).SetString(strAlphabet[r.Intn(3)])
				}
				f.Set(s)
			}
		}
	}
}

// fresh struct types (never seen by the reflection cache): field names vary with the round
func freshTypes(round int, r *rand.Rand) []reflect.Type {
	var out []reflect.Type
	for k := 0; k < 3; k++ {
		inner := reflect.StructOf([]reflect.StructField{
			{Name: fmt.Sprintf("X%d", round), Type: reflect.TypeOf(int64(0)), Tag: reflect.StructTag(fmt.Sprintf(`json:"x%d,omitempty"`, round))},
			{Name: "W", Type: reflect.TypeOf(""), Tag: `json:"w"`},
		})
		fields := []reflect.StructField{
			{Name: fmt.Sprintf("A%dK%d", round, k), Type: reflect.TypeOf(""), Tag: reflect.StructTag(fmt.Sprintf(`json:"a%d"`, k))},
			{Name: "B", Type: reflect.TypeOf(int64(0)), Tag: `json:"b,omitempty"`},
			{Name: "C", Type: reflect.TypeOf(false), Tag: `json:"c"`},
			{Name: "In", Type: inner, Tag: `json:"in"`},
			{Name: "L", Type: reflect.TypeOf([]string{}), Tag: `json:"l,omitempty"`},
		}
		out = append(out, reflect.StructOf(fields))
	}
	return out
}

// the kitchen schema with a named scalar type and a named type without atom
const c10YAML = kitchenYAML + `- name: quantity
  scalar: string
- name: hollow
`

// waits for the workers; false when they are still not done after the time limit (a worker
// stuck on a lock that another one left locked never finishes)
func waitLimited(wg *sync.WaitGroup, limit time.Duration) bool {
	done := make(chan struct{})
	go func() { wg.Wait(); close(done) }()
	select {
	case <-done:
		return true
	case <-time.After(limit):
		return false
	}
}

func genC10(e *emitter, tier string) {
	rounds := 12
	if tier == "thorough" {
		rounds = 300
	}
	rounds /= shardCount
	if rounds == 0 {
		rounds = 1
	}
	for round := 0; round < rounds; round++ {
		nw := []int{2, 4, 8, 16}[e.rng.Intn(4)]
		seeds := make([]int64, nw)
		for i := range seeds {
			seeds[i] = e.rng.Int63()
		}
		tag := round*shardCount + shardIndex
		types := freshTypes(tag*2, e.rng)
		// concurrent run on a fresh parser
		p1, err := typed.NewParser(typed.YAMLObject(c10YAML))
		if err != nil {
			panic(err)
		}
		conc := make([]string, nw)
		start := make(chan struct{})
		var wg sync.WaitGroup
		for i := 0; i < nw; i++ {
			wg.Add(1)
			go func(i int) {
				defer wg.Done()
				defer func() {
					if x := recover(); x != nil {
						conc[i] = fmt.Sprintf("panic: %v", x)
					}
				}()
				<-start
				conc[i] = c10Program(seeds[i], p1, types)
			}(i)
		}
		close(start) // all workers hit the cold caches together
		if !waitLimited(&wg, 120*time.Second) {
			e.line(fmt.Sprintf("(c10.run %d %d f)", nw, nw*12))
			return
		}
		// the same programs alone, on another fresh parser and other fresh types
		p2, _ := typed.NewParser(typed.YAMLObject(c10YAML))
		types2 := freshTypes(tag*2+1, e.rng)
		same := true
		seqs := make([]string, nw)
		var wg2 sync.WaitGroup
		wg2.Add(1)
		go func() {
			defer wg2.Done()
			for i := 0; i < nw; i++ {
				seqs[i] = c10Program(seeds[i], p2, types2)
			}
		}()
		if !waitLimited(&wg2, 120*time.Second) {
			e.line(fmt.Sprintf("(c10.run %d %d f)", nw, nw*12))
			return
		}
		for i := 0; i < nw; i++ {
			// type names differ between the two runs only in generated field names
			if normalizeRound(seqs[i], tag*2+1) != normalizeRound(conc[i], tag*2) {
				same = false
			}
		}
		e.line(fmt.Sprintf("(c10.run %d %d %s)", nw, nw*12, sexpBool(same)))
	}
}

func normalizeRound(s string, round int) string {
	return strings.ReplaceAll(s, fmt.Sprintf("x%d", round), "xR")
}
