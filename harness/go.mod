module verifharness

go 1.19

require (
	sigs.k8s.io/structured-merge-diff/v6 v6.0.0
	sigs.k8s.io/yaml v1.4.0
)

require (
	github.com/json-iterator/go v1.1.12 // indirect
	github.com/modern-go/concurrent v0.0.0-20180306012644-bacd9c7ef1dd // indirect
	github.com/modern-go/reflect2 v1.0.2 // indirect
)

replace sigs.k8s.io/structured-merge-diff/v6 => /repo
