package main

// smdcases: generates inputs, runs structured-merge-diff on them and prints one case
// line per input with the observed outcome (see DESIGN.md 2.3).  Every random choice
// derives from the single -seed.

import (
	"bufio"
	"flag"
	"fmt"
	"math/rand"
	"os"
	"runtime"
)

type emitter struct {
	w   *bufio.Writer
	n   int
	rng *rand.Rand
}

func (e *emitter) line(s string) {
	e.w.WriteString(s)
	e.w.WriteByte('\n')
	e.n++
}

func (e *emitter) comment(s string) {
	e.w.WriteString("# " + s + "\n")
}

var generators = map[string]func(e *emitter, tier string){}

func main() {
	prop := flag.String("prop", "", "property id")
	tier := flag.String("tier", "quick", "quick|thorough")
	seed := flag.Int64("seed", 1, "seed")
	out := flag.String("out", "-", "output file")
	shard := flag.Int("shard", 0, "shard index")
	nshards := flag.Int("shards", 1, "number of shards")
	rerun := flag.String("rerun", "", "re-execute the cases of this file instead of generating")
	flag.Parse()
	var f *os.File = os.Stdout
	if *out != "-" {
		var err error
		f, err = os.Create(*out)
		if err != nil {
			fmt.Fprintln(os.Stderr, err)
			os.Exit(2)
		}
		defer f.Close()
	}
	shardIndex, shardCount = *shard, *nshards
	e := &emitter{w: bufio.NewWriterSize(f, 1<<20), rng: rand.New(rand.NewSource(*seed*1000003 + int64(*shard)))}
	defer e.w.Flush()
	e.comment(fmt.Sprintf("harness prop=%s tier=%s seed=%d shard=%d/%d go=%s", *prop, *tier, *seed, *shard, *nshards, runtime.Version()))
	if *rerun != "" {
		rerunFile(e, *rerun)
		return
	}
	g, ok := generators[*prop]
	if !ok {
		fmt.Fprintln(os.Stderr, "unknown property", *prop)
		os.Exit(2)
	}
	g(e, *tier)
}

var shardIndex, shardCount int
