package main

import (
	"fmt"
	"strings"

	"sigs.k8s.io/structured-merge-diff/v6/fieldpath"
	"sigs.k8s.io/structured-merge-diff/v6/schema"
	"sigs.k8s.io/structured-merge-diff/v6/typed"
	"sigs.k8s.io/structured-merge-diff/v6/value"
)

func init() {
	generators["C13"] = genC13
	generators["C11"] = genC11
	generators["C12"] = genC12
	generators["C14"] = genC14
}

func asTyped(sd *schemaDef, tr schema.TypeRef, v interface{}, dup bool) (tv *typed.TypedValue, err error, panicked bool) {
	defer func() {
		if r := recover(); r != nil {
			panicked = true
			err = fmt.Errorf("panic: %v", r)
		}
	}()
	if dup {
		tv, err = typed.AsTyped(value.NewValueInterface(v), &sd.parser.Schema, tr, typed.AllowDuplicates)
	} else {
		tv, err = typed.AsTyped(value.NewValueInterface(v), &sd.parser.Schema, tr)
	}
	return
}

func pickRoot(e *emitter, sd *schemaDef) schema.TypeRef {
	if e.rng.Intn(3) != 0 {
		return sd.roots[0]
	}
	return sd.roots[e.rng.Intn(len(sd.roots))]
}

func pickSchema(e *emitter) *schemaDef {
	m := schemaMenu()
	// weight the kitchen-sink schema
	switch e.rng.Intn(5) {
	case 0:
		return m[1]
	case 1:
		return m[2]
	}
	return m[0]
}

func okStr(err error, panicked bool) string {
	if panicked {
		return "panic"
	}
	return sexpBool(err == nil)
}

// ---------- C13 ----------

func genC13(e *emitter, tier string) {
	emitSchemas(e)
	// the schema of schemas, as the implementation publishes it
	ssParser, err := typed.NewParser(typed.YAMLObject(schema.SchemaSchemaYAML))
	if err != nil {
		panic(err)
	}
	e.line("(defschema \"ss\" " + sexpSchema(&ssParser.Schema) + ")")
	n := 1500
	if tier == "thorough" {
		n = 40000
	}
	n /= shardCount
	emit := func(sd *schemaDef, tr schema.TypeRef, dup bool, v interface{}) {
		_, err, p := asTyped(sd, tr, v, dup)
		e.line(fmt.Sprintf("(c13.validate %s %s %s %s %s)", quote(sd.id), sexpTypeRef(tr), sexpBool(dup), sexpValue(v), okStr(err, p)))
	}
	// sets and keyed lists of numbers with far-apart members in every order, one repeated:
	// the duplicate must be seen wherever the search for it starts
	kitchen := schemaMenu()[0]
	for i := 0; i < n/2+1; i++ {
		pool := []interface{}{int64(6000000000000000000), int64(-6000000000000000000), int64(0), int64(-1), int64(1), 1.5, int64(2)}
		e.rng.Shuffle(len(pool), func(a, b int) { pool[a], pool[b] = pool[b], pool[a] })
		k := 3 + e.rng.Intn(len(pool)-2)
		members := L{}
		for _, x := range pool[:k] {
			members = append(members, x)
		}
		rep := append(L{}, members...)
		rep = append(rep, members[e.rng.Intn(len(members))])
		for _, v := range []interface{}{M{"nset": members}, M{"nset": rep}} {
			emit(kitchen, kitchen.roots[0], false, v)
			emit(kitchen, kitchen.roots[0], true, v)
		}
	}
	for i := 0; i < n; i++ {
		sd := pickSchema(e)
		tr := pickRoot(e, sd)
		mode := genMode{degenerate: e.rng.Intn(3) == 0, dups: e.rng.Intn(4) == 0}
		v := genValue(e.rng, &sd.parser.Schema, tr, mode, 4)
		emit(sd, tr, false, v)
		emit(sd, tr, true, v)
		// the same value through an equivalent reference must behave identically
		for k := 0; k < 3; k++ {
			c := corrupt(e.rng, v)
			emit(sd, tr, e.rng.Intn(2) == 0, c)
		}
		// validation makes every operation total: two accepted values of one type go
		// through each operation; an error or a panic is a failure
		if i%3 == 0 {
			w := mutate(e.rng, &sd.parser.Schema, tr, v, genMode{}, 3)
			ta, tb := typedOf(sd, tr, v, false), typedOf(sd, tr, w, false)
			if ta != nil && tb != nil {
				run := func(f func() error) (res string) {
					defer func() {
						if r := recover(); r != nil {
							res = "panic"
						}
					}()
					if err := f(); err != nil {
						return "err"
					}
					return "ok"
				}
				var fs *fieldpath.Set
				rs := []string{
					run(func() error { _, err := ta.Merge(tb); return err }),
					run(func() error { _, err := ta.Compare(tb); return err }),
					run(func() error { var err error; fs, err = ta.ToFieldSet(); return err }),
					run(func() error {
						if fs != nil {
							ta.RemoveItems(fs.Leaves())
							ta.ExtractItems(fs.Leaves(), typed.WithAppendKeyFields())
						}
						return nil
					}),
					run(func() error { return ta.Validate() }),
				}
				e.line(fmt.Sprintf("(c13.total %s %s %s %s (%s))", quote(sd.id), sexpTypeRef(tr), sexpValue(v), sexpValue(w), strings.Join(rs, " ")))
			}
		}
	}
	// schema documents against the schema of schemas
	if shardIndex == 0 {
		genC13SchemaDocs(e, tier)
	}
}

// ---------- shared helpers for typed results ----------

func typedOf(sd *schemaDef, tr schema.TypeRef, v interface{}, dup bool) *typed.TypedValue {
	tv, err, _ := asTyped(sd, tr, v, dup)
	if err != nil {
		return nil
	}
	return tv
}

func sexpTypedResult(tv *typed.TypedValue, err error, panicked bool) string {
	if panicked {
		return "panic"
	}
	if err != nil {
		return "err"
	}
	if tv == nil || tv.AsValue() == nil {
		return "(ok -)"
	}
	return "(ok " + sexpVal(tv.AsValue()) + ")"
}

func doMerge(l, r *typed.TypedValue) (s string, out *typed.TypedValue) {
	var err error
	panicked := false
	func() {
		defer func() {
			if x := recover(); x != nil {
				panicked = true
			}
		}()
		out, err = l.Merge(r)
	}()
	if panicked || err != nil {
		out = nil
	}
	return sexpTypedResult(out, err, panicked), out
}

func doCompare(l, r *typed.TypedValue) string {
	var c *typed.Comparison
	var err error
	panicked := false
	func() {
		defer func() {
			if x := recover(); x != nil {
				panicked = true
			}
		}()
		c, err = l.Compare(r)
	}()
	if panicked {
		return "panic"
	}
	if err != nil {
		return "err"
	}
	return "(ok " + sexpSet(c.Removed) + " " + sexpSet(c.Modified) + " " + sexpSet(c.Added) + ")"
}

func doFieldSet(tv *typed.TypedValue) (string, *fieldpath.Set) {
	var s *fieldpath.Set
	var err error
	panicked := false
	func() {
		defer func() {
			if x := recover(); x != nil {
				panicked = true
			}
		}()
		s, err = tv.ToFieldSet()
	}()
	if panicked {
		return "panic", nil
	}
	if err != nil {
		return "err", nil
	}
	return sexpSet(s), s
}

func guard(f func() string) (out string) {
	defer func() {
		if x := recover(); x != nil {
			out = "panic"
		}
	}()
	return f()
}

// ---------- C11 ----------

func genPair(e *emitter, plainOnly bool) (*schemaDef, schema.TypeRef, interface{}, interface{}, genMode) {
	sd := pickSchema(e)
	tr := pickRoot(e, sd)
	mode := genMode{}
	if !plainOnly {
		mode = genMode{degenerate: e.rng.Intn(3) == 0, dups: e.rng.Intn(4) == 0}
	}
	l := genValue(e.rng, &sd.parser.Schema, tr, mode, 4)
	var r interface{}
	if e.rng.Intn(4) == 0 {
		r = genValue(e.rng, &sd.parser.Schema, tr, mode, 4)
	} else {
		r = mutate(e.rng, &sd.parser.Schema, tr, l, mode, 4)
	}
	return sd, tr, l, r, mode
}

func genC11(e *emitter, tier string) {
	emitSchemas(e)
	n := 2500
	if tier == "thorough" {
		n = 150000
	}
	n /= shardCount
	for i := 0; i < n; i++ {
		sd, tr, l, r, _ := genPair(e, false)
		if i%8 == 0 {
			// groups of duplicate members of different sizes on the two sides, one a
			// prefix of the other: the last member of some list once more on the left,
			// twice more on the right (or the other way round)
			if d1, ok := dupLastMember(&sd.parser.Schema, tr, deepCopy(l)); ok {
				d2, _ := dupLastMember(&sd.parser.Schema, tr, deepCopy(d1))
				if e.rng.Intn(2) == 0 {
					l, r = d1, d2
				} else {
					l, r = d2, d1
				}
			}
		}
		if i%8 == 3 {
			// the same object twice, except that some map holds an explicit null under a
			// key that only one side has (same size, different key sets)
			if a, b, ok := nullSwap(e, deepCopy(l)); ok {
				if ta, tb := typedOf(sd, tr, a, true), typedOf(sd, tr, b, true); ta != nil && tb != nil {
					l, r = a, b
				}
			}
		}
		if i%8 == 6 {
			// the same object twice, except that one integer is written as the float of the
			// same value (1 and 1.0 are equal wherever they stand, inside atomic lists too)
			if a, ok := numSwap(e, deepCopy(l)); ok {
				if ta := typedOf(sd, tr, a, true); ta != nil {
					r = a
				}
			}
		}
		if i%8 == 5 {
			// the same object twice, except that one field of one list member is an explicit
			// null on the left (a key field with a default, now and then: the member's identity
			// then differs from that of the member spelling the default out)
			if a, ok := nullItemField(e, deepCopy(l)); ok {
				if ta := typedOf(sd, tr, a, true); ta != nil {
					r = deepCopy(l)
					l = a
				}
			}
		}
		tl, tr2 := typedOf(sd, tr, l, true), typedOf(sd, tr, r, true)
		if tl == nil || tr2 == nil {
			continue
		}
		null := typedOf(sd, tr, nil, true)
		e.line(fmt.Sprintf("(c11 %s %s %s %s %s %s %s)", quote(sd.id), sexpTypeRef(tr), sexpValue(l), sexpValue(r),
			doCompare(tl, tr2), doCompare(tr2, tl), doCompare(null, tr2)))
	}
}

// v with one small integer replaced by the float of the same value
func numSwap(e *emitter, v interface{}) (interface{}, bool) {
	type slot struct {
		m M
		k string
		l L
		i int
	}
	var slots []slot
	var walk func(x interface{})
	walk = func(x interface{}) {
		switch t := x.(type) {
		case M:
			for _, k := range sortedKeys(t) {
				if n, ok := t[k].(int64); ok && n > -1000 && n < 1000 {
					slots = append(slots, slot{m: t, k: k})
				}
				walk(t[k])
			}
		case L:
			for i, y := range t {
				if n, ok := y.(int64); ok && n > -1000 && n < 1000 {
					slots = append(slots, slot{l: t, i: i})
				}
				walk(y)
			}
		}
	}
	walk(v)
	if len(slots) == 0 {
		return nil, false
	}
	sl := slots[e.rng.Intn(len(slots))]
	if sl.m != nil {
		sl.m[sl.k] = float64(sl.m[sl.k].(int64))
	} else {
		sl.l[sl.i] = float64(sl.l[sl.i].(int64))
	}
	return v, true
}

// v with one field of one list member (a map inside a list) set to null; prefers the
// defaulted key "proto"
func nullItemField(e *emitter, v interface{}) (interface{}, bool) {
	var items []M
	var walk func(x interface{}, inList bool)
	walk = func(x interface{}, inList bool) {
		switch t := x.(type) {
		case M:
			if inList && len(t) > 0 {
				items = append(items, t)
			}
			for _, k := range sortedKeys(t) {
				walk(t[k], false)
			}
		case L:
			for _, y := range t {
				walk(y, true)
			}
		}
	}
	walk(v, false)
	if len(items) == 0 {
		return nil, false
	}
	it := items[e.rng.Intn(len(items))]
	for _, cand := range items {
		if _, has := cand["proto"]; has && e.rng.Intn(2) == 0 {
			it = cand
			break
		}
	}
	keys := sortedKeys(it)
	k := keys[e.rng.Intn(len(keys))]
	if _, has := it["proto"]; has && e.rng.Intn(2) == 0 {
		k = "proto"
	}
	it[k] = nil
	return v, true
}

// two copies of v in which one randomly chosen map got a null under a key of its own
func nullSwap(e *emitter, v interface{}) (interface{}, interface{}, bool) {
	var maps []M
	var walk func(x interface{})
	walk = func(x interface{}) {
		switch t := x.(type) {
		case M:
			maps = append(maps, t)
			for _, k := range sortedKeys(t) {
				walk(t[k])
			}
		case L:
			for _, y := range t {
				walk(y)
			}
		}
	}
	walk(v)
	if len(maps) == 0 {
		return nil, nil, false
	}
	// the copies are made by marking the chosen map first
	target := maps[e.rng.Intn(len(maps))]
	target["\x00mark"] = true
	var cp func(x interface{}, key string) interface{}
	cp = func(x interface{}, key string) interface{} {
		switch t := x.(type) {
		case M:
			out := M{}
			for k, y := range t {
				if k == "\x00mark" {
					out[key] = nil
					continue
				}
				out[k] = cp(y, key)
			}
			return out
		case L:
			out := make(L, len(t))
			for i, y := range t {
				out[i] = cp(y, key)
			}
			return out
		}
		return x
	}
	a, b := cp(v, "zna"), cp(v, "znb")
	delete(target, "\x00mark")
	return a, b, true
}

// ---------- C12 ----------

func genC12(e *emitter, tier string) {
	emitSchemas(e)
	n := 2000
	if tier == "thorough" {
		n = 100000
	}
	n /= shardCount
	for i := 0; i < n; i++ {
		sd := pickSchema(e)
		tr := pickRoot(e, sd)
		// three domains: plain; with nulls/empties; right-hand side with duplicates
		dom := e.rng.Intn(4)
		lm, rm := genMode{}, genMode{}
		switch dom {
		case 1:
			lm, rm = genMode{degenerate: true}, genMode{degenerate: true}
		case 2:
			rm = genMode{dups: true}
		}
		l := genValue(e.rng, &sd.parser.Schema, tr, lm, 4)
		var r interface{}
		if e.rng.Intn(4) == 0 {
			r = genValue(e.rng, &sd.parser.Schema, tr, rm, 4)
		} else {
			r = mutate(e.rng, &sd.parser.Schema, tr, l, rm, 4)
		}
		x := mutate(e.rng, &sd.parser.Schema, tr, r, lm, 4)
		tl := typedOf(sd, tr, l, false)
		trr := typedOf(sd, tr, r, dom == 2)
		tx := typedOf(sd, tr, x, false)
		null := typedOf(sd, tr, nil, false)
		if tl == nil || trr == nil || tx == nil {
			continue
		}
		mLR, oLR := doMerge(tl, trr)
		mLL, _ := doMerge(tl, tl)
		mLN, _ := doMerge(tl, null)
		mNR, _ := doMerge(null, trr)
		mLRR, mLRX, mRX, mLRXb := "-", "-", "-", "-"
		if oLR != nil {
			mLRR, _ = doMerge(oLR, trr)
			var oLRX *typed.TypedValue
			mLRX, oLRX = doMerge(oLR, tx)
			_ = oLRX
		}
		var oRX *typed.TypedValue
		mRX, oRX = doMerge(trr, tx)
		if oRX != nil {
			mLRXb, _ = doMerge(tl, oRX)
		}
		e.line(fmt.Sprintf("(c12 %s %s %d %s %s %s %s %s %s %s %s %s %s %s)", quote(sd.id), sexpTypeRef(tr), dom,
			sexpValue(l), sexpValue(r), sexpValue(x), mLR, mLL, mLN, mNR, mLRR, mLRX, mRX, mLRXb))
	}
}

// ---------- C14 ----------

func isKeyFieldPath(p fieldpath.Path) bool {
	if len(p) < 2 {
		return false
	}
	last, prev := p[len(p)-1], p[len(p)-2]
	if last.FieldName == nil || prev.Key == nil {
		return false
	}
	for _, f := range *prev.Key {
		if f.Name == *last.FieldName {
			return true
		}
	}
	return false
}

func genC14(e *emitter, tier string) {
	emitSchemas(e)
	n := 1200
	if tier == "thorough" {
		n = 40000
	}
	n /= shardCount
	maxExh := 6
	if tier == "thorough" {
		maxExh = 9
	}
	for i := 0; i < n; i++ {
		sd := pickSchema(e)
		tr := pickRoot(e, sd)
		v := genValue(e.rng, &sd.parser.Schema, tr, genMode{}, 4)
		tv := typedOf(sd, tr, v, false)
		if tv == nil {
			continue
		}
		fsStr, fs := doFieldSet(tv)
		if fs == nil {
			continue
		}
		leaves := fs.Leaves()
		var cand []fieldpath.Path
		leaves.Iterate(func(p fieldpath.Path) {
			if !isKeyFieldPath(p) {
				cand = append(cand, p.Copy())
			}
		})
		extractAll := guard(func() string { return sexpTypedResult(tv.ExtractItems(leaves), nil, false) })
		emitOne := func(sub []fieldpath.Path) {
			s := fieldpath.NewSet(sub...)
			var removed, extracted *typed.TypedValue
			rem := guard(func() string { removed = tv.RemoveItems(s); return sexpTypedResult(removed, nil, false) })
			ext := guard(func() string {
				extracted = tv.ExtractItems(s, typed.WithAppendKeyFields())
				return sexpTypedResult(extracted, nil, false)
			})
			merged := "-"
			if removed != nil && extracted != nil {
				merged, _ = doMerge(removed, extracted)
			}
			e.line(fmt.Sprintf("(c14 %s %s %s %s %s %s %s %s %s)", quote(sd.id), sexpTypeRef(tr), sexpValue(v), fsStr,
				sexpPaths(sub), rem, ext, merged, extractAll))
		}
		// selections naming interior nodes (prefixes of leaf paths), alone and next to leaves
		// beneath and beside them: what is taken from beneath a selected node
		if len(cand) > 0 {
			for k := 0; k < 2; k++ {
				var sub []fieldpath.Path
				lp := cand[e.rng.Intn(len(cand))]
				if len(lp) > 1 {
					sub = append(sub, lp[:1+e.rng.Intn(len(lp)-1)].Copy())
				}
				for _, p := range cand {
					if e.rng.Intn(4) == 0 {
						sub = append(sub, p)
					}
				}
				if len(sub) == 0 {
					continue
				}
				s := fieldpath.NewSet(sub...)
				rem := guard(func() string { return sexpTypedResult(tv.RemoveItems(s), nil, false) })
				ext := guard(func() string { return sexpTypedResult(tv.ExtractItems(s), nil, false) })
				extk := guard(func() string { return sexpTypedResult(tv.ExtractItems(s, typed.WithAppendKeyFields()), nil, false) })
				e.line(fmt.Sprintf("(c14.interior %s %s %s %s %s %s %s)", quote(sd.id), sexpTypeRef(tr), sexpValue(v), sexpPaths(sub), rem, ext, extk))
			}
		}
		if len(cand) <= maxExh && i%4 == 0 {
			// exhaustive over all subsets of the candidate leaves
			for mask := 0; mask < 1<<uint(len(cand)); mask++ {
				emitOne(subsetOf(cand, mask))
			}
		} else {
			for k := 0; k < 4; k++ {
				var sub []fieldpath.Path
				for _, p := range cand {
					if e.rng.Intn(3) == 0 {
						sub = append(sub, p)
					}
				}
				emitOne(sub)
			}
		}
	}
}

func joinStr(xs []string) string { return strings.Join(xs, " ") }

// appends a copy of the last member of the first non-empty set / associative list found
// (fields in sorted order); reports whether one was found
func dupLastMember(sc *schema.Schema, tr schema.TypeRef, v interface{}) (interface{}, bool) {
	a, ok := sc.Resolve(tr)
	if !ok {
		return v, false
	}
	switch t := v.(type) {
	case L:
		if a.List != nil && a.List.ElementRelationship == schema.Associative && len(t) > 0 {
			return append(t, deepCopy(t[len(t)-1])), true
		}
	case M:
		if a.Map == nil || a.Map.ElementRelationship == schema.Atomic {
			return v, false
		}
		for _, k := range sortedKeys(t) {
			ft := a.Map.ElementType
			if f, has := a.Map.FindField(k); has {
				ft = f.Type
			}
			if nv, ok := dupLastMember(sc, ft, t[k]); ok {
				t[k] = nv
				return t, true
			}
		}
	}
	return v, false
}
